/-
  C18 helper lemmas (core Lean only).
-/
import NutsModel.C18.Policy
import NutsModel.C18.Cache

namespace Nuts.C18
open Nuts

/-! ### the redirect loop -/

/-- invariant of the redirect loop: every request made is the current one, an earlier one, or was admitted by
    `checkRedirect` -/
theorem clientLoop_reqs (pol : Policy) (strict : Bool) (srv : Nat → Req → Option Resp) (first : Req) (P : Req → Prop)
    (hnext : ∀ nxt n, checkRedirect pol strict first nxt n = .ok () → P nxt) :
    ∀ fuel reqs cur, (∀ r ∈ reqs, P r) → P cur → ∀ r ∈ (clientLoop pol strict srv first fuel reqs cur).1, P r := by
  intro fuel
  induction fuel with
  | zero => intro reqs cur hr _ r hm; simpa [clientLoop] using hr r hm
  | succ n ih =>
    intro reqs cur hr hc r hm
    have hall : ∀ r ∈ reqs ++ [cur], P r := by
      intro r hr'; rcases List.mem_append.mp hr' with h | h
      · exact hr r h
      · simp at h; subst h; exact hc
    unfold clientLoop at hm
    simp only at hm
    split at hm
    · exact hall r hm
    · split at hm
      · exact hall r hm
      · split at hm
        · exact hall r hm
        · split at hm
          · exact hall r hm
          · exact hall r hm
          · split at hm
            · exact hall r hm
            · exact hall r hm
            · rename_i nxt _ hck
              exact ih _ _ hall (hnext _ _ hck) r hm

/-- the requests `StrictHTTPClient.Do` makes -/
theorem strictDo_reqs (pol : Policy) (strict : Bool) (srv : Nat → Req → Option Resp) (first : Req) (P : Req → Prop)
    (hfirst : P first) (hnext : ∀ nxt n, checkRedirect pol strict first nxt n = .ok () → P nxt) :
    ∀ r ∈ (strictDo pol strict srv first).1, P r := by
  intro r hm
  unfold strictDo at hm
  split at hm
  · simp at hm
  · have h := clientLoop_reqs pol strict srv first P hnext (pol.maxRedirects + 2) [] first (by simp) hfirst
    split at hm
    · rename_i reqs resp heq
      have : reqs = (clientLoop pol strict srv first (pol.maxRedirects + 2) [] first).1 := by rw [heq]
      split at hm <;> (simp only at hm; exact h r (this ▸ hm))
    · exact h r hm

theorem checkRedirect_sameOrigin {pol : Policy} {strict : Bool} {first nxt : Req} {n : Nat}
    (hp : pol.sameOriginRedirect = true) (h : checkRedirect pol strict first nxt n = .ok ()) :
    nxt.scheme = first.scheme ∧ nxt.host = first.host := by
  unfold checkRedirect at h
  split at h
  · cases h
  · split at h
    · cases h
    · split at h
      · cases h
      · rename_i hn
        simp [hp] at hn
        exact hn

theorem checkRedirect_strictHttps {pol : Policy} {first nxt : Req} {n : Nat}
    (hp : pol.strictHttpsRedirect = true) (h : checkRedirect pol true first nxt n = .ok ()) :
    nxt.scheme = sHttps := by
  unfold checkRedirect at h
  split at h
  · cases h
  · rename_i hn
    simpa [hp] using hn

/-! ### net/url model: cuts, prefixes and lengths -/

theorem cut_fst_prefix (c : Nat) : ∀ s : Bytes, (cut c s).1 <+: s
  | [] => by simp [cut]
  | x :: xs => by
    unfold cut
    split
    · simp
    · simp only; exact (List.cons_prefix_cons).mpr ⟨rfl, cut_fst_prefix c xs⟩

theorem not_mem_cut_fst (c : Nat) : ∀ s : Bytes, c ∉ (cut c s).1
  | [] => by simp [cut]
  | x :: xs => by
    unfold cut
    split
    · simp
    · rename_i h; simp only [List.mem_cons, not_or]; exact ⟨fun e => h e.symm, not_mem_cut_fst c xs⟩

theorem afterLast_length (c : Nat) : ∀ (s r : Bytes), afterLast c s = some r → r.length < s.length
  | [], r, h => by simp [afterLast] at h
  | x :: xs, r, h => by
    unfold afterLast at h
    split at h
    · rename_i r' hr; cases h; have := afterLast_length c xs _ hr; simp; omega
    · split at h
      · cases h; simp
      · cases h

theorem unescapeAll_length_le : ∀ s : Bytes, (unescapeAll s).length ≤ s.length := by
  intro s
  induction s using unescapeAll.induct with
  | case1 => simp [unescapeAll]
  | case2 a b rest ih => simp [unescapeAll]; omega
  | case3 c rest hne ih => rw [unescapeAll]; · simp; omega
                           · exact hne

theorem unescapeHost_length {s r : Bytes} (h : unescapeHost s = .ok r) : r.length ≤ s.length := by
  unfold unescapeHost at h; split at h
  · cases h; exact unescapeAll_length_le s
  · cases h

theorem unescapeZone_length {s r : Bytes} (h : unescapeZone s = .ok r) : r.length ≤ s.length := by
  unfold unescapeZone at h; split at h
  · cases h; exact unescapeAll_length_le s
  · cases h

theorem indexPct25_lt : ∀ (s : Bytes) (z : Nat), indexPct25 s = some z → z < s.length := by
  intro s
  induction s using indexPct25.induct with
  | case1 => intro z h; simp [indexPct25] at h
  | case2 rest => intro z h; simp [indexPct25] at h; subst h; simp
  | case3 c rest hne ih =>
    intro z h
    rw [indexPct25] at h
    · cases hr : indexPct25 rest with
      | none => simp [hr] at h
      | some z' => simp [hr] at h; have := ih z' hr; simp; omega
    · exact hne

theorem parseHost_length {s r : Bytes} (h : parseHost s = .ok r) : r.length ≤ s.length := by
  unfold parseHost at h
  split at h
  · split at h
    · cases h
    · rename_i colonPort hal
      have hcp := afterLast_length _ _ _ hal
      split at h
      · cases h
      · simp only at h
        split at h
        · rename_i zone hz
          split at h
          · rename_i h1 h2 h3 e1 e2 e3
            cases h
            have hzl := indexPct25_lt _ _ hz
            have l1 := unescapeHost_length e1
            have l2 := unescapeZone_length e2
            have l3 := unescapeHost_length e3
            simp only [List.length_append, List.length_take, List.length_drop] at *
            omega
          · cases h
        · exact unescapeHost_length h
  · split at h
    · split at h
      · cases h
      · exact unescapeHost_length h
    · exact unescapeHost_length h

/-- `parseAuthority` reports user-info exactly when the authority contains '@', and the host it returns is never
    longer than what follows the last '@' -/
theorem parseAuthority_spec {a host : Bytes} {hasUser : Bool} (h : parseAuthority a = .ok (hasUser, host)) :
    (hasUser = false ∧ host.length ≤ a.length) ∨ (hasUser = true ∧ host.length < a.length) := by
  unfold parseAuthority at h
  split at h
  · left
    cases hp : parseHost a with
    | ok r => simp [hp, Res.bind] at h; exact ⟨h.1, h.2 ▸ parseHost_length hp⟩
    | err e => simp [hp, Res.bind] at h
    | panic e => simp [hp, Res.bind] at h
  · right
    rename_i hostPart hal
    cases hp : parseHost hostPart with
    | ok r =>
      simp only [hp, Res.bind] at h
      split at h
      · cases h
      · split at h
        · simp only [Res.ok.injEq, Prod.mk.injEq] at h
          have := parseHost_length hp
          have := afterLast_length _ _ _ hal
          exact ⟨h.1.symm, by rw [← h.2]; omega⟩
        · cases h
    | err e => simp [hp, Res.bind] at h
    | panic e => simp [hp, Res.bind] at h

/-! ### url.Parse on "https://" + X -/

theorem cut_https (c : Nat) (hc : c ∉ sHttpsSS) (X : Bytes) :
    cut c (sHttpsSS ++ X) = (sHttpsSS ++ (cut c X).1, (cut c X).2) := by
  simp only [sHttpsSS, List.mem_cons, List.mem_nil_iff, or_false, not_or] at hc
  obtain ⟨h1, h2, h3, h4, h5, h6, h7, h8⟩ := hc
  simp [sHttpsSS, cut, Ne.symm h1, Ne.symm h2, Ne.symm h4, Ne.symm h5, Ne.symm h6, Ne.symm h7]

theorem getScheme_https (Y : Bytes) : getScheme (sHttpsSS ++ Y) = .ok (sHttps, cSlash :: cSlash :: Y) := by
  simp [getScheme, getSchemeAux, sHttpsSS, sHttps, isUpper, isLower, isDigit, cColon, cSlash]

theorem lower_https : lower sHttps = sHttps := by decide

/-- after the query has been split off "//Y", what remains is "//Z" with Z a prefix of Y -/
theorem splitQuery_slashes (Y : Bytes) : ∃ Z, (splitQuery (cSlash :: cSlash :: Y)).1 = cSlash :: cSlash :: Z ∧ Z <+: Y := by
  unfold splitQuery
  split
  · rename_i hc
    cases Y with
    | nil => simp [hasSuffix, cSlash, cQ] at hc
    | cons y ys =>
      refine ⟨(y :: ys).take ys.length, ?_, List.take_prefix _ _⟩
      simp [List.take]
  · exact ⟨(cut cQ Y).1, by simp [cut, cSlash, cQ], cut_fst_prefix _ _⟩

theorem setPath_fields {u v : URL} {p : Bytes} (h : setPath u p = .ok v) :
    v.scheme = u.scheme ∧ v.opaq = u.opaq ∧ v.hasUser = u.hasUser ∧ v.host = u.host := by
  unfold setPath at h
  cases hp : pathUnescape p with
  | ok r => simp [hp, Res.bind] at h; subst h; simp
  | err e => simp [hp, Res.bind] at h
  | panic e => simp [hp, Res.bind] at h

/-- what `url.Parse("https://" + X)` returns: scheme https, and an authority that is a '/'-free prefix of X -/
theorem parseURL_https (X : Bytes) (u : URL) (h : parseURL (sHttpsSS ++ X) = .ok u) :
    u.scheme = sHttps ∧ u.opaq = [] ∧ ∃ A, A <+: X ∧ cSlash ∉ A ∧ parseAuthority A = .ok (u.hasUser, u.host) := by
  unfold parseURL at h
  rw [cut_https cHash (by decide)] at h
  simp only at h
  generalize hY : (cut cHash X).1 = Y at h
  have hYX : Y <+: X := hY ▸ cut_fst_prefix _ _
  cases hp : parseNoFrag (sHttpsSS ++ Y) with
  | err e => simp [hp, Res.bind] at h
  | panic e => simp [hp, Res.bind] at h
  | ok v =>
    have hv : v.scheme = sHttps ∧ v.opaq = [] ∧ ∃ A, A <+: X ∧ cSlash ∉ A ∧ parseAuthority A = .ok (v.hasUser, v.host) := by
      unfold parseNoFrag at hp
      split at hp
      · cases hp
      · split at hp
        · rename_i h42; simp [sHttpsSS] at h42
        · rw [getScheme_https] at hp
          simp only [Res.bind] at hp
          obtain ⟨Z, hZ, hZY⟩ := splitQuery_slashes Y
          rw [hZ] at hp
          unfold parseHier at hp
          have e1 : hasPrefix [cSlash] (cSlash :: cSlash :: Z) = true := by simp [hasPrefix]
          have e2 : hasPrefix [cSlash, cSlash] (cSlash :: cSlash :: Z) = true := by simp [hasPrefix]
          have e3 : (sHttps ≠ []) := by decide
          simp only [e1, e2, e3, Bool.not_true, Bool.false_and, Bool.false_eq_true, if_false, ne_eq, not_false_eq_true,
            decide_true, Bool.true_or, Bool.and_self, if_true, List.drop_succ_cons, List.drop_zero] at hp
          cases ha : parseAuthority (cut cSlash Z).1 with
          | err e => simp [ha, Res.bind] at hp
          | panic e => simp [ha, Res.bind] at hp
          | ok r =>
            simp only [ha, Res.bind] at hp
            have := setPath_fields hp
            simp only [lower_https] at this
            refine ⟨this.1, this.2.1, (cut cSlash Z).1, ?_, not_mem_cut_fst _ _, ?_⟩
            · exact (cut_fst_prefix _ _).trans (hZY.trans hYX)
            · rw [ha, this.2.2.1, this.2.2.2]
    simp only [hp, Res.bind] at h
    split at h
    · cases h; exact hv
    · cases h; exact hv
    · cases hf : pathUnescape ‹Bytes› with
      | ok fr => simp [hf, Res.bind] at h; subst h; exact hv
      | err e => simp [hf, Res.bind] at h
      | panic e => simp [hf, Res.bind] at h

/-! ### DIDToURL: origin of the returned URL -/

theorem percentDecode_slash (dec : List Nat) (t : Bytes) : percentDecode dec (cSlash :: t) = cSlash :: percentDecode dec t := by
  simp [percentDecode, percentDecodeAux, decodeAt, cSlash]

/-- a '/'-free prefix of `H ++ P`, where `P` is empty or starts with '/', is a prefix of `H` -/
theorem prefix_of_slashfree {A H P : Bytes} (hA : A <+: H ++ P) (hs : cSlash ∉ A) (hP : P = [] ∨ ∃ t, P = cSlash :: t) :
    A.length ≤ H.length := by
  rcases hP with rfl | ⟨t, rfl⟩
  · simpa using hA.length_le
  · by_cases hl : A.length ≤ H.length
    · exact hl
    · exfalso
      have h1 : H ++ [cSlash] <+: H ++ cSlash :: t := by
        have : H ++ cSlash :: t = (H ++ [cSlash]) ++ t := by simp
        rw [this]; exact List.prefix_append _ _
      have h2 : H ++ [cSlash] <+: A := List.prefix_of_prefix_length_le h1 hA (by simp; omega)
      exact hs (h2.subset (by simp))

/-- **origin of the URL `DIDToURL` returns.** For EVERY `did.DID` value (any bytes): if `DIDToURL` succeeds, the URL is
    https, its host is exactly the percent-decoded first component of the identifier, it has no user-info, and the host
    name is not an IP address. -/
theorem didToURL_origin (dec : List Nat) (d : DID) (u : URL) (h : didToURL dec d = .ok u) :
    d.method = sWeb ∧ u.scheme = sHttps ∧ u.hasUser = false ∧ u.opaq = [] ∧
    pathUnescape (cut cColon d.id).1 = .ok u.host ∧ isIP (hostname u.host) = false := by
  unfold didToURL at h
  split at h
  · cases h
  · rename_i hm
    split at h
    · cases h
    · cases hpu : pathUnescape (cut cColon d.id).1 with
      | err e => simp [hpu] at h
      | panic e => simp [hpu] at h
      | ok H =>
        simp only [hpu, List.append_assoc] at h
        generalize hP : percentDecode dec (didPath d.id) = P at h
        have hPs : P = [] ∨ ∃ t, P = cSlash :: t := by
          rw [← hP]; unfold didPath
          cases (cut cColon d.id).2 with
          | none => left; simp [percentDecode, percentDecodeAux]
          | some t => right; exact ⟨_, percentDecode_slash dec _⟩
        cases hpp : parseURL (sHttpsSS ++ (H ++ P)) with
        | err e => simp [hpp] at h
        | panic e => simp [hpp] at h
        | ok v =>
          simp only [hpp] at h
          split at h
          · cases h
          · rename_i hhost
            split at h
            · cases h
            · rename_i hip
              cases h
              have hhost' : u.host = H := by simpa using hhost
              obtain ⟨hs, ho, A, hA, hsl, hauth⟩ := parseURL_https (H ++ P) u hpp
              have hAl := prefix_of_slashfree hA hsl hPs
              refine ⟨by simpa using hm, hs, ?_, ho, by rw [hhost'], by simpa using hip⟩
              rcases parseAuthority_spec hauth with ⟨hu, _⟩ | ⟨_, hlt⟩
              · exact hu
              · exfalso; rw [hhost'] at hlt; omega

/-! ### strings.Cut / Split / Join / LastIndex -/

theorem cut_notin (c : Nat) : ∀ s : Bytes, c ∉ s → cut c s = (s, none)
  | [], _ => by simp [cut]
  | x :: xs, h => by
    simp only [List.mem_cons, not_or] at h
    simp [cut, Ne.symm h.1, cut_notin c xs h.2]

theorem cut_append (c : Nat) : ∀ (a b : Bytes), c ∉ a → cut c (a ++ c :: b) = (a, some b)
  | [], b, _ => by simp [cut]
  | x :: xs, b, h => by
    simp only [List.mem_cons, not_or] at h
    simp [cut, Ne.symm h.1, cut_append c xs b h.2]

theorem splitOn_notin (c : Nat) : ∀ s : Bytes, c ∉ s → splitOn c s = [s]
  | [], _ => by simp [splitOn]
  | x :: xs, h => by
    simp only [List.mem_cons, not_or] at h
    simp [splitOn, Ne.symm h.1, splitOn_notin c xs h.2]

theorem splitOn_append (c : Nat) : ∀ (a b : Bytes), c ∉ a → splitOn c (a ++ c :: b) = a :: splitOn c b
  | [], b, _ => by simp [splitOn]
  | x :: xs, b, h => by
    simp only [List.mem_cons, not_or] at h
    simp [splitOn, Ne.symm h.1, splitOn_append c xs b h.2]

theorem splitOn_ne_nil (c : Nat) : ∀ s : Bytes, splitOn c s ≠ []
  | [] => by simp [splitOn]
  | x :: xs => by
    unfold splitOn
    split
    · simp
    · split <;> simp

theorem joinWith_cons_cons (c : Nat) (p q : Bytes) (ps : List Bytes) :
    joinWith c (p :: q :: ps) = p ++ c :: joinWith c (q :: ps) := by simp [joinWith]

theorem join_splitOn (c : Nat) : ∀ s : Bytes, joinWith c (splitOn c s) = s
  | [] => by simp [splitOn, joinWith]
  | x :: xs => by
    have ih := join_splitOn c xs
    unfold splitOn
    split
    · rename_i hx
      cases hs : splitOn c xs with
      | nil => exact absurd hs (splitOn_ne_nil c xs)
      | cons p ps => rw [hs] at ih; simp [joinWith_cons_cons, ih, hx]
    · split
      · rename_i hs; exact absurd hs (splitOn_ne_nil c xs)
      · rename_i p ps hs
        rw [hs] at ih
        cases ps with
        | nil => simp [joinWith] at ih ⊢; exact ih
        | cons q qs => simp [joinWith_cons_cons] at ih ⊢; exact ih

theorem splitOn_parts_notin (c : Nat) : ∀ s : Bytes, ∀ p ∈ splitOn c s, c ∉ p
  | [] => by simp [splitOn]
  | x :: xs => by
    have ih := splitOn_parts_notin c xs
    unfold splitOn
    split
    · intro p hp; simp at hp; rcases hp with rfl | hp
      · simp
      · exact ih p hp
    · rename_i hx
      split
      · intro p hp; simp at hp; subst hp; simp [Ne.symm hx]
      · rename_i q qs hs
        rw [hs] at ih
        intro p hp; simp at hp; rcases hp with rfl | hp
        · simp only [List.mem_cons, not_or]; exact ⟨fun e => hx e.symm, ih q (by simp)⟩
        · exact ih p (by simp [hp])

theorem afterLast_notin (c : Nat) : ∀ s : Bytes, c ∉ s → afterLast c s = none
  | [], _ => by simp [afterLast]
  | x :: xs, h => by
    simp only [List.mem_cons, not_or] at h
    simp [afterLast, afterLast_notin c xs h.2, Ne.symm h.1]

theorem afterLast_append (c : Nat) : ∀ (a b : Bytes), c ∉ b → afterLast c (a ++ c :: b) = some b
  | [], b, h => by simp [afterLast, afterLast_notin c b h]
  | x :: xs, b, h => by simp [afterLast, afterLast_append c xs b h]

theorem beforeLast_append (c : Nat) : ∀ (a b : Bytes), c ∉ a → c ∉ b → beforeLast c (a ++ c :: b) = a
  | [], b, _, h => by simp [beforeLast, afterLast_notin c b h]
  | x :: xs, b, ha, h => by
    simp only [List.mem_cons, not_or] at ha
    simp [beforeLast, afterLast_append c xs b h, beforeLast_append c xs b ha.2 h]

theorem hasDouble_append_notin (c : Nat) : ∀ (a b : Bytes), c ∉ a → hasDouble c (a ++ b) = hasDouble c b
  | [], b, _ => by simp
  | [x], b, h => by
    simp only [List.mem_cons, List.mem_nil_iff, or_false] at h
    cases b with
    | nil => simp [hasDouble]
    | cons y ys => simp [hasDouble, Ne.symm h]
  | x :: y :: rest, b, h => by
    simp only [List.mem_cons, not_or] at h
    have ih := hasDouble_append_notin c (y :: rest) b (by simp only [List.mem_cons, not_or]; exact h.2)
    simp only [List.cons_append] at ih ⊢
    simp [hasDouble, Ne.symm h.1, ih]

/-! ### the 14 reserved characters; strings without percent signs -/

def set14 : List Nat := [126, 33, 36, 38, 39, 40, 41, 42, 43, 44, 59, 61, 58, 64]

theorem set14_props {v : Nat} (h : set14.contains v = true) :
    33 ≤ v ∧ v ≤ 126 ∧ v ≠ 37 ∧ v ≠ 47 ∧ v ≠ 35 ∧ v ≠ 63 ∧ isNameChar v = false := by
  simp only [set14, List.contains_eq_mem, List.mem_cons, List.mem_nil_iff, or_false, decide_eq_true_eq] at h
  rcases h with rfl | rfl | rfl | rfl | rfl | rfl | rfl | rfl | rfl | rfl | rfl | rfl | rfl | rfl <;> decide

theorem nameChar_props {c : Nat} (h : isNameChar c = true) :
    45 ≤ c ∧ c ≤ 122 ∧ c ≠ 47 ∧ c ≠ 58 ∧ c ≠ 63 ∧ c ≠ 64 ∧ c ≠ 91 ∧ set14.contains c = false := by
  simp only [isNameChar, isAlnum, isDigit, isUpper, isLower, Bool.or_eq_true, Bool.and_eq_true, decide_eq_true_eq] at h
  have hb : 45 ≤ c ∧ c ≤ 122 ∧ c ≠ 47 ∧ c ≠ 58 ∧ c ≠ 63 ∧ c ≠ 64 ∧ c ≠ 91 ∧ c ≠ 59 ∧ c ≠ 61 := by omega
  refine ⟨hb.1, hb.2.1, hb.2.2.1, hb.2.2.2.1, hb.2.2.2.2.1, hb.2.2.2.2.2.1, hb.2.2.2.2.2.2.1, ?_⟩
  simp only [set14, List.contains_eq_mem, List.mem_cons, List.mem_nil_iff, or_false, decide_eq_false_iff_not]
  omega

/-! percent escapes on strings without '%' -/
theorem validEscapes_noPct : ∀ s : Bytes, (∀ c ∈ s, c ≠ 37) → validEscapes s = true := by
  intro s
  induction s using validEscapes.induct with
  | case1 => intro _; simp [validEscapes]
  | case2 a b rest ih => intro h; exact absurd rfl (h 37 (by simp))
  | case3 t hn => intro h; exact absurd rfl (h 37 (by simp))
  | case4 c rest h1 h2 ih =>
    intro h
    rw [validEscapes]
    · exact ih (fun c hc => h c (by simp [hc]))
    · exact h1
    · exact h2

theorem unescapeAll_noPct : ∀ s : Bytes, (∀ c ∈ s, c ≠ 37) → unescapeAll s = s := by
  intro s
  induction s using unescapeAll.induct with
  | case1 => intro _; simp [unescapeAll]
  | case2 a b rest ih => intro h; exact absurd rfl (h 37 (by simp))
  | case3 c rest hne ih =>
    intro h
    rw [unescapeAll]
    · rw [ih (fun c hc => h c (by simp [hc]))]
    · exact hne

theorem unescapeAll_append_noPct : ∀ (a b : Bytes), (∀ c ∈ a, c ≠ 37) → unescapeAll (a ++ b) = a ++ unescapeAll b
  | [], b, _ => by simp
  | x :: xs, b, h => by
    have hx : x ≠ 37 := h x (by simp)
    have ih := unescapeAll_append_noPct xs b (fun c hc => h c (by simp [hc]))
    simp only [List.cons_append]
    rw [unescapeAll]
    · rw [ih]
    · intros; simp_all

theorem validEscapes_append_noPct : ∀ (a b : Bytes), (∀ c ∈ a, c ≠ 37) → validEscapes (a ++ b) = validEscapes b
  | [], b, _ => by simp
  | x :: xs, b, h => by
    have hx : x ≠ 37 := h x (by simp)
    have ih := validEscapes_append_noPct xs b (fun c hc => h c (by simp [hc]))
    simp only [List.cons_append]
    rw [validEscapes]
    · exact ih
    all_goals (intros; simp_all)

/-! ### percentDecodeString on well-formed segments -/

theorem pd_plain (dec : List Nat) (c : Nat) (t : Bytes) (h : c ≠ 37) :
    percentDecode dec (c :: t) = c :: percentDecode dec t := by
  have : decodeAt dec (c :: t) = none := by
    unfold decodeAt; split
    · rename_i he; simp at he; exact absurd he.1 h
    · rfl
  simp [percentDecode, percentDecodeAux, this]

theorem pd_triple (dec : List Nat) (a b : Nat) (t : Bytes)
    (h : (isHex a && isHex b && dec.contains (unhex a * 16 + unhex b)) = true) :
    percentDecode dec (37 :: a :: b :: t) = (unhex a * 16 + unhex b) :: percentDecode dec t := by
  simp only [percentDecode, percentDecodeAux, decodeAt, h, if_true]

theorem upperHex_isHex {a : Nat} (h : isUpperHex a = true) : isHex a = true := by
  simp only [isUpperHex, isHex, isDigit, Bool.or_eq_true, Bool.and_eq_true, decide_eq_true_eq] at h ⊢
  omega

theorem upperHex_roundtrip {a : Nat} (h : isUpperHex a = true) : unhex a < 16 ∧ hexDigit (unhex a) = a := by
  simp only [isUpperHex, isDigit, Bool.or_eq_true, Bool.and_eq_true, decide_eq_true_eq] at h
  unfold unhex hexDigit isDigit
  rcases h with h | h
  · have e : (decide (48 ≤ a) && decide (a ≤ 57)) = true := by simp [h.1, h.2]
    rw [if_pos e]
    have : a - 48 < 10 := by omega
    rw [if_pos this]; omega
  · have e : ¬ (decide (48 ≤ a) && decide (a ≤ 57)) = true := by simp; omega
    have e2 : (decide (65 ≤ a) && decide (a ≤ 70)) = true := by simp [h.1, h.2]
    rw [if_neg e, if_pos e2]
    have : ¬ (a - 65 + 10 < 10) := by omega
    rw [if_neg this]; omega

/-- decoding distributes over a well-formed segment followed by anything -/
theorem pd_append_wf (set : List Nat) : ∀ (s t : Bytes), wfSeg set s = true →
    percentDecode set (s ++ t) = percentDecode set s ++ percentDecode set t := by
  intro s
  induction s using wfSeg.induct with
  | case1 => intro t _; simp [percentDecode, percentDecodeAux]
  | case2 a b rest ih =>
    intro t h
    simp only [wfSeg, Bool.and_eq_true] at h
    have hd : (isHex a && isHex b && set.contains (unhex a * 16 + unhex b)) = true := by
      rw [upperHex_isHex h.1.1.1, upperHex_isHex h.1.1.2, h.1.2]; rfl
    simp only [List.cons_append]
    rw [pd_triple set a b _ hd, pd_triple set a b _ hd, ih t h.2]; simp
  | case3 c rest hne ih =>
    intro t h
    rw [wfSeg] at h
    · simp only [Bool.and_eq_true] at h
      have hc : c ≠ 37 := by
        intro e; subst e; simp [isNameChar, isAlnum, isDigit, isUpper, isLower] at h
      simp only [List.cons_append]
      rw [pd_plain set c _ hc, pd_plain set c _ hc, ih t h.2]; simp
    · exact hne

/-- what a decoded well-formed segment consists of -/
theorem pd_chars (s : Bytes) : wfSeg set14 s = true →
    ∀ c ∈ percentDecode set14 s, isNameChar c = true ∨ set14.contains c = true := by
  induction s using wfSeg.induct with
  | case1 => intro _ c hc; simp [percentDecode, percentDecodeAux] at hc
  | case2 a b rest ih =>
    intro h c hc
    simp only [wfSeg, Bool.and_eq_true] at h
    have hd : (isHex a && isHex b && set14.contains (unhex a * 16 + unhex b)) = true := by
      rw [upperHex_isHex h.1.1.1, upperHex_isHex h.1.1.2, h.1.2]; rfl
    rw [pd_triple set14 a b _ hd] at hc
    simp only [List.mem_cons] at hc
    rcases hc with rfl | hc
    · right; exact h.1.2
    · exact ih h.2 c hc
  | case3 c' rest hne ih =>
    intro h c hc
    rw [wfSeg] at h
    · simp only [Bool.and_eq_true] at h
      have hc' : c' ≠ 37 := by
        intro e; subst e; simp [isNameChar, isAlnum, isDigit, isUpper, isLower] at h
      rw [pd_plain set14 c' _ hc'] at hc
      simp only [List.mem_cons] at hc
      rcases hc with rfl | hc
      · left; exact h.1
      · exact ih h.2 c hc
    · exact hne

theorem pd_ne_nil (s : Bytes) (h : wfSeg set14 s = true) (hs : s ≠ []) : percentDecode set14 s ≠ [] := by
  cases s with
  | nil => exact absurd rfl hs
  | cons c rest =>
    by_cases hc : c = 37
    · subst hc
      match rest, h with
      | a :: b :: r, h =>
        simp only [wfSeg, Bool.and_eq_true] at h
        have hd : (isHex a && isHex b && set14.contains (unhex a * 16 + unhex b)) = true := by
          rw [upperHex_isHex h.1.1.1, upperHex_isHex h.1.1.2, h.1.2]; rfl
        rw [pd_triple set14 a b _ hd]; simp
      | [], h => simp [wfSeg, isNameChar, isAlnum, isDigit, isUpper, isLower] at h
      | [a], h => simp [wfSeg, isNameChar, isAlnum, isDigit, isUpper, isLower] at h
    · rw [pd_plain set14 c _ hc]; simp

/-! ### percentEncodeString on ASCII input; encode after decode -/

theorem runesF_ascii : ∀ (n : Nat) (s : Bytes), s.length ≤ n → (∀ c ∈ s, c < 128) → runesF n s = s
  | 0, [], _, _ => by simp [runesF]
  | 0, x :: xs, h, _ => by simp at h
  | n + 1, [], _, _ => by simp [runesF]
  | n + 1, x :: xs, hl, ha => by
    have hx : x < 128 := ha x (by simp)
    have ih := runesF_ascii n xs (by simp at hl; omega) (fun c hc => ha c (by simp [hc]))
    simp [runesF, runeAt, hx, ih]

theorem runes_ascii (s : Bytes) (h : ∀ c ∈ s, c < 128) : runes s = s := runesF_ascii _ s (Nat.le_refl _) h

/-- byte-wise encoding step (what the loop does on ASCII input) -/
def encB (c : Nat) : Bytes := if set14.contains c then [cPct, hexDigit (c / 16), hexDigit (c % 16)] else [c]

theorem encodeRune_ascii {c : Nat} (h : c < 128) : encodeRune set14 c = encB c := by
  unfold encodeRune encB
  split
  · rfl
  · have : c % 256 = c := by omega
    rw [this]

theorem encB_plain {c : Nat} (h : set14.contains c = false) : encB c = [c] := by
  unfold encB; rw [if_neg]; rw [h]; exact Bool.false_ne_true

theorem encB_set {c : Nat} (h : set14.contains c = true) : encB c = [cPct, hexDigit (c / 16), hexDigit (c % 16)] := by
  unfold encB; rw [if_pos h]

theorem flatMap_congr' {f g : Nat → Bytes} : ∀ s : Bytes, (∀ c ∈ s, f c = g c) → s.flatMap f = s.flatMap g
  | [], _ => by simp
  | x :: xs, h => by
    simp only [List.flatMap_cons, h x (by simp), flatMap_congr' xs (fun c hc => h c (by simp [hc]))]

theorem encLen (s : Bytes) : s.length ≤ ((s.map fun r => if set14.contains r then 3 else 1).sum) ∧
    (((s.map fun r => if set14.contains r then 3 else 1).sum) = s.length → s.flatMap encB = s) := by
  induction s with
  | nil => simp
  | cons x xs ih =>
    simp only [List.map_cons, List.sum_cons, List.length_cons, List.flatMap_cons]
    by_cases hx : set14.contains x = true
    · simp only [hx, if_true]
      exact ⟨by omega, fun h => by omega⟩
    · simp only [hx, if_false, Bool.false_eq_true]
      refine ⟨by omega, fun h => ?_⟩
      have := ih.2 (by omega)
      rw [encB_plain (by simpa using hx), this]; rfl

theorem percentEncode_ascii (s : Bytes) (h : ∀ c ∈ s, c < 128) : percentEncode set14 s = s.flatMap encB := by
  unfold percentEncode lengthAfterEncoding
  rw [runes_ascii s h]
  split
  · rename_i he; exact ((encLen s).2 he).symm
  · exact flatMap_congr' s (fun c hc => encodeRune_ascii (h c hc))

theorem flatMap_encB_plain : ∀ s : Bytes, (∀ c ∈ s, set14.contains c = false) → s.flatMap encB = s
  | [], _ => by simp
  | x :: xs, h => by
    simp [encB_plain (h x (by simp)), flatMap_encB_plain xs (fun c hc => h c (by simp [hc]))]

/-- re-encoding a decoded well-formed segment gives the segment back -/
theorem enc_dec_seg (s : Bytes) : wfSeg set14 s = true → (percentDecode set14 s).flatMap encB = s := by
  induction s using wfSeg.induct with
  | case1 => intro _; simp [percentDecode, percentDecodeAux]
  | case2 a b rest ih =>
    intro h
    simp only [wfSeg, Bool.and_eq_true] at h
    have hd : (isHex a && isHex b && set14.contains (unhex a * 16 + unhex b)) = true := by
      rw [upperHex_isHex h.1.1.1, upperHex_isHex h.1.1.2, h.1.2]; rfl
    rw [pd_triple set14 a b _ hd]
    simp only [List.flatMap_cons, ih h.2]
    have ra := upperHex_roundtrip h.1.1.1
    have rb := upperHex_roundtrip h.1.1.2
    have e1 : (unhex a * 16 + unhex b) / 16 = unhex a := by omega
    have e2 : (unhex a * 16 + unhex b) % 16 = unhex b := by omega
    rw [encB_set h.1.2, e1, e2, ra.2, rb.2]; rfl
  | case3 c rest hne ih =>
    intro h
    rw [wfSeg] at h
    · simp only [Bool.and_eq_true] at h
      have hp := nameChar_props h.1
      have hc : c ≠ 37 := by omega
      rw [pd_plain set14 c _ hc]
      simp [encB_plain hp.2.2.2.2.2.2.2, ih h.2]
    · exact hne

theorem pd_ascii (s : Bytes) (h : wfSeg set14 s = true) : ∀ c ∈ percentDecode set14 s, c < 128 := by
  intro c hc
  rcases pd_chars s h c hc with h1 | h1
  · have := nameChar_props h1; omega
  · have := set14_props h1; omega

theorem percentEncode_decode (s : Bytes) (h : wfSeg set14 s = true) :
    percentEncode set14 (percentDecode set14 s) = s := by
  rw [percentEncode_ascii _ (pd_ascii s h), enc_dec_seg s h]

/-! ### the host component of a well-formed identifier -/

/-- encoded / decoded host component: name, optional port -/
def hEnc (name : Bytes) (port : Option Bytes) : Bytes := name ++ match port with | none => [] | some p => sPct3A ++ p
def hDec (name : Bytes) (port : Option Bytes) : Bytes := name ++ match port with | none => [] | some p => cColon :: p

structure HostOK (name : Bytes) (port : Option Bytes) : Prop where
  ne : name ≠ []
  nm : ∀ c ∈ name, isNameChar c = true
  notIP : isIPv4 name = false
  dg : ∀ p, port = some p → ∀ c ∈ p, isDigit c = true

theorem digit_props {c : Nat} (h : isDigit c = true) : isNameChar c = true := by
  simp only [isDigit, Bool.and_eq_true, decide_eq_true_eq] at h
  simp [isNameChar, isAlnum, isDigit, h.1, h.2]

theorem mem_takeWhile_sat {p : Nat → Bool} : ∀ (l : Bytes) (c : Nat), c ∈ l.takeWhile p → p c = true
  | [], c, h => by simp at h
  | x :: xs, c, h => by
    rw [List.takeWhile_cons] at h
    split at h
    · simp only [List.mem_cons] at h
      rcases h with rfl | h
      · assumption
      · exact mem_takeWhile_sat xs c h
    · simp at h

theorem wfHost_decomp {h : Bytes} (hw : wfHost h = true) : ∃ name port, HostOK name port ∧ h = hEnc name port := by
  unfold wfHost at hw
  simp only [Bool.and_eq_true, Bool.or_eq_true, decide_eq_true_eq, Bool.not_eq_true', ne_eq, decide_not] at hw
  obtain ⟨⟨hne, hip⟩, htl⟩ := hw
  have hsplit : h = h.takeWhile isNameChar ++ h.dropWhile isNameChar := (List.takeWhile_append_dropWhile).symm
  have hnm : ∀ c ∈ h.takeWhile isNameChar, isNameChar c = true := fun c hc => mem_takeWhile_sat _ c hc
  rcases htl with htl | ⟨hpre, hdig⟩
  · refine ⟨h.takeWhile isNameChar, none, ⟨by simpa using hne, hnm, hip, by simp⟩, ?_⟩
    simp only [hEnc, List.append_nil]
    rw [htl, List.append_nil] at hsplit; exact hsplit
  · refine ⟨h.takeWhile isNameChar, some ((h.dropWhile isNameChar).drop 3), ⟨by simpa using hne, hnm, hip, ?_⟩, ?_⟩
    · intro p hp c hc; cases hp; exact List.all_eq_true.mp hdig c hc
    · simp only [hEnc]
      have : sPct3A ++ (h.dropWhile isNameChar).drop 3 = h.dropWhile isNameChar := by
        have := List.prefix_iff_eq_append.mp (List.isPrefixOf_iff_prefix.mp hpre)
        simpa [sPct3A] using this
      rw [this]; exact hsplit

theorem hDec_chars {name : Bytes} {port : Option Bytes} (ok : HostOK name port) :
    ∀ c ∈ hDec name port, isNameChar c = true ∨ c = cColon := by
  intro c hc
  unfold hDec at hc
  rcases List.mem_append.mp hc with h | h
  · left; exact ok.nm c h
  · cases port with
    | none => simp at h
    | some p =>
      simp only [List.mem_cons] at h
      rcases h with rfl | h
      · right; rfl
      · left; exact digit_props (ok.dg p rfl c h)

theorem pathUnescape_hEnc {name : Bytes} {port : Option Bytes} (ok : HostOK name port) :
    pathUnescape (hEnc name port) = .ok (hDec name port) := by
  have hn : ∀ c ∈ name, c ≠ 37 := fun c hc => by have := nameChar_props (ok.nm c hc); omega
  unfold pathUnescape hEnc hDec
  rw [validEscapes_append_noPct _ _ hn, unescapeAll_append_noPct _ _ hn]
  cases port with
  | none => simp [validEscapes, unescapeAll]
  | some p =>
    have hp : ∀ c ∈ p, c ≠ 37 := fun c hc => by have := nameChar_props (digit_props (ok.dg p rfl c hc)); omega
    simp only [sPct3A, List.cons_append, List.nil_append]
    simp [validEscapes, unescapeAll, validEscapes_noPct p hp, unescapeAll_noPct p hp, isHex, isDigit, unhex, cColon]

theorem percentEncode_hDec {name : Bytes} {port : Option Bytes} (ok : HostOK name port) :
    percentEncode set14 (hDec name port) = hEnc name port := by
  have hasc : ∀ c ∈ hDec name port, c < 128 := by
    intro c hc
    rcases hDec_chars ok c hc with h | h
    · have := nameChar_props h; omega
    · subst h; decide
  rw [percentEncode_ascii _ hasc]
  unfold hDec hEnc
  rw [List.flatMap_append, flatMap_encB_plain name (fun c hc => (nameChar_props (ok.nm c hc)).2.2.2.2.2.2.2)]
  cases port with
  | none => simp
  | some p =>
    rw [List.flatMap_cons, flatMap_encB_plain p (fun c hc => (nameChar_props (digit_props (ok.dg p rfl c hc))).2.2.2.2.2.2.2)]
    have : encB cColon = sPct3A := by decide
    rw [this]

theorem seh_name {c : Nat} (h : isNameChar c = true ∨ c = cColon) : shouldEscapeHost c = false := by
  rcases h with h | rfl
  · simp only [isNameChar, Bool.or_eq_true, decide_eq_true_eq] at h
    rcases h with ((h | h) | h) | h
    · simp [shouldEscapeHost, h]
    · subst h; decide
    · subst h; decide
    · subst h; decide
  · decide

theorem hostCheck_ok : ∀ s : Bytes, (∀ c ∈ s, c ≠ 37 ∧ shouldEscapeHost c = false) → hostCheck s = true := by
  intro s
  induction s using hostCheck.induct with
  | case1 => intro _; simp [hostCheck]
  | case2 a b rest ih => intro h; exact absurd rfl (h 37 (by simp)).1
  | case3 t hn => intro h; exact absurd rfl (h 37 (by simp)).1
  | case4 c rest h1 h2 ih =>
    intro h
    rw [hostCheck]
    · simp [(h c (by simp)).2, ih (fun c hc => h c (by simp [hc]))]
    · exact h1
    · exact h2

theorem hasPrefix_single_ne {k x : Nat} (rest : Bytes) (h : k ≠ x) : hasPrefix [k] (x :: rest) = false := by
  simp [hasPrefix, List.isPrefixOf, h]

theorem hDec_head {name : Bytes} {port : Option Bytes} (ok : HostOK name port) :
    ∃ x rest, hDec name port = x :: rest ∧ isNameChar x = true := by
  cases hn : name with
  | nil => exact absurd hn ok.ne
  | cons x xs =>
    refine ⟨x, (hDec (x :: xs) port).tail, ?_, ok.nm x (by simp [hn])⟩
    simp [hDec]

theorem colon_notin_name {name : Bytes} (h : ∀ c ∈ name, isNameChar c = true) (k : Nat)
    (hk : k = 58 ∨ k = 64 ∨ k = 47 ∨ k = 63 ∨ k = 91) : k ∉ name := by
  intro hm; have := nameChar_props (h k hm); omega

theorem parseAuthority_hDec {name : Bytes} {port : Option Bytes} (ok : HostOK name port) :
    parseAuthority (hDec name port) = .ok (false, hDec name port) := by
  have hch := hDec_chars ok
  have hat : cAt ∉ hDec name port := by
    intro hm; rcases hch _ hm with h | h
    · have := nameChar_props h; simp [cAt] at this
    · simp [cAt, cColon] at h
  have hun : unescapeHost (hDec name port) = .ok (hDec name port) := by
    unfold unescapeHost
    have hnp : ∀ c ∈ hDec name port, c ≠ 37 := by
      intro c hc; rcases hch c hc with h | h
      · have := nameChar_props h; omega
      · subst h; decide
    rw [hostCheck_ok _ (fun c hc => ⟨hnp c hc, seh_name (hch c hc)⟩), unescapeAll_noPct _ hnp]; rfl
  have hph : parseHost (hDec name port) = .ok (hDec name port) := by
    obtain ⟨x, rest, hx, hxn⟩ := hDec_head ok
    unfold parseHost
    have hpre : hasPrefix [cLB] (hDec name port) = false := by
      rw [hx]; have := nameChar_props hxn; exact hasPrefix_single_ne _ (by simp only [cLB]; omega)
    rw [hpre]; simp only [Bool.false_eq_true, if_false]
    cases port with
    | none =>
      have : afterLast cColon (hDec name none) = none :=
        afterLast_notin _ _ (by simp only [hDec, List.append_nil]; exact colon_notin_name ok.nm _ (Or.inl rfl))
      rw [this]; exact hun
    | some p =>
      have hp : cColon ∉ p := by
        intro hm; have := nameChar_props (digit_props (ok.dg p rfl _ hm)); simp [cColon] at this
      have : afterLast cColon (hDec name (some p)) = some p := by simp only [hDec]; exact afterLast_append _ _ _ hp
      rw [this]
      have : p.all isDigit = true := List.all_eq_true.mpr (ok.dg p rfl)
      simp only [this, Bool.not_true, Bool.false_eq_true, if_false]; exact hun
  unfold parseAuthority
  rw [afterLast_notin _ _ hat, hph]; rfl

theorem find_special_name : ∀ name : Bytes, (∀ c ∈ name, isNameChar c = true) →
    name.find? (fun c => c = cDot || c = cColon || c = cPct) = none ∨
    name.find? (fun c => c = cDot || c = cColon || c = cPct) = some 46
  | [], _ => by simp
  | x :: xs, h => by
    have hx := nameChar_props (h x (by simp))
    by_cases h46 : x = 46
    · right; subst h46; simp [cDot]
    · have h58 : x ≠ 58 := by omega
      have h37 : x ≠ 37 := by omega
      have : (decide (x = cDot) || decide (x = cColon) || decide (x = cPct)) = false := by
        simp [cDot, cColon, cPct, h46, h58, h37]
      rw [List.find?_cons, this]
      exact find_special_name xs (fun c hc => h c (by simp [hc]))

theorem hostname_hDec {name : Bytes} {port : Option Bytes} (ok : HostOK name port) :
    hostname (hDec name port) = name ∧ isIP name = false := by
  constructor
  · obtain ⟨x, rest, hx, hxn⟩ : ∃ x rest, name = x :: rest ∧ isNameChar x = true := by
      cases hn : name with
      | nil => exact absurd hn ok.ne
      | cons x xs => exact ⟨x, xs, rfl, ok.nm x (by simp [hn])⟩
    have hpre : hasPrefix [cLB] name = false := by
      rw [hx]; have := nameChar_props hxn; exact hasPrefix_single_ne _ (by simp only [cLB]; omega)
    unfold hostname
    cases port with
    | none =>
      have : afterLast cColon (hDec name none) = none :=
        afterLast_notin _ _ (by simp only [hDec, List.append_nil]; exact colon_notin_name ok.nm _ (Or.inl rfl))
      rw [this]; simp [hDec, hpre]
    | some p =>
      have hp : cColon ∉ p := by
        intro hm; have := nameChar_props (digit_props (ok.dg p rfl _ hm)); simp [cColon] at this
      have h1 : afterLast cColon (hDec name (some p)) = some p := by simp only [hDec]; exact afterLast_append _ _ _ hp
      have h2 : beforeLast cColon (hDec name (some p)) = name := by
        simp only [hDec]; exact beforeLast_append _ _ _ (colon_notin_name ok.nm _ (Or.inl rfl)) hp
      have h3 : p.all isDigit = true := List.all_eq_true.mpr (ok.dg p rfl)
      rw [h1]; simp [h2, h3, hpre]
  · unfold isIP
    rcases find_special_name name ok.nm with h | h
    · rw [h]
    · rw [h]; exact ok.notIP

/-! ### the path segments of a well-formed identifier -/

def SegsOK (segs : List Bytes) : Prop := ∀ s ∈ segs, s ≠ [] ∧ wfSeg set14 s = true
def P0 (segs : List Bytes) : Bytes := segs.flatMap fun s => cSlash :: s
def PD (segs : List Bytes) : Bytes := segs.flatMap fun s => cSlash :: percentDecode set14 s

theorem upperHex_name {c : Nat} (h : isUpperHex c = true) : isNameChar c = true := by
  simp only [isUpperHex, isDigit, Bool.or_eq_true, Bool.and_eq_true, decide_eq_true_eq] at h
  simp only [isNameChar, isAlnum, isDigit, isUpper, isLower, Bool.or_eq_true, Bool.and_eq_true, decide_eq_true_eq]
  omega

theorem wfSeg_chars (s : Bytes) : wfSeg set14 s = true → ∀ c ∈ s, isNameChar c = true ∨ c = 37 := by
  induction s using wfSeg.induct with
  | case1 => intro _ c hc; simp at hc
  | case2 a b rest ih =>
    intro h c hc
    simp only [wfSeg, Bool.and_eq_true] at h
    simp only [List.mem_cons] at hc
    rcases hc with rfl | rfl | rfl | hc
    · right; rfl
    · left; exact upperHex_name h.1.1.1
    · left; exact upperHex_name h.1.1.2
    · exact ih h.2 c hc
  | case3 c' rest hne ih =>
    intro h c hc
    rw [wfSeg] at h
    · simp only [Bool.and_eq_true] at h
      simp only [List.mem_cons] at hc
      rcases hc with rfl | hc
      · left; exact h.1
      · exact ih h.2 c hc
    · exact hne

theorem wfSeg_notin (s : Bytes) (h : wfSeg set14 s = true) (k : Nat) (hk : k = 58 ∨ k = 47) : k ∉ s := by
  intro hm
  rcases wfSeg_chars s h k hm with h1 | h1
  · have := nameChar_props h1; omega
  · omega

theorem map_colonToSlash_id : ∀ s : Bytes, cColon ∉ s → s.map colonToSlash = s
  | [], _ => rfl
  | x :: xs, h => by
    simp only [List.mem_cons, not_or] at h
    simp [colonToSlash, Ne.symm h.1, map_colonToSlash_id xs h.2]

theorem map_join (s : Bytes) (ss : List Bytes) (h : SegsOK (s :: ss)) :
    cSlash :: (joinWith cColon (s :: ss)).map colonToSlash = P0 (s :: ss) := by
  induction ss generalizing s with
  | nil =>
    simp only [joinWith, P0, List.flatMap_cons, List.flatMap_nil, List.append_nil]
    rw [map_colonToSlash_id s (wfSeg_notin s (h s (by simp)).2 _ (Or.inl rfl))]
  | cons t ts ih =>
    have hs := wfSeg_notin s (h s (by simp)).2 _ (Or.inl rfl)
    have := ih t (fun x hx => h x (by simp [hx]))
    rw [joinWith_cons_cons, List.map_append, map_colonToSlash_id s hs, List.map_cons]
    simp only [P0, List.flatMap_cons] at this ⊢
    have e : colonToSlash cColon = cSlash := by decide
    rw [e, this]; simp

theorem didPath_join (h : Bytes) (segs : List Bytes) (hh : cColon ∉ h) (hs : SegsOK segs) :
    didPath (joinWith cColon (h :: segs)) = P0 segs ∧
    ((cut cColon (joinWith cColon (h :: segs))).2.isSome = !segs.isEmpty) ∧
    (cut cColon (joinWith cColon (h :: segs))).1 = h := by
  cases segs with
  | nil => simp [joinWith, didPath, cut_notin _ _ hh, P0]
  | cons s ss =>
    rw [joinWith_cons_cons]
    unfold didPath
    rw [cut_append _ _ _ hh]
    exact ⟨map_join s ss hs, by simp, rfl⟩

theorem pd_P0 : ∀ segs : List Bytes, SegsOK segs → percentDecode set14 (P0 segs) = PD segs
  | [], _ => by simp [P0, PD, percentDecode, percentDecodeAux]
  | s :: ss, h => by
    have ih := pd_P0 ss (fun x hx => h x (by simp [hx]))
    simp only [P0, PD, List.flatMap_cons] at ih ⊢
    rw [List.cons_append, pd_plain _ _ _ (by decide), pd_append_wf _ _ _ (h s (by simp)).2, ih]; rfl

/-- P0 / PD end in a character that is not '/' -/
theorem P_last (f : Bytes → Bytes) (hf : ∀ s, s ≠ [] ∧ wfSeg set14 s = true → f s ≠ [] ∧ cSlash ∉ f s) :
    ∀ segs : List Bytes, segs ≠ [] → SegsOK segs →
    ∃ init z, (segs.flatMap fun s => cSlash :: f s) = init ++ [z] ∧ z ≠ cSlash
  | [], h, _ => absurd rfl h
  | [s], _, hs => by
    obtain ⟨hne, hsl⟩ := hf s (hs s (by simp))
    refine ⟨cSlash :: (f s).dropLast, (f s).getLast hne, ?_, ?_⟩
    · simp only [List.flatMap_cons, List.flatMap_nil, List.append_nil, List.cons_append]; rw [List.dropLast_concat_getLast hne]
    · intro e; exact hsl (e ▸ List.getLast_mem hne)
  | s :: t :: ts, _, hs => by
    obtain ⟨init, z, he, hz⟩ := P_last f hf (t :: ts) (by simp) (fun x hx => hs x (by simp [hx]))
    refine ⟨cSlash :: f s ++ init, z, ?_, hz⟩
    rw [List.flatMap_cons, he]; simp

theorem hasSuffix_single_ne (init : Bytes) {z c : Nat} (h : z ≠ c) : hasSuffix [c] (init ++ [z]) = false := by
  simp [hasSuffix, List.isSuffixOf, List.isPrefixOf, Ne.symm h]

theorem hasDouble_P0 : ∀ segs : List Bytes, SegsOK segs → hasDouble cSlash (P0 segs) = false
  | [], _ => by simp [P0, hasDouble]
  | s :: ss, h => by
    have ih := hasDouble_P0 ss (fun x hx => h x (by simp [hx]))
    obtain ⟨hne, hw⟩ := h s (by simp)
    have hsl : cSlash ∉ s := wfSeg_notin s hw _ (Or.inr rfl)
    cases s with
    | nil => exact absurd rfl hne
    | cons x xs =>
      simp only [List.mem_cons, not_or] at hsl
      simp only [P0, List.flatMap_cons, List.cons_append] at ih ⊢
      have := hasDouble_append_notin cSlash (x :: xs) (P0 ss) (by simp only [List.mem_cons, not_or]; exact hsl)
      simp only [P0, List.cons_append] at this
      simp [hasDouble, Ne.symm hsl.1, this, ih]

/-! ### url.Parse on a clean host and path -/

theorem hasSuffix_mem {c : Nat} {l : Bytes} (h : hasSuffix [c] l = true) : c ∈ l :=
  (List.isSuffixOf_iff_suffix.mp h).subset (by simp)

theorem any_false_of {l : Bytes} {p : Nat → Bool} (h : ∀ c ∈ l, p c = false) : l.any p = false := by
  induction l with
  | nil => rfl
  | cons x xs ih => simp [h x (by simp), ih (fun c hc => h c (by simp [hc]))]

/-- `url.Parse("https://" + H + P)` for a clean host and path -/
theorem parseURL_clean (H P : Bytes) (hH : parseAuthority H = .ok (false, H))
    (hHc : ∀ c ∈ H, 33 ≤ c ∧ c ≤ 126 ∧ c ≠ 35 ∧ c ≠ 63 ∧ c ≠ 47)
    (hPc : ∀ c ∈ P, 33 ≤ c ∧ c ≤ 126 ∧ c ≠ 35 ∧ c ≠ 63 ∧ c ≠ 37)
    (hPs : P = [] ∨ ∃ t, P = cSlash :: t) :
    parseURL (sHttpsSS ++ (H ++ P)) =
      .ok { scheme := sHttps, host := H, path := P, rawPath := if escapePath P = P then [] else P } := by
  have hX : ∀ c ∈ H ++ P, 33 ≤ c ∧ c ≤ 126 ∧ c ≠ 35 ∧ c ≠ 63 := by
    intro c hc; rcases List.mem_append.mp hc with h | h
    · have := hHc c h; omega
    · have := hPc c h; omega
  have h35 : cHash ∉ H ++ P := fun hm => by have := hX _ hm; simp [cHash] at this
  have h63 : cQ ∉ H ++ P := fun hm => by have := hX _ hm; simp [cQ] at this
  have h47 : cSlash ∉ H := fun hm => by have := hHc _ hm; simp [cSlash] at this
  unfold parseURL
  rw [cut_https cHash (by decide), cut_notin _ _ h35]
  simp only
  have hnf : parseNoFrag (sHttpsSS ++ (H ++ P)) =
      .ok { scheme := sHttps, host := H, path := P, rawPath := if escapePath P = P then [] else P } := by
    unfold parseNoFrag
    have hctl : hasCTL (sHttpsSS ++ (H ++ P)) = false := by
      unfold hasCTL
      apply any_false_of
      intro c hc
      rcases List.mem_append.mp hc with h | h
      · simp only [sHttpsSS, List.mem_cons, List.mem_nil_iff, or_false] at h
        rcases h with rfl | rfl | rfl | rfl | rfl | rfl | rfl | rfl <;> decide
      · have := hX c h
        simp only [Bool.or_eq_false_iff, decide_eq_false_iff_not]; omega
    have h42 : ¬ (sHttpsSS ++ (H ++ P) = [42]) := by simp [sHttpsSS]
    rw [hctl]; simp only [Bool.false_eq_true, if_false, h42]
    rw [getScheme_https]
    simp only [Res.bind]
    have hsq : splitQuery (cSlash :: cSlash :: (H ++ P)) = (cSlash :: cSlash :: (H ++ P), false, []) := by
      unfold splitQuery
      have hq : cQ ∉ cSlash :: cSlash :: (H ++ P) := by
        simp only [List.mem_cons, not_or]; exact ⟨by decide, by decide, h63⟩
      have : hasSuffix [cQ] (cSlash :: cSlash :: (H ++ P)) = false := by
        cases hs : hasSuffix [cQ] (cSlash :: cSlash :: (H ++ P)) with
        | false => rfl
        | true => exact absurd (hasSuffix_mem hs) hq
      rw [this, cut_notin _ _ hq]; simp
    rw [hsq]
    unfold parseHier
    have e1 : hasPrefix [cSlash] (cSlash :: cSlash :: (H ++ P)) = true := by simp [hasPrefix]
    have e2 : hasPrefix [cSlash, cSlash] (cSlash :: cSlash :: (H ++ P)) = true := by simp [hasPrefix]
    have e3 : (sHttps ≠ []) := by decide
    simp only [e1, e2, e3, Bool.not_true, Bool.false_and, Bool.false_eq_true, if_false, ne_eq, not_false_eq_true,
      decide_true, Bool.true_or, Bool.and_self, if_true, List.drop_succ_cons, List.drop_zero, lower_https]
    have hnp : ∀ c ∈ P, c ≠ 37 := fun c hc => (hPc c hc).2.2.2.2
    have hsp : setPath { scheme := sHttps, hasUser := false, host := H, forceQuery := false, rawQuery := [] } P =
        .ok { scheme := sHttps, host := H, path := P, rawPath := if escapePath P = P then [] else P } := by
      unfold setPath pathUnescape
      rw [validEscapes_noPct P hnp, unescapeAll_noPct P hnp]
      simp [Res.bind]
    rcases hPs with rfl | ⟨t, rfl⟩
    · rw [List.append_nil, cut_notin _ _ h47, hH]
      simp only [Res.bind]
      exact hsp
    · rw [cut_append _ _ _ h47, hH]
      simp only [Res.bind]
      exact hsp
  rw [hnf]; rfl

/-! ### from the URL path back to the segments -/

theorem PD_chars (segs : List Bytes) (hs : SegsOK segs) :
    ∀ c ∈ PD segs, 33 ≤ c ∧ c ≤ 126 ∧ c ≠ 35 ∧ c ≠ 63 ∧ c ≠ 37 := by
  intro c hc
  simp only [PD, List.mem_flatMap, List.mem_cons] at hc
  obtain ⟨s, hsm, rfl | hc⟩ := hc
  · decide
  · rcases pd_chars s (hs s hsm).2 c hc with h | h
    · have := nameChar_props h; omega
    · have := set14_props h; omega

theorem PD_shape (segs : List Bytes) : PD segs = [] ∨ ∃ t, PD segs = cSlash :: t := by
  cases segs with
  | nil => left; rfl
  | cons s ss => right; exact ⟨percentDecode set14 s ++ PD ss, by simp [PD]⟩

theorem pd_noslash (s : Bytes) (h : wfSeg set14 s = true) : cSlash ∉ percentDecode set14 s := by
  intro hm
  rcases pd_chars s h _ hm with h1 | h1
  · have := nameChar_props h1; simp [cSlash] at this
  · have := set14_props h1; simp [cSlash] at this

theorem splitOn_PD_aux : ∀ (ss : List Bytes) (s : Bytes), SegsOK (s :: ss) →
    splitOn cSlash (percentDecode set14 s ++ PD ss) = percentDecode set14 s :: ss.map (percentDecode set14)
  | [], s, h => by
    simp only [PD, List.flatMap_nil, List.append_nil, List.map_nil]
    exact splitOn_notin _ _ (pd_noslash s (h s (by simp)).2)
  | t :: ts, s, h => by
    have ih := splitOn_PD_aux ts t (fun x hx => h x (by simp [hx]))
    simp only [PD, List.flatMap_cons, List.cons_append, List.map_cons] at ih ⊢
    rw [splitOn_append _ _ _ (pd_noslash s (h s (by simp)).2), ih]

theorem splitOn_PD (s : Bytes) (ss : List Bytes) (h : SegsOK (s :: ss)) :
    splitOn cSlash (PD (s :: ss)) = [] :: (s :: ss).map (percentDecode set14) := by
  have := splitOn_PD_aux ss s h
  simp only [PD, List.flatMap_cons, List.cons_append] at this ⊢
  simp [splitOn, this]

theorem prefix_align (c : Nat) : ∀ (a b t q : Bytes), a ++ c :: t = b ++ c :: q → c ∉ a → c ∉ b → a = b
  | [], [], _, _, _, _, _ => rfl
  | [], y :: ys, t, q, h, _, hb => by simp at h; exact absurd h.1 (fun e => hb (by simp [e]))
  | x :: xs, [], t, q, h, ha, _ => by simp at h; exact absurd h.1 (fun e => ha (by simp [e]))
  | x :: xs, y :: ys, t, q, h, ha, hb => by
    simp only [List.cons_append, List.cons.injEq] at h
    simp only [List.mem_cons, not_or] at ha hb
    rw [h.1, prefix_align c xs ys t q h.2 ha.2 hb.2]

theorem suffix_align (c : Nat) (a b t q : Bytes) (h : t ++ c :: a = q ++ c :: b) (ha : c ∉ a) (hb : c ∉ b) : a = b := by
  have h' := congrArg List.reverse h
  simp only [List.reverse_append, List.reverse_cons, List.append_assoc, List.singleton_append] at h'
  have := prefix_align c a.reverse b.reverse t.reverse q.reverse h' (by simpa using ha) (by simpa using hb)
  exact List.reverse_inj.mp this

/-- the URL path of a well-formed identifier does not end in "/did.json" -/
theorem no_didjson_suffix (segs : List Bytes) (hs : SegsOK segs) (hl : segs.getLast? ≠ some sDidJsonSeg) :
    hasSuffix sDidJson (PD segs) = false := by
  cases hsuf : hasSuffix sDidJson (PD segs) with
  | false => rfl
  | true =>
    exfalso
    obtain ⟨t, ht⟩ := List.isSuffixOf_iff_suffix.mp hsuf
    cases hsegs : segs with
    | nil => simp [hsegs, PD, sDidJson] at ht
    | cons s0 ss0 =>
      have hne : segs ≠ [] := by simp [hsegs]
      have hdl := List.dropLast_concat_getLast hne
      have hlast := hs (segs.getLast hne) (List.getLast_mem hne)
      have hPD : PD segs = PD segs.dropLast ++ cSlash :: percentDecode set14 (segs.getLast hne) := by
        conv => lhs; rw [← hdl]
        simp [PD]
      rw [hPD] at ht
      have e : sDidJson = cSlash :: sDidJsonSeg := by decide
      rw [e] at ht
      have := suffix_align cSlash sDidJsonSeg (percentDecode set14 (segs.getLast hne)) t _ ht (by decide) (pd_noslash _ hlast.2)
      have h2 : segs.getLast hne = sDidJsonSeg := by
        rw [← percentEncode_decode _ hlast.2, ← this]; decide
      exact hl (by rw [List.getLast?_eq_some_getLast hne, h2])

theorem no_wellknown_suffix (segs : List Bytes) (hs : SegsOK segs) (hl : segs.getLast? ≠ some sDidJsonSeg) :
    hasSuffix (sWellKnown ++ sDidJson) (PD segs) = false := by
  cases hsuf : hasSuffix (sWellKnown ++ sDidJson) (PD segs) with
  | false => rfl
  | true =>
    have h1 := List.isSuffixOf_iff_suffix.mp hsuf
    have h2 : sDidJson <:+ PD segs := (List.suffix_append sWellKnown sDidJson).trans h1
    have := no_didjson_suffix segs hs hl
    rw [show hasSuffix sDidJson (PD segs) = true from List.isSuffixOf_iff_suffix.mpr h2] at this
    exact absurd this (by simp)

/-! ### did.ParseDID on well-formed identifiers -/

theorem spanId_idOK : ∀ s : Bytes, idOK s = true → spanId s = (s, []) := by
  intro s
  induction s using idOK.induct with
  | case1 => intro _; simp [spanId]
  | case2 a b rest ih =>
    intro h
    simp only [idOK, Bool.and_eq_true] at h
    have e : (isHex a && isHex b) = true := by rw [h.1.1, h.1.2]; rfl
    simp only [spanId, e, if_true, ih h.2]
  | case3 c rest hne ih =>
    intro h
    rw [idOK] at h
    · simp only [Bool.and_eq_true] at h
      rw [spanId]
      · simp only [h.1, if_true, ih h.2]
      · exact hne
    · exact hne

theorem idOK_append : ∀ a b : Bytes, idOK a = true → idOK b = true → idOK (a ++ b) = true := by
  intro a
  induction a using idOK.induct with
  | case1 => intro b _ hb; simpa using hb
  | case2 x y rest ih =>
    intro b ha hb
    simp only [idOK, Bool.and_eq_true] at ha
    simp only [List.cons_append, idOK, Bool.and_eq_true]
    exact ⟨ha.1, ih b ha.2 hb⟩
  | case3 c rest hne ih =>
    intro b ha hb
    rw [idOK] at ha
    · simp only [Bool.and_eq_true] at ha
      have hc : c ≠ 37 := by intro e; subst e; simp [isIdChar, isAlnum, isDigit, isUpper, isLower] at ha
      simp only [List.cons_append]
      rw [idOK]
      · simp [ha.1, ih b ha.2 hb]
      · intros; simp_all
    · exact hne

theorem name_idChar {c : Nat} (h : isNameChar c = true) : isIdChar c = true ∧ c ≠ 37 := by
  have hp := nameChar_props h
  simp only [isNameChar, Bool.or_eq_true, decide_eq_true_eq] at h
  simp only [isIdChar, Bool.or_eq_true, decide_eq_true_eq]
  exact ⟨by rcases h with ((h | h) | h) | h <;> simp [h], by omega⟩

theorem idOK_name : ∀ s : Bytes, (∀ c ∈ s, isNameChar c = true) → idOK s = true
  | [], _ => by simp [idOK]
  | x :: xs, h => by
    have hx := name_idChar (h x (by simp))
    rw [idOK]
    · simp [hx.1, idOK_name xs (fun c hc => h c (by simp [hc]))]
    · intros; simp_all

theorem idOK_seg (s : Bytes) : wfSeg set14 s = true → idOK s = true := by
  induction s using wfSeg.induct with
  | case1 => intro _; simp [idOK]
  | case2 a b rest ih =>
    intro h
    simp only [wfSeg, Bool.and_eq_true] at h
    simp [idOK, upperHex_isHex h.1.1.1, upperHex_isHex h.1.1.2, ih h.2]
  | case3 c rest hne ih =>
    intro h
    rw [wfSeg] at h
    · simp only [Bool.and_eq_true] at h
      rw [idOK]
      · simp [(name_idChar h.1).1, ih h.2]
      · exact hne
    · exact hne

theorem idOK_hEnc {name : Bytes} {port : Option Bytes} (ok : HostOK name port) : idOK (hEnc name port) = true := by
  unfold hEnc
  apply idOK_append _ _ (idOK_name name ok.nm)
  cases port with
  | none => simp [idOK]
  | some p =>
    have := idOK_name p (fun c hc => digit_props (ok.dg p rfl c hc))
    simp [sPct3A, idOK, isHex, isDigit, this]

theorem idOK_join (h : Bytes) (hh : idOK h = true) : ∀ segs : List Bytes, SegsOK segs →
    idOK (joinWith cColon (h :: segs)) = true
  | [], _ => by simpa [joinWith] using hh
  | s :: ss, hs => by
    rw [joinWith_cons_cons]
    apply idOK_append _ _ hh
    have ih := idOK_join s (idOK_seg s (hs s (by simp)).2) ss (fun x hx => hs x (by simp [hx]))
    have ih' : idOK (joinWith 58 (s :: ss)) = true := ih
    rw [idOK]
    · simp [isIdChar, cColon, ih']
    · intros; simp_all [cColon]

theorem parseDID_web (id : Bytes) (hid : idOK id = true) (hne : id ≠ []) :
    parseDID (sDidWeb ++ id) = .ok { method := sWeb, id := id } := by
  unfold parseDID
  have h1 : hasPrefix sDid (sDidWeb ++ id) = true := by simp [hasPrefix, sDid, sDidWeb, List.isPrefixOf]
  have h2 : (sDidWeb ++ id).drop 4 = 119 :: 101 :: 98 :: 58 :: id := by simp [sDidWeb]
  have h3 : (119 :: 101 :: 98 :: 58 :: id).takeWhile (fun c => isDigit c || isLower c) = [119, 101, 98] := by
    simp [List.takeWhile, isDigit, isLower]
  simp only [h1, h2, h3, Bool.not_true, Bool.false_eq_true, if_false, List.length_cons, List.length_nil,
    List.drop_succ_cons, List.drop_zero]
  rw [spanId_idOK id hid]
  simp [hne, sWeb]

/-! ### the round trip -/

theorem colon_notin_hEnc {name : Bytes} {port : Option Bytes} (ok : HostOK name port) : cColon ∉ hEnc name port := by
  intro hm
  unfold hEnc at hm
  rcases List.mem_append.mp hm with h | h
  · exact colon_notin_name ok.nm _ (Or.inl rfl) h
  · cases port with
    | none => simp at h
    | some p =>
      rcases List.mem_append.mp h with h | h
      · simp [sPct3A, cColon] at h
      · have := nameChar_props (digit_props (ok.dg p rfl _ h)); simp [cColon] at this

theorem filter_parts (s : Bytes) (ss : List Bytes) (h : SegsOK (s :: ss)) :
    (([] : Bytes) :: (s :: ss).map (percentDecode set14)).filter (fun x => decide (x ≠ [])) =
      (s :: ss).map (percentDecode set14) := by
  rw [List.filter_cons]
  simp only [ne_eq, not_true_eq_false, decide_false, Bool.false_eq_true, if_false]
  apply List.filter_eq_self.mpr
  intro x hx
  obtain ⟨y, hy, rfl⟩ := List.mem_map.mp hx
  simpa using pd_ne_nil y (h y hy).2 (h y hy).1

theorem map_encode_parts (segs : List Bytes) (h : SegsOK segs) :
    (segs.map (percentDecode set14)).map (percentEncode set14) = segs := by
  rw [List.map_map]
  conv => rhs; rw [← List.map_id segs]
  apply List.map_congr_left
  intro s hs
  exact percentEncode_decode s (h s hs).2

/-- **round trip, generative form** -/
theorem roundtrip_parts (name : Bytes) (port : Option Bytes) (segs : List Bytes) (ok : HostOK name port)
    (hs : SegsOK segs) (hl : segs.getLast? ≠ some sDidJsonSeg) :
    ∃ u, didToURL set14 { method := sWeb, id := joinWith cColon (hEnc name port :: segs) } = .ok u ∧
      urlToDID set14 u = .ok { method := sWeb, id := joinWith cColon (hEnc name port :: segs) } ∧
      u.scheme = sHttps ∧ u.host = hDec name port ∧ u.path = PD segs := by
  have hcol := colon_notin_hEnc ok
  obtain ⟨hdp, hsome, hfst⟩ := didPath_join (hEnc name port) segs hcol hs
  have hHc : ∀ c ∈ hDec name port, 33 ≤ c ∧ c ≤ 126 ∧ c ≠ 35 ∧ c ≠ 63 ∧ c ≠ 47 := by
    intro c hc
    rcases hDec_chars ok c hc with h | h
    · have := nameChar_props h; omega
    · subst h; decide
  have hparse := parseURL_clean (hDec name port) (PD segs) (parseAuthority_hDec ok) hHc (PD_chars segs hs) (PD_shape segs)
  have hhost := hostname_hDec ok
  refine ⟨{ scheme := sHttps, host := hDec name port, path := PD segs,
            rawPath := if escapePath (PD segs) = PD segs then [] else PD segs }, ?_, ?_, rfl, rfl, rfl⟩
  · -- DIDToURL
    unfold didToURL
    simp only [ne_eq, not_true_eq_false, if_false, hdp, hsome, hfst]
    have hchk : (!segs.isEmpty && (hasSuffix [cSlash] (P0 segs) || hasDouble cSlash (P0 segs))) = false := by
      cases hseg : segs with
      | nil => simp
      | cons s ss =>
        have hne : segs ≠ [] := by simp [hseg]
        obtain ⟨init, z, he, hz⟩ := P_last (fun s => s)
          (fun s h => ⟨h.1, wfSeg_notin s h.2 _ (Or.inr rfl)⟩) segs hne hs
        have he' : P0 segs = init ++ [z] := he
        rw [← hseg, he', hasSuffix_single_ne init hz, ← he', hasDouble_P0 segs hs]; simp
    rw [hchk]
    simp only [Bool.false_eq_true, if_false]
    rw [pathUnescape_hEnc ok]
    simp only
    rw [pd_P0 segs hs, List.append_assoc, hparse]
    simp only [hhost.1, hhost.2, not_true_eq_false, if_false, Bool.false_eq_true]
  · -- URLToDID
    unfold urlToDID
    have hpath : (if (if escapePath (PD segs) = PD segs then ([] : Bytes) else PD segs) ≠ [] then
        (if escapePath (PD segs) = PD segs then [] else PD segs) else PD segs) = PD segs := by
      by_cases he : escapePath (PD segs) = PD segs
      · simp [he]
      · simp only [he, if_false]; split <;> rfl
    simp only [hpath]
    have hc1 : cutSuffix (sWellKnown ++ sDidJson) (PD segs) = PD segs := by
      unfold cutSuffix; rw [no_wellknown_suffix segs hs hl]; simp
    have hc2 : cutSuffix sDidJson (PD segs) = PD segs := by
      unfold cutSuffix; rw [no_didjson_suffix segs hs hl]; simp
    rw [hc1, hc2, percentEncode_hDec ok]
    have hidne : joinWith cColon (hEnc name port :: segs) ≠ [] := by
      have hn : hEnc name port ≠ [] := by
        unfold hEnc; intro e; exact ok.ne (List.append_eq_nil_iff.mp e).1
      cases segs with
      | nil => simpa [joinWith] using hn
      | cons s ss => rw [joinWith_cons_cons]; intro e; exact hn (List.append_eq_nil_iff.mp e).1
    have hidok := idOK_join _ (idOK_hEnc ok) segs hs
    cases hseg : segs with
    | nil =>
      subst hseg
      have : ((splitOn cSlash (PD [])).filter (fun x => decide (x ≠ []))).map (percentEncode set14) = [] := by
        simp [PD, splitOn]
      simp only [this, if_true, List.append_nil]
      have := parseDID_web _ hidok hidne
      simpa [joinWith] using this
    | cons s ss =>
      subst hseg
      rw [splitOn_PD s ss hs, filter_parts s ss hs, map_encode_parts _ hs]
      simp only [reduceCtorEq, if_false]
      have := parseDID_web _ hidok hidne
      rw [joinWith_cons_cons] at this ⊢
      simpa [List.append_assoc] using this

/-! ### the shared HTTP cache: the index is injective -/

theorem lower_of_isLower : ∀ s : Bytes, s.all isLower = true → lower s = s
  | [], _ => rfl
  | x :: xs, h => by
    simp only [List.all_cons, Bool.and_eq_true] at h
    have hx : isUpper x = false := by
      simp only [isLower, Bool.and_eq_true, decide_eq_true_eq] at h
      simp [isUpper]; omega
    simp [lower, toLowerB, hx]
    exact lower_of_isLower xs h.2

/-- a separator that occurs in neither prefix splits uniquely -/
theorem sep_uniq (c : Nat) {a a' b b' : Bytes} (h : a ++ c :: b = a' ++ c :: b') (ha : c ∉ a) (ha' : c ∉ a') : a = a' ∧ b = b' := by
  have e := prefix_align c a a' b b' h ha ha'
  subst e
  exact ⟨rfl, by simpa using h⟩

/-- an optional `c`-introduced suffix after `c`-free prefixes -/
theorem opt_suffix_inj (c : Nat) {a a' x x' : Bytes}
    (h : a ++ (if x = [] then [] else c :: x) = a' ++ (if x' = [] then [] else c :: x')) (ha : c ∉ a) (ha' : c ∉ a') :
    a = a' ∧ x = x' := by
  by_cases hx : x = [] <;> by_cases hx' : x' = []
  · subst hx hx'; simpa using h
  · subst hx; simp only [if_true, hx', if_false, List.append_nil] at h
    exact absurd (h ▸ (by simp : c ∈ a' ++ c :: x')) ha
  · subst hx'; simp only [if_true, hx, if_false, List.append_nil] at h
    exact absurd (h.symm ▸ (by simp : c ∈ a ++ c :: x)) ha'
  · simp only [hx, hx', if_false] at h
    exact sep_uniq c h ha ha'

/-- an optional `c`-terminated prefix before `c`-free remainders -/
theorem opt_prefix_inj (c : Nat) {x x' b b' : Bytes}
    (h : (if x = [] then [] else x ++ [c]) ++ b = (if x' = [] then [] else x' ++ [c]) ++ b')
    (hx : c ∉ x) (hx' : c ∉ x') (hb : c ∉ b) (hb' : c ∉ b') : x = x' ∧ b = b' := by
  by_cases e : x = [] <;> by_cases e' : x' = []
  · subst e e'; simpa using h
  · subst e; simp only [if_true, e', if_false, List.nil_append, List.append_assoc, List.singleton_append] at h
    exact absurd (h ▸ (by simp : c ∈ x' ++ c :: b')) hb
  · subst e'; simp only [if_true, e, if_false, List.nil_append, List.append_assoc, List.singleton_append] at h
    exact absurd (h.symm ▸ (by simp : c ∈ x ++ c :: b)) hb'
  · simp only [e, e', if_false, List.append_assoc, List.singleton_append] at h
    exact sep_uniq c h hx hx'

theorem cacheKey_inj (u v : CUrl) (hu : u.wf = true) (hv : v.wf = true) (h : cacheKey u = cacheKey v) : u = v := by
  obtain ⟨s1, u1, h1, p1, q1, f1⟩ := u
  obtain ⟨s2, u2, h2, p2, q2, f2⟩ := v
  simp only [CUrl.wf, Bool.and_eq_true, List.all_eq_true, decide_eq_true_eq, ne_eq] at hu hv
  obtain ⟨⟨⟨⟨⟨hs1, hu1⟩, hh1⟩, hp01⟩, hp1⟩, hq1⟩ := hu
  obtain ⟨⟨⟨⟨⟨hs2, hu2⟩, hh2⟩, hp02⟩, hp2⟩, hq2⟩ := hv
  have reassoc : ∀ {l : Bytes}, (∀ x ∈ l, ((¬x = cSlash ∧ ¬x = cQ) ∧ ¬x = cHash) ∧ ¬x = cAt) →
      ∀ x ∈ l, ¬x = cSlash ∧ ¬x = cQ ∧ ¬x = cHash ∧ ¬x = cAt :=
    fun h x hx => ⟨(h x hx).1.1.1, (h x hx).1.1.2, (h x hx).1.2, (h x hx).2⟩
  replace hu1 := reassoc hu1
  replace hu2 := reassoc hu2
  replace hh1 := reassoc hh1
  replace hh2 := reassoc hh2
  have sl1 := lower_of_isLower s1 (List.all_eq_true.mpr hs1)
  have sl2 := lower_of_isLower s2 (List.all_eq_true.mpr hs2)
  have hsn : ∀ (s : Bytes), (∀ x ∈ s, isLower x = true) → ∀ k, (k = cHash ∨ k = cColon ∨ k = cQ ∨ k = cAt ∨ k = cSlash) → k ∉ s := by
    intro s hs k hk hm
    have := hs k hm
    simp only [isLower, Bool.and_eq_true, decide_eq_true_eq] at this
    rcases hk with rfl | rfl | rfl | rfl | rfl <;> simp [cHash, cColon, cQ, cAt, cSlash] at this
  obtain ⟨t1, rfl⟩ : ∃ t, p1 = cSlash :: t := by
    cases p1 with
    | nil => simp at hp01
    | cons x xs => simp at hp01; exact ⟨xs, by rw [hp01]⟩
  obtain ⟨t2, rfl⟩ : ∃ t, p2 = cSlash :: t := by
    cases p2 with
    | nil => simp at hp02
    | cons x xs => simp at hp02; exact ⟨xs, by rw [hp02]⟩
  unfold cacheKey at h
  simp only [sl1, sl2] at h
  -- membership of the separators in the parts
  have nu : ∀ (us : Bytes), (∀ x ∈ us, ¬x = cSlash ∧ ¬x = cQ ∧ ¬x = cHash ∧ ¬x = cAt) → ∀ k, (k = cSlash ∨ k = cQ ∨ k = cHash ∨ k = cAt) → k ∉ us := by
    intro us hus k hk hm
    have := hus k hm
    rcases hk with rfl | rfl | rfl | rfl
    · exact this.1 rfl
    · exact this.2.1 rfl
    · exact this.2.2.1 rfl
    · exact this.2.2.2 rfl
  have hwf : ∀ (q : Bytes), (∀ x ∈ q, ¬x = cHash) → cHash ∉ (if q = [] then [] else cQ :: q) := by
    intro q hq hm; split at hm
    · simp at hm
    · simp only [List.mem_cons] at hm; rcases hm with e | e
      · simp [cHash, cQ] at e
      · exact hq _ e rfl
  have hU : ∀ (us : Bytes), (∀ x ∈ us, ¬x = cSlash ∧ ¬x = cQ ∧ ¬x = cHash ∧ ¬x = cAt) → ∀ k, (k = cSlash ∨ k = cQ ∨ k = cHash) →
      k ∉ (if us = [] then [] else us ++ [cAt]) := by
    intro us hus k hk hm; split at hm
    · simp at hm
    · simp only [List.mem_append, List.mem_singleton] at hm
      rcases hm with e | e
      · exact nu us hus k (by rcases hk with r | r | r <;> simp [r]) e
      · rcases hk with rfl | rfl | rfl <;> simp [cSlash, cQ, cHash, cAt] at e
  have hP : ∀ (t : Bytes), (∀ x ∈ cSlash :: t, ¬x = cQ ∧ ¬x = cHash) → ∀ k, (k = cQ ∨ k = cHash) → k ∉ cSlash :: t := by
    intro t ht k hk hm
    have := ht k hm
    rcases hk with rfl | rfl
    · exact this.1 rfl
    · exact this.2 rfl
  -- regroup: everything before the fragment, before the query, ...
  let B1 := s1 ++ (cColon :: cSlash :: cSlash :: ((if u1 = [] then [] else u1 ++ [cAt]) ++ (h1 ++ (cSlash :: t1))))
  let B2 := s2 ++ (cColon :: cSlash :: cSlash :: ((if u2 = [] then [] else u2 ++ [cAt]) ++ (h2 ++ (cSlash :: t2))))
  have nB : ∀ k, (k = cQ ∨ k = cHash) → k ∉ B1 ∧ k ∉ B2 := by
    intro k hk
    have a1 := hsn s1 hs1 k (by rcases hk with r | r <;> simp [r])
    have a2 := hsn s2 hs2 k (by rcases hk with r | r <;> simp [r])
    have b1 := hU u1 hu1 k (by rcases hk with r | r <;> simp [r])
    have b2 := hU u2 hu2 k (by rcases hk with r | r <;> simp [r])
    have c1 := nu h1 hh1 k (by rcases hk with r | r <;> simp [r])
    have c2 := nu h2 hh2 k (by rcases hk with r | r <;> simp [r])
    have d1 := hP t1 hp1 k hk
    have d2 := hP t2 hp2 k hk
    have hk' : k ≠ cColon ∧ k ≠ cSlash := by rcases hk with rfl | rfl <;> simp [cQ, cHash, cColon, cSlash]
    constructor
    · simp only [B1, List.mem_append, List.mem_cons, not_or]
      exact ⟨a1, hk'.1, hk'.2, hk'.2, b1, c1, by simpa [List.mem_cons, not_or] using d1⟩
    · simp only [B2, List.mem_append, List.mem_cons, not_or]
      exact ⟨a2, hk'.1, hk'.2, hk'.2, b2, c2, by simpa [List.mem_cons, not_or] using d2⟩
  have e1 : s1 ++ (cColon :: cSlash :: cSlash :: ((if u1 = [] then [] else u1 ++ [cAt]) ++ (h1 ++ (cSlash :: t1 ++
      ((if q1 = [] then [] else cQ :: q1) ++ (if f1 = [] then [] else cHash :: f1)))))) =
      (B1 ++ (if q1 = [] then [] else cQ :: q1)) ++ (if f1 = [] then [] else cHash :: f1) := by simp [B1, List.append_assoc]
  have e2 : s2 ++ (cColon :: cSlash :: cSlash :: ((if u2 = [] then [] else u2 ++ [cAt]) ++ (h2 ++ (cSlash :: t2 ++
      ((if q2 = [] then [] else cQ :: q2) ++ (if f2 = [] then [] else cHash :: f2)))))) =
      (B2 ++ (if q2 = [] then [] else cQ :: q2)) ++ (if f2 = [] then [] else cHash :: f2) := by simp [B2, List.append_assoc]
  rw [e1, e2] at h
  have nh1 : cHash ∉ B1 ++ (if q1 = [] then [] else cQ :: q1) := by
    simp only [List.mem_append, not_or]; exact ⟨(nB cHash (Or.inr rfl)).1, hwf q1 hq1⟩
  have nh2 : cHash ∉ B2 ++ (if q2 = [] then [] else cQ :: q2) := by
    simp only [List.mem_append, not_or]; exact ⟨(nB cHash (Or.inr rfl)).2, hwf q2 hq2⟩
  obtain ⟨hA, hf⟩ := opt_suffix_inj cHash h nh1 nh2
  obtain ⟨hB, hq⟩ := opt_suffix_inj cQ hA (nB cQ (Or.inl rfl)).1 (nB cQ (Or.inl rfl)).2
  -- scheme
  obtain ⟨hs, hrest⟩ := sep_uniq cColon hB (hsn s1 hs1 _ (by simp)) (hsn s2 hs2 _ (by simp))
  simp only [List.cons.injEq, true_and] at hrest
  -- authority / path
  have r1 : (if u1 = [] then [] else u1 ++ [cAt]) ++ (h1 ++ cSlash :: t1) = ((if u1 = [] then [] else u1 ++ [cAt]) ++ h1) ++ cSlash :: t1 := by simp
  have r2 : (if u2 = [] then [] else u2 ++ [cAt]) ++ (h2 ++ cSlash :: t2) = ((if u2 = [] then [] else u2 ++ [cAt]) ++ h2) ++ cSlash :: t2 := by simp
  rw [r1, r2] at hrest
  have ns1 : cSlash ∉ (if u1 = [] then [] else u1 ++ [cAt]) ++ h1 := by
    simp only [List.mem_append, not_or]; exact ⟨hU u1 hu1 _ (by simp), nu h1 hh1 _ (by simp)⟩
  have ns2 : cSlash ∉ (if u2 = [] then [] else u2 ++ [cAt]) ++ h2 := by
    simp only [List.mem_append, not_or]; exact ⟨hU u2 hu2 _ (by simp), nu h2 hh2 _ (by simp)⟩
  obtain ⟨hauth, ht⟩ := sep_uniq cSlash hrest ns1 ns2
  obtain ⟨huu, hhh⟩ := opt_prefix_inj cAt hauth (nu u1 hu1 _ (by simp)) (nu u2 hu2 _ (by simp)) (nu h1 hh1 _ (by simp)) (nu h2 hh2 _ (by simp))
  subst hs huu hhh ht hq hf
  rfl

end Nuts.C18
