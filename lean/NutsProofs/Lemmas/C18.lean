/-
  C18 helper lemmas (core Lean only).
-/
import NutsModel.C18.Policy

namespace Nuts.C18
open Nuts

/-! ### the redirect loop -/

/-- invariant of the redirect loop: every request made is the current one, an earlier one, or was admitted by
    `checkRedirect` -/
theorem clientLoop_reqs (pol : Policy) (strict : Bool) (srv : Nat → Req → Option Resp) (first : Req) (P : Req → Prop)
    (hnext : ∀ nxt n, checkRedirect pol strict first nxt n = .ok () → P nxt) :
    ∀ fuel reqs cur, (∀ r ∈ reqs, P r) → P cur → ∀ r ∈ (clientLoop pol strict srv first fuel reqs cur).1, P r := by
  intro fuel
  induction fuel with
  | zero => intro reqs cur hr _ r hm; simpa [clientLoop] using hr r hm
  | succ n ih =>
    intro reqs cur hr hc r hm
    have hall : ∀ r ∈ reqs ++ [cur], P r := by
      intro r hr'; rcases List.mem_append.mp hr' with h | h
      · exact hr r h
      · simp at h; subst h; exact hc
    unfold clientLoop at hm
    simp only at hm
    split at hm
    · exact hall r hm
    · split at hm
      · exact hall r hm
      · split at hm
        · exact hall r hm
        · split at hm
          · exact hall r hm
          · exact hall r hm
          · split at hm
            · exact hall r hm
            · exact hall r hm
            · rename_i nxt _ hck
              exact ih _ _ hall (hnext _ _ hck) r hm

/-- the requests `StrictHTTPClient.Do` makes -/
theorem strictDo_reqs (pol : Policy) (strict : Bool) (srv : Nat → Req → Option Resp) (first : Req) (P : Req → Prop)
    (hfirst : P first) (hnext : ∀ nxt n, checkRedirect pol strict first nxt n = .ok () → P nxt) :
    ∀ r ∈ (strictDo pol strict srv first).1, P r := by
  intro r hm
  unfold strictDo at hm
  split at hm
  · simp at hm
  · have h := clientLoop_reqs pol strict srv first P hnext (pol.maxRedirects + 2) [] first (by simp) hfirst
    split at hm
    · rename_i reqs resp heq
      have : reqs = (clientLoop pol strict srv first (pol.maxRedirects + 2) [] first).1 := by rw [heq]
      split at hm <;> (simp only at hm; exact h r (this ▸ hm))
    · exact h r hm

theorem checkRedirect_sameOrigin {pol : Policy} {strict : Bool} {first nxt : Req} {n : Nat}
    (hp : pol.sameOriginRedirect = true) (h : checkRedirect pol strict first nxt n = .ok ()) :
    nxt.scheme = first.scheme ∧ nxt.host = first.host := by
  unfold checkRedirect at h
  split at h
  · cases h
  · split at h
    · cases h
    · split at h
      · cases h
      · rename_i hn
        simp [hp] at hn
        exact hn

theorem checkRedirect_strictHttps {pol : Policy} {first nxt : Req} {n : Nat}
    (hp : pol.strictHttpsRedirect = true) (h : checkRedirect pol true first nxt n = .ok ()) :
    nxt.scheme = sHttps := by
  unfold checkRedirect at h
  split at h
  · cases h
  · rename_i hn
    simpa [hp] using hn

end Nuts.C18
