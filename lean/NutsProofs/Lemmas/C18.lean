/-
  C18 helper lemmas (core Lean only).
-/
import NutsModel.C18.Policy

namespace Nuts.C18
open Nuts

/-! ### the redirect loop -/

/-- invariant of the redirect loop: every request made is the current one, an earlier one, or was admitted by
    `checkRedirect` -/
theorem clientLoop_reqs (pol : Policy) (strict : Bool) (srv : Nat → Req → Option Resp) (first : Req) (P : Req → Prop)
    (hnext : ∀ nxt n, checkRedirect pol strict first nxt n = .ok () → P nxt) :
    ∀ fuel reqs cur, (∀ r ∈ reqs, P r) → P cur → ∀ r ∈ (clientLoop pol strict srv first fuel reqs cur).1, P r := by
  intro fuel
  induction fuel with
  | zero => intro reqs cur hr _ r hm; simpa [clientLoop] using hr r hm
  | succ n ih =>
    intro reqs cur hr hc r hm
    have hall : ∀ r ∈ reqs ++ [cur], P r := by
      intro r hr'; rcases List.mem_append.mp hr' with h | h
      · exact hr r h
      · simp at h; subst h; exact hc
    unfold clientLoop at hm
    simp only at hm
    split at hm
    · exact hall r hm
    · split at hm
      · exact hall r hm
      · split at hm
        · exact hall r hm
        · split at hm
          · exact hall r hm
          · exact hall r hm
          · split at hm
            · exact hall r hm
            · exact hall r hm
            · rename_i nxt _ hck
              exact ih _ _ hall (hnext _ _ hck) r hm

/-- the requests `StrictHTTPClient.Do` makes -/
theorem strictDo_reqs (pol : Policy) (strict : Bool) (srv : Nat → Req → Option Resp) (first : Req) (P : Req → Prop)
    (hfirst : P first) (hnext : ∀ nxt n, checkRedirect pol strict first nxt n = .ok () → P nxt) :
    ∀ r ∈ (strictDo pol strict srv first).1, P r := by
  intro r hm
  unfold strictDo at hm
  split at hm
  · simp at hm
  · have h := clientLoop_reqs pol strict srv first P hnext (pol.maxRedirects + 2) [] first (by simp) hfirst
    split at hm
    · rename_i reqs resp heq
      have : reqs = (clientLoop pol strict srv first (pol.maxRedirects + 2) [] first).1 := by rw [heq]
      split at hm <;> (simp only at hm; exact h r (this ▸ hm))
    · exact h r hm

theorem checkRedirect_sameOrigin {pol : Policy} {strict : Bool} {first nxt : Req} {n : Nat}
    (hp : pol.sameOriginRedirect = true) (h : checkRedirect pol strict first nxt n = .ok ()) :
    nxt.scheme = first.scheme ∧ nxt.host = first.host := by
  unfold checkRedirect at h
  split at h
  · cases h
  · split at h
    · cases h
    · split at h
      · cases h
      · rename_i hn
        simp [hp] at hn
        exact hn

theorem checkRedirect_strictHttps {pol : Policy} {first nxt : Req} {n : Nat}
    (hp : pol.strictHttpsRedirect = true) (h : checkRedirect pol true first nxt n = .ok ()) :
    nxt.scheme = sHttps := by
  unfold checkRedirect at h
  split at h
  · cases h
  · rename_i hn
    simpa [hp] using hn

/-! ### net/url model: cuts, prefixes and lengths -/

theorem cut_fst_prefix (c : Nat) : ∀ s : Bytes, (cut c s).1 <+: s
  | [] => by simp [cut]
  | x :: xs => by
    unfold cut
    split
    · simp
    · simp only; exact (List.cons_prefix_cons).mpr ⟨rfl, cut_fst_prefix c xs⟩

theorem not_mem_cut_fst (c : Nat) : ∀ s : Bytes, c ∉ (cut c s).1
  | [] => by simp [cut]
  | x :: xs => by
    unfold cut
    split
    · simp
    · rename_i h; simp only [List.mem_cons, not_or]; exact ⟨fun e => h e.symm, not_mem_cut_fst c xs⟩

theorem afterLast_length (c : Nat) : ∀ (s r : Bytes), afterLast c s = some r → r.length < s.length
  | [], r, h => by simp [afterLast] at h
  | x :: xs, r, h => by
    unfold afterLast at h
    split at h
    · rename_i r' hr; cases h; have := afterLast_length c xs _ hr; simp; omega
    · split at h
      · cases h; simp
      · cases h

theorem unescapeAll_length_le : ∀ s : Bytes, (unescapeAll s).length ≤ s.length := by
  intro s
  induction s using unescapeAll.induct with
  | case1 => simp [unescapeAll]
  | case2 a b rest ih => simp [unescapeAll]; omega
  | case3 c rest hne ih => rw [unescapeAll]; · simp; omega
                           · exact hne

theorem unescapeHost_length {s r : Bytes} (h : unescapeHost s = .ok r) : r.length ≤ s.length := by
  unfold unescapeHost at h; split at h
  · cases h; exact unescapeAll_length_le s
  · cases h

theorem unescapeZone_length {s r : Bytes} (h : unescapeZone s = .ok r) : r.length ≤ s.length := by
  unfold unescapeZone at h; split at h
  · cases h; exact unescapeAll_length_le s
  · cases h

theorem indexPct25_lt : ∀ (s : Bytes) (z : Nat), indexPct25 s = some z → z < s.length := by
  intro s
  induction s using indexPct25.induct with
  | case1 => intro z h; simp [indexPct25] at h
  | case2 rest => intro z h; simp [indexPct25] at h; subst h; simp
  | case3 c rest hne ih =>
    intro z h
    rw [indexPct25] at h
    · cases hr : indexPct25 rest with
      | none => simp [hr] at h
      | some z' => simp [hr] at h; have := ih z' hr; simp; omega
    · exact hne

theorem parseHost_length {s r : Bytes} (h : parseHost s = .ok r) : r.length ≤ s.length := by
  unfold parseHost at h
  split at h
  · split at h
    · cases h
    · rename_i colonPort hal
      have hcp := afterLast_length _ _ _ hal
      split at h
      · cases h
      · simp only at h
        split at h
        · rename_i zone hz
          split at h
          · rename_i h1 h2 h3 e1 e2 e3
            cases h
            have hzl := indexPct25_lt _ _ hz
            have l1 := unescapeHost_length e1
            have l2 := unescapeZone_length e2
            have l3 := unescapeHost_length e3
            simp only [List.length_append, List.length_take, List.length_drop] at *
            omega
          · cases h
        · exact unescapeHost_length h
  · split at h
    · split at h
      · cases h
      · exact unescapeHost_length h
    · exact unescapeHost_length h

/-- `parseAuthority` reports user-info exactly when the authority contains '@', and the host it returns is never
    longer than what follows the last '@' -/
theorem parseAuthority_spec {a host : Bytes} {hasUser : Bool} (h : parseAuthority a = .ok (hasUser, host)) :
    (hasUser = false ∧ host.length ≤ a.length) ∨ (hasUser = true ∧ host.length < a.length) := by
  unfold parseAuthority at h
  split at h
  · left
    cases hp : parseHost a with
    | ok r => simp [hp, Res.bind] at h; exact ⟨h.1, h.2 ▸ parseHost_length hp⟩
    | err e => simp [hp, Res.bind] at h
    | panic e => simp [hp, Res.bind] at h
  · right
    rename_i hostPart hal
    cases hp : parseHost hostPart with
    | ok r =>
      simp only [hp, Res.bind] at h
      split at h
      · cases h
      · split at h
        · simp only [Res.ok.injEq, Prod.mk.injEq] at h
          have := parseHost_length hp
          have := afterLast_length _ _ _ hal
          exact ⟨h.1.symm, by rw [← h.2]; omega⟩
        · cases h
    | err e => simp [hp, Res.bind] at h
    | panic e => simp [hp, Res.bind] at h

/-! ### url.Parse on "https://" + X -/

theorem cut_https (c : Nat) (hc : c ∉ sHttpsSS) (X : Bytes) :
    cut c (sHttpsSS ++ X) = (sHttpsSS ++ (cut c X).1, (cut c X).2) := by
  simp only [sHttpsSS, List.mem_cons, List.mem_nil_iff, or_false, not_or] at hc
  obtain ⟨h1, h2, h3, h4, h5, h6, h7, h8⟩ := hc
  simp [sHttpsSS, cut, Ne.symm h1, Ne.symm h2, Ne.symm h4, Ne.symm h5, Ne.symm h6, Ne.symm h7]

theorem getScheme_https (Y : Bytes) : getScheme (sHttpsSS ++ Y) = .ok (sHttps, cSlash :: cSlash :: Y) := by
  simp [getScheme, getSchemeAux, sHttpsSS, sHttps, isUpper, isLower, isDigit, cColon, cSlash]

theorem lower_https : lower sHttps = sHttps := by decide

/-- after the query has been split off "//Y", what remains is "//Z" with Z a prefix of Y -/
theorem splitQuery_slashes (Y : Bytes) : ∃ Z, (splitQuery (cSlash :: cSlash :: Y)).1 = cSlash :: cSlash :: Z ∧ Z <+: Y := by
  unfold splitQuery
  split
  · rename_i hc
    cases Y with
    | nil => simp [hasSuffix, cSlash, cQ] at hc
    | cons y ys =>
      refine ⟨(y :: ys).take ys.length, ?_, List.take_prefix _ _⟩
      simp [List.take]
  · exact ⟨(cut cQ Y).1, by simp [cut, cSlash, cQ], cut_fst_prefix _ _⟩

theorem setPath_fields {u v : URL} {p : Bytes} (h : setPath u p = .ok v) :
    v.scheme = u.scheme ∧ v.opaq = u.opaq ∧ v.hasUser = u.hasUser ∧ v.host = u.host := by
  unfold setPath at h
  cases hp : pathUnescape p with
  | ok r => simp [hp, Res.bind] at h; subst h; simp
  | err e => simp [hp, Res.bind] at h
  | panic e => simp [hp, Res.bind] at h

/-- what `url.Parse("https://" + X)` returns: scheme https, and an authority that is a '/'-free prefix of X -/
theorem parseURL_https (X : Bytes) (u : URL) (h : parseURL (sHttpsSS ++ X) = .ok u) :
    u.scheme = sHttps ∧ u.opaq = [] ∧ ∃ A, A <+: X ∧ cSlash ∉ A ∧ parseAuthority A = .ok (u.hasUser, u.host) := by
  unfold parseURL at h
  rw [cut_https cHash (by decide)] at h
  simp only at h
  generalize hY : (cut cHash X).1 = Y at h
  have hYX : Y <+: X := hY ▸ cut_fst_prefix _ _
  cases hp : parseNoFrag (sHttpsSS ++ Y) with
  | err e => simp [hp, Res.bind] at h
  | panic e => simp [hp, Res.bind] at h
  | ok v =>
    have hv : v.scheme = sHttps ∧ v.opaq = [] ∧ ∃ A, A <+: X ∧ cSlash ∉ A ∧ parseAuthority A = .ok (v.hasUser, v.host) := by
      unfold parseNoFrag at hp
      split at hp
      · cases hp
      · split at hp
        · rename_i h42; simp [sHttpsSS] at h42
        · rw [getScheme_https] at hp
          simp only [Res.bind] at hp
          obtain ⟨Z, hZ, hZY⟩ := splitQuery_slashes Y
          rw [hZ] at hp
          unfold parseHier at hp
          have e1 : hasPrefix [cSlash] (cSlash :: cSlash :: Z) = true := by simp [hasPrefix]
          have e2 : hasPrefix [cSlash, cSlash] (cSlash :: cSlash :: Z) = true := by simp [hasPrefix]
          have e3 : (sHttps ≠ []) := by decide
          simp only [e1, e2, e3, Bool.not_true, Bool.false_and, Bool.false_eq_true, if_false, ne_eq, not_false_eq_true,
            decide_true, Bool.true_or, Bool.and_self, if_true, List.drop_succ_cons, List.drop_zero] at hp
          cases ha : parseAuthority (cut cSlash Z).1 with
          | err e => simp [ha, Res.bind] at hp
          | panic e => simp [ha, Res.bind] at hp
          | ok r =>
            simp only [ha, Res.bind] at hp
            have := setPath_fields hp
            simp only [lower_https] at this
            refine ⟨this.1, this.2.1, (cut cSlash Z).1, ?_, not_mem_cut_fst _ _, ?_⟩
            · exact (cut_fst_prefix _ _).trans (hZY.trans hYX)
            · rw [ha, this.2.2.1, this.2.2.2]
    simp only [hp, Res.bind] at h
    split at h
    · cases h; exact hv
    · cases h; exact hv
    · cases hf : pathUnescape ‹Bytes› with
      | ok fr => simp [hf, Res.bind] at h; subst h; exact hv
      | err e => simp [hf, Res.bind] at h
      | panic e => simp [hf, Res.bind] at h

/-! ### DIDToURL: origin of the returned URL -/

theorem percentDecode_slash (dec : List Nat) (t : Bytes) : percentDecode dec (cSlash :: t) = cSlash :: percentDecode dec t := by
  simp [percentDecode, percentDecodeAux, decodeAt, cSlash]

/-- a '/'-free prefix of `H ++ P`, where `P` is empty or starts with '/', is a prefix of `H` -/
theorem prefix_of_slashfree {A H P : Bytes} (hA : A <+: H ++ P) (hs : cSlash ∉ A) (hP : P = [] ∨ ∃ t, P = cSlash :: t) :
    A.length ≤ H.length := by
  rcases hP with rfl | ⟨t, rfl⟩
  · simpa using hA.length_le
  · by_cases hl : A.length ≤ H.length
    · exact hl
    · exfalso
      have h1 : H ++ [cSlash] <+: H ++ cSlash :: t := by
        have : H ++ cSlash :: t = (H ++ [cSlash]) ++ t := by simp
        rw [this]; exact List.prefix_append _ _
      have h2 : H ++ [cSlash] <+: A := List.prefix_of_prefix_length_le h1 hA (by simp; omega)
      exact hs (h2.subset (by simp))

/-- **origin of the URL `DIDToURL` returns.** For EVERY `did.DID` value (any bytes): if `DIDToURL` succeeds, the URL is
    https, its host is exactly the percent-decoded first component of the identifier, it has no user-info, and the host
    name is not an IP address. -/
theorem didToURL_origin (dec : List Nat) (d : DID) (u : URL) (h : didToURL dec d = .ok u) :
    d.method = sWeb ∧ u.scheme = sHttps ∧ u.hasUser = false ∧ u.opaq = [] ∧
    pathUnescape (cut cColon d.id).1 = .ok u.host ∧ isIP (hostname u.host) = false := by
  unfold didToURL at h
  split at h
  · cases h
  · rename_i hm
    split at h
    · cases h
    · cases hpu : pathUnescape (cut cColon d.id).1 with
      | err e => simp [hpu] at h
      | panic e => simp [hpu] at h
      | ok H =>
        simp only [hpu, List.append_assoc] at h
        generalize hP : percentDecode dec (didPath d.id) = P at h
        have hPs : P = [] ∨ ∃ t, P = cSlash :: t := by
          rw [← hP]; unfold didPath
          cases (cut cColon d.id).2 with
          | none => left; simp [percentDecode, percentDecodeAux]
          | some t => right; exact ⟨_, percentDecode_slash dec _⟩
        cases hpp : parseURL (sHttpsSS ++ (H ++ P)) with
        | err e => simp [hpp] at h
        | panic e => simp [hpp] at h
        | ok v =>
          simp only [hpp] at h
          split at h
          · cases h
          · rename_i hhost
            split at h
            · cases h
            · rename_i hip
              cases h
              have hhost' : u.host = H := by simpa using hhost
              obtain ⟨hs, ho, A, hA, hsl, hauth⟩ := parseURL_https (H ++ P) u hpp
              have hAl := prefix_of_slashfree hA hsl hPs
              refine ⟨by simpa using hm, hs, ?_, ho, by rw [hhost'], by simpa using hip⟩
              rcases parseAuthority_spec hauth with ⟨hu, _⟩ | ⟨_, hlt⟩
              · exact hu
              · exfalso; rw [hhost'] at hlt; omega

/-! ### strings.Cut / Split / Join / LastIndex -/

theorem cut_notin (c : Nat) : ∀ s : Bytes, c ∉ s → cut c s = (s, none)
  | [], _ => by simp [cut]
  | x :: xs, h => by
    simp only [List.mem_cons, not_or] at h
    simp [cut, Ne.symm h.1, cut_notin c xs h.2]

theorem cut_append (c : Nat) : ∀ (a b : Bytes), c ∉ a → cut c (a ++ c :: b) = (a, some b)
  | [], b, _ => by simp [cut]
  | x :: xs, b, h => by
    simp only [List.mem_cons, not_or] at h
    simp [cut, Ne.symm h.1, cut_append c xs b h.2]

theorem splitOn_notin (c : Nat) : ∀ s : Bytes, c ∉ s → splitOn c s = [s]
  | [], _ => by simp [splitOn]
  | x :: xs, h => by
    simp only [List.mem_cons, not_or] at h
    simp [splitOn, Ne.symm h.1, splitOn_notin c xs h.2]

theorem splitOn_append (c : Nat) : ∀ (a b : Bytes), c ∉ a → splitOn c (a ++ c :: b) = a :: splitOn c b
  | [], b, _ => by simp [splitOn]
  | x :: xs, b, h => by
    simp only [List.mem_cons, not_or] at h
    simp [splitOn, Ne.symm h.1, splitOn_append c xs b h.2]

theorem splitOn_ne_nil (c : Nat) : ∀ s : Bytes, splitOn c s ≠ []
  | [] => by simp [splitOn]
  | x :: xs => by
    unfold splitOn
    split
    · simp
    · split <;> simp

theorem joinWith_cons_cons (c : Nat) (p q : Bytes) (ps : List Bytes) :
    joinWith c (p :: q :: ps) = p ++ c :: joinWith c (q :: ps) := by simp [joinWith]

theorem join_splitOn (c : Nat) : ∀ s : Bytes, joinWith c (splitOn c s) = s
  | [] => by simp [splitOn, joinWith]
  | x :: xs => by
    have ih := join_splitOn c xs
    unfold splitOn
    split
    · rename_i hx
      cases hs : splitOn c xs with
      | nil => exact absurd hs (splitOn_ne_nil c xs)
      | cons p ps => rw [hs] at ih; simp [joinWith_cons_cons, ih, hx]
    · split
      · rename_i hs; exact absurd hs (splitOn_ne_nil c xs)
      · rename_i p ps hs
        rw [hs] at ih
        cases ps with
        | nil => simp [joinWith] at ih ⊢; exact ih
        | cons q qs => simp [joinWith_cons_cons] at ih ⊢; exact ih

theorem splitOn_parts_notin (c : Nat) : ∀ s : Bytes, ∀ p ∈ splitOn c s, c ∉ p
  | [] => by simp [splitOn]
  | x :: xs => by
    have ih := splitOn_parts_notin c xs
    unfold splitOn
    split
    · intro p hp; simp at hp; rcases hp with rfl | hp
      · simp
      · exact ih p hp
    · rename_i hx
      split
      · intro p hp; simp at hp; subst hp; simp [Ne.symm hx]
      · rename_i q qs hs
        rw [hs] at ih
        intro p hp; simp at hp; rcases hp with rfl | hp
        · simp only [List.mem_cons, not_or]; exact ⟨fun e => hx e.symm, ih q (by simp)⟩
        · exact ih p (by simp [hp])

theorem afterLast_notin (c : Nat) : ∀ s : Bytes, c ∉ s → afterLast c s = none
  | [], _ => by simp [afterLast]
  | x :: xs, h => by
    simp only [List.mem_cons, not_or] at h
    simp [afterLast, afterLast_notin c xs h.2, Ne.symm h.1]

theorem afterLast_append (c : Nat) : ∀ (a b : Bytes), c ∉ b → afterLast c (a ++ c :: b) = some b
  | [], b, h => by simp [afterLast, afterLast_notin c b h]
  | x :: xs, b, h => by simp [afterLast, afterLast_append c xs b h]

theorem beforeLast_append (c : Nat) : ∀ (a b : Bytes), c ∉ a → c ∉ b → beforeLast c (a ++ c :: b) = a
  | [], b, _, h => by simp [beforeLast, afterLast_notin c b h]
  | x :: xs, b, ha, h => by
    simp only [List.mem_cons, not_or] at ha
    simp [beforeLast, afterLast_append c xs b h, beforeLast_append c xs b ha.2 h]

theorem hasDouble_append_notin (c : Nat) : ∀ (a b : Bytes), c ∉ a → hasDouble c (a ++ b) = hasDouble c b
  | [], b, _ => by simp
  | [x], b, h => by
    simp only [List.mem_cons, List.mem_nil_iff, or_false] at h
    cases b with
    | nil => simp [hasDouble]
    | cons y ys => simp [hasDouble, Ne.symm h]
  | x :: y :: rest, b, h => by
    simp only [List.mem_cons, not_or] at h
    have ih := hasDouble_append_notin c (y :: rest) b (by simp only [List.mem_cons, not_or]; exact h.2)
    simp only [List.cons_append] at ih ⊢
    simp [hasDouble, Ne.symm h.1, ih]

/-! ### the 14 reserved characters; strings without percent signs -/

def set14 : List Nat := [126, 33, 36, 38, 39, 40, 41, 42, 43, 44, 59, 61, 58, 64]

theorem set14_props {v : Nat} (h : set14.contains v = true) :
    33 ≤ v ∧ v ≤ 126 ∧ v ≠ 37 ∧ v ≠ 47 ∧ v ≠ 35 ∧ v ≠ 63 ∧ isNameChar v = false := by
  simp only [set14, List.contains_eq_mem, List.mem_cons, List.mem_nil_iff, or_false, decide_eq_true_eq] at h
  rcases h with rfl | rfl | rfl | rfl | rfl | rfl | rfl | rfl | rfl | rfl | rfl | rfl | rfl | rfl <;> decide

theorem nameChar_props {c : Nat} (h : isNameChar c = true) :
    45 ≤ c ∧ c ≤ 122 ∧ c ≠ 47 ∧ c ≠ 58 ∧ c ≠ 63 ∧ c ≠ 64 ∧ c ≠ 91 ∧ set14.contains c = false := by
  simp only [isNameChar, isAlnum, isDigit, isUpper, isLower, Bool.or_eq_true, Bool.and_eq_true, decide_eq_true_eq] at h
  have hb : 45 ≤ c ∧ c ≤ 122 ∧ c ≠ 47 ∧ c ≠ 58 ∧ c ≠ 63 ∧ c ≠ 64 ∧ c ≠ 91 ∧ c ≠ 59 ∧ c ≠ 61 := by omega
  refine ⟨hb.1, hb.2.1, hb.2.2.1, hb.2.2.2.1, hb.2.2.2.2.1, hb.2.2.2.2.2.1, hb.2.2.2.2.2.2.1, ?_⟩
  simp only [set14, List.contains_eq_mem, List.mem_cons, List.mem_nil_iff, or_false, decide_eq_false_iff_not]
  omega

/-! percent escapes on strings without '%' -/
theorem validEscapes_noPct : ∀ s : Bytes, (∀ c ∈ s, c ≠ 37) → validEscapes s = true := by
  intro s
  induction s using validEscapes.induct with
  | case1 => intro _; simp [validEscapes]
  | case2 a b rest ih => intro h; exact absurd rfl (h 37 (by simp))
  | case3 t hn => intro h; exact absurd rfl (h 37 (by simp))
  | case4 c rest h1 h2 ih =>
    intro h
    rw [validEscapes]
    · exact ih (fun c hc => h c (by simp [hc]))
    · exact h1
    · exact h2

theorem unescapeAll_noPct : ∀ s : Bytes, (∀ c ∈ s, c ≠ 37) → unescapeAll s = s := by
  intro s
  induction s using unescapeAll.induct with
  | case1 => intro _; simp [unescapeAll]
  | case2 a b rest ih => intro h; exact absurd rfl (h 37 (by simp))
  | case3 c rest hne ih =>
    intro h
    rw [unescapeAll]
    · rw [ih (fun c hc => h c (by simp [hc]))]
    · exact hne

theorem unescapeAll_append_noPct : ∀ (a b : Bytes), (∀ c ∈ a, c ≠ 37) → unescapeAll (a ++ b) = a ++ unescapeAll b
  | [], b, _ => by simp
  | x :: xs, b, h => by
    have hx : x ≠ 37 := h x (by simp)
    have ih := unescapeAll_append_noPct xs b (fun c hc => h c (by simp [hc]))
    simp only [List.cons_append]
    rw [unescapeAll]
    · rw [ih]
    · intros; simp_all

theorem validEscapes_append_noPct : ∀ (a b : Bytes), (∀ c ∈ a, c ≠ 37) → validEscapes (a ++ b) = validEscapes b
  | [], b, _ => by simp
  | x :: xs, b, h => by
    have hx : x ≠ 37 := h x (by simp)
    have ih := validEscapes_append_noPct xs b (fun c hc => h c (by simp [hc]))
    simp only [List.cons_append]
    rw [validEscapes]
    · exact ih
    all_goals (intros; simp_all)

end Nuts.C18
