/-
  C07 liveness lemmas, part N: round pairs and convergence.
-/
import NutsModel.C07.Round
import NutsProofs.Lemmas.C07
import NutsProofs.Lemmas.C07LiveM
open Nuts.Proto Nuts Nuts.Proto.L

namespace Nuts.Proto.Live

/-! ### Part N: round pairs and convergence -/

/-- `n` has a gossip queue for peer `key` and a connection to it -/
def Linked (n : Node) (key : Nat) : Prop :=
  key ∈ n.queues.map (·.peer) ∧ n.peers.any (fun p => p.key == key && p.connected) = true

theorem Linked.shape {n n' : Node} {key : Nat} (h : Linked n key) (hs : SameShape n n') : Linked n' key := by
  obtain ⟨h1, h2⟩ := h
  exact ⟨by rw [hs.2]; exact h1, by rw [hs.1]; exact h2⟩

theorem queueOK_of {n : Node} {key : Nat} (hn : NI n) (hl : Linked n key) : QueueOK n key := by
  obtain ⟨h1, h2⟩ := hl
  obtain ⟨q, hq, hk⟩ := List.mem_map.mp h1
  cases hf : n.queues.find? (fun x => x.peer == key) with
  | none =>
    have := List.find?_eq_none.mp hf q hq
    simp [hk] at this
  | some qu =>
    have hm := List.mem_of_find?_eq_some hf
    obtain ⟨s1, s2, s3⟩ := hn.2.2 qu hm
    exact ⟨qu, hf, h2, s1, s2, s3⟩

theorem lcOf_le_of_sub {d u : List Tx} (h : ∀ t ∈ d, t ∈ u) : lcOf d ≤ lcOf u := by
  rcases lc_fold_attained d 0 with h0 | ⟨t, ht, hc⟩
  · have : lcOf d = 0 := h0
    omega
  · have : lcOf d = t.clock := hc.symm
    rw [this]; exact lcOf_ge u t (h t ht)

theorem lcOf_congr {d d' : List Tx} (h1 : ∀ t ∈ d, t ∈ d') (h2 : ∀ t ∈ d', t ∈ d) : lcOf d = lcOf d' :=
  Nat.le_antisymm (lcOf_le_of_sub h1) (lcOf_le_of_sub h2)

theorem stuckAt_congr (cfg : Cfg) {A A' B : List Tx} {q : Nat} (h1 : ∀ t ∈ A, t ∈ A') (h2 : ∀ t ∈ A', t ∈ A)
    (h : StuckAt cfg B A' q) : StuckAt cfg B A q := by
  obtain ⟨k, hk, hs, hd⟩ := h
  refine ⟨k, hk, fun t ht hp => hs t (h1 t ht) hp, fun q' a b hsame => hd q' a b ?_⟩
  intro r
  rw [hsame r]
  constructor
  · rintro ⟨t, ht, hr, hp⟩; exact ⟨t, h1 t ht, hr, hp⟩
  · rintro ⟨t, ht, hr, hp⟩; exact ⟨t, h2 t ht, hr, hp⟩

/-- the universe the two DAGs live in: refs identify transactions, and the nodes share its root(s) -/
structure PairInv (U : List Tx) (a b : Node) (kA kB : Nat) : Prop where
  nia : NI a
  nib : NI b
  oka : DagOK a.dag
  okb : DagOK b.dag
  ua : ∀ t ∈ a.dag, t ∈ U
  ub : ∀ t ∈ b.dag, t ∈ U
  ra : ∀ t ∈ U, t.prevs = [] → t ∈ a.dag
  rb : ∀ t ∈ U, t.prevs = [] → t ∈ b.dag
  la : Linked a kB
  lb : Linked b kA

def SameSet (a b : List Tx) : Prop := (∀ t ∈ b, t ∈ a) ∧ (∀ t ∈ a, t ∈ b)

theorem length_lt_of_new {d d' : List Tx} (hd : DagOK d) (hd' : DagOK d') (hsub : ∀ t ∈ d, t ∈ d') (hnew : ∃ t ∈ d', t ∉ d) :
    d.length < d'.length := by
  obtain ⟨t, ht, hn⟩ := hnew
  have hnd : (t :: d).Nodup := List.nodup_cons.mpr ⟨hn, dagOK_nodup hd⟩
  have := nodup_subset_length (t :: d) d' hnd (fun x hx => by
    rcases List.mem_cons.mp hx with rfl | h
    · exact ht
    · exact hsub x h)
  simp only [List.length_cons] at this
  omega

theorem length_le_of_sub {d d' : List Tx} (hd : DagOK d) (hsub : ∀ t ∈ d, t ∈ d') : d.length ≤ d'.length :=
  nodup_subset_length d d' (dagOK_nodup hd) hsub

/-- **a fair round pair**: stale conversations expire, `a` pulls from `b`, `b` pulls from `a`. The invariants are kept,
    no DAG shrinks, and either the two now hold the same set or the two DAGs together grew -/
theorem roundPair_step {cfg : Cfg} {env : Env} (H : Hyp cfg env) (U : List Tx)
    (hU : ∀ t ∈ U, ∀ t' ∈ U, t.ref = t'.ref → t = t')
    (hxf : ∀ d d' : List Tx, DagOK d → DagOK d' → (∀ t ∈ d, t ∈ U) → (∀ t ∈ d', t ∈ U) → xorOf d' = xorOf d → ∀ t ∈ d', t ∈ d)
    (pA pB : Peer) (fuel : Nat) (hfuel : pageOf cfg (lcOf U) + 3 ≤ fuel) (a b : Node) (hI : PairInv U a b pA.key pB.key) :
    PairInv U (roundPair cfg env pA pB fuel (a, b)).1 (roundPair cfg env pA pB fuel (a, b)).2 pA.key pB.key ∧
    (∀ t ∈ a.dag, t ∈ (roundPair cfg env pA pB fuel (a, b)).1.dag) ∧ (∀ t ∈ b.dag, t ∈ (roundPair cfg env pA pB fuel (a, b)).2.dag) ∧
    (∀ t ∈ (roundPair cfg env pA pB fuel (a, b)).1.dag, t ∈ a.dag ∨ t ∈ b.dag) ∧
    (∀ t ∈ (roundPair cfg env pA pB fuel (a, b)).2.dag, t ∈ a.dag ∨ t ∈ b.dag) ∧
    (SameSet (roundPair cfg env pA pB fuel (a, b)).1.dag (roundPair cfg env pA pB fuel (a, b)).2.dag ∨
      a.dag.length + b.dag.length < (roundPair cfg env pA pB fuel (a, b)).1.dag.length + (roundPair cfg env pA pB fuel (a, b)).2.dag.length) := by
  have refU : ∀ (x y : List Tx), (∀ t ∈ x, t ∈ U) → (∀ t ∈ y, t ∈ U) → RefFun x y := by
    intro x y hx hy t ht t' ht' he
    exact hU t (ht.elim (hx t) (hy t)) t' (ht'.elim (hx t') (hy t')) he
  have fuelOK : ∀ d : List Tx, (∀ t ∈ d, t ∈ U) → pageOf cfg (lcOf d) + 3 ≤ fuel := by
    intro d hd
    have := pageOf_mono cfg (lcOf_le_of_sub hd)
    omega
  -- expiry
  obtain ⟨ea1, ea2, ea3, ea4⟩ := expireAll_facts a
  obtain ⟨eb1, eb2, eb3, eb4⟩ := expireAll_facts b
  let a1 := expireAll a
  let b1 := expireAll b
  have ha1U : ∀ t ∈ a1.dag, t ∈ U := by intro t ht; rw [ea2] at ht; exact hI.ua t ht
  have hb1U : ∀ t ∈ b1.dag, t ∈ U := by intro t ht; rw [eb2] at ht; exact hI.ub t ht
  -- first pull: a from b
  obtain ⟨a2, hp1, hd1, hr1⟩ := pull_result H a1 b1 pA pB (by rw [ea2]; exact hI.oka) (by rw [eb2]; exact hI.okb)
    (refU _ _ ha1U hb1U) (fun t ht he => by rw [ea2]; exact hI.ra t (hb1U t ht) he)
    (payloadsOK_of_NI (eb3 hI.nib)) (queueOK_of (eb3 hI.nib) (hI.lb.shape eb4)) ea1
    (fun d hd hs hsub hx => hxf d b1.dag hd (by rw [eb2]; exact hI.okb)
      (fun t ht => (hsub t ht).elim (ha1U t) (hb1U t)) hb1U hx)
    fuel (fuelOK _ hb1U)
  obtain ⟨n1a, n1b, s1a, s1b⟩ := pullRound_NI cfg env pA pB fuel a1 b1 (ea3 hI.nia) (eb3 hI.nib)
  rw [hp1] at n1a n1b s1a s1b
  simp only at n1a n1b s1a s1b
  let b2 := (gossipTick b1 pA.key).node
  have hb2dag : b2.dag = b.dag := hd1.trans eb2
  have hb2c : b2.convs = [] := by
    have : b2.convs = b1.convs := by
      simp only [b2]
      unfold gossipTick
      split
      · rfl
      · split <;> rfl
    rw [this]; exact eb1
  obtain ⟨ok2, sup2, sub2, out2⟩ := hr1
  rw [ea2] at sup2
  rw [ea2, eb2] at sub2 out2
  have ha2U : ∀ t ∈ a2.dag, t ∈ U := fun t ht => (sub2 t ht).elim (hI.ua t) (hI.ub t)
  have hb2U : ∀ t ∈ b2.dag, t ∈ U := by intro t ht; rw [hb2dag] at ht; exact hI.ub t ht
  -- second pull: b from a
  obtain ⟨b3, hp2, hd2, hr2⟩ := pull_result H b2 a2 pB pA (by rw [hb2dag]; exact hI.okb) ok2
    (refU _ _ hb2U ha2U) (fun t ht he => by rw [hb2dag]; exact hI.rb t (ha2U t ht) he)
    (payloadsOK_of_NI n1a) (queueOK_of n1a ((hI.la.shape ea4).shape s1a)) hb2c
    (fun d hd hs hsub hx => hxf d a2.dag hd ok2
      (fun t ht => (hsub t ht).elim (hb2U t) (ha2U t)) ha2U hx)
    fuel (fuelOK _ ha2U)
  obtain ⟨n2b, n2a, s2b, s2a⟩ := pullRound_NI cfg env pB pA fuel b2 a2 n1b n1a
  rw [hp2] at n2b n2a s2b s2a
  simp only at n2b n2a s2b s2a
  let a3 := (gossipTick a2 pB.key).node
  have ha3dag : a3.dag = a2.dag := hd2
  obtain ⟨ok3, sup3, sub3, out3⟩ := hr2
  rw [hb2dag] at sup3 sub3 out3
  -- the result of the pair
  have hres : roundPair cfg env pA pB fuel (a, b) = (a3, b3) := by
    unfold roundPair
    simp only
    rw [hp1]
    simp only
    rw [hp2]
  rw [hres]
  simp only
  have hb3U : ∀ t ∈ b3.dag, t ∈ U := fun t ht => (sub3 t ht).elim (hI.ub t) (ha2U t)
  have ha3U : ∀ t ∈ a3.dag, t ∈ U := by intro t ht; rw [ha3dag] at ht; exact ha2U t ht
  refine ⟨⟨n2a, n2b, by rw [ha3dag]; exact ok2, ok3, ha3U, hb3U, ?_, ?_, ?_, ?_⟩, ?_, sup3, ?_, ?_, ?_⟩
  · intro t ht he; rw [ha3dag]; exact sup2 t (hI.ra t ht he)
  · intro t ht he; exact sup3 t (hI.rb t ht he)
  · exact ((hI.la.shape ea4).shape s1a).shape s2a
  · exact ((hI.lb.shape eb4).shape s1b).shape s2b
  · intro t ht; rw [ha3dag]; exact sup2 t ht
  · intro t ht; rw [ha3dag] at ht; exact sub2 t ht
  · intro t ht
    rcases sub3 t ht with h | h
    · exact Or.inr h
    · exact sub2 t h
  · -- same set, or growth
    by_cases hg1 : ∃ t ∈ a2.dag, t ∉ a.dag
    · right
      have h1 := length_lt_of_new hI.oka ok2 sup2 hg1
      have h2 := length_le_of_sub hI.okb sup3
      rw [ha3dag]; omega
    · by_cases hg2 : ∃ t ∈ b3.dag, t ∉ b.dag
      · right
        have h1 := length_le_of_sub hI.oka sup2
        have h2 := length_lt_of_new hI.okb ok3 sup3 hg2
        rw [ha3dag]; omega
      · left
        -- both pulls were stuck: a2 = a and b3 = b as sets, and the pair argument applies
        have a2a : ∀ t ∈ a2.dag, t ∈ a.dag := fun t ht => Classical.byContradiction (fun hn => hg1 ⟨t, ht, hn⟩)
        have b3b : ∀ t ∈ b3.dag, t ∈ b.dag := fun t ht => Classical.byContradiction (fun hn => hg2 ⟨t, ht, hn⟩)
        have st1 : StuckAt cfg a.dag b.dag (pageOf cfg (Nat.min (lcOf b.dag) (lcOf a.dag))) := by
          rcases out2 with h | h
          · exact absurd h hg1
          · exact h
        have st2 : StuckAt cfg b.dag a.dag (pageOf cfg (Nat.min (lcOf a.dag) (lcOf b.dag))) := by
          rcases out3 with h | h
          · exact absurd h hg2
          · have hl : lcOf a2.dag = lcOf a.dag := lcOf_congr a2a sup2
            rw [hl] at h
            exact stuckAt_congr cfg sup2 a2a h
        obtain ⟨hba, hab⟩ := pair_stuck_same cfg H.ps a.dag b.dag hI.oka hI.okb st1 st2
        rw [ha3dag]
        exact ⟨fun t ht => sup2 t (hba t (b3b t ht)), fun t ht => sup3 t (hab t (a2a t ht))⟩


theorem roundPairs_succ (cfg : Cfg) (env : Env) (pA pB : Peer) (fuel k : Nat) (ab : Node × Node) :
    roundPairs cfg env pA pB fuel (k + 1) ab = roundPairs cfg env pA pB fuel k (roundPair cfg env pA pB fuel ab) := rfl

/-- **convergence, quantitative**: after `k` fair round pairs the two DAGs hold the same set, or together they grew by
    at least `k` transactions; nothing is ever lost and both stay inside the union -/
theorem converge_aux {cfg : Cfg} {env : Env} (H : Hyp cfg env) (U : List Tx)
    (hU : ∀ t ∈ U, ∀ t' ∈ U, t.ref = t'.ref → t = t')
    (hxf : ∀ d d' : List Tx, DagOK d → DagOK d' → (∀ t ∈ d, t ∈ U) → (∀ t ∈ d', t ∈ U) → xorOf d' = xorOf d → ∀ t ∈ d', t ∈ d)
    (pA pB : Peer) (fuel : Nat) (hfuel : pageOf cfg (lcOf U) + 3 ≤ fuel) :
    ∀ (k : Nat) (a b : Node), PairInv U a b pA.key pB.key →
      PairInv U (roundPairs cfg env pA pB fuel k (a, b)).1 (roundPairs cfg env pA pB fuel k (a, b)).2 pA.key pB.key ∧
      (∀ t ∈ a.dag, t ∈ (roundPairs cfg env pA pB fuel k (a, b)).1.dag) ∧ (∀ t ∈ b.dag, t ∈ (roundPairs cfg env pA pB fuel k (a, b)).2.dag) ∧
      (∀ t ∈ (roundPairs cfg env pA pB fuel k (a, b)).1.dag, t ∈ a.dag ∨ t ∈ b.dag) ∧
      (∀ t ∈ (roundPairs cfg env pA pB fuel k (a, b)).2.dag, t ∈ a.dag ∨ t ∈ b.dag) ∧
      (SameSet a.dag b.dag → SameSet (roundPairs cfg env pA pB fuel k (a, b)).1.dag (roundPairs cfg env pA pB fuel k (a, b)).2.dag) ∧
      (SameSet (roundPairs cfg env pA pB fuel k (a, b)).1.dag (roundPairs cfg env pA pB fuel k (a, b)).2.dag ∨
        a.dag.length + b.dag.length + k ≤ (roundPairs cfg env pA pB fuel k (a, b)).1.dag.length + (roundPairs cfg env pA pB fuel k (a, b)).2.dag.length) := by
  intro k
  induction k with
  | zero =>
    intro a b hI
    exact ⟨hI, fun t h => h, fun t h => h, fun t h => Or.inl h, fun t h => Or.inr h, fun h => h, Or.inr (Nat.le_refl _)⟩
  | succ k ih =>
    intro a b hI
    rw [roundPairs_succ]
    obtain ⟨hI1, sa, sb, ua, ub, hcase⟩ := roundPair_step H U hU hxf pA pB fuel hfuel a b hI
    generalize roundPair cfg env pA pB fuel (a, b) = ab1 at hI1 sa sb ua ub hcase ⊢
    obtain ⟨a1, b1⟩ := ab1
    simp only at hI1 sa sb ua ub hcase
    obtain ⟨hIk, ska, skb, uka, ukb, hpers, hk⟩ := ih a1 b1 hI1
    have same1 : SameSet a.dag b.dag → SameSet a1.dag b1.dag := by
      rintro ⟨hba, hab⟩
      constructor
      · intro t ht
        rcases ub t ht with h | h
        · exact sa t h
        · exact sa t (hba t h)
      · intro t ht
        rcases ua t ht with h | h
        · exact sb t (hab t h)
        · exact sb t h
    refine ⟨hIk, fun t ht => ska t (sa t ht), fun t ht => skb t (sb t ht), ?_, ?_, fun h => hpers (same1 h), ?_⟩
    · intro t ht
      rcases uka t ht with h | h
      · exact ua t h
      · exact ub t h
    · intro t ht
      rcases ukb t ht with h | h
      · exact ua t h
      · exact ub t h
    · rcases hcase with hs | hg
      · exact Or.inl (hpers hs)
      · rcases hk with hs | hg2
        · exact Or.inl hs
        · exact Or.inr (by omega)

end Nuts.Proto.Live
