/-
  C13 helper lemmas for the request layer (NutsModel/C13/Request.lean).
-/
import NutsModel.C13.Request
import NutsProofs.Lemmas.C13
import NutsProofs.Lemmas.Sort

namespace Nuts.C13
open Nuts

/-! ### the option loop -/

theorem applyOpt_subject (cls : CharClass) (p : CreateParams) (s : String) :
    applyOpt cls p (.subject s) =
      if matchesPlus cls s then .ok { p with subject := s } else .err "validation" := rfl

theorem applyOpt_legacy_mono (cls : CharClass) {p p' : CreateParams} {o : CreateOpt}
    (h : applyOpt cls p o = .ok p') : (p.keyAgreement = true → p'.keyAgreement = true) ∧ (p.legacy = true → p'.legacy = true) := by
  cases o with
  | subject s =>
    rw [applyOpt_subject] at h
    split at h
    · cases h; exact ⟨id, id⟩
    · cases h
  | encryptionKey => cases h; exact ⟨fun _ => rfl, id⟩
  | nutsLegacy => cases h; exact ⟨id, fun _ => rfl⟩
  | unknown => cases h

/-- the name the option loop ends with is the default one or passed the pattern -/
theorem applyOpts_subject (cls : CharClass) : ∀ (opts : List CreateOpt) (p p' : CreateParams),
    applyOpts cls opts p = .ok p' → p'.subject = p.subject ∨ matchesPlus cls p'.subject = true
  | [], p, p', h => by cases h; exact .inl rfl
  | o :: os, p, p', h => by
    unfold applyOpts at h
    cases ho : applyOpt cls p o with
    | err e => rw [ho] at h; cases h
    | panic s => rw [ho] at h; cases h
    | ok q =>
      rw [ho] at h
      rcases applyOpts_subject cls os q p' h with h1 | h1
      · cases o with
        | subject s =>
          rw [applyOpt_subject] at ho
          split at ho
          · cases ho; exact .inr (by rw [h1]; assumption)
          · cases ho
        | encryptionKey => cases ho; exact .inl h1
        | nutsLegacy => cases ho; exact .inl h1
        | unknown => cases ho
      · exact .inr h1

/-- one unknown option or one ill-formed name anywhere in the list refuses the request -/
theorem applyOpts_err_of_mem (cls : CharClass) : ∀ (opts : List CreateOpt) (p : CreateParams) (o : CreateOpt),
    o ∈ opts → (∀ q, applyOpt cls q o = .err "validation") → applyOpts cls opts p = .err "validation"
  | [], _, _, h, _ => by cases h
  | x :: xs, p, o, h, hbad => by
    unfold applyOpts
    rcases List.mem_cons.mp h with rfl | h
    · rw [hbad p]
    · cases hx : applyOpt cls p x with
      | ok q => exact applyOpts_err_of_mem cls xs q o h hbad
      | err e =>
        cases x with
        | subject s => rw [applyOpt_subject] at hx; split at hx <;> cases hx; rfl
        | encryptionKey => cases hx
        | nutsLegacy => cases hx
        | unknown => cases hx; rfl
      | panic s =>
        cases x with
        | subject s => rw [applyOpt_subject] at hx; split at hx <;> cases hx
        | encryptionKey => cases hx
        | nutsLegacy => cases hx
        | unknown => cases hx

/-- the encryption-key option sticks -/
theorem applyOpts_keyAgreement (cls : CharClass) : ∀ (opts : List CreateOpt) (p p' : CreateParams),
    applyOpts cls opts p = .ok p' → (p.keyAgreement = true ∨ CreateOpt.encryptionKey ∈ opts) → p'.keyAgreement = true
  | [], p, p', h, hk => by
    cases h
    rcases hk with hk | hk
    · exact hk
    · cases hk
  | o :: os, p, p', h, hk => by
    unfold applyOpts at h
    cases ho : applyOpt cls p o with
    | err e => rw [ho] at h; cases h
    | panic s => rw [ho] at h; cases h
    | ok q =>
      rw [ho] at h
      apply applyOpts_keyAgreement cls os q p' h
      rcases hk with hk | hk
      · exact .inl ((applyOpt_legacy_mono cls ho).1 hk)
      · rcases List.mem_cons.mp hk with rfl | hk
        · cases ho; exact .inl rfl
        · exact .inr hk

/-! ### the generation loop -/

theorem genLoop_ok_of_no_web (rw ka : Bool) : ∀ (ms : List Method) (n : Nat), (rw && ka) = false ∨ Method.web ∉ ms →
    genLoop rw ka ms n = .ok (n + ms.length)
  | [], n, _ => rfl
  | m :: ms, n, h => by
    unfold genLoop
    have hc : (rw && ka && m == .web) = false := by
      rcases h with h | h
      · rw [h]; rfl
      · have : m ≠ .web := fun e => h (e ▸ List.mem_cons_self ..)
        cases m
        · simp
        · exact absurd rfl this
    rw [hc]
    simp only [Bool.false_eq_true, if_false]
    rw [genLoop_ok_of_no_web rw ka ms (n + 1) (h.imp id (fun h hm => h (List.mem_cons_of_mem _ hm)))]
    simp only [List.length_cons]
    congr 1
    omega

theorem genLoop_err_of_web (ka_rw : Bool) : ∀ (ms : List Method) (n : Nat), Method.web ∈ ms →
    genLoop true true ms n = .err "keyagreement"
  | [], _, h => by cases h
  | m :: ms, n, h => by
    unfold genLoop
    cases m with
    | web => rfl
    | nuts =>
      have : Method.web ∈ ms := by
        rcases List.mem_cons.mp h with h | h
        · cases h
        · exact h
      simp only [Bool.and_self, Bool.true_and]
      show (if (Method.nuts == Method.web) = true then _ else _) = _
      rw [if_neg (by decide)]
      exact genLoop_err_of_web ka_rw ms (n + 1) this

/-- the verdict of the generation loop does not depend on the order in which Go ranges over the method map -/
theorem genLoop_isOk_perm (rw ka : Bool) {o1 o2 : List Method} (hp : o1.Perm o2) (n : Nat) :
    (genLoop rw ka o1 n).isOk = (genLoop rw ka o2 n).isOk := by
  by_cases h : (rw && ka) = false ∨ Method.web ∉ o1
  · rw [genLoop_ok_of_no_web rw ka o1 n h,
        genLoop_ok_of_no_web rw ka o2 n (h.imp id (fun h hm => h (hp.symm.subset hm)))]
    rfl
  · have h1 : rw = true ∧ ka = true := by
      cases rw <;> cases ka <;> simp at h ⊢
    have h2 : Method.web ∈ o1 := Classical.byContradiction (fun hn => h (.inr hn))
    obtain ⟨rfl, rfl⟩ := h1
    rw [genLoop_err_of_web true o1 n h2, genLoop_err_of_web true o2 n (hp.subset h2)]

/-! ### the per-DID check of AddVerificationMethod -/

theorem addKeyCheck_err_of_web : ∀ (rows : List DidRow), (∀ r ∈ rows, r.vers.isEmpty = false) →
    (∃ r ∈ rows, r.method = .web) → addKeyCheck true true rows = .err "keyagreement"
  | [], _, ⟨_, h, _⟩ => by cases h
  | r :: rs, hv, ⟨x, hx, hm⟩ => by
    unfold addKeyCheck
    rw [hv r (List.mem_cons_self ..)]
    simp only [Bool.false_eq_true, if_false, Bool.and_self, Bool.true_and]
    by_cases hr : r.method = .web
    · rw [hr]; rfl
    · have : (r.method == Method.web) = false := by
        cases hmm : r.method
        · rfl
        · exact absurd hmm hr
      rw [this]
      simp only [Bool.false_eq_true, if_false]
      apply addKeyCheck_err_of_web rs (fun r hr => hv r (List.mem_cons_of_mem _ hr))
      rcases List.mem_cons.mp hx with rfl | hx
      · exact absurd hm hr
      · exact ⟨x, hx, hm⟩

/-! ### a failing clean-up transaction leaves the world of a process stop -/

/-- for the Commit loop without an injected stop there is a stop point `k` that publishes the same and after which the
    clean-up does not run: the first failing did:nuts Commit, or "after the last call" -/
theorem commitLoop_stop_witness (f : Fault) (hf : f = .none ∨ f = .failNuts) (chs : List Change) :
    ∀ (ms : List Method) (i : Nat) (pub : Nat → List Content), ∃ k, i ≤ k ∧
      (commitLoop (.stop k) chs ms i pub).1 = (commitLoop f chs ms i pub).1 ∧
      ((commitLoop (.stop k) chs ms i pub).2 = .stopped ∨
        ∃ j, (commitLoop (.stop k) chs ms i pub).2 = .completed j ∧ j ≤ k)
  | [], i, pub => ⟨i, Nat.le_refl _, rfl, .inr ⟨i, rfl, Nat.le_refl _⟩⟩
  | m :: ms, i, pub => by
    have hfi : ∀ j, (f = Fault.stop j) = False := by
      intro j; rcases hf with rfl | rfl <;> simp
    cases hfind : chs.find? (fun ch => ch.method = m) with
    | none =>
      obtain ⟨k, hk, h1, h2⟩ := commitLoop_stop_witness f hf chs ms i pub
      refine ⟨k, hk, ?_, ?_⟩
      · simp only [commitLoop, hfind]; exact h1
      · simp only [commitLoop, hfind]; exact h2
    | some ch =>
      cases m with
      | web =>
        obtain ⟨k, hk, h1, h2⟩ := commitLoop_stop_witness f hf chs ms (i + 1) pub
        have hne : (Fault.stop k = Fault.stop i) = False := by
          simp only [Fault.stop.injEq, eq_iff_iff, iff_false]; omega
        refine ⟨k, by omega, ?_, ?_⟩
        · simp only [commitLoop, hfind, hne, hfi, if_false]; exact h1
        · simp only [commitLoop, hfind, hne, if_false]; exact h2
      | nuts =>
        by_cases hstop : f = .failNuts
        · subst hstop
          refine ⟨i, Nat.le_refl _, ?_, .inl ?_⟩
          · simp only [commitLoop, hfind, if_true, reduceCtorEq, if_false]
          · simp only [commitLoop, hfind, if_true]
        · have hnone : f = .none := by rcases hf with h | h; exact h; exact absurd h hstop
          subst hnone
          cases hc : commitNuts pub ch with
          | ok pub' =>
            obtain ⟨k, hk, h1, h2⟩ := commitLoop_stop_witness .none (.inl rfl) chs ms (i + 1) pub'
            have hne : (Fault.stop k = Fault.stop i) = False := by
              simp only [Fault.stop.injEq, eq_iff_iff, iff_false]; omega
            refine ⟨k, by omega, ?_, ?_⟩
            · simp only [commitLoop, hfind, hne, reduceCtorEq, if_false, hc]; exact h1
            · simp only [commitLoop, hfind, hne, reduceCtorEq, if_false, hc]; exact h2
          | err e =>
            refine ⟨i, Nat.le_refl _, ?_, .inl ?_⟩
            · simp only [commitLoop, hfind, if_true, reduceCtorEq, if_false, hc]
            · simp only [commitLoop, hfind, if_true]
          | panic e =>
            refine ⟨i, Nat.le_refl _, ?_, .inl ?_⟩
            · simp only [commitLoop, hfind, if_true, reduceCtorEq, if_false, hc]
            · simp only [commitLoop, hfind, if_true]

/-- **a database error in the clean-up transaction leaves exactly the world of a process stop** at some point of the
    Commit loop (or the operation changed nothing) -/
theorem cleanup_failure_is_a_stop (cfg : Cfg) (w : World) (o : Op) (order : List Method) (nf : Bool) :
    ∃ f, (stepOpCleanupFails cfg w o order nf).1 = (stepOp cfg w o order f).1 := by
  unfold stepOpCleanupFails
  cases ht : tx1 cfg w o with
  | err e => exact ⟨.none, by simp only [stepOp, stepOpCore, ht]⟩
  | panic e => exact ⟨.none, by simp only [stepOp, stepOpCore, ht]⟩
  | ok r =>
    obtain ⟨w1, chs⟩ := r
    simp only
    by_cases he : chs.isEmpty = true
    · rw [if_pos he]; exact ⟨.none, rfl⟩
    · rw [if_neg he]
      obtain ⟨k, _, h1, h2⟩ := commitLoop_stop_witness (if nf = true then Fault.failNuts else Fault.none)
        (by cases nf <;> simp) chs order 0 w1.pub
      refine ⟨.stop k, ?_⟩
      simp only [stepOp, ht, Fault.inTx1, stepOpCore]
      rw [← h1]
      generalize commitLoop (.stop k) chs order 0 w1.pub = r at h2
      obtain ⟨p, ph⟩ := r
      rcases h2 with h2 | ⟨j, h2, hj⟩
      · simp only at h2; subst h2; rfl
      · simp only at h2; subst h2; simp only [hj, if_true]

/-- the same with the stop point and what the Commit loop does there made explicit (the premises of
    `stopped_operation_resolved`) -/
theorem cleanup_failure_stop_point {cfg : Cfg} {w w1 : World} {o : Op} {chs : List Change} (order : List Method) (nf : Bool)
    (ht : tx1 cfg w o = .ok (w1, chs)) (hne : chs.isEmpty = false) :
    ∃ k, (stepOpCleanupFails cfg w o order nf).1 = (stepOp cfg w o order (.stop k)).1 ∧
      ((commitLoop (.stop k) chs order 0 w1.pub).2 = .stopped ∨
        ∃ i, (commitLoop (.stop k) chs order 0 w1.pub).2 = .completed i ∧ i ≤ k) := by
  obtain ⟨k, _, h1, h2⟩ := commitLoop_stop_witness (if nf = true then Fault.failNuts else Fault.none)
    (by cases nf <;> simp) chs order 0 w1.pub
  refine ⟨k, ?_, h2⟩
  unfold stepOpCleanupFails
  simp only [ht, hne, Bool.false_eq_true, if_false]
  simp only [stepOp, ht, Fault.inTx1, stepOpCore]
  rw [← h1]
  generalize commitLoop (.stop k) chs order 0 w1.pub = r at h2
  obtain ⟨p, ph⟩ := r
  rcases h2 with h2 | ⟨j, h2, hj⟩
  · simp only at h2; subst h2; rfl
  · simp only at h2; subst h2; simp only [hj, if_true]

/-! ### `sortDIDsByMethod`: the comparator is a strict weak order -/

/-- the comparator without its (redundant) first branch -/
def lessKey (absent : Int) (order : List String) (a b : DidId) : Bool :=
  if methodRank absent order a.method = absent ∧ methodRank absent order b.method = absent
  then decide (a.method < b.method)
  else decide (methodRank absent order a.method < methodRank absent order b.method)

theorem str_lt_irrefl (a : String) : ¬ a < a := fun h => str_lt_asymm a a h h

theorem lessDID_eq_lessKey (absent : Int) (order : List String) (a b : DidId) :
    lessDID absent order a b = lessKey absent order a b := by
  unfold lessDID lessKey
  by_cases hab : a = b
  · subst hab
    rw [if_pos rfl]
    split
    · rw [decide_eq_false (str_lt_irrefl _), decide_eq_false (str_lt_irrefl _)]
    · rw [decide_eq_false (str_lt_irrefl _), decide_eq_false (Int.lt_irrefl _)]
  · rw [if_neg hab]

theorem lessDID_asymm (absent : Int) (order : List String) (a b : DidId)
    (h : lessDID absent order a b = true) : lessDID absent order b a = false := by
  rw [lessDID_eq_lessKey] at *
  unfold lessKey at *
  by_cases hc : methodRank absent order a.method = absent ∧ methodRank absent order b.method = absent
  · rw [if_pos hc] at h
    rw [if_pos ⟨hc.2, hc.1⟩]
    exact decide_eq_false (str_lt_asymm _ _ (of_decide_eq_true h))
  · rw [if_neg hc] at h
    rw [if_neg (fun h' => hc ⟨h'.2, h'.1⟩)]
    have := of_decide_eq_true h
    exact decide_eq_false (by omega)

theorem lessDID_le_trans (absent : Int) (order : List String) (a b c : DidId)
    (h1 : lessDID absent order b a = false) (h2 : lessDID absent order c b = false) :
    lessDID absent order c a = false := by
  rw [lessDID_eq_lessKey] at *
  unfold lessKey at *
  by_cases ha : methodRank absent order a.method = absent <;>
  by_cases hb : methodRank absent order b.method = absent <;>
  by_cases hc : methodRank absent order c.method = absent <;>
  simp only [ha, hb, hc, and_self, and_true, true_and, and_false, false_and, if_true, if_false,
    decide_eq_false_iff_not] at h1 h2 ⊢
  · exact str_le_trans _ _ _ h1 h2
  all_goals omega

/-- two DIDs the comparator cannot tell apart have ranks that agree; with different methods that means: both methods are
    unlisted and … equal. So DIDs of DIFFERENT methods are always strictly ordered, unless both methods are listed at
    the same rank — impossible, a rank is a position. -/
theorem methodRankFrom_spec : ∀ (order : List String) (k : Nat) (m : String) (acc : Int),
    methodRankFrom order k m acc = acc ∨
      ∃ i, i < order.length ∧ order[i]? = some m ∧ methodRankFrom order k m acc = ((k + i : Nat) : Int)
  | [], _, _, _ => .inl rfl
  | v :: vs, k, m, acc => by
    unfold methodRankFrom
    by_cases hv : (v == m) = true
    · rw [if_pos hv]
      have hvm : v = m := by simpa using hv
      rcases methodRankFrom_spec vs (k + 1) m (k : Int) with h | ⟨i, hi, hget, h⟩
      · exact .inr ⟨0, by simp, by simp [hvm], by rw [h]; rfl⟩
      · exact .inr ⟨i + 1, by simp; omega, by simpa using hget, by rw [h]; congr 1; omega⟩
    · rw [if_neg hv]
      rcases methodRankFrom_spec vs (k + 1) m acc with h | ⟨i, hi, hget, h⟩
      · exact .inl h
      · exact .inr ⟨i + 1, by simp; omega, by simpa using hget, by rw [h]; congr 1; omega⟩

theorem lessDID_total_of_method_ne (absent : Int) (habs : absent < 0) (order : List String) (a b : DidId)
    (hne : a.method ≠ b.method) (h1 : lessDID absent order a b = false) (h2 : lessDID absent order b a = false) : False := by
  rw [lessDID_eq_lessKey] at *
  unfold lessKey at *
  by_cases hc : methodRank absent order a.method = absent ∧ methodRank absent order b.method = absent
  · rw [if_pos hc] at h1
    rw [if_pos ⟨hc.2, hc.1⟩] at h2
    exact hne (str_lt_trichotomy _ _ (of_decide_eq_false h1) (of_decide_eq_false h2))
  · rw [if_neg hc] at h1
    rw [if_neg (fun h' => hc ⟨h'.2, h'.1⟩)] at h2
    have e1 := of_decide_eq_false h1
    have e2 := of_decide_eq_false h2
    have heq : methodRank absent order a.method = methodRank absent order b.method := by omega
    unfold methodRank at heq hc
    rcases methodRankFrom_spec order 0 a.method absent with ha | ⟨i, hi, hgi, ha⟩ <;>
    rcases methodRankFrom_spec order 0 b.method absent with hb | ⟨j, hj, hgj, hb⟩
    · exact hc ⟨ha, hb⟩
    · rw [ha, hb] at heq; omega
    · rw [ha, hb] at heq; omega
    · rw [ha, hb] at heq
      have : i = j := by omega
      subst this
      rw [hgi] at hgj
      exact hne (Option.some.inj hgj)

end Nuts.C13
