/-
  C10 — helper lemmas for the observation sites of the did store: document IDs along the chain, the
  in-memory conflicted cache and its reload after a restart, Iterate, Resolve's filters, end-to-end forms of the
  deactivation and covering-update clauses. Property theorems: NutsProofs/Props/C10.lean.
-/
import NutsModel.C10.DidStore
import NutsProofs.Lemmas.Sort
import NutsProofs.Lemmas.C10

namespace Nuts.C10
open Nuts

/-! ## document IDs: every version of a DID carries that DID as its document ID -/

/-- `mergeDocuments` takes the ID of its first argument (`result.ID = docs[0].ID`) -/
def MergeKeepsId (cfg : Cfg) : Prop := ∀ a b, (cfg.merge a b).id = a.id

theorem cfgOf_keeps_id (σ : Field → List Entry → List Entry) (sf : List Field) : MergeKeepsId (cfgOf σ sf) :=
  fun _ _ => rfl

theorem docOfTx_mem {evs : List Event} {r : Ref} {d : Doc} (h : docOfTx evs r = some d) : ∃ e ∈ evs, e.doc = d := by
  unfold docOfTx at h
  cases hf : evs.find? (fun e => e.ref == r) with
  | none => simp [hf] at h
  | some e =>
    simp only [hf, Option.map_some, Option.some.injEq] at h
    exact ⟨e, List.mem_of_find?_eq_some hf, h⟩

theorem mergeStep_ok (cfg : Cfg) (evs : List Event) (d : Doc) (src : List Nat) (st : Nat) :
    mergeStep cfg evs (.ok (d, src)) st =
      match docOfTx evs st with
      | none => .err "txref-not-found"
      | some old => .ok (cfg.merge old d, src ++ [st]) := rfl

theorem foldl_mergeStep_id (cfg : Cfg) (hk : MergeKeepsId cfg) (evs : List Event) (id : String)
    (hevs : ∀ x ∈ evs, x.doc.id = id) :
    ∀ (l : List Nat) (d0 : Doc) (s0 : List Nat) (d : Doc) (src : List Nat), d0.id = id →
      l.foldl (mergeStep cfg evs) (.ok (d0, s0)) = .ok (d, src) → d.id = id := by
  intro l
  induction l with
  | nil => intro d0 s0 d src h0 h; simp only [List.foldl_nil, Res.ok.injEq, Prod.mk.injEq] at h; rw [← h.1]; exact h0
  | cons st l ih =>
    intro d0 s0 d src h0 h
    simp only [List.foldl_cons] at h
    rw [mergeStep_ok] at h
    cases hd : docOfTx evs st with
    | none =>
      simp only [hd] at h
      rw [foldl_mergeStep_err] at h
      cases h
    | some old =>
      simp only [hd] at h
      obtain ⟨e, he, hed⟩ := docOfTx_mem hd
      refine ih (cfg.merge old d0) (s0 ++ [st]) d src ?_ h
      rw [hk, ← hed]; exact hevs e he

theorem applyEvent_docid (cfg : Cfg) (hk : MergeKeepsId cfg) (evs : List Event) (id : String)
    (hevs : ∀ x ∈ evs, x.doc.id = id) (cur : Option Meta) (e : Event) (he : e.doc.id = id) (d : Doc) (m : Meta)
    (h : applyEvent cfg evs cur e = .ok (d, m)) : d.id = id := by
  unfold applyEvent applyDocument at h
  simp only at h
  split at h
  · simp only [Res.ok.injEq, Prod.mk.injEq] at h; rw [← h.1]; exact he
  · split at h
    · simp only [Res.ok.injEq, Prod.mk.injEq] at h; rw [← h.1]; exact he
    · split at h
      · rename_i d' src hf
        simp only [Res.ok.injEq, Prod.mk.injEq] at h
        rw [← h.1]
        exact foldl_mergeStep_id cfg hk evs id hevs _ _ _ _ _ he hf
      · cases h
      · cases h

theorem applyAll_docid (cfg : Cfg) (hk : MergeKeepsId cfg) (evs : List Event) (id : String)
    (hevs : ∀ x ∈ evs, x.doc.id = id) :
    ∀ (es : List Event) (cur : Option Meta) (c : List (Doc × Meta)), (∀ e ∈ es, e.doc.id = id) →
      applyAll cfg evs cur es = .ok c → ∀ p ∈ c, p.1.id = id := by
  intro es
  induction es with
  | nil => intro cur c _ h p hp; simp only [applyAll, Res.ok.injEq] at h; subst h; cases hp
  | cons e es ih =>
    intro cur c hes h p hp
    unfold applyAll at h
    split at h
    · rename_i d m he
      split at h
      · rename_i rest hr
        cases h
        rcases List.mem_cons.mp hp with rfl | hp
        · exact applyEvent_docid cfg hk evs id hevs cur e (hes e (List.mem_cons_self ..)) d m he
        · exact ih (some m) rest (fun x hx => hes x (List.mem_cons_of_mem _ hx)) hr p hp
      · cases h
      · cases h
    · cases h
    · cases h

/-! ## Resolve: what an answer guarantees -/

theorem resolveChain_sound (rm : Option ResolveMeta) :
    ∀ (c : List (Doc × Meta)) (p : Doc × Meta), resolveChain rm c = .ok p →
      ∃ newer older, c = newer ++ p :: older ∧ matchesMeta p.2 rm = true ∧
        ∀ q ∈ newer, matchesMeta q.2 rm = false := by
  intro c
  induction c with
  | nil => intro p h; simp [resolveChain] at h
  | cons x xs ih =>
    intro p h
    obtain ⟨d, m⟩ := x
    unfold resolveChain at h
    split at h
    · cases h
    · split at h
      · rename_i hm
        simp only [Res.ok.injEq] at h
        subst h
        exact ⟨[], xs, rfl, hm, fun q hq => by cases hq⟩
      · rename_i hm
        obtain ⟨newer, older, hc, hmatch, hall⟩ := ih p h
        refine ⟨(d, m) :: newer, older, by rw [hc]; rfl, hmatch, ?_⟩
        intro q hq
        rcases List.mem_cons.mp hq with rfl | hq
        · simpa using hm
        · exact hall q hq

theorem resolveChain_not_found (rm : Option ResolveMeta) :
    ∀ (c : List (Doc × Meta)), resolveChain rm c = .err "not-found" → ∀ q ∈ c, matchesMeta q.2 rm = false := by
  intro c
  induction c with
  | nil => intro _ q hq; cases hq
  | cons x xs ih =>
    intro h q hq
    obtain ⟨d, m⟩ := x
    unfold resolveChain at h
    split at h
    · simp at h
    · split at h
      · cases h
      · rename_i hm
        rcases List.mem_cons.mp hq with rfl | hq
        · simpa using hm
        · exact ih h q hq

/-- the only errors `Resolve` gives on stored data are not-found and deactivated -/
theorem resolveChain_errors (rm : Option ResolveMeta) :
    ∀ (c : List (Doc × Meta)) (x : String), resolveChain rm c = .err x → x = "not-found" ∨ x = "deactivated" := by
  intro c
  induction c with
  | nil => intro x h; simp only [resolveChain, Res.err.injEq] at h; exact Or.inl h.symm
  | cons y ys ih =>
    intro x h
    obtain ⟨d, m⟩ := y
    unfold resolveChain at h
    split at h
    · simp only [Res.err.injEq] at h; exact Or.inr h.symm
    · split at h
      · cases h
      · exact ih x h

/-- the filters of `matches()` spelled out -/
theorem matchesMeta_some (m : Meta) (r : ResolveMeta) (h : matchesMeta m (some r) = true) :
    (m.deactivated = true → r.allowDeactivated = true) ∧
    (∀ x, r.hash = some x → m.hash = x) ∧
    (∀ t, r.time = some t → m.updated ≤ t ∧ m.created ≤ t) ∧
    (∀ tx, r.sourceTx = some tx → tx ∈ m.sourceTx) := by
  unfold matchesMeta at h
  cases hh : r.hash <;> cases ht : r.time <;> cases hs : r.sourceTx <;> cases ha : r.allowDeactivated <;>
    cases hd : m.deactivated <;> simp [hh, ht, hs, ha, hd] at h ⊢ <;> (try omega) <;> (try exact h) <;>
    (try (constructor <;> (try omega) <;> (try exact h.1) <;> (try exact h.2)))

theorem matchesMeta_none (m : Meta) (h : matchesMeta m none = true) : m.deactivated = false := by
  unfold matchesMeta at h
  simpa using h

/-! ## association lists -/

theorem alGet_alDel_self {ν} (m : List (String × ν)) (k : String) : alGet (alDel m k) k = none := by
  unfold alGet alDel
  induction m with
  | nil => rfl
  | cons q qs ih =>
    by_cases hq : q.1 = k
    · simp only [List.filter_cons, hq, beq_self_eq_true, Bool.not_true, Bool.false_eq_true, if_false]; exact ih
    · have : (q.1 == k) = false := by simpa using hq
      simp only [List.filter_cons, this, Bool.not_false, if_true, List.find?_cons]; exact ih

theorem alGet_alDel_other {ν} (m : List (String × ν)) (k j : String) (h : j ≠ k) :
    alGet (alDel m k) j = alGet m j := by
  unfold alGet alDel
  congr 1
  induction m with
  | nil => rfl
  | cons q qs ih =>
    by_cases hq : q.1 = k
    · have hqj : (q.1 == j) = false := by simp [hq]; exact fun e => h e.symm
      simp only [List.filter_cons, hq, beq_self_eq_true, Bool.not_true, Bool.false_eq_true, if_false, List.find?_cons]
      rw [← hq] at ih ⊢
      simp only [hqj]
      exact ih
    · have : (q.1 == k) = false := by simpa using hq
      simp only [List.filter_cons, this, Bool.not_false, if_true, List.find?_cons]
      split
      · rfl
      · exact ih

theorem keys_alPut_nodup {ν} (l : List (String × ν)) (k : String) (v : ν) (hn : (l.map (·.1)).Nodup) :
    ((alPut l k v).map (·.1)).Nodup := by
  unfold alPut
  simp only [List.map_cons, List.nodup_cons]
  constructor
  · intro hm
    obtain ⟨p, hp, hpk⟩ := List.mem_map.mp hm
    have := (List.mem_filter.mp hp).2
    simp [hpk] at this
  · exact List.Nodup.sublist (List.Sublist.map _ List.filter_sublist) hn

theorem keys_alDel_nodup {ν} (l : List (String × ν)) (k : String) (hn : (l.map (·.1)).Nodup) :
    ((alDel l k).map (·.1)).Nodup :=
  List.Nodup.sublist (List.Sublist.map _ List.filter_sublist) hn

theorem alGet_isSome_iff_mem_keys {ν} (l : List (String × ν)) (k : String) :
    (alGet l k).isSome = true ↔ k ∈ l.map (·.1) := by
  constructor
  · intro h
    cases hg : alGet l k with
    | none => simp [hg] at h
    | some v => exact List.mem_map.mpr ⟨(k, v), alGet_some_mem l k v hg, rfl⟩
  · intro h
    cases hg : alGet l k with
    | none =>
      exfalso
      obtain ⟨p, hp, hpk⟩ := List.mem_map.mp h
      unfold alGet at hg
      have hf : l.find? (fun q => q.1 == k) = none := by
        cases hx : l.find? (fun q => q.1 == k) with
        | none => rfl
        | some y => simp [hx] at hg
      have := List.find?_eq_none.mp hf p hp
      simp [hpk] at this
    | some v => rfl

/-! ## store-level invariants for the observation sites -/

/-- every event filed under DID key `k` carries `k` as its document id -/
def EvIds (s : Store) : Prop := ∀ p ∈ s.dids, ∀ e ∈ p.2.events, e.doc.id = p.1

theorem get_evids (s : Store) (h : EvIds s) (id : String) : ∀ e ∈ (s.get id).events, e.doc.id = id := by
  unfold Store.get
  cases hg : alGet s.dids id with
  | none => intro e he; cases he
  | some st => exact h (id, st) (alGet_some_mem _ _ _ hg)

/-- the in-memory conflicted cache mirrors the durable per-DID flag and holds the latest version -/
structure CacheInv (s : Store) : Prop where
  nodup : (s.cache.map (·.1)).Nodup
  look : ∀ id, alGet s.cache id = if (s.get id).conflicted = true then (s.get id).chain.getLast? else none

theorem add_cases (cfg : Cfg) (s s' : Store) (e : Event) (h : add cfg s e = .ok s') :
    s' = s ∨ ∃ st', addDid cfg (s.get e.doc.id) e = .ok (some st') ∧ s'.dids = alPut s.dids e.doc.id st' ∧
      s'.cache = (match st'.chain.getLast? with
        | some p => if st'.conflicted = true then alPut s.cache p.1.id p else alDel s.cache p.1.id
        | none => s.cache) := by
  unfold add at h
  simp only at h
  split at h
  · cases h
  · cases h
  · cases h; exact Or.inl rfl
  · rename_i st' hs
    cases h
    exact Or.inr ⟨st', hs, rfl, rfl⟩

/-- the chain of a DID state that satisfies `Inv` and has events is not empty, and (when merging keeps the ID)
    every version's document carries the DID -/
theorem inv_last (cfg : Cfg) (st : DidState) (hinv : Inv cfg st) (hne : st.events ≠ []) :
    ∃ p, st.chain.getLast? = some p := by
  have hlen := applyAll_length hinv.chain
  cases hl : st.chain.getLast? with
  | some p => exact ⟨p, rfl⟩
  | none =>
    exfalso
    have : st.chain = [] := List.getLast?_eq_none_iff.mp hl
    rw [this] at hlen
    exact hne (List.eq_nil_of_length_eq_zero (by simpa using hlen.symm))

theorem inv_chain_ids (cfg : Cfg) (hk : MergeKeepsId cfg) (st : DidState) (hinv : Inv cfg st) (id : String)
    (hev : ∀ e ∈ st.events, e.doc.id = id) : ∀ p ∈ st.chain, p.1.id = id :=
  applyAll_docid cfg hk st.events id hev st.events none st.chain hev hinv.chain

structure ObsInv (cfg : Cfg) (s : Store) : Prop where
  store : StoreInv cfg s
  ids : EvIds s
  cache : CacheInv s

theorem obsInv_empty (cfg : Cfg) : ObsInv cfg {} :=
  ⟨storeInv_empty cfg, (fun p hp => by cases hp), ⟨List.nodup_nil, fun id => by simp [alGet, Store.get]⟩⟩

theorem add_obsInv (cfg : Cfg) (hk : MergeKeepsId cfg) (s s' : Store) (e : Event) (hs : ObsInv cfg s)
    (h : add cfg s e = .ok s') : ObsInv cfg s' := by
  have hstore := add_storeInv cfg s s' e hs.store h
  rcases add_cases cfg s s' e h with rfl | ⟨st', hadd, hdids, hcache⟩
  · exact hs
  have hinv := get_inv cfg s hs.store e.doc.id
  obtain ⟨hinv', hperm⟩ := addDid_inv cfg (s.get e.doc.id) e hinv st' hadd
  have hev' : ∀ x ∈ st'.events, x.doc.id = e.doc.id := by
    intro x hx
    rcases List.mem_cons.mp (hperm.subset hx) with rfl | hx
    · rfl
    · exact get_evids s hs.ids e.doc.id x hx
  have hne' : st'.events ≠ [] := by
    intro hnil; have := hperm.length_eq; rw [hnil] at this; simp at this
  obtain ⟨p, hp⟩ := inv_last cfg st' hinv' hne'
  have hpid : p.1.id = e.doc.id :=
    inv_chain_ids cfg hk st' hinv' e.doc.id hev' p (List.mem_of_getLast? hp)
  have hget' : s'.get e.doc.id = st' := by
    simp only [Store.get, hdids]; rw [alGet_alPut_self]; rfl
  have hother : ∀ j, j ≠ e.doc.id → s'.get j = s.get j := by
    intro j hj
    simp only [Store.get, hdids]; rw [alGet_alPut_other _ _ _ _ hj]
  refine ⟨hstore, ?_, ?_, ?_⟩
  · intro q hq
    rw [hdids] at hq
    unfold alPut at hq
    rcases List.mem_cons.mp hq with rfl | hq
    · exact hev'
    · exact hs.ids q (List.mem_filter.mp hq).1
  · rw [hcache, hp]
    simp only [hpid]
    split
    · exact keys_alPut_nodup _ _ _ hs.cache.nodup
    · exact keys_alDel_nodup _ _ hs.cache.nodup
  · intro j
    rw [hcache, hp]
    simp only [hpid]
    by_cases hj : j = e.doc.id
    · subst hj
      rw [hget', hp]
      by_cases hc : st'.conflicted = true
      · simp only [hc, if_true]; exact alGet_alPut_self _ _ _
      · simp only [hc]; exact alGet_alDel_self _ _
    · rw [hother j hj, ← hs.cache.look j]
      by_cases hc : st'.conflicted = true
      · simp only [hc, if_true]; exact alGet_alPut_other _ _ _ _ hj
      · simp only [hc]; exact alGet_alDel_other _ _ _ hj

theorem addAll_obsInv (cfg : Cfg) (hk : MergeKeepsId cfg) : ∀ (l : List Event) (s s' : Store), ObsInv cfg s →
    addAll cfg s l = .ok s' → ObsInv cfg s' := by
  intro l
  induction l with
  | nil => intro s s' hs h; simp only [addAll, Res.ok.injEq] at h; subst h; exact hs
  | cons e es ih =>
    intro s s' hs h
    unfold addAll at h
    split at h
    · rename_i s1 h1
      exact ih s1 s' (add_obsInv cfg hk s s1 e hs h1) h
    · cases h
    · cases h

/-! ## restart: `loadConflictedDocuments` rebuilds exactly the cache -/

theorem alGet_cons {ν} (p : String × ν) (ps : List (String × ν)) (j : String) :
    alGet (p :: ps) j = if p.1 = j then some p.2 else alGet ps j := by
  unfold alGet
  by_cases h : p.1 = j
  · simp [h]
  · have : (p.1 == j) = false := by simpa using h
    simp [this, h]

theorem loadFold_nodup : ∀ (l : List (String × DidState)) (acc : List (String × (Doc × Meta))),
    (acc.map (·.1)).Nodup → ((l.foldl loadStep acc).map (·.1)).Nodup := by
  intro l
  induction l with
  | nil => intro acc h; exact h
  | cons p ps ih =>
    intro acc h
    simp only [List.foldl_cons]
    apply ih
    unfold loadStep
    split
    · exact keys_alPut_nodup _ _ _ h
    · exact h

theorem loadFold_look : ∀ (l : List (String × DidState)) (acc : List (String × (Doc × Meta))) (j : String),
    (l.map (·.1)).Nodup → (∀ p ∈ l, ∀ x, p.2.chain.getLast? = some x → x.1.id = p.1) →
    alGet (l.foldl loadStep acc) j =
      match alGet l j with
      | some st => (match st.chain.getLast? with | some x => some x | none => alGet acc j)
      | none => alGet acc j := by
  intro l
  induction l with
  | nil => intro acc j _ _; rfl
  | cons p ps ih =>
    intro acc j hn hid
    simp only [List.foldl_cons]
    have hn' : (ps.map (·.1)).Nodup := (List.nodup_cons.mp (by simpa using hn)).2
    have hnotin : p.1 ∉ ps.map (·.1) := (List.nodup_cons.mp (by simpa using hn)).1
    rw [ih (loadStep acc p) j hn' (fun q hq => hid q (List.mem_cons_of_mem _ hq)), alGet_cons]
    by_cases hpj : p.1 = j
    · subst hpj
      rw [alGet_none_of_not_mem ps p.1 hnotin]
      simp only [if_true]
      unfold loadStep
      cases hl : p.2.chain.getLast? with
      | none => rfl
      | some x =>
        simp only
        rw [hid p (List.mem_cons_self ..) x hl]
        exact alGet_alPut_self _ _ _
    · simp only [hpj, if_false]
      have hstep : alGet (loadStep acc p) j = alGet acc j := by
        unfold loadStep
        cases hl : p.2.chain.getLast? with
        | none => rfl
        | some x =>
          simp only
          rw [hid p (List.mem_cons_self ..) x hl]
          exact alGet_alPut_other _ _ _ _ (fun e => hpj e.symm)
      rw [hstep]

theorem alGet_filter {ν} (P : ν → Bool) : ∀ (l : List (String × ν)) (j : String), (l.map (·.1)).Nodup →
    alGet (l.filter (fun p => P p.2)) j = (match alGet l j with | some v => if P v = true then some v else none | none => none) := by
  intro l
  induction l with
  | nil => intro j _; rfl
  | cons p ps ih =>
    intro j hn
    have hn' : (ps.map (·.1)).Nodup := (List.nodup_cons.mp (by simpa using hn)).2
    have hnotin : p.1 ∉ ps.map (·.1) := (List.nodup_cons.mp (by simpa using hn)).1
    rw [alGet_cons]
    by_cases hP : P p.2 = true
    · simp only [List.filter_cons, hP, if_true]
      rw [alGet_cons]
      by_cases hpj : p.1 = j
      · simp [hpj, hP]
      · simp only [hpj, if_false]; exact ih j hn'
    · simp only [List.filter_cons, hP, Bool.false_eq_true, if_false]
      by_cases hpj : p.1 = j
      · subst hpj
        simp only [if_true, hP, Bool.false_eq_true, if_false]
        rw [ih p.1 hn', alGet_none_of_not_mem ps p.1 hnotin]
      · simp only [hpj, if_false]; exact ih j hn'

theorem reload_look (cfg : Cfg) (hk : MergeKeepsId cfg) (s : Store) (hs : ObsInv cfg s) (j : String) :
    alGet (reload s).cache j = alGet s.cache j := by
  have hfn : ((s.dids.filter (fun p => p.2.conflicted)).map (·.1)).Nodup :=
    List.Nodup.sublist (List.Sublist.map _ List.filter_sublist) hs.store.nodup
  have hfid : ∀ p ∈ s.dids.filter (fun p => p.2.conflicted), ∀ x, p.2.chain.getLast? = some x → x.1.id = p.1 := by
    intro p hp x hx
    have hp' := (List.mem_filter.mp hp).1
    exact inv_chain_ids cfg hk p.2 (hs.store.each p hp').1 p.1 (hs.ids p hp') x (List.mem_of_getLast? hx)
  show alGet (loadConflicted s.dids) j = _
  unfold loadConflicted
  rw [loadFold_look _ [] j hfn hfid, alGet_filter (fun st : DidState => st.conflicted) s.dids j hs.store.nodup,
    hs.cache.look j]
  unfold Store.get
  cases hg : alGet s.dids j with
  | none => simp [alGet]
  | some st =>
    simp only [Option.getD_some]
    by_cases hc : st.conflicted = true
    · simp only [hc, if_true]
      cases st.chain.getLast? <;> simp [alGet]
    · simp [hc, alGet]

theorem reload_nodup (s : Store) : ((reload s).cache.map (·.1)).Nodup :=
  loadFold_nodup _ [] List.nodup_nil

/-- membership form: the reloaded cache holds exactly the same entries -/
theorem mem_of_alGet_iff {ν} (a b : List (String × ν)) (ha : (a.map (·.1)).Nodup) (hb : (b.map (·.1)).Nodup)
    (h : ∀ j, alGet a j = alGet b j) : ∀ p, p ∈ a ↔ p ∈ b := by
  intro p
  constructor
  · intro hp
    have := alGet_of_mem a p ha hp
    rw [h] at this
    exact alGet_some_mem b p.1 p.2 this
  · intro hp
    have := alGet_of_mem b p hb hp
    rw [← h] at this
    exact alGet_some_mem a p.1 p.2 this

/-- the cache has one entry per conflicted DID: `Conflicted()` calls back exactly `ConflictedCount()` times -/
theorem cache_length (cfg : Cfg) (s : Store) (hs : ObsInv cfg s) : s.cache.length = s.conflictedCount := by
  rw [hs.store.confl]
  have hp : (s.cache.map (·.1)).Perm (conflKeys s) := by
    apply (List.perm_ext_iff_of_nodup hs.cache.nodup (conflKeys_nodup cfg s hs.store)).mpr
    intro k
    rw [← alGet_isSome_iff_mem_keys, hs.cache.look k, mem_conflKeys_iff cfg s hs.store k, mem_keys_iff cfg s hs.store k]
    constructor
    · intro h
      by_cases hc : (s.get k).conflicted = true
      · refine ⟨?_, hc⟩
        intro hnil
        have hch := (get_inv cfg s hs.store k).chain
        rw [hnil] at hch
        simp only [derive, applyAll, Res.ok.injEq] at hch
        simp [hc, ← hch] at h
      · simp [hc] at h
    · rintro ⟨hne, hc⟩
      obtain ⟨p, hp⟩ := inv_last cfg (s.get k) (get_inv cfg s hs.store k) hne
      simp [hc, hp]
  have := hp.length_eq
  simpa [conflKeys] using this

/-! ## Iterate -/

theorem strLt_asymm (a b : String) (h : strLt a b = true) : strLt b a = false := by
  unfold strLt at *
  have := str_lt_asymm a b (by simpa using h)
  simpa using this

theorem strLt_trans (a b c : String) (h₁ : strLt b a = false) (h₂ : strLt c b = false) : strLt c a = false := by
  unfold strLt at *
  have := str_le_trans a b c (by simpa using h₁) (by simpa using h₂)
  simpa using this

theorem filterMap_length_of_isSome {α β} (f : α → Option β) : ∀ (l : List α), (∀ x ∈ l, (f x).isSome = true) →
    (l.filterMap f).length = l.length := by
  intro l
  induction l with
  | nil => intro _; rfl
  | cons x xs ih =>
    intro h
    have hx := h x (List.mem_cons_self ..)
    cases hf : f x with
    | none => simp [hf] at hx
    | some y =>
      simp only [List.filterMap_cons, hf, List.length_cons]
      rw [ih (fun z hz => h z (List.mem_cons_of_mem _ hz))]

/-- `Iterate` calls back once per stored DID: as often as `DocumentCount()` says -/
theorem iterate_length (cfg : Cfg) (s : Store) (hs : StoreInv cfg s) : (iterate s).length = s.documentCount := by
  unfold iterate
  rw [filterMap_length_of_isSome, (sortBy_perm strLt _).length_eq, hs.docs, List.length_map]
  intro k hk
  have hk' : k ∈ keys s := (sortBy_perm strLt _).subset hk
  obtain ⟨p, hp⟩ := inv_last cfg (s.get k) (get_inv cfg s hs k) ((mem_keys_iff cfg s hs k).mp hk')
  simp [hp]

/-- `Iterate` is determined by the per-DID states (the latest shelf is visited in key order) -/
theorem iterate_determined (cfg₁ cfg₂ : Cfg) (s₁ s₂ : Store) (h₁ : StoreInv cfg₁ s₁) (h₂ : StoreInv cfg₂ s₂)
    (hget : ∀ k, s₁.get k = s₂.get k) : iterate s₁ = iterate s₂ := by
  unfold iterate
  have hp : (keys s₁).Perm (keys s₂) := by
    apply (List.perm_ext_iff_of_nodup h₁.nodup h₂.nodup).mpr
    intro k
    rw [mem_keys_iff cfg₁ s₁ h₁ k, mem_keys_iff cfg₂ s₂ h₂ k, hget k]
  have hsort : sortBy strLt (s₁.dids.map (·.1)) = sortBy strLt (s₂.dids.map (·.1)) := by
    apply sortBy_eq_of_perm strLt strLt_asymm strLt_trans hp
    intro a _ b _ hab hba
    unfold strLt at hab hba
    exact str_lt_trichotomy a b (by simpa using hab) (by simpa using hba)
  rw [hsort]
  congr 1
  funext k
  rw [hget k]

/-! ## end-to-end forms of the deactivation and covering-update clauses -/

def curDeact : Option Meta → Bool
  | some c => c.deactivated
  | none => false

theorem applyEvent_deact_eq (cfg : Cfg) (evs : List Event) (cur : Option Meta) (e : Event) (d : Doc) (m : Meta)
    (h : applyEvent cfg evs cur e = .ok (d, m)) :
    m.deactivated = (isDeactivated e.doc || curDeact cur) := by
  cases cur with
  | none =>
    simp only [applyEvent, applyDocument, Res.ok.injEq, Prod.mk.injEq] at h
    rw [← h.2]; simp [curDeact]
  | some c =>
    unfold applyEvent applyDocument at h
    simp only at h
    split at h
    · simp only [Res.ok.injEq, Prod.mk.injEq] at h; rw [← h.2]; rfl
    · split at h
      · simp only [Res.ok.injEq, Prod.mk.injEq] at h; rw [← h.2]; rfl
      · cases h
      · cases h

/-- if the starting version is deactivated or any applied event is a deactivation, the last version is deactivated -/
theorem applyAll_deact_last (cfg : Cfg) (evs : List Event) :
    ∀ (es : List Event) (cur : Option Meta) (c : List (Doc × Meta)), applyAll cfg evs cur es = .ok c →
      ((∃ x, cur = some x ∧ x.deactivated = true) ∨ ∃ e ∈ es, isDeactivated e.doc = true) →
      ∀ p, c.getLast? = some p → p.2.deactivated = true := by
  intro es
  induction es with
  | nil => intro cur c h _ p hp; simp only [applyAll, Res.ok.injEq] at h; subst h; simp at hp
  | cons e es ih =>
    intro cur c h hyp p hp
    unfold applyAll at h
    split at h
    · rename_i d m he
      split at h
      · rename_i rest hr
        cases h
        have hm := applyEvent_deact_eq cfg evs cur e d m he
        rw [List.getLast?_cons] at hp
        simp only [Option.some.injEq] at hp
        cases hl : rest.getLast? with
        | none =>
          rw [hl] at hp
          simp only [Option.getD_none] at hp
          subst hp
          have hrest : rest = [] := List.getLast?_eq_none_iff.mp hl
          have hes : es = [] := by
            have := applyAll_length hr
            rw [hrest] at this
            exact List.eq_nil_of_length_eq_zero this.symm
          rcases hyp with ⟨x, rfl, hx⟩ | ⟨e', he', hd⟩
          · rw [hm]; simp [curDeact, hx]
          · rw [hes] at he'
            rcases List.mem_cons.mp he' with rfl | he'
            · rw [hm, hd]; rfl
            · cases he'
        | some q =>
          rw [hl] at hp
          simp only [Option.getD_some] at hp
          subst hp
          apply ih (some m) rest hr _ q hl
          rcases hyp with ⟨x, rfl, hx⟩ | ⟨e', he', hd⟩
          · exact Or.inl ⟨m, rfl, by rw [hm]; simp [curDeact, hx]⟩
          · rcases List.mem_cons.mp he' with rfl | he'
            · exact Or.inl ⟨m, rfl, by rw [hm, hd]; rfl⟩
            · exact Or.inr ⟨e', he', hd⟩
      · cases h
      · cases h
    · cases h
    · cases h

/-- a DID whose event list holds a deactivation answers `deactivated` to `Resolve(id, nil)` and to
    `Resolve(id, &ResolveMetadata{})` -/
theorem inv_deactivated_resolve (cfg : Cfg) (st : DidState) (hinv : Inv cfg st) (e : Event) (he : e ∈ st.events)
    (hd : isDeactivated e.doc = true) :
    resolveChain none st.chain.reverse = .err "deactivated" ∧
    resolveChain (some {}) st.chain.reverse = .err "deactivated" := by
  have hne : st.events ≠ [] := fun h => by rw [h] at he; cases he
  obtain ⟨p, hp⟩ := inv_last cfg st hinv hne
  have hdeact := applyAll_deact_last cfg st.events st.events none st.chain hinv.chain (Or.inr ⟨e, he, hd⟩) p hp
  have hhead : st.chain.reverse.head? = some p := by rw [List.head?_reverse]; exact hp
  cases hr : st.chain.reverse with
  | nil => rw [hr] at hhead; cases hhead
  | cons q older =>
    rw [hr] at hhead
    simp only [List.head?_cons, Option.some.injEq] at hhead
    subst hhead
    obtain ⟨d, m⟩ := q
    constructor <;> simp [resolveChain, show m.deactivated = true from hdeact, latestNonDeactivatedRequested]

theorem applyEvent_covering (cfg : Cfg) (evs : List Event) (c : Meta) (e : Event)
    (hcover : ∀ st ∈ c.sourceTx, st ∈ e.prevs) :
    ∃ m, applyEvent cfg evs (some c) e = .ok (e.doc, m) ∧ m.sourceTx = [e.ref] ∧ m.hash = e.payloadHash := by
  unfold applyEvent applyDocument
  have hempty : (c.sourceTx.filter (fun st => !(e.prevs.contains st))) = [] := by
    apply List.filter_eq_nil_iff.mpr
    intro st hst
    simp [hcover st hst]
  simp only [hempty, List.isEmpty_nil, if_true]
  exact ⟨_, rfl, rfl, rfl⟩

/-- the last element of a sorted event list is the one every other event is before -/
theorem sorted_last_of_all_before (l : List Event) (hs : Sorted l) (top : Event) (htop : top ∈ l)
    (hb : ∀ e ∈ l, e ≠ top → before e top = true) : ∃ pre, l = pre ++ [top] := by
  have hne : l ≠ [] := fun h => by rw [h] at htop; cases htop
  obtain ⟨x, hx⟩ : ∃ x, l.getLast? = some x := by
    cases h : l.getLast? with
    | none => exact absurd (List.getLast?_eq_none_iff.mp h) hne
    | some x => exact ⟨x, rfl⟩
  obtain ⟨pre, hpre⟩ := List.getLast?_eq_some_iff.mp hx
  by_cases hxt : x = top
  · subst hxt; exact ⟨pre, hpre⟩
  · exfalso
    have hxl : x ∈ l := by rw [hpre]; simp
    have h1 := hb x hxl hxt
    have htp : top ∈ pre := by
      rw [hpre] at htop
      rcases List.mem_append.mp htop with h | h
      · exact h
      · simp only [List.mem_singleton] at h; exact absurd h.symm hxt
    have h2 : before top x = true := by
      unfold Sorted at hs
      rw [hpre] at hs
      exact (List.pairwise_append.mp hs).2.2 top htp x (by simp)
    rw [before_asymm h1] at h2
    cases h2

/-- **covering update, end to end**: if one event of the DID is after all others and lists all of them as
    previous transactions, the DID is not conflicted and its latest version is exactly that event's document -/
theorem inv_covering_last (cfg : Cfg) (st : DidState) (hinv : Inv cfg st) (top : Event) (htop : top ∈ st.events)
    (hcov : ∀ e ∈ st.events, e ≠ top → before e top = true ∧ e.ref ∈ top.prevs) :
    ∃ m, st.chain.getLast? = some (top.doc, m) ∧ m.sourceTx = [top.ref] ∧ m.hash = top.payloadHash ∧
      st.conflicted = false := by
  obtain ⟨pre, hpre⟩ := sorted_last_of_all_before st.events hinv.sorted top htop (fun e he hne => (hcov e he hne).1)
  have hchain := hinv.chain
  unfold derive at hchain
  have hsplit : applyAll cfg st.events none (pre ++ [top]) = .ok st.chain := by rw [← hpre]; exact hchain
  obtain ⟨ca, cb, hca, hcb, hcat⟩ := applyAll_prefix cfg st.events none pre [top] st.chain hsplit
  -- the sources of the version before `top` are refs of `pre`, all listed by `top`
  have hsrc : SrcIn (refs pre) (lastMeta none ca) :=
    applyAll_src cfg st.events (refs pre) pre none ca (fun x hx => by cases hx)
      (fun e he => List.mem_map.mpr ⟨e, he, rfl⟩) hca
  have hnd : (refs (pre ++ [top])).Nodup := by rw [← hpre]; exact hinv.nodup
  have hfinish : ∀ m, cb = [(top.doc, m)] → m.sourceTx = [top.ref] → m.hash = top.payloadHash →
      ∃ m, st.chain.getLast? = some (top.doc, m) ∧ m.sourceTx = [top.ref] ∧ m.hash = top.payloadHash ∧
        st.conflicted = false := by
    intro m hcb' hs hh
    have hl : st.chain.getLast? = some (top.doc, m) := by rw [hcat, hcb']; simp
    refine ⟨m, hl, hs, hh, ?_⟩
    rw [hinv.flag, hl]
    simp [Meta.isConflicted, hs]
  cases hlm : lastMeta none ca with
  | none =>
    rw [hlm] at hcb
    simp only [applyAll, applyEvent, applyDocument] at hcb
    simp only [Res.ok.injEq] at hcb
    exact hfinish _ hcb.symm rfl rfl
  | some c =>
    rw [hlm] at hcb hsrc
    have hcover : ∀ s ∈ c.sourceTx, s ∈ top.prevs := by
      intro r hr
      have hin := hsrc c rfl r hr
      obtain ⟨e, he, her⟩ := List.mem_map.mp hin
      have hne : e ≠ top := by
        intro heq
        subst heq
        unfold refs at hnd
        rw [List.map_append] at hnd
        have := (List.nodup_append.mp hnd).2.2 e.ref (List.mem_map.mpr ⟨e, he, rfl⟩) e.ref (by simp)
        exact this rfl
      have := (hcov e (by rw [hpre]; exact List.mem_append_left _ he) hne).2
      rw [← her]; exact this
    obtain ⟨m, hm, hs, hh⟩ := applyEvent_covering cfg st.events c top hcover
    simp only [applyAll, hm, Res.ok.injEq] at hcb
    exact hfinish m hcb.symm hs hh

/-! ## small facts used by the property theorems -/

/-- the latest version of a DID is what `Resolve(id, {AllowDeactivated: true})` answers -/
theorem resolve_latest (s : Store) (id : String) (p : Doc × Meta) (hp : (s.get id).chain.getLast? = some p) :
    resolve s id (some { allowDeactivated := true }) = .ok p := by
  unfold resolve
  have hhead : (s.get id).chain.reverse.head? = some p := by rw [List.head?_reverse]; exact hp
  cases hr : (s.get id).chain.reverse with
  | nil => rw [hr] at hhead; cases hhead
  | cons q older =>
    rw [hr] at hhead
    simp only [List.head?_cons, Option.some.injEq] at hhead
    subst hhead
    obtain ⟨d, m⟩ := q
    simp [resolveChain, latestNonDeactivatedRequested, matchesMeta]

theorem histFrom_raw (c : Nat) : ∀ (es : List Event) (v : Nat),
    (histFrom c v es).map (·.raw) = es.map (·.payloadHash) ∧ (histFrom c v es).map (·.version) = List.range' v es.length ∧
    ∀ x ∈ histFrom c v es, x.created = c := by
  intro es
  induction es with
  | nil => intro v; exact ⟨rfl, rfl, fun x hx => by cases hx⟩
  | cons e es ih =>
    intro v
    obtain ⟨h1, h2, h3⟩ := ih (v + 1)
    refine ⟨by simp [histFrom, h1], by simp [histFrom, h2, List.range'], ?_⟩
    intro x hx
    simp only [histFrom, List.mem_cons] at hx
    rcases hx with rfl | hx
    · rfl
    · exact h3 x hx

end Nuts.C10
