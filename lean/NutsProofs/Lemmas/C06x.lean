import NutsProofs.Lemmas.C06
namespace Nuts.C06
open Nuts

/-! ### notifications: exactly once per admitted transaction and interested subscriber -/

def jobsAfterPayload (subs : List Sub) (s : St) (tx : Tx) : Option Nat → List Job
  | none => s.jobs
  | some _ => saveEvent subs .payload tx s.jobs

def notifyAll (subs : List Sub) (tx : Tx) (p : Option Nat) (jl : List Job × List Ev) : List Job × List Ev :=
  if p.isSome then notify subs .payload tx (notify subs .tx tx jl) else notify subs .tx tx jl

theorem writePayloadStep_jobs {env : Env} {subs : List Sub} {s w : St} {tx : Tx} {p : Option Nat}
    (h : writePayloadStep env subs s tx p = .ok w) : w.jobs = jobsAfterPayload subs s tx p := by
  unfold writePayloadStep at h
  cases p with
  | none => simp only [Res.ok.injEq] at h; subst h; rfl
  | some q =>
    simp only at h
    split at h
    · cases h
    · simp only [Res.ok.injEq] at h; subst h; rfl

/-- the ledger after a state-changing Add, explicitly -/
theorem add_ledger {env : Env} {subs : List Sub} {s : St} {tx : Tx} {p : Option Nat}
    (hne : (add env subs s tx p).1 ≠ s) :
    (add env subs s tx p).1.ledger =
      (notifyAll subs tx p (saveEvent subs .tx tx (jobsAfterPayload subs s tx p), s.ledger)).2 := by
  unfold add at hne ⊢
  cases hv : phase1 env s tx with
  | present => simp [hv] at hne
  | rejected e => simp [hv] at hne
  | panicked e => simp [hv] at hne
  | verified =>
    simp only [hv] at hne ⊢
    unfold phase2 at hne ⊢
    cases hpres : s.present tx.ref with
    | true => simp [hpres] at hne
    | false =>
      simp only [hpres, Bool.false_eq_true, if_false] at hne ⊢
      cases hw : writeBody env subs s tx p with
      | err e => simp [hw] at hne
      | panic e => simp [hw] at hne
      | ok w =>
        simp only
        unfold writeBody at hw
        split at hw
        · rename_i w1 hw1
          split at hw
          · rename_i w2 hw2
            simp only [Res.ok.injEq] at hw
            obtain ⟨_, _, _, _, _, _, _, a8, _, _⟩ := writePayloadStep_spec hw1
            have hj := writePayloadStep_jobs hw1
            obtain ⟨_, b2⟩ := graphAdd_spec hw2
            subst hw
            subst b2
            simp only [afterCommit, finishWrite, notifyAll, hj, a8]
          · cases hw
          · cases hw
        · cases hw
        · cases hw

/-- projection on one subscriber -/
def pj (n : String) (jobs : List Job) : List Job := jobs.filter (fun j => j.sub = n)
def pe (n : String) (led : List Ev) : List Ev := led.filter (fun e => e.sub = n)

theorem pj_cons_pos {n : String} {j : Job} {t : List Job} (h : j.sub = n) : pj n (j :: t) = j :: pj n t := by
  unfold pj; rw [List.filter_cons_of_pos (by simp [h])]
theorem pj_cons_neg {n : String} {j : Job} {t : List Job} (h : j.sub ≠ n) : pj n (j :: t) = pj n t := by
  unfold pj; rw [List.filter_cons_of_neg (by simp [h])]

theorem pj_filter_other {n name : String} {r : Nat} (h : name ≠ n) : ∀ (l : List Job),
    pj n (l.filter (fun j' => !(decide (j'.sub = name ∧ j'.ref = r)))) = pj n l := by
  intro l
  induction l with
  | nil => rfl
  | cons j t ih =>
    by_cases hc : j.sub = name ∧ j.ref = r
    · have hn : j.sub ≠ n := by rw [hc.1]; exact h
      rw [List.filter_cons_of_neg (by simp [hc]), pj_cons_neg hn]; exact ih
    · rw [List.filter_cons_of_pos (by simp [hc])]
      by_cases hj : j.sub = n
      · rw [pj_cons_pos hj, pj_cons_pos hj, ih]
      · rw [pj_cons_neg hj, pj_cons_neg hj, ih]

theorem pj_map_other {n name : String} {r : Nat} (h : name ≠ n) : ∀ (l : List Job),
    pj n (l.map (fun j' => if j'.sub = name ∧ j'.ref = r then { j' with failed := true } else j')) = pj n l := by
  intro l
  induction l with
  | nil => rfl
  | cons j t ih =>
    rw [List.map_cons]
    by_cases hc : j.sub = name ∧ j.ref = r
    · have hn : j.sub ≠ n := by rw [hc.1]; exact h
      rw [if_pos hc, pj_cons_neg (by exact hn), pj_cons_neg hn]; exact ih
    · rw [if_neg hc]
      by_cases hj : j.sub = n
      · rw [pj_cons_pos hj, pj_cons_pos hj, ih]
      · rw [pj_cons_neg hj, pj_cons_neg hj, ih]

theorem hasJob_pj {jobs : List Job} {n : String} {r : Nat} : hasJob jobs n r = hasJob (pj n jobs) n r := by
  unfold hasJob pj
  induction jobs with
  | nil => rfl
  | cons j t ih =>
    simp only [List.any_cons, List.filter_cons]
    by_cases h : j.sub = n
    · simp [h]
    · simp [h]

theorem saveOne_other {typ : EvType} {tx : Tx} {jobs : List Job} {sub : Sub} {n : String} (h : sub.name ≠ n) :
    pj n (saveOne typ tx jobs sub) = pj n jobs := by
  unfold saveOne
  split
  · rfl
  · split
    · rfl
    · split
      · rfl
      · unfold pj; simp [List.filter_append, h]

theorem saveOne_congr {typ : EvType} {tx : Tx} {jobs jobs' : List Job} {sub : Sub}
    (h : pj sub.name jobs = pj sub.name jobs') :
    pj sub.name (saveOne typ tx jobs sub) = pj sub.name (saveOne typ tx jobs' sub) := by
  unfold saveOne
  rw [@hasJob_pj jobs, @hasJob_pj jobs', h]
  split
  · exact h
  · split
    · exact h
    · split
      · exact h
      · unfold pj at *; simp only [List.filter_append]; rw [h]

theorem saveEvent_other {typ : EvType} {tx : Tx} {n : String} : ∀ {subs : List Sub} {jobs : List Job},
    (∀ sub ∈ subs, sub.name ≠ n) → pj n (saveEvent subs typ tx jobs) = pj n jobs := by
  intro subs
  induction subs with
  | nil => intro jobs _; rfl
  | cons s rest ih =>
    intro jobs h
    unfold saveEvent
    simp only [List.foldl_cons]
    have := @ih (saveOne typ tx jobs s) (fun x hx => h x (List.mem_cons_of_mem _ hx))
    unfold saveEvent at this
    rw [this, saveOne_other (h s List.mem_cons_self)]

theorem saveEvent_self {typ : EvType} {tx : Tx} {sub0 : Sub} : ∀ {subs : List Sub} {jobs : List Job},
    (subs.map (·.name)).Nodup → sub0 ∈ subs →
    pj sub0.name (saveEvent subs typ tx jobs) = pj sub0.name (saveOne typ tx jobs sub0) := by
  intro subs
  induction subs with
  | nil => intro jobs _ h; cases h
  | cons s rest ih =>
    intro jobs hnd hm
    simp only [List.map_cons, List.nodup_cons] at hnd
    unfold saveEvent
    simp only [List.foldl_cons]
    by_cases hs : s = sub0
    · subst hs
      have hrest : ∀ x ∈ rest, x.name ≠ s.name := by
        intro x hx he
        exact hnd.1 (List.mem_map.mpr ⟨x, hx, he⟩)
      have := @saveEvent_other typ tx s.name rest (saveOne typ tx jobs s) hrest
      unfold saveEvent at this
      exact this
    · have hm' : sub0 ∈ rest := by
        cases hm with
        | head => exact (hs rfl).elim
        | tail _ h => exact h
      have hne : s.name ≠ sub0.name := by
        intro he
        exact hnd.1 (List.mem_map.mpr ⟨sub0, hm', he.symm⟩)
      have := @ih (saveOne typ tx jobs s) hnd.2 hm'
      unfold saveEvent at this
      rw [this]
      exact saveOne_congr (saveOne_other hne)

theorem notifyOne_other {typ : EvType} {tx : Tx} {jl : List Job × List Ev} {sub : Sub} {n : String} (h : sub.name ≠ n) :
    pj n (notifyOne typ tx jl sub).1 = pj n jl.1 ∧ pe n (notifyOne typ tx jl sub).2 = pe n jl.2 := by
  unfold notifyOne
  split
  · exact ⟨rfl, rfl⟩
  · split
    · split
      · exact ⟨rfl, rfl⟩
      · split
        · exact ⟨pj_filter_other h _, by unfold pe; simp [List.filter_append, h]⟩
        · exact ⟨pj_map_other h _, by unfold pe; simp [List.filter_append, h]⟩
    · refine ⟨rfl, ?_⟩
      unfold pe; simp [List.filter_append, h]

theorem notify_other {typ : EvType} {tx : Tx} {n : String} : ∀ {subs : List Sub} {jl : List Job × List Ev},
    (∀ sub ∈ subs, sub.name ≠ n) →
    pj n (notify subs typ tx jl).1 = pj n jl.1 ∧ pe n (notify subs typ tx jl).2 = pe n jl.2 := by
  intro subs
  induction subs with
  | nil => intro jl _; exact ⟨rfl, rfl⟩
  | cons s rest ih =>
    intro jl h
    unfold notify
    simp only [List.foldl_cons]
    have h1 := @notifyOne_other typ tx jl s n (h s List.mem_cons_self)
    have h2 := @ih (notifyOne typ tx jl s) (fun x hx => h x (List.mem_cons_of_mem _ hx))
    unfold notify at h2
    exact ⟨h2.1.trans h1.1, h2.2.trans h1.2⟩

end Nuts.C06
