/-
  C18 (deepening round 3) — lemmas on the time-bound SQL lookup (NutsModel/C18/LocalStore.lean)
-/
import NutsModel.C18.LocalStore
import NutsProofs.Lemmas.C18Deep
namespace Nuts.C18
open Nuts

theorem foldl_pick_max : ∀ (l : List DocRow) (acc : Option DocRow) (r : DocRow), l.foldl pickLatest acc = some r →
    (∀ b, acc = some b → b.version ≤ r.version) ∧ ∀ x ∈ l, x.version ≤ r.version := by
  intro l
  induction l with
  | nil => intro acc r h; simp at h; subst h; simp
  | cons x xs ih =>
    intro acc r h
    simp only [List.foldl_cons] at h
    obtain ⟨h1, h2⟩ := ih _ _ h
    cases acc with
    | none =>
      have := h1 x (by simp [pickLatest])
      refine ⟨by simp, ?_⟩
      intro y hy
      rcases List.mem_cons.mp hy with e | e
      · subst e; exact this
      · exact h2 y e
    | some b =>
      by_cases hv : x.version > b.version
      · have := h1 x (by simp [pickLatest, hv])
        refine ⟨?_, ?_⟩
        · intro b' hb'; cases hb'; omega
        · intro y hy
          rcases List.mem_cons.mp hy with e | e
          · subst e; exact this
          · exact h2 y e
      · have := h1 b (by simp [pickLatest, hv])
        refine ⟨?_, ?_⟩
        · intro b' hb'; cases hb'; exact this
        · intro y hy
          rcases List.mem_cons.mp hy with e | e
          · subst e; omega
          · exact h2 y e

theorem foldl_pick_none : ∀ (l : List DocRow) (acc : Option DocRow), l.foldl pickLatest acc = none → acc = none ∧ l = [] := by
  intro l
  induction l with
  | nil => intro acc h; simpa using h
  | cons x xs ih =>
    intro acc h
    simp only [List.foldl_cons] at h
    have := (ih _ h).1
    cases acc with
    | none => simp [pickLatest] at this
    | some b => simp only [pickLatest] at this; split at this <;> cases this

theorem sqlLatest_newest (rows : List DocRow) (d : Bytes) (t : Int) (r : DocRow) (h : sqlLatest rows d t = some r) :
    ∀ r' ∈ rows, r'.did = d → r'.updatedAt ≤ t → r'.version ≤ r.version := by
  intro r' hm hd ht
  unfold sqlLatest at h
  exact (foldl_pick_max _ _ _ h).2 r' (List.mem_filter.mpr ⟨hm, by simp [latestWhere, hd, ht]⟩)

theorem sqlLatest_none_iff (rows : List DocRow) (d : Bytes) (t : Int) :
    sqlLatest rows d t = none ↔ ∀ r' ∈ rows, r'.did = d → ¬ r'.updatedAt ≤ t := by
  unfold sqlLatest
  constructor
  · intro h r' hm hd ht
    have := (foldl_pick_none _ _ h).2
    have hin : r' ∈ rows.filter (latestWhere d t) := List.mem_filter.mpr ⟨hm, by simp [latestWhere, hd, ht]⟩
    rw [this] at hin; cases hin
  · intro h
    have : rows.filter (latestWhere d t) = [] := by
      apply List.filter_eq_nil_iff.mpr
      intro x hx hw
      simp [latestWhere] at hw
      exact h x hx hw.1 hw.2
    rw [this]; rfl

theorem deactivated_from_then_on_l (rows : List DocRow) (d : DID) (r : DocRow) (t : Int)
    (hr : r ∈ rows) (hd : r.did = d.str) (hi : r.active = false)
    (hmax : ∀ r' ∈ rows, r'.did = d.str → r'.version ≤ r.version)
    (huniq : ∀ r' ∈ rows, r'.did = d.str → r'.version = r.version → r' = r)
    (ht : r.updatedAt ≤ t) :
    sqlResolveLocal rows t false d = .err "deactivated" ∧
    sqlResolveLocal rows t true d = .ok { docID := d.str, deactivated := true } := by
  cases h : sqlLatest rows d.str t with
  | none => exact absurd ht ((sqlLatest_none_iff rows d.str t).mp h r hr hd)
  | some r2 =>
    obtain ⟨e1, e2, _⟩ := sqlLatest_exact _ _ _ _ h
    have hge := sqlLatest_newest _ _ _ _ h r hr hd ht
    have hle := hmax r2 e2 e1
    have : r2 = r := huniq r2 e2 e1 (by omega)
    subst this
    simp [sqlResolveLocal, h, hi, e1]
end Nuts.C18
