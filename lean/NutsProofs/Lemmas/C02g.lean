/-
  C02 — helper lemmas for the server's own request objects (NutsModel/C02/ReqObj.lean)
-/
import NutsModel.C02.ReqObj
import NutsProofs.Lemmas.C02
import NutsProofs.Lemmas.C02b

namespace Nuts.C02

/-- an entry that `Get` does not return now is not returned later either -/
theorem get_none_later {α : Type} (s : Store α) (now later : Nat) (k : String) (hle : now ≤ later)
    (h : s.get now k = none) : s.get later k = none := by
  unfold Store.get at *
  split at h
  · rename_i e he
    split at h
    · cases h
    · rename_i hexp
      have : ¬ later ≤ e.exp := by omega
      simp [this]
  · rfl

/-- the nonce, the state and the fixed parameters of the leg are in the stored request object, whatever the audience -/
theorem createJarRequest_vpflow (cfg : Cfg) (signer clientId audience subject nonce state : String) :
    let r := createJarRequest signer clientId audience (vpFlowModifier cfg subject nonce state)
    objGet r.claims "nonce" = some nonce ∧ objGet r.claims "state" = some state ∧
    objGet r.claims "response_type" = some "vp_token" ∧ objGet r.claims "response_mode" = some "direct_post" ∧
    objGet r.claims "client_id" = some clientId ∧ r.client = clientId := by
  simp only [createJarRequest, vpFlowModifier, putAll]
  have hne : ∀ a b : String, a ≠ b → ∀ (o : Obj) (v : String), objGet (objPut o a v) b = objGet o b :=
    fun a b h o v => objGet_objPut_ne o b a v h
  refine ⟨?_, ?_, ?_, ?_, ?_, trivial⟩
  · rw [hne "state" "nonce" (by decide), objGet_objPut_same]
  · rw [objGet_objPut_same]
  · rw [hne "state" "response_type" (by decide), hne "nonce" "response_type" (by decide),
      hne "response_mode" "response_type" (by decide), hne "response_uri" "response_type" (by decide),
      hne "client_id_scheme" "response_type" (by decide), objGet_objPut_same]
  · rw [hne "state" "response_mode" (by decide), hne "nonce" "response_mode" (by decide), objGet_objPut_same]
  · rw [hne "state" "client_id" (by decide), hne "nonce" "client_id" (by decide),
      hne "response_mode" "client_id" (by decide), hne "response_uri" "client_id" (by decide),
      hne "client_id_scheme" "client_id" (by decide), hne "response_type" "client_id" (by decide)]
    split
    · rw [hne "aud" "client_id" (by decide), objGet_objPut_same]
    · rw [objGet_objPut_same]

theorem requestJWT_ok (cfg : Cfg) (ro s' : Store JarReq) (now : Nat) (post : Bool) (id subject : String)
    (wi wn : Option String) (claims : Obj) (h : requestJWT cfg ro now post id subject wi wn = (s', .ok claims)) :
    ∃ r, ro.get now id = some r ∧ s' = ro.del id ∧ r.client = cfg.issuerURL subject ∧
      r.method = (if post then "post" else "get") ∧ (post = false → claims = r.claims) ∧
      ∀ k, k ≠ "wallet_nonce" → k ≠ "aud" → objGet claims k = objGet r.claims k := by
  unfold requestJWT at h
  split at h
  · simp at h
  · rename_i r s hg
    obtain ⟨hget, hs⟩ := Store.getAndDelete_some ro now id r s hg
    split at h
    · simp at h
    · rename_i hcl
      have hcl' := Decidable.not_not.mp hcl
      split at h
      · rename_i hp
        split at h
        · simp at h
        · rename_i hm
          simp only [Prod.mk.injEq, Res.ok.injEq] at h
          have hmeth : r.method = (if post then "post" else "get") := by rw [hp]; simpa using hm
          have hs' : s' = ro.del id := by rw [← h.1, hs]
          exact ⟨r, hget, hs', hcl', hmeth, fun _ => h.2.symm, fun k _ _ => by rw [← h.2]⟩
      · rename_i hp
        have hp' : post = true := by cases post <;> simp_all
        split at h
        · simp at h
        · rename_i hm
          simp only [Prod.mk.injEq, Res.ok.injEq] at h
          have hmeth : r.method = (if post then "post" else "get") := by rw [hp']; simpa using hm
          have hs' : s' = ro.del id := by rw [← h.1, hs]
          have hnp : post = false → claims = r.claims := fun hf => by rw [hp'] at hf; cases hf
          refine ⟨r, hget, hs', hcl', hmeth, hnp, ?_⟩
          intro k hk1 hk2
          rw [← h.2]
          have step1 : objGet (withWalletNonce r.claims wn) k = objGet r.claims k := by
            cases wn with
            | none => rfl
            | some n => exact objGet_objPut_ne r.claims k "wallet_nonce" n (fun hx => hk1 hx.symm)
          cases wi with
          | none => exact step1
          | some i =>
            show objGet (if i ≠ selfIssued then objPut (withWalletNonce r.claims wn) "aud" i
              else withWalletNonce r.claims wn) k = objGet r.claims k
            by_cases hi : i ≠ selfIssued
            · rw [if_pos hi, objGet_objPut_ne _ k "aud" _ (fun hx => hk2 hx.symm)]; exact step1
            · rw [if_neg hi]; exact step1

/-- whatever the outcome of a fetch, the request object is gone afterwards -/
theorem requestJWT_burns (cfg : Cfg) (ro : Store JarReq) (now later : Nat) (post : Bool) (id subject : String)
    (wi wn : Option String) (hle : now ≤ later) :
    (requestJWT cfg ro now post id subject wi wn).1.get later id = none := by
  unfold requestJWT
  split
  · rename_i s hg
    obtain ⟨hget, hs⟩ := Store.getAndDelete_none ro now id s hg
    simp only
    rw [hs]
    exact get_none_later ro now later id hle hget
  · rename_i r s hg
    obtain ⟨_, hs⟩ := Store.getAndDelete_some ro now id r s hg
    have hdel : s.get later id = none := by rw [hs]; exact Store.get_del_same ro later id
    repeat' (first
      | exact hdel
      | split
      | simp only)

/-- the POST body changes at most `wallet_nonce` and `aud` -/
theorem withWallet_get (c : Obj) (wi wn : Option String) (k : String) (h1 : k ≠ "wallet_nonce") (h2 : k ≠ "aud") :
    objGet (withWalletIssuer (withWalletNonce c wn) wi) k = objGet c k := by
  have s1 : objGet (withWalletNonce c wn) k = objGet c k := by
    cases wn with
    | none => rfl
    | some n => exact objGet_objPut_ne c k "wallet_nonce" n (fun hx => h1 hx.symm)
  cases wi with
  | none => exact s1
  | some i =>
    show objGet (if i ≠ selfIssued then objPut (withWalletNonce c wn) "aud" i else withWalletNonce c wn) k = _
    by_cases hi : i ≠ selfIssued
    · rw [if_pos hi, objGet_objPut_ne _ k "aud" _ (fun hx => h2 hx.symm)]; exact s1
    · rw [if_neg hi]; exact s1

/-- a freshly stored request object, fetched in time by its tenant with its method -/
theorem requestJWT_after_put (cfg : Cfg) (ro : Store JarReq) (now later : Nat) (id subject : String) (r0 : JarReq)
    (post : Bool) (wi wn : Option String) (httl : cfg.tokenValidity ≠ 0) (hin : later ≤ now + cfg.tokenValidity)
    (hcl : r0.client = cfg.issuerURL subject) (hm : r0.method = if post then "post" else "get") :
    (requestJWT cfg (ro.put now cfg.tokenValidity id r0) later post id subject wi wn).2 =
      .ok (if post then withWalletIssuer (withWalletNonce r0.claims wn) wi else r0.claims) := by
  have hget := Store.get_put_same ro now cfg.tokenValidity later id r0 httl
  rw [if_pos hin] at hget
  unfold requestJWT Store.getAndDelete
  simp only [hget]
  rw [if_neg (by rw [hcl]; exact fun h => h rfl)]
  cases post with
  | false =>
    simp only [if_true, Bool.false_eq_true, if_false] at hm ⊢
    rw [if_neg (by rw [hm]; exact fun h => h rfl)]
  | true =>
    simp only [if_true, Bool.true_eq_false, if_false] at hm ⊢
    rw [if_neg (by rw [hm]; exact fun h => h rfl)]

end Nuts.C02
