/-
  C06 — lemmas about the creation model (NutsModel/C06/Create.lean): hex round trip, the parse steps on the header `Sign` builds,
  `sign_then_parse`.  Core Lean only.
-/
import NutsModel.C06.Create
import NutsModel.C06.Cfg
import NutsProofs.Lemmas.C06
namespace Nuts.C06.Create
open Nuts Nuts.C06

theorem hexDigit_hexChar_fin : ∀ d : Fin 16, hexDigit? (hexChar d.val) = some d.val := by decide

theorem hexDigit_hexChar {d : Nat} (h : d < 16) : hexDigit? (hexChar d) = some d := hexDigit_hexChar_fin ⟨d, h⟩

theorem hexVal_append (l : List Char) (c : Char) (acc : Nat) :
    hexVal? (l ++ [c]) acc = (hexVal? l acc).bind (fun v => (hexDigit? c).map (fun d => v * 16 + d)) := by
  induction l generalizing acc with
  | nil => simp [hexVal?]; cases hexDigit? c <;> simp
  | cons x r ih =>
    simp only [List.cons_append, hexVal?]
    cases hexDigit? x with
    | none => simp
    | some d => simp [ih]

theorem hexDigits_length (k n : Nat) : (hexDigits k n).length = k := by
  induction k generalizing n with
  | zero => rfl
  | succ k ih => simp [hexDigits, ih]

theorem hexVal_hexDigits (k n : Nat) : hexVal? (hexDigits k n) 0 = some (n % 16 ^ k) := by
  induction k generalizing n with
  | zero => simp [hexDigits, hexVal?, Nat.mod_one]
  | succ k ih =>
    rw [hexDigits, hexVal_append, ih, hexDigit_hexChar (Nat.mod_lt _ (by decide))]
    simp only [Option.bind_some, Option.map_some, Option.some.injEq]
    rw [Nat.pow_succ, Nat.mul_comm (16 ^ k) 16, Nat.mod_mul]
    omega

/-- `hash.ParseHex(h.String()) = h` -/
theorem parseHex_hex64 {n : Nat} (h : n < 16 ^ 64) : parseHex (hex64 n) = some n := by
  unfold parseHex hex64
  have hl : (String.ofList (hexDigits 64 n)).length = 64 := by simp [hexDigits_length]
  have he : (String.ofList (hexDigits 64 n)).isEmpty = false := by
    simp [String.isEmpty]
    intro e
    have := hexDigits_length 64 n
    rw [e] at this; simp at this
  rw [he]
  simp only [Bool.false_eq_true, if_false, hl, ne_eq, not_true_eq_false]
  simp [hexVal_hexDigits, Nat.mod_eq_of_lt h]

theorem parsePrevEls_hex (hn : String) (l : List Nat) (h : ∀ x ∈ l, x < 16 ^ 64) :
    parsePrevEls hn (l.map fun p => El.str (hex64 p)) = .ok l := by
  induction l with
  | nil => rfl
  | cons x r ih =>
    simp only [List.map_cons, parsePrevEls]
    rw [parseHex_hex64 (h x (by simp)), ih (fun y hy => h y (by simp [hy]))]

theorem parsePalEls_ok (b64 : String → Bool) (hn : String) (l : List String) (h : ∀ s ∈ l, b64 s = true) :
    parsePalEls b64 hn (l.map El.str) = .ok l := by
  induction l with
  | nil => rfl
  | cons x r ih =>
    simp only [List.map_cons, parsePalEls]
    rw [if_pos (h x (by simp)), ih (fun y hy => h y (by simp [hy]))]

/-- the configuration read from the source, spelled out -/
def litCfg : Cfg := { allowedAlgos := ["ES256", "ES384", "ES512", "PS256", "PS384", "PS512"], allowedVersion := [1, 2], lcStrict := true }

theorem srcCfg_eq : srcCfg = litCfg := by
  unfold srcCfg litCfg
  congr 1 <;> decide

theorem toInt64_int {v : Int} (h0 : -(2 : Int) ^ 63 ≤ v) (h1 : v < (2 : Int) ^ 63) : toInt64 v 0 = v := by
  unfold toInt64 truncZ
  simp only [ge_iff_le, Int.le_refl, if_true, Int.toNat_zero, Int.pow_zero, Int.mul_one]
  rw [if_pos ⟨h0, h1⟩]

theorem newTransaction_ok {p : Nat} {pt : String} {prevs : List Nat} {pal : Option (List String)} {lc : Nat} {u : Unsigned}
    (h : newTransaction p pt prevs pal lc = .ok u) :
    containsSlash pt = true ∧ (∀ x ∈ prevs, x ≠ 0) ∧
    u = { payload := p, payloadType := pt, version := currentVersion, pal := pal, clock := lc, prevs := dedup prevs [] } := by
  unfold newTransaction at h
  split at h
  · cases h
  · rename_i hs
    split at h
    · cases h
    · rename_i hz
      cases h
      refine ⟨by simpa using hs, ?_, rfl⟩
      intro x hx h0
      apply hz
      simp only [List.any_eq_true, decide_eq_true_eq]
      exact ⟨x, hx, h0⟩

section Steps
variable (b64 : String → Bool) (p : Nat) (pt : String) (dp : List Nat) (pal : Option (List String)) (lc : Nat)
  (sigt : Int) (alg : String) (key : KeyRef) (ref : Nat)

abbrev mkH (p : Nat) (pt : String) (dp : List Nat) (pal : Option (List String)) (lc : Nat) (sigt : Int) (alg : String) (key : KeyRef) (ref : Nat) : Hdr :=
  signHdr ⟨p, pt, dp, pal, lc, currentVersion⟩ sigt alg key ref true

theorem get_sigt : (mkH p pt dp pal lc sigt alg key ref).get "sigt" = some (.num sigt 0) := by
  cases pal <;> simp [mkH, signHdr, Hdr.get, getLast]
theorem get_prevs : (mkH p pt dp pal lc sigt alg key ref).get "prevs" = some (.arr (dp.map fun q => El.str (hex64 q))) := by
  cases pal <;> simp [mkH, signHdr, Hdr.get, getLast]
theorem get_ver : (mkH p pt dp pal lc sigt alg key ref).get "ver" = some (.num currentVersion 0) := by
  cases pal <;> simp [mkH, signHdr, Hdr.get, getLast]
theorem get_lc : (mkH p pt dp pal lc sigt alg key ref).get "lc" = some (.num (lc : Int) 0) := by
  cases pal <;> simp [mkH, signHdr, Hdr.get, getLast]
theorem get_pal : (mkH p pt dp pal lc sigt alg key ref).get "pal" = pal.map (fun l => .arr (l.map El.str)) := by
  cases pal <;> simp [mkH, signHdr, Hdr.get, getLast]

theorem step_alg (ha : alg ∈ litCfg.allowedAlgos) : parseSigningAlgorithm litCfg (mkH p pt dp pal lc sigt alg key ref) = .ok () := by
  unfold parseSigningAlgorithm
  rw [if_pos (by simpa [mkH, signHdr] using ha)]

theorem step_payload (hp : p < 16 ^ 64) : parsePayload (mkH p pt dp pal lc sigt alg key ref) = .ok p := by
  unfold parsePayload
  have : (mkH p pt dp pal lc sigt alg key ref).payload = hex64 p := rfl
  rw [this, parseHex_hex64 hp]

theorem step_cty (hc : containsSlash pt = true) : parseContentType (mkH p pt dp pal lc sigt alg key ref) = .ok pt := by
  unfold parseContentType
  have : (mkH p pt dp pal lc sigt alg key ref).cty = pt := rfl
  rw [this, if_pos hc]

theorem step_sig (hk : ∀ id, key = .kid id → id ≠ "") :
    parseSignatureParams litCfg (mkH p pt dp pal lc sigt alg key ref) = .ok (match key with | .jwk => "" | .kid id => id) := by
  unfold parseSignatureParams
  cases key with
  | jwk => simp [mkH, signHdr, litCfg]
  | kid id =>
    have := hk id rfl
    simp [mkH, signHdr, litCfg, this]

theorem step_sigt (hs0 : -(2 : Int) ^ 63 ≤ sigt) (hs1 : sigt < (2 : Int) ^ 63) : parseSigningTime litCfg (mkH p pt dp pal lc sigt alg key ref) = .ok sigt := by
  unfold parseSigningTime
  have : litCfg.sigtH = "sigt" := rfl
  rw [this, get_sigt]
  simp only [toInt64_int hs0 hs1]

theorem step_ver : parseVersion litCfg (mkH p pt dp pal lc sigt alg key ref) = .ok 2 := by
  unfold parseVersion
  have : litCfg.verH = "ver" := rfl
  rw [this, get_ver]
  have : toInt64 currentVersion 0 = 2 := by decide
  simp only [this]
  rfl

theorem step_prevs (hd : ∀ x ∈ dp, x < 16 ^ 64) : parsePrevious litCfg (mkH p pt dp pal lc sigt alg key ref) = .ok dp := by
  unfold parsePrevious
  have : litCfg.prevsH = "prevs" := rfl
  rw [this, get_prevs]
  exact parsePrevEls_hex _ dp hd

theorem step_pal (hpal : ∀ l, pal = some l → ∀ s ∈ l, b64 s = true) : parsePAL litCfg b64 (mkH p pt dp pal lc sigt alg key ref) = .ok (pal.getD []) := by
  unfold parsePAL
  have : litCfg.palH = "pal" := rfl
  rw [this, get_pal]
  cases pal with
  | none => rfl
  | some l => exact parsePalEls_ok b64 _ l (hpal l rfl)

theorem step_lc (hlc : lc < 2 ^ 32) : parseLamportClock litCfg (mkH p pt dp pal lc sigt alg key ref) = .ok lc := by
  unfold parseLamportClock
  have : litCfg.lcH = "lc" := rfl
  rw [this, get_lc]
  have h1 : truncZ (lc : Int) 0 = (lc : Int) := by simp [truncZ]
  have h2 : isIntegral (lc : Int) 0 = true := by simp [isIntegral]
  have h3 : (lc : Int) < (2 : Int) ^ 32 := by
    have : ((2 : Nat) ^ 32 : Nat) = 4294967296 := by decide
    have h4 : ((2 : Int) ^ 32) = 4294967296 := by decide
    omega
  simp only [litCfg, if_true, h1, h2, Bool.true_and]
  have h5 : decide (0 ≤ (lc : Int)) = true := by simp
  have h6 : decide ((lc : Int) < (2 : Int) ^ 32) = true := by simpa using h3
  rw [h5, h6]
  simp

end Steps

/-- SIGN THEN PARSE: what `Sign` builds from a `NewTransaction` result parses back (`ParseTransaction([]byte(data))` at the end of
    `Sign`) to a transaction with exactly the de-duplicated prevs, the clock, the payload hash, the payload type, version 2 and the
    signing time that went in — for every input `NewTransaction` accepts -/
theorem sign_then_parse (b64 : String → Bool) {p : Nat} {pt : String} {prevs : List Nat} {pal : Option (List String)} {lc : Nat}
    {u : Unsigned} (hu : newTransaction p pt prevs pal lc = .ok u)
    (sigt : Int) (hs0 : -(2 : Int) ^ 63 ≤ sigt) (hs1 : sigt < (2 : Int) ^ 63)
    (alg : String) (ha : alg ∈ srcCfg.allowedAlgos) (key : KeyRef) (hk : ∀ id, key = .kid id → id ≠ "")
    (ref : Nat) (hp : p < 16 ^ 64) (hpr : ∀ x ∈ prevs, x < 16 ^ 64) (hlc : lc < 2 ^ 32)
    (hpal : ∀ l, pal = some l → ∀ s ∈ l, b64 s = true) :
    parse srcCfg b64 (signHdr u sigt alg key ref true) =
      .ok { ref := ref, alg := alg, payloadHash := p, cty := pt,
            jwk := (match key with | .jwk => true | .kid _ => false),
            kid := (match key with | .jwk => "" | .kid id => id),
            sigt := sigt, ver := 2, prevs := dedup prevs [], pal := pal.getD [], clock := lc } := by
  obtain ⟨hcs, hnz, rfl⟩ := newTransaction_ok hu
  have hdd : ∀ x ∈ dedup prevs [], x < 16 ^ 64 := fun x hx => hpr x ((dedup_mem.mp hx).resolve_right (by simp))
  rw [srcCfg_eq] at ha ⊢
  unfold parse
  show (if (litCfg.strictFraming && !(mkH p pt (dedup prevs []) pal lc sigt alg key ref).framingStrict) = true then _ else _) = _
  have hn : (mkH p pt (dedup prevs []) pal lc sigt alg key ref).nSigs = 1 := rfl
  have hf : (mkH p pt (dedup prevs []) pal lc sigt alg key ref).framingStrict = true := rfl
  rw [hf, hn]
  simp only [Bool.not_true, Bool.and_false, Bool.false_eq_true, if_false, Nat.one_ne_zero, Nat.lt_irrefl]
  rw [step_alg _ _ _ _ _ _ _ _ _ ha, step_payload _ _ _ _ _ _ _ _ _ hp, step_cty _ _ _ _ _ _ _ _ _ hcs, step_sig _ _ _ _ _ _ _ _ _ hk,
    step_sigt _ _ _ _ _ _ _ _ _ hs0 hs1, step_ver, step_prevs _ _ _ _ _ _ _ _ _ hdd, step_pal b64 _ _ _ _ _ _ _ _ _ hpal, step_lc _ _ _ _ _ _ _ _ _ hlc]
  cases key <;> rfl

theorem dedup_nodup : ∀ {ps acc : List Nat}, acc.Nodup → (dedup ps acc).Nodup := by
  intro ps
  induction ps with
  | nil => intro acc h; simpa [dedup] using h
  | cons p r ih =>
    intro acc h
    unfold dedup
    split
    · exact ih h
    · rename_i hc
      apply ih
      rw [List.nodup_append]
      refine ⟨h, by simp, ?_⟩
      intro a ha b hb
      simp at hb
      subst hb
      intro e
      subst e
      exact hc (by simpa using ha)

theorem create_prevs_eq {s : St} {additional prevs : List Nat} {clock : Nat}
    (h : createPrevsClock s additional = .ok (prevs, clock)) :
    prevs = dedup ((if s.head ≠ 0 then [s.head] else []) ++ additional) [] := by
  unfold createPrevsClock at h
  split at h
  · cases h
  · generalize ((if s.head ≠ 0 then [s.head] else []) ++ additional) = p0 at h ⊢
    unfold createFrom at h
    split at h
    · rename_i he
      cases h
      have : p0 = [] := by simpa using he
      rw [this]; rfl
    · split at h
      · cases h; rfl
      · cases h
      · cases h

end Nuts.C06.Create
