/-
  C07 liveness lemmas, part O: rounds are schedules of the adversarial network.
-/
import NutsModel.C07.Round
import NutsProofs.Lemmas.C07
import NutsProofs.Lemmas.C07LiveN
open Nuts.Proto Nuts Nuts.Proto.L

namespace Nuts.Proto.Live

/-! ### Part O: rounds are schedules of the adversarial network -/

theorem sendRequest_peers (cfg : Cfg) (n : Node) (peer : Nat) (data : ConvData) (mk : Cid → Msg) :
    (sendRequest cfg n peer data mk).node.peers = n.peers := (sendRequest_convOnly cfg n peer data mk).2.2.2

/-- no handler touches the connection list -/
theorem handle_peers (cfg : Cfg) (env : Env) (n : Node) (p : Peer) (m : Msg) : (handle cfg env n p m).node.peers = n.peers := by
  cases m with
  | gossip x lc refs =>
    simp only [handle]; unfold handleGossip; simp only
    split
    · rfl
    · split
      · unfold sendListQuery; rw [sendRequest_peers]; split <;> rfl
      · unfold sendState; rw [sendRequest_peers]; split <;> rfl
  | state cid x lc => simp only [handle]; unfold handleState; split <;> rfl
  | txSet cid a b i =>
    simp only [handle]; unfold handleTransactionSet
    split
    · rfl
    · simp only
      split
      · rfl
      · split
        · unfold sendRangeQuery; rw [sendRequest_peers]; rfl
        · unfold sendState; rw [sendRequest_peers]; rfl
      · split
        · unfold sendListQuery; rw [sendRequest_peers]; rfl
        · split
          · split <;> (unfold sendRangeQuery; rw [sendRequest_peers]; rfl)
          · rfl
  | listQuery cid refs => simp [handle, handleListQuery_node]
  | rangeQuery cid a b => simp [handle, handleRangeQuery_node]
  | payloadQuery ref => simp [handle, handlePayloadQuery_node]
  | payload ref data =>
    simp only [handle]; unfold handleTransactionPayload
    repeat (first | rfl | split)
  | diagnostics => rfl
  | unsupported => rfl
  | txList cid num total txs =>
    simp only [handle]; unfold handleTransactionList
    split
    · rfl
    · split
      · rfl
      · rename_i ps _
        have hp := (addLoop_frame cfg env ps n).2.1
        simp only
        split
        · split <;> exact hp
        · exact hp
        · simp only; unfold sendState; rw [sendRequest_peers]; exact hp
        · exact hp

theorem run_append (cfg : Cfg) (w : World) (s1 s2 : List Step) : w.run cfg (s1 ++ s2) = (w.run cfg s1).run cfg s2 := by
  unfold World.run; rw [List.foldl_append]

/-- delivering `msgs` from peer `p` to the node at index `i` is a run of `inject` steps (the injected messages are the
    ones the partner sent) -/
theorem absorb_is_run (cfg : Cfg) (env : Env) (i : Nat) (p : Peer) : ∀ (msgs : List Msg) (w : World) (n : Node),
    w.nodes[i]? = some n → peerOf n p.key = some p →
    (w.run cfg (msgs.map (fun m => Step.inject p.key i m env))).nodes = w.nodes.set i (absorb cfg env n p msgs).1 := by
  intro msgs
  induction msgs with
  | nil =>
    intro w n hn _
    simp only [List.map_nil, World.run, List.foldl_nil, absorb]
    obtain ⟨hlt, heq⟩ := List.getElem?_eq_some_iff.mp hn
    rw [← heq, List.set_getElem_self hlt]
  | cons m ms ih =>
    intro w n hn hp
    simp only [List.map_cons, World.run, List.foldl_cons]
    have hstep : (w.step cfg (.inject p.key i m env)).nodes = w.nodes.set i (handle cfg env n p m).node := by
      simp only [World.step, World.stepR, World.recv, hn, hp, World.post]
    have hlt := (List.getElem?_eq_some_iff.mp hn).1
    have hn' : (w.step cfg (.inject p.key i m env)).nodes[i]? = some (handle cfg env n p m).node := by
      rw [hstep]; simp [hlt]
    have hp' : peerOf (handle cfg env n p m).node p.key = some p := by
      unfold peerOf; rw [handle_peers]; exact hp
    have := ih (w.step cfg (.inject p.key i m env)) _ hn' hp'
    simp only [World.run] at this
    rw [this, hstep, absorb_cons]
    simp


theorem absorb_peers (cfg : Cfg) (env : Env) (p : Peer) : ∀ (msgs : List Msg) (n : Node), (absorb cfg env n p msgs).1.peers = n.peers := by
  intro msgs
  induction msgs with
  | nil => intro n; rfl
  | cons m ms ih => intro n; rw [absorb_cons]; simp only; rw [ih, handle_peers]

theorem pingPong_is_run (cfg : Cfg) (env : Env) (pA pB : Peer) :
    ∀ (fuel : Nat) (a b : Node) (toB : List Msg) (w : World), w.nodes = [a, b] →
      peerOf a pB.key = some pB → peerOf b pA.key = some pA →
      ∃ sched, (w.run cfg sched).nodes = [(pingPong cfg env pA pB fuel a b toB).1, (pingPong cfg env pA pB fuel a b toB).2] := by
  intro fuel
  induction fuel with
  | zero => intro a b toB w hw _ _; exact ⟨[], by simpa [World.run, pingPong] using hw⟩
  | succ f ih =>
    intro a b toB w hw hpa hpb
    unfold pingPong
    split
    · exact ⟨[], by simpa [World.run] using hw⟩
    · -- deliver the batch to b (index 1), then b's replies to a (index 0), then continue
      have h1 := absorb_is_run cfg env 1 pA toB w b (by rw [hw]; rfl) hpb
      let w1 := w.run cfg (toB.map (fun m => Step.inject pA.key 1 m env))
      have hw1 : w1.nodes = [a, (absorb cfg env b pA toB).1] := by
        show (w.run cfg _).nodes = _
        rw [h1, hw]; rfl
      have h2 := absorb_is_run cfg env 0 pB (absorb cfg env b pA toB).2 w1 a (by rw [hw1]; rfl) hpa
      let w2 := w1.run cfg ((absorb cfg env b pA toB).2.map (fun m => Step.inject pB.key 0 m env))
      have hw2 : w2.nodes = [(absorb cfg env a pB (absorb cfg env b pA toB).2).1, (absorb cfg env b pA toB).1] := by
        show (w1.run cfg _).nodes = _
        rw [h2, hw1]; rfl
      obtain ⟨sched, hs⟩ := ih _ _ (absorb cfg env a pB (absorb cfg env b pA toB).2).2 w2 hw2
        (by unfold peerOf; rw [absorb_peers]; exact hpa) (by unfold peerOf; rw [absorb_peers]; exact hpb)
      refine ⟨toB.map (fun m => Step.inject pA.key 1 m env) ++
        ((absorb cfg env b pA toB).2.map (fun m => Step.inject pB.key 0 m env) ++ sched), ?_⟩
      rw [run_append, run_append]
      exact hs

/-- **a pull round is a schedule of the adversarial network**: one gossip tick followed by deliveries of messages the
    partner sent — so everything proved for ALL schedules (`safety_any_schedule`) holds along rounds, and the
    convergence theorem speaks about executions of the network model -/
theorem pullRound_is_run (cfg : Cfg) (env : Env) (pA pB : Peer) (fuel : Nat) (a b : Node)
    (w : World) (hw : w.nodes = [a, b]) (hpa : peerOf a pB.key = some pB) (hpb : peerOf b pA.key = some pA) :
    ∃ sched, (w.run cfg sched).nodes = [(pullRound cfg env pA pB fuel a b).1, (pullRound cfg env pA pB fuel a b).2] := by
  unfold pullRound
  simp only
  -- the tick at node 1 for peer 0
  let w1 := w.step cfg (.tick 1 pA.key)
  have hw1 : w1.nodes = [a, (gossipTick b pA.key).node] := by
    show (w.step cfg (.tick 1 pA.key)).nodes = _
    simp only [World.step, World.stepR, hw]
    rfl
  have hpb1 : peerOf (gossipTick b pA.key).node pA.key = some pA := by
    have : (gossipTick b pA.key).node.peers = b.peers := by
      unfold gossipTick
      split
      · rfl
      · split <;> rfl
    unfold peerOf; rw [this]; exact hpb
  have h2 := absorb_is_run cfg env 0 pB (toPeer pA.key (gossipTick b pA.key).out) w1 a (by rw [hw1]; rfl) hpa
  let w2 := w1.run cfg ((toPeer pA.key (gossipTick b pA.key).out).map (fun m => Step.inject pB.key 0 m env))
  have hw2 : w2.nodes = [(absorb cfg env a pB (toPeer pA.key (gossipTick b pA.key).out)).1, (gossipTick b pA.key).node] := by
    show (w1.run cfg _).nodes = _
    rw [h2, hw1]; rfl
  obtain ⟨sched, hs⟩ := pingPong_is_run cfg env pA pB fuel _ _ (absorb cfg env a pB (toPeer pA.key (gossipTick b pA.key).out)).2 w2 hw2
    (by unfold peerOf; rw [absorb_peers]; exact hpa) hpb1
  refine ⟨[Step.tick 1 pA.key] ++ ((toPeer pA.key (gossipTick b pA.key).out).map (fun m => Step.inject pB.key 0 m env) ++ sched), ?_⟩
  rw [run_append, run_append]
  exact hs

end Nuts.Proto.Live
