/-
  C05 — helper lemmas: store algebra, what one step of a consumer does, the burn invariant (at most one request
  obtains a burn-on-use secret when the consume step is atomic), the mark invariant (two acceptances of one nonce are
  a TTL apart), dead secrets stay dead, every finished code redemption leaves the code burned, and the same
  invariants for schedules that do not separate the two calls of a non-atomic consume step.  Core Lean only.
-/
import NutsModel.C05.OneTime
namespace Nuts.C05

theorem stFind_erase_self (s : Store) (k : Key) : stFind (stErase s k) k = none := by
  induction s with
  | nil => rfl
  | cons p s ih =>
    obtain ⟨k', e⟩ := p
    unfold stErase
    by_cases h : k' = k
    · simp [h, ih]
    · simp [h, stFind, ih]

theorem stFind_erase_ne (s : Store) (k k' : Key) (h : k' ≠ k) : stFind (stErase s k) k' = stFind s k' := by
  induction s with
  | nil => rfl
  | cons p s ih =>
    obtain ⟨k'', e⟩ := p
    unfold stErase
    by_cases h1 : k'' = k
    · have : k'' ≠ k' := by intro h2; exact h (h2 ▸ h1)
      simp [h1, ih, stFind]
      intro h3; exact absurd h3.symm h
    · simp [h1, stFind, ih]

theorem stFind_put_self (s : Store) (k : Key) (e : Entry) : stFind (stPut s k e) k = some e := by
  simp [stPut, stFind]

theorem stFind_put_ne (s : Store) (k k' : Key) (e : Entry) (h : k' ≠ k) : stFind (stPut s k e) k' = stFind s k' := by
  simp [stPut, stFind, stFind_erase_ne s k k' h]
  intro h2; exact absurd h2.symm h

theorem stGet_none_of_find_none (incl : Bool) (s : Store) (now : Nat) (k : Key) (h : stFind s k = none) :
    stGet incl s now k = none := by simp [stGet, h]

theorem stGet_some (incl : Bool) (s : Store) (now : Nat) (k : Key) (v : String) (h : stGet incl s now k = some v) :
    ∃ e, stFind s k = some e ∧ alive incl now e.exp = true ∧ e.val = v := by
  unfold stGet at h
  split at h
  · rename_i e he
    split at h
    · rename_i ha
      exact ⟨e, he, ha, by simpa using h⟩
    · cases h
  · cases h

theorem stGet_none_find_some (incl : Bool) (s : Store) (now : Nat) (k : Key) (e : Entry)
    (h : stGet incl s now k = none) (he : stFind s k = some e) : e.exp ≤ now := by
  simp [stGet, he, alive] at h
  omega

def BurnPc.took : BurnPc → Bool | .atExt o => o.took | .atBurn o => o.took | .done o => o.took | _ => false
def BurnPc.inCrit : BurnPc → Bool | .atCall => true | .atDel _ => true | _ => false
def MarkPc.inCrit : MarkPc → Bool | .atCall => true | .atPut _ => true | _ => false
def Thread.inCrit (cfg : Cfg) : Thread → Bool
  | .burn _ pc _ => cfg.gadLocks && pc.inCrit
  | .mark r pc _ => cfg.markLocks r.kind && pc.inCrit

theorem finishBurn_inCrit (r : BurnReq) (o : Outcome) : (finishBurn r o).inCrit = false := by
  unfold finishBurn; split <;> rfl

theorem finishBurn_took (r : BurnReq) (o : Outcome) : (finishBurn r o).took = o.took := by
  unfold finishBurn; split <;> rfl

theorem finishBurn_ne_atDel (r : BurnReq) (o : Outcome) (v : String) : finishBurn r o ≠ .atDel v := by
  unfold finishBurn; split <;> simp

theorem afterGad_ne_atDel (cfg : Cfg) (r : BurnReq) (x : Option String) (v : String) : afterGad cfg r x ≠ .atDel v := by
  unfold afterGad; split
  · simp
  · exact finishBurn_ne_atDel _ _ _

theorem afterGad_inCrit (cfg : Cfg) (r : BurnReq) (v : Option String) : (afterGad cfg r v).inCrit = false := by
  unfold afterGad; split
  · rfl
  · exact finishBurn_inCrit _ _

theorem stepBurn_lock (cfg : Cfg) (st : Store) (now : Nat) (lock : Option Nat) (i : Nat) (r : BurnReq) (pc : BurnPc)
    (h : cfg.gadLocks = true → pc.inCrit = true → lock = some i) :
    (cfg.gadLocks = true → (stepBurn cfg st now lock i r pc).1.inCrit = true → (stepBurn cfg st now lock i r pc).2.2 = some i) ∧
    ((stepBurn cfg st now lock i r pc).2.2 = lock ∨ (lock = none ∧ (stepBurn cfg st now lock i r pc).2.2 = some i)
      ∨ (lock = some i ∧ (stepBurn cfg st now lock i r pc).2.2 = none)) := by
  have ha := afterGad_inCrit cfg r
  have hfc := finishBurn_inCrit r
  cases hl : cfg.gadLocks <;> cases pc <;> simp only [stepBurn] <;> (repeat' split) <;>
    simp_all [unlock, BurnPc.inCrit.eq_1, BurnPc.inCrit.eq_2, BurnPc.inCrit.eq_3]

theorem afterGad_took (cfg : Cfg) (r : BurnReq) (v : Option String) : (afterGad cfg r v).took = v.isSome := by
  cases v <;> unfold afterGad finishBurn verdict <;> (repeat' split) <;> simp_all [BurnPc.took, Outcome.took]

theorem stepBurn_store (cfg : Cfg) (st : Store) (now : Nat) (lock : Option Nat) (i : Nat) (r : BurnReq) (pc : BurnPc) :
    (stepBurn cfg st now lock i r pc).2.1 = st ∨ (stepBurn cfg st now lock i r pc).2.1 = stErase st r.key := by
  cases pc <;> simp only [stepBurn] <;> (repeat' split) <;> simp_all

/-- a request obtains the value only in a step that erases the key, and either the key was visible just before
    (single atomic call, or a Delete that reports a missing key) or the request was past its Get -/
theorem stepBurn_newTaker (cfg : Cfg) (st : Store) (now : Nat) (lock : Option Nat) (i : Nat) (r : BurnReq) (pc : BurnPc)
    (h0 : pc.took = false) (h1 : (stepBurn cfg st now lock i r pc).1.took = true) :
    (stepBurn cfg st now lock i r pc).2.1 = stErase st r.key ∧
    ((stGet cfg.expInclusive st now r.key).isSome = true ∨
     (∃ v, pc = .atDel v ∧ ¬(cfg.gadRawDelete = true ∧ cfg.strictDelete = true))) := by
  have ha := afterGad_took cfg r
  have hft := finishBurn_took r
  cases pc <;> simp only [stepBurn] at h1 ⊢ <;> (repeat' split at h1) <;> (repeat' split) <;>
    simp_all [BurnPc.took, Outcome.took]
  rename_i h
  cases hr : cfg.gadRawDelete <;> cases hs : cfg.strictDelete <;> simp_all [Option.isSome_iff_ne_none]

theorem stepBurn_newMid (cfg : Cfg) (st : Store) (now : Nat) (lock : Option Nat) (i : Nat) (r : BurnReq) (pc : BurnPc) (v : String)
    (h1 : (stepBurn cfg st now lock i r pc).1 = .atDel v) :
    stGet cfg.expInclusive st now r.key = some v ∧ cfg.gad ≠ .singleCall := by
  have ha : ∀ x, afterGad cfg r x ≠ .atDel v := fun x => afterGad_ne_atDel cfg r x v
  have hfd : ∀ o, finishBurn r o ≠ .atDel v := fun o => finishBurn_ne_atDel r o v
  cases pc <;> simp only [stepBurn] at h1 <;> (repeat' split at h1) <;> simp_all


/-! ### local facts about one step of a mark consumer -/

def markEntry (cfg : Cfg) (now : Nat) (m : MarkKind) : Entry := ⟨markVal m, now + cfg.ttl (.mark m)⟩

theorem stepMark_lock (cfg : Cfg) (st : Store) (now : Nat) (lock : Option Nat) (i : Nat) (r : MarkReq) (pc : MarkPc)
    (h : cfg.markLocks r.kind = true → pc.inCrit = true → lock = some i) :
    (cfg.markLocks r.kind = true → (stepMark cfg st now lock i r pc).1.inCrit = true → (stepMark cfg st now lock i r pc).2.2 = some i) ∧
    ((stepMark cfg st now lock i r pc).2.2 = lock ∨ (lock = none ∧ (stepMark cfg st now lock i r pc).2.2 = some i)
      ∨ (lock = some i ∧ (stepMark cfg st now lock i r pc).2.2 = none)) := by
  cases hl : cfg.markLocks r.kind <;> cases pc <;> simp only [stepMark] <;> (repeat' split) <;>
    simp_all [unlock, MarkPc.inCrit]

theorem stepMark_store (cfg : Cfg) (st : Store) (now : Nat) (lock : Option Nat) (i : Nat) (r : MarkReq) (pc : MarkPc) :
    (stepMark cfg st now lock i r pc).2.1 = st ∨
    (stepMark cfg st now lock i r pc).2.1 = stPut st r.key (markEntry cfg now r.kind) := by
  cases pc <;> simp only [stepMark] <;> (repeat' split) <;> simp_all [markEntry]

/-- a mark consumer is honoured only in a step that stores the secret, and either the secret was not visible in
    that very step (one atomic call) or the request was past a Get that missed -/
theorem stepMark_newWinner (cfg : Cfg) (st : Store) (now : Nat) (lock : Option Nat) (i : Nat) (r : MarkReq) (pc : MarkPc)
    (h0 : pc ≠ .done .ok) (h1 : (stepMark cfg st now lock i r pc).1 = .done .ok) :
    (stepMark cfg st now lock i r pc).2.1 = stPut st r.key (markEntry cfg now r.kind) ∧
    ((pc = .atCall ∧ stGet cfg.expInclusive st now r.key = none) ∨ pc = .atPut true) := by
  cases pc <;> simp only [stepMark] at h1 ⊢ <;> (repeat' split at h1) <;> (repeat' split) <;> simp_all [markEntry]

theorem stepMark_newMid (cfg : Cfg) (st : Store) (now : Nat) (lock : Option Nat) (i : Nat) (r : MarkReq) (pc : MarkPc)
    (h1 : (stepMark cfg st now lock i r pc).1 = .atPut true) :
    stGet cfg.expInclusive st now r.key = none ∧ cfg.mark r.kind ≠ .putIfAbsent := by
  cases pc <;> simp only [stepMark] at h1 <;> (repeat' split at h1) <;> simp_all

theorem stepMark_done (cfg : Cfg) (st : Store) (now : Nat) (lock : Option Nat) (i : Nat) (r : MarkReq) (o : Outcome) :
    stepMark cfg st now lock i r (.done o) = (.done o, st, lock) := rfl

theorem stepBurn_done (cfg : Cfg) (st : Store) (now : Nat) (lock : Option Nat) (i : Nat) (r : BurnReq) (o : Outcome) :
    stepBurn cfg st now lock i r (.done o) = (.done o, st, lock) := rfl


theorem stepBurn_newTaker_crit (cfg : Cfg) (st : Store) (now : Nat) (lock : Option Nat) (i : Nat) (r : BurnReq) (pc : BurnPc)
    (h0 : pc.took = false) (h1 : (stepBurn cfg st now lock i r pc).1.took = true) (hl : cfg.gadLocks = true) :
    pc.inCrit = true := by
  have ha := afterGad_took cfg r
  have hft := finishBurn_took r
  cases pc <;> simp only [stepBurn] at h1 <;> (repeat' split at h1) <;>
    simp_all [BurnPc.took, Outcome.took, BurnPc.inCrit, Cfg.gadLocks]

/-! ### what one step of any thread does, as far as the invariants are concerned -/

theorem took_burn (t : Thread) (h : t.took = true) : ∃ b, t.key.ns = .burn b := by
  cases t with
  | burn r pc f => exact ⟨r.kind, rfl⟩
  | mark r pc f => simp [Thread.took] at h

structure StepSum (cfg : Cfg) (st : Store) (now : Nat) (lock : Option Nat) (i : Nat) (t : Thread)
    (x : Thread × Store × Option Nat) : Prop where
  key : x.1.key = t.key
  lock1 : x.1.inCrit cfg = true → x.2.2 = some i
  lock2 : x.2.2 = lock ∨ (lock = none ∧ x.2.2 = some i) ∨ (lock = some i ∧ x.2.2 = none)
  burnKeys : ∀ k b, k.ns = .burn b → stFind st k = none → stFind x.2.1 k = none
  newTaker : t.took = false → x.1.took = true →
    stFind x.2.1 t.key = none ∧ (cfg.gadLocks = true → t.inCrit cfg = true) ∧
    ((stGet cfg.expInclusive st now t.key).isSome = true ∨
      ((∃ r v f, t = .burn r (.atDel v) f) ∧ ¬(cfg.gadRawDelete = true ∧ cfg.strictDelete = true)))
  newMid : ∀ r v f, x.1 = .burn r (.atDel v) f → stGet cfg.expInclusive st now r.key = some v ∧ cfg.gad ≠ .singleCall

theorem stepThread_sum (cfg : Cfg) (st : Store) (now : Nat) (lock : Option Nat) (i : Nat) (t : Thread)
    (hL : t.inCrit cfg = true → lock = some i) : StepSum cfg st now lock i t (stepThread cfg st now lock i t) := by
  cases t with
  | burn r pc f =>
    have hl := stepBurn_lock cfg st now lock i r pc (by intro h1 h2; exact hL (by simp [Thread.inCrit, h1, h2]))
    have hs := stepBurn_store cfg st now lock i r pc
    refine ⟨rfl, ?_, hl.2, ?_, ?_, ?_⟩
    · intro h; simp [stepThread, Thread.inCrit] at h; exact hl.1 h.1 h.2
    · intro k b hk hn
      simp only [stepThread]
      rcases hs with hs | hs <;> rw [hs]
      · exact hn
      · by_cases hkk : k = r.key
        · rw [hkk]; exact stFind_erase_self _ _
        · rw [stFind_erase_ne _ _ _ hkk]; exact hn
    · intro h0 h1
      simp only [stepThread, Thread.took] at h0 h1
      have h0' : pc.took = false := by cases pc <;> simp_all [BurnPc.took]
      have h1' : (stepBurn cfg st now lock i r pc).1.took = true := by
        generalize (stepBurn cfg st now lock i r pc).1 = pc' at h1
        cases pc' <;> simp_all [BurnPc.took]
      have hn := stepBurn_newTaker cfg st now lock i r pc h0' h1'
      refine ⟨?_, ?_, ?_⟩
      · simp only [stepThread, Thread.key]; rw [hn.1]; exact stFind_erase_self _ _
      · intro hg; simp [Thread.inCrit, hg]; exact stepBurn_newTaker_crit cfg st now lock i r pc h0' h1' hg
      · rcases hn.2 with h | ⟨v, hv, hns⟩
        · exact Or.inl h
        · exact Or.inr ⟨⟨r, v, f, by rw [hv]⟩, hns⟩
    · intro r' v f' h
      simp only [stepThread] at h
      injection h with hr hpc hf
      subst hr
      exact stepBurn_newMid cfg st now lock i _ pc v hpc
  | mark r pc f =>
    have hl := stepMark_lock cfg st now lock i r pc (by intro h1 h2; exact hL (by simp [Thread.inCrit, h1, h2]))
    have hs := stepMark_store cfg st now lock i r pc
    refine ⟨rfl, ?_, hl.2, ?_, ?_, ?_⟩
    · intro h; simp [stepThread, Thread.inCrit] at h; exact hl.1 h.1 h.2
    · intro k b hk hn
      simp only [stepThread]
      rcases hs with hs | hs <;> rw [hs]
      · exact hn
      · have hkk : k ≠ r.key := by
          intro h; rw [h] at hk; simp [MarkReq.key] at hk
        rw [stFind_put_ne _ _ _ _ hkk]; exact hn
    · intro _ h1; simp [stepThread, Thread.took] at h1
    · intro r' v f' h; simp [stepThread] at h


/-! ### the burn invariant -/

/-- the consume step of GetAndDelete is atomic: one call, or two calls under the database mutex, or the Delete
    reports a key that is already gone and GetAndDelete passes that on -/
def AtomicBurn (cfg : Cfg) : Prop :=
  cfg.gad = .singleCall ∨ cfg.gad = .locked ∨ (cfg.gadRawDelete = true ∧ cfg.strictDelete = true)

structure BInv (cfg : Cfg) (w : World) : Prop where
  lockd : ∀ (i : Nat) (t : Thread), w.ths[i]? = some t → t.inCrit cfg = true → w.lock = some i
  gone : ∀ (i : Nat) (t : Thread), w.ths[i]? = some t → t.took = true → stFind w.store t.key = none
  uniq : ∀ (i j : Nat) (ti tj : Thread), w.ths[i]? = some ti → w.ths[j]? = some tj → ti.key = tj.key →
    ti.took = true → tj.took = true → i = j
  mid : ∀ (i : Nat) (r : BurnReq) (v : String) (f : Nat), w.ths[i]? = some (Thread.burn r (.atDel v) f) →
    (cfg.gadRawDelete = true ∧ cfg.strictDelete = true) ∨
    (cfg.gadLocks = true ∧ ∀ (j : Nat) (tj : Thread), w.ths[j]? = some tj → tj.key = r.key → tj.took = false)

theorem getElem?_set_cases {α} (l : List α) (i j : Nat) (a b : α) (h : (l.set i a)[j]? = some b) :
    (j = i ∧ b = a) ∨ (j ≠ i ∧ l[j]? = some b) := by
  by_cases hij : i = j
  · subst hij
    rw [List.getElem?_set] at h
    simp at h
    exact Or.inl ⟨rfl, h.2.symm⟩
  · rw [List.getElem?_set_ne hij] at h
    exact Or.inr ⟨fun h' => hij h'.symm, h⟩

theorem stGet_isSome_find (incl : Bool) (s : Store) (now : Nat) (k : Key) (h : (stGet incl s now k).isSome = true) :
    ∃ e, stFind s k = some e := by
  cases hg : stGet incl s now k with
  | none => simp [hg] at h
  | some v => obtain ⟨e, he, _⟩ := stGet_some incl s now k v hg; exact ⟨e, he⟩

theorem BInv_stepW (cfg : Cfg) (ha : AtomicBurn cfg) (w : World) (i : Nat) (inv : BInv cfg w) : BInv cfg (stepW cfg w i) := by
  unfold stepW
  cases hi : w.ths[i]? with
  | none => exact inv
  | some t =>
    simp only
    have S := stepThread_sum cfg w.store w.now w.lock i t (inv.lockd i t hi)
    generalize stepThread cfg w.store w.now w.lock i t = x at S
    have hlen : i < w.ths.length := by
      rcases Nat.lt_or_ge i w.ths.length with h | h
      · exact h
      · rw [List.getElem?_eq_none h] at hi; cases hi
    -- facts about a thread of the new world
    have old : ∀ j tj, (w.ths.set i x.1)[j]? = some tj → (j = i ∧ tj = x.1) ∨ (j ≠ i ∧ w.ths[j]? = some tj) :=
      fun j tj h => getElem?_set_cases _ _ _ _ _ h
    -- took in the new world: either an old taker (store had no entry) or thread i taking right now
    have tookOld : ∀ j tj, (w.ths.set i x.1)[j]? = some tj → tj.took = true →
        (∃ tj0, w.ths[j]? = some tj0 ∧ tj0.key = tj.key ∧ tj0.took = true) ∨ (j = i ∧ tj = x.1 ∧ t.took = false) := by
      intro j tj h ht
      rcases old j tj h with ⟨hj, he⟩ | ⟨hj, he⟩
      · subst hj; subst he
        cases htt : t.took
        · exact Or.inr ⟨rfl, rfl, rfl⟩
        · exact Or.inl ⟨t, hi, S.key.symm, htt⟩
      · exact Or.inl ⟨tj, he, rfl, ht⟩
    refine ⟨?_, ?_, ?_, ?_⟩
    · intro j tj h hc
      rcases old j tj h with ⟨hj, he⟩ | ⟨hj, he⟩
      · subst hj; subst he; exact S.lock1 hc
      · have hlj := inv.lockd j tj he hc
        rcases S.lock2 with h2 | ⟨h2, _⟩ | ⟨h2, _⟩
        · rw [h2]; exact hlj
        · rw [h2] at hlj; cases hlj
        · rw [h2] at hlj; injection hlj with hh; exact absurd hh.symm hj
    · intro j tj h ht
      obtain ⟨b, hb⟩ := took_burn tj ht
      rcases tookOld j tj h ht with ⟨tj0, h0, hk, ht0⟩ | ⟨hj, he, hnt⟩
      · have := inv.gone j tj0 h0 ht0
        rw [hk] at this
        exact S.burnKeys _ b hb this
      · subst he
        have := (S.newTaker hnt ht).1
        rw [S.key]; exact this
    · intro a b ta tb hta htb hk hat hbt
      -- a fresh taker excludes every other taker of the same key
      have fresh : ∀ j tj, w.ths[j]? = some tj → tj.key = t.key → tj.took = true → t.took = false → x.1.took = true → j = i := by
        intro j tj hj hkj htj hnt hxt
        obtain ⟨_, _, h3⟩ := S.newTaker hnt hxt
        rcases h3 with h3 | ⟨⟨r, v, f, hr⟩, hns⟩
        · obtain ⟨e, he⟩ := stGet_isSome_find _ _ _ _ h3
          have := inv.gone j tj hj htj
          rw [hkj, he] at this; cases this
        · rw [hr] at hi
          rcases inv.mid i r v f hi with hm | ⟨_, hm⟩
          · exact absurd hm hns
          · have := hm j tj hj (by rw [hkj, hr]; rfl)
            rw [this] at htj; cases htj
      rcases tookOld a ta hta hat with ⟨ta0, ha0, hka, hta0⟩ | ⟨hja, hea, hna⟩ <;>
      rcases tookOld b tb htb hbt with ⟨tb0, hb0, hkb, htb0⟩ | ⟨hjb, heb, hnb⟩
      · exact inv.uniq a b ta0 tb0 ha0 hb0 (by rw [hka, hkb, hk]) hta0 htb0
      · subst heb
        rw [hjb]
        exact fresh a ta0 ha0 (by rw [hka, hk, S.key]) hta0 hnb hbt
      · subst hea
        rw [hja]
        exact (fresh b tb0 hb0 (by rw [hkb, ← hk, S.key]) htb0 hna hat).symm
      · rw [hja, hjb]
    · intro a r v f h
      rcases old a _ h with ⟨hj, he⟩ | ⟨hj, he⟩
      · -- thread i has just finished its Get
        obtain ⟨hg, hns⟩ := S.newMid r v f he.symm
        rcases ha with h1 | h1 | h1
        · exact absurd h1 hns
        · refine Or.inr ⟨by simp [Cfg.gadLocks, h1], ?_⟩
          intro j tj hjt hkj
          cases htt : tj.took with
          | false => rfl
          | true =>
            obtain ⟨e, he', _⟩ := stGet_some _ _ _ _ _ hg
            rcases tookOld j tj hjt htt with ⟨tj0, h0, hk0, ht0⟩ | ⟨hji, hei, _⟩
            · have := inv.gone j tj0 h0 ht0
              rw [hk0, hkj, he'] at this; cases this
            · rw [hei, ← he] at htt; simp [Thread.took] at htt
        · exact Or.inl h1
      · rcases inv.mid a r v f he with hm | ⟨hgl, hm⟩
        · exact Or.inl hm
        · refine Or.inr ⟨hgl, ?_⟩
          intro j tj hjt hkj
          cases htt : tj.took with
          | false => rfl
          | true =>
            rcases tookOld j tj hjt htt with ⟨tj0, h0, hk0, ht0⟩ | ⟨hji, hei, hnt⟩
            · have := hm j tj0 h0 (by rw [hk0, hkj])
              rw [this] at ht0; cases ht0
            · -- thread i takes while thread a ≠ i sits between Get and Delete under the lock: both would hold it
              subst hei
              have hci := (S.newTaker hnt htt).2.1 hgl
              have hla := inv.lockd a _ he (by simp [Thread.inCrit, hgl, BurnPc.inCrit])
              have hli := inv.lockd i t hi hci
              rw [hla] at hli; injection hli with hh
              exact absurd (hji ▸ hh) (fun h' => hj (by omega))


theorem BInv_applyEv (cfg : Cfg) (ha : AtomicBurn cfg) (w : World) (ev : Ev) (inv : BInv cfg w) : BInv cfg (applyEv cfg w ev) := by
  cases ev with
  | step i => exact BInv_stepW cfg ha w i inv
  | tick dt => exact ⟨inv.lockd, inv.gone, inv.uniq, inv.mid⟩

theorem BInv_run (cfg : Cfg) (ha : AtomicBurn cfg) (s : List Ev) (w : World) (inv : BInv cfg w) : BInv cfg (run cfg s w) := by
  induction s generalizing w with
  | nil => exact inv
  | cons ev s ih => exact ih _ (BInv_applyEv cfg ha w ev inv)

theorem init_thread (st : Store) (reqs : List Req) (i : Nat) (t : Thread) (h : (init st reqs).ths[i]? = some t) :
    ∃ r, t = Req.thread r := by
  simp [init] at h
  obtain ⟨r, _, hr⟩ := h
  exact ⟨r, hr.symm⟩

theorem BInv_init (cfg : Cfg) (st : Store) (reqs : List Req) : BInv cfg (init st reqs) := by
  refine ⟨?_, ?_, ?_, ?_⟩
  · intro i t h hc
    obtain ⟨r, hr⟩ := init_thread st reqs i t h
    subst hr; cases r <;> simp [Req.thread, Thread.inCrit, BurnPc.inCrit, MarkPc.inCrit] at hc
  · intro i t h ht
    obtain ⟨r, hr⟩ := init_thread st reqs i t h
    subst hr; cases r <;> simp [Req.thread, Thread.took] at ht
  · intro i j ti tj h _ _ ht
    obtain ⟨r, hr⟩ := init_thread st reqs i ti h
    subst hr; cases r <;> simp [Req.thread, Thread.took] at ht
  · intro i r v f h
    obtain ⟨r', hr⟩ := init_thread st reqs i _ h
    cases r' <;> simp [Req.thread] at hr

theorem filter_length_le_one {α} (p : α → Bool) (l : List α)
    (h : ∀ (i j : Nat) (a b : α), l[i]? = some a → l[j]? = some b → p a = true → p b = true → i = j) :
    (l.filter p).length ≤ 1 := by
  induction l with
  | nil => simp
  | cons x l ih =>
    have ih' := ih (fun i j a b hi hj ha hb => by
      have := h (i + 1) (j + 1) a b (by simpa using hi) (by simpa using hj) ha hb
      omega)
    cases hx : p x with
    | false => simp [List.filter, hx]; exact ih'
    | true =>
      have : l.filter p = [] := by
        rw [List.filter_eq_nil_iff]
        intro b hb hpb
        obtain ⟨j, hj⟩ := List.getElem?_of_mem hb
        have := h 0 (j + 1) x b (by simp) (by simpa using hj) hx (by simpa using hpb)
        omega
      simp [List.filter, hx, this]

theorem won_took (t : Thread) (b : BurnKind) (hk : t.key.ns = .burn b) (h : t.won = true) : t.took = true := by
  cases t with
  | burn r pc f =>
    cases pc <;> simp_all [Thread.won, Thread.outcome, Thread.took, Outcome.took]
  | mark r pc f => simp [Thread.key, MarkReq.key] at hk


/-! ### the mark invariant -/

/-- check-and-register of the mark consumers is atomic: one call, or two calls under the database mutex -/
def AtomicMark (cfg : Cfg) : Prop := ∀ m, cfg.mark m ≠ .getThenPut

theorem stepMark_newWinner_crit (cfg : Cfg) (st : Store) (now : Nat) (lock : Option Nat) (i : Nat) (r : MarkReq) (pc : MarkPc)
    (h0 : pc ≠ .done .ok) (h1 : (stepMark cfg st now lock i r pc).1 = .done .ok) (hl : cfg.markLocks r.kind = true) :
    pc.inCrit = true := by
  cases pc <;> simp only [stepMark] at h1 <;> (repeat' split at h1) <;> simp_all [MarkPc.inCrit, Cfg.markLocks]

theorem stepMark_newMid' (cfg : Cfg) (st : Store) (now : Nat) (lock : Option Nat) (i : Nat) (r : MarkReq) (pc : MarkPc)
    (h1 : (stepMark cfg st now lock i r pc).1 = .atPut true) : pc = .atCall := by
  cases pc <;> simp only [stepMark] at h1 <;> (repeat' split at h1) <;> simp_all

structure MStepSum (cfg : Cfg) (st : Store) (now : Nat) (t : Thread) (x : Thread × Store × Option Nat) : Prop where
  fin : x.1.fin = t.fin ∨ x.1.fin = now
  markKeys : ∀ (k : Key) (m : MarkKind), k.ns = .mark m →
    stFind x.2.1 k = stFind st k ∨ (k = t.key ∧ stFind x.2.1 k = some (markEntry cfg now m))
  doneStable : ∀ (r : MarkReq) (o : Outcome) (f : Nat), t = .mark r (.done o) f → x.1 = t
  newWinner : ∀ (r : MarkReq) (f' : Nat), x.1 = .mark r (.done .ok) f' →
    t = .mark r (.done .ok) f' ∨
    (f' = now ∧ stFind x.2.1 r.key = some (markEntry cfg now r.kind) ∧
      (cfg.markLocks r.kind = true → t.inCrit cfg = true) ∧
      ((∃ f, t = .mark r .atCall f ∧ stGet cfg.expInclusive st now r.key = none) ∨ (∃ f, t = .mark r (.atPut true) f)))
  newMid : ∀ (r : MarkReq) (f' : Nat), x.1 = .mark r (.atPut true) f' →
    (∃ f, t = .mark r .atCall f) ∧ stGet cfg.expInclusive st now r.key = none ∧ cfg.mark r.kind ≠ .putIfAbsent

theorem stepThread_msum (cfg : Cfg) (st : Store) (now : Nat) (lock : Option Nat) (i : Nat) (t : Thread) :
    MStepSum cfg st now t (stepThread cfg st now lock i t) := by
  cases t with
  | burn r pc f =>
    have hs := stepBurn_store cfg st now lock i r pc
    refine ⟨?_, ?_, ?_, ?_, ?_⟩
    · simp only [stepThread, Thread.fin]; split <;> simp
    · intro k m hk
      left
      simp only [stepThread]
      rcases hs with hs | hs <;> rw [hs]
      have hkk : k ≠ r.key := by intro h; rw [h] at hk; simp [BurnReq.key] at hk
      exact stFind_erase_ne _ _ _ hkk
    · intro r' o f' h; cases h
    · intro r' f' h; simp [stepThread] at h
    · intro r' f' h; simp [stepThread] at h
  | mark r pc f =>
    have hs := stepMark_store cfg st now lock i r pc
    refine ⟨?_, ?_, ?_, ?_, ?_⟩
    · simp only [stepThread, Thread.fin]; split <;> simp
    · intro k m hk
      simp only [stepThread]
      rcases hs with hs | hs <;> rw [hs]
      · exact Or.inl rfl
      · by_cases hkk : k = r.key
        · right
          refine ⟨hkk, ?_⟩
          rw [hkk] at hk ⊢
          simp [MarkReq.key] at hk
          rw [stFind_put_self, hk]
        · left; exact stFind_put_ne _ _ _ _ hkk
    · intro r' o f' h
      injection h with h1 h2 h3
      subst h1; subst h2; subst h3
      simp [stepThread, stepMark_done]
    · intro r' f' h
      simp only [stepThread] at h
      injection h with h1 h2 h3
      subst h1
      by_cases hpc : pc = .done .ok
      · left
        subst hpc
        simp [stepMark_done] at h3
        rw [h3]
      · right
        have hn := stepMark_newWinner cfg st now lock i r pc hpc h2
        have hne : (stepMark cfg st now lock i r pc).1 ≠ pc := by rw [h2]; exact fun h => hpc h.symm
        refine ⟨?_, ?_, ?_, ?_⟩
        · simp [hne] at h3; exact h3.symm
        · simp only [stepThread]; rw [hn.1]; exact stFind_put_self _ _ _
        · intro hl; simp [Thread.inCrit, hl]; exact stepMark_newWinner_crit cfg st now lock i r pc hpc h2 hl
        · rcases hn.2 with ⟨h4, h5⟩ | h4
          · exact Or.inl ⟨f, by rw [h4], h5⟩
          · exact Or.inr ⟨f, by rw [h4]⟩
    · intro r' f' h
      simp only [stepThread] at h
      injection h with h1 h2 h3
      subst h1
      have := stepMark_newMid cfg st now lock i r pc h2
      exact ⟨⟨f, by rw [stepMark_newMid' cfg st now lock i r pc h2]⟩, this.1, this.2⟩


structure MInv (cfg : Cfg) (w : World) : Prop where
  lockd : ∀ (i : Nat) (t : Thread), w.ths[i]? = some t → t.inCrit cfg = true → w.lock = some i
  time : ∀ (i : Nat) (t : Thread), w.ths[i]? = some t → t.fin ≤ w.now
  kept : ∀ (i : Nat) (r : MarkReq) (f : Nat), w.ths[i]? = some (Thread.mark r (.done .ok) f) →
    ∃ e, stFind w.store r.key = some e ∧ f + cfg.ttl (.mark r.kind) ≤ e.exp
  sep : ∀ (i j : Nat) (ri rj : MarkReq) (fi fj : Nat), i ≠ j →
    w.ths[i]? = some (Thread.mark ri (.done .ok) fi) → w.ths[j]? = some (Thread.mark rj (.done .ok) fj) →
    ri.key = rj.key → fi + cfg.ttl (.mark ri.kind) ≤ fj ∨ fj + cfg.ttl (.mark ri.kind) ≤ fi
  mid : ∀ (j : Nat) (r : MarkReq) (f : Nat), w.ths[j]? = some (Thread.mark r (.atPut true) f) →
    cfg.markLocks r.kind = true ∧
    ∀ (i : Nat) (ri : MarkReq) (fi : Nat), w.ths[i]? = some (Thread.mark ri (.done .ok) fi) → ri.key = r.key →
      fi + cfg.ttl (.mark r.kind) ≤ w.now

theorem markKey_kind (a b : MarkReq) (h : a.key = b.key) : a.kind = b.kind := by
  simp [MarkReq.key] at h; exact h.1

theorem MInv_stepW (cfg : Cfg) (ha : AtomicMark cfg) (w : World) (i : Nat) (inv : MInv cfg w) : MInv cfg (stepW cfg w i) := by
  unfold stepW
  cases hi : w.ths[i]? with
  | none => exact inv
  | some t =>
    simp only
    have S := stepThread_sum cfg w.store w.now w.lock i t (inv.lockd i t hi)
    have M := stepThread_msum cfg w.store w.now w.lock i t
    generalize stepThread cfg w.store w.now w.lock i t = x at S M
    have old : ∀ (j : Nat) (tj : Thread), (w.ths.set i x.1)[j]? = some tj → (j = i ∧ tj = x.1) ∨ (j ≠ i ∧ w.ths[j]? = some tj) :=
      fun j tj h => getElem?_set_cases _ _ _ _ _ h
    -- a winner of the new world is an old winner (same finishing time) or thread i winning right now
    have winOld : ∀ (j : Nat) (r : MarkReq) (f : Nat), (w.ths.set i x.1)[j]? = some (Thread.mark r (.done .ok) f) →
        w.ths[j]? = some (Thread.mark r (.done .ok) f) ∨
        (j = i ∧ x.1 = Thread.mark r (.done .ok) f ∧ f = w.now ∧ stFind x.2.1 r.key = some (markEntry cfg w.now r.kind) ∧
          (cfg.markLocks r.kind = true → t.inCrit cfg = true) ∧
          ((∃ f0, t = .mark r .atCall f0 ∧ stGet cfg.expInclusive w.store w.now r.key = none) ∨ (∃ f0, t = .mark r (.atPut true) f0))) := by
      intro j r f h
      rcases old j _ h with ⟨hj, he⟩ | ⟨hj, he⟩
      · rcases M.newWinner r f he.symm with h1 | ⟨h1, h2, h3, h4⟩
        · left; rw [hj, hi, h1]
        · right; exact ⟨hj, he.symm, h1, h2, h3, h4⟩
      · exact Or.inl he
    -- the entry of an old winner survives the step, with an expiry that still covers it
    have keepOld : ∀ (j : Nat) (r : MarkReq) (f : Nat), w.ths[j]? = some (Thread.mark r (.done .ok) f) →
        ∃ e, stFind x.2.1 r.key = some e ∧ f + cfg.ttl (.mark r.kind) ≤ e.exp := by
      intro j r f h
      obtain ⟨e, he, hle⟩ := inv.kept j r f h
      rcases M.markKeys r.key r.kind rfl with h1 | ⟨_, h1⟩
      · exact ⟨e, by rw [h1]; exact he, hle⟩
      · refine ⟨_, h1, ?_⟩
        have := inv.time j _ h
        simp [Thread.fin] at this
        simp [markEntry]; omega
    -- an old winner of the key thread i wins right now finished at least a TTL ago
    have fresh : ∀ (j : Nat) (r : MarkReq) (f : Nat) (ri : MarkReq), w.ths[j]? = some (Thread.mark r (.done .ok) f) → r.key = ri.key →
        ((∃ f0, t = .mark ri .atCall f0 ∧ stGet cfg.expInclusive w.store w.now ri.key = none) ∨ (∃ f0, t = .mark ri (.atPut true) f0)) →
        f + cfg.ttl (.mark r.kind) ≤ w.now := by
      intro j r f ri h hk hc
      rcases hc with ⟨f0, _, hg⟩ | ⟨f0, ht⟩
      · obtain ⟨e, he, hle⟩ := inv.kept j r f h
        have := stGet_none_find_some _ _ _ _ e hg (by rw [← hk]; exact he)
        omega
      · rw [ht] at hi
        have := (inv.mid i ri f0 hi).2 j r f h hk
        rw [markKey_kind _ _ hk]; exact this
    refine ⟨?_, ?_, ?_, ?_, ?_⟩
    · intro j tj h hc
      rcases old j tj h with ⟨hj, he⟩ | ⟨hj, he⟩
      · subst hj; subst he; exact S.lock1 hc
      · have hlj := inv.lockd j tj he hc
        rcases S.lock2 with h2 | ⟨h2, _⟩ | ⟨h2, _⟩
        · rw [h2]; exact hlj
        · rw [h2] at hlj; cases hlj
        · rw [h2] at hlj; injection hlj with hh; exact absurd hh.symm hj
    · intro j tj h
      rcases old j tj h with ⟨hj, he⟩ | ⟨hj, he⟩
      · subst he
        have := inv.time i t hi
        rcases M.fin with h1 | h1 <;> rw [h1] <;> simp <;> omega
      · exact inv.time j tj he
    · intro j r f h
      rcases winOld j r f h with h1 | ⟨_, _, h2, h3, _⟩
      · exact keepOld j r f h1
      · exact ⟨_, h3, by simp [markEntry, h2]⟩
    · intro a b ra rb fa fb hab hta htb hk
      rcases winOld a ra fa hta with h1 | ⟨hja, _, hfa, _, _, hca⟩ <;>
      rcases winOld b rb fb htb with h2 | ⟨hjb, _, hfb, _, _, hcb⟩
      · exact inv.sep a b ra rb fa fb hab h1 h2 hk
      · left
        have := fresh a ra fa rb h1 hk hcb
        rw [hfb]; exact this
      · right
        have := fresh b rb fb ra h2 hk.symm hca
        rw [hfa, markKey_kind _ _ hk]; exact this
      · exact absurd (hja.trans hjb.symm) hab
    · intro a r f h
      rcases old a _ h with ⟨hj, he⟩ | ⟨hj, he⟩
      · -- thread i has just done its Get, which missed
        obtain ⟨⟨f0, ht⟩, hg, hnp⟩ := M.newMid r f he.symm
        have hl : cfg.markLocks r.kind = true := by
          have := ha r.kind
          cases hm : cfg.mark r.kind <;> simp_all [Cfg.markLocks]
        refine ⟨hl, ?_⟩
        intro b rb fb hb hkb
        rcases winOld b rb fb hb with h1 | ⟨hjb, hx, _⟩
        · exact fresh b rb fb r h1 hkb (Or.inl ⟨f0, ht, hg⟩) |> fun h' => by rw [← markKey_kind _ _ hkb]; exact h'
        · rw [← he] at hx; cases hx
      · obtain ⟨hl, hm⟩ := inv.mid a r f he
        refine ⟨hl, ?_⟩
        intro b rb fb hb hkb
        rcases winOld b rb fb hb with h1 | ⟨hjb, _, _, _, hcrit, _⟩
        · exact hm b rb fb h1 hkb
        · -- thread i wins while thread a ≠ i sits between Get and Put under the lock: both would hold it
          have hci := hcrit (by rw [markKey_kind _ _ hkb]; exact hl)
          have hla := inv.lockd a _ he (by simp [Thread.inCrit, hl, MarkPc.inCrit])
          have hli := inv.lockd i t hi hci
          rw [hla] at hli; injection hli with hh
          exact absurd hh hj

theorem MInv_applyEv (cfg : Cfg) (ha : AtomicMark cfg) (w : World) (ev : Ev) (inv : MInv cfg w) : MInv cfg (applyEv cfg w ev) := by
  cases ev with
  | step i => exact MInv_stepW cfg ha w i inv
  | tick dt =>
    refine ⟨inv.lockd, ?_, inv.kept, inv.sep, ?_⟩
    · intro i t h; have := inv.time i t h; simp [applyEv] at *; omega
    · intro j r f h
      obtain ⟨h1, h2⟩ := inv.mid j r f h
      refine ⟨h1, ?_⟩
      intro i ri fi hi hk
      have := h2 i ri fi hi hk
      simp [applyEv] at *; omega

theorem MInv_run (cfg : Cfg) (ha : AtomicMark cfg) (s : List Ev) (w : World) (inv : MInv cfg w) : MInv cfg (run cfg s w) := by
  induction s generalizing w with
  | nil => exact inv
  | cons ev s ih => exact ih _ (MInv_applyEv cfg ha w ev inv)

theorem MInv_init (cfg : Cfg) (st : Store) (reqs : List Req) : MInv cfg (init st reqs) := by
  refine ⟨?_, ?_, ?_, ?_, ?_⟩
  · intro i t h hc
    obtain ⟨r, hr⟩ := init_thread st reqs i t h
    subst hr; cases r <;> simp [Req.thread, Thread.inCrit, BurnPc.inCrit, MarkPc.inCrit] at hc
  · intro i t h
    obtain ⟨r, hr⟩ := init_thread st reqs i t h
    subst hr; cases r <;> simp [Req.thread, Thread.fin, init]
  · intro i r f h
    obtain ⟨r', hr⟩ := init_thread st reqs i _ h
    cases r' <;> simp [Req.thread] at hr
  · intro i j ri rj fi fj _ h
    obtain ⟨r', hr⟩ := init_thread st reqs i _ h
    cases r' <;> simp [Req.thread] at hr
  · intro i r f h
    obtain ⟨r', hr⟩ := init_thread st reqs i _ h
    cases r' <;> simp [Req.thread] at hr


/-! ### dead secrets stay dead -/

theorem alive_mono (incl : Bool) (now dt exp : Nat) (h : alive incl (now + dt) exp = true) : alive incl now exp = true := by
  simp [alive] at *
  rcases h with h | h
  · left; omega
  · by_cases hd : dt = 0
    · right; exact ⟨h.1, by omega⟩
    · left; omega

/-- burn keys: a step leaves the entry as it is or removes it -/
theorem stepThread_burnKey (cfg : Cfg) (st : Store) (now : Nat) (lock : Option Nat) (i : Nat) (t : Thread) (k : Key) (b : BurnKind)
    (hk : k.ns = .burn b) :
    stFind (stepThread cfg st now lock i t).2.1 k = stFind st k ∨ stFind (stepThread cfg st now lock i t).2.1 k = none := by
  cases t with
  | burn r pc f =>
    simp only [stepThread]
    rcases stepBurn_store cfg st now lock i r pc with hs | hs <;> rw [hs]
    · exact Or.inl rfl
    · by_cases hkk : k = r.key
      · right; rw [hkk]; exact stFind_erase_self _ _
      · left; exact stFind_erase_ne _ _ _ hkk
  | mark r pc f =>
    simp only [stepThread]
    rcases stepMark_store cfg st now lock i r pc with hs | hs <;> rw [hs]
    · exact Or.inl rfl
    · left
      have hkk : k ≠ r.key := by intro h; rw [h] at hk; simp [MarkReq.key] at hk
      exact stFind_put_ne _ _ _ _ hkk

theorem stGet_none_of_find_eq (incl : Bool) (s s' : Store) (now : Nat) (k : Key)
    (h : stFind s' k = stFind s k ∨ stFind s' k = none) (hd : stGet incl s now k = none) : stGet incl s' now k = none := by
  rcases h with h | h
  · simp only [stGet] at hd ⊢; rw [h]; exact hd
  · exact stGet_none_of_find_none _ _ _ _ h

/-- the thread has not (yet) obtained the value and is not between the Get and the Delete of GetAndDelete -/
def Thread.idle : Thread → Bool
  | .burn _ (.atDel _) _ => false
  | t => !t.took

theorem burn_idle_of (r : BurnReq) (pc : BurnPc) (f : Nat) (h1 : pc.took = false) (h2 : ∀ v, pc ≠ .atDel v) :
    (Thread.burn r pc f).idle = true := by
  cases pc <;> simp_all [Thread.idle, Thread.took, BurnPc.took]

theorem stepBurn_idle_dead (cfg : Cfg) (st : Store) (now : Nat) (lock : Option Nat) (i : Nat) (r : BurnReq) (pc : BurnPc) (f : Nat)
    (hd : stGet cfg.expInclusive st now r.key = none) (hi : (Thread.burn r pc f).idle = true) :
    (stepThread cfg st now lock i (Thread.burn r pc f)).1.idle = true := by
  have ha : (afterGad cfg r none).took = false := by rw [afterGad_took]; rfl
  have hb : ∀ v, afterGad cfg r none ≠ .atDel v := fun v => afterGad_ne_atDel cfg r none v
  have hft := finishBurn_took r
  have hfd : ∀ o v, finishBurn r o ≠ .atDel v := finishBurn_ne_atDel r
  cases pc <;> simp only [stepThread, stepBurn, hd] <;> (repeat' split) <;>
    (apply burn_idle_of <;> simp_all [Thread.idle, Thread.took, BurnPc.took, Outcome.took])

structure DInv (cfg : Cfg) (k : Key) (i : Nat) (w : World) : Prop where
  dead : stGet cfg.expInclusive w.store w.now k = none
  idle : ∀ t, w.ths[i]? = some t → t.key = k ∧ t.idle = true

theorem stepThread_key (cfg : Cfg) (st : Store) (now : Nat) (lock : Option Nat) (i : Nat) (t : Thread) :
    (stepThread cfg st now lock i t).1.key = t.key := by cases t <;> rfl

theorem DInv_applyEv (cfg : Cfg) (k : Key) (b : BurnKind) (hk : k.ns = .burn b) (i : Nat) (w : World) (ev : Ev)
    (inv : DInv cfg k i w) : DInv cfg k i (applyEv cfg w ev) := by
  cases ev with
  | tick dt =>
    refine ⟨?_, inv.idle⟩
    have := inv.dead
    simp only [applyEv, stGet] at this ⊢
    split
    · rename_i e he
      rw [he] at this
      simp only at this
      by_cases hal : alive cfg.expInclusive (w.now + dt) e.exp = true
      · have := alive_mono _ _ _ _ hal
        simp_all
      · simp [hal]
    · rfl
  | step j =>
    simp only [applyEv, stepW]
    cases hj : w.ths[j]? with
    | none => exact inv
    | some t =>
      simp only
      refine ⟨stGet_none_of_find_eq _ _ _ _ _ (stepThread_burnKey cfg w.store w.now w.lock j t k b hk) inv.dead, ?_⟩
      intro t' ht'
      rcases getElem?_set_cases _ _ _ _ _ ht' with ⟨hij, he⟩ | ⟨hij, he⟩
      · subst hij
        obtain ⟨h1, h2⟩ := inv.idle t hj
        subst he
        refine ⟨by rw [stepThread_key]; exact h1, ?_⟩
        cases t with
        | burn r pc f =>
          exact stepBurn_idle_dead cfg w.store w.now w.lock i r pc f (by rw [← h1] at inv; exact inv.dead) h2
        | mark r pc f => rw [← h1] at hk; simp [Thread.key, MarkReq.key] at hk
      · exact inv.idle t' he

theorem DInv_run (cfg : Cfg) (k : Key) (b : BurnKind) (hk : k.ns = .burn b) (i : Nat) (s : List Ev) (w : World)
    (inv : DInv cfg k i w) : DInv cfg k i (run cfg s w) := by
  induction s generalizing w with
  | nil => exact inv
  | cons ev s ih => exact ih _ (DInv_applyEv cfg k b hk i w ev inv)

theorem idle_not_took (t : Thread) (h : t.idle = true) : t.took = false := by
  cases t with
  | burn r pc f => cases pc <;> simp_all [Thread.idle, Thread.took]
  | mark r pc f => rfl

/-! ### an authorization code is burned by every finished redemption attempt -/

theorem stepBurn_code_done (cfg : Cfg) (st : Store) (now : Nat) (lock : Option Nat) (i : Nat) (r : BurnReq) (pc : BurnPc) (o : Outcome)
    (hc : r.kind = .code) (hf : r.failDel = false) (h : (stepBurn cfg st now lock i r pc).1 = .done o) :
    pc = .done o ∨ (stepBurn cfg st now lock i r pc).2.1 = stErase st r.key := by
  have hfb : ∀ o', finishBurn r o' ≠ .done o := by intro o'; simp [finishBurn, hc]
  have ha : ∀ v, afterGad cfg r v ≠ .done o := by
    intro v; unfold afterGad; split
    · simp
    · exact hfb _
  cases pc <;> simp only [stepBurn] at h ⊢ <;> (repeat' split at h) <;> simp_all

/-- every finished authorization-code request (whose Deletes reached the store) has left the store without the code -/
def CInv (w : World) : Prop :=
  ∀ (j : Nat) (r : BurnReq) (o : Outcome) (f : Nat), w.ths[j]? = some (Thread.burn r (.done o) f) → r.kind = .code →
    r.failDel = false → stFind w.store r.key = none

theorem CInv_applyEv (cfg : Cfg) (w : World) (ev : Ev) (inv : CInv w) : CInv (applyEv cfg w ev) := by
  cases ev with
  | tick dt => exact inv
  | step i =>
    simp only [applyEv, stepW]
    cases hi : w.ths[i]? with
    | none => exact inv
    | some t =>
      simp only
      intro j r o f h hc hf
      have hkeep : stFind w.store r.key = none → stFind (stepThread cfg w.store w.now w.lock i t).2.1 r.key = none := by
        intro hn
        rcases stepThread_burnKey cfg w.store w.now w.lock i t r.key r.kind rfl with h1 | h1
        · rw [h1]; exact hn
        · exact h1
      rcases getElem?_set_cases _ _ _ _ _ h with ⟨hji, he⟩ | ⟨hji, he⟩
      · cases t with
        | mark r' pc' f' => simp [stepThread] at he
        | burn r' pc' f' =>
          simp only [stepThread] at he ⊢
          injection he with h1 h2 h3
          subst h1
          rcases stepBurn_code_done cfg w.store w.now w.lock i r pc' o hc hf h2.symm with h4 | h4
          · subst h4
            exact hkeep (inv i r o f' (by rw [hi]) hc hf)
          · rw [h4]; exact stFind_erase_self _ _
      · exact hkeep (inv j r o f he hc hf)

theorem CInv_run (cfg : Cfg) (s : List Ev) (w : World) (inv : CInv w) : CInv (run cfg s w) := by
  induction s generalizing w with
  | nil => exact inv
  | cons ev s ih => exact ih _ (CInv_applyEv cfg w ev inv)

theorem CInv_init (st : Store) (reqs : List Req) : CInv (init st reqs) := by
  intro j r o f h
  obtain ⟨r', hr⟩ := init_thread st reqs j _ h
  cases r' <;> simp [Req.thread] at hr


/-! ### schedules that do not separate the Get and the Delete of one GetAndDelete -/

def Thread.midBurn : Thread → Bool
  | .burn _ (.atDel _) _ => true
  | _ => false

/-- whenever a request is between the Get and the Delete of GetAndDelete, the next event is its own step -/
def NoSplit (cfg : Cfg) : World → List Ev → Prop
  | _, [] => True
  | w, ev :: rest =>
    (∀ (j : Nat) (t : Thread), w.ths[j]? = some t → t.midBurn = true → ev = .step j) ∧ NoSplit cfg (applyEv cfg w ev) rest

structure PInv (cfg : Cfg) (w : World) : Prop where
  lockd : ∀ (i : Nat) (t : Thread), w.ths[i]? = some t → t.inCrit cfg = true → w.lock = some i
  gone : ∀ (i : Nat) (t : Thread), w.ths[i]? = some t → t.took = true → stFind w.store t.key = none
  uniq : ∀ (i j : Nat) (ti tj : Thread), w.ths[i]? = some ti → w.ths[j]? = some tj → ti.key = tj.key →
    ti.took = true → tj.took = true → i = j
  mid : ∀ (i : Nat) (r : BurnReq) (v : String) (f : Nat), w.ths[i]? = some (Thread.burn r (.atDel v) f) →
    ∀ (j : Nat) (tj : Thread), w.ths[j]? = some tj → tj.key = r.key → tj.took = false

theorem PInv_stepW (cfg : Cfg) (w : World) (i : Nat)
    (hsolo : ∀ (j : Nat) (t : Thread), w.ths[j]? = some t → t.midBurn = true → j = i)
    (inv : PInv cfg w) : PInv cfg (stepW cfg w i) := by
  unfold stepW
  cases hi : w.ths[i]? with
  | none => exact inv
  | some t =>
    simp only
    have S := stepThread_sum cfg w.store w.now w.lock i t (inv.lockd i t hi)
    generalize stepThread cfg w.store w.now w.lock i t = x at S
    have old : ∀ (j : Nat) (tj : Thread), (w.ths.set i x.1)[j]? = some tj → (j = i ∧ tj = x.1) ∨ (j ≠ i ∧ w.ths[j]? = some tj) :=
      fun j tj h => getElem?_set_cases _ _ _ _ _ h
    have tookOld : ∀ (j : Nat) (tj : Thread), (w.ths.set i x.1)[j]? = some tj → tj.took = true →
        (∃ tj0, w.ths[j]? = some tj0 ∧ tj0.key = tj.key ∧ tj0.took = true) ∨ (j = i ∧ tj = x.1 ∧ t.took = false) := by
      intro j tj h ht
      rcases old j tj h with ⟨hj, he⟩ | ⟨hj, he⟩
      · subst hj; subst he
        cases htt : t.took
        · exact Or.inr ⟨rfl, rfl, rfl⟩
        · exact Or.inl ⟨t, hi, S.key.symm, htt⟩
      · exact Or.inl ⟨tj, he, rfl, ht⟩
    refine ⟨?_, ?_, ?_, ?_⟩
    · intro j tj h hc
      rcases old j tj h with ⟨hj, he⟩ | ⟨hj, he⟩
      · subst hj; subst he; exact S.lock1 hc
      · have hlj := inv.lockd j tj he hc
        rcases S.lock2 with h2 | ⟨h2, _⟩ | ⟨h2, _⟩
        · rw [h2]; exact hlj
        · rw [h2] at hlj; cases hlj
        · rw [h2] at hlj; injection hlj with hh; exact absurd hh.symm hj
    · intro j tj h ht
      obtain ⟨b, hb⟩ := took_burn tj ht
      rcases tookOld j tj h ht with ⟨tj0, h0, hk, ht0⟩ | ⟨hj, he, hnt⟩
      · have := inv.gone j tj0 h0 ht0
        rw [hk] at this
        exact S.burnKeys _ b hb this
      · subst he
        have := (S.newTaker hnt ht).1
        rw [S.key]; exact this
    · intro a b ta tb hta htb hk hat hbt
      have fresh : ∀ (j : Nat) (tj : Thread), w.ths[j]? = some tj → tj.key = t.key → tj.took = true → t.took = false → x.1.took = true → j = i := by
        intro j tj hj hkj htj hnt hxt
        obtain ⟨_, _, h3⟩ := S.newTaker hnt hxt
        rcases h3 with h3 | ⟨⟨r, v, f, hr⟩, _⟩
        · obtain ⟨e, he⟩ := stGet_isSome_find _ _ _ _ h3
          have := inv.gone j tj hj htj
          rw [hkj, he] at this; cases this
        · rw [hr] at hi
          have := inv.mid i r v f hi j tj hj (by rw [hkj, hr]; rfl)
          rw [this] at htj; cases htj
      rcases tookOld a ta hta hat with ⟨ta0, ha0, hka, hta0⟩ | ⟨hja, hea, hna⟩ <;>
      rcases tookOld b tb htb hbt with ⟨tb0, hb0, hkb, htb0⟩ | ⟨hjb, heb, hnb⟩
      · exact inv.uniq a b ta0 tb0 ha0 hb0 (by rw [hka, hkb, hk]) hta0 htb0
      · subst heb
        rw [hjb]
        exact fresh a ta0 ha0 (by rw [hka, hk, S.key]) hta0 hnb hbt
      · subst hea
        rw [hja]
        exact (fresh b tb0 hb0 (by rw [hkb, ← hk, S.key]) htb0 hna hat).symm
      · rw [hja, hjb]
    · intro a r v f h j tj hjt hkj
      rcases old a _ h with ⟨hj, he⟩ | ⟨hj, he⟩
      · obtain ⟨hg, _⟩ := S.newMid r v f he.symm
        cases htt : tj.took with
        | false => rfl
        | true =>
          obtain ⟨e, he', _⟩ := stGet_some _ _ _ _ _ hg
          rcases tookOld j tj hjt htt with ⟨tj0, h0, hk0, ht0⟩ | ⟨hji, hei, _⟩
          · have := inv.gone j tj0 h0 ht0
            rw [hk0, hkj, he'] at this; cases this
          · rw [hei, ← he] at htt; simp [Thread.took] at htt
      · exact absurd (hsolo a _ he rfl) hj

theorem PInv_run (cfg : Cfg) (s : List Ev) (w : World) (hs : NoSplit cfg w s) (inv : PInv cfg w) : PInv cfg (run cfg s w) := by
  induction s generalizing w with
  | nil => exact inv
  | cons ev s ih =>
    obtain ⟨h1, h2⟩ := hs
    refine ih _ h2 ?_
    cases ev with
    | tick dt => exact ⟨inv.lockd, inv.gone, inv.uniq, inv.mid⟩
    | step i =>
      refine PInv_stepW cfg w i ?_ inv
      intro j t hj hm
      have := h1 j t hj hm
      injection this with h; exact h.symm

theorem PInv_init (cfg : Cfg) (st : Store) (reqs : List Req) : PInv cfg (init st reqs) := by
  have B := BInv_init cfg st reqs
  refine ⟨B.lockd, B.gone, B.uniq, ?_⟩
  intro i r v f h
  obtain ⟨r', hr⟩ := init_thread st reqs i _ h
  cases r' <;> simp [Req.thread] at hr


/-! ### schedules that do not separate the Get and the Put of one mark consumer -/

def Thread.midMark : Thread → Bool
  | .mark _ (.atPut true) _ => true
  | _ => false

def NoSplitMark (cfg : Cfg) : World → List Ev → Prop
  | _, [] => True
  | w, ev :: rest =>
    (∀ (j : Nat) (t : Thread), w.ths[j]? = some t → t.midMark = true → ev = .step j) ∧ NoSplitMark cfg (applyEv cfg w ev) rest

structure QInv (cfg : Cfg) (w : World) : Prop where
  lockd : ∀ (i : Nat) (t : Thread), w.ths[i]? = some t → t.inCrit cfg = true → w.lock = some i
  time : ∀ (i : Nat) (t : Thread), w.ths[i]? = some t → t.fin ≤ w.now
  kept : ∀ (i : Nat) (r : MarkReq) (f : Nat), w.ths[i]? = some (Thread.mark r (.done .ok) f) →
    ∃ e, stFind w.store r.key = some e ∧ f + cfg.ttl (.mark r.kind) ≤ e.exp
  sep : ∀ (i j : Nat) (ri rj : MarkReq) (fi fj : Nat), i ≠ j →
    w.ths[i]? = some (Thread.mark ri (.done .ok) fi) → w.ths[j]? = some (Thread.mark rj (.done .ok) fj) →
    ri.key = rj.key → fi + cfg.ttl (.mark ri.kind) ≤ fj ∨ fj + cfg.ttl (.mark ri.kind) ≤ fi
  mid : ∀ (j : Nat) (r : MarkReq) (f : Nat), w.ths[j]? = some (Thread.mark r (.atPut true) f) →
    ∀ (i : Nat) (ri : MarkReq) (fi : Nat), w.ths[i]? = some (Thread.mark ri (.done .ok) fi) → ri.key = r.key →
      fi + cfg.ttl (.mark r.kind) ≤ w.now

theorem QInv_stepW (cfg : Cfg) (w : World) (i : Nat)
    (hsolo : ∀ (j : Nat) (t : Thread), w.ths[j]? = some t → t.midMark = true → j = i)
    (inv : QInv cfg w) : QInv cfg (stepW cfg w i) := by
  unfold stepW
  cases hi : w.ths[i]? with
  | none => exact inv
  | some t =>
    simp only
    have S := stepThread_sum cfg w.store w.now w.lock i t (inv.lockd i t hi)
    have M := stepThread_msum cfg w.store w.now w.lock i t
    generalize stepThread cfg w.store w.now w.lock i t = x at S M
    have old : ∀ (j : Nat) (tj : Thread), (w.ths.set i x.1)[j]? = some tj → (j = i ∧ tj = x.1) ∨ (j ≠ i ∧ w.ths[j]? = some tj) :=
      fun j tj h => getElem?_set_cases _ _ _ _ _ h
    have winOld : ∀ (j : Nat) (r : MarkReq) (f : Nat), (w.ths.set i x.1)[j]? = some (Thread.mark r (.done .ok) f) →
        w.ths[j]? = some (Thread.mark r (.done .ok) f) ∨
        (j = i ∧ x.1 = Thread.mark r (.done .ok) f ∧ f = w.now ∧ stFind x.2.1 r.key = some (markEntry cfg w.now r.kind) ∧
          ((∃ f0, t = .mark r .atCall f0 ∧ stGet cfg.expInclusive w.store w.now r.key = none) ∨ (∃ f0, t = .mark r (.atPut true) f0))) := by
      intro j r f h
      rcases old j _ h with ⟨hj, he⟩ | ⟨hj, he⟩
      · rcases M.newWinner r f he.symm with h1 | ⟨h1, h2, _, h4⟩
        · left; rw [hj, hi, h1]
        · right; exact ⟨hj, he.symm, h1, h2, h4⟩
      · exact Or.inl he
    have keepOld : ∀ (j : Nat) (r : MarkReq) (f : Nat), w.ths[j]? = some (Thread.mark r (.done .ok) f) →
        ∃ e, stFind x.2.1 r.key = some e ∧ f + cfg.ttl (.mark r.kind) ≤ e.exp := by
      intro j r f h
      obtain ⟨e, he, hle⟩ := inv.kept j r f h
      rcases M.markKeys r.key r.kind rfl with h1 | ⟨_, h1⟩
      · exact ⟨e, by rw [h1]; exact he, hle⟩
      · refine ⟨_, h1, ?_⟩
        have := inv.time j _ h
        simp [Thread.fin] at this
        simp [markEntry]; omega
    have fresh : ∀ (j : Nat) (r : MarkReq) (f : Nat) (ri : MarkReq), w.ths[j]? = some (Thread.mark r (.done .ok) f) → r.key = ri.key →
        ((∃ f0, t = .mark ri .atCall f0 ∧ stGet cfg.expInclusive w.store w.now ri.key = none) ∨ (∃ f0, t = .mark ri (.atPut true) f0)) →
        f + cfg.ttl (.mark r.kind) ≤ w.now := by
      intro j r f ri h hk hc
      rcases hc with ⟨f0, _, hg⟩ | ⟨f0, ht⟩
      · obtain ⟨e, he, hle⟩ := inv.kept j r f h
        have := stGet_none_find_some _ _ _ _ e hg (by rw [← hk]; exact he)
        omega
      · rw [ht] at hi
        have := inv.mid i ri f0 hi j r f h hk
        rw [markKey_kind _ _ hk]; exact this
    refine ⟨?_, ?_, ?_, ?_, ?_⟩
    · intro j tj h hc
      rcases old j tj h with ⟨hj, he⟩ | ⟨hj, he⟩
      · subst hj; subst he; exact S.lock1 hc
      · have hlj := inv.lockd j tj he hc
        rcases S.lock2 with h2 | ⟨h2, _⟩ | ⟨h2, _⟩
        · rw [h2]; exact hlj
        · rw [h2] at hlj; cases hlj
        · rw [h2] at hlj; injection hlj with hh; exact absurd hh.symm hj
    · intro j tj h
      rcases old j tj h with ⟨hj, he⟩ | ⟨hj, he⟩
      · subst he
        have := inv.time i t hi
        rcases M.fin with h1 | h1 <;> rw [h1] <;> simp <;> omega
      · exact inv.time j tj he
    · intro j r f h
      rcases winOld j r f h with h1 | ⟨_, _, h2, h3, _⟩
      · exact keepOld j r f h1
      · exact ⟨_, h3, by simp [markEntry, h2]⟩
    · intro a b ra rb fa fb hab hta htb hk
      rcases winOld a ra fa hta with h1 | ⟨hja, _, hfa, _, hca⟩ <;>
      rcases winOld b rb fb htb with h2 | ⟨hjb, _, hfb, _, hcb⟩
      · exact inv.sep a b ra rb fa fb hab h1 h2 hk
      · left
        have := fresh a ra fa rb h1 hk hcb
        rw [hfb]; exact this
      · right
        have := fresh b rb fb ra h2 hk.symm hca
        rw [hfa, markKey_kind _ _ hk]; exact this
      · exact absurd (hja.trans hjb.symm) hab
    · intro a r f h b rb fb hb hkb
      rcases old a _ h with ⟨hj, he⟩ | ⟨hj, he⟩
      · obtain ⟨⟨f0, ht⟩, hg, _⟩ := M.newMid r f he.symm
        rcases winOld b rb fb hb with h1 | ⟨hjb, hx, _⟩
        · have := fresh b rb fb r h1 hkb (Or.inl ⟨f0, ht, hg⟩)
          rw [← markKey_kind _ _ hkb]; exact this
        · rw [← he] at hx; cases hx
      · exact absurd (hsolo a _ he rfl) hj

theorem QInv_run (cfg : Cfg) (s : List Ev) (w : World) (hs : NoSplitMark cfg w s) (inv : QInv cfg w) : QInv cfg (run cfg s w) := by
  induction s generalizing w with
  | nil => exact inv
  | cons ev s ih =>
    obtain ⟨h1, h2⟩ := hs
    refine ih _ h2 ?_
    cases ev with
    | tick dt =>
      -- a tick is only allowed while nobody is between Get and Put
      refine ⟨inv.lockd, ?_, inv.kept, inv.sep, ?_⟩
      · intro i t h; have := inv.time i t h; simp [applyEv] at *; omega
      · intro j r f h
        have := h1 j _ h rfl
        cases this
    | step i =>
      refine QInv_stepW cfg w i ?_ inv
      intro j t hj hm
      have := h1 j t hj hm
      injection this with h; exact h.symm

theorem QInv_init (cfg : Cfg) (st : Store) (reqs : List Req) : QInv cfg (init st reqs) := by
  have M := MInv_init cfg st reqs
  refine ⟨M.lockd, M.time, M.kept, M.sep, ?_⟩
  intro i r f h
  obtain ⟨r', hr⟩ := init_thread st reqs i _ h
  cases r' <;> simp [Req.thread] at hr


/-- executable form of the head condition of `NoSplit` -/
def midOk (w : World) (ev : Ev) : Bool :=
  (List.range w.ths.length).all (fun j =>
    match w.ths[j]? with
    | some t => !t.midBurn || decide (ev = .step j)
    | none => true)

def noSplitB (cfg : Cfg) : World → List Ev → Bool
  | _, [] => true
  | w, ev :: rest => midOk w ev && noSplitB cfg (applyEv cfg w ev) rest

theorem midOk_iff (w : World) (ev : Ev) :
    midOk w ev = true ↔ ∀ (j : Nat) (t : Thread), w.ths[j]? = some t → t.midBurn = true → ev = .step j := by
  unfold midOk
  rw [List.all_eq_true]
  constructor
  · intro h j t hj hm
    have hlt : j < w.ths.length := by
      rcases Nat.lt_or_ge j w.ths.length with h' | h'
      · exact h'
      · rw [List.getElem?_eq_none h'] at hj; cases hj
    have := h j (List.mem_range.mpr hlt)
    rw [hj] at this
    simp [hm] at this
    exact this
  · intro h j _
    cases hj : w.ths[j]? with
    | none => rfl
    | some t =>
      simp only
      cases hm : t.midBurn with
      | false => rfl
      | true => simp [h j t hj hm]

theorem noSplitB_iff (cfg : Cfg) (w : World) (s : List Ev) : noSplitB cfg w s = true ↔ NoSplit cfg w s := by
  induction s generalizing w with
  | nil => simp [noSplitB, NoSplit]
  | cons ev s ih =>
    simp only [noSplitB, NoSplit, Bool.and_eq_true]
    rw [midOk_iff, ih]


/-! ### store faults fail closed -/

/-- the request has a store fault that hits its consume step -/
def Thread.faulty : Thread → Bool
  | .burn r _ _ => r.failGet
  | .mark r _ _ => r.failGet || r.failSet

/-- not honoured, and not on a path that can still be honoured -/
def Thread.safe : Thread → Bool
  | .burn r pc f => (Thread.burn r pc f).idle
  | .mark r pc _ =>
    match pc with
    | .done .ok => false
    | .atPut _ => !r.failGet
    | _ => true

theorem stepThread_faulty_safe (cfg : Cfg) (st : Store) (now : Nat) (lock : Option Nat) (i : Nat) (t : Thread)
    (hf : t.faulty = true) (hs : t.safe = true) :
    (stepThread cfg st now lock i t).1.faulty = true ∧ (stepThread cfg st now lock i t).1.safe = true := by
  cases t with
  | burn r pc f =>
    have ha : (afterGad cfg r none).took = false := by rw [afterGad_took]; rfl
    have hb : ∀ v, afterGad cfg r none ≠ .atDel v := fun v => afterGad_ne_atDel cfg r none v
    have hft := finishBurn_took r
    have hfd : ∀ o v, finishBurn r o ≠ .atDel v := finishBurn_ne_atDel r
    simp only [Thread.faulty] at hf
    refine ⟨by simp [stepThread, Thread.faulty, hf], ?_⟩
    cases pc <;> simp only [stepThread, stepBurn, hf, Thread.safe] <;> (repeat' split) <;>
      (apply burn_idle_of <;> simp_all [Thread.safe, Thread.idle, Thread.took, BurnPc.took, Outcome.took])
  | mark r pc f =>
    simp only [Thread.faulty] at hf
    refine ⟨by simp [stepThread, Thread.faulty, hf], ?_⟩
    cases hg : r.failGet <;> cases hs' : r.failSet <;> cases pc <;> simp only [stepThread, stepMark, hg, hs'] <;>
      (repeat' split) <;> simp_all [Thread.safe]

theorem faulty_safe_run (cfg : Cfg) (i : Nat) (s : List Ev) (w : World)
    (h : ∀ t, w.ths[i]? = some t → t.faulty = true ∧ t.safe = true) :
    ∀ t, (run cfg s w).ths[i]? = some t → t.faulty = true ∧ t.safe = true := by
  induction s generalizing w with
  | nil => exact h
  | cons ev s ih =>
    apply ih
    cases ev with
    | tick dt => exact h
    | step j =>
      simp only [applyEv, stepW]
      cases hj : w.ths[j]? with
      | none => exact h
      | some tj =>
        simp only
        intro t ht
        rcases getElem?_set_cases _ _ _ _ _ ht with ⟨hij, he⟩ | ⟨_, he⟩
        · subst hij; subst he
          obtain ⟨h1, h2⟩ := h tj hj
          exact stepThread_faulty_safe cfg _ _ _ _ tj h1 h2
        · exact h t he

theorem safe_not_won (t : Thread) (h : t.safe = true) : t.won = false ∧ t.took = false := by
  cases t with
  | burn r pc f =>
    have := idle_not_took _ (by simpa [Thread.safe] using h)
    refine ⟨?_, this⟩
    cases pc <;> simp_all [Thread.won, Thread.outcome, Thread.took, Outcome.took]
    rename_i o; cases o <;> simp_all
  | mark r pc f =>
    refine ⟨?_, rfl⟩
    cases pc <;> simp_all [Thread.safe, Thread.won, Thread.outcome]
    rename_i o; cases o <;> simp_all

/-! ### the key space of the session database -/

/-- two stores whose key paths (prefix segments joined with the separator, separator appended) are not a prefix of
    one another never share a full key, whatever the (unescaped) keys are -/
theorem fullKey_disjoint (p q k1 k2 : List Char) (h1 : p.isPrefixOf q = false) (h2 : q.isPrefixOf p = false) :
    p ++ k1 ≠ q ++ k2 := by
  intro h
  rcases List.append_eq_append_iff.mp h with ⟨a, ha, _⟩ | ⟨c, hc, _⟩
  · have : p <+: q := ⟨a, ha.symm⟩
    rw [← List.isPrefixOf_iff_prefix] at this
    simp [this] at h1
  · have : q <+: p := ⟨c, hc.symm⟩
    rw [← List.isPrefixOf_iff_prefix] at this
    simp [this] at h2

def pairwiseNonPrefix (l : List (List Char)) : Bool :=
  l.all fun p => l.all fun q => p == q || !(p.isPrefixOf q)

theorem pairwiseNonPrefix_disjoint (l : List (List Char)) (h : pairwiseNonPrefix l = true)
    (p q : List Char) (hp : p ∈ l) (hq : q ∈ l) (hne : p ≠ q) (k1 k2 : List Char) : p ++ k1 ≠ q ++ k2 := by
  unfold pairwiseNonPrefix at h
  rw [List.all_eq_true] at h
  have h1 := h p hp
  have h2 := h q hq
  rw [List.all_eq_true] at h1 h2
  have a := h1 q hq
  have b := h2 p hp
  simp only [Bool.or_eq_true, beq_iff_eq, Bool.not_eq_true'] at a b
  apply fullKey_disjoint
  · rcases a with a | a
    · exact absurd a hne
    · exact a
  · rcases b with b | b
    · exact absurd b.symm hne
    · exact b


/-- `strings.Join(elems, sep)` on character lists, literally: no normalisation, no escaping -/
def stringsJoin (sep : Char) : List (List Char) → List Char
  | [] => []
  | [a] => a
  | a :: b :: rest => a ++ sep :: stringsJoin sep (b :: rest)

/-- `getFullKey`: strings.Join(append(prefixes, key), sep) -/
def joinKey (sep : Char) (prefixes : List (List Char)) (key : List Char) : List Char :=
  stringsJoin sep (prefixes ++ [key])

/-- what every full key of a store starts with: each prefix segment followed by the separator -/
def storePath (sep : Char) (prefixes : List (List Char)) : List Char :=
  prefixes.flatMap (fun seg => seg ++ [sep])

theorem joinKey_eq (sep : Char) (prefixes : List (List Char)) (key : List Char) :
    joinKey sep prefixes key = storePath sep prefixes ++ key := by
  induction prefixes with
  | nil => simp [joinKey, stringsJoin, storePath]
  | cons a rest ih =>
    cases rest with
    | nil => simp [joinKey, stringsJoin, storePath]
    | cons b rest' =>
      simp only [joinKey, storePath, List.cons_append, stringsJoin, List.flatMap_cons] at ih ⊢
      rw [ih]
      simp

/-- two stores whose paths are not a prefix of one another never produce the same full key — for ANY keys,
    including keys that contain the separator or `..` segments (the join does not interpret them) -/
theorem joinKey_disjoint (sep : Char) (l : List (List (List Char))) (h : pairwiseNonPrefix (l.map (storePath sep)) = true)
    (p q : List (List Char)) (hp : p ∈ l) (hq : q ∈ l) (hne : storePath sep p ≠ storePath sep q) (k1 k2 : List Char) :
    joinKey sep p k1 ≠ joinKey sep q k2 := by
  rw [joinKey_eq, joinKey_eq]
  exact pairwiseNonPrefix_disjoint _ h _ _ (List.mem_map_of_mem hp) (List.mem_map_of_mem hq) hne k1 k2

/-- `Put` is total on keys: whatever the key is (length, characters), the entry is visible right after the Put
    (for a positive TTL, or at the expiry instant on a back-end that still shows it) -/
theorem put_visible (incl : Bool) (st : Store) (now ttl : Nat) (k : Key) (v : String) (h : 0 < ttl) :
    stGet incl (stPut st k ⟨v, now + ttl⟩) now k = some v := by
  simp [stGet, stFind_put_self, alive]
  omega

end Nuts.C05
