/-
  C03 (deepening round) — lemmas about the fs backend's file-name -> key-name parsing (NutsModel/C03/FsList.lean).
-/
import NutsModel.C03.FsList
import NutsProofs.Lemmas.C03
namespace Nuts.C03
open Nuts

theorem hasSuffix_append (a suf : Bytes) : hasSuffix (a ++ suf) suf = true := by
  unfold hasSuffix
  simp [List.length_append]

theorem fsListName_roundtrip (n et : Bytes) (hn : n ≠ []) : fsListName (fsEntryFileName n et) et = some n := by
  unfold fsListName fsEntryFileName
  have h1 : n ++ USCORE :: et = (n ++ [USCORE]) ++ et := by simp
  rw [h1, hasSuffix_append]
  simp only [if_true]
  have hl : 0 < n.length := List.length_pos_iff.mpr hn
  have : ((((n ++ [USCORE]) ++ et).length : Int) - (et.length : Int) - 1) = (n.length : Int) := by
    simp [List.length_append]; omega
  rw [this]
  have hpos : (n.length : Int) > 0 := by omega
  simp only [hpos, if_true, Int.toNat_natCast]
  congr 1
  rw [List.append_assoc]
  exact List.take_left' rfl

theorem fsListName_shape (f et m : Bytes) (h : fsListName f et = some m) : m ≠ [] ∧ ∃ c, f = m ++ c :: et := by
  unfold fsListName at h
  split at h
  · rename_i hs
    simp only at h
    split at h
    · rename_i hu
      cases h
      unfold hasSuffix at hs
      simp only [Bool.and_eq_true, decide_eq_true_eq, beq_iff_eq] at hs
      obtain ⟨hle, hd⟩ := hs
      have hk : ((f.length : Int) - (et.length : Int) - 1).toNat = f.length - et.length - 1 := by omega
      rw [hk]
      -- f = p ++ et with |p| ≥ 2
      have hsplit : f = f.take (f.length - et.length) ++ et := by
        have := (List.take_append_drop (f.length - et.length) f).symm
        rw [hd] at this; exact this
      have hpl : (f.take (f.length - et.length)).length = f.length - et.length := by rw [List.length_take]; omega
      generalize f.take (f.length - et.length) = p at hsplit hpl
      have hp2 : 2 ≤ p.length := by omega
      have hpne : p ≠ [] := by intro e; rw [e] at hp2; simp at hp2
      have hidx : f.length - et.length - 1 = p.length - 1 := by omega
      rw [hidx]
      subst hsplit
      have htake : (p ++ et).take (p.length - 1) = p.dropLast := by
        rw [List.take_append_of_le_length (by omega), List.dropLast_eq_take]
      rw [htake]
      refine ⟨?_, p.getLast hpne, ?_⟩
      · intro e
        have := congrArg List.length e
        simp [List.length_dropLast] at this
        omega
      · have : p.dropLast ++ p.getLast hpne :: et = (p.dropLast ++ [p.getLast hpne]) ++ et := by simp
        rw [this, List.dropLast_concat_getLast]
    · cases h
  · cases h
end Nuts.C03
