/-
  C02 — helper lemmas, part 3: histories (which operations change the token store, and how).
-/
import NutsProofs.Lemmas.C02b
import NutsModel.C02.History
import Std.Data.String.ToNat
namespace Nuts.C02

theorem tokName_inj (a b : Nat) (h : tokName a = tokName b) : a = b := by
  unfold tokName at h
  have : toString a = toString b := by
    have := congrArg String.toList h
    simp only [String.toList_append] at this
    exact String.toList_inj.mp (List.append_cancel_left this)
  exact Nat.repr_injective this

theorem codeName_inj (a b : Nat) (h : codeName a = codeName b) : a = b := by
  unfold codeName at h
  have : toString a = toString b := by
    have := congrArg String.toList h
    simp only [String.toList_append] at this
    exact String.toList_inj.mp (List.append_cancel_left this)
  exact Nat.repr_injective this

/-- `createAccessToken` either succeeds or leaves the world alone -/
theorem createAccessToken_frame (cfg : Cfg) (w : World) (now : Nat) (issuer clientId scope : String) (c : Consumer)
    (dpop : Option DPoP) :
    (∃ resp, (createAccessToken cfg w now issuer clientId scope c dpop).2 = .ok resp) ∨
    (createAccessToken cfg w now issuer clientId scope c dpop).1 = w := by
  unfold createAccessToken
  split
  · exact Or.inl ⟨_, rfl⟩
  · exact Or.inr rfl
  · exact Or.inr rfl

theorem createAccessToken_notok (cfg : Cfg) (w w2 : World) (now : Nat) (issuer clientId scope : String) (c : Consumer)
    (dpop : Option DPoP) (res : Res TokenResponse)
    (h : createAccessToken cfg w now issuer clientId scope c dpop = (w2, res)) (hn : ∀ resp, res ≠ .ok resp) : w2 = w := by
  rcases createAccessToken_frame cfg w now issuer clientId scope c dpop with ⟨resp, hr⟩ | hw
  · rw [h] at hr; exact absurd hr (hn resp)
  · rw [h] at hw; exact hw

/-- the token store and the token counter only change when a token is issued -/
theorem issueS2S_frame (cfg : Cfg) (w : World) (t : Nat) (r : S2SReq) :
    (∃ resp, (issueS2S cfg w t r).2 = .ok resp) ∨
    ((issueS2S cfg w t r).1.tokens = w.tokens ∧ (issueS2S cfg w t r).1.nextTok = w.nextTok ∧
     (issueS2S cfg w t r).1.codes = w.codes ∧ (issueS2S cfg w t r).1.nextCode = w.nextCode) := by
  unfold issueS2S
  repeat' (first
    | exact Or.inr ⟨rfl, rfl, rfl, rfl⟩
    | exact (createAccessToken_frame _ _ _ _ _ _ _ _).elim Or.inl (fun h => Or.inr (by rw [h]; exact ⟨rfl, rfl, rfl, rfl⟩))
    | split
    | simp only)

theorem issueCode_frame (cfg : Cfg) (sha : String → String) (w : World) (t : Nat) (r : CodeReq) :
    (∃ resp, (issueCode cfg sha w t r).2 = .ok resp) ∨
    ((issueCode cfg sha w t r).1.tokens = w.tokens ∧ (issueCode cfg sha w t r).1.nextTok = w.nextTok) := by
  unfold issueCode
  repeat' (first
    | exact Or.inr ⟨rfl, rfl⟩
    | split
    | simp only)
  all_goals first
    | exact Or.inl ⟨_, rfl⟩
    | (right
       rename_i w2 e hcreate
       have := createAccessToken_notok _ _ _ _ _ _ _ _ _ _ hcreate (by intro r h; cases h)
       rw [this]; exact ⟨rfl, rfl⟩)

/-- the authorize-response handler never touches the token store -/
theorem authorizeResponse_frame (cfg : Cfg) (w : World) (t : Nat) (r : AuthResp) :
    (authorizeResponse cfg w t r).1.tokens = w.tokens ∧ (authorizeResponse cfg w t r).1.nextTok = w.nextTok ∧
    (authorizeResponse cfg w t r).1.s2sNonces = w.s2sNonces := by
  unfold authorizeResponse
  repeat' (first
    | exact ⟨rfl, rfl, rfl⟩
    | split
    | simp only)

/-- a token is issued by operation `op` at time `t` in world `w` under the name `name` with record `rec` -/
def Issued (cfg : Cfg) (sha : String → String) (w : World) (t : Nat) (op : Op) (name : String) (rec : TokenRec) : Prop :=
  ∃ resp, (step cfg sha w t op).2 = .token (.ok resp) ∧ resp.token = name ∧ name = tokName w.nextTok ∧
    (step cfg sha w t op).1.tokens = w.tokens.put t cfg.tokenTtl name rec ∧
    (step cfg sha w t op).1.nextTok = w.nextTok + 1 ∧
    rec.issuedAt = t ∧ rec.expiration = t + cfg.tokenValidity

theorem step_tokens (cfg : Cfg) (sha : String → String) (hchk : cfg.emptyVpChecked = true) (httl : cfg.nonceTtl ≠ 0)
    (w : World) (t : Nat) (op : Op) (hwf : ∀ r, op = .s2s r → ∀ vp ∈ r.vps, vp.signer ≠ some "") :
    ((step cfg sha w t op).1.tokens = w.tokens ∧ (step cfg sha w t op).1.nextTok = w.nextTok) ∨
    ∃ rec, Issued cfg sha w t op (tokName w.nextTok) rec := by
  cases op with
  | s2s r =>
    rcases issueS2S_frame cfg w t r with ⟨resp, hr⟩ | hfr
    · right
      have h : issueS2S cfg w t r = ((issueS2S cfg w t r).1, .ok resp) := by rw [← hr]
      obtain ⟨s, d, _, heff⟩ := issueS2S_ok cfg w _ t r resp hchk httl (hwf r rfl) h
      obtain ⟨defs, claims, dpop, _, _, _, hrec⟩ := heff.record
      exact ⟨_, resp, by simp [step, hr], heff.token, rfl, by simpa [step] using hrec, by simpa [step] using heff.next, rfl, rfl⟩
    · left; simp only [step]; exact ⟨hfr.1, hfr.2.1⟩
  | auth r => left; simp only [step]; exact ⟨(authorizeResponse_frame cfg w t r).1, (authorizeResponse_frame cfg w t r).2.1⟩
  | code r =>
    rcases issueCode_frame cfg sha w t r with ⟨resp, hr⟩ | hfr
    · right
      have h : issueCode cfg sha w t r = ((issueCode cfg sha w t r).1, .ok resp) := by rw [← hr]
      obtain ⟨code, verifier, session, _, heff⟩ := issueCode_ok cfg sha w _ t r resp h
      obtain ⟨claims, dpop, _, _, hrec⟩ := heff.record
      exact ⟨_, resp, by simp [step, hr], heff.token, rfl, by simpa [step] using hrec, by simpa [step] using heff.next, rfl, rfl⟩
    · left; simp only [step]; exact hfr
  | seed state nonce session => left; exact ⟨rfl, rfl⟩
/-! ### histories -/

theorem after_cons (cfg : Cfg) (sha : String → String) (t : Nat) (op : Op) (rest : List (Nat × Op)) (w : World) :
    after cfg sha ((t, op) :: rest) w = after cfg sha rest (step cfg sha w t op).1 := by
  simp [after, run]

theorem after_append (cfg : Cfg) (sha : String → String) (a b : List (Nat × Op)) (w : World) :
    after cfg sha (a ++ b) w = after cfg sha b (after cfg sha a w) := by
  induction a generalizing w with
  | nil => simp [after, run]
  | cons x rest ih =>
    obtain ⟨t, op⟩ := x
    rw [List.cons_append, after_cons, after_cons, ih]

/-- well-formedness of a history: DIDs that parse are non-empty -/
def HistWF (h : List (Nat × Op)) : Prop :=
  ∀ t r, (t, Op.s2s r) ∈ h → ∀ vp ∈ r.vps, vp.signer ≠ some ""

/-- a token that is in the store after a history was either there before or was issued by an operation of it -/
theorem token_in_store_was_issued (cfg : Cfg) (sha : String → String) (hchk : cfg.emptyVpChecked = true)
    (httl : cfg.nonceTtl ≠ 0) (httl' : cfg.tokenTtl ≠ 0) :
    ∀ (hist : List (Nat × Op)) (w : World), HistWF hist → ∀ (now : Nat) (tok : String) (rec : TokenRec),
      (after cfg sha hist w).tokens.get now tok = some rec →
      w.tokens.get now tok = some rec ∨
      ∃ pre t op post, hist = pre ++ (t, op) :: post ∧ Issued cfg sha (after cfg sha pre w) t op tok rec ∧
        now ≤ t + cfg.tokenTtl := by
  intro hist
  induction hist with
  | nil => intro w _ now tok rec h; left; simpa [after, run] using h
  | cons x rest ih =>
    obtain ⟨t, op⟩ := x
    intro w hwf now tok rec h
    rw [after_cons] at h
    have hwf' : HistWF rest := fun t' r hm => hwf t' r (List.mem_cons_of_mem _ hm)
    rcases ih _ hwf' now tok rec h with h1 | ⟨pre, t', op', post, heq, hiss, hle⟩
    · rcases step_tokens cfg sha hchk httl w t op (fun r hr vp hvp => hwf t r (by rw [hr]; exact List.mem_cons_self) vp hvp) with ⟨hsame, _⟩ | ⟨rec', hiss⟩
      · left; rw [hsame] at h1; exact h1
      · obtain ⟨resp, hout, htokn, hname, hput, hnext, hia, hexp⟩ := hiss
        rw [hput] at h1
        by_cases hk : tok = tokName w.nextTok
        · subst hk
          rw [Store.get_put_same _ _ _ _ _ _ httl'] at h1
          split at h1
          · rename_i hle
            simp only [Option.some.injEq] at h1
            subst h1
            right
            exact ⟨[], t, op, rest, rfl, ⟨resp, hout, htokn, hname, hput, hnext, hia, hexp⟩, hle⟩
          · cases h1
        · left
          rw [Store.get_put_ne _ _ _ _ _ _ _ (fun e => hk e.symm)] at h1
          exact h1
    · right
      refine ⟨(t, op) :: pre, t', op', post, by rw [heq]; rfl, ?_, hle⟩
      rw [after_cons]; exact hiss

/-- every key of the token store is a name the counter has already passed -/
def TokKeys (w : World) : Prop := ∀ k, (∃ e, w.tokens.find k = some e) → ∃ n, k = tokName n ∧ n < w.nextTok

theorem find_put_some {α : Type} (s : Store α) (now ttl : Nat) (k k' : String) (v : α) (e : Entry α)
    (h : (s.put now ttl k' v).find k = some e) : k = k' ∨ s.find k = some e := by
  by_cases hk : k' = k
  · exact Or.inl hk.symm
  · right; rw [Store.find_put_ne s now ttl k k' v hk] at h; exact h

theorem tokKeys_step (cfg : Cfg) (sha : String → String) (hchk : cfg.emptyVpChecked = true) (httl : cfg.nonceTtl ≠ 0)
    (w : World) (t : Nat) (op : Op) (hwf : ∀ r, op = .s2s r → ∀ vp ∈ r.vps, vp.signer ≠ some "")
    (h : TokKeys w) : TokKeys (step cfg sha w t op).1 ∧ w.nextTok ≤ (step cfg sha w t op).1.nextTok := by
  rcases step_tokens cfg sha hchk httl w t op hwf with ⟨hs, hn⟩ | ⟨rec, resp, _, _, _, hput, hnext, _, _⟩
  · refine ⟨?_, by rw [hn]; exact Nat.le_refl _⟩
    intro k hk; rw [hs] at hk; rw [hn]; exact h k hk
  · refine ⟨?_, by rw [hnext]; omega⟩
    intro k ⟨e, he⟩
    rw [hput] at he
    rcases find_put_some _ _ _ _ _ _ _ he with hk | hold
    · exact ⟨w.nextTok, hk, by rw [hnext]; omega⟩
    · obtain ⟨n, hn1, hn2⟩ := h k ⟨e, hold⟩
      exact ⟨n, hn1, by rw [hnext]; omega⟩

/-- an entry under an already-passed name is never touched again -/
theorem token_entry_stable (cfg : Cfg) (sha : String → String) (hchk : cfg.emptyVpChecked = true)
    (httl : cfg.nonceTtl ≠ 0) :
    ∀ (hist : List (Nat × Op)) (w : World), HistWF hist → TokKeys w → ∀ (n : Nat), n < w.nextTok →
      (after cfg sha hist w).tokens.find (tokName n) = w.tokens.find (tokName n) := by
  intro hist
  induction hist with
  | nil => intro w _ _ n _; simp [after, run]
  | cons x rest ih =>
    obtain ⟨t, op⟩ := x
    intro w hwf hkeys n hn
    rw [after_cons]
    have hwf' : HistWF rest := fun t' r hm => hwf t' r (List.mem_cons_of_mem _ hm)
    have hwf0 : ∀ r, op = .s2s r → ∀ vp ∈ r.vps, vp.signer ≠ some "" :=
      fun r hr vp hvp => hwf t r (by rw [hr]; exact List.mem_cons_self) vp hvp
    obtain ⟨hk', hmono⟩ := tokKeys_step cfg sha hchk httl w t op hwf0 hkeys
    rw [ih _ hwf' hk' n (by omega)]
    rcases step_tokens cfg sha hchk httl w t op hwf0 with ⟨hs, _⟩ | ⟨rec, resp, _, _, _, hput, _, _, _⟩
    · rw [hs]
    · rw [hput]
      exact Store.find_put_ne _ _ _ _ _ _ (fun e => by have := tokName_inj _ _ e; omega)

end Nuts.C02
