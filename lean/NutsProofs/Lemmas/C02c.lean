/-
  C02 — helper lemmas, part 3: histories (which operations change the token store, and how).
-/
import NutsProofs.Lemmas.C02b
import NutsModel.C02.History
import Std.Data.String.ToNat
namespace Nuts.C02

theorem tokName_inj (a b : Nat) (h : tokName a = tokName b) : a = b := by
  unfold tokName at h
  have : toString a = toString b := by
    have := congrArg String.toList h
    simp only [String.toList_append] at this
    exact String.toList_inj.mp (List.append_cancel_left this)
  exact Nat.repr_injective this

theorem codeName_inj (a b : Nat) (h : codeName a = codeName b) : a = b := by
  unfold codeName at h
  have : toString a = toString b := by
    have := congrArg String.toList h
    simp only [String.toList_append] at this
    exact String.toList_inj.mp (List.append_cancel_left this)
  exact Nat.repr_injective this

/-- `createAccessToken` either succeeds or leaves the world alone -/
theorem createAccessToken_frame (cfg : Cfg) (w : World) (now : Nat) (issuer clientId scope : String) (c : Consumer)
    (dpop : Option DPoP) :
    (∃ resp, (createAccessToken cfg w now issuer clientId scope c dpop).2 = .ok resp) ∨
    (createAccessToken cfg w now issuer clientId scope c dpop).1 = w := by
  unfold createAccessToken
  split
  · exact Or.inl ⟨_, rfl⟩
  · exact Or.inr rfl
  · exact Or.inr rfl

theorem createAccessToken_notok (cfg : Cfg) (w w2 : World) (now : Nat) (issuer clientId scope : String) (c : Consumer)
    (dpop : Option DPoP) (res : Res TokenResponse)
    (h : createAccessToken cfg w now issuer clientId scope c dpop = (w2, res)) (hn : ∀ resp, res ≠ .ok resp) : w2 = w := by
  rcases createAccessToken_frame cfg w now issuer clientId scope c dpop with ⟨resp, hr⟩ | hw
  · rw [h] at hr; exact absurd hr (hn resp)
  · rw [h] at hw; exact hw

/-- the token store and the token counter only change when a token is issued -/
theorem issueS2S_frame (cfg : Cfg) (w : World) (t : Nat) (r : S2SReq) :
    (∃ resp, (issueS2S cfg w t r).2 = .ok resp) ∨
    ((issueS2S cfg w t r).1.tokens = w.tokens ∧ (issueS2S cfg w t r).1.nextTok = w.nextTok ∧
     (issueS2S cfg w t r).1.codes = w.codes ∧ (issueS2S cfg w t r).1.nextCode = w.nextCode) := by
  unfold issueS2S
  repeat' (first
    | exact Or.inr ⟨rfl, rfl, rfl, rfl⟩
    | exact (createAccessToken_frame _ _ _ _ _ _ _ _).elim Or.inl (fun h => Or.inr (by rw [h]; exact ⟨rfl, rfl, rfl, rfl⟩))
    | split
    | simp only)

theorem issueCode_frame (cfg : Cfg) (sha : String → String) (w : World) (t : Nat) (r : CodeReq) :
    (∃ resp, (issueCode cfg sha w t r).2 = .ok resp) ∨
    ((issueCode cfg sha w t r).1.tokens = w.tokens ∧ (issueCode cfg sha w t r).1.nextTok = w.nextTok) := by
  unfold issueCode
  repeat' (first
    | exact Or.inr ⟨rfl, rfl⟩
    | split
    | simp only)
  all_goals first
    | exact Or.inl ⟨_, rfl⟩
    | (right
       rename_i w2 e hcreate
       have := createAccessToken_notok _ _ _ _ _ _ _ _ _ _ hcreate (by intro r h; cases h)
       rw [this]; exact ⟨rfl, rfl⟩)

/-- the authorize-response handler never touches the token store -/
theorem authorizeResponse_frame (cfg : Cfg) (w : World) (t : Nat) (r : AuthResp) :
    (authorizeResponse cfg w t r).1.tokens = w.tokens ∧ (authorizeResponse cfg w t r).1.nextTok = w.nextTok ∧
    (authorizeResponse cfg w t r).1.s2sNonces = w.s2sNonces := by
  unfold authorizeResponse
  repeat' (first
    | exact ⟨rfl, rfl, rfl⟩
    | split
    | simp only)

/-- a token is issued by operation `op` at time `t` in world `w` under the name `name` with record `rec` -/
def Issued (cfg : Cfg) (sha : String → String) (w : World) (t : Nat) (op : Op) (name : String) (rec : TokenRec) : Prop :=
  ∃ resp, (step cfg sha w t op).2 = .token (.ok resp) ∧ resp.token = name ∧ name = tokName w.nextTok ∧
    (step cfg sha w t op).1.tokens = w.tokens.put t cfg.tokenTtl name rec ∧
    (step cfg sha w t op).1.nextTok = w.nextTok + 1 ∧
    rec.issuedAt = t ∧ rec.expiration = t + cfg.tokenValidity

theorem step_tokens (cfg : Cfg) (sha : String → String) (hchk : cfg.emptyVpChecked = true) (httl : cfg.nonceTtl ≠ 0)
    (w : World) (t : Nat) (op : Op) (hwf : ∀ r, op = .s2s r → ∀ vp ∈ r.vps, vp.signer ≠ some "") :
    ((step cfg sha w t op).1.tokens = w.tokens ∧ (step cfg sha w t op).1.nextTok = w.nextTok) ∨
    ∃ rec, Issued cfg sha w t op (tokName w.nextTok) rec := by
  cases op with
  | s2s r =>
    rcases issueS2S_frame cfg w t r with ⟨resp, hr⟩ | hfr
    · right
      have h : issueS2S cfg w t r = ((issueS2S cfg w t r).1, .ok resp) := by rw [← hr]
      obtain ⟨s, d, _, heff⟩ := issueS2S_ok cfg w _ t r resp hchk httl (hwf r rfl) h
      obtain ⟨defs, claims, dpop, _, _, _, hrec⟩ := heff.record
      exact ⟨_, resp, by simp [step, hr], heff.token, rfl, by simpa [step] using hrec, by simpa [step] using heff.next, rfl, rfl⟩
    · left; simp only [step]; exact ⟨hfr.1, hfr.2.1⟩
  | auth r => left; simp only [step]; exact ⟨(authorizeResponse_frame cfg w t r).1, (authorizeResponse_frame cfg w t r).2.1⟩
  | code r =>
    rcases issueCode_frame cfg sha w t r with ⟨resp, hr⟩ | hfr
    · right
      have h : issueCode cfg sha w t r = ((issueCode cfg sha w t r).1, .ok resp) := by rw [← hr]
      obtain ⟨code, verifier, session, _, heff⟩ := issueCode_ok cfg sha w _ t r resp h
      obtain ⟨claims, dpop, _, _, hrec⟩ := heff.record
      exact ⟨_, resp, by simp [step, hr], heff.token, rfl, by simpa [step] using hrec, by simpa [step] using heff.next, rfl, rfl⟩
    · left; simp only [step]; exact hfr
  | seed state nonce session => left; exact ⟨rfl, rfl⟩
end Nuts.C02
