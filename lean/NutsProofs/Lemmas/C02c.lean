/-
  C02 — helper lemmas, part 3: histories (which operations change the token store, and how).
-/
import NutsProofs.Lemmas.C02b
import NutsModel.C02.History
import Std.Data.String.ToNat
namespace Nuts.C02

theorem tokName_inj (a b : Nat) (h : tokName a = tokName b) : a = b := by
  unfold tokName at h
  have : toString a = toString b := by
    have := congrArg String.toList h
    simp only [String.toList_append] at this
    exact String.toList_inj.mp (List.append_cancel_left this)
  exact Nat.repr_injective this

theorem codeName_inj (a b : Nat) (h : codeName a = codeName b) : a = b := by
  unfold codeName at h
  have : toString a = toString b := by
    have := congrArg String.toList h
    simp only [String.toList_append] at this
    exact String.toList_inj.mp (List.append_cancel_left this)
  exact Nat.repr_injective this

/-- `createAccessToken` either succeeds or leaves the world alone -/
theorem createAccessToken_frame (cfg : Cfg) (w : World) (now : Nat) (issuer clientId scope : String) (c : Consumer)
    (dpop : Option DPoP) :
    (∃ resp, (createAccessToken cfg w now issuer clientId scope c dpop).2 = .ok resp) ∨
    (createAccessToken cfg w now issuer clientId scope c dpop).1 = w := by
  unfold createAccessToken
  split
  · exact Or.inl ⟨_, rfl⟩
  · exact Or.inr rfl
  · exact Or.inr rfl

theorem createAccessToken_notok (cfg : Cfg) (w w2 : World) (now : Nat) (issuer clientId scope : String) (c : Consumer)
    (dpop : Option DPoP) (res : Res TokenResponse)
    (h : createAccessToken cfg w now issuer clientId scope c dpop = (w2, res)) (hn : ∀ resp, res ≠ .ok resp) : w2 = w := by
  rcases createAccessToken_frame cfg w now issuer clientId scope c dpop with ⟨resp, hr⟩ | hw
  · rw [h] at hr; exact absurd hr (hn resp)
  · rw [h] at hw; exact hw

/-- the token store and the token counter only change when a token is issued -/
theorem issueS2S_frame (cfg : Cfg) (w : World) (t : Nat) (r : S2SReq) :
    (∃ resp, (issueS2S cfg w t r).2 = .ok resp) ∨
    ((issueS2S cfg w t r).1.tokens = w.tokens ∧ (issueS2S cfg w t r).1.nextTok = w.nextTok ∧
     (issueS2S cfg w t r).1.codes = w.codes ∧ (issueS2S cfg w t r).1.nextCode = w.nextCode) := by
  unfold issueS2S
  repeat' (first
    | exact Or.inr ⟨rfl, rfl, rfl, rfl⟩
    | exact (createAccessToken_frame _ _ _ _ _ _ _ _).elim Or.inl (fun h => Or.inr (by rw [h]; exact ⟨rfl, rfl, rfl, rfl⟩))
    | split
    | simp only)

theorem issueCode_frame (cfg : Cfg) (sha : String → String) (w : World) (t : Nat) (r : CodeReq) :
    (∃ resp, (issueCode cfg sha w t r).2 = .ok resp) ∨
    ((issueCode cfg sha w t r).1.tokens = w.tokens ∧ (issueCode cfg sha w t r).1.nextTok = w.nextTok) := by
  unfold issueCode
  repeat' (first
    | exact Or.inr ⟨rfl, rfl⟩
    | split
    | simp only)
  all_goals first
    | exact Or.inl ⟨_, rfl⟩
    | (right
       rename_i w2 e hcreate
       have := createAccessToken_notok _ _ _ _ _ _ _ _ _ _ hcreate (by intro r h; cases h)
       rw [this]; exact ⟨rfl, rfl⟩)

/-- the authorize-response handler never touches the token store -/
theorem authorizeResponse_frame (cfg : Cfg) (w : World) (t : Nat) (r : AuthResp) :
    (authorizeResponse cfg w t r).1.tokens = w.tokens ∧ (authorizeResponse cfg w t r).1.nextTok = w.nextTok ∧
    (authorizeResponse cfg w t r).1.s2sNonces = w.s2sNonces := by
  unfold authorizeResponse
  repeat' (first
    | exact ⟨rfl, rfl, rfl⟩
    | split
    | simp only)

/-- the authorization request touches the client-state and nonce stores only -/
theorem authorizeRequest_frame (cfg : Cfg) (w : World) (t : Nat) (r : AuthReq) :
    (authorizeRequest cfg w t r).1.tokens = w.tokens ∧ (authorizeRequest cfg w t r).1.nextTok = w.nextTok ∧
    (authorizeRequest cfg w t r).1.s2sNonces = w.s2sNonces ∧ (authorizeRequest cfg w t r).1.codes = w.codes ∧
    (authorizeRequest cfg w t r).1.nextCode = w.nextCode := by
  unfold authorizeRequest
  repeat' (first
    | exact ⟨rfl, rfl, rfl, rfl, rfl⟩
    | split
    | simp only)

/-- a token is issued by operation `op` at time `t` in world `w` under the name `name` with record `rec` -/
def Issued (cfg : Cfg) (sha : String → String) (w : World) (t : Nat) (op : Op) (name : String) (rec : TokenRec) : Prop :=
  ∃ resp, (step cfg sha w t op).2 = .token (.ok resp) ∧ resp.token = name ∧ name = tokName w.nextTok ∧
    (step cfg sha w t op).1.tokens = w.tokens.put t cfg.tokenTtl name rec ∧
    (step cfg sha w t op).1.nextTok = w.nextTok + 1 ∧
    rec.issuedAt = t ∧ rec.expiration = t + cfg.tokenValidity

theorem step_tokens (cfg : Cfg) (sha : String → String) (hchk : cfg.emptyVpChecked = true) (httl : cfg.nonceTtl ≠ 0)
    (w : World) (t : Nat) (op : Op) (hwf : ∀ r, op = .s2s r → ∀ vp ∈ r.vps, vp.signer ≠ some "") :
    ((step cfg sha w t op).1.tokens = w.tokens ∧ (step cfg sha w t op).1.nextTok = w.nextTok) ∨
    ∃ rec, Issued cfg sha w t op (tokName w.nextTok) rec := by
  cases op with
  | s2s r =>
    rcases issueS2S_frame cfg w t r with ⟨resp, hr⟩ | hfr
    · right
      have h : issueS2S cfg w t r = ((issueS2S cfg w t r).1, .ok resp) := by rw [← hr]
      obtain ⟨s, d, _, heff⟩ := issueS2S_ok cfg w _ t r resp hchk httl (hwf r rfl) h
      obtain ⟨defs, claims, dpop, _, _, _, hrec⟩ := heff.record
      exact ⟨_, resp, by simp [step, hr], heff.token, rfl, by simpa [step] using hrec, by simpa [step] using heff.next, rfl, rfl⟩
    · left; simp only [step]; exact ⟨hfr.1, hfr.2.1⟩
  | auth r => left; simp only [step]; exact ⟨(authorizeResponse_frame cfg w t r).1, (authorizeResponse_frame cfg w t r).2.1⟩
  | code r =>
    rcases issueCode_frame cfg sha w t r with ⟨resp, hr⟩ | hfr
    · right
      have h : issueCode cfg sha w t r = ((issueCode cfg sha w t r).1, .ok resp) := by rw [← hr]
      obtain ⟨code, verifier, session, _, heff⟩ := issueCode_ok cfg sha w _ t r resp h
      obtain ⟨claims, dpop, _, _, hrec⟩ := heff.record
      exact ⟨_, resp, by simp [step, hr], heff.token, rfl, by simpa [step] using hrec, by simpa [step] using heff.next, rfl, rfl⟩
    · left; simp only [step]; exact hfr
  | seed state nonce session => left; exact ⟨rfl, rfl⟩
  | authreq r => left; simp only [step]; exact ⟨(authorizeRequest_frame cfg w t r).1, (authorizeRequest_frame cfg w t r).2.1⟩
/-! ### histories -/

theorem after_cons (cfg : Cfg) (sha : String → String) (t : Nat) (op : Op) (rest : List (Nat × Op)) (w : World) :
    after cfg sha ((t, op) :: rest) w = after cfg sha rest (step cfg sha w t op).1 := by
  simp [after, run]

theorem after_append (cfg : Cfg) (sha : String → String) (a b : List (Nat × Op)) (w : World) :
    after cfg sha (a ++ b) w = after cfg sha b (after cfg sha a w) := by
  induction a generalizing w with
  | nil => simp [after, run]
  | cons x rest ih =>
    obtain ⟨t, op⟩ := x
    rw [List.cons_append, after_cons, after_cons, ih]

/-- well-formedness of a history: DIDs that parse are non-empty -/
def HistWF (h : List (Nat × Op)) : Prop :=
  ∀ t r, (t, Op.s2s r) ∈ h → ∀ vp ∈ r.vps, vp.signer ≠ some ""

/-- a token that is in the store after a history was either there before or was issued by an operation of it -/
theorem token_in_store_was_issued (cfg : Cfg) (sha : String → String) (hchk : cfg.emptyVpChecked = true)
    (httl : cfg.nonceTtl ≠ 0) (httl' : cfg.tokenTtl ≠ 0) :
    ∀ (hist : List (Nat × Op)) (w : World), HistWF hist → ∀ (now : Nat) (tok : String) (rec : TokenRec),
      (after cfg sha hist w).tokens.get now tok = some rec →
      w.tokens.get now tok = some rec ∨
      ∃ pre t op post, hist = pre ++ (t, op) :: post ∧ Issued cfg sha (after cfg sha pre w) t op tok rec ∧
        now ≤ t + cfg.tokenTtl := by
  intro hist
  induction hist with
  | nil => intro w _ now tok rec h; left; simpa [after, run] using h
  | cons x rest ih =>
    obtain ⟨t, op⟩ := x
    intro w hwf now tok rec h
    rw [after_cons] at h
    have hwf' : HistWF rest := fun t' r hm => hwf t' r (List.mem_cons_of_mem _ hm)
    rcases ih _ hwf' now tok rec h with h1 | ⟨pre, t', op', post, heq, hiss, hle⟩
    · rcases step_tokens cfg sha hchk httl w t op (fun r hr vp hvp => hwf t r (by rw [hr]; exact List.mem_cons_self) vp hvp) with ⟨hsame, _⟩ | ⟨rec', hiss⟩
      · left; rw [hsame] at h1; exact h1
      · obtain ⟨resp, hout, htokn, hname, hput, hnext, hia, hexp⟩ := hiss
        rw [hput] at h1
        by_cases hk : tok = tokName w.nextTok
        · subst hk
          rw [Store.get_put_same _ _ _ _ _ _ httl'] at h1
          split at h1
          · rename_i hle
            simp only [Option.some.injEq] at h1
            subst h1
            right
            exact ⟨[], t, op, rest, rfl, ⟨resp, hout, htokn, hname, hput, hnext, hia, hexp⟩, hle⟩
          · cases h1
        · left
          rw [Store.get_put_ne _ _ _ _ _ _ _ (fun e => hk e.symm)] at h1
          exact h1
    · right
      refine ⟨(t, op) :: pre, t', op', post, by rw [heq]; rfl, ?_, hle⟩
      rw [after_cons]; exact hiss

/-- every key of the token store is a name the counter has already passed -/
def TokKeys (w : World) : Prop := ∀ k, (∃ e, w.tokens.find k = some e) → ∃ n, k = tokName n ∧ n < w.nextTok

theorem find_put_some {α : Type} (s : Store α) (now ttl : Nat) (k k' : String) (v : α) (e : Entry α)
    (h : (s.put now ttl k' v).find k = some e) : k = k' ∨ s.find k = some e := by
  by_cases hk : k' = k
  · exact Or.inl hk.symm
  · right; rw [Store.find_put_ne s now ttl k k' v hk] at h; exact h

theorem tokKeys_step (cfg : Cfg) (sha : String → String) (hchk : cfg.emptyVpChecked = true) (httl : cfg.nonceTtl ≠ 0)
    (w : World) (t : Nat) (op : Op) (hwf : ∀ r, op = .s2s r → ∀ vp ∈ r.vps, vp.signer ≠ some "")
    (h : TokKeys w) : TokKeys (step cfg sha w t op).1 ∧ w.nextTok ≤ (step cfg sha w t op).1.nextTok := by
  rcases step_tokens cfg sha hchk httl w t op hwf with ⟨hs, hn⟩ | ⟨rec, resp, _, _, _, hput, hnext, _, _⟩
  · refine ⟨?_, by rw [hn]; exact Nat.le_refl _⟩
    intro k hk; rw [hs] at hk; rw [hn]; exact h k hk
  · refine ⟨?_, by rw [hnext]; omega⟩
    intro k ⟨e, he⟩
    rw [hput] at he
    rcases find_put_some _ _ _ _ _ _ _ he with hk | hold
    · exact ⟨w.nextTok, hk, by rw [hnext]; omega⟩
    · obtain ⟨n, hn1, hn2⟩ := h k ⟨e, hold⟩
      exact ⟨n, hn1, by rw [hnext]; omega⟩

/-- an entry under an already-passed name is never touched again -/
theorem token_entry_stable (cfg : Cfg) (sha : String → String) (hchk : cfg.emptyVpChecked = true)
    (httl : cfg.nonceTtl ≠ 0) :
    ∀ (hist : List (Nat × Op)) (w : World), HistWF hist → TokKeys w → ∀ (n : Nat), n < w.nextTok →
      (after cfg sha hist w).tokens.find (tokName n) = w.tokens.find (tokName n) := by
  intro hist
  induction hist with
  | nil => intro w _ _ n _; simp [after, run]
  | cons x rest ih =>
    obtain ⟨t, op⟩ := x
    intro w hwf hkeys n hn
    rw [after_cons]
    have hwf' : HistWF rest := fun t' r hm => hwf t' r (List.mem_cons_of_mem _ hm)
    have hwf0 : ∀ r, op = .s2s r → ∀ vp ∈ r.vps, vp.signer ≠ some "" :=
      fun r hr vp hvp => hwf t r (by rw [hr]; exact List.mem_cons_self) vp hvp
    obtain ⟨hk', hmono⟩ := tokKeys_step cfg sha hchk httl w t op hwf0 hkeys
    rw [ih _ hwf' hk' n (by omega)]
    rcases step_tokens cfg sha hchk httl w t op hwf0 with ⟨hs, _⟩ | ⟨rec, resp, _, _, _, hput, _, _, _⟩
    · rw [hs]
    · rw [hput]
      exact Store.find_put_ne _ _ _ _ _ _ (fun e => by have := tokName_inj _ _ e; omega)

/-! ### the s2s nonce store over histories -/

theorem createAccessToken_other (cfg : Cfg) (w : World) (now : Nat) (issuer clientId scope : String) (c : Consumer)
    (dpop : Option DPoP) :
    (createAccessToken cfg w now issuer clientId scope c dpop).1.s2sNonces = w.s2sNonces ∧
    (createAccessToken cfg w now issuer clientId scope c dpop).1.codes = w.codes ∧
    (createAccessToken cfg w now issuer clientId scope c dpop).1.nextCode = w.nextCode := by
  unfold createAccessToken
  split <;> exact ⟨rfl, rfl, rfl⟩

/-- the s2s nonce store after a vp_token-bearer request is the old one or the result of the nonce loop -/
theorem issueS2S_nonces (cfg : Cfg) (w : World) (t : Nat) (r : S2SReq) :
    (issueS2S cfg w t r).1.s2sNonces = w.s2sNonces ∨
    (issueS2S cfg w t r).1.s2sNonces = (s2sNonceLoop cfg t r.vps w.s2sNonces).1 := by
  unfold issueS2S
  repeat' (first
    | exact Or.inl rfl
    | split
    | simp only)
  all_goals
    have hnc := ‹nonceCheck cfg t r.nonceFault r.vps w.s2sNonces = _›
    have hfst := nonceCheck_fst cfg t r.nonceFault r.vps w.s2sNonces
    rw [hnc] at hfst
    simp only at hfst
    first
    | (rcases hfst with h1 | h1
       · left; exact h1
       · right; exact h1)
    | (rw [(createAccessToken_other _ _ _ _ _ _ _ _).1]
       rcases hfst with h1 | h1
       · left; exact h1
       · right; exact h1)

theorem issueCode_nonces (cfg : Cfg) (sha : String → String) (w : World) (t : Nat) (r : CodeReq) :
    (issueCode cfg sha w t r).1.s2sNonces = w.s2sNonces := by
  unfold issueCode
  repeat' (first
    | rfl
    | (rename_i w2 _ hcreate
       have := congrArg Prod.fst hcreate
       simp only at this
       rw [← this, (createAccessToken_other _ _ _ _ _ _ _ _).1])
    | split
    | simp only)

/-- no operation at a time `t` with `bound ≤ t + ttl` makes the server forget a nonce it remembers until `bound` -/
theorem step_live (cfg : Cfg) (sha : String → String) (httl : cfg.nonceTtl ≠ 0) (w : World) (t : Nat) (op : Op)
    (n : String) (b : Nat) (hb : b ≤ t + cfg.nonceTtl) (h : Live w.s2sNonces n b) :
    Live (step cfg sha w t op).1.s2sNonces n b := by
  cases op with
  | s2s r =>
    simp only [step]
    rcases issueS2S_nonces cfg w t r with h1 | h1
    · rw [h1]; exact h
    · rw [h1]; exact nonceLoop_live cfg t httl n b hb r.vps _ h
  | auth r => simp only [step]; rw [(authorizeResponse_frame cfg w t r).2.2]; exact h
  | code r => simp only [step]; rw [issueCode_nonces]; exact h
  | seed state nonce session => exact h
  | authreq r => simp only [step]; rw [(authorizeRequest_frame cfg w t r).2.2.1]; exact h

theorem after_live (cfg : Cfg) (sha : String → String) (httl : cfg.nonceTtl ≠ 0) (n : String) (b : Nat) :
    ∀ (hist : List (Nat × Op)) (w : World), (∀ x ∈ hist, b ≤ x.1 + cfg.nonceTtl) → Live w.s2sNonces n b →
      Live (after cfg sha hist w).s2sNonces n b := by
  intro hist
  induction hist with
  | nil => intro w _ h; simpa [after, run] using h
  | cons x rest ih =>
    obtain ⟨t, op⟩ := x
    intro w ht h
    rw [after_cons]
    exact ih _ (fun y hy => ht y (List.mem_cons_of_mem _ hy)) (step_live cfg sha httl w t op n b (ht (t, op) List.mem_cons_self) h)

/-- a request that carries a nonce the server still remembers gets no token -/
theorem issueS2S_rejects_live (cfg : Cfg) (w : World) (t : Nat) (r : S2SReq) (hchk : cfg.emptyVpChecked = true)
    (httl : cfg.nonceTtl ≠ 0) (hwf : ∀ vp ∈ r.vps, vp.signer ≠ some "") (vp : VP) (hvp : vp ∈ r.vps) (b : Nat)
    (hlive : Live w.s2sNonces vp.nonce b) (ht : t ≤ b) : ∀ resp, (issueS2S cfg w t r).2 ≠ .ok resp := by
  intro resp hok
  have h : issueS2S cfg w t r = ((issueS2S cfg w t r).1, .ok resp) := by rw [← hok]
  obtain ⟨s, d, hc, _⟩ := issueS2S_ok cfg w _ t r resp hchk httl hwf h
  have := (hc.nonce vp hvp).2
  rw [hlive.get ht] at this
  cases this

/-! ### authorization codes over histories; issued tokens stay -/

/-- the authorization code `c` is not in the store and can never be issued again -/
def CodeGone (w : World) (c : String) : Prop := w.codes.find c = none ∧ ∃ n, c = codeName n ∧ n < w.nextCode

theorem find_del_none {α : Type} (s : Store α) (k k' : String) (h : s.find k = none) : (s.del k').find k = none := by
  by_cases hk : k' = k
  · subst hk; exact Store.find_del_same s k'
  · rw [Store.find_del_ne s k k' hk]; exact h

theorem gad_find_none {α : Type} (s : Store α) (t : Nat) (k c : String) (h : s.find c = none) :
    (s.getAndDelete t k).2.find c = none := by
  unfold Store.getAndDelete
  split
  · exact find_del_none _ _ _ h
  · exact h

theorem issueCode_codes (cfg : Cfg) (sha : String → String) (w : World) (t : Nat) (r : CodeReq) (c : String)
    (h : w.codes.find c = none) :
    (issueCode cfg sha w t r).1.codes.find c = none ∧ (issueCode cfg sha w t r).1.nextCode = w.nextCode := by
  unfold issueCode
  repeat' (first
    | exact ⟨h, rfl⟩
    | exact ⟨find_del_none _ _ _ h, rfl⟩
    | split
    | simp only)
  all_goals
    have hcs := congrArg Prod.snd ‹w.codes.getAndDelete t _ = _›
    simp only at hcs
    subst hcs
    first
    | exact ⟨find_del_none _ _ _ (gad_find_none _ _ _ _ h), trivial⟩
    | (rename_i w2 _ hcreate
       have hw2 := congrArg Prod.fst hcreate
       simp only at hw2
       rw [← hw2, (createAccessToken_other _ _ _ _ _ _ _ _).2.1, (createAccessToken_other _ _ _ _ _ _ _ _).2.2]
       exact ⟨find_del_none _ _ _ (gad_find_none _ _ _ _ h), rfl⟩)

/-- the authorize-response handler changes the code store only by storing a code under the next name -/
theorem authorizeResponse_codes (cfg : Cfg) (w : World) (t : Nat) (r : AuthResp) :
    ((authorizeResponse cfg w t r).1.codes = w.codes ∧ (authorizeResponse cfg w t r).1.nextCode = w.nextCode) ∨
    (∃ s, (authorizeResponse cfg w t r).1.codes = w.codes.put t cfg.codeTtl (codeName w.nextCode) s ∧
      (authorizeResponse cfg w t r).1.nextCode = w.nextCode + 1) := by
  unfold authorizeResponse
  repeat' (first
    | exact Or.inl ⟨rfl, rfl⟩
    | exact Or.inr ⟨_, rfl, rfl⟩
    | split
    | simp only)

theorem step_codeGone (cfg : Cfg) (sha : String → String) (w : World) (t : Nat) (op : Op) (c : String)
    (h : CodeGone w c) : CodeGone (step cfg sha w t op).1 c := by
  obtain ⟨hf, n, hn, hlt⟩ := h
  cases op with
  | s2s r =>
    simp only [step]
    rcases issueS2S_frame cfg w t r with ⟨resp, hr⟩ | hfr
    · -- a token was issued: createAccessToken does not touch the codes
      have : (issueS2S cfg w t r).1.codes = w.codes ∧ (issueS2S cfg w t r).1.nextCode = w.nextCode := by
        unfold issueS2S
        repeat' (first
          | exact ⟨rfl, rfl⟩
          | exact ⟨(createAccessToken_other _ _ _ _ _ _ _ _).2.1, (createAccessToken_other _ _ _ _ _ _ _ _).2.2⟩
          | split
          | simp only)
      exact ⟨by rw [this.1]; exact hf, n, hn, by rw [this.2]; exact hlt⟩
    · exact ⟨by rw [hfr.2.2.1]; exact hf, n, hn, by rw [hfr.2.2.2]; exact hlt⟩
  | auth r =>
    simp only [step]
    rcases authorizeResponse_codes cfg w t r with ⟨h1, h2⟩ | ⟨s, h1, h2⟩
    · exact ⟨by rw [h1]; exact hf, n, hn, by rw [h2]; exact hlt⟩
    · refine ⟨?_, n, hn, by rw [h2]; omega⟩
      rw [h1, Store.find_put_ne _ _ _ _ _ _ (fun e => by rw [hn] at e; have := codeName_inj _ _ e; omega)]
      exact hf
  | code r =>
    simp only [step]
    obtain ⟨h1, h2⟩ := issueCode_codes cfg sha w t r c hf
    exact ⟨h1, n, hn, by rw [h2]; exact hlt⟩
  | seed state nonce session => exact ⟨hf, n, hn, hlt⟩
  | authreq r =>
    simp only [step]
    have hfr := authorizeRequest_frame cfg w t r
    exact ⟨by rw [hfr.2.2.2.1]; exact hf, n, hn, by rw [hfr.2.2.2.2]; exact hlt⟩

theorem after_codeGone (cfg : Cfg) (sha : String → String) (c : String) :
    ∀ (hist : List (Nat × Op)) (w : World), CodeGone w c → CodeGone (after cfg sha hist w) c := by
  intro hist
  induction hist with
  | nil => intro w h; simpa [after, run] using h
  | cons x rest ih =>
    obtain ⟨t, op⟩ := x
    intro w h
    rw [after_cons]
    exact ih _ (step_codeGone cfg sha w t op c h)

/-- a code that is gone buys no token -/
theorem issueCode_rejects_gone (cfg : Cfg) (sha : String → String) (w : World) (t : Nat) (r : CodeReq) (c : String)
    (hc : r.code = some c) (h : w.codes.find c = none) : ∀ resp, (issueCode cfg sha w t r).2 ≠ .ok resp := by
  intro resp hok
  have hh : issueCode cfg sha w t r = ((issueCode cfg sha w t r).1, .ok resp) := by rw [← hok]
  obtain ⟨code, verifier, session, hchk, _⟩ := issueCode_ok cfg sha w _ t r resp hh
  have : code = c := by have := hchk.codeGiven; rw [hc] at this; exact (Option.some.inj this).symm
  subst this
  have := hchk.known
  simp [Store.get, h] at this

theorem after_tokKeys (cfg : Cfg) (sha : String → String) (hchk : cfg.emptyVpChecked = true) (httl : cfg.nonceTtl ≠ 0) :
    ∀ (hist : List (Nat × Op)) (w : World), HistWF hist → TokKeys w → TokKeys (after cfg sha hist w) := by
  intro hist
  induction hist with
  | nil => intro w _ h; simpa [after, run] using h
  | cons x rest ih =>
    obtain ⟨t, op⟩ := x
    intro w hwf h
    rw [after_cons]
    exact ih _ (fun t' r hm => hwf t' r (List.mem_cons_of_mem _ hm))
      (tokKeys_step cfg sha hchk httl w t op (fun r hr vp hvp => hwf t r (by rw [hr]; exact List.mem_cons_self) vp hvp) h).1

theorem tokKeys_empty : TokKeys {} := by
  intro k ⟨e, he⟩; cases he

theorem tokName_ne_empty (n : Nat) : tokName n ≠ "" := by
  unfold tokName
  intro h
  have := congrArg String.length h
  simp at this

/-- once issued, the record stays retrievable under its name exactly until its store entry expires, whatever
    happens afterwards -/
theorem issued_token_stays (cfg : Cfg) (sha : String → String) (hchk : cfg.emptyVpChecked = true)
    (httl : cfg.nonceTtl ≠ 0) (httl' : cfg.tokenTtl ≠ 0)
    (pre post : List (Nat × Op)) (t : Nat) (op : Op) (name : String) (rec : TokenRec)
    (hwf : HistWF (pre ++ (t, op) :: post))
    (hiss : Issued cfg sha (after cfg sha pre {}) t op name rec) (now : Nat) :
    (after cfg sha (pre ++ (t, op) :: post) {}).tokens.get now name =
      if now ≤ t + cfg.tokenTtl then some rec else none := by
  obtain ⟨resp, _, _, hname, hput, hnext, _, _⟩ := hiss
  have hwfpre : HistWF pre := fun t' r hm => hwf t' r (List.mem_append_left _ hm)
  have hwfpost : HistWF post := fun t' r hm => hwf t' r (List.mem_append_right _ (List.mem_cons_of_mem _ hm))
  have hwf0 : ∀ r, op = .s2s r → ∀ vp ∈ r.vps, vp.signer ≠ some "" :=
    fun r hr vp hvp => hwf t r (by rw [hr]; exact List.mem_append_right _ List.mem_cons_self) vp hvp
  have hk0 := after_tokKeys cfg sha hchk httl pre {} hwfpre tokKeys_empty
  have hk1 := (tokKeys_step cfg sha hchk httl _ t op hwf0 hk0).1
  rw [after_append, after_cons]
  have hstable := token_entry_stable cfg sha hchk httl post _ hwfpost hk1 (after cfg sha pre {}).nextTok (by rw [hnext]; omega)
  rw [← hname] at hstable
  simp only [Store.get, hstable, hput, Store.find_put_same _ _ _ _ _ httl']

end Nuts.C02
