/-
  C13 helper lemmas (invariants of the subject model).
-/
import NutsModel.C13.Subject

namespace Nuts.C13
open Nuts

/-- the two repairs are in the source (regenerated facts) -/
structure Fixed (cfg : Cfg) : Prop where
  notFound : cfg.notFoundIsUncommitted = true
  delDid : cfg.rollbackDeletesCreatedDID = true

end Nuts.C13
