/-
  C13 helper lemmas (invariants of the subject model).
-/
import NutsModel.C13.Subject

namespace Nuts.C13
open Nuts

/-- the two repairs are in the source (regenerated facts) -/
structure Fixed (cfg : Cfg) : Prop where
  notFound : cfg.notFoundIsUncommitted = true
  delDid : cfg.rollbackDeletesCreatedDID = true
  wholeTx : cfg.sweepWholeTx = true

/-! ### generic list facts -/

theorem eq_of_nodup_map {α β} (f : α → β) : ∀ (l : List α), (l.map f).Nodup → ∀ a ∈ l, ∀ b ∈ l, f a = f b → a = b
  | [], _, a, ha, _, _, _ => by cases ha
  | x :: xs, h, a, ha, b, hb, hab => by
    simp only [List.map_cons, List.nodup_cons, List.mem_map, not_exists, not_and] at h
    rcases List.mem_cons.1 ha with rfl | ha'
    · rcases List.mem_cons.1 hb with rfl | hb'
      · rfl
      · exact absurd hab.symm (h.1 b hb')
    · rcases List.mem_cons.1 hb with rfl | hb'
      · exact absurd hab (h.1 a ha')
      · exact eq_of_nodup_map f xs h.2 a ha' b hb' hab

theorem map_filter_eq_filterMap {α β} (f : α → β) (p : β → Bool) (g : α → Option β) :
    ∀ (l : List α), (∀ a ∈ l, g a = if p (f a) then some (f a) else none) → (l.map f).filter p = l.filterMap g
  | [], _ => rfl
  | x :: xs, h => by
    have hx := h x (List.mem_cons_self ..)
    have ih := map_filter_eq_filterMap f p g xs (fun a ha => h a (List.mem_cons_of_mem _ ha))
    simp only [List.map_cons, List.filter_cons, List.filterMap_cons, hx]
    by_cases hp : p (f x) = true
    · simp [hp, ih]
    · simp [hp, ih]

theorem map_eq_filterMap {α β} (f : α → β) (g : α → Option β) :
    ∀ (l : List α), (∀ a ∈ l, g a = some (f a)) → l.map f = l.filterMap g
  | [], _ => rfl
  | x :: xs, h => by
    have hx := h x (List.mem_cons_self ..)
    have ih := map_eq_filterMap f g xs (fun a ha => h a (List.mem_cons_of_mem _ ha))
    simp [List.filterMap_cons, hx, ih]

/-! ### the invariant -/

/-- version numbers of a DID are `n-1, …, 1, 0` (newest first) -/
def Consec : List Ver → Prop
  | [] => True
  | v :: vs => v.n = vs.length ∧ Consec vs

/-- what the versions of all DIDs of one subject have in common -/
def sig (r : DidRow) : List (Nat × List String × Option Pending) :=
  r.vers.map (fun v => (v.n, v.c.svcs, v.pending))

structure Inv (dids : List DidRow) (next : Nat) : Prop where
  idLt : ∀ r ∈ dids, r.id < next
  rowLt : ∀ r ∈ dids, ∀ v ∈ r.vers, v.row < next
  txLt : ∀ r ∈ dids, ∀ v ∈ r.vers, ∀ p, v.pending = some p → p.tx < next
  idsNodup : (dids.map (·.id)).Nodup
  rowsNodup : ∀ r ∈ dids, (r.vers.map (·.row)).Nodup
  uniform : ∀ r ∈ dids, ∀ r' ∈ dids, r.subject = r'.subject → sig r = sig r'
  consec : ∀ r ∈ dids, Consec r.vers
  topOnly : ∀ r ∈ dids, ∀ v ∈ r.vers.tail, v.pending = none
  noOrphan : ∀ r ∈ dids, r.vers ≠ []
  createdIff : ∀ r ∈ dids, ∀ v vs p, r.vers = v :: vs → v.pending = some p → (p.typ = .created ↔ vs = [])
  oneMethod : ∀ r ∈ dids, ∀ r' ∈ dids, r.subject = r'.subject → r.method = r'.method → r.id = r'.id

/-- no change record of the subject is left -/
def Clean (dids : List DidRow) (s : String) : Prop :=
  ∀ r ∈ dids, r.subject = s → ∀ v ∈ r.vers, v.pending = none

theorem inv_mono {dids next next'} (h : Inv dids next) (hn : next ≤ next') : Inv dids next' :=
  { h with
    idLt := fun r hr => Nat.lt_of_lt_of_le (h.idLt r hr) hn
    rowLt := fun r hr v hv => Nat.lt_of_lt_of_le (h.rowLt r hr v hv) hn
    txLt := fun r hr v hv p hp => Nat.lt_of_lt_of_le (h.txLt r hr v hv p hp) hn }

theorem inv_nil (n : Nat) : Inv [] n := by
  constructor <;> simp


/-! ### a row-wise transformation that keeps id / subject / method preserves the invariant if it does so row by row -/

theorem nodup_map_filterMap (F : DidRow → Option DidRow) :
    ∀ (l : List DidRow), (∀ r ∈ l, ∀ r', F r = some r' → r'.id = r.id) → (l.map (·.id)).Nodup →
      ((l.filterMap F).map (·.id)).Nodup
  | [], _, _ => by simp
  | x :: xs, hid, hn => by
    simp only [List.map_cons, List.nodup_cons] at hn
    have ih := nodup_map_filterMap F xs (fun r hr => hid r (List.mem_cons_of_mem _ hr)) hn.2
    cases hx : F x with
    | none => simpa [List.filterMap_cons, hx] using ih
    | some x' =>
      simp only [List.filterMap_cons, hx, List.map_cons, List.nodup_cons]
      refine ⟨?_, ih⟩
      intro hmem
      rcases List.mem_map.1 hmem with ⟨y', hy', hyid⟩
      rcases List.mem_filterMap.1 hy' with ⟨y, hy, hFy⟩
      have h1 := hid y (List.mem_cons_of_mem _ hy) y' hFy
      have h2 := hid x (List.mem_cons_self ..) x' hx
      exact hn.1 (List.mem_map.2 ⟨y, hy, by rw [← h1, hyid, h2]⟩)

theorem inv_filterMap {dids : List DidRow} {n n' : Nat} (F : DidRow → Option DidRow) (h : Inv dids n) (hn : n ≤ n')
    (hid : ∀ r ∈ dids, ∀ r', F r = some r' → r'.id = r.id ∧ r'.subject = r.subject ∧ r'.method = r.method)
    (hrow : ∀ r ∈ dids, ∀ r', F r = some r' → ∀ v ∈ r'.vers, v.row < n')
    (htx : ∀ r ∈ dids, ∀ r', F r = some r' → ∀ v ∈ r'.vers, ∀ p, v.pending = some p → p.tx < n')
    (hnd : ∀ r ∈ dids, ∀ r', F r = some r' → (r'.vers.map (·.row)).Nodup)
    (hsig : ∀ r ∈ dids, ∀ r2 ∈ dids, r.subject = r2.subject → ∀ r' r2', F r = some r' → F r2 = some r2' → sig r' = sig r2')
    (hcon : ∀ r ∈ dids, ∀ r', F r = some r' → Consec r'.vers)
    (htop : ∀ r ∈ dids, ∀ r', F r = some r' → ∀ v ∈ r'.vers.tail, v.pending = none)
    (horph : ∀ r ∈ dids, ∀ r', F r = some r' → r'.vers ≠ [])
    (hcb : ∀ r ∈ dids, ∀ r', F r = some r' → ∀ v vs p, r'.vers = v :: vs → v.pending = some p → (p.typ = .created ↔ vs = [])) :
    Inv (dids.filterMap F) n' := by
  have mem : ∀ r' ∈ dids.filterMap F, ∃ r ∈ dids, F r = some r' := fun r' hr' => List.mem_filterMap.1 hr'
  refine
    { idLt := ?_, rowLt := ?_, txLt := ?_, idsNodup := ?_, rowsNodup := ?_, uniform := ?_, consec := ?_, topOnly := ?_,
      noOrphan := ?_, createdIff := ?_, oneMethod := ?_ }
  · intro r' hr'
    rcases mem r' hr' with ⟨r, hr, hF⟩
    rw [(hid r hr r' hF).1]
    exact Nat.lt_of_lt_of_le (h.idLt r hr) hn
  · intro r' hr'
    rcases mem r' hr' with ⟨r, hr, hF⟩
    exact hrow r hr r' hF
  · intro r' hr'
    rcases mem r' hr' with ⟨r, hr, hF⟩
    exact htx r hr r' hF
  · exact nodup_map_filterMap F dids (fun r hr r' hF => (hid r hr r' hF).1) h.idsNodup
  · intro r' hr'
    rcases mem r' hr' with ⟨r, hr, hF⟩
    exact hnd r hr r' hF
  · intro r' hr' r2' hr2' hs
    rcases mem r' hr' with ⟨r, hr, hF⟩
    rcases mem r2' hr2' with ⟨r2, hr2, hF2⟩
    refine hsig r hr r2 hr2 ?_ r' r2' hF hF2
    rw [← (hid r hr r' hF).2.1, ← (hid r2 hr2 r2' hF2).2.1, hs]
  · intro r' hr'
    rcases mem r' hr' with ⟨r, hr, hF⟩
    exact hcon r hr r' hF
  · intro r' hr'
    rcases mem r' hr' with ⟨r, hr, hF⟩
    exact htop r hr r' hF
  · intro r' hr'
    rcases mem r' hr' with ⟨r, hr, hF⟩
    exact horph r hr r' hF
  · intro r' hr'
    rcases mem r' hr' with ⟨r, hr, hF⟩
    exact hcb r hr r' hF
  · intro r' hr' r2' hr2' hs hm
    rcases mem r' hr' with ⟨r, hr, hF⟩
    rcases mem r2' hr2' with ⟨r2, hr2, hF2⟩
    have a := hid r hr r' hF
    have b := hid r2 hr2 r2' hF2
    rw [a.1, b.1]
    exact h.oneMethod r hr r2 hr2 (by rw [← a.2.1, ← b.2.1, hs]) (by rw [← a.2.2, ← b.2.2, hm])

/-! ### deleteLogTx -/

def clearRow (t : Nat) (r : DidRow) : DidRow := { r with vers := r.vers.map (clearTx t) }

theorem deleteLogTx_dids (t : Nat) (w : World) : (deleteLogTx t w).dids = w.dids.map (clearRow t) := rfl

theorem clearTx_row (t : Nat) (v : Ver) : (clearTx t v).row = v.row := by
  unfold clearTx; split
  · split <;> rfl
  · rfl
theorem clearTx_n (t : Nat) (v : Ver) : (clearTx t v).n = v.n := by
  unfold clearTx; split
  · split <;> rfl
  · rfl
theorem clearTx_ts (t : Nat) (v : Ver) : (clearTx t v).ts = v.ts := by
  unfold clearTx; split
  · split <;> rfl
  · rfl
theorem clearTx_c (t : Nat) (v : Ver) : (clearTx t v).c = v.c := by
  unfold clearTx; split
  · split <;> rfl
  · rfl

def clearP (t : Nat) (p : Option Pending) : Option Pending :=
  match p with
  | some q => if q.tx = t then none else some q
  | none => none

theorem clearTx_pending (t : Nat) (v : Ver) : (clearTx t v).pending = clearP t v.pending := by
  unfold clearTx clearP
  split
  · rename_i p hp
    rw [hp]
    split <;> simp_all
  · rename_i hp
    rw [hp]

theorem clearP_some {t : Nat} {p : Option Pending} {q : Pending} (h : clearP t p = some q) : p = some q ∧ q.tx ≠ t := by
  unfold clearP at h
  split at h
  · split at h
    · cases h
    · rename_i hne; cases h; exact ⟨rfl, hne⟩
  · cases h

theorem clearP_none (t : Nat) : clearP t none = none := rfl

theorem consec_clear (t : Nat) : ∀ vs : List Ver, Consec vs → Consec (vs.map (clearTx t))
  | [], _ => trivial
  | v :: vs, h => by
    simp only [List.map_cons, Consec, clearTx_n, List.length_map]
    exact ⟨h.1, consec_clear t vs h.2⟩

theorem sig_clearRow (t : Nat) (r : DidRow) :
    sig (clearRow t r) = (sig r).map (fun x => (x.1, x.2.1, clearP t x.2.2)) := by
  simp only [sig, clearRow, List.map_map]
  apply List.map_congr_left
  intro v _
  simp [clearTx_n, clearTx_c, clearTx_pending]

theorem inv_clear {dids : List DidRow} {n : Nat} (t : Nat) (h : Inv dids n) : Inv (dids.map (clearRow t)) n := by
  rw [map_eq_filterMap (clearRow t) (fun r => some (clearRow t r)) dids (fun _ _ => rfl)]
  apply inv_filterMap _ h (Nat.le_refl _)
  · intro r _ r' hF; cases hF; exact ⟨rfl, rfl, rfl⟩
  · intro r hr r' hF v hv; cases hF
    rcases List.mem_map.1 hv with ⟨u, hu, rfl⟩
    rw [clearTx_row]; exact h.rowLt r hr u hu
  · intro r hr r' hF v hv p hp; cases hF
    rcases List.mem_map.1 hv with ⟨u, hu, rfl⟩
    rw [clearTx_pending] at hp
    exact h.txLt r hr u hu p (clearP_some hp).1
  · intro r hr r' hF; cases hF
    have : (clearRow t r).vers.map (·.row) = r.vers.map (·.row) := by
      simp only [clearRow, List.map_map]
      apply List.map_congr_left; intro v _; simp [clearTx_row]
    rw [this]; exact h.rowsNodup r hr
  · intro r hr r2 hr2 hs r' r2' hF hF2; cases hF; cases hF2
    rw [sig_clearRow, sig_clearRow, h.uniform r hr r2 hr2 hs]
  · intro r hr r' hF; cases hF
    exact consec_clear t _ (h.consec r hr)
  · intro r hr r' hF v hv; cases hF
    simp only [clearRow, ← List.map_tail] at hv
    rcases List.mem_map.1 hv with ⟨u, hu, rfl⟩
    rw [clearTx_pending, h.topOnly r hr u hu]; rfl
  · intro r hr r' hF; cases hF
    simp only [clearRow, ne_eq, List.map_eq_nil_iff]
    exact h.noOrphan r hr
  · intro r hr r' hF v vs p hv hp; cases hF
    simp only [clearRow] at hv
    cases hvs : r.vers with
    | nil => rw [hvs] at hv; cases hv
    | cons u us =>
      rw [hvs] at hv
      simp only [List.map_cons, List.cons.injEq] at hv
      rcases hv with ⟨rfl, rfl⟩
      rw [clearTx_pending] at hp
      rw [h.createdIff r hr u us p hvs (clearP_some hp).1]
      simp

/-! ### deleting the (pending) head version of selected rows -/

def dropHead (cfg : Cfg) (r : DidRow) : Option DidRow :=
  match r.vers with
  | v :: vs =>
    if cfg.rollbackDeletesCreatedDID = true ∧ v.pending.map (·.typ) = some .created then none
    else some { r with vers := vs }
  | [] => some r

def dropSel (cfg : Cfg) (sel : DidRow → Bool) (r : DidRow) : Option DidRow :=
  if sel r = true then dropHead cfg r else some r

theorem dropSel_some {cfg : Cfg} {sel : DidRow → Bool} {r r' : DidRow} (h : dropSel cfg sel r = some r')
    (hp : sel r = true → ∃ v vs p, r.vers = v :: vs ∧ v.pending = some p) :
    (sel r = false ∧ r = r') ∨
    (sel r = true ∧ ∃ v vs p, r.vers = v :: vs ∧ v.pending = some p ∧ r' = { r with vers := vs } ∧
      ¬ (cfg.rollbackDeletesCreatedDID = true ∧ p.typ = .created)) := by
  unfold dropSel at h
  by_cases hs : sel r = true
  · rw [if_pos hs] at h
    rcases hp hs with ⟨v, vs, p, hv, hpv⟩
    refine Or.inr ⟨hs, v, vs, p, hv, hpv, ?_⟩
    unfold dropHead at h
    rw [hv] at h
    simp only [hpv, Option.map_some, Option.some.injEq] at h
    split at h
    · cases h
    · rename_i hc
      cases h
      exact ⟨rfl, hc⟩
  · rw [if_neg hs] at h
    cases h
    exact Or.inl ⟨by simpa using hs, rfl⟩

theorem inv_dropSel {cfg : Cfg} {dids : List DidRow} {n : Nat} (sel : DidRow → Bool) (hfix : Fixed cfg) (h : Inv dids n)
    (hsel : ∀ r ∈ dids, ∀ r2 ∈ dids, r.subject = r2.subject → sel r = sel r2)
    (hpend : ∀ r ∈ dids, sel r = true → ∃ v vs p, r.vers = v :: vs ∧ v.pending = some p) :
    Inv (dids.filterMap (dropSel cfg sel)) n := by
  apply inv_filterMap _ h (Nat.le_refl _)
  · intro r hr r' hF
    rcases dropSel_some hF (hpend r hr) with ⟨_, rfl⟩ | ⟨_, v, vs, p, _, _, rfl, _⟩ <;> exact ⟨rfl, rfl, rfl⟩
  · intro r hr r' hF u hu
    rcases dropSel_some hF (hpend r hr) with ⟨_, rfl⟩ | ⟨_, v, vs, p, hv, _, rfl, _⟩
    · exact h.rowLt r hr u hu
    · exact h.rowLt r hr u (by rw [hv]; exact List.mem_cons_of_mem _ hu)
  · intro r hr r' hF u hu q hq
    rcases dropSel_some hF (hpend r hr) with ⟨_, rfl⟩ | ⟨_, v, vs, p, hv, _, rfl, _⟩
    · exact h.txLt r hr u hu q hq
    · exact h.txLt r hr u (by rw [hv]; exact List.mem_cons_of_mem _ hu) q hq
  · intro r hr r' hF
    rcases dropSel_some hF (hpend r hr) with ⟨_, rfl⟩ | ⟨_, v, vs, p, hv, _, rfl, _⟩
    · exact h.rowsNodup r hr
    · have := h.rowsNodup r hr
      rw [hv, List.map_cons, List.nodup_cons] at this
      exact this.2
  · intro r hr r2 hr2 hs r' r2' hF hF2
    have hu := h.uniform r hr r2 hr2 hs
    have hse := hsel r hr r2 hr2 hs
    rcases dropSel_some hF (hpend r hr) with ⟨h1, rfl⟩ | ⟨h1, v, vs, p, hv, _, rfl, _⟩
    · rcases dropSel_some hF2 (hpend r2 hr2) with ⟨_, rfl⟩ | ⟨h2, _⟩
      · exact hu
      · rw [hse, h2] at h1; cases h1
    · rcases dropSel_some hF2 (hpend r2 hr2) with ⟨h2, _⟩ | ⟨_, v2, vs2, p2, hv2, _, rfl, _⟩
      · rw [hse, h2] at h1; cases h1
      · simp only [sig, hv, hv2, List.map_cons, List.cons.injEq] at hu
        exact hu.2
  · intro r hr r' hF
    rcases dropSel_some hF (hpend r hr) with ⟨_, rfl⟩ | ⟨_, v, vs, p, hv, _, rfl, _⟩
    · exact h.consec r hr
    · have := h.consec r hr
      rw [hv] at this
      exact this.2
  · intro r hr r' hF u hu
    rcases dropSel_some hF (hpend r hr) with ⟨_, rfl⟩ | ⟨_, v, vs, p, hv, _, rfl, _⟩
    · exact h.topOnly r hr u hu
    · exact h.topOnly r hr u (by rw [hv]; exact List.mem_of_mem_tail hu)
  · intro r hr r' hF
    rcases dropSel_some hF (hpend r hr) with ⟨_, rfl⟩ | ⟨_, v, vs, p, hv, hpv, rfl, hnc⟩
    · exact h.noOrphan r hr
    · intro hnil
      simp only at hnil
      rw [hnil] at hv
      exact hnc ⟨hfix.delDid, (h.createdIff r hr v [] p hv hpv).2 rfl⟩
  · intro r hr r' hF u us q hu hq
    rcases dropSel_some hF (hpend r hr) with ⟨_, rfl⟩ | ⟨_, v, vs, p, hv, _, rfl, _⟩
    · exact h.createdIff r hr u us q hu hq
    · simp only at hu
      have : u.pending = none := h.topOnly r hr u (by rw [hv, hu]; exact List.mem_cons_self ..)
      rw [this] at hq; cases hq

/-! ### tx1 of an update: pushing one pending version on every DID of the subject -/

/-- `rowOp` seen through the services only -/
def rowOpS (o : Op) (cur : Option (List String)) : Option (List String) :=
  match o, cur with
  | .deactivate _, _ => some []
  | .addSvc _ s, some c => if c.contains s then none else some (c ++ [s])
  | .updSvc _ old new, some c => some (c.filter (· != old) ++ [new])
  | .delSvc _ s, some c => some (c.filter (· != s))
  | .addKey _, some c => some c
  | _, _ => none

theorem rowOp_svcs (o : Op) (k : Nat) (cur : Option Content) :
    (rowOp o k cur).map (·.svcs) = rowOpS o (cur.map (·.svcs)) := by
  cases o <;> cases cur <;> simp [rowOp, rowOpS, Content.empty]
  all_goals (split <;> simp)

def nextVersionS (sg : List (Nat × List String × Option Pending)) : Nat :=
  match sg with
  | [] => 0
  | x :: _ => x.1 + 1

def pushSig (o : Op) (base : Nat) (sg : List (Nat × List String × Option Pending)) :
    List (Nat × List String × Option Pending) :=
  match rowOpS o (sg.head?.map (·.2.1.eraseDups)) with
  | some svcs => (nextVersionS sg, svcs, some { typ := o.chType, tx := base }) :: sg
  | none => sg

theorem sig_pushRow (o : Op) (base now : Nat) (r : DidRow) (hs : r.subject = o.subject) :
    sig (pushRow o base now r) = pushSig o base (sig r) := by
  have h1 := rowOp_svcs o (base + r.id) (r.vers.head?.map (fun v => loadContent v.c))
  have h2 : (sig r).head?.map (·.2.1.eraseDups) = (r.vers.head?.map (fun v => loadContent v.c)).map (·.svcs) := by
    unfold sig; cases r.vers <;> simp [loadContent]
  have h3 : nextVersionS (sig r) = nextVersion r.vers := by
    unfold sig nextVersionS nextVersion; cases r.vers <;> simp
  unfold pushRow pushSig newContent
  rw [if_pos hs, h2, ← h1, h3]
  cases rowOp o (base + r.id) (r.vers.head?.map (fun v => loadContent v.c)) with
  | none => rfl
  | some c => simp [sig]

theorem rowOp_some_not_create {o : Op} {k : Nat} {cur : Option Content} {c : Content} (h : rowOp o k cur = some c) :
    o.chType ≠ .created := by
  cases o <;> cases cur <;> simp [rowOp, Op.chType] at h ⊢

theorem pushRow_cases (o : Op) (base now : Nat) (r : DidRow) :
    pushRow o base now r = r ∨
    (r.subject = o.subject ∧ o.chType ≠ .created ∧ ∃ c, pushRow o base now r =
      { r with vers := { row := base + r.id, n := nextVersion r.vers, ts := now, c := c,
                         pending := some { typ := o.chType, tx := base } } :: r.vers }) := by
  unfold pushRow newContent
  by_cases hs : r.subject = o.subject
  · rw [if_pos hs]
    cases hro : rowOp o (base + r.id) (r.vers.head?.map (fun v => loadContent v.c)) with
    | none => exact Or.inl rfl
    | some c => exact Or.inr ⟨hs, rowOp_some_not_create hro, c, rfl⟩
  · rw [if_neg hs]; exact Or.inl rfl

theorem nextVersion_consec : ∀ vs : List Ver, Consec vs → nextVersion vs = vs.length
  | [], _ => rfl
  | v :: vs, h => by simp [nextVersion, h.1]

theorem inv_push {dids : List DidRow} {n : Nat} (o : Op) (now : Nat) (h : Inv dids n) (hc : Clean dids o.subject) :
    Inv (dids.map (pushRow o n now)) (2 * n + 2) := by
  rw [map_eq_filterMap (pushRow o n now) (fun r => some (pushRow o n now r)) dids (fun _ _ => rfl)]
  apply inv_filterMap _ h (by omega)
  · intro r _ r' hF; cases hF
    rcases pushRow_cases o n now r with he | ⟨_, hct, c, he⟩ <;> rw [he] <;> exact ⟨rfl, rfl, rfl⟩
  · intro r hr r' hF u hu; cases hF
    rcases pushRow_cases o n now r with he | ⟨_, hct, c, he⟩ <;> rw [he] at hu
    · have := h.rowLt r hr u hu; omega
    · rcases List.mem_cons.1 hu with rfl | hu'
      · have := h.idLt r hr; simp only; omega
      · have := h.rowLt r hr u hu'; omega
  · intro r hr r' hF u hu q hq; cases hF
    rcases pushRow_cases o n now r with he | ⟨_, hct, c, he⟩ <;> rw [he] at hu
    · have := h.txLt r hr u hu q hq; omega
    · rcases List.mem_cons.1 hu with rfl | hu'
      · simp only [Option.some.injEq] at hq
        subst hq; simp only; omega
      · have := h.txLt r hr u hu' q hq; omega
  · intro r hr r' hF; cases hF
    rcases pushRow_cases o n now r with he | ⟨_, hct, c, he⟩ <;> rw [he]
    · exact h.rowsNodup r hr
    · simp only [List.map_cons, List.nodup_cons]
      refine ⟨?_, h.rowsNodup r hr⟩
      intro hm
      rcases List.mem_map.1 hm with ⟨u, hu, hue⟩
      have := h.rowLt r hr u hu
      omega
  · intro r hr r2 hr2 hs r' r2' hF hF2; cases hF; cases hF2
    by_cases hso : r.subject = o.subject
    · rw [sig_pushRow o n now r hso, sig_pushRow o n now r2 (hs ▸ hso), h.uniform r hr r2 hr2 hs]
    · have e1 : pushRow o n now r = r := by
        rcases pushRow_cases o n now r with he | ⟨hh, _⟩
        · exact he
        · exact absurd hh hso
      have e2 : pushRow o n now r2 = r2 := by
        rcases pushRow_cases o n now r2 with he | ⟨hh, _⟩
        · exact he
        · exact absurd (hs ▸ hh) hso
      rw [e1, e2]; exact h.uniform r hr r2 hr2 hs
  · intro r hr r' hF; cases hF
    rcases pushRow_cases o n now r with he | ⟨_, hct, c, he⟩ <;> rw [he]
    · exact h.consec r hr
    · exact ⟨nextVersion_consec _ (h.consec r hr), h.consec r hr⟩
  · intro r hr r' hF u hu; cases hF
    rcases pushRow_cases o n now r with he | ⟨hso, _, c, he⟩ <;> rw [he] at hu
    · exact h.topOnly r hr u hu
    · exact hc r hr hso u hu
  · intro r hr r' hF; cases hF
    rcases pushRow_cases o n now r with he | ⟨_, hct, c, he⟩ <;> rw [he]
    · exact h.noOrphan r hr
    · simp
  · intro r hr r' hF u us q hu hq; cases hF
    rcases pushRow_cases o n now r with he | ⟨_, hct, c, he⟩ <;> rw [he] at hu
    · exact h.createdIff r hr u us q hu hq
    · simp only [List.cons.injEq] at hu
      rcases hu with ⟨rfl, rfl⟩
      simp only [Option.some.injEq] at hq
      subst hq
      have hne := h.noOrphan r hr
      simp [hct, hne]

/-! ### tx1 of a create -/

theorem idx_inj {a b : Method} (h : a.idx = b.idx) : a = b := by
  cases a <;> cases b <;> simp [Method.idx] at h <;> rfl

theorem idx_le (m : Method) : m.idx ≤ 1 := by cases m <;> simp [Method.idx]

theorem nodup_newDids (n now : Nat) (s : String) : ∀ ms : List Method, ms.Nodup →
    ((ms.map (newDid n now s)).map (·.id)).Nodup
  | [], _ => by simp
  | m :: ms, h => by
    simp only [List.nodup_cons] at h
    simp only [List.map_cons, List.nodup_cons]
    refine ⟨?_, nodup_newDids n now s ms h.2⟩
    intro hm
    rcases List.mem_map.1 hm with ⟨r, hr, hid⟩
    rcases List.mem_map.1 hr with ⟨m', hm', rfl⟩
    simp only [newDid] at hid
    have : m' = m := idx_inj (by omega)
    exact h.1 (this ▸ hm')

theorem inv_create {dids : List DidRow} {n : Nat} (ms : List Method) (now : Nat) (s : String) (h : Inv dids n)
    (hms : ms.Nodup) (hnew : ∀ r ∈ dids, r.subject ≠ s) :
    Inv (dids ++ ms.map (newDid n now s)) (2 * n + 2) := by
  have h' : Inv dids (2 * n + 2) := inv_mono h (by omega)
  have memNew : ∀ r ∈ ms.map (newDid n now s), ∃ m ∈ ms, r = newDid n now s m := by
    intro r hr; rcases List.mem_map.1 hr with ⟨m, hm, rfl⟩; exact ⟨m, hm, rfl⟩
  refine
    { idLt := ?_, rowLt := ?_, txLt := ?_, idsNodup := ?_, rowsNodup := ?_, uniform := ?_, consec := ?_, topOnly := ?_,
      noOrphan := ?_, createdIff := ?_, oneMethod := ?_ }
  · intro r hr
    rcases List.mem_append.1 hr with ho | hn
    · exact h'.idLt r ho
    · rcases memNew r hn with ⟨m, _, rfl⟩
      have := idx_le m; simp only [newDid]; omega
  · intro r hr v hv
    rcases List.mem_append.1 hr with ho | hn
    · exact h'.rowLt r ho v hv
    · rcases memNew r hn with ⟨m, _, rfl⟩
      simp only [newDid, List.mem_singleton] at hv
      subst hv
      have := idx_le m; simp only; omega
  · intro r hr v hv p hp
    rcases List.mem_append.1 hr with ho | hn
    · exact h'.txLt r ho v hv p hp
    · rcases memNew r hn with ⟨m, _, rfl⟩
      simp only [newDid, List.mem_singleton] at hv
      subst hv
      simp only [Option.some.injEq] at hp
      subst hp; simp only; omega
  · rw [List.map_append, List.nodup_append]
    refine ⟨h.idsNodup, nodup_newDids n now s ms hms, ?_⟩
    intro a ha b hb
    rcases List.mem_map.1 ha with ⟨r, hr, rfl⟩
    rcases List.mem_map.1 hb with ⟨r2, hr2, rfl⟩
    rcases memNew r2 hr2 with ⟨m, _, rfl⟩
    have := h.idLt r hr
    simp only [newDid]; omega
  · intro r hr
    rcases List.mem_append.1 hr with ho | hn
    · exact h.rowsNodup r ho
    · rcases memNew r hn with ⟨m, _, rfl⟩
      simp [newDid]
  · intro r hr r2 hr2 hs
    rcases List.mem_append.1 hr with ho | hn
    · rcases List.mem_append.1 hr2 with ho2 | hn2
      · exact h.uniform r ho r2 ho2 hs
      · rcases memNew r2 hn2 with ⟨m, _, rfl⟩
        exact absurd hs (hnew r ho)
    · rcases memNew r hn with ⟨m, _, rfl⟩
      rcases List.mem_append.1 hr2 with ho2 | hn2
      · exact absurd hs.symm (hnew r2 ho2)
      · rcases memNew r2 hn2 with ⟨m2, _, rfl⟩
        simp [sig, newDid]
  · intro r hr
    rcases List.mem_append.1 hr with ho | hn
    · exact h.consec r ho
    · rcases memNew r hn with ⟨m, _, rfl⟩
      simp [newDid, Consec, nextVersion]
  · intro r hr v hv
    rcases List.mem_append.1 hr with ho | hn
    · exact h.topOnly r ho v hv
    · rcases memNew r hn with ⟨m, _, rfl⟩
      simp [newDid] at hv
  · intro r hr
    rcases List.mem_append.1 hr with ho | hn
    · exact h.noOrphan r ho
    · rcases memNew r hn with ⟨m, _, rfl⟩
      simp [newDid]
  · intro r hr v vs p hv hp
    rcases List.mem_append.1 hr with ho | hn
    · exact h.createdIff r ho v vs p hv hp
    · rcases memNew r hn with ⟨m, _, rfl⟩
      simp only [newDid, List.cons.injEq] at hv
      rcases hv with ⟨rfl, rfl⟩
      simp only [Option.some.injEq] at hp
      subst hp; simp
  · intro r hr r2 hr2 hs hm
    rcases List.mem_append.1 hr with ho | hn
    · rcases List.mem_append.1 hr2 with ho2 | hn2
      · exact h.oneMethod r ho r2 ho2 hs hm
      · rcases memNew r2 hn2 with ⟨m, _, rfl⟩
        exact absurd hs (hnew r ho)
    · rcases memNew r hn with ⟨m, _, rfl⟩
      rcases List.mem_append.1 hr2 with ho2 | hn2
      · exact absurd hs.symm (hnew r2 ho2)
      · rcases memNew r2 hn2 with ⟨m2, _, rfl⟩
        simp only [newDid] at hm
        subst hm; rfl

/-! ### `deleteChanges` row by row -/

/-- `chs` are exactly the changes of the (pending) head versions of the rows selected by `sel` -/
structure GroupOf (sel : DidRow → Bool) (chs : List Change) (dids : List DidRow) : Prop where
  sound : ∀ ch ∈ chs, ∃ r ∈ dids, sel r = true ∧ ch.did = r.id ∧
    ∃ v vs p, r.vers = v :: vs ∧ v.pending = some p ∧ ch.row = v.row ∧ ch.typ = p.typ
  complete : ∀ r ∈ dids, sel r = true → ∃ ch ∈ chs, ch.did = r.id ∧
    ∃ v vs p, r.vers = v :: vs ∧ v.pending = some p ∧ ch.row = v.row ∧ ch.typ = p.typ

theorem GroupOf.pending {sel chs dids} (g : GroupOf sel chs dids) :
    ∀ r ∈ dids, sel r = true → ∃ v vs p, r.vers = v :: vs ∧ v.pending = some p := by
  intro r hr hs
  rcases g.complete r hr hs with ⟨_, _, _, v, vs, p, hv, hp, _⟩
  exact ⟨v, vs, p, hv, hp⟩

theorem dropRow_eq {cfg : Cfg} {sel chs dids n} (h : Inv dids n) (g : GroupOf sel chs dids) (r : DidRow) (hr : r ∈ dids) :
    (sel r = false → dropVersions chs r = r ∧ createdIn chs r = false) ∧
    (sel r = true → ∃ v vs p, r.vers = v :: vs ∧ v.pending = some p ∧ dropVersions chs r = { r with vers := vs } ∧
        (createdIn chs r = true ↔ p.typ = .created) ∧ createdIn chs { r with vers := vs } = createdIn chs r) := by
  have uniq : ∀ r2 ∈ dids, r2.id = r.id → r2 = r := fun r2 hr2 he => eq_of_nodup_map (·.id) dids h.idsNodup r2 hr2 r hr he
  constructor
  · intro hs
    have none : ∀ ch ∈ chs, ch.did ≠ r.id := by
      intro ch hch he
      rcases g.sound ch hch with ⟨r2, hr2, hs2, hid, _⟩
      have := uniq r2 hr2 (by rw [← hid, he])
      rw [this, hs] at hs2; cases hs2
    constructor
    · unfold dropVersions
      have : r.vers.filter (fun v => !chs.any (fun ch => ch.did = r.id ∧ ch.row = v.row)) = r.vers := by
        apply List.filter_eq_self.2
        intro v _
        simp only [Bool.not_eq_eq_eq_not, Bool.not_true, List.any_eq_false, decide_eq_true_eq, not_and]
        intro ch hch he
        exact absurd he (none ch hch)
      rw [this]
    · unfold createdIn
      simp only [List.any_eq_false, decide_eq_true_eq, not_and]
      intro ch hch _ he
      exact none ch hch he
  · intro hs
    rcases g.complete r hr hs with ⟨ch0, hch0, hid0, v, vs, p, hv, hp, hrow0, htyp0⟩
    have fromHead : ∀ ch ∈ chs, ch.did = r.id → ch.row = v.row ∧ ch.typ = p.typ := by
      intro ch hch he
      rcases g.sound ch hch with ⟨r2, hr2, _, hid, v2, vs2, p2, hv2, hp2, hrow, htyp⟩
      have := uniq r2 hr2 (by rw [← hid, he])
      subst this
      rw [hv] at hv2
      simp only [List.cons.injEq] at hv2
      rcases hv2 with ⟨rfl, rfl⟩
      rw [hp] at hp2; cases hp2
      exact ⟨hrow, htyp⟩
    have hnd := h.rowsNodup r hr
    rw [hv, List.map_cons, List.nodup_cons] at hnd
    refine ⟨v, vs, p, hv, hp, ?_, ?_, ?_⟩
    · unfold dropVersions
      rw [hv, List.filter_cons]
      have hv' : (!chs.any (fun ch => decide (ch.did = r.id ∧ ch.row = v.row))) = false := by
        simp only [Bool.not_eq_false', List.any_eq_true, decide_eq_true_eq]
        exact ⟨ch0, hch0, hid0, hrow0⟩
      rw [hv']
      simp only [Bool.false_eq_true, ↓reduceIte]
      have : vs.filter (fun u => !chs.any (fun ch => decide (ch.did = r.id ∧ ch.row = u.row))) = vs := by
        apply List.filter_eq_self.2
        intro u hu
        simp only [Bool.not_eq_eq_eq_not, Bool.not_true, List.any_eq_false, decide_eq_true_eq, not_and]
        intro ch hch he hrow
        have := (fromHead ch hch he).1
        exact hnd.1 (List.mem_map.2 ⟨u, hu, by rw [← hrow, this]⟩)
      rw [this]
    · unfold createdIn
      simp only [List.any_eq_true, decide_eq_true_eq]
      constructor
      · rintro ⟨ch, hch, htyp, he⟩
        rw [← (fromHead ch hch he).2]; exact htyp
      · intro hc
        exact ⟨ch0, hch0, by rw [htyp0]; exact hc, hid0⟩
    · rfl

theorem deleteChanges_dids {cfg : Cfg} {sel chs n} (w : World) (h : Inv w.dids n) (g : GroupOf sel chs w.dids) :
    (deleteChanges cfg chs w).dids = w.dids.filterMap (dropSel cfg sel) := by
  unfold deleteChanges
  simp only
  have rowFact := fun r hr => dropRow_eq (cfg := cfg) h g r hr
  split
  · rename_i hdel
    apply map_filter_eq_filterMap
    intro r hr
    unfold dropSel
    by_cases hs : sel r = true
    · rcases (rowFact r hr).2 hs with ⟨v, vs, p, hv, hp, hd, hc, hc2⟩
      rw [if_pos hs, hd, hc2]
      unfold dropHead
      rw [hv]
      simp only [hp, Option.map_some, Option.some.injEq]
      by_cases hcr : p.typ = .created
      · rw [if_pos ⟨hdel, hcr⟩, hc.2 hcr]; rfl
      · rw [if_neg (fun hh => hcr hh.2)]
        have : createdIn chs r = false := by
          cases hci : createdIn chs r
          · rfl
          · exact absurd (hc.1 hci) hcr
        rw [this]; rfl
    · have hs' : sel r = false := by simpa using hs
      rcases (rowFact r hr).1 hs' with ⟨hd, hc⟩
      rw [if_neg hs, hd, hc]; rfl
  · rename_i hdel
    apply map_eq_filterMap
    intro r hr
    unfold dropSel
    by_cases hs : sel r = true
    · rcases (rowFact r hr).2 hs with ⟨v, vs, p, hv, hp, hd, _, _⟩
      rw [if_pos hs, hd]
      unfold dropHead
      rw [hv]
      simp only
      rw [if_neg (fun hh => hdel hh.1)]
    · have hs' : sel r = false := by simpa using hs
      rw [if_neg hs, ((rowFact r hr).1 hs').1]

/-! ### tx1 -/

def headTx (r : DidRow) : Option Nat := (r.vers.head?.bind (·.pending)).map (·.tx)

def selTx (t : Nat) (r : DidRow) : Bool := headTx r == some t

theorem headTx_of_sig {r r2 : DidRow} (h : sig r = sig r2) : headTx r = headTx r2 := by
  unfold headTx
  unfold sig at h
  cases h1 : r.vers <;> cases h2 : r2.vers <;> rw [h1, h2] at h <;> simp at h ⊢
  rw [h.1.2.2]

theorem selTx_uniform {dids n} (h : Inv dids n) (t : Nat) :
    ∀ r ∈ dids, ∀ r2 ∈ dids, r.subject = r2.subject → selTx t r = selTx t r2 := by
  intro r hr r2 hr2 hs
  unfold selTx
  rw [headTx_of_sig (h.uniform r hr r2 hr2 hs)]

theorem headTx_lt {dids n} (h : Inv dids n) (r : DidRow) (hr : r ∈ dids) (t : Nat) (ht : headTx r = some t) : t < n := by
  unfold headTx at ht
  cases hv : r.vers with
  | nil => rw [hv] at ht; simp at ht
  | cons v vs =>
    rw [hv] at ht
    simp only [List.head?_cons, Option.bind_some, Option.map_eq_some_iff] at ht
    rcases ht with ⟨p, hp, rfl⟩
    exact h.txLt r hr v (by rw [hv]; exact List.mem_cons_self ..) p hp

theorem tx1_is_update (cfg : Cfg) (w : World) (o : Op) (h : ∀ s, o ≠ .create s) : tx1 cfg w o = tx1Update w o := by
  cases o <;> first | rfl | exact absurd rfl (h _)

theorem tx1Update_ok {w w1 : World} {o : Op} {chs : List Change} (h : tx1Update w o = .ok (w1, chs)) :
    w1.dids = w.dids.map (pushRow o w.next w.now) ∧ w1.next = 2 * w.next + 2 ∧ w1.pub = w.pub ∧ w1.now = w.now ∧
    chs = w.dids.filterMap (changeOf o w.next w.now) := by
  unfold tx1Update at h
  simp only at h
  split at h
  · cases h
  · split at h
    · cases h
    · cases h
      exact ⟨rfl, rfl, rfl, rfl, rfl⟩

theorem tx1Create_ok {cfg : Cfg} {w w1 : World} {s : String} {chs : List Change} (h : tx1Create cfg w s = .ok (w1, chs)) :
    w1.dids = w.dids ++ cfg.methods.map (newDid w.next w.now s) ∧ w1.next = 2 * w.next + 2 ∧ w1.pub = w.pub ∧
    w1.now = w.now ∧ chs = cfg.methods.map (createdChange w.next w.now) ∧ (∀ r ∈ w.dids, r.subject ≠ s) := by
  unfold tx1Create at h
  split at h
  · cases h
  · rename_i hne
    simp only [createWrite, Res.ok.injEq, Prod.mk.injEq] at h
    rcases h with ⟨rfl, rfl⟩
    refine ⟨rfl, rfl, rfl, rfl, rfl, ?_⟩
    intro r hr hs
    apply hne
    simp only [subjectExists, List.any_eq_true, decide_eq_true_eq]
    exact ⟨r, hr, hs⟩

theorem groupOf_push {dids : List DidRow} {n : Nat} (o : Op) (now : Nat) (h : Inv dids n) :
    GroupOf (selTx n) (dids.filterMap (changeOf o n now)) (dids.map (pushRow o n now)) := by
  constructor
  · intro ch hch
    rcases List.mem_filterMap.1 hch with ⟨r, hr, hc⟩
    unfold changeOf at hc
    cases hnc : newContent o n r with
    | none => rw [hnc] at hc; cases hc
    | some c =>
      rw [hnc] at hc
      simp only [Option.map_some, Option.some.injEq] at hc
      subst hc
      refine ⟨pushRow o n now r, List.mem_map.2 ⟨r, hr, rfl⟩, ?_, ?_, ?_⟩
      · simp [selTx, headTx, pushRow, hnc]
      · simp [pushRow, hnc]
      · simp only [pushRow, hnc]
        exact ⟨_, _, _, rfl, rfl, rfl, rfl⟩
  · intro r' hr' hs
    rcases List.mem_map.1 hr' with ⟨r, hr, rfl⟩
    cases hnc : newContent o n r with
    | none =>
      have : pushRow o n now r = r := by simp [pushRow, hnc]
      rw [this] at hs
      simp only [selTx, beq_iff_eq] at hs
      exact absurd (headTx_lt h r hr n hs) (Nat.lt_irrefl _)
    | some c =>
      refine ⟨{ did := r.id, method := r.method, row := n + r.id, typ := o.chType, tx := n, ts := now, c := c },
        List.mem_filterMap.2 ⟨r, hr, by simp only [changeOf, hnc, Option.map_some]⟩, ?_, ?_⟩
      · simp [pushRow, hnc]
      · simp only [pushRow, hnc]
        exact ⟨_, _, _, rfl, rfl, rfl, rfl⟩

theorem groupOf_create {dids : List DidRow} {n : Nat} (ms : List Method) (now : Nat) (s : String) (h : Inv dids n) :
    GroupOf (selTx n) (ms.map (createdChange n now)) (dids ++ ms.map (newDid n now s)) := by
  constructor
  · intro ch hch
    rcases List.mem_map.1 hch with ⟨m, hm, rfl⟩
    refine ⟨newDid n now s m, List.mem_append_right _ (List.mem_map.2 ⟨m, hm, rfl⟩), ?_, rfl, ?_⟩
    · simp [selTx, headTx, newDid]
    · exact ⟨_, _, _, rfl, rfl, rfl, rfl⟩
  · intro r hr hs
    rcases List.mem_append.1 hr with ho | hn
    · simp only [selTx, beq_iff_eq] at hs
      exact absurd (headTx_lt h r ho n hs) (Nat.lt_irrefl _)
    · rcases List.mem_map.1 hn with ⟨m, hm, rfl⟩
      exact ⟨createdChange n now m, List.mem_map.2 ⟨m, hm, rfl⟩, rfl, _, _, _, rfl, rfl, rfl, rfl⟩

/-- everything the later steps need to know about a successful first transaction -/
theorem tx1_ok {cfg : Cfg} {w w1 : World} {o : Op} {chs : List Change} (hms : cfg.methods.Nodup)
    (h : Inv w.dids w.next) (hc : Clean w.dids o.subject) (ht : tx1 cfg w o = .ok (w1, chs)) :
    Inv w1.dids w1.next ∧ GroupOf (selTx w.next) chs w1.dids ∧ (∀ ch ∈ chs, ch.tx = w.next) ∧
    w1.pub = w.pub ∧ w1.now = w.now ∧ w1.next = 2 * w.next + 2 := by
  by_cases hcr : ∃ s, o = .create s
  · rcases hcr with ⟨s, rfl⟩
    rcases tx1Create_ok (show tx1Create cfg w s = .ok (w1, chs) from ht) with ⟨hd, hn, hp, hnow, hchs, hnew⟩
    rw [hd, hn, hchs]
    refine ⟨inv_create _ _ _ h hms hnew, groupOf_create _ _ _ h, ?_, hp, hnow, rfl⟩
    intro ch hch
    rcases List.mem_map.1 hch with ⟨m, _, rfl⟩; rfl
  · have hnc : ∀ s, o ≠ .create s := fun s he => hcr ⟨s, he⟩
    rw [tx1_is_update cfg w o hnc] at ht
    rcases tx1Update_ok ht with ⟨hd, hn, hp, hnow, hchs⟩
    rw [hd, hn, hchs]
    refine ⟨inv_push o _ h hc, groupOf_push o _ h, ?_, hp, hnow, rfl⟩
    intro ch hch
    rcases List.mem_filterMap.1 hch with ⟨r, _, hc'⟩
    unfold changeOf at hc'
    cases hnc' : newContent o w.next r with
    | none => rw [hnc'] at hc'; cases hc'
    | some c => rw [hnc'] at hc'; simp only [Option.map_some, Option.some.injEq] at hc'; subst hc'; rfl

/-! ### one operation -/

theorem stepOpCore_cases (cfg : Cfg) (w : World) (o : Op) (order : List Method) (f : Fault) :
    (stepOpCore cfg w o order f).1 = w ∨
    ∃ w1 chs pub, tx1 cfg w o = .ok (w1, chs) ∧
      ((stepOpCore cfg w o order f).1 = { w1 with pub := pub } ∨
       (stepOpCore cfg w o order f).1 = tx2 cfg { w1 with pub := pub } chs true ∨
       (stepOpCore cfg w o order f).1 = tx2 cfg { w1 with pub := pub } chs false) := by
  unfold stepOpCore
  split
  · exact Or.inl rfl
  · exact Or.inl rfl
  · rename_i w1 chs ht
    refine Or.inr ⟨w1, chs, (commitLoop f chs order 0 w1.pub).1, ht, ?_⟩
    split
    · rename_i pub hcl; rw [hcl]; exact Or.inl rfl
    · rename_i pub e hcl; rw [hcl]; exact Or.inr (Or.inl rfl)
    · rename_i pub i hcl
      rw [hcl]
      split
      · split
        · exact Or.inl rfl
        · exact Or.inr (Or.inr rfl)
      · exact Or.inr (Or.inr rfl)

theorem tx2_true_inv {cfg : Cfg} {w1 : World} {chs : List Change} {t : Nat} (hfix : Fixed cfg)
    (h : Inv w1.dids w1.next) (g : GroupOf (selTx t) chs w1.dids) :
    Inv (tx2 cfg w1 chs true).dids (tx2 cfg w1 chs true).next := by
  unfold tx2
  simp only [if_true]
  rw [deleteChanges_dids w1 h g]
  exact inv_dropSel _ hfix h (selTx_uniform h t) g.pending

theorem tx2_false_inv {cfg : Cfg} {w1 : World} {chs : List Change} (h : Inv w1.dids w1.next) :
    Inv (tx2 cfg w1 chs false).dids (tx2 cfg w1 chs false).next := by
  unfold tx2
  simp only [Bool.false_eq_true, if_false]
  cases chs with
  | nil => exact h
  | cons ch _ => exact inv_clear ch.tx h

theorem stepOpCore_inv {cfg : Cfg} {w : World} (o : Op) (order : List Method) (f : Fault) (hfix : Fixed cfg)
    (hms : cfg.methods.Nodup) (h : Inv w.dids w.next) (hc : Clean w.dids o.subject) :
    Inv (stepOpCore cfg w o order f).1.dids (stepOpCore cfg w o order f).1.next := by
  rcases stepOpCore_cases cfg w o order f with he | ⟨w1, chs, pub, ht, he | he | he⟩ <;> rw [he]
  · exact h
  · exact (tx1_ok hms h hc ht).1
  · have := tx1_ok hms h hc ht
    exact tx2_true_inv (w1 := { w1 with pub := pub }) hfix this.1 this.2.1
  · have := tx1_ok hms h hc ht
    exact tx2_false_inv (w1 := { w1 with pub := pub }) this.1

/-! ### the sweep, one transaction at a time -/

/-- the rows one sweep step touches: the head version has a change record of transaction `t` and satisfies `Q`
    (`Q` = "older than the threshold", or — whole-transaction mode — "its transaction has an old change") -/
def selOld (Q : Ver → Bool) (t : Nat) (r : DidRow) : Bool :=
  match r.vers with
  | v :: _ => (match v.pending with | some p => p.tx == t | none => false) && Q v
  | [] => false

/-- `Q` looks at the change record only -/
def PendingOnly (Q : Ver → Bool) : Prop := ∀ v v' : Ver, v.pending = v'.pending → Q v = Q v'

theorem selOld_of_sig {Q : Ver → Bool} (hQ : PendingOnly Q) {t : Nat} {r r2 : DidRow} (h : sig r = sig r2) :
    selOld Q t r = selOld Q t r2 := by
  unfold selOld
  unfold sig at h
  cases h1 : r.vers <;> cases h2 : r2.vers <;> rw [h1, h2] at h <;> simp at h ⊢
  rename_i v vs v2 vs2
  rw [hQ v v2 h.1.2.2, h.1.2.2]

theorem selOld_true {Q : Ver → Bool} {t : Nat} {r : DidRow} (h : selOld Q t r = true) :
    ∃ v vs p, r.vers = v :: vs ∧ v.pending = some p ∧ p.tx = t ∧ Q v = true := by
  unfold selOld at h
  cases hv : r.vers with
  | nil => rw [hv] at h; cases h
  | cons v vs =>
    rw [hv] at h
    simp only [Bool.and_eq_true] at h
    cases hp : v.pending with
    | none => rw [hp] at h; cases h.1
    | some p =>
      rw [hp] at h
      exact ⟨v, vs, p, rfl, hp, by simpa using h.1, h.2⟩

theorem selOld_intro {Q : Ver → Bool} {t : Nat} {r : DidRow} {v : Ver} {vs : List Ver} {p : Pending}
    (hv : r.vers = v :: vs) (hp : v.pending = some p) (ht : p.tx = t) (ho : Q v = true) :
    selOld Q t r = true := by
  unfold selOld
  rw [hv]
  simp [hp, ht, ho]

structure Compat (Q : Ver → Bool) (old : List Change) (ts : List Nat) (dids : List DidRow) : Prop where
  sound : ∀ ch ∈ old, ch.tx ∈ ts → ∃ r ∈ dids, ch.did = r.id ∧ ∃ v vs p, r.vers = v :: vs ∧ v.pending = some p ∧
    ch.row = v.row ∧ ch.typ = p.typ ∧ p.tx = ch.tx ∧ Q v = true
  complete : ∀ r ∈ dids, ∀ v vs p, r.vers = v :: vs → v.pending = some p → p.tx ∈ ts → Q v = true →
    ∃ ch ∈ old, ch.did = r.id ∧ ch.row = v.row ∧ ch.typ = p.typ ∧ ch.tx = p.tx
  pend : ∀ r ∈ dids, ∀ v ∈ r.vers, ∀ p, v.pending = some p → Q v = true → p.tx ∈ ts

theorem clearTx_eq_of_some {t : Nat} {v : Ver} {p : Pending} (h : (clearTx t v).pending = some p) : clearTx t v = v := by
  unfold clearTx at h ⊢
  split
  · rename_i q hq
    split
    · rename_i he
      rw [hq] at h; simp only [he, if_true] at h; cases h
    · rfl
  · rfl

theorem groupOf_old {Q : Ver → Bool} {t : Nat} {old : List Change} {ts : List Nat} {dids : List DidRow}
    (hc : Compat Q old (t :: ts) dids) :
    GroupOf (selOld Q t) (old.filter (fun ch => ch.tx = t)) dids := by
  constructor
  · intro ch hch
    rcases List.mem_filter.1 hch with ⟨hold, htx⟩
    have htx : ch.tx = t := by simpa using htx
    rcases hc.sound ch hold (by rw [htx]; exact List.mem_cons_self ..) with ⟨r, hr, hid, v, vs, p, hv, hp, hrow, htyp, hptx, ho⟩
    exact ⟨r, hr, selOld_intro hv hp (by rw [hptx, htx]) ho, hid, v, vs, p, hv, hp, hrow, htyp⟩
  · intro r hr hs
    rcases selOld_true hs with ⟨v, vs, p, hv, hp, hptx, ho⟩
    rcases hc.complete r hr v vs p hv hp (by rw [hptx]; exact List.mem_cons_self ..) ho with ⟨ch, hch, hid, hrow, htyp, htx⟩
    exact ⟨ch, List.mem_filter.2 ⟨hch, by simp [htx, hptx]⟩, hid, v, vs, p, hv, hp, hrow, htyp⟩

/-- the rows after the deletion part of one sweep step -/
def sweepRows (cfg : Cfg) (Q : Ver → Bool) (t : Nat) (b : Bool) (dids : List DidRow) : List DidRow :=
  if b = true then dids else dids.filterMap (dropSel cfg (selOld Q t))

theorem sweepRows_from {cfg : Cfg} {Q : Ver → Bool} {t : Nat} {b : Bool} {dids : List DidRow} :
    ∀ r0 ∈ sweepRows cfg Q t b dids, ∃ r ∈ dids, r0 = r ∨ ∃ v vs, r.vers = v :: vs ∧ r0 = { r with vers := vs } := by
  intro r0 hr0
  unfold sweepRows at hr0
  split at hr0
  · exact ⟨r0, hr0, Or.inl rfl⟩
  · rcases List.mem_filterMap.1 hr0 with ⟨r, hr, hF⟩
    refine ⟨r, hr, ?_⟩
    unfold dropSel at hF
    split at hF
    · unfold dropHead at hF
      split at hF
      · rename_i v vs hv
        split at hF
        · cases hF
        · cases hF; exact Or.inr ⟨v, vs, hv, rfl⟩
      · cases hF; exact Or.inl rfl
    · cases hF; exact Or.inl rfl

theorem sweepRows_keeps {cfg : Cfg} {Q : Ver → Bool} {t : Nat} {b : Bool} {dids : List DidRow} :
    ∀ r ∈ dids, selOld Q t r = false → r ∈ sweepRows cfg Q t b dids := by
  intro r hr hs
  unfold sweepRows
  split
  · exact hr
  · exact List.mem_filterMap.2 ⟨r, hr, by simp [dropSel, hs]⟩

theorem sweepApply_dids {cfg : Cfg} {Q : Ver → Bool} {t : Nat} {old : List Change} {ts : List Nat} (w : World) (b : Bool)
    (h : Inv w.dids w.next) (hc : Compat Q old (t :: ts) w.dids) :
    (sweepApply cfg w (old.filter (fun ch => ch.tx = t)) t b).dids = (sweepRows cfg Q t b w.dids).map (clearRow t) := by
  unfold sweepApply sweepRows
  cases b with
  | true => simp [deleteLogTx_dids]
  | false =>
    simp only [Bool.false_eq_true, if_false, deleteLogTx_dids]
    rw [deleteChanges_dids w h (groupOf_old hc)]

theorem sweepApply_spec {cfg : Cfg} {Q : Ver → Bool} {t : Nat} {old : List Change} {ts : List Nat} (w : World) (b : Bool)
    (hfix : Fixed cfg) (hQ : PendingOnly Q) (h : Inv w.dids w.next) (hc : Compat Q old (t :: ts) w.dids) (hnt : t ∉ ts) :
    Inv ((sweepRows cfg Q t b w.dids).map (clearRow t)) w.next ∧
    Compat Q old ts ((sweepRows cfg Q t b w.dids).map (clearRow t)) := by
  constructor
  · apply inv_clear
    unfold sweepRows
    split
    · exact h
    · exact inv_dropSel _ hfix h (fun r hr r2 hr2 hs => selOld_of_sig hQ (h.uniform r hr r2 hr2 hs)) (groupOf_old hc).pending
  · have neT : ∀ x ∈ ts, x ≠ t := fun x hx he => hnt (he ▸ hx)
    constructor
    · intro ch hch htx
      rcases hc.sound ch hch (List.mem_cons_of_mem _ htx) with ⟨r, hr, hid, v, vs, p, hv, hp, hrow, htyp, hptx, ho⟩
      have hne : p.tx ≠ t := by rw [hptx]; exact neT _ htx
      have hsel : selOld Q t r = false := by
        cases hs : selOld Q t r with
        | false => rfl
        | true =>
          rcases selOld_true hs with ⟨v2, vs2, p2, hv2, hp2, hptx2, _⟩
          rw [hv] at hv2; simp only [List.cons.injEq] at hv2
          rcases hv2 with ⟨rfl, rfl⟩
          rw [hp] at hp2; cases hp2
          exact absurd hptx2 hne
      refine ⟨clearRow t r, List.mem_map.2 ⟨r, sweepRows_keeps r hr hsel, rfl⟩, hid, clearTx t v, vs.map (clearTx t), p, ?_, ?_, ?_, htyp, hptx, ?_⟩
      · simp [clearRow, hv]
      · rw [clearTx_pending, hp]; simp [clearP, hne]
      · rw [clearTx_row]; exact hrow
      · have : clearTx t v = v := clearTx_eq_of_some (p := p) (by rw [clearTx_pending, hp]; simp [clearP, hne])
        rw [this]; exact ho
    · intro r' hr' v' vs' p hv' hp' hptx ho'
      rcases List.mem_map.1 hr' with ⟨r0, hr0, rfl⟩
      simp only [clearRow] at hv'
      cases hv0 : r0.vers with
      | nil => rw [hv0] at hv'; cases hv'
      | cons v0 vs0 =>
        rw [hv0] at hv'
        simp only [List.map_cons, List.cons.injEq] at hv'
        rcases hv' with ⟨rfl, rfl⟩
        have heq := clearTx_eq_of_some hp'
        rw [clearTx_pending] at hp'
        have hp0 := (clearP_some hp').1
        rw [heq] at ho'
        rcases sweepRows_from r0 hr0 with ⟨r, hr, rfl | ⟨v, vs, hv, rfl⟩⟩
        · rcases hc.complete r0 hr v0 vs0 p hv0 hp0 (List.mem_cons_of_mem _ hptx) ho' with ⟨ch, hch, hid, hrow, htyp, htx⟩
          exact ⟨ch, hch, hid, by rw [clearTx_row]; exact hrow, htyp, htx⟩
        · simp only at hv0
          have : v0.pending = none := h.topOnly r hr v0 (by rw [hv, hv0]; exact List.mem_cons_self ..)
          rw [this] at hp0; cases hp0
    · intro r' hr' v' hv' p hp' ho'
      rcases List.mem_map.1 hr' with ⟨r0, hr0, rfl⟩
      rcases List.mem_map.1 hv' with ⟨v0, hv0, rfl⟩
      have heq := clearTx_eq_of_some hp'
      rw [clearTx_pending] at hp'
      have hp0 := clearP_some hp'
      rw [heq] at ho'
      have hmem : ∃ r ∈ w.dids, v0 ∈ r.vers := by
        rcases sweepRows_from r0 hr0 with ⟨r, hr, rfl | ⟨v, vs, hv, rfl⟩⟩
        · exact ⟨r0, hr, hv0⟩
        · exact ⟨r, hr, by rw [hv]; exact List.mem_cons_of_mem _ hv0⟩
      rcases hmem with ⟨r, hr, hvr⟩
      rcases List.mem_cons.1 (hc.pend r hr v0 hvr p hp0.1 ho') with he | hin
      · exact absurd he hp0.2
      · exact hin

/-! ### the whole sweep -/

theorem nodup_eraseDups_aux : ∀ (n : Nat) (l : List Nat), l.length ≤ n → l.eraseDups.Nodup
  | 0, l, h => by
    have : l = [] := List.eq_nil_of_length_eq_zero (by omega)
    subst this; simp
  | n + 1, [], _ => by simp
  | n + 1, a :: as, h => by
    rw [List.eraseDups_cons, List.nodup_cons]
    constructor
    · intro hm
      have := List.mem_eraseDups.1 hm
      simp at this
    · apply nodup_eraseDups_aux n
      have := List.length_filter_le (fun b => !b == a) as
      simp only [List.length_cons] at h
      omega

theorem nodup_eraseDups (l : List Nat) : l.eraseDups.Nodup := nodup_eraseDups_aux l.length l (Nat.le_refl _)

theorem isCommitted_ok {cfg : Cfg} (hfix : cfg.notFoundIsUncommitted = true) (pub : Nat → List Content) (ch : Change) :
    ∃ b, isCommitted cfg pub ch = .ok b := by
  unfold isCommitted
  split
  · exact ⟨true, rfl⟩
  · split
    · rw [if_pos hfix]; exact ⟨false, rfl⟩
    · exact ⟨_, rfl⟩

theorem committedLoop_ok {cfg : Cfg} (hfix : cfg.notFoundIsUncommitted = true) (pub : Nat → List Content) :
    ∀ group : List Change, ∃ b, committedLoop cfg pub group = .ok b
  | [] => ⟨true, rfl⟩
  | ch :: chs => by
    rcases isCommitted_ok hfix pub ch with ⟨b, hb⟩
    unfold committedLoop
    rw [hb]
    cases b with
    | true => exact committedLoop_ok hfix pub chs
    | false => exact ⟨false, rfl⟩

theorem committedLoop_true {cfg : Cfg} (pub : Nat → List Content) :
    ∀ group : List Change, committedLoop cfg pub group = .ok true → ∀ ch ∈ group, isCommitted cfg pub ch = .ok true
  | [], _, ch, hch => by cases hch
  | c :: cs, h, ch, hch => by
    unfold committedLoop at h
    split at h
    · rename_i hc
      rcases List.mem_cons.1 hch with rfl | hin
      · exact hc
      · exact committedLoop_true pub cs h ch hin
    · rename_i hne
      exact absurd h (hne)

/-- a version without a change record is still there -/
def Keeps (dids dids' : List DidRow) : Prop :=
  ∀ r ∈ dids, ∀ v ∈ r.vers, v.pending = none → ∃ r' ∈ dids', r'.id = r.id ∧ v ∈ r'.vers

theorem Keeps.refl (dids : List DidRow) : Keeps dids dids := fun r hr v hv _ => ⟨r, hr, rfl, hv⟩

theorem Keeps.trans {a b c : List DidRow} (h1 : Keeps a b) (h2 : Keeps b c) : Keeps a c := by
  intro r hr v hv hp
  rcases h1 r hr v hv hp with ⟨r', hr', hid, hv'⟩
  rcases h2 r' hr' v hv' hp with ⟨r'', hr'', hid', hv''⟩
  exact ⟨r'', hr'', by rw [hid', hid], hv''⟩

theorem clearTx_of_none {t : Nat} {v : Ver} (h : v.pending = none) : clearTx t v = v := by
  unfold clearTx; rw [h]

theorem keeps_clear (t : Nat) (dids : List DidRow) : Keeps dids (dids.map (clearRow t)) := by
  intro r hr v hv hp
  refine ⟨clearRow t r, List.mem_map.2 ⟨r, hr, rfl⟩, rfl, ?_⟩
  exact List.mem_map.2 ⟨v, hv, clearTx_of_none hp⟩

theorem keeps_dropSel {cfg : Cfg} {dids : List DidRow} {n : Nat} (sel : DidRow → Bool) (h : Inv dids n)
    (hpend : ∀ r ∈ dids, sel r = true → ∃ v vs p, r.vers = v :: vs ∧ v.pending = some p) :
    Keeps dids (dids.filterMap (dropSel cfg sel)) := by
  intro r hr v hv hp
  by_cases hs : sel r = true
  · rcases hpend r hr hs with ⟨v0, vs, p, hv0, hp0⟩
    have hvs : v ∈ vs := by
      rw [hv0] at hv
      rcases List.mem_cons.1 hv with rfl | hin
      · rw [hp] at hp0; cases hp0
      · exact hin
    have hne : vs ≠ [] := by intro he; rw [he] at hvs; cases hvs
    have hnc : p.typ ≠ .created := fun hc => hne ((h.createdIff r hr v0 vs p hv0 hp0).1 hc)
    refine ⟨{ r with vers := vs }, List.mem_filterMap.2 ⟨r, hr, ?_⟩, rfl, hvs⟩
    unfold dropSel dropHead
    rw [if_pos hs, hv0]
    simp only [hp0, Option.map_some, Option.some.injEq]
    rw [if_neg (fun hh => hnc hh.2)]
  · exact ⟨r, List.mem_filterMap.2 ⟨r, hr, by simp [dropSel, hs]⟩, rfl, hv⟩

def strip (v : Ver) : Ver := { v with pending := none }

theorem strip_clearTx (t : Nat) (v : Ver) : strip (clearTx t v) = strip v := by
  unfold clearTx strip
  split
  · split <;> rfl
  · rfl

/-- every row afterwards is a row from before that lost some of its newest versions (and change records);
    a change record afterwards was there before -/
def Fate (dids dids' : List DidRow) : Prop :=
  ∀ r' ∈ dids', ∃ r ∈ dids, r'.id = r.id ∧ (∃ k, r'.vers.map strip = (r.vers.drop k).map strip) ∧
    ∀ v' ∈ r'.vers, ∀ p, v'.pending = some p → ∃ v ∈ r.vers, v.pending = some p ∧ v.ts = v'.ts

theorem Fate.refl (dids : List DidRow) : Fate dids dids :=
  fun r hr => ⟨r, hr, rfl, ⟨0, by simp⟩, fun v hv p hp => ⟨v, hv, hp, rfl⟩⟩

theorem Fate.trans {a b c : List DidRow} (h1 : Fate a b) (h2 : Fate b c) : Fate a c := by
  intro r'' hr''
  rcases h2 r'' hr'' with ⟨r', hr', hid2, ⟨k2, hk2⟩, hp2⟩
  rcases h1 r' hr' with ⟨r, hr, hid1, ⟨k1, hk1⟩, hp1⟩
  refine ⟨r, hr, by rw [hid2, hid1], ⟨k1 + k2, ?_⟩, ?_⟩
  · rw [hk2, List.map_drop, hk1, ← List.map_drop, List.drop_drop]
  · intro v'' hv'' p hp
    rcases hp2 v'' hv'' p hp with ⟨v', hv', hpv', hts'⟩
    rcases hp1 v' hv' p hpv' with ⟨v, hv, hpv, hts⟩
    exact ⟨v, hv, hpv, by rw [hts, hts']⟩

theorem fate_clear (t : Nat) (dids : List DidRow) : Fate dids (dids.map (clearRow t)) := by
  intro r' hr'
  rcases List.mem_map.1 hr' with ⟨r, hr, rfl⟩
  refine ⟨r, hr, rfl, ⟨0, ?_⟩, ?_⟩
  · simp only [clearRow, List.map_map, List.drop_zero]
    apply List.map_congr_left
    intro v _
    exact strip_clearTx t v
  · intro v' hv' p hp
    rcases List.mem_map.1 hv' with ⟨v, hv, rfl⟩
    rw [clearTx_pending] at hp
    exact ⟨v, hv, (clearP_some hp).1, (clearTx_ts t v).symm⟩

theorem fate_sweepRows (cfg : Cfg) (Q : Ver → Bool) (t : Nat) (b : Bool) (dids : List DidRow) :
    Fate dids (sweepRows cfg Q t b dids) := by
  intro r0 hr0
  rcases sweepRows_from r0 hr0 with ⟨r, hr, rfl | ⟨v, vs, hv, rfl⟩⟩
  · exact ⟨r0, hr, rfl, ⟨0, by simp⟩, fun v hv p hp => ⟨v, hv, hp, rfl⟩⟩
  · refine ⟨r, hr, rfl, ⟨1, by simp [hv]⟩, ?_⟩
    intro u hu p hp
    exact ⟨u, by rw [hv]; exact List.mem_cons_of_mem _ hu, hp, rfl⟩

theorem sweepApply_fields (cfg : Cfg) (w : World) (group : List Change) (t : Nat) (b : Bool) :
    (sweepApply cfg w group t b).next = w.next ∧ (sweepApply cfg w group t b).pub = w.pub ∧
    (sweepApply cfg w group t b).now = w.now := by
  cases b <;> exact ⟨rfl, rfl, rfl⟩

theorem sweepTxs_spec {cfg : Cfg} (hfix : Fixed cfg) (Q : Ver → Bool) (hQ : PendingOnly Q) (old : List Change) :
    ∀ (ts : List Nat) (w : World), ts.Nodup → Inv w.dids w.next → Compat Q old ts w.dids →
      ∃ w', sweepTxs cfg old ts w = .ok w' ∧ Inv w'.dids w'.next ∧ Compat Q old [] w'.dids ∧
        w'.next = w.next ∧ w'.pub = w.pub ∧ w'.now = w.now ∧ Keeps w.dids w'.dids ∧ Fate w.dids w'.dids
  | [], w, _, h, hc => ⟨w, rfl, h, hc, rfl, rfl, rfl, Keeps.refl _, Fate.refl _⟩
  | t :: ts, w, hnd, h, hc => by
    rw [List.nodup_cons] at hnd
    unfold sweepTxs
    simp only
    rcases committedLoop_ok hfix.notFound w.pub (old.filter (fun ch => ch.tx = t)) with ⟨b, hb⟩
    rw [hb]
    simp only
    have hd := sweepApply_dids (cfg := cfg) w b h hc
    have hf := sweepApply_fields cfg w (old.filter (fun ch => ch.tx = t)) t b
    have hs := sweepApply_spec w b hfix hQ h hc hnd.1
    rw [← hd, ← hf.1] at hs
    rcases sweepTxs_spec hfix Q hQ old ts _ hnd.2 hs.1 hs.2 with ⟨w', hw', hi, hcc, hn, hp, hnow, hk, hfate⟩
    refine ⟨w', hw', hi, hcc, by rw [hn, hf.1], by rw [hp, hf.2.1], by rw [hnow, hf.2.2], ?_, ?_⟩
    · refine Keeps.trans ?_ hk
      rw [hd]
      refine Keeps.trans ?_ (keeps_clear t _)
      unfold sweepRows
      split
      · exact Keeps.refl _
      · exact keeps_dropSel _ h (groupOf_old hc).pending
    · refine Fate.trans ?_ hfate
      rw [hd]
      exact Fate.trans (fate_sweepRows cfg Q t b w.dids) (fate_clear t _)

/-- whole-transaction mode: the change record belongs to a transaction that has an old change -/
def inOldTx (cfg : Cfg) (w : World) (v : Ver) : Bool :=
  match v.pending with
  | some p => (oldChanges cfg w).any (fun o => o.tx = p.tx)
  | none => false

theorem inOldTx_pendingOnly (cfg : Cfg) (w : World) : PendingOnly (inOldTx cfg w) := by
  intro v v' h; unfold inOldTx; rw [h]

theorem mem_allChanges (w : World) (ch : Change) :
    ch ∈ allChanges w ↔ ∃ r ∈ w.dids, ∃ v ∈ r.vers, ∃ p, v.pending = some p ∧
      ch = { did := r.id, method := r.method, row := v.row, typ := p.typ, tx := p.tx, ts := v.ts, c := v.c } := by
  unfold allChanges pendingOf
  simp only [List.mem_flatMap, List.mem_filterMap]
  constructor
  · rintro ⟨r, hr, v, hv, hm⟩
    cases hp : v.pending with
    | none => rw [hp] at hm; cases hm
    | some p =>
      rw [hp] at hm
      simp only [Option.map_some, Option.some.injEq] at hm
      exact ⟨r, hr, v, hv, p, hp, hm.symm⟩
  · rintro ⟨r, hr, v, hv, p, hp, rfl⟩
    exact ⟨r, hr, v, hv, by rw [hp]; rfl⟩

theorem compat_init {cfg : Cfg} {w : World} (hfix : Fixed cfg) (h : Inv w.dids w.next) (ts : List Nat)
    (hts : ∀ ch ∈ sweepChanges cfg w, ch.tx ∈ ts) : Compat (inOldTx cfg w) (sweepChanges cfg w) ts w.dids := by
  have memSweep : ∀ ch, ch ∈ sweepChanges cfg w ↔ ch ∈ allChanges w ∧ (oldChanges cfg w).any (fun o => o.tx = ch.tx) = true := by
    intro ch
    unfold sweepChanges
    rw [if_pos hfix.wholeTx, List.mem_filter]
  have headOf : ∀ r ∈ w.dids, ∀ v ∈ r.vers, ∀ p, v.pending = some p → ∃ vs, r.vers = v :: vs := by
    intro r hr v hv p hp
    cases hvs : r.vers with
    | nil => rw [hvs] at hv; cases hv
    | cons u us =>
      rw [hvs] at hv
      rcases List.mem_cons.1 hv with rfl | hin
      · exact ⟨us, rfl⟩
      · have := h.topOnly r hr v (by rw [hvs]; exact hin)
        rw [this] at hp; cases hp
  constructor
  · intro ch hch _
    rcases (memSweep ch).1 hch with ⟨hall, hany⟩
    rcases (mem_allChanges w ch).1 hall with ⟨r, hr, v, hv, p, hp, rfl⟩
    rcases headOf r hr v hv p hp with ⟨vs, hvs⟩
    exact ⟨r, hr, rfl, v, vs, p, hvs, hp, rfl, rfl, rfl, by simp only [inOldTx, hp]; exact hany⟩
  · intro r hr v vs p hv hp _ ho
    refine ⟨{ did := r.id, method := r.method, row := v.row, typ := p.typ, tx := p.tx, ts := v.ts, c := v.c },
      (memSweep _).2 ⟨(mem_allChanges w _).2 ⟨r, hr, v, by rw [hv]; exact List.mem_cons_self .., p, hp, rfl⟩, ?_⟩, rfl, rfl, rfl, rfl⟩
    simpa only [inOldTx, hp] using ho
  · intro r hr v hv p hp ho
    refine hts { did := r.id, method := r.method, row := v.row, typ := p.typ, tx := p.tx, ts := v.ts, c := v.c }
      ((memSweep _).2 ⟨(mem_allChanges w _).2 ⟨r, hr, v, hv, p, hp, rfl⟩, ?_⟩)
    simpa only [inOldTx, hp] using ho

theorem sweep_spec {cfg : Cfg} {w : World} (ord : List Nat → List Nat) (hfix : Fixed cfg)
    (hord : ∀ l, (ord l).Perm l) (h : Inv w.dids w.next) :
    (sweep cfg ord w).2 = "ok" ∧ Inv (sweep cfg ord w).1.dids (sweep cfg ord w).1.next ∧
    (sweep cfg ord w).1.next = w.next ∧ (sweep cfg ord w).1.pub = w.pub ∧ (sweep cfg ord w).1.now = w.now ∧
    Keeps w.dids (sweep cfg ord w).1.dids ∧ Fate w.dids (sweep cfg ord w).1.dids ∧
    (∀ r ∈ (sweep cfg ord w).1.dids, ∀ v ∈ r.vers, ∀ p, v.pending = some p → inOldTx cfg w v = false) := by
  have hperm := hord ((sweepChanges cfg w).map (·.tx)).eraseDups
  have hnd : (ord ((sweepChanges cfg w).map (·.tx)).eraseDups).Nodup := hperm.nodup_iff.2 (nodup_eraseDups _)
  have hts : ∀ ch ∈ sweepChanges cfg w, ch.tx ∈ ord ((sweepChanges cfg w).map (·.tx)).eraseDups := by
    intro ch hch
    exact hperm.mem_iff.2 (List.mem_eraseDups.2 (List.mem_map.2 ⟨ch, hch, rfl⟩))
  rcases sweepTxs_spec hfix (inOldTx cfg w) (inOldTx_pendingOnly cfg w) (sweepChanges cfg w) _ w hnd h
      (compat_init hfix h _ hts) with ⟨w', hw', hi, hcc, hn, hp, hnow, hk, hfate⟩
  unfold sweep
  simp only [hw']
  refine ⟨trivial, hi, hn, hp, hnow, hk, hfate, ?_⟩
  intro r hr v hv p hpv
  cases ho : inOldTx cfg w v with
  | false => rfl
  | true => exact absurd (hcc.pend r hr v hv p hpv ho) (by simp)

/-! ### restamping (clock readings inside a transaction) -/

def restampRow (f : DidRow → Ver → Nat) (r : DidRow) : DidRow :=
  { r with vers := r.vers.map (fun v => { v with ts := f r v }) }

theorem restamp_dids (f : DidRow → Ver → Nat) (w : World) : (restamp f w).dids = w.dids.map (restampRow f) := rfl

theorem consec_restamp (g : Ver → Nat) : ∀ vs : List Ver, Consec vs → Consec (vs.map (fun v => { v with ts := g v }))
  | [], _ => trivial
  | v :: vs, h => by
    simp only [List.map_cons, Consec, List.length_map]
    exact ⟨h.1, consec_restamp g vs h.2⟩

theorem inv_restamp {dids : List DidRow} {n : Nat} (f : DidRow → Ver → Nat) (h : Inv dids n) :
    Inv (dids.map (restampRow f)) n := by
  rw [map_eq_filterMap (restampRow f) (fun r => some (restampRow f r)) dids (fun _ _ => rfl)]
  apply inv_filterMap _ h (Nat.le_refl _)
  · intro r _ r' hF; cases hF; exact ⟨rfl, rfl, rfl⟩
  · intro r hr r' hF v hv; cases hF
    rcases List.mem_map.1 hv with ⟨u, hu, rfl⟩
    exact h.rowLt r hr u hu
  · intro r hr r' hF v hv p hp; cases hF
    rcases List.mem_map.1 hv with ⟨u, hu, rfl⟩
    exact h.txLt r hr u hu p hp
  · intro r hr r' hF; cases hF
    have : (restampRow f r).vers.map (·.row) = r.vers.map (·.row) := by
      simp only [restampRow, List.map_map]
      apply List.map_congr_left; intro v _; rfl
    rw [this]; exact h.rowsNodup r hr
  · intro r hr r2 hr2 hs r' r2' hF hF2; cases hF; cases hF2
    have e : ∀ x : DidRow, sig (restampRow f x) = sig x := by
      intro x
      simp only [sig, restampRow, List.map_map]
      apply List.map_congr_left; intro v _; rfl
    rw [e, e]; exact h.uniform r hr r2 hr2 hs
  · intro r hr r' hF; cases hF
    exact consec_restamp (f r) _ (h.consec r hr)
  · intro r hr r' hF v hv; cases hF
    simp only [restampRow, ← List.map_tail] at hv
    rcases List.mem_map.1 hv with ⟨u, hu, rfl⟩
    exact h.topOnly r hr u hu
  · intro r hr r' hF; cases hF
    simp only [restampRow, ne_eq, List.map_eq_nil_iff]
    exact h.noOrphan r hr
  · intro r hr r' hF v vs p hv hp; cases hF
    simp only [restampRow] at hv
    cases hvs : r.vers with
    | nil => rw [hvs] at hv; cases hv
    | cons u us =>
      rw [hvs] at hv
      simp only [List.map_cons, List.cons.injEq] at hv
      rcases hv with ⟨rfl, rfl⟩
      rw [h.createdIff r hr u us p hvs hp]
      simp

/-! ### faults inside the first transaction -/

theorem stepOp_unchanged_or_core (cfg : Cfg) (w : World) (o : Op) (order : List Method) (f : Fault) :
    (stepOp cfg w o order f).1 = w ∨ stepOp cfg w o order f = stepOpCore cfg w o order f := by
  unfold stepOp
  split
  · split
    · exact Or.inl rfl
    · exact Or.inr rfl
  · exact Or.inr rfl

theorem stepOp_eq_core {cfg : Cfg} {w : World} {o : Op} {order : List Method} {f : Fault} (hf : ∀ n, f.inTx1 n = none) :
    stepOp cfg w o order f = stepOpCore cfg w o order f := by
  unfold stepOp
  split
  · rw [hf]
  · rfl

theorem stepOp_inv {cfg : Cfg} {w : World} (o : Op) (order : List Method) (f : Fault) (hfix : Fixed cfg)
    (hms : cfg.methods.Nodup) (h : Inv w.dids w.next) (hc : Clean w.dids o.subject) :
    Inv (stepOp cfg w o order f).1.dids (stepOp cfg w o order f).1.next := by
  rcases stepOp_unchanged_or_core cfg w o order f with he | he <;> rw [he]
  · exact h
  · exact stepOpCore_inv o order f hfix hms h hc

/-! ### reachable worlds -/

/-- Worlds reachable by operations (any fault, any commit order) that start on a subject without change records,
    clock ticks and sweeps (any transaction order). -/
inductive Reach (cfg : Cfg) : World → Prop
  | init : Reach cfg {}
  | op {w : World} (o : Op) (order : List Method) (f : Fault) :
      Reach cfg w → Clean w.dids o.subject → Reach cfg (stepOp cfg w o order f).1
  | tick {w : World} (d : Nat) : Reach cfg w → Reach cfg (tick d w)
  | sweep {w : World} (ord : List Nat → List Nat) :
      Reach cfg w → (∀ l, (ord l).Perm l) → Reach cfg (sweep cfg ord w).1
  | restamp {w : World} (f : DidRow → Ver → Nat) : Reach cfg w → Reach cfg (restamp f w)

theorem reach_inv {cfg : Cfg} (hfix : Fixed cfg) (hms : cfg.methods.Nodup) {w : World} (h : Reach cfg w) :
    Inv w.dids w.next := by
  induction h with
  | init => exact inv_nil 0
  | op o order f _ hc ih => exact stepOp_inv o order f hfix hms ih hc
  | tick d _ ih => exact ih
  | sweep ord _ hord ih => exact (sweep_spec ord hfix hord ih).2.1
  | restamp f _ ih => exact inv_restamp f ih

/-! ### versions without change record survive every step; a failed commit restores the rows -/

theorem filterMap_eq_self {α} (g : α → Option α) : ∀ l : List α, (∀ a ∈ l, g a = some a) → l.filterMap g = l
  | [], _ => rfl
  | x :: xs, h => by
    rw [List.filterMap_cons, h x (List.mem_cons_self ..)]
    simp only
    rw [filterMap_eq_self g xs (fun a ha => h a (List.mem_cons_of_mem _ ha))]

theorem filterMap_eq_nil' {α β} (g : α → Option β) : ∀ l : List α, (∀ a ∈ l, g a = none) → l.filterMap g = []
  | [], _ => rfl
  | x :: xs, h => by
    rw [List.filterMap_cons, h x (List.mem_cons_self ..)]
    exact filterMap_eq_nil' g xs (fun a ha => h a (List.mem_cons_of_mem _ ha))

theorem selTx_old_false {dids n} (h : Inv dids n) (r : DidRow) (hr : r ∈ dids) : selTx n r = false := by
  cases hs : selTx n r with
  | false => rfl
  | true =>
    simp only [selTx, beq_iff_eq] at hs
    exact absurd (headTx_lt h r hr n hs) (Nat.lt_irrefl _)

theorem restore_push {cfg : Cfg} {dids : List DidRow} {n : Nat} (o : Op) (now : Nat) (h : Inv dids n) :
    (dids.map (pushRow o n now)).filterMap (dropSel cfg (selTx n)) = dids := by
  rw [List.filterMap_map]
  apply filterMap_eq_self
  intro r hr
  simp only [Function.comp]
  rcases pushRow_cases o n now r with he | ⟨_, hct, c, he⟩ <;> rw [he]
  · simp [dropSel, selTx_old_false h r hr]
  · simp [dropSel, dropHead, selTx, headTx, hct]

theorem restore_create {cfg : Cfg} {dids : List DidRow} {n : Nat} (ms : List Method) (now : Nat) (s : String)
    (hfix : Fixed cfg) (h : Inv dids n) :
    (dids ++ ms.map (newDid n now s)).filterMap (dropSel cfg (selTx n)) = dids := by
  rw [List.filterMap_append, filterMap_eq_self _ dids, filterMap_eq_nil', List.append_nil]
  · intro r hr
    rcases List.mem_map.1 hr with ⟨m, _, rfl⟩
    simp [dropSel, dropHead, selTx, headTx, newDid, hfix.delDid]
  · intro r hr
    simp [dropSel, selTx_old_false h r hr]

theorem tx1_restore {cfg : Cfg} {w w1 : World} {o : Op} {chs : List Change} (hfix : Fixed cfg)
    (h : Inv w.dids w.next) (ht : tx1 cfg w o = .ok (w1, chs)) :
    w1.dids.filterMap (dropSel cfg (selTx w.next)) = w.dids := by
  by_cases hcr : ∃ s, o = .create s
  · rcases hcr with ⟨s, rfl⟩
    rcases tx1Create_ok (show tx1Create cfg w s = .ok (w1, chs) from ht) with ⟨hd, _⟩
    rw [hd]; exact restore_create _ _ _ hfix h
  · have hnc : ∀ s, o ≠ .create s := fun s he => hcr ⟨s, he⟩
    rw [tx1_is_update cfg w o hnc] at ht
    rcases tx1Update_ok ht with ⟨hd, _⟩
    rw [hd]; exact restore_push o _ h

theorem keeps_tx1 {cfg : Cfg} {w w1 : World} {o : Op} {chs : List Change} (ht : tx1 cfg w o = .ok (w1, chs)) :
    Keeps w.dids w1.dids := by
  by_cases hcr : ∃ s, o = .create s
  · rcases hcr with ⟨s, rfl⟩
    rcases tx1Create_ok (show tx1Create cfg w s = .ok (w1, chs) from ht) with ⟨hd, _⟩
    rw [hd]
    exact fun r hr v hv _ => ⟨r, List.mem_append_left _ hr, rfl, hv⟩
  · have hnc : ∀ s, o ≠ .create s := fun s he => hcr ⟨s, he⟩
    rw [tx1_is_update cfg w o hnc] at ht
    rcases tx1Update_ok ht with ⟨hd, _⟩
    rw [hd]
    intro r hr v hv _
    refine ⟨pushRow o w.next w.now r, List.mem_map.2 ⟨r, hr, rfl⟩, ?_, ?_⟩
    · rcases pushRow_cases o w.next w.now r with he | ⟨_, _, c, he⟩ <;> rw [he]
    · rcases pushRow_cases o w.next w.now r with he | ⟨_, _, c, he⟩ <;> rw [he]
      · exact hv
      · exact List.mem_cons_of_mem _ hv

theorem stepOpCore_keeps {cfg : Cfg} {w : World} (o : Op) (order : List Method) (f : Fault) (hfix : Fixed cfg)
    (hms : cfg.methods.Nodup) (h : Inv w.dids w.next) (hc : Clean w.dids o.subject) :
    Keeps w.dids (stepOpCore cfg w o order f).1.dids := by
  rcases stepOpCore_cases cfg w o order f with he | ⟨w1, chs, pub, ht, he | he | he⟩ <;> rw [he]
  · exact Keeps.refl _
  · exact (keeps_tx1 ht : Keeps w.dids w1.dids)
  · have := tx1_ok hms h hc ht
    refine Keeps.trans (keeps_tx1 ht) ?_
    unfold tx2
    simp only [if_true]
    rw [deleteChanges_dids (w := { w1 with pub := pub }) this.1 this.2.1]
    exact keeps_dropSel _ this.1 this.2.1.pending
  · refine Keeps.trans (keeps_tx1 ht) ?_
    unfold tx2
    simp only [Bool.false_eq_true, if_false]
    cases chs with
    | nil => exact Keeps.refl _
    | cons ch _ => exact keeps_clear ch.tx _

theorem stepOp_keeps {cfg : Cfg} {w : World} (o : Op) (order : List Method) (f : Fault) (hfix : Fixed cfg)
    (hms : cfg.methods.Nodup) (h : Inv w.dids w.next) (hc : Clean w.dids o.subject) :
    Keeps w.dids (stepOp cfg w o order f).1.dids := by
  rcases stepOp_unchanged_or_core cfg w o order f with he | he <;> rw [he]
  · exact Keeps.refl _
  · exact stepOpCore_keeps o order f hfix hms h hc

theorem logCount_zero (w : World) (h : ∀ r ∈ w.dids, ∀ v ∈ r.vers, v.pending = none) : logCount w = 0 := by
  unfold logCount
  have : ∀ l : List DidRow, (∀ r ∈ l, ∀ v ∈ r.vers, v.pending = none) →
      (l.map (fun r => (r.vers.filter (fun v => v.pending.isSome)).length)).sum = 0 := by
    intro l
    induction l with
    | nil => intro _; rfl
    | cons x xs ih =>
      intro hx
      rw [List.map_cons, List.sum_cons, ih (fun r hr => hx r (List.mem_cons_of_mem _ hr))]
      have : x.vers.filter (fun v => v.pending.isSome) = [] := by
        apply List.filter_eq_nil_iff.2
        intro v hv
        rw [hx x (List.mem_cons_self ..) v hv]; simp
      rw [this]; rfl
  exact this w.dids h

theorem consec_range : ∀ vs : List Ver, Consec vs → vs.map (·.n) = (List.range vs.length).reverse
  | [], _ => rfl
  | v :: vs, h => by
    rw [List.map_cons, consec_range vs h.2, h.1, List.length_cons, List.range_succ, List.reverse_append]
    rfl

/-! ### end to end: an operation that stopped, then the sweep after the threshold -/

theorem filterMap_congr' {α β} {f g : α → Option β} : ∀ {l : List α}, (∀ a ∈ l, f a = g a) → l.filterMap f = l.filterMap g
  | [], _ => rfl
  | x :: xs, h => by
    rw [List.filterMap_cons, List.filterMap_cons, h x (List.mem_cons_self ..),
      filterMap_congr' (fun a ha => h a (List.mem_cons_of_mem _ ha))]

theorem eraseDups_all_eq (a : Nat) : ∀ l : List Nat, l ≠ [] → (∀ x ∈ l, x = a) → l.eraseDups = [a]
  | [], h, _ => absurd rfl h
  | x :: xs, _, h => by
    have hx : x = a := h x (List.mem_cons_self ..)
    subst hx
    rw [List.eraseDups_cons]
    have : xs.filter (fun b => !b == x) = [] := by
      apply List.filter_eq_nil_iff.2
      intro b hb
      simp [h b (List.mem_cons_of_mem _ hb)]
    rw [this]; rfl

theorem clearRow_id {t : Nat} {r : DidRow} (h : ∀ v ∈ r.vers, v.pending = none) : clearRow t r = r := by
  unfold clearRow
  have : r.vers.map (clearTx t) = r.vers := by
    conv => rhs; rw [← List.map_id r.vers]
    apply List.map_congr_left
    intro v hv
    simp [clearTx_of_none (h v hv)]
  rw [this]

theorem map_clearRow_id {t : Nat} {dids : List DidRow} (h : ∀ r ∈ dids, ∀ v ∈ r.vers, v.pending = none) :
    dids.map (clearRow t) = dids := by
  conv => rhs; rw [← List.map_id dids]
  apply List.map_congr_left
  intro r hr
  simp [clearRow_id (h r hr)]

/-- the change records right after a first transaction on a database without change records -/
theorem tx1_pending {cfg : Cfg} {w0 w1 : World} {o : Op} {chs : List Change}
    (hnone : ∀ r ∈ w0.dids, ∀ v ∈ r.vers, v.pending = none) (ht : tx1 cfg w0 o = .ok (w1, chs)) :
    ∀ r ∈ w1.dids, ∀ v ∈ r.vers, ∀ p, v.pending = some p → p.tx = w0.next ∧ v.ts = w0.now := by
  by_cases hcr : ∃ s, o = .create s
  · rcases hcr with ⟨s, rfl⟩
    rcases tx1Create_ok (show tx1Create cfg w0 s = .ok (w1, chs) from ht) with ⟨hd, _⟩
    rw [hd]
    intro r hr v hv p hp
    rcases List.mem_append.1 hr with ho | hn
    · rw [hnone r ho v hv] at hp; cases hp
    · rcases List.mem_map.1 hn with ⟨m, _, rfl⟩
      simp only [newDid, List.mem_singleton] at hv
      subst hv
      simp only [Option.some.injEq] at hp
      subst hp
      exact ⟨rfl, rfl⟩
  · have hnc : ∀ s, o ≠ .create s := fun s he => hcr ⟨s, he⟩
    rw [tx1_is_update cfg w0 o hnc] at ht
    rcases tx1Update_ok ht with ⟨hd, _⟩
    rw [hd]
    intro r' hr' v hv p hp
    rcases List.mem_map.1 hr' with ⟨r, hr, rfl⟩
    rcases pushRow_cases o w0.next w0.now r with he | ⟨_, _, c, he⟩ <;> rw [he] at hv
    · rw [hnone r hr v hv] at hp; cases hp
    · rcases List.mem_cons.1 hv with rfl | hin
      · simp only [Option.some.injEq] at hp
        subst hp
        exact ⟨rfl, rfl⟩
      · rw [hnone r hr v hin] at hp; cases hp

theorem stopped_then_swept {cfg : Cfg} (hfix : Fixed cfg) (hms : cfg.methods.Nodup) {w0 w1 : World} {o : Op}
    {chs : List Change} (hi : Inv w0.dids w0.next) (hnone : ∀ r ∈ w0.dids, ∀ v ∈ r.vers, v.pending = none)
    (ht : tx1 cfg w0 o = .ok (w1, chs)) (pub : Nat → List Content) (d : Nat) (hd : cfg.threshold < d)
    (ord : List Nat → List Nat) (hord : ∀ l, (ord l).Perm l) :
    ((sweep cfg ord (tick d { w1 with pub := pub })).1.dids = w0.dids ∨
     ((sweep cfg ord (tick d { w1 with pub := pub })).1.dids = w1.dids.map (clearRow w0.next) ∧
      ∀ r ∈ w1.dids, ∀ v vs p, r.vers = v :: vs → v.pending = some p → r.method = .nuts → pubLatest pub r.id = some v.c)) ∧
    (sweep cfg ord (tick d { w1 with pub := pub })).1.pub = pub := by
  have hclean : Clean w0.dids o.subject := fun r hr _ v hv => hnone r hr v hv
  have h1 := tx1_ok hms hi hclean ht
  have hpend := tx1_pending hnone ht
  -- the world the sweep sees
  generalize hwS : tick d { w1 with pub := pub } = wS
  have hSd : wS.dids = w1.dids := by rw [← hwS]; rfl
  have hSn : wS.next = w1.next := by rw [← hwS]; rfl
  have hSnow : wS.now = w0.now + d := by rw [← hwS]; simp [tick, h1.2.2.2.2.1]
  have hSpub : wS.pub = pub := by rw [← hwS]; rfl
  have hiS : Inv wS.dids wS.next := by rw [hSd, hSn]; exact h1.1
  have hspec := sweep_spec ord hfix hord hiS
  refine ⟨?_, by rw [hspec.2.2.2.1, hSpub]⟩
  -- every change record is old, so the sweep looks at all of them; all belong to one transaction
  have hold : ∀ ch ∈ allChanges wS, ch ∈ oldChanges cfg wS ∧ ch.tx = w0.next := by
    intro ch hch
    rcases (mem_allChanges wS ch).1 hch with ⟨r, hr, v, hv, p, hp, rfl⟩
    have := hpend r (hSd ▸ hr) v hv p hp
    refine ⟨?_, this.1⟩
    unfold oldChanges
    rw [List.mem_filter]
    refine ⟨hch, ?_⟩
    simp only [decide_eq_true_eq, this.2, hSnow]
    omega
  have hsw : sweepChanges cfg wS = allChanges wS := by
    unfold sweepChanges
    rw [if_pos hfix.wholeTx]
    apply List.filter_eq_self.2
    intro ch hch
    simp only [List.any_eq_true, decide_eq_true_eq]
    exact ⟨ch, (hold ch hch).1, rfl⟩
  by_cases hempty : allChanges wS = []
  · -- nothing was written: nothing to do
    right
    have hnp : ∀ r ∈ w1.dids, ∀ v ∈ r.vers, v.pending = none := by
      intro r hr v hv
      cases hp : v.pending with
      | none => rfl
      | some p =>
        have : ({ did := r.id, method := r.method, row := v.row, typ := p.typ, tx := p.tx, ts := v.ts, c := v.c } : Change) ∈ allChanges wS :=
          (mem_allChanges wS _).2 ⟨r, hSd ▸ hr, v, hv, p, hp, rfl⟩
        rw [hempty] at this; cases this
    constructor
    · unfold sweep
      simp only [hsw, hempty, List.map_nil]
      have : ord ([] : List Nat).eraseDups = [] := List.Perm.eq_nil (hord _)
      rw [this]
      simp only [sweepTxs]
      rw [hSd, map_clearRow_id hnp]
    · intro r hr v vs p hv hp _
      rw [hnp r hr v (by rw [hv]; exact List.mem_cons_self ..)] at hp; cases hp
  · -- exactly one transaction
    have htxs : ord ((sweepChanges cfg wS).map (·.tx)).eraseDups = [w0.next] := by
      rw [hsw]
      have : ((allChanges wS).map (·.tx)).eraseDups = [w0.next] := by
        apply eraseDups_all_eq
        · simpa using hempty
        · intro x hx
          rcases List.mem_map.1 hx with ⟨ch, hch, rfl⟩
          exact (hold ch hch).2
      rw [this]
      exact List.perm_singleton.1 (hord _)
    have hcompat := compat_init hfix hiS [w0.next] (by
      intro ch hch
      rw [hsw] at hch
      rw [(hold ch hch).2]; exact List.mem_cons_self ..)
    rcases committedLoop_ok hfix.notFound wS.pub ((sweepChanges cfg wS).filter (fun ch => ch.tx = w0.next)) with ⟨b, hb⟩
    have hres : (sweep cfg ord wS).1 = sweepApply cfg wS ((sweepChanges cfg wS).filter (fun ch => ch.tx = w0.next)) w0.next b := by
      unfold sweep
      simp only [htxs, sweepTxs, hb]
    have hdids := sweepApply_dids (cfg := cfg) wS b hiS hcompat
    rw [hres, hdids]
    cases b with
    | true =>
      right
      constructor
      · simp [sweepRows, hSd]
      · intro r hr v vs p hv hp hm
        have hmem : ({ did := r.id, method := r.method, row := v.row, typ := p.typ, tx := p.tx, ts := v.ts, c := v.c } : Change) ∈
            (sweepChanges cfg wS).filter (fun ch => ch.tx = w0.next) := by
          have hin := (mem_allChanges wS _).2 ⟨r, hSd ▸ hr, v, by rw [hv]; exact List.mem_cons_self .., p, hp, rfl⟩
          rw [List.mem_filter, hsw]
          exact ⟨hin, by simpa using (hold _ hin).2⟩
        have hc := committedLoop_true wS.pub _ hb _ hmem
        unfold isCommitted at hc
        simp only [hm, hSpub] at hc
        split at hc
        · rw [if_pos hfix.notFound] at hc; cases hc
        · rename_i cur hcur
          simp only [Res.ok.injEq, Bool.and_eq_true, beq_iff_eq] at hc
          rw [hcur, hc.1]
    | false =>
      left
      have hsel : ∀ r ∈ wS.dids, dropSel cfg (selOld (inOldTx cfg wS) w0.next) r = dropSel cfg (selTx w0.next) r := by
        intro r hr
        have : selOld (inOldTx cfg wS) w0.next r = selTx w0.next r := by
          unfold selOld selTx headTx
          cases hv : r.vers with
          | nil => simp
          | cons v vs =>
            cases hp : v.pending with
            | none => simp [hp]
            | some p =>
              have hin := (mem_allChanges wS _).2 ⟨r, hr, v, by rw [hv]; exact List.mem_cons_self .., p, hp, rfl⟩
              have hq : inOldTx cfg wS v = true := by
                simp only [inOldTx, hp, List.any_eq_true, decide_eq_true_eq]
                exact ⟨_, (hold _ hin).1, rfl⟩
              simp [hp, hq]
        unfold dropSel
        rw [this]
      simp only [sweepRows, Bool.false_eq_true, if_false]
      rw [filterMap_congr' hsel, hSd, tx1_restore hfix hi ht, map_clearRow_id hnone]

/-! ### what the commit loop publishes -/

theorem commitLoop_failNuts_pub (chs : List Change) : ∀ (order : List Method) (i : Nat) (pub : Nat → List Content),
    (commitLoop .failNuts chs order i pub).1 = pub
  | [], _, _ => rfl
  | m :: ms, i, pub => by
    unfold commitLoop
    split
    · exact commitLoop_failNuts_pub chs ms i pub
    · split
      · rfl
      · cases m with
        | web => exact commitLoop_failNuts_pub chs ms (i + 1) pub
        | nuts => simp

theorem commitLoop_stop0_pub (chs : List Change) : ∀ (order : List Method) (pub : Nat → List Content),
    (commitLoop (.stop 0) chs order 0 pub).1 = pub
  | [], _ => rfl
  | m :: ms, pub => by
    unfold commitLoop
    split
    · exact commitLoop_stop0_pub chs ms pub
    · simp

/-- the world an operation leaves behind when the process stops (before a Commit call or before the clean-up) -/
theorem stepOpCore_stopped {cfg : Cfg} {w w1 : World} {o : Op} {chs : List Change} (order : List Method) (k : Nat)
    (ht : tx1 cfg w o = .ok (w1, chs))
    (hph : (commitLoop (.stop k) chs order 0 w1.pub).2 = .stopped ∨
           ∃ i, (commitLoop (.stop k) chs order 0 w1.pub).2 = .completed i ∧ i ≤ k) :
    (stepOpCore cfg w o order (.stop k)).1 = { w1 with pub := (commitLoop (.stop k) chs order 0 w1.pub).1 } := by
  unfold stepOpCore
  rw [ht]
  simp only
  rcases hcl : commitLoop (.stop k) chs order 0 w1.pub with ⟨pub, ph⟩
  rw [hcl] at hph
  simp only at hph
  rcases hph with rfl | ⟨i, rfl, hik⟩
  · rfl
  · simp [hik]

/-! ### keys: every key in a stored or published document was in one before, or is fresh -/

/-- `k` occurs in a stored version or in a published document -/
def UsedKey (w : World) (k : Nat) : Prop :=
  (∃ r ∈ w.dids, ∃ v ∈ r.vers, k ∈ v.c.vms) ∨ (∃ d, ∃ c ∈ w.pub d, k ∈ c.vms)

/-- the contents of the versions of `dids'` are contents of versions of `dids` -/
def ContentSub (dids' dids : List DidRow) : Prop :=
  ∀ r' ∈ dids', ∀ v' ∈ r'.vers, ∃ r ∈ dids, ∃ v ∈ r.vers, v'.c = v.c

theorem ContentSub.refl (d : List DidRow) : ContentSub d d := fun r hr v hv => ⟨r, hr, v, hv, rfl⟩

theorem ContentSub.trans {a b c : List DidRow} (h1 : ContentSub a b) (h2 : ContentSub b c) : ContentSub a c := by
  intro r hr v hv
  rcases h1 r hr v hv with ⟨r1, hr1, v1, hv1, e1⟩
  rcases h2 r1 hr1 v1 hv1 with ⟨r2, hr2, v2, hv2, e2⟩
  exact ⟨r2, hr2, v2, hv2, e1.trans e2⟩

theorem contentSub_deleteChanges (cfg : Cfg) (chs : List Change) (w : World) :
    ContentSub (deleteChanges cfg chs w).dids w.dids := by
  intro r' hr' v' hv'
  unfold deleteChanges at hr'
  simp only at hr'
  have hm : r' ∈ w.dids.map (dropVersions chs) := by
    split at hr'
    · exact (List.mem_filter.1 hr').1
    · exact hr'
  rcases List.mem_map.1 hm with ⟨r, hr, rfl⟩
  exact ⟨r, hr, v', (List.mem_filter.1 hv').1, rfl⟩

theorem contentSub_deleteLogTx (t : Nat) (w : World) : ContentSub (deleteLogTx t w).dids w.dids := by
  intro r' hr' v' hv'
  rw [deleteLogTx_dids] at hr'
  rcases List.mem_map.1 hr' with ⟨r, hr, rfl⟩
  rcases List.mem_map.1 hv' with ⟨v, hv, rfl⟩
  exact ⟨r, hr, v, hv, clearTx_c t v⟩

theorem contentSub_sweepApply (cfg : Cfg) (w : World) (group : List Change) (t : Nat) (b : Bool) :
    ContentSub (sweepApply cfg w group t b).dids w.dids := by
  unfold sweepApply
  cases b with
  | true => exact contentSub_deleteLogTx t w
  | false => exact ContentSub.trans (contentSub_deleteLogTx t _) (contentSub_deleteChanges cfg group w)

theorem contentSub_sweepTxs (cfg : Cfg) (old : List Change) : ∀ (ts : List Nat) (w w' : World),
    sweepTxs cfg old ts w = .ok w' → ContentSub w'.dids w.dids ∧ w'.pub = w.pub ∧ w'.next = w.next
  | [], w, w', h => by
    simp only [sweepTxs, Res.ok.injEq] at h; subst h; exact ⟨ContentSub.refl _, rfl, rfl⟩
  | t :: ts, w, w', h => by
    unfold sweepTxs at h
    simp only at h
    split at h
    · rename_i b _
      have ih := contentSub_sweepTxs cfg old ts _ w' h
      have hf := sweepApply_fields cfg w (old.filter (fun ch => ch.tx = t)) t b
      exact ⟨ContentSub.trans ih.1 (contentSub_sweepApply cfg w _ t b), by rw [ih.2.1, hf.2.1], by rw [ih.2.2, hf.1]⟩
    · cases h
    · cases h

theorem sweep_sub (cfg : Cfg) (ord : List Nat → List Nat) (w : World) :
    ContentSub (sweep cfg ord w).1.dids w.dids ∧ (sweep cfg ord w).1.pub = w.pub ∧ (sweep cfg ord w).1.next = w.next := by
  unfold sweep
  simp only
  split
  · rename_i w' hw'
    exact contentSub_sweepTxs cfg _ _ w w' hw'
  · exact ⟨ContentSub.refl _, rfl, rfl⟩
  · exact ⟨ContentSub.refl _, rfl, rfl⟩

theorem used_of_sub {w w' : World} (hs : ContentSub w'.dids w.dids) (hp : w'.pub = w.pub) {k : Nat}
    (h : UsedKey w' k) : UsedKey w k := by
  rcases h with ⟨r', hr', v', hv', hk⟩ | ⟨d, c, hc, hk⟩
  · rcases hs r' hr' v' hv' with ⟨r, hr, v, hv, e⟩
    exact Or.inl ⟨r, hr, v, hv, e ▸ hk⟩
  · exact Or.inr ⟨d, c, hp ▸ hc, hk⟩

theorem rowOp_vms {o : Op} {fresh : Nat} {cur : Option Content} {c : Content} (h : rowOp o fresh cur = some c) :
    ∀ k ∈ c.vms, k = fresh ∨ ∃ c0, cur = some c0 ∧ k ∈ c0.vms := by
  intro k hk
  cases o with
  | create s => cases cur <;> simp [rowOp] at h
  | deactivate s =>
    have : c = Content.empty := by cases cur <;> simp [rowOp] at h <;> exact h.symm
    subst this; simp [Content.empty] at hk
  | addSvc s a =>
    cases cur with
    | none => simp [rowOp] at h
    | some c0 =>
      simp only [rowOp] at h
      split at h
      · cases h
      · cases h; exact Or.inr ⟨c0, rfl, hk⟩
  | updSvc s a b =>
    cases cur with
    | none => simp [rowOp] at h
    | some c0 => simp only [rowOp, Option.some.injEq] at h; subst h; exact Or.inr ⟨c0, rfl, hk⟩
  | delSvc s a =>
    cases cur with
    | none => simp [rowOp] at h
    | some c0 => simp only [rowOp, Option.some.injEq] at h; subst h; exact Or.inr ⟨c0, rfl, hk⟩
  | addKey s =>
    cases cur with
    | none => simp [rowOp] at h
    | some c0 =>
      simp only [rowOp, Option.some.injEq] at h
      subst h
      simp only [List.mem_append, List.mem_singleton] at hk
      rcases hk with hk | hk
      · exact Or.inr ⟨c0, rfl, hk⟩
      · exact Or.inl hk

theorem tx1_keys {cfg : Cfg} {w w1 : World} {o : Op} {chs : List Change} (ht : tx1 cfg w o = .ok (w1, chs)) :
    (∀ r' ∈ w1.dids, ∀ v' ∈ r'.vers, ∀ k ∈ v'.c.vms, UsedKey w k ∨ w.next ≤ k) ∧
    (∀ ch ∈ chs, ∀ k ∈ ch.c.vms, UsedKey w k ∨ w.next ≤ k) ∧ w1.pub = w.pub ∧ w.next ≤ w1.next := by
  by_cases hcr : ∃ s, o = .create s
  · rcases hcr with ⟨s, rfl⟩
    rcases tx1Create_ok (show tx1Create cfg w s = .ok (w1, chs) from ht) with ⟨hd, hn, hp, _, hchs, _⟩
    refine ⟨?_, ?_, hp, by omega⟩
    · rw [hd]
      intro r' hr' v' hv' k hk
      rcases List.mem_append.1 hr' with ho | hn'
      · exact Or.inl (Or.inl ⟨r', ho, v', hv', hk⟩)
      · rcases List.mem_map.1 hn' with ⟨m, _, rfl⟩
        simp only [newDid, List.mem_singleton] at hv'
        subst hv'
        simp only [List.mem_singleton] at hk
        right; omega
    · rw [hchs]
      intro ch hch k hk
      rcases List.mem_map.1 hch with ⟨m, _, rfl⟩
      simp only [createdChange, List.mem_singleton] at hk
      right; omega
  · have hnc : ∀ s, o ≠ .create s := fun s he => hcr ⟨s, he⟩
    rw [tx1_is_update cfg w o hnc] at ht
    rcases tx1Update_ok ht with ⟨hd, hn, hp, _, hchs⟩
    have newC : ∀ r ∈ w.dids, ∀ c, newContent o w.next r = some c → ∀ k ∈ c.vms, UsedKey w k ∨ w.next ≤ k := by
      intro r hr c hc k hk
      unfold newContent at hc
      split at hc
      · rcases rowOp_vms hc k hk with rfl | ⟨c0, hc0, hk0⟩
        · right; omega
        · cases hv : r.vers with
          | nil => rw [hv] at hc0; cases hc0
          | cons v vs =>
            rw [hv] at hc0
            simp only [List.head?_cons, Option.map_some, Option.some.injEq] at hc0
            subst hc0
            exact Or.inl (Or.inl ⟨r, hr, v, by rw [hv]; exact List.mem_cons_self .., hk0⟩)
      · cases hc
    refine ⟨?_, ?_, hp, by omega⟩
    · rw [hd]
      intro r' hr' v' hv' k hk
      rcases List.mem_map.1 hr' with ⟨r, hr, rfl⟩
      unfold pushRow at hv'
      cases hnc' : newContent o w.next r with
      | none => rw [hnc'] at hv'; exact Or.inl (Or.inl ⟨r, hr, v', hv', hk⟩)
      | some c =>
        rw [hnc'] at hv'
        rcases List.mem_cons.1 hv' with rfl | hin
        · exact newC r hr c hnc' k hk
        · exact Or.inl (Or.inl ⟨r, hr, v', hin, hk⟩)
    · rw [hchs]
      intro ch hch k hk
      rcases List.mem_filterMap.1 hch with ⟨r, hr, hc⟩
      unfold changeOf at hc
      cases hnc' : newContent o w.next r with
      | none => rw [hnc'] at hc; cases hc
      | some c =>
        rw [hnc'] at hc
        simp only [Option.map_some, Option.some.injEq] at hc
        subst hc
        exact newC r hr c hnc' k hk

theorem commitNuts_sub {pub pub' : Nat → List Content} {ch : Change} (h : commitNuts pub ch = .ok pub') :
    ∀ d c, c ∈ pub' d → c ∈ pub d ∨ c = ch.c ∨ c.vms = [] := by
  have pubd : ∀ (c0 : Content) d c, c ∈ publish pub ch.did c0 d → c ∈ pub d ∨ c = c0 := by
    intro c0 d c hc
    unfold publish at hc
    split at hc
    · rename_i he
      rcases List.mem_cons.1 hc with rfl | hin
      · exact Or.inr rfl
      · exact Or.inl (he ▸ hin)
    · exact Or.inl hc
  intro d c hc
  unfold commitNuts at h
  split at h
  · cases h
    rcases pubd _ d c hc with h1 | h1
    · exact Or.inl h1
    · exact Or.inr (Or.inl h1)
  · split at h
    · cases h
    · split at h
      · cases h; exact Or.inl hc
      · split at h
        · cases h
        · cases h
          rcases pubd _ d c hc with h1 | h1
          · exact Or.inl h1
          · exact Or.inr (Or.inl h1)
  · split at h
    · cases h
    · split at h
      · cases h
      · cases h
        rcases pubd _ d c hc with h1 | h1
        · exact Or.inl h1
        · exact Or.inr (Or.inr (by rw [h1]; rfl))

theorem commitLoop_pub_sub (f : Fault) (chs : List Change) : ∀ (order : List Method) (i : Nat) (pub : Nat → List Content),
    ∀ d c, c ∈ (commitLoop f chs order i pub).1 d → c ∈ pub d ∨ c.vms = [] ∨ ∃ ch ∈ chs, c = ch.c
  | [], _, _, _, _, hc => Or.inl hc
  | m :: ms, i, pub, d, c, hc => by
    unfold commitLoop at hc
    split at hc
    · exact commitLoop_pub_sub f chs ms i pub d c hc
    · rename_i ch hfind
      have hmem : ch ∈ chs := List.mem_of_find?_eq_some hfind
      split at hc
      · exact Or.inl hc
      · cases m with
        | web => exact commitLoop_pub_sub f chs ms (i + 1) pub d c hc
        | nuts =>
          simp only at hc
          split at hc
          · exact Or.inl hc
          · split at hc
            · rename_i pub' hcn
              rcases commitLoop_pub_sub f chs ms (i + 1) pub' d c hc with h1 | h1
              · rcases commitNuts_sub hcn d c h1 with h2 | h2 | h2
                · exact Or.inl h2
                · exact Or.inr (Or.inr ⟨ch, hmem, h2⟩)
                · exact Or.inr (Or.inl h2)
              · exact Or.inr h1
            · exact Or.inl hc
            · exact Or.inl hc

theorem tx2_sub (cfg : Cfg) (w : World) (chs : List Change) (b : Bool) :
    ContentSub (tx2 cfg w chs b).dids w.dids ∧ (tx2 cfg w chs b).pub = w.pub ∧ (tx2 cfg w chs b).next = w.next := by
  unfold tx2
  cases b with
  | true => exact ⟨contentSub_deleteChanges cfg chs w, rfl, rfl⟩
  | false =>
    simp only [Bool.false_eq_true, if_false]
    cases chs with
    | nil => exact ⟨ContentSub.refl _, rfl, rfl⟩
    | cons ch _ => exact ⟨contentSub_deleteLogTx ch.tx w, rfl, rfl⟩

/-- one operation: every key in a stored or published document afterwards was in one before, or is fresh -/
theorem used_stepOpCore (cfg : Cfg) (w : World) (o : Op) (order : List Method) (f : Fault) (k : Nat)
    (h : UsedKey (stepOpCore cfg w o order f).1 k) :
    (UsedKey w k ∨ w.next ≤ k) ∧ w.next ≤ (stepOpCore cfg w o order f).1.next := by
  unfold stepOpCore at h ⊢
  split
  · rename_i e he; rw [he] at h; exact ⟨Or.inl h, Nat.le_refl _⟩
  · rename_i e he; rw [he] at h; exact ⟨Or.inl h, Nat.le_refl _⟩
  · rename_i w1 chs ht
    rw [ht] at h
    simp only at h
    have hk := tx1_keys ht
    have hpubsub := commitLoop_pub_sub f chs order 0 w1.pub
    -- whatever branch: the rows are contents of w1's rows, the publications come from the commit loop
    have core : ∀ (wr : World), ContentSub wr.dids w1.dids → wr.pub = (commitLoop f chs order 0 w1.pub).1 →
        UsedKey wr k → UsedKey w k ∨ w.next ≤ k := by
      intro wr hsub hpub hu
      rcases hu with ⟨r', hr', v', hv', hkv⟩ | ⟨d, c, hc, hkc⟩
      · rcases hsub r' hr' v' hv' with ⟨r, hr, v, hv, e⟩
        exact hk.1 r hr v hv k (e ▸ hkv)
      · rw [hpub] at hc
        rcases hpubsub d c hc with h1 | h1 | ⟨ch, hch, rfl⟩
        · rw [hk.2.2.1] at h1
          exact Or.inl (Or.inr ⟨d, c, h1, hkc⟩)
        · rw [h1] at hkc; cases hkc
        · exact hk.2.1 ch hch k hkc
    rcases hcl : commitLoop f chs order 0 w1.pub with ⟨pub, ph⟩
    rw [hcl] at h core
    simp only at h core
    cases ph with
    | stopped => exact ⟨core { w1 with pub := pub } (ContentSub.refl _) rfl h, hk.2.2.2⟩
    | failed e =>
      have hs := tx2_sub cfg { w1 with pub := pub } chs true
      exact ⟨core _ hs.1 hs.2.1 h, by simp only; rw [hs.2.2]; exact hk.2.2.2⟩
    | completed i =>
      have hs := tx2_sub cfg { w1 with pub := pub } chs false
      simp only at h ⊢
      split at h
      · rename_i k' 
        split at h
        · rename_i hik; simp only [hik, if_true]; exact ⟨core { w1 with pub := pub } (ContentSub.refl _) rfl h, hk.2.2.2⟩
        · rename_i hik; simp only [hik, if_false]; exact ⟨core _ hs.1 hs.2.1 h, by rw [hs.2.2]; exact hk.2.2.2⟩
      · exact ⟨core _ hs.1 hs.2.1 h, by rw [hs.2.2]; exact hk.2.2.2⟩

theorem used_stepOp (cfg : Cfg) (w : World) (o : Op) (order : List Method) (f : Fault) (k : Nat)
    (h : UsedKey (stepOp cfg w o order f).1 k) :
    (UsedKey w k ∨ w.next ≤ k) ∧ w.next ≤ (stepOp cfg w o order f).1.next := by
  rcases stepOp_unchanged_or_core cfg w o order f with he | he
  · rw [he] at h ⊢; exact ⟨Or.inl h, Nat.le_refl _⟩
  · rw [he] at h ⊢; exact used_stepOpCore cfg w o order f k h

theorem stepOp_next_le (cfg : Cfg) (w : World) (o : Op) (order : List Method) (f : Fault) :
    w.next ≤ (stepOp cfg w o order f).1.next := by
  rcases stepOp_unchanged_or_core cfg w o order f with he | he <;> rw [he]
  · exact Nat.le_refl _
  · rcases stepOpCore_cases cfg w o order f with he | ⟨w1, chs, pub, ht, he | he | he⟩ <;> rw [he]
    · exact Nat.le_refl _
    · exact (tx1_keys ht).2.2.2
    · rw [(tx2_sub cfg _ chs true).2.2]; exact (tx1_keys ht).2.2.2
    · rw [(tx2_sub cfg _ chs false).2.2]; exact (tx1_keys ht).2.2.2

/-- any continuation: operations (any fault, any order), ticks, sweeps, restamps -/
inductive Steps (cfg : Cfg) : World → World → Prop
  | refl (w : World) : Steps cfg w w
  | op {w w' : World} (o : Op) (order : List Method) (f : Fault) : Steps cfg w w' → Steps cfg w (stepOp cfg w' o order f).1
  | tick {w w' : World} (d : Nat) : Steps cfg w w' → Steps cfg w (tick d w')
  | sweep {w w' : World} (ord : List Nat → List Nat) : Steps cfg w w' → Steps cfg w (sweep cfg ord w').1
  | restamp {w w' : World} (f : DidRow → Ver → Nat) : Steps cfg w w' → Steps cfg w (restamp f w')

theorem used_restamp (f : DidRow → Ver → Nat) (w : World) (k : Nat) (h : UsedKey (restamp f w) k) : UsedKey w k := by
  rcases h with ⟨r', hr', v', hv', hk⟩ | h
  · rw [restamp_dids] at hr'
    rcases List.mem_map.1 hr' with ⟨r, hr, rfl⟩
    rcases List.mem_map.1 hv' with ⟨v, hv, rfl⟩
    exact Or.inl ⟨r, hr, v, hv, hk⟩
  · exact Or.inr h

/-- a key below the counter that no stored or published document contains now is in none ever after -/
theorem steps_keys {cfg : Cfg} {w w' : World} (h : Steps cfg w w') :
    w.next ≤ w'.next ∧ ∀ k, k < w.next → UsedKey w' k → UsedKey w k := by
  induction h with
  | refl => exact ⟨Nat.le_refl _, fun _ _ h => h⟩
  | op o order f _ ih =>
    refine ⟨Nat.le_trans ih.1 (stepOp_next_le cfg _ o order f), ?_⟩
    intro k hk hu
    rcases (used_stepOp cfg _ o order f k hu).1 with h1 | h1
    · exact ih.2 k hk h1
    · omega
  | tick d _ ih => exact ih
  | @sweep wm ord _ ih =>
    have hs := sweep_sub cfg ord wm
    exact ⟨by rw [hs.2.2]; exact ih.1, fun k hk hu => ih.2 k hk (used_of_sub hs.1 hs.2.1 hu)⟩
  | @restamp wm f _ ih => exact ⟨ih.1, fun k hk hu => ih.2 k hk (used_restamp f wm k hu)⟩

/-- a change record never names a version that existed before its transaction: its version id is fresh -/
theorem tx1_rows_fresh {cfg : Cfg} {w w1 : World} {o : Op} {chs : List Change} (ht : tx1 cfg w o = .ok (w1, chs)) :
    ∀ ch ∈ chs, w.next ≤ ch.row := by
  by_cases hcr : ∃ s, o = .create s
  · rcases hcr with ⟨s, rfl⟩
    rcases tx1Create_ok (show tx1Create cfg w s = .ok (w1, chs) from ht) with ⟨_, _, _, _, hchs, _⟩
    rw [hchs]
    intro ch hch
    rcases List.mem_map.1 hch with ⟨m, _, rfl⟩
    simp only [createdChange]; omega
  · have hnc : ∀ s, o ≠ .create s := fun s he => hcr ⟨s, he⟩
    rw [tx1_is_update cfg w o hnc] at ht
    rcases tx1Update_ok ht with ⟨_, _, _, _, hchs⟩
    rw [hchs]
    intro ch hch
    rcases List.mem_filterMap.1 hch with ⟨r, _, hc⟩
    unfold changeOf at hc
    cases hnc' : newContent o w.next r with
    | none => rw [hnc'] at hc; cases hc
    | some c =>
      rw [hnc'] at hc
      simp only [Option.map_some, Option.some.injEq] at hc
      subst hc
      simp only; omega

/-! ### the sweep does not touch young change records -/

/-- no change record older than the threshold: the sweep is a no-op, whatever mode it runs in -/
theorem sweep_young_noop (cfg : Cfg) (ord : List Nat → List Nat) (hord : ∀ l, (ord l).Perm l) (w : World)
    (hy : ∀ r ∈ w.dids, ∀ v ∈ r.vers, v.pending ≠ none → ¬ (v.ts + cfg.threshold < w.now)) :
    sweep cfg ord w = (w, "ok") := by
  have hold : oldChanges cfg w = [] := by
    unfold oldChanges
    apply List.filter_eq_nil_iff.2
    intro ch hch
    rcases (mem_allChanges w ch).1 hch with ⟨r, hr, v, hv, p, hp, rfl⟩
    simpa using hy r hr v hv (by rw [hp]; simp)
  have hsw : sweepChanges cfg w = [] := by
    unfold sweepChanges
    rw [hold]
    split
    · apply List.filter_eq_nil_iff.2
      intro ch _
      simp
    · rfl
  unfold sweep
  simp only [hsw, List.map_nil]
  have : ord ([] : List Nat).eraseDups = [] := List.Perm.eq_nil (hord _)
  rw [this]
  rfl

/-- a sweep that fires while an operation is in flight (its first transaction committed `d ≤ threshold` seconds ago, whatever
    has been published so far) on a database that had no change records: nothing happens -/
theorem in_flight_sweep_noop {cfg : Cfg} {w0 w1 : World} {o : Op} {chs : List Change}
    (hnone : ∀ r ∈ w0.dids, ∀ v ∈ r.vers, v.pending = none) (ht : tx1 cfg w0 o = .ok (w1, chs))
    (pub : Nat → List Content) (d : Nat) (hd : d ≤ cfg.threshold) (ord : List Nat → List Nat) (hord : ∀ l, (ord l).Perm l) :
    sweep cfg ord (tick d { w1 with pub := pub }) = (tick d { w1 with pub := pub }, "ok") := by
  apply sweep_young_noop cfg ord hord
  intro r hr v hv hp
  cases hpv : v.pending with
  | none => exact absurd hpv hp
  | some p =>
    have := (tx1_pending hnone ht r hr v hv p hpv).2
    have hnow : (tick d { w1 with pub := pub }).now = w1.now + d := rfl
    have hw1 : w1.now = w0.now := by
      by_cases hcr : ∃ s, o = .create s
      · rcases hcr with ⟨s, rfl⟩
        exact (tx1Create_ok (show tx1Create cfg w0 s = .ok (w1, chs) from ht)).2.2.2.1
      · have hnc : ∀ s, o ≠ .create s := fun s he => hcr ⟨s, he⟩
        rw [tx1_is_update cfg w0 o hnc] at ht
        exact (tx1Update_ok ht).2.2.2.1
    rw [hnow, hw1, this]
    omega

end Nuts.C13
