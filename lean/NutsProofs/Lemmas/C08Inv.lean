/-
  C08 — the state invariant `SInv`, its preservation by `add` (all outcomes), rollback and restart, and the observables
  of a state that satisfies it.  Core Lean only.
-/
import NutsProofs.Lemmas.C08Graph

namespace Nuts.C08

variable {n : Nat}

/-- the regenerated facts the state theorems need -/
structure Good (cfg : Cfg) : Prop where
  pos : 0 < cfg.pageSize
  even : cfg.pageSize % 2 = 0
  resets : cfg.loadEmptyResets = true

structure SInv (cfg : Cfg) (s : State n) : Prop where
  g : GInv s.disk
  lc : s.mem.lcHigh = s.disk.lcHigh
  x : TreeOK xorOps cfg.pageSize (refClocks s.disk.txs) (maxClock s.disk.txs) s.mem.xorTree s.disk.xorLeaves
  i : TreeOK (ibltOps n) cfg.pageSize (keyClocks s.disk.txs) (maxClock s.disk.txs) s.mem.ibltTree s.disk.ibltLeaves

theorem SInv.init (cfg : Cfg) : SInv cfg (State.init cfg : State n) :=
  ⟨GInv.empty, rfl, Or.inl ⟨rfl, rfl, rfl⟩, Or.inl ⟨rfl, rfl, rfl⟩⟩

/-- reloading the trees from disk into any tree objects of the right leaf size (rollback hook, restart) -/
theorem SInv.reload {cfg : Cfg} (G : Good cfg) {s : State n} (h : SInv cfg s) (m0 : Mem n)
    (hx : m0.xorTree.leafSize = cfg.pageSize) (hi : m0.ibltTree.leafSize = cfg.pageSize) :
    SInv cfg { disk := s.disk, mem := loadState cfg s.disk m0 } := by
  refine ⟨h.g, rfl, ?_, ?_⟩
  · simp only [loadState, G.resets]
    exact h.x.load xor_lawful G.even _ hx
  · simp only [loadState, G.resets]
    exact h.i.load (iblt_lawful n) G.even _ hi

theorem SInv.rollback {cfg : Cfg} (G : Good cfg) {s : State n} (h : SInv cfg s) : SInv cfg (rollback cfg s) :=
  h.reload G s.mem (h.x.inv xor_lawful G.pos).2.1 (h.i.inv (iblt_lawful n) G.pos).2.1

theorem SInv.restart {cfg : Cfg} (G : Good cfg) {s : State n} (h : SInv cfg s) : SInv cfg (restart cfg s) :=
  h.reload G (Mem.fresh cfg) rfl rfl

/-- **Any failure point inside `updateState`**: whichever of its store writes fails (stage 1: IBLT leaf, stage 2: XOR
    leaf), the rollback handler brings the in-memory state back to what the — unchanged — disk implies -/
theorem SInv.rollback_partial {cfg : Cfg} (G : Good cfg) {s : State n} (h : SInv cfg s) (tx : Tx) (stage : Nat) :
    SInv cfg (Nuts.C08.rollback cfg (partialUpdate s tx stage)) ∧
    (Nuts.C08.rollback cfg (partialUpdate s tx stage)).disk = s.disk := by
  have hx := h.x.inv xor_lawful G.pos
  have hi := h.i.inv (iblt_lawful n) G.pos
  refine ⟨?_, rfl⟩
  apply h.reload G (partialUpdate s tx stage).mem
  · show (if stage ≥ 2 then (s.mem.xorTree.insert xorOps tx.ref tx.clock).resetUpdates else s.mem.xorTree).leafSize = _
    split
    · show (s.mem.xorTree.insert xorOps tx.ref tx.clock).leafSize = _
      rw [(insert_spec xor_lawful _ hx.1 tx.ref tx.clock).2.1, hx.2.1]
    · exact hx.2.1
  · show (s.mem.ibltTree.insert (ibltOps n) tx.ikey tx.clock).leafSize = _
    rw [(insert_spec (iblt_lawful n) _ hi.1 tx.ikey tx.clock).2.1, hi.2.1]

theorem refClocks_snoc (S : List Tx) (tx : Tx) : refClocks (S ++ [tx]) = refClocks S ++ [(tx.ref, tx.clock)] := by
  simp [refClocks]

theorem keyClocks_snoc (S : List Tx) (tx : Tx) : keyClocks (S ++ [tx]) = keyClocks S ++ [(tx.ikey, tx.clock)] := by
  simp [keyClocks]

/-- the write transaction of a successful `Add` (graph.add + updateState) -/
theorem SInv.commit {cfg : Cfg} (G : Good cfg) {s : State n} (h : SInv cfg s) {tx : Tx} {d : Disk n}
    (hg : GInv d) (htx : d.txs = s.disk.txs ++ [tx]) (hx : d.xorLeaves = s.disk.xorLeaves)
    (hi : d.ibltLeaves = s.disk.ibltLeaves) (hlc : d.lcHigh = max s.disk.lcHigh tx.clock)
    (hle : tx.clock ≤ maxClock s.disk.txs + 1) (hempty : s.disk.txs = [] → tx.clock = 0) :
    SInv cfg (updateState s d tx) ∧ (updateState s d tx).disk.txs = s.disk.txs ++ [tx] ∧
    (updateState s d tx).mem.xorTree.leafSize = cfg.pageSize ∧ (updateState s d tx).mem.ibltTree.leafSize = cfg.pageSize := by
  have hM : ∀ t ∈ s.disk.txs, t.clock ≤ maxClock s.disk.txs := fun t ht => le_maxClock ht
  have hxs := h.x.write xor_lawful G.pos tx.ref tx.clock
    (by intro rc hrc; simp only [refClocks, List.mem_map] at hrc; obtain ⟨t, ht, rfl⟩ := hrc; exact hM t ht) hle
    (by intro e; have : s.disk.txs = [] := by simpa [refClocks] using e
        exact ⟨hempty this, by rw [this]; rfl⟩)
  have his := h.i.write (iblt_lawful n) G.pos tx.ikey tx.clock
    (by intro rc hrc; simp only [keyClocks, List.mem_map] at hrc; obtain ⟨t, ht, rfl⟩ := hrc; exact hM t ht) hle
    (by intro e; have : s.disk.txs = [] := by simpa [keyClocks] using e
        exact ⟨hempty this, by rw [this]; rfl⟩)
  have sinv : SInv cfg (updateState s d tx) := by
    refine ⟨⟨hg.idx, hg.closed, hg.count, hg.lc, hg.head, hg.nodup, hg.keys⟩, ?_, ?_, ?_⟩
    · show (if s.mem.lcHigh ≥ tx.clock then s.mem.lcHigh else tx.clock) = d.lcHigh
      rw [hlc, h.lc]
      by_cases hc : s.disk.lcHigh ≥ tx.clock <;> simp [hc] <;> omega
    · show TreeOK xorOps cfg.pageSize (refClocks d.txs) (maxClock d.txs) _ _
      rw [htx, refClocks_snoc, maxClock_snoc]
      simp only [updateState, hx]
      exact hxs
    · show TreeOK (ibltOps n) cfg.pageSize (keyClocks d.txs) (maxClock d.txs) _ _
      rw [htx, keyClocks_snoc, maxClock_snoc]
      simp only [updateState, hi]
      exact his
  exact ⟨sinv, htx, (sinv.x.inv xor_lawful G.pos).2.1, (sinv.i.inv (iblt_lawful n) G.pos).2.1⟩

/-- **`state.Add`, every outcome.** The invariant is kept. A call that reports an error leaves the disk untouched; a
    call that reports success either found the transaction present (nothing changes at all) or stored exactly it. -/
theorem SInv.add {cfg : Cfg} (G : Good cfg) {s : State n} (h : SInv cfg s) (tx : Tx) (opt : AddOpts) :
    SInv cfg (add cfg s tx opt).1 ∧
    ((add cfg s tx opt).2 ≠ .ok () → (add cfg s tx opt).1.disk = s.disk) ∧
    ((add cfg s tx opt).2 = .ok () →
      ((add cfg s tx opt).1 = s ∧ s.disk.isPresent tx.ref = true) ∨
      ((add cfg s tx opt).1.disk.txs = s.disk.txs ++ [tx] ∧ s.disk.isPresent tx.ref = false)) := by
  unfold Nuts.C08.add
  by_cases hp : s.disk.isPresent tx.ref = true
  · simp only [hp, if_true]
    exact ⟨h, fun e => absurd rfl e, fun _ => Or.inl (by simp)⟩
  · have hp' : s.disk.isPresent tx.ref = false := by cases hh : s.disk.isPresent tx.ref <;> simp_all
    simp only [hp', Bool.false_eq_true, if_false]
    cases hv : s.disk.verifyPrevs tx with
    | err e => exact ⟨h, fun _ => rfl, fun e => by cases e⟩
    | panic e => exact ⟨h, fun _ => rfl, fun e => by cases e⟩
    | ok u =>
      cases u
      simp only []
      by_cases hpay : (opt.payload == some false) = true
      · simp only [hpay, if_true]
        exact ⟨h.rollback G, fun _ => rfl, fun e => by cases e⟩
      · simp only [hpay, Bool.false_eq_true, if_false]
        by_cases hp0 : putFailsIn opt.putFails 0 (if opt.payload.isSome then 1 else 0) = true
        · simp only [hp0, if_true]
          exact ⟨h.rollback G, fun _ => rfl, fun e => by cases e⟩
        simp only [hp0, Bool.false_eq_true, if_false]
        by_cases hsp : (opt.payload.isSome && opt.savePayloadEventFails) = true
        · simp only [hsp, if_true]
          exact ⟨h.rollback G, fun _ => rfl, fun e => by cases e⟩
        simp only [hsp, Bool.false_eq_true, if_false]
        by_cases hp0' : putFailsIn opt.putFails (if opt.payload.isSome then 1 else 0)
            ((if opt.payload.isSome then 1 else 0) + (if opt.payload.isSome then 1 else 0)) = true
        · simp only [hp0', if_true]
          exact ⟨h.rollback G, fun _ => rfl, fun e => by cases e⟩
        simp only [hp0', Bool.false_eq_true, if_false]
        rcases graphAdd_spec h.g hp' hv with hr | ⟨d, hd, hg, htx, hx, hi, hlc, hle, hempty⟩
        · rw [hr]
          exact ⟨h.rollback G, fun _ => rfl, fun e => by cases e⟩
        · rw [hd]
          simp only []
          generalize hng : (if opt.payload.isSome then 1 else 0) + (if opt.payload.isSome then 1 else 0) + 4 +
            (if (decide (tx.clock > s.disk.lcHigh) || tx.clock == 0) = true then 1 else 0) = ng
          by_cases hp1 : putFailsIn opt.putFails
              ((if opt.payload.isSome then 1 else 0) + (if opt.payload.isSome then 1 else 0)) ng = true
          · simp only [hp1, if_true]
            exact ⟨h.rollback G, fun _ => rfl, fun e => by cases e⟩
          simp only [hp1, Bool.false_eq_true, if_false]
          by_cases hst : opt.saveTxEventFails = true
          · simp only [hst, if_true]
            exact ⟨h.rollback G, fun _ => rfl, fun e => by cases e⟩
          simp only [hst, Bool.false_eq_true, if_false]
          by_cases hp2 : putFailsIn opt.putFails ng (ng + 1) = true
          · simp only [hp2, if_true]
            exact ⟨(h.rollback_partial G tx 1).1, fun _ => rfl, fun e => by cases e⟩
          simp only [hp2, Bool.false_eq_true, if_false]
          by_cases hp3 : putFailsIn opt.putFails (ng + 1) (ng + 2) = true
          · simp only [hp3, if_true]
            exact ⟨(h.rollback_partial G tx 2).1, fun _ => rfl, fun e => by cases e⟩
          simp only [hp3, Bool.false_eq_true, if_false]
          have c := h.commit G hg htx hx hi hlc hle hempty
          by_cases hf : opt.commitFails = true
          · simp only [hf, if_true]
            refine ⟨?_, fun _ => rfl, fun e => by cases e⟩
            exact h.reload G (updateState s d tx).mem c.2.2.1 c.2.2.2
          · simp only [hf, Bool.false_eq_true, if_false]
            exact ⟨c.1, fun e => absurd rfl e, fun _ => Or.inr ⟨c.2.1, by simp⟩⟩

/-! ### observables -/

theorem lt_page_end (c ls : Nat) (hls : 0 < ls) : c ≤ (c / ls + 1) * ls - 1 := by
  have h1 := Nat.div_add_mod c ls
  have h2 := Nat.mod_lt c hls
  rw [Nat.add_mul, Nat.one_mul, Nat.mul_comm]
  omega

theorem TreeOK.holds {R G : Type} {o : Ops R G} {ls : Nat} (hls : 0 < ls) {l : List (R × Nat)} {M : Nat} {t : Tree G}
    {shelf : List (Nat × G)} (h : TreeOK o ls l M t shelf) (hM : l = [] → M = 0) :
    ∃ val, Holds o ls t (M / ls + 1) val := by
  rcases h with ⟨e, f⟩ | ⟨_, s, _⟩
  · obtain ⟨rfl, _⟩ := f
    rw [hM e, Nat.zero_div]
    exact ⟨_, Holds.new o hls⟩
  · exact ⟨_, s.holds⟩

/-- what `XOR(req)` / `IBLT(req)` compute from a tree that is what the stored set implies -/
theorem digest_at {R G : Type} {o : Ops R G} (L : Lawful o) {ls : Nat} (hls : 0 < ls) {l : List (R × Nat)} {M : Nat}
    {t : Tree G} {shelf : List (Nat × G)} (h : TreeOK o ls l M t shelf) (hM : l = [] → M = 0)
    (hle : ∀ rc ∈ l, rc.2 ≤ M) (req : Nat) :
    (if req < M then ((t.zeroTo o req).1, if (t.zeroTo o req).2 < M then (t.zeroTo o req).2 else M)
     else (t.rootData o, M)) = (specUpTo o ls l req, min M ((req / ls + 1) * ls - 1)) := by
  have hi := h.inv L hls
  obtain ⟨val, H⟩ := h.holds hls hM
  have hend := lt_page_end req ls hls
  by_cases hr : req < M
  · simp only [hr, if_true]
    have hdata : (t.zeroTo o req).1 = specUpTo o ls l req := by
      rw [Tree.zeroTo_data L t hi.1 req, hi.2.1, hi.2.2]; rfl
    obtain ⟨hh, sh, _⟩ := H.shape
    have hclock : (t.zeroTo o req).2 = (req / ls + 1) * ls - 1 := by
      unfold Tree.zeroTo
      rw [zeroTo_clock hls req hh 0 (M / ls + 1) t.root _ sh (Nat.zero_le _)]
      have h0 : req / ls ≤ M / ls := Nat.div_le_div_right (by omega)
      rw [Nat.zero_add, Nat.sub_zero, Nat.add_sub_cancel, Nat.min_eq_left h0, Nat.mul_comm]
    rw [hdata, hclock]
    congr 1
    by_cases hc : (req / ls + 1) * ls - 1 < M <;> simp [hc] <;> omega
  · simp only [hr, if_false]
    have hdata : t.rootData o = specUpTo o ls l req := by
      rw [Tree.root_data L t hi.1, hi.2.1, hi.2.2]
      unfold specUpTo
      congr 1
      apply List.filter_congr
      intro rc hrc
      have := hle rc hrc
      have : rc.2 / ls ≤ req / ls := Nat.div_le_div_right (by omega)
      simp [this]
    rw [hdata]
    congr 1
    omega

end Nuts.C08
