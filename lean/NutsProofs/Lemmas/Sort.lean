/-
  Generic lemmas about `insertSorted` / `sortBy` (NutsModel.Base): the result is a sorted permutation
  and therefore does not depend on the order of the input (Go: `sort.Slice` after ranging over a map).
-/
import NutsModel.Base

namespace Nuts

section
variable {α : Type} (lt : α → α → Bool)

theorem insertSorted_perm (x : α) (l : List α) : (insertSorted lt x l).Perm (x :: l) := by
  induction l with
  | nil => exact List.Perm.refl _
  | cons y ys ih =>
    unfold insertSorted
    split
    · exact List.Perm.refl _
    · exact ((List.Perm.cons y ih).trans (List.Perm.swap x y ys))

theorem sortBy_perm (l : List α) : (sortBy lt l).Perm l := by
  induction l with
  | nil => exact List.Perm.refl _
  | cons x xs ih =>
    show (insertSorted lt x (sortBy lt xs)).Perm (x :: xs)
    exact (insertSorted_perm lt x _).trans (List.Perm.cons x ih)

/-- `a ≤ b` in terms of the strict boolean order -/
def leOf (a b : α) : Prop := lt b a = false

variable (hasym : ∀ a b, lt a b = true → lt b a = false)
variable (htrans : ∀ a b c, lt b a = false → lt c b = false → lt c a = false)

include hasym htrans in
theorem insertSorted_pairwise (x : α) (l : List α) (h : l.Pairwise (leOf lt)) :
    (insertSorted lt x l).Pairwise (leOf lt) := by
  induction l with
  | nil => simp [insertSorted]
  | cons y ys ih =>
    unfold insertSorted
    have hy := List.pairwise_cons.mp h
    by_cases hxy : lt x y = true
    · simp only [hxy, if_true]
      refine List.pairwise_cons.mpr ⟨?_, h⟩
      intro z hz
      rcases List.mem_cons.mp hz with rfl | hz
      · exact hasym _ _ hxy
      · exact htrans _ _ _ (hasym _ _ hxy) (hy.1 z hz)
    · have hxy' : lt x y = false := by simpa using hxy
      simp only [hxy', Bool.false_eq_true, if_false]
      refine List.pairwise_cons.mpr ⟨?_, ih hy.2⟩
      intro z hz
      rcases List.mem_cons.mp ((insertSorted_perm lt x ys).subset hz) with rfl | hz
      · exact hxy'
      · exact hy.1 z hz

include hasym htrans in
theorem sortBy_pairwise (l : List α) : (sortBy lt l).Pairwise (leOf lt) := by
  induction l with
  | nil => exact List.Pairwise.nil
  | cons x xs ih => exact insertSorted_pairwise lt hasym htrans x _ ih

include hasym htrans in
/-- sorting is independent of the order of the input, provided elements that compare equal are equal -/
theorem sortBy_eq_of_perm {l₁ l₂ : List α} (hp : l₁.Perm l₂)
    (hanti : ∀ a ∈ l₁, ∀ b ∈ l₁, lt a b = false → lt b a = false → a = b) :
    sortBy lt l₁ = sortBy lt l₂ := by
  have p₁ := sortBy_perm lt l₁
  have p₂ := sortBy_perm lt l₂
  apply List.Perm.eq_of_pairwise (le := leOf lt) _ (sortBy_pairwise lt hasym htrans l₁)
    (sortBy_pairwise lt hasym htrans l₂) (p₁.trans (hp.trans p₂.symm))
  intro a b ha hb hab hba
  exact hanti a (p₁.subset ha) b (hp.symm.subset (p₂.subset hb)) hba hab

end

/-! string order facts used for `strings.Compare(a, b) == -1` sort functions -/

theorem str_lt_asymm (a b : String) (h : a < b) : ¬ b < a := by
  rw [String.lt_iff] at *
  exact fun h' => List.lt_irrefl _ (List.lt_trans h h')

theorem str_lt_trichotomy (a b : String) (h₁ : ¬ a < b) (h₂ : ¬ b < a) : a = b := by
  rw [String.lt_iff] at *
  apply String.toList_inj.mp
  apply Classical.byContradiction
  intro hne
  exact h₂ (Std.lt_of_le_of_ne (by simpa using h₁) (Ne.symm hne))

theorem str_le_trans (a b c : String) (h₁ : ¬ b < a) (h₂ : ¬ c < b) : ¬ c < a := by
  rw [String.lt_iff] at *
  intro h
  have hab : a.toList ≤ b.toList := by simpa using h₁
  have hbc : b.toList ≤ c.toList := by simpa using h₂
  exact absurd h (by simpa using (Std.le_trans hab hbc))

end Nuts
