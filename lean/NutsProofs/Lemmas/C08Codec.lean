/-
  C08 — lemmas about the byte layer (NutsModel/C08/Codec.lean): integer encodings, hash lists, leaf codecs, Load on bytes.
-/
import NutsModel.C08.Codec

namespace Nuts.C08.Codec
open Nuts.C08 Nuts

theorem leBytes_length (k v : Nat) : (leBytes k v).length = k := by
  induction k generalizing v with
  | zero => rfl
  | succ k ih => simp [leBytes, ih]

theorem leVal_leBytes (k v : Nat) : leVal (leBytes k v) = v % 256 ^ k := by
  induction k generalizing v with
  | zero => simp [leBytes, leVal, Nat.mod_one]
  | succ k ih =>
    have hb : (UInt8.ofNat (v % 256)).toNat = v % 256 := by simp
    simp only [leBytes, leVal, ih, hb]
    rw [Nat.pow_succ, Nat.mul_comm (256 ^ k) 256, Nat.mod_mul]

theorem leVal_lt (b : Bytes) : leVal b < 256 ^ b.length := by
  induction b with
  | nil => simp [leVal]
  | cons x r ih =>
    have hx := x.toNat_lt
    simp only [leVal, List.length_cons, Nat.pow_succ]
    omega

theorem leBytes_leVal (b : Bytes) : leBytes b.length (leVal b) = b := by
  induction b with
  | nil => rfl
  | cons x r ih =>
    have hx := x.toNat_lt
    have h1 : (x.toNat + 256 * leVal r) % 256 = x.toNat := by omega
    have h2 : (x.toNat + 256 * leVal r) / 256 = leVal r := by omega
    simp only [List.length_cons, leBytes, leVal, h1, h2, ih, UInt8.ofNat_toNat]

theorem beBytes_length (k v : Nat) : (beBytes k v).length = k := by simp [beBytes, leBytes_length]

theorem beVal_beBytes (k v : Nat) : beVal (beBytes k v) = v % 256 ^ k := by
  simp [beVal, beBytes, leVal_leBytes]

theorem beBytes_beVal (b : Bytes) : beBytes b.length (beVal b) = b := by
  have := leBytes_leVal b.reverse
  simp only [List.length_reverse] at this
  simp [beBytes, beVal, this]

theorem beVal_lt (b : Bytes) : beVal b < 256 ^ b.length := by
  have := leVal_lt b.reverse
  simpa [beVal] using this

theorem pow256_4 : (256 : Nat) ^ 4 = 2 ^ 32 := by decide
theorem pow256_8 : (256 : Nat) ^ 8 = 2 ^ 64 := by decide
theorem pow256_32 : (256 : Nat) ^ 32 = 2 ^ 256 := by decide

theorem take_self {α : Type} (l : List α) (n : Nat) (h : l.length = n) : l.take n = l := by
  subst h; simp

theorem take_app {α : Type} (l r : List α) (n : Nat) (h : l.length = n) : (l ++ r).take n = l := by
  subst h; simp

theorem drop_app {α : Type} (l r : List α) (n : Nat) (h : l.length = n) : (l ++ r).drop n = r := by
  subst h; simp

/-! ### hash lists -/

theorem bytesOfRef_length (r : Ref) : (bytesOfRef r).length = 32 := by simp [bytesOfRef, beBytes_length, hashSize]

theorem refOfBytes_bytesOfRef (r : Ref) : refOfBytes (bytesOfRef r) = r := by
  simp only [refOfBytes, bytesOfRef, beVal_beBytes, hashSize, pow256_32]
  rw [Nat.mod_eq_of_lt r.isLt]
  simp

theorem bytesOfRef_refOfBytes (b : Bytes) (h : b.length = 32) : bytesOfRef (refOfBytes b) = b := by
  have hlt := beVal_lt b
  rw [h, pow256_32] at hlt
  simp only [bytesOfRef, refOfBytes, hashSize, BitVec.toNat_ofNat, Nat.mod_eq_of_lt hlt]
  have := beBytes_beVal b
  rwa [h] at this

def flat (refs : List Ref) : Bytes := (refs.map bytesOfRef).flatten

theorem flat_length (refs : List Ref) : (flat refs).length = 32 * refs.length := by
  induction refs with
  | nil => rfl
  | cons r rest ih =>
    simp only [flat, List.map_cons, List.flatten_cons, List.length_append, bytesOfRef_length, List.length_cons] at *
    omega

theorem foldl_append_flat (refs : List Ref) (acc : Bytes) : refs.foldl appendHashList acc = acc ++ flat refs := by
  induction refs generalizing acc with
  | nil => simp [flat]
  | cons r rest ih => simp [List.foldl_cons, ih, appendHashList, flat, List.append_assoc]

theorem encodeHashList_eq (refs : List Ref) : encodeHashList refs = flat refs := by
  simp [encodeHashList, foldl_append_flat]

theorem parseHashListF_flat (refs : List Ref) (tail : Bytes) : parseHashListF refs.length (flat refs ++ tail) = refs := by
  induction refs with
  | nil => rfl
  | cons r rest ih =>
    have h1 : flat (r :: rest) ++ tail = bytesOfRef r ++ (flat rest ++ tail) := by simp [flat, List.append_assoc]
    simp only [List.length_cons, parseHashListF, h1, hashSize, take_app _ _ 32 (bytesOfRef_length r),
      drop_app _ _ 32 (bytesOfRef_length r), refOfBytes_bytesOfRef, ih]

/-- a trailing partial hash (fewer than 32 bytes) is ignored -/
theorem parseHashList_flat_tail (refs : List Ref) (tail : Bytes) (ht : tail.length < 32) :
    parseHashList (encodeHashList refs ++ tail) = refs := by
  rw [encodeHashList_eq]
  unfold parseHashList
  have hl : (flat refs ++ tail).length = 32 * refs.length + tail.length := by simp [flat_length]
  split
  · next h0 =>
    rw [hl] at h0
    have : refs.length = 0 := by omega
    exact (List.length_eq_zero_iff.mp this).symm
  · have hn : ((flat refs ++ tail).length - (flat refs ++ tail).length % hashSize) / hashSize = refs.length := by
      rw [hl]; simp only [hashSize]; omega
    rw [hn, parseHashListF_flat]

theorem encodeHashList_append (refs : List Ref) (h : Ref) :
    appendHashList (encodeHashList refs) h = encodeHashList (refs ++ [h]) := by
  simp [encodeHashList, List.foldl_append]

/-! ### leaf codecs -/

theorem xorUnmarshal_marshal (x : BitVec 256) : xorUnmarshal (xorMarshal x) = .ok x := by
  have := refOfBytes_bytesOfRef x
  simp only [refOfBytes, bytesOfRef] at this
  simp [xorUnmarshal, xorMarshal, beBytes_length, this]

theorem xorMarshal_unmarshal (d : Bytes) (x : BitVec 256) (h : xorUnmarshal d = .ok x) : xorMarshal x = d := by
  unfold xorUnmarshal at h
  split at h
  · cases h
  · next hl =>
    have hl' : d.length = 32 := by simpa [hashSize] using hl
    cases h
    exact bytesOfRef_refOfBytes d hl'

theorem bucketMarshal_length (b : Bucket) : (bucketMarshal b).length = 44 := by
  simp [bucketMarshal, leBytes_length, beBytes_length, hashSize]

theorem bucketUnmarshal_marshal (b : Bucket) : bucketUnmarshal (bucketMarshal b) = .ok b := by
  have hk := refOfBytes_bytesOfRef b.keySum
  simp only [refOfBytes, bytesOfRef] at hk
  have hc : BitVec.ofNat 32 (b.count.toNat % 256 ^ 4) = b.count := by
    rw [pow256_4, Nat.mod_eq_of_lt b.count.isLt]; simp
  have hh : BitVec.ofNat 64 (b.hashSum.toNat % 256 ^ 8) = b.hashSum := by
    rw [pow256_8, Nat.mod_eq_of_lt b.hashSum.isLt]; simp
  have e1 : ((bucketMarshal b).drop countOff).take 4 = leBytes 4 b.count.toNat := by
    simp only [bucketMarshal, countOff, List.drop_zero, List.append_assoc]
    exact take_app _ _ 4 (leBytes_length _ _)
  have e2 : ((bucketMarshal b).drop hashSumOff).take 8 = leBytes 8 b.hashSum.toNat := by
    simp only [bucketMarshal, hashSumOff, List.append_assoc]
    rw [drop_app _ _ 4 (leBytes_length _ _)]
    exact take_app _ _ 8 (leBytes_length _ _)
  have e3 : (bucketMarshal b).drop keySumOff = beBytes hashSize b.keySum.toNat := by
    simp only [bucketMarshal, keySumOff]
    exact drop_app _ _ 12 (by simp [leBytes_length])
  unfold bucketUnmarshal
  rw [e1, e2, e3]
  simp only [bucketMarshal_length, bucketBytes, leVal_leBytes, hc, hh, hk]
  simp

theorem ibltMarshal_length (bs : List Bucket) : (ibltMarshal bs).length = 44 * bs.length := by
  induction bs with
  | nil => rfl
  | cons b rest ih => simp only [ibltMarshal, List.length_append, bucketMarshal_length, ih, List.length_cons]; omega

theorem ibltUnmarshalF_marshal (bs : List Bucket) : ibltUnmarshalF bs.length (ibltMarshal bs) = .ok bs := by
  induction bs with
  | nil => rfl
  | cons b rest ih =>
    simp only [List.length_cons, ibltUnmarshalF, ibltMarshal, bucketBytes,
      take_app _ _ 44 (bucketMarshal_length b), drop_app _ _ 44 (bucketMarshal_length b), bucketUnmarshal_marshal, ih]

theorem ibltUnmarshal_marshal (bs : List Bucket) : ibltUnmarshal (ibltMarshal bs) = .ok bs := by
  unfold ibltUnmarshal
  have hl := ibltMarshal_length bs
  have hn : (ibltMarshal bs).length / bucketBytes = bs.length := by rw [hl]; simp only [bucketBytes]; omega
  simp only [hn]
  rw [if_neg (by rw [hl]; simp only [bucketBytes]; omega)]
  exact ibltUnmarshalF_marshal bs

theorem toIblt_toList {n : Nat} (g : Iblt n) : toIblt n g.toList = some g := by
  unfold toIblt
  have h : g.toList.length = n := by simp
  rw [dif_pos h]
  congr 1

/-! ### Load on raw bytes -/

theorem unmarshalLeaves_xor (shelf : List (Nat × BitVec 256)) :
    unmarshalLeaves xorUnmarshal (shelf.map fun kv => (kv.1, xorMarshal kv.2)) = .ok shelf := by
  induction shelf with
  | nil => rfl
  | cons kv rest ih => simp only [List.map_cons, unmarshalLeaves, xorUnmarshal_marshal, ih]

theorem unmarshalLeaves_iblt {n : Nat} (shelf : List (Nat × Iblt n)) :
    unmarshalLeaves ibltUnmarshal (shelf.map fun kv => (kv.1, ibltMarshalV kv.2))
      = .ok (shelf.map fun kv => (kv.1, kv.2.toList)) := by
  induction shelf with
  | nil => rfl
  | cons kv rest ih =>
    have h : ibltUnmarshal (ibltMarshalV kv.2) = .ok kv.2.toList := ibltUnmarshal_marshal _
    simp only [List.map_cons, unmarshalLeaves, h, ih]

theorem allToIblt_toList {n : Nat} (shelf : List (Nat × Iblt n)) :
    allToIblt n (shelf.map fun kv => (kv.1, kv.2.toList)) = some shelf := by
  induction shelf with
  | nil => rfl
  | cons kv rest ih => simp only [List.map_cons, allToIblt, toIblt_toList, ih]

/-! ### keys -/

theorem keyToClock_clockToKey (c : Nat) (h : c < 2 ^ 32) : keyToClock (clockToKey c) = .ok c := by
  simp only [keyToClock, clockToKey, uintLE, leBytes_length, Nat.lt_irrefl, if_false,
    take_self _ 4 (leBytes_length 4 c), leVal_leBytes, pow256_4, Nat.mod_eq_of_lt h]

theorem bytesToClock_uint32Key (c : Nat) (h : c < 2 ^ 32) : bytesToClock (uint32Key c) = .ok c := by
  simp only [bytesToClock, uint32Key, uintBE, beBytes_length, Nat.lt_irrefl, if_false,
    take_self _ 4 (beBytes_length 4 c), beVal_beBytes, pow256_4, Nat.mod_eq_of_lt h]

theorem bytesToCount_countBytes (c : Nat) (h : c < 2 ^ 64) : bytesToCount (countBytes c) = .ok c := by
  simp only [bytesToCount, countBytes, uintBE, beBytes_length, Nat.lt_irrefl, if_false,
    take_self _ 8 (beBytes_length 8 c), beVal_beBytes, pow256_8, Nat.mod_eq_of_lt h]

def Sorted {α : Type} (l : List (Nat × α)) : Prop := l.Pairwise (fun a b => a.1 < b.1)

theorem putSorted_head {α : Type} (k : Nat) (v : α) (l : List (Nat × α)) (h : ∀ x ∈ l, k < x.1) :
    putSorted k v l = (k, v) :: l := by
  cases l with
  | nil => rfl
  | cons x rest =>
    have := h x (by simp)
    obtain ⟨k', v'⟩ := x
    simp only [putSorted]
    rw [if_pos this]

theorem readShelf_encodeXor (shelf : List (Nat × BitVec 256)) (hs : Sorted shelf) (hb : ∀ x ∈ shelf, x.1 < 2 ^ 32) :
    readShelf (encodeXorShelf shelf) = .ok (shelf.map fun kv => (kv.1, xorMarshal kv.2)) := by
  induction shelf with
  | nil => rfl
  | cons kv rest ih =>
    have hs' := List.pairwise_cons.mp hs
    have ih' := ih hs'.2 (fun x hx => hb x (by simp [hx]))
    simp only [encodeXorShelf, List.map_cons] at ih' ⊢
    simp only [readShelf, keyToClock_clockToKey kv.1 (hb kv (by simp)), ih']
    congr 1
    apply putSorted_head
    intro x hx
    obtain ⟨y, hy, rfl⟩ := List.mem_map.mp hx
    exact hs'.1 y hy

theorem readShelf_encodeIblt {n : Nat} (shelf : List (Nat × Iblt n)) (hs : Sorted shelf) (hb : ∀ x ∈ shelf, x.1 < 2 ^ 32) :
    readShelf (encodeIbltShelf shelf) = .ok (shelf.map fun kv => (kv.1, ibltMarshalV kv.2)) := by
  induction shelf with
  | nil => rfl
  | cons kv rest ih =>
    have hs' := List.pairwise_cons.mp hs
    have ih' := ih hs'.2 (fun x hx => hb x (by simp [hx]))
    simp only [encodeIbltShelf, List.map_cons] at ih' ⊢
    simp only [readShelf, keyToClock_clockToKey kv.1 (hb kv (by simp)), ih']
    congr 1
    apply putSorted_head
    intro x hx
    obtain ⟨y, hy, rfl⟩ := List.mem_map.mp hx
    exact hs'.1 y hy

theorem putSorted_mem {α : Type} (k : Nat) (v : α) (l : List (Nat × α)) (x : Nat × α) (hx : x ∈ putSorted k v l) :
    x = (k, v) ∨ x ∈ l := by
  induction l with
  | nil => simp [putSorted] at hx; exact Or.inl hx
  | cons y rest ih =>
    obtain ⟨k', v'⟩ := y
    simp only [putSorted] at hx
    split at hx
    · rcases List.mem_cons.mp hx with h | h
      · exact Or.inl h
      · exact Or.inr h
    · split at hx
      · rcases List.mem_cons.mp hx with h | h
        · exact Or.inl h
        · exact Or.inr (List.mem_cons_of_mem _ h)
      · rcases List.mem_cons.mp hx with h | h
        · exact Or.inr (by simp [h])
        · rcases ih h with h | h
          · exact Or.inl h
          · exact Or.inr (List.mem_cons_of_mem _ h)

theorem putSorted_sorted {α : Type} (k : Nat) (v : α) (l : List (Nat × α)) (hs : Sorted l) : Sorted (putSorted k v l) := by
  induction l with
  | nil => simp [putSorted, Sorted]
  | cons y rest ih =>
    obtain ⟨k', v'⟩ := y
    have hs' := List.pairwise_cons.mp hs
    simp only [putSorted]
    split
    · next hlt =>
      apply List.pairwise_cons.mpr
      refine ⟨?_, hs⟩
      intro x hx
      rcases List.mem_cons.mp hx with h | h
      · subst h; exact hlt
      · have := hs'.1 x h; simp only at this ⊢; omega
    · split
      · next heq =>
        apply List.pairwise_cons.mpr
        refine ⟨?_, hs'.2⟩
        intro x hx
        have := hs'.1 x hx
        simp only at this ⊢; omega
      · next hnlt hne =>
        apply List.pairwise_cons.mpr
        refine ⟨?_, ih hs'.2⟩
        intro x hx
        rcases putSorted_mem k v rest x hx with h | h
        · subst h; simp only; omega
        · exact hs'.1 x h

/-! ### key order -/

theorem lexLt_append_of_lt : ∀ (A B s t : Bytes), A.length = B.length → lexLt A B = true → lexLt (A ++ s) (B ++ t) = true
  | [], [], _, _, _, h => by simp [lexLt] at h
  | [], _ :: _, _, _, hl, _ => by simp at hl
  | _ :: _, [], _, _, hl, _ => by simp at hl
  | a :: as, b :: bs, s, t, hl, h => by
    simp only [lexLt, List.cons_append, Bool.or_eq_true, decide_eq_true_eq, Bool.and_eq_true, beq_iff_eq] at h ⊢
    rcases h with h | ⟨h1, h2⟩
    · exact Or.inl h
    · exact Or.inr ⟨h1, lexLt_append_of_lt as bs s t (by simpa using hl) h2⟩

theorem lexLt_append_same : ∀ (A s t : Bytes), lexLt (A ++ s) (A ++ t) = lexLt s t
  | [], _, _ => rfl
  | a :: as, s, t => by
    simp only [List.cons_append, lexLt, Nat.lt_irrefl, decide_false, Bool.false_or, beq_self_eq_true, Bool.true_and]
    exact lexLt_append_same as s t

theorem beBytes_succ (k v : Nat) : beBytes (k + 1) v = beBytes k (v / 256) ++ [UInt8.ofNat (v % 256)] := by
  simp [beBytes, leBytes]

/-- big-endian keys order like the numbers they encode -/
theorem beBytes_lt (k : Nat) : ∀ (a b : Nat), a < b → b < 256 ^ k → lexLt (beBytes k a) (beBytes k b) = true := by
  induction k with
  | zero => intro a b h1 h2; simp at h2; omega
  | succ k ih =>
    intro a b h1 h2
    rw [beBytes_succ, beBytes_succ]
    have hb : b / 256 < 256 ^ k := by
      rw [Nat.pow_succ] at h2
      exact Nat.div_lt_of_lt_mul (by rw [Nat.mul_comm]; exact h2)
    by_cases hq : a / 256 < b / 256
    · exact lexLt_append_of_lt _ _ _ _ (by simp [beBytes_length]) (ih _ _ hq hb)
    · have he : a / 256 = b / 256 := by omega
      rw [he, lexLt_append_same]
      have hm : a % 256 < b % 256 := by omega
      have h1 : (UInt8.ofNat (a % 256)).toNat = a % 256 := by simp
      have h2 : (UInt8.ofNat (b % 256)).toNat = b % 256 := by simp
      simp [lexLt, h1, h2, hm]

theorem encodeClocks_sorted (clocks : List (Nat × List Ref)) (hs : Sorted clocks) (hb : ∀ x ∈ clocks, x.1 < 2 ^ 32) :
    (encodeClocks clocks).Pairwise (fun a b => lexLt a.1 b.1 = true) := by
  unfold encodeClocks
  rw [List.pairwise_map]
  refine List.Pairwise.imp_of_mem ?_ hs
  intro x y hx hy hlt
  exact beBytes_lt 4 x.1 y.1 hlt (by rw [pow256_4]; exact hb y hy)

/-! ### metadata getters -/

theorem fromSlice_bytesOfRef (r : Ref) : fromSlice (bytesOfRef r) = r := by
  unfold fromSlice
  have hl := bytesOfRef_length r
  rw [take_self _ hashSize (by simpa [hashSize] using hl)]
  simp only [hl, hashSize, Nat.sub_self, List.replicate_zero, List.append_nil]
  exact refOfBytes_bytesOfRef r

theorem metadata_getters (lc cnt : Nat) (h : Option Ref) (hlc : lc < 2 ^ 32) (hcnt : cnt < 2 ^ 64) :
    getHighestClockValue (.value (uint32Key lc)) = .ok lc ∧
    getNumberOfTransactions (.value (countBytes cnt)) = .ok cnt ∧
    getHead (headBytes h) = .ok (h.getD 0) := by
  refine ⟨bytesToClock_uint32Key lc hlc, bytesToCount_countBytes cnt hcnt, ?_⟩
  cases h with
  | none => rfl
  | some r => simp [headBytes, getHead, fromSlice_bytesOfRef]

end Nuts.C08.Codec
