/-
  C16 (deepening round) — lemmas for the node layer (`NutsModel/C16/Node.lean`).
-/
import NutsModel.C16.Node
import NutsModel.C16.Spec
import NutsProofs.Lemmas.C16

namespace Nuts.C16
open Nuts

/-! ### association lists -/

theorem nalGet_nil {ν} (k : String) : alGet ([] : List (String × ν)) k = none := rfl

theorem nalGet_cons {ν} (p : String × ν) (m : List (String × ν)) (k : String) :
    alGet (p :: m) k = if p.1 = k then some p.2 else alGet m k := by
  unfold alGet
  rw [List.find?_cons]
  by_cases h : p.1 = k
  · simp [h]
  · have : (p.1 == k) = false := by simpa using h
    simp [this, h]

theorem nalGet_append_single {ν} (m : List (String × ν)) (k' : String) (v : ν) (k : String) :
    alGet (m ++ [(k', v)]) k = match alGet m k with
      | some x => some x
      | none => if k' = k then some v else none := by
  induction m with
  | nil => simp [nalGet_cons, nalGet_nil]
  | cons p m ih =>
    show alGet (p :: (m ++ [(k', v)])) k = _
    rw [nalGet_cons, nalGet_cons]
    by_cases h : p.1 = k
    · simp [h]
    · simp only [h, if_false]; exact ih

theorem nalGet_filter_ne {ν} (m : List (String × ν)) (k k' : String) (h : k' ≠ k) :
    alGet (m.filter (fun p => !(p.1 == k))) k' = alGet m k' := by
  induction m with
  | nil => rfl
  | cons p m ih =>
    rw [List.filter_cons]
    by_cases hp : p.1 = k
    · have : (!(p.1 == k)) = false := by simp [hp]
      rw [this]
      simp only [Bool.false_eq_true, if_false]
      rw [ih, nalGet_cons]
      have : ¬ p.1 = k' := by rw [hp]; exact fun e => h e.symm
      simp [this]
    · have : (!(p.1 == k)) = true := by simp [hp]
      rw [this]
      simp only [if_true]
      rw [nalGet_cons, nalGet_cons, ih]

theorem nalGet_put {ν} (m : List (String × ν)) (k k' : String) (v : ν) :
    alGet (alPut m k v) k' = if k = k' then some v else alGet m k' := by
  unfold alPut
  rw [nalGet_cons]
  by_cases h : k = k'
  · simp [h]
  · simp only [h, if_false]
    exact nalGet_filter_ne m k k' (fun e => h e.symm)

theorem nalGet_some_mem {ν} (m : List (String × ν)) (k : String) (v : ν) (h : alGet m k = some v) : (k, v) ∈ m := by
  induction m with
  | nil => simp [nalGet_nil] at h
  | cons p m ih =>
    rw [nalGet_cons] at h
    by_cases hp : p.1 = k
    · simp only [hp, if_true, Option.some.injEq] at h
      have : p = (k, v) := by cases p; simp_all
      rw [this]; exact List.mem_cons_self
    · simp only [hp, if_false] at h
      exact List.mem_cons_of_mem _ (ih h)

theorem nalGet_none_not_key {ν} (m : List (String × ν)) (k : String) (h : alGet m k = none) : k ∉ m.map (·.1) := by
  induction m with
  | nil => simp
  | cons p m ih =>
    rw [nalGet_cons] at h
    by_cases hp : p.1 = k
    · simp [hp] at h
    · simp only [hp, if_false] at h
      simp only [List.map_cons, List.mem_cons, not_or]
      exact ⟨fun e => hp e.symm, ih h⟩

theorem nalGet_of_mem_nodup {ν} (m : List (String × ν)) (k : String) (v : ν) (hn : (m.map (·.1)).Nodup)
    (h : (k, v) ∈ m) : alGet m k = some v := by
  induction m with
  | nil => cases h
  | cons p m ih =>
    rw [nalGet_cons]
    simp only [List.map_cons, List.nodup_cons] at hn
    rcases List.mem_cons.mp h with h1 | h1
    · subst h1; simp
    · have hk : k ∈ m.map (·.1) := List.mem_map.mpr ⟨(k, v), h1, rfl⟩
      have : ¬ p.1 = k := fun e => hn.1 (e ▸ hk)
      simp only [this, if_false]
      exact ih hn.2 h1

/-! ### `loadDefinitions(directory)` -/

/-- the definition `s` was read from an eligible, readable, parseable file of the directory -/
def FromEntry (isDefFile : String → Bool) (entries : List DirEntry) (s : Service) : Prop :=
  ∃ e ∈ entries, e.isDir = false ∧ isDefFile e.name = true ∧ e.readOk = true ∧ e.parsed = some s

/-- an entry the loop does not skip -/
def DirEntry.eligible (isDefFile : String → Bool) (e : DirEntry) : Bool := !e.isDir && isDefFile e.name

theorem loadDir_spec (isDefFile : String → Bool) (entries : List DirEntry) :
    ∀ (acc all : DefMap), loadDir isDefFile acc entries = .ok all →
      (acc.map (·.1)).Nodup →
      (all.map (·.1)).Nodup ∧
      (∀ p ∈ acc, p ∈ all) ∧
      (∀ p ∈ all, p ∈ acc ∨ (p.2.d.id = p.1 ∧ FromEntry isDefFile entries p.2)) ∧
      (∀ e ∈ entries, e.eligible isDefFile = true → ∃ s, e.readOk = true ∧ e.parsed = some s ∧ (s.d.id, s) ∈ all) := by
  induction entries with
  | nil =>
    intro acc all h hn
    simp only [loadDir, Res.ok.injEq] at h
    subst h
    exact ⟨hn, fun p hp => hp, fun p hp => Or.inl hp, by intro e he; cases he⟩
  | cons e es ih =>
    intro acc all h hn
    unfold loadDir at h
    by_cases hskip : (e.isDir || !(isDefFile e.name)) = true
    · simp only [hskip, if_true] at h
      obtain ⟨a, b, c, d⟩ := ih acc all h hn
      refine ⟨a, b, ?_, ?_⟩
      · intro p hp
        rcases c p hp with h1 | ⟨h1, e', he', h2⟩
        · exact Or.inl h1
        · exact Or.inr ⟨h1, e', List.mem_cons_of_mem _ he', h2⟩
      · intro e' he' hel
        rcases List.mem_cons.mp he' with h1 | h1
        · subst h1
          exfalso
          simp only [DirEntry.eligible, Bool.and_eq_true, Bool.not_eq_true'] at hel
          simp [hel.1, hel.2] at hskip
        · exact d e' h1 hel
    · simp only [hskip] at h
      have hdir : e.isDir = false := by
        cases hd : e.isDir
        · rfl
        · simp [hd] at hskip
      have hel : isDefFile e.name = true := by
        cases hd : isDefFile e.name
        · simp [hd] at hskip
        · rfl
      cases hr : e.readOk with
      | false => simp [hr] at h
      | true =>
        simp only [hr, Bool.not_true] at h
        cases hp : e.parsed with
        | none => simp [hp] at h
        | some s =>
          simp only [hp] at h
          cases hg : DefMap.get acc s.d.id with
          | some x => simp [hg] at h
          | none =>
            simp only [hg] at h
            have hn' : ((acc ++ [(s.d.id, s)]).map (·.1)).Nodup := by
              rw [List.map_append, List.nodup_append]
              refine ⟨hn, by simp, ?_⟩
              intro a ha b hb
              simp only [List.map_cons, List.map_nil, List.mem_singleton] at hb
              subst hb
              intro hab
              exact nalGet_none_not_key acc s.d.id hg (hab ▸ ha)
            have h' : loadDir isDefFile (acc ++ [(s.d.id, s)]) es = .ok all := by simpa using h
            obtain ⟨a, b, c, d⟩ := ih _ all h' hn'
            refine ⟨a, fun p hp => b p (List.mem_append_left _ hp), ?_, ?_⟩
            · intro p hp'
              rcases c p hp' with h1 | ⟨h1, e', he', h2⟩
              · rcases List.mem_append.mp h1 with h3 | h3
                · exact Or.inl h3
                · simp only [List.mem_singleton] at h3
                  subst h3
                  exact Or.inr ⟨rfl, e, List.mem_cons_self, hdir, hel, hr, hp⟩
              · exact Or.inr ⟨h1, e', List.mem_cons_of_mem _ he', h2⟩
            · intro e' he' hel'
              rcases List.mem_cons.mp he' with h1 | h1
              · subst h1
                exact ⟨s, hr, hp, b _ (List.mem_append_right _ (List.mem_singleton.mpr rfl))⟩
              · exact d e' h1 hel'

/-! ### the server ids -/

theorem serverDefs_spec (all : DefMap) (ids : List String) :
    ∀ (acc srv : DefMap), serverDefs all acc ids = .ok srv →
      (∀ k s, alGet acc k = some s → alGet all k = some s) →
      (∀ k s, alGet srv k = some s → alGet all k = some s ∧ (k ∈ ids ∨ alGet acc k ≠ none)) ∧
      (∀ k, (k ∈ ids ∨ alGet acc k ≠ none) → alGet srv k ≠ none) := by
  induction ids with
  | nil =>
    intro acc srv h hacc
    simp only [serverDefs, Res.ok.injEq] at h
    subst h
    refine ⟨fun k s hk => ⟨hacc k s hk, Or.inr (by rw [hk]; simp)⟩, ?_⟩
    intro k hk
    rcases hk with hk | hk
    · cases hk
    · exact hk
  | cons id ids ih =>
    intro acc srv h hacc
    unfold serverDefs at h
    cases hg : DefMap.get all id with
    | none => simp [hg] at h
    | some s =>
      simp only [hg] at h
      have hacc' : ∀ k s', alGet (alPut acc id s) k = some s' → alGet all k = some s' := by
        intro k s' hk
        rw [nalGet_put] at hk
        by_cases hik : id = k
        · simp only [hik, if_true, Option.some.injEq] at hk
          subst hk; subst hik; exact hg
        · simp only [hik, if_false] at hk
          exact hacc k s' hk
      obtain ⟨a, b⟩ := ih _ srv h hacc'
      refine ⟨?_, ?_⟩
      · intro k s' hk
        obtain ⟨h1, h2⟩ := a k s' hk
        refine ⟨h1, ?_⟩
        rcases h2 with h2 | h2
        · exact Or.inl (List.mem_cons_of_mem _ h2)
        · rw [nalGet_put] at h2
          by_cases hik : id = k
          · subst hik; exact Or.inl List.mem_cons_self
          · simp only [hik, if_false] at h2
            exact Or.inr h2
      · intro k hk
        apply b
        rcases hk with hk | hk
        · rcases List.mem_cons.mp hk with h1 | h1
          · right; rw [nalGet_put]; simp [h1]
          · exact Or.inl h1
        · right
          rw [nalGet_put]
          by_cases hik : id = k
          · simp [hik]
          · simp only [hik, if_false]; exact hk

/-! ### what `Module.Configure` guarantees -/

structure DefsOK (isDefFile : String → Bool) (c : NodeCfg) (entries : List DirEntry) (defs : Defs) : Prop where
  /-- one definition per id; the key is the definition's own id -/
  nodup : (defs.all.map (·.1)).Nodup
  keyId : ∀ k s, defs.all.get k = some s → s.d.id = k
  /-- every definition was read from an eligible file of the directory -/
  fromFile : ∀ k s, defs.all.get k = some s → FromEntry isDefFile entries s
  /-- and every eligible file is there -/
  complete : ∀ e ∈ entries, e.eligible isDefFile = true → ∃ s, e.parsed = some s ∧ defs.all.get s.d.id = some s
  /-- the served lists are exactly the configured ids, each WITH its definition -/
  served : ∀ k s, defs.server.get k = some s → defs.all.get k = some s ∧ k ∈ c.serverIds
  servedAll : ∀ k ∈ c.serverIds, defs.server.get k ≠ none

theorem defsOK_empty (isDefFile : String → Bool) (c : NodeCfg) (entries : List DirEntry)
    (hc : ∀ e ∈ entries, e.eligible isDefFile = false) (hs : c.serverIds = []) :
    DefsOK isDefFile c entries {} where
  nodup := List.nodup_nil
  keyId := by intro k s h; simp [DefMap.get, nalGet_nil] at h
  fromFile := by intro k s h; simp [DefMap.get, nalGet_nil] at h
  complete := by intro e he h; rw [hc e he] at h; cases h
  served := by intro k s h; simp [DefMap.get, nalGet_nil] at h
  servedAll := by intro k hk; rw [hs] at hk; cases hk

theorem configure_present_ok (isDefFile : String → Bool) (dd : String) (c : NodeCfg) (entries : List DirEntry) (defs : Defs)
    (hd : c.dir ≠ "") (h : configure isDefFile dd c .present true entries = .ok defs) :
    DefsOK isDefFile c entries defs := by
  unfold configure at h
  simp only [hd, if_false, Bool.not_true, Bool.false_eq_true] at h
  cases hl : loadDir isDefFile [] entries with
  | err e => simp [hl] at h
  | panic p => simp [hl] at h
  | ok all =>
    simp only [hl] at h
    obtain ⟨hn, _, hfrom, hcomp⟩ := loadDir_spec isDefFile entries [] all hl List.nodup_nil
    have hkey : ∀ k s, alGet all k = some s → s.d.id = k ∧ FromEntry isDefFile entries s := by
      intro k s hk
      rcases hfrom (k, s) (nalGet_some_mem all k s hk) with h1 | h1
      · cases h1
      · exact h1
    have hcomp' : ∀ e ∈ entries, e.eligible isDefFile = true → ∃ s, e.parsed = some s ∧ alGet all s.d.id = some s := by
      intro e he hel
      obtain ⟨s, _, hp, hm⟩ := hcomp e he hel
      exact ⟨s, hp, nalGet_of_mem_nodup all _ _ hn hm⟩
    by_cases hs : c.serverIds.length > 0
    · simp only [hs, if_true] at h
      cases hsd : serverDefs all [] c.serverIds with
      | err e => simp [hsd] at h
      | panic p => simp [hsd] at h
      | ok srv =>
        simp only [hsd, Res.ok.injEq] at h
        subst h
        obtain ⟨a, b⟩ := serverDefs_spec all c.serverIds [] srv hsd (by intro k s hk; simp [nalGet_nil] at hk)
        refine ⟨hn, fun k s hk => (hkey k s hk).1, fun k s hk => (hkey k s hk).2, hcomp', ?_, ?_⟩
        · intro k s hk
          obtain ⟨h1, h2⟩ := a k s hk
          refine ⟨h1, ?_⟩
          rcases h2 with h2 | h2
          · exact h2
          · simp [nalGet_nil] at h2
        · intro k hk
          exact b k (Or.inl hk)
    · simp only [hs, if_false, Res.ok.injEq] at h
      subst h
      refine ⟨hn, fun k s hk => (hkey k s hk).1, fun k s hk => (hkey k s hk).2, hcomp', ?_, ?_⟩
      · intro k s hk; simp [DefMap.get, nalGet_nil] at hk
      · intro k hk
        have : c.serverIds = [] := by
          cases hc : c.serverIds with
          | nil => rfl
          | cons a l => simp [hc] at hs
        rw [this] at hk; cases hk

/-! ### routing -/

theorem route_cases (defs : Defs) (sid : String) (f : Fwd) :
    (∃ s x, defs.server.get sid = some x ∧ defs.all.get sid = some s ∧ route defs sid f = .serve s) ∨
    (∃ x, defs.server.get sid = some x ∧ defs.all.get sid = none ∧ route defs sid f = .inconsistent) ∨
    (defs.server.get sid = none ∧ defs.all.get sid = none ∧ route defs sid f = .notFound) ∨
    (∃ s, defs.server.get sid = none ∧ defs.all.get sid = some s ∧ cycleDetected f s = true ∧ route defs sid f = .cycle) ∨
    (∃ s, defs.server.get sid = none ∧ defs.all.get sid = some s ∧ cycleDetected f s = false ∧ route defs sid f = .forward s) := by
  unfold route
  cases h1 : defs.server.get sid with
  | some x =>
    cases h2 : defs.all.get sid with
    | some s => left; exact ⟨s, x, rfl, rfl, rfl⟩
    | none => right; left; exact ⟨x, rfl, rfl, rfl⟩
  | none =>
    cases h2 : defs.all.get sid with
    | none => right; right; left; exact ⟨rfl, rfl, rfl⟩
    | some s =>
      cases h3 : cycleDetected f s with
      | true => right; right; right; left; exact ⟨s, rfl, rfl, h3, by simp [h3]⟩
      | false => right; right; right; right; exact ⟨s, rfl, rfl, h3, by simp [h3]⟩

/-! ### the node's store -/

theorem prune_prune (s : Store) (now : Nat) : (s.prune now).prune now = s.prune now := by
  unfold Store.prune
  simp [List.filter_filter]

theorem addOk_prune (s : Store) (now : Nat) (vp : VP) (subj id : String) (e seed ts : Nat) :
    addOk (s.prune now) now vp subj id e seed ts = addOk s now vp subj id e seed ts := by
  unfold addOk
  rw [prune_prune]

theorem node_register_served (n : Node) (now fresh : Nat) (sid : String) (f : Fwd) (vp : VP) (svc : Service)
    (hr : route n.defs sid f = .serve svc) :
    (n.register now fresh sid f vp).2 = .done (register svc.d (n.stores sid) now fresh vp).2 ∧
    (n.register now fresh sid f vp).1.stores sid = (register svc.d (n.stores sid) now fresh vp).1 ∧
    (n.register now fresh sid f vp).1.defs = n.defs ∧
    ∀ k, k ≠ sid → (n.register now fresh sid f vp).1.stores k =
      if (register svc.d (n.stores sid) now fresh vp).2 = .ok () then (n.stores k).prune now else n.stores k := by
  unfold Node.register
  rw [hr]
  simp only
  cases hv : verify svc.d (n.stores sid) now .server vp with
  | err e => simp [register, hv]
  | panic p => simp [register, hv]
  | ok u =>
    obtain ⟨subj, e, hA⟩ := (verify_ok_acceptable svc.d .server (n.stores sid) now vp).mp hv
    obtain ⟨id, hid⟩ := hA.hasId
    obtain ⟨m, hsig, _⟩ := hA.signer
    cases hk : (n.stores sid).hasKey subj id with
    | true => simp [register, hv, hsig, hid, hk]
    | false =>
      have h1 := add_eq ((n.stores sid).prune now) now vp 0 0 fresh subj m id e hsig hid hA.exp hA.jwt hA.credsHaveId
      have h2 := add_eq (n.stores sid) now vp 0 0 fresh subj m id e hsig hid hA.exp hA.jwt hA.credsHaveId
      simp only [if_true] at h1 h2
      rw [addOk_prune] at h1
      have hs : ((n.stores sid).prune now).seed = (n.stores sid).seed := rfl
      have hl : ((n.stores sid).prune now).lastTs = (n.stores sid).lastTs := rfl
      rw [hs, hl] at h1
      simp [register, hv, hsig, hid, hk, Node.pruneAll, Node.setStore, h1, h2]
      intro k h1 h2; exact absurd h2 h1

theorem node_register_unserved (n : Node) (now fresh : Nat) (sid : String) (f : Fwd) (vp : VP)
    (hr : ∀ svc, route n.defs sid f ≠ .serve svc) :
    (n.register now fresh sid f vp).1 = n ∧
    ((n.register now fresh sid f vp).2 = .notFound ∨ (n.register now fresh sid f vp).2 = .cycle ∨
     (n.register now fresh sid f vp).2 = .inconsistent ∨ ∃ s, n.defs.all.get sid = some s ∧
        (n.register now fresh sid f vp).2 = .forwarded s.endpoint) := by
  unfold Node.register
  rcases route_cases n.defs sid f with ⟨s, x, _, _, h⟩ | ⟨x, _, _, h⟩ | ⟨_, _, h⟩ | ⟨s, _, _, _, h⟩ | ⟨s, _, h2, _, h⟩
  · exact absurd h (hr s)
  · rw [h]; simp
  · rw [h]; simp
  · rw [h]; simp
  · rw [h]; simp [h2]

/-! ### per-list invariant that survives the cross-list prune -/

/-- `SInv` without the two seed clauses (a prune caused by ANOTHER list may empty a list that has a seed) -/
structure NInv (s : Store) : Prop where
  sorted : s.rows.Pairwise (fun a b => a.ts < b.ts)
  bound : ∀ r ∈ s.rows, 1 ≤ r.ts ∧ r.ts ≤ s.lastTs
  onePer : s.rows.Pairwise (fun a b => a.subject ≠ b.subject)
  wf : ∀ r ∈ s.rows, RowWF r

/-- the row's presentation satisfied the registration predicate of definition `d` at some earlier clock value,
    against the list of that moment -/
def ListedW (d : Def) (t : Nat) (r : Row) : Prop :=
  ∃ s now, now ≤ t ∧ Acceptable d .server s now r.vp r.subject r.exp

structure StoreOK (d : Def) (t : Nat) (s : Store) : Prop where
  inv : NInv s
  listed : ∀ r ∈ s.rows, ListedW d t r

theorem storeOK_empty (d : Def) (t : Nat) : StoreOK d t {} where
  inv := { sorted := List.Pairwise.nil, bound := (fun r h => by cases h), onePer := List.Pairwise.nil, wf := (fun r h => by cases h) }
  listed := fun r h => by cases h

theorem storeOK_mono {d : Def} {t t' : Nat} {s : Store} (h : StoreOK d t s) (ht : t ≤ t') : StoreOK d t' s :=
  ⟨h.inv, fun r hr => by
    obtain ⟨s0, now, h1, h2⟩ := h.listed r hr
    exact ⟨s0, now, by omega, h2⟩⟩

theorem storeOK_prune {d : Def} {t : Nat} {s : Store} (h : StoreOK d t s) (now : Nat) : StoreOK d t (s.prune now) := by
  have hsl : (s.prune now).rows.Sublist s.rows := by unfold Store.prune; exact List.filter_sublist
  have hsub : ∀ r ∈ (s.prune now).rows, r ∈ s.rows := fun r hr => hsl.subset hr
  exact { inv := { sorted := h.inv.sorted.sublist hsl, bound := fun r hr => h.inv.bound r (hsub r hr),
                   onePer := h.inv.onePer.sublist hsl, wf := fun r hr => h.inv.wf r (hsub r hr) },
          listed := fun r hr => h.listed r (hsub r hr) }

theorem storeOK_register {d : Def} {t : Nat} {s : Store} (h : StoreOK d t s) (fresh : Nat) (vp : VP) :
    StoreOK d t (register d s t fresh vp).1 := by
  rcases register_cases d s t fresh vp with ⟨o, ho, _⟩ | ⟨subj, e, id, hA, hid, _, hreg⟩
  · rw [ho]; exact h
  · rw [hreg]
    obtain ⟨m, hsig, _⟩ := hA.signer
    have hsub : ∀ r, r ∈ ((s.prune t).rows.filter (fun r => !(r.subject == subj))) → r ∈ s.rows :=
      fun r hr => (mem_kept.mp hr).1
    have hsl : ((s.prune t).rows.filter (fun r => !(r.subject == subj))).Sublist s.rows := by
      unfold Store.prune
      exact (List.filter_sublist).trans List.filter_sublist
    refine StoreOK.mk (NInv.mk ?_ ?_ ?_ ?_) ?_
    · show (_ ++ [_]).Pairwise _
      rw [List.pairwise_append]
      refine ⟨h.inv.sorted.sublist hsl, List.pairwise_singleton _ _, ?_⟩
      intro a ha b hb
      simp only [List.mem_singleton] at hb
      subst hb
      have := (h.inv.bound a (hsub a ha)).2
      show a.ts < s.lastTs + 1
      omega
    · intro r hr
      have hr' : r ∈ (addOk s t vp subj id e (if s.seed = 0 then fresh else s.seed) (s.lastTs + 1)).1.rows := hr
      rcases mem_addOk.mp hr' with ⟨h1, _, _⟩ | h1
      · have := h.inv.bound r h1
        show 1 ≤ r.ts ∧ r.ts ≤ s.lastTs + 1
        omega
      · subst h1
        show 1 ≤ s.lastTs + 1 ∧ s.lastTs + 1 ≤ s.lastTs + 1
        omega
    · show (_ ++ [_]).Pairwise _
      rw [List.pairwise_append]
      refine ⟨h.inv.onePer.sublist hsl, List.pairwise_singleton _ _, ?_⟩
      intro a ha b hb
      simp only [List.mem_singleton] at hb
      subst hb
      exact (mem_kept.mp ha).2.2
    · intro r hr
      have hr' : r ∈ (addOk s t vp subj id e (if s.seed = 0 then fresh else s.seed) (s.lastTs + 1)).1.rows := hr
      rcases mem_addOk.mp hr' with ⟨h1, _, _⟩ | h1
      · exact h.inv.wf r h1
      · subst h1
        exact ⟨⟨m, hsig⟩, hid, hA.exp, hA.jwt, hA.credsHaveId⟩
    · intro r hr
      have hr' : r ∈ (addOk s t vp subj id e (if s.seed = 0 then fresh else s.seed) (s.lastTs + 1)).1.rows := hr
      rcases mem_addOk.mp hr' with ⟨h1, _, _⟩ | h1
      · exact h.listed r h1
      · subst h1
        exact ⟨s, t, Nat.le_refl _, hA⟩

/-! ### every list of the node, over all node histories -/

structure NodeOK (defs : Defs) (w : NWorld) : Prop where
  same : w.n.defs = defs
  lists : ∀ sid svc, defs.all.get sid = some svc → StoreOK svc.d w.t (w.n.stores sid)
  unserved : ∀ sid, defs.server.get sid = none → (w.n.stores sid).rows = []

theorem nodeOK_init (defs : Defs) (t : Nat) : NodeOK defs { n := { defs := defs }, t := t } :=
  ⟨rfl, fun _ svc _ => storeOK_empty svc.d t, fun _ _ => rfl⟩

theorem prune_rows_nil {s : Store} (now : Nat) (h : s.rows = []) : (s.prune now).rows = [] := by
  simp [Store.prune, h]

theorem nodeOK_step (defs : Defs) (w : NWorld) (e : NEv) (h : NodeOK defs w) : NodeOK defs (nstep w e).1 := by
  cases e with
  | tick d =>
    exact ⟨h.same, fun sid svc hs => storeOK_mono (h.lists sid svc hs) (by show w.t ≤ w.t + d; omega), h.unserved⟩
  | restart => exact h
  | register sid f vp =>
    show NodeOK defs { w with n := (w.n.register w.t (w.ctr + 1) sid f vp).1, ctr := w.ctr + 1 }
    rcases route_cases w.n.defs sid f with ⟨s, x, hsv, hal, hrt⟩ | hother
    · obtain ⟨_, h2, h3, h4⟩ := node_register_served w.n w.t (w.ctr + 1) sid f vp s hrt
      rw [h.same] at hsv hal
      refine ⟨h3.trans h.same, ?_, ?_⟩
      · intro k svc hk
        show StoreOK svc.d w.t ((w.n.register w.t (w.ctr + 1) sid f vp).1.stores k)
        by_cases hks : k = sid
        · subst hks
          rw [h2]
          have : svc = s := by rw [hal] at hk; exact (Option.some.inj hk).symm
          subst this
          exact storeOK_register (h.lists k svc hk) _ _
        · rw [h4 k hks]
          split
          · exact storeOK_prune (h.lists k svc hk) _
          · exact h.lists k svc hk
      · intro k hk
        show ((w.n.register w.t (w.ctr + 1) sid f vp).1.stores k).rows = []
        have hks : k ≠ sid := by
          intro e; subst e; rw [hsv] at hk; cases hk
        rw [h4 k hks]
        split
        · exact prune_rows_nil _ (h.unserved k hk)
        · exact h.unserved k hk
    · have hne : ∀ svc, route w.n.defs sid f ≠ .serve svc := by
        intro svc
        rcases hother with ⟨x, _, _, hh⟩ | ⟨_, _, hh⟩ | ⟨s, _, _, _, hh⟩ | ⟨s, _, _, _, hh⟩ <;> rw [hh] <;> simp
      have := (node_register_unserved w.n w.t (w.ctr + 1) sid f vp hne).1
      rw [this]
      exact ⟨h.same, h.lists, h.unserved⟩

theorem nodeOK_run (defs : Defs) (evs : List NEv) : ∀ w, NodeOK defs w → NodeOK defs (nrun w evs) := by
  induction evs with
  | nil => intro w h; exact h
  | cons e es ih => intro w h; exact ih _ (nodeOK_step defs w e h)

end Nuts.C16
