/-
  C13 helper lemmas, deepening round 3: an operation leaves the rows of every OTHER subject exactly as they were.
-/
import NutsProofs.Lemmas.C13

namespace Nuts.C13
open Nuts

theorem filter_map_other {α} (p : α → Bool) (f : α → α) : ∀ l : List α,
    (∀ a ∈ l, p a = true → f a = a) → (∀ a ∈ l, p (f a) = p a) → (l.map f).filter p = l.filter p
  | [], _, _ => rfl
  | a :: l, h1, h2 => by
    have ih := filter_map_other p f l (fun b hb => h1 b (List.mem_cons_of_mem _ hb)) (fun b hb => h2 b (List.mem_cons_of_mem _ hb))
    simp only [List.map_cons, List.filter_cons]
    rw [h2 a List.mem_cons_self, ih]
    cases hp : p a with
    | false => rfl
    | true => simp only [if_true]; rw [h1 a List.mem_cons_self hp]

theorem filter_filterMap_other {α} (p : α → Bool) (g : α → Option α) : ∀ l : List α,
    (∀ a ∈ l, p a = true → g a = some a) → (∀ a ∈ l, ∀ a', g a = some a' → p a' = p a) →
    (l.filterMap g).filter p = l.filter p
  | [], _, _ => rfl
  | a :: l, h1, h2 => by
    have ih := filter_filterMap_other p g l (fun b hb => h1 b (List.mem_cons_of_mem _ hb))
      (fun b hb => h2 b (List.mem_cons_of_mem _ hb))
    cases hp : p a with
    | true =>
      rw [List.filterMap_cons, h1 a List.mem_cons_self hp]
      simp only [List.filter_cons, hp, if_true, ih]
    | false =>
      rw [List.filterMap_cons]
      cases hg : g a with
      | none => simp only [List.filter_cons, hp, ih]; rfl
      | some a' =>
        have := h2 a List.mem_cons_self a' hg
        simp only [List.filter_cons, hp, this, ih]; rfl

def ofSubject (s : String) (r : DidRow) : Bool := decide (r.subject = s)

theorem listDIDs_eq (w : World) (s : String) : listDIDs w s = w.dids.filter (ofSubject s) := rfl

theorem pushRow_subject (o : Op) (base now : Nat) (r : DidRow) : (pushRow o base now r).subject = r.subject := by
  unfold pushRow
  split <;> rfl

theorem pushRow_other (o : Op) (base now : Nat) (r : DidRow) (h : r.subject ≠ o.subject) : pushRow o base now r = r := by
  unfold pushRow newContent
  rw [if_neg h]

/-- the first transaction of an operation on `o.subject` leaves the rows of every other subject as they are -/
theorem tx1_other {cfg : Cfg} {w w1 : World} {o : Op} {chs : List Change} (ht : tx1 cfg w o = .ok (w1, chs))
    (s : String) (hs : s ≠ o.subject) :
    w1.dids.filter (ofSubject s) = w.dids.filter (ofSubject s) ∧ (∀ r ∈ w1.dids, r.subject = s → r ∈ w.dids) := by
  by_cases hcr : ∃ s', o = .create s'
  · rcases hcr with ⟨s', rfl⟩
    rcases tx1Create_ok (show tx1Create cfg w s' = .ok (w1, chs) from ht) with ⟨hd, _, _, _, _, _⟩
    rw [hd]
    have hnew : ∀ r ∈ cfg.methods.map (newDid w.next w.now s'), ofSubject s r = false := by
      intro r hr
      rcases List.mem_map.1 hr with ⟨m, _, rfl⟩
      have hs' : s ≠ s' := hs
      simp only [ofSubject, newDid]
      exact decide_eq_false (fun he => hs' he.symm)
    constructor
    · have hnil : (cfg.methods.map (newDid w.next w.now s')).filter (ofSubject s) = [] :=
        List.filter_eq_nil_iff.2 (fun r hr => by rw [hnew r hr]; exact Bool.false_ne_true)
      rw [List.filter_append, hnil, List.append_nil]
    · intro r hr hrs
      rcases List.mem_append.1 hr with h | h
      · exact h
      · have := hnew r h
        simp only [ofSubject, decide_eq_false_iff_not] at this
        exact absurd hrs this
  · have hnc : ∀ s', o ≠ .create s' := fun s' he => hcr ⟨s', he⟩
    rw [tx1_is_update cfg w o hnc] at ht
    rcases tx1Update_ok ht with ⟨hd, _, _, _, _⟩
    rw [hd]
    constructor
    · apply filter_map_other
      · intro r _ hp
        simp only [ofSubject, decide_eq_true_eq] at hp
        exact pushRow_other o _ _ r (by rw [hp]; exact hs)
      · intro r _
        simp only [ofSubject, pushRow_subject]
    · intro r1 hr1 hrs
      rcases List.mem_map.1 hr1 with ⟨r, hr, rfl⟩
      rw [pushRow_subject] at hrs
      rw [pushRow_other o _ _ r (by rw [hrs]; exact hs)]
      exact hr

theorem clearRow_old {dids : List DidRow} {n : Nat} (h : Inv dids n) (r : DidRow) (hr : r ∈ dids) : clearRow n r = r := by
  unfold clearRow
  have : r.vers.map (clearTx n) = r.vers := by
    rw [show r.vers = r.vers.map id from (List.map_id _).symm, List.map_map]
    apply List.map_congr_left
    intro v hv
    simp only [Function.comp, id]
    unfold clearTx
    cases hp : v.pending with
    | none => rfl
    | some p =>
      simp only
      have := h.txLt r hr v hv p hp
      rw [if_neg (by omega)]
  rw [this]

/-- END: one operation (any fault, any commit order) leaves the rows of every other subject exactly as they were -/
theorem stepOp_other {cfg : Cfg} {w : World} (o : Op) (order : List Method) (f : Fault)
    (hms : cfg.methods.Nodup) (h : Inv w.dids w.next) (hc : Clean w.dids o.subject) (s : String) (hs : s ≠ o.subject) :
    listDIDs (stepOp cfg w o order f).1 s = listDIDs w s := by
  rcases stepOp_unchanged_or_core cfg w o order f with he | he <;> rw [he]
  rcases stepOpCore_cases cfg w o order f with he | ⟨w1, chs, pub, ht, he | he | he⟩ <;> rw [he]
  · exact (tx1_other ht s hs).1
  · -- the clean-up after a failed Commit
    have t1 := tx1_ok hms h hc ht
    have ho := tx1_other ht s hs
    rw [listDIDs_eq, listDIDs_eq]
    unfold tx2
    simp only [if_true]
    rw [deleteChanges_dids (cfg := cfg) (sel := selTx w.next) (n := w1.next) { w1 with pub := pub } t1.1 t1.2.1]
    rw [← ho.1]
    apply filter_filterMap_other
    · intro r hr hp
      simp only [ofSubject, decide_eq_true_eq] at hp
      have hold := ho.2 r hr hp
      unfold dropSel
      rw [selTx_old_false h r hold]
      simp
    · intro r hr r' hg
      rcases dropSel_some hg (t1.2.1.pending r hr) with ⟨_, rfl⟩ | ⟨_, v, vs, p, _, _, rfl, _⟩
      · rfl
      · rfl
  · -- the clean-up after every Commit returned
    have t1 := tx1_ok hms h hc ht
    have ho := tx1_other ht s hs
    rw [listDIDs_eq, listDIDs_eq]
    unfold tx2
    simp only [Bool.false_eq_true, if_false]
    cases hch : chs with
    | nil => exact ho.1
    | cons ch rest =>
      simp only
      rw [deleteLogTx_dids, ← ho.1]
      have htx : ch.tx = w.next := t1.2.2.1 ch (by rw [hch]; exact List.mem_cons_self)
      rw [htx]
      apply filter_map_other
      · intro r hr hp
        simp only [ofSubject, decide_eq_true_eq] at hp
        exact clearRow_old h r (ho.2 r hr hp)
      · intro r _
        rfl
