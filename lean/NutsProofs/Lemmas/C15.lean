/-
  Helper lemmas for C15 (private payload release).
-/
import NutsModel.C07.Net
import NutsModel.C15.Authn
import NutsProofs.Lemmas.C07
open Nuts.Proto Nuts Nuts.Proto.L

namespace Nuts.C15.L

/-- payload bytes a message carries (TransactionList payload fields, TransactionPayload data) -/
def payloadBytes : Msg → List Payload
  | .txList _ _ _ txs => txs.filterMap (·.payload)
  | .payload _ (some p) => [p]
  | _ => []

/-- the payload store is keyed by the hash of what it stores -/
def StoreOK (n : Node) : Prop := ∀ h p, Nuts.alGet n.payloads h = some p → p.sha = h

/-- `p` is the payload of a PAL-bearing transaction of the node -/
def PrivateBytes (n : Node) (p : Payload) : Prop := ∃ t ∈ n.dag, t.pal ≠ [] ∧ t.payloadHash = p.sha

/-- no public transaction of the node has the payload of a private one -/
def PrivSeparate (n : Node) : Prop :=
  ∀ t ∈ n.dag, ∀ t' ∈ n.dag, t.pal ≠ [] → t'.pal = [] → t.payloadHash ≠ t'.payloadHash

theorem storeOK_of_all (n : Node) (h : ∀ e ∈ n.payloads, e.2.sha = e.1) : StoreOK n := by
  intro k p hp
  unfold Nuts.alGet at hp
  cases hf : n.payloads.find? (fun e => e.1 == k) with
  | none => simp [hf] at hp
  | some e =>
    simp [hf] at hp
    have hm := List.mem_of_find?_eq_some hf
    have hk := List.find?_some hf
    have := h e hm
    subst hp
    rw [this]
    simpa using hk

theorem getTx_mem {d : List Tx} {r : Ref} {t : Tx} (h : getTx d r = some t) : t ∈ d :=
  List.mem_of_find?_eq_some h

theorem getTx_ref {d : List Tx} {r : Ref} {t : Tx} (h : getTx d r = some t) : t.ref = r := by
  have := List.find?_some h
  simpa using this

theorem findBetween_mem {d : List Tx} {a b : Nat} {t : Tx} (h : t ∈ findBetween d a b) : t ∈ d := by
  unfold findBetween at h
  have := (sortBy_perm txLt _).mem_iff.mp h
  exact (List.mem_filter.mp this).1

/-- every element of a collected list with a payload is a public transaction of the input, carrying exactly
    what the store holds under its payload hash; private transactions carry nothing -/
theorem collect_elems (n : Node) : ∀ (l : List Tx) (r : List NetTx), collect n l = some r →
    ∀ e ∈ r, ∃ t ∈ l, e.tx = some t ∧
      ((t.pal = [] ∧ e.payload = readPayload n t.payloadHash ∧ e.payload.isSome) ∨ (t.pal ≠ [] ∧ e.payload = none)) := by
  intro l
  induction l with
  | nil => intro r h e he; simp [collect] at h; subst h; cases he
  | cons t ts ih =>
    intro r h e he
    unfold collect at h
    split at h
    · rename_i hp
      split at h
      · cases h
      · rename_i p hrp
        cases hc : collect n ts with
        | none => simp [hc] at h
        | some r' =>
          simp [hc] at h
          subst h
          rcases List.mem_cons.mp he with rfl | he'
          · exact ⟨t, List.mem_cons_self, rfl, Or.inl ⟨by simpa using hp, by simp [hrp], by simp⟩⟩
          · obtain ⟨t', ht', h2⟩ := ih r' hc e he'
            exact ⟨t', List.mem_cons_of_mem _ ht', h2⟩
    · rename_i hp
      cases hc : collect n ts with
      | none => simp [hc] at h
      | some r' =>
        simp [hc] at h
        subst h
        rcases List.mem_cons.mp he with rfl | he'
        · exact ⟨t, List.mem_cons_self, rfl, Or.inr ⟨by simpa using hp, rfl⟩⟩
        · obtain ⟨t', ht', h2⟩ := ih r' hc e he'
          exact ⟨t', List.mem_cons_of_mem _ ht', h2⟩

/-- a TransactionList built from the node's own transactions never carries private payload bytes -/
theorem list_reply_clean (cfg : Cfg) (n : Node) (hs : StoreOK n) (hsep : PrivSeparate n) (l : List Tx) (hl : ∀ t ∈ l, t ∈ n.dag)
    (r : List NetTx) (hc : collect n l = some r) (peer : Nat) (cid : Cid) (o : Nat × Msg)
    (ho : o ∈ sendTransactionList cfg peer cid r) (p : Payload) (hp : p ∈ payloadBytes o.2) : ¬ PrivateBytes n p := by
  obtain ⟨_, k, total, c, heq, hsub⟩ := sendTransactionList_mem cfg peer cid r o ho
  rw [heq] at hp
  simp only [payloadBytes, List.mem_filterMap] at hp
  obtain ⟨e, he, hpe⟩ := hp
  obtain ⟨t, htl, _, hcase⟩ := collect_elems n l r hc e (hsub e he)
  rintro ⟨t', ht', hpal', hhash'⟩
  rcases hcase with ⟨hpal, hread, _⟩ | ⟨_, hnone⟩
  · rw [hpe] at hread
    have hsha : p.sha = t.payloadHash := hs _ _ hread.symm
    exact hsep t' ht' t (hl t htl) hpal' hpal (by rw [hhash', hsha])
  · rw [hnone] at hpe; cases hpe

end Nuts.C15.L
