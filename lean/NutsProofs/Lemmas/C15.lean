/-
  Helper lemmas for C15 (private payload release).
-/
import NutsModel.C07.Net
import NutsModel.C15.Authn
import NutsProofs.Lemmas.C07
open Nuts.Proto Nuts Nuts.Proto.L

namespace Nuts.C15.L

/-- payload bytes a message carries (TransactionList payload fields, TransactionPayload data) -/
def payloadBytes : Msg → List Payload
  | .txList _ _ _ txs => txs.filterMap (·.payload)
  | .payload _ (some p) => [p]
  | _ => []

/-- the payload store is keyed by the hash of what it stores -/
def StoreOK (n : Node) : Prop := ∀ h p, Nuts.alGet n.payloads h = some p → p.sha = h

/-- `p` is the payload of a PAL-bearing transaction of the node -/
def PrivateBytes (n : Node) (p : Payload) : Prop := ∃ t ∈ n.dag, t.pal ≠ [] ∧ t.payloadHash = p.sha

/-- no public transaction of the node has the payload of a private one -/
def PrivSeparate (n : Node) : Prop :=
  ∀ t ∈ n.dag, ∀ t' ∈ n.dag, t.pal ≠ [] → t'.pal = [] → t.payloadHash ≠ t'.payloadHash

theorem storeOK_of_all (n : Node) (h : ∀ e ∈ n.payloads, e.2.sha = e.1) : StoreOK n := by
  intro k p hp
  unfold Nuts.alGet at hp
  cases hf : n.payloads.find? (fun e => e.1 == k) with
  | none => simp [hf] at hp
  | some e =>
    simp [hf] at hp
    have hm := List.mem_of_find?_eq_some hf
    have hk := List.find?_some hf
    have := h e hm
    subst hp
    rw [this]
    simpa using hk

/-- a TransactionList built from the node's own transactions never carries private payload bytes -/
theorem list_reply_clean (cfg : Cfg) (n : Node) (hs : StoreOK n) (hsep : PrivSeparate n) (l : List Tx) (hl : ∀ t ∈ l, t ∈ n.dag)
    (r : List NetTx) (hc : collect n l = some r) (peer : Nat) (cid : Cid) (o : Nat × Msg)
    (ho : o ∈ sendTransactionList cfg peer cid r) (p : Payload) (hp : p ∈ payloadBytes o.2) : ¬ PrivateBytes n p := by
  obtain ⟨_, k, total, c, heq, hsub⟩ := sendTransactionList_mem cfg peer cid r o ho
  rw [heq] at hp
  simp only [payloadBytes, List.mem_filterMap] at hp
  obtain ⟨e, he, hpe⟩ := hp
  obtain ⟨t, htl, _, hcase⟩ := collect_elems n l r hc e (hsub e he)
  rintro ⟨t', ht', hpal', hhash'⟩
  rcases hcase with ⟨hpal, hread, _⟩ | ⟨_, hnone⟩
  · rw [hpe] at hread
    have hsha : p.sha = t.payloadHash := hs _ _ hread.symm
    exact hsep t' ht' t (hl t htl) hpal' hpal (by rw [hhash', hsha])
  · rw [hnone] at hpe; cases hpe


/-! ### per-handler: what is sent carries no payload bytes -/

theorem request_no_bytes {m : Msg} (h : isRequest m = true) : payloadBytes m = [] := by
  cases m <;> simp [isRequest] at h <;> simp [payloadBytes]

theorem gossip_clean (cfg : Cfg) (n : Node) (peer : Peer) (x : Ref) (lc : Nat) (refs : List Ref) (o : Nat × Msg)
    (h : o ∈ (handleGossip cfg n peer x lc refs).out) : payloadBytes o.2 = [] := request_no_bytes (gossip_req cfg n peer x lc refs o h)
theorem state_clean (cfg : Cfg) (n : Node) (peer : Peer) (cid : Cid) (x : Ref) (lc : Nat) (o : Nat × Msg)
    (h : o ∈ (handleState cfg n peer cid x lc).out) : payloadBytes o.2 = [] := request_no_bytes (state_req cfg n peer cid x lc o h)
theorem set_clean (cfg : Cfg) (env : Env) (n : Node) (peer : Peer) (cid : Cid) (a b : Nat) (i : IbltV) (o : Nat × Msg)
    (h : o ∈ (handleTransactionSet cfg env n peer cid a b i).out) : payloadBytes o.2 = [] := request_no_bytes (set_req cfg env n peer cid a b i o h)
theorem txlist_clean (cfg : Cfg) (env : Env) (n : Node) (peer : Peer) (cid : Cid) (a b : Nat) (txs : List NetTx) (o : Nat × Msg)
    (h : o ∈ (handleTransactionList cfg env n peer cid a b txs).out) : payloadBytes o.2 = [] := request_no_bytes (txlist_req cfg env n peer cid a b txs o h)
theorem pq_no_bytes {o : Nat × Msg} (h : ∃ r, o.2 = .payloadQuery r) : payloadBytes o.2 = [] := request_no_bytes (pq_req h)

/-- what `handleTransactionPayloadQuery` may answer with data -/
theorem payloadQuery_release (env : Env) (n : Node) (peer : Peer) (ref : Ref) (o : Nat × Msg)
    (h : o ∈ (handleTransactionPayloadQuery env n peer ref).out) :
    o = (peer.key, .payload ref none) ∨
    ∃ tx p, getTx n.dag ref = some tx ∧ readPayload n tx.payloadHash = some p ∧ o = (peer.key, .payload ref (some p)) ∧
      (tx.pal ≠ [] → peer.authenticated = true ∧ ∃ dids, decryptPAL env n tx.pal = .pal dids ∧ peer.did ∈ dids) := by
  unfold handleTransactionPayloadQuery at h
  split at h
  · simp only [emptyPayload, List.mem_singleton] at h; exact Or.inl h
  · rename_i tx htx
    simp only at h
    have hrel : ∀ (hyp : tx.pal ≠ [] → peer.authenticated = true ∧ ∃ dids, decryptPAL env n tx.pal = .pal dids ∧ peer.did ∈ dids),
        o ∈ (match readPayload n tx.payloadHash with
              | none => ({ node := n, ret := "err:payload-not-found" } : HR)
              | some p => { node := n, out := [(peer.key, .payload ref (some p))] }).out →
        ∃ tx p, getTx n.dag ref = some tx ∧ readPayload n tx.payloadHash = some p ∧ o = (peer.key, .payload ref (some p)) ∧
          (tx.pal ≠ [] → peer.authenticated = true ∧ ∃ dids, decryptPAL env n tx.pal = .pal dids ∧ peer.did ∈ dids) := by
      intro hyp ho
      split at ho
      · cases ho
      · rename_i p hp
        simp only [List.mem_singleton] at ho
        exact ⟨tx, p, htx, hp, ho, hyp⟩
    split at h
    · rename_i hpal
      split at h
      · simp only [emptyPayload, List.mem_singleton] at h; exact Or.inl h
      · rename_i hauth
        split at h
        · simp only [emptyPayload, List.mem_singleton] at h; exact Or.inl h
        · simp only [emptyPayload, List.mem_singleton] at h; exact Or.inl h
        · rename_i dids hdec
          split at h
          · simp only [emptyPayload, List.mem_singleton] at h; exact Or.inl h
          · rename_i hmem
            refine Or.inr (hrel (fun _ => ⟨by simpa using hauth, dids, hdec, ?_⟩) h)
            simpa using hmem
    · rename_i hpal
      refine Or.inr (hrel (fun hne => absurd ?_ hne) h)
      simpa using hpal


theorem payload_out_nil (n : Node) (ref : Ref) (data : Option Payload) : (handleTransactionPayload n ref data).out = [] := by
  unfold handleTransactionPayload
  split
  · rfl
  · split
    · rfl
    · split
      · rfl
      · split
        · rfl
        · split
          · rfl
          · rfl


/-! ### honest PAL decryption -/

theorem tryCiphers_honest (env : Env) (keyOf : String → String) (cipherFor : String → Nat) (pal : List String)
    (hh : HonestPal env keyOf cipherFor pal) (hinj : ∀ a b, keyOf a = keyOf b → a = b) (d₀ : String) :
    ∀ (suffix : List String), (∀ d ∈ suffix, d ∈ pal) →
      tryCiphers env [⟨keyOf d₀, true⟩] (suffix.map cipherFor) =
        if d₀ ∈ suffix then some (.ok (pal.map some)) else none := by
  intro suffix
  induction suffix with
  | nil => intro _; simp [tryCiphers]
  | cons d ds ih =>
    intro hsub
    have hd := hh d (hsub d List.mem_cons_self) (keyOf d₀)
    have ih' := ih (fun x hx => hsub x (List.mem_cons_of_mem _ hx))
    simp only [List.map_cons, tryCiphers, tryKeys, if_true]
    rw [hd]
    by_cases hk : keyOf d₀ = keyOf d
    · have : d₀ = d := hinj _ _ hk
      subst this
      simp
    · have hne : d₀ ≠ d := fun h => hk (by rw [h])
      simp only [hk, if_false, ih']
      simp [hne]

theorem parseDids_some (l : List String) : parseDids (l.map some) = some l := by
  induction l with
  | nil => rfl
  | cons x xs ih => simp [parseDids, ih]



/-! ### authenticator -/

theorem authn_sound_iff (e : AuthEnv) (claimed : String) (peer : Peer) (i : AuthIn) :
    (authenticate e claimed peer i).2 = "ok" ↔
      ∃ dns ep host, i.cert = some dns ∧ i.endpoint = some ep ∧ e.parseHost ep = some host ∧ e.verifyHostname dns host = true := by
  unfold authenticate
  cases hc : i.cert with
  | none => simp
  | some dns =>
    cases he : i.endpoint with
    | none => simp
    | some ep =>
      cases hp : e.parseHost ep with
      | none => simp [hp]
      | some host =>
        cases hv : e.verifyHostname dns host <;> simp [hp, hv]


end Nuts.C15.L
