/-
  C10 — lemmas for NutsModel/C10/Cache.lean (the in-memory conflicted cache under rolled-back write transactions)
-/
import NutsModel.C10.Cache
import NutsProofs.Lemmas.C10Obs

namespace Nuts.C10
open Nuts

theorem alPut_alPut_same {ν} (m : List (String × ν)) (k : String) (v : ν) : alPut (alPut m k v) k v = alPut m k v := by
  simp [alPut, List.filter_filter]

theorem alDel_alDel_same {ν} (m : List (String × ν)) (k : String) : alDel (alDel m k) k = alDel m k := by
  simp [alDel, List.filter_filter]

theorem rolled_back_keeps (cfg : Cfg) (s t : Store) (e : Event) (h : addRolledBack cfg s e = .ok t) :
    t.dids = s.dids ∧ t.conflictedCount = s.conflictedCount ∧ t.documentCount = s.documentCount := by
  unfold addRolledBack at h
  split at h
  · cases h; exact ⟨rfl, rfl, rfl⟩
  · cases h
  · cases h

theorem redelivery (cfg : Cfg) (s t : Store) (e : Event) (h : addRolledBack cfg s e = .ok t) :
    add cfg t e = add cfg s e := by
  unfold addRolledBack at h
  split at h
  · rename_i s' hs'
    cases h
    unfold add at hs' ⊢
    simp only [Store.get] at hs' ⊢
    split at hs'
    · cases hs'
    · cases hs'
    · cases hs'
      rename_i hd; simp only [hd]
    · rename_i st' hd
      cases hs'
      simp only [hd]
      cases hl : st'.chain.getLast? with
      | none => simp
      | some p =>
        simp only
        cases hc : st'.conflicted <;> simp [alPut_alPut_same, alDel_alDel_same] <;> first | rfl | (split <;> rfl)
  · cases h
  · cases h

/-- one committed Add on two stores with the same shelves: same shelves afterwards, and the caches agree wherever they
    agreed before — and at the key the Add touches whatever was there before -/
theorem add_agree (cfg : Cfg) (t u : Store) (e : Event) (t' : Store)
    (hd : t.dids = u.dids) (hcc : t.conflictedCount = u.conflictedCount) (hdc : t.documentCount = u.documentCount)
    (h : add cfg t e = .ok t') :
    ∃ u', add cfg u e = .ok u' ∧ t'.dids = u'.dids ∧ t'.conflictedCount = u'.conflictedCount ∧
      t'.documentCount = u'.documentCount ∧
      ∀ k, (alGet t.cache k = alGet u.cache k ∨ touched cfg t e = some k) → alGet t'.cache k = alGet u'.cache k := by
  obtain ⟨td, tcc, tdc, tc⟩ := t
  obtain ⟨ud, ucc, udc, uc⟩ := u
  simp only at hd hcc hdc
  subst hd hcc hdc
  unfold add at h ⊢
  simp only [touched, Store.get] at h ⊢
  split at h
  · cases h
  · cases h
  · rename_i hdid
    cases h
    simp only [hdid]
    refine ⟨_, rfl, rfl, rfl, rfl, ?_⟩
    intro k hk
    rcases hk with hk | hk
    · exact hk
    · cases hk
  · rename_i st' hdid
    cases h
    simp only [hdid]
    refine ⟨_, rfl, rfl, rfl, rfl, ?_⟩
    intro k hk
    cases hl : st'.chain.getLast? with
    | none =>
      simp only [hl] at hk ⊢
      rcases hk with hk | hk
      · exact hk
      · cases hk
    | some p =>
      simp only [hl, Option.map] at hk ⊢
      by_cases hkp : k = p.1.id
      · subst hkp
        cases hc : st'.conflicted <;> simp [alGet_alPut_self, alGet_alDel_self]
      · have hk' : alGet tc k = alGet uc k := by
          rcases hk with hk | hk
          · exact hk
          · exact absurd (Option.some.inj hk).symm hkp
        cases hc : st'.conflicted
        · simp only [Bool.false_eq_true, if_false]; rw [alGet_alDel_other _ _ _ hkp, alGet_alDel_other _ _ _ hkp]; exact hk'
        · simp only [if_true]; rw [alGet_alPut_other _ _ _ _ hkp, alGet_alPut_other _ _ _ _ hkp]; exact hk'

/-- a committed Add changes the cache at the touched key only -/
theorem add_cache_local (cfg : Cfg) (t : Store) (e : Event) (t' : Store) (h : add cfg t e = .ok t') :
    ∀ k, touched cfg t e ≠ some k → alGet t'.cache k = alGet t.cache k := by
  intro k hk
  unfold add at h
  simp only [touched, Store.get] at h hk
  split at h
  · cases h
  · cases h
  · cases h; rfl
  · rename_i st' hdid
    cases h
    simp only [hdid] at hk
    cases hl : st'.chain.getLast? with
    | none => rfl
    | some p =>
      simp only [hl, Option.map] at hk ⊢
      have hkp : k ≠ p.1.id := fun hh => hk (by rw [hh])
      cases hc : st'.conflicted
      · simp only [Bool.false_eq_true, if_false]; exact alGet_alDel_other _ _ _ hkp
      · simp only [if_true]; exact alGet_alPut_other _ _ _ _ hkp

theorem rb_run (cfg : Cfg) : ∀ (l : List (Event × Bool)) (t u : Store) (D : List String) (t' : Store),
    t.dids = u.dids → t.conflictedCount = u.conflictedCount → t.documentCount = u.documentCount →
    (∀ k, k ∉ D → alGet t.cache k = alGet u.cache k) → addAllRb cfg t l = .ok t' →
    ∃ u', addAll cfg u (committed l) = .ok u' ∧ t'.dids = u'.dids ∧ t'.conflictedCount = u'.conflictedCount ∧
      t'.documentCount = u'.documentCount ∧ ∀ k, k ∉ dirtyAll cfg t D l → alGet t'.cache k = alGet u'.cache k
  | [], t, u, D, t', hd, hcc, hdc, hag, h => by
    simp only [addAllRb] at h; cases h
    exact ⟨u, rfl, hd, hcc, hdc, hag⟩
  | (e, false) :: rest, t, u, D, t', hd, hcc, hdc, hag, h => by
    simp only [addAllRb, Bool.false_eq_true, if_false] at h
    split at h
    · rename_i s' hs'
      obtain ⟨u1, hu1, h1, h2, h3, h4⟩ := add_agree cfg t u e s' hd hcc hdc hs'
      have hag' : ∀ k, k ∉ dirtyStep cfg t D e false → alGet s'.cache k = alGet u1.cache k := by
        intro k hk
        apply h4
        unfold dirtyStep at hk
        cases ht : touched cfg t e with
        | none => rw [ht] at hk; exact Or.inl (hag k hk)
        | some k0 =>
          rw [ht] at hk
          simp only [Bool.false_eq_true, if_false, List.mem_filter, bne_iff_ne, ne_eq, not_and, Decidable.not_not] at hk
          by_cases hkD : k ∈ D
          · exact Or.inr (by rw [hk hkD])
          · exact Or.inl (hag k hkD)
      obtain ⟨u', hu', r1, r2, r3, r4⟩ := rb_run cfg rest s' u1 _ t' h1 h2 h3 hag' h
      refine ⟨u', ?_, r1, r2, r3, ?_⟩
      · simp only [committed, List.filter, Bool.not_false, List.map, addAll, hu1]
        exact hu'
      · intro k hk
        apply r4
        simp only [dirtyAll, Bool.false_eq_true, if_false, hs'] at hk
        exact hk
    · cases h
    · cases h
  | (e, true) :: rest, t, u, D, t', hd, hcc, hdc, hag, h => by
    simp only [addAllRb, if_true] at h
    split at h
    · rename_i s' hs'
      obtain ⟨k1, k2, k3⟩ := rolled_back_keeps cfg t s' e hs'
      have hag' : ∀ k, k ∉ dirtyStep cfg t D e true → alGet s'.cache k = alGet u.cache k := by
        intro k hk
        unfold dirtyStep at hk
        have hloc : touched cfg t e ≠ some k → alGet s'.cache k = alGet t.cache k := by
          intro hne
          unfold addRolledBack at hs'
          split at hs'
          · rename_i a ha; cases hs'; exact add_cache_local cfg t e a ha k hne
          · cases hs'
          · cases hs'
        cases ht : touched cfg t e with
        | none => rw [ht] at hk hloc; rw [hloc (by simp)]; exact hag k hk
        | some k0 =>
          rw [ht] at hk hloc
          simp only [if_true, List.mem_cons, not_or] at hk
          rw [hloc (fun hh => hk.1 (Option.some.inj hh).symm)]; exact hag k hk.2
      obtain ⟨u', hu', r1, r2, r3, r4⟩ := rb_run cfg rest s' u _ t' (k1.trans hd) (k2.trans hcc) (k3.trans hdc) hag' h
      refine ⟨u', ?_, r1, r2, r3, ?_⟩
      · simp only [committed, List.filter, Bool.not_true] at hu' ⊢
        exact hu'
      · intro k hk
        apply r4
        simp only [dirtyAll, if_true, hs'] at hk
        exact hk
    · cases h
    · cases h

theorem dirtyAll_snoc (cfg : Cfg) : ∀ (l : List (Event × Bool)) (s : Store) (D : List String) (s' : Store) (x : Event × Bool),
    addAllRb cfg s l = .ok s' →
    dirtyAll cfg s D (l ++ [x]) = dirtyAll cfg s' (dirtyAll cfg s D l) [x]
  | [], s, D, s', x, h => by
    simp only [addAllRb] at h; cases h; rfl
  | (e, rb) :: rest, s, D, s', x, h => by
    simp only [addAllRb] at h
    simp only [List.cons_append, dirtyAll]
    split at h
    · rename_i s1 hs1
      simp only [hs1]
      exact dirtyAll_snoc cfg rest s1 _ s' x h
    · cases h
    · cases h

theorem addAllRb_snoc (cfg : Cfg) : ∀ (l : List (Event × Bool)) (s s' : Store) (x : Event × Bool),
    addAllRb cfg s l = .ok s' → addAllRb cfg s (l ++ [x]) = addAllRb cfg s' [x]
  | [], s, s', x, h => by simp only [addAllRb] at h; cases h; rfl
  | (e, rb) :: rest, s, s', x, h => by
    simp only [addAllRb] at h
    rw [List.cons_append]
    rw [addAllRb]
    split at h
    · rename_i s1 hs1
      exact addAllRb_snoc cfg rest s1 s' x h
    · cases h
    · cases h

/-- a committed Add cleans the key it touches -/
theorem committed_cleans (cfg : Cfg) (l : List (Event × Bool)) (s s' s'' : Store) (D : List String) (e : Event) (k : String)
    (h : addAllRb cfg s l = .ok s') (ha : add cfg s' e = .ok s'') (hk : touched cfg s' e = some k) :
    k ∉ dirtyAll cfg s D (l ++ [(e, false)]) := by
  rw [dirtyAll_snoc cfg l s D s' _ h]
  simp only [dirtyAll, Bool.false_eq_true, if_false, ha, dirtyStep, hk]
  simp

end Nuts.C10
