/-
  C05, request-level layer: helper lemmas (deadness of a one-time key is kept by every handler and by time passing).
-/
import NutsModel.C05.Forms
import NutsProofs.Lemmas.C05
import NutsModel.C05.Today

namespace Nuts.C05

theorem errAt_ne_ok (l : List (String × String)) (i : Nat) : errAt l i ≠ .ok := by
  unfold errAt
  split
  · split <;> simp
  · simp

/-- a key that cannot be read stays unreadable when any key is erased -/
theorem stGet_none_erase (incl : Bool) (s : Store) (now : Nat) (k k' : Key) (h : stGet incl s now k = none) :
    stGet incl (stErase s k') now k = none := by
  by_cases hk : k = k'
  · subst hk; exact stGet_none_of_find_none incl _ now k (stFind_erase_self s k)
  · unfold stGet at *; rw [stFind_erase_ne s k' k hk]; exact h

theorem stGet_erase_self (incl : Bool) (s : Store) (now : Nat) (k : Key) : stGet incl (stErase s k) now k = none :=
  stGet_none_of_find_none incl _ now k (stFind_erase_self s k)

theorem stGet_none_put_ne (incl : Bool) (s : Store) (now : Nat) (k k' : Key) (e : Entry) (hk : k ≠ k')
    (h : stGet incl s now k = none) : stGet incl (stPut s k' e) now k = none := by
  unfold stGet at *; rw [stFind_put_ne s k' k e hk]; exact h

/-- time only kills -/
theorem stGet_none_later (incl : Bool) (s : Store) (now dt : Nat) (k : Key) (h : stGet incl s now k = none) :
    stGet incl s (now + dt) k = none := by
  unfold stGet at *
  cases hf : stFind s k with
  | none => simp
  | some e =>
    simp only [hf] at h ⊢
    cases ha : alive incl (now + dt) e.exp with
    | false => simp
    | true => have := alive_mono incl now dt e.exp ha; simp [this] at h

theorem gadSeq_dead (c : Sq) (st : Store) (k : Key) : stGet c.incl (gadSeq c st k).2 c.now k = none := by
  unfold gadSeq
  cases h : stGet c.incl st c.now k with
  | none => simpa using h
  | some v => simp [stGet_erase_self]

theorem gadSeq_keeps_dead (c : Sq) (st : Store) (k k' : Key) (h : stGet c.incl st c.now k = none) :
    stGet c.incl (gadSeq c st k').2 c.now k = none := by
  unfold gadSeq
  cases h' : stGet c.incl st c.now k' with
  | none => simpa using h
  | some v => simp [stGet_none_erase, h]

theorem gadSeq_none_of_dead (c : Sq) (st : Store) (k : Key) (h : stGet c.incl st c.now k = none) : (gadSeq c st k).1 = none := by
  unfold gadSeq; simp [h]


theorem handleCode_keeps_dead (c : Sq) (pk : Pkce) (st : Store) (f : TokenForm) (k : Key)
    (h : stGet c.incl st c.now k = none) : stGet c.incl (handleCode c pk st f).2 c.now k = none := by
  unfold handleCode
  cases hc : f.code with
  | none => simpa using h
  | some code =>
    cases hv : f.codeVerifier with
    | none => simp [stGet_none_erase, h]
    | some ver =>
      cases hi : f.clientId with
      | none => simp [stGet_none_erase, h]
      | some cid =>
        have h2 := gadSeq_keeps_dead c st k (codeKey code) h
        cases hg : gadSeq c st (codeKey code) with
        | mk o st1 =>
          rw [hg] at h2
          simp only at h2
          simp only [hg]
          cases o with
          | none => simp [stGet_none_erase, h2]
          | some v =>
            simp only
            split
            · simp [stGet_none_erase, h2]
            · split
              · simp [stGet_none_erase, h2]
              · split <;> simp [stGet_none_erase, h2]

theorem handleCode_kills (c : Sq) (pk : Pkce) (st : Store) (f : TokenForm) (code : String) (h : f.code = some code) :
    stGet c.incl (handleCode c pk st f).2 c.now (codeKey code) = none := by
  unfold handleCode
  simp only [h]
  cases hv : f.codeVerifier with
  | none => simp [stGet_erase_self]
  | some ver =>
    cases hi : f.clientId with
    | none => simp [stGet_erase_self]
    | some cid =>
      cases hg : gadSeq c st (codeKey code) with
      | mk o st1 =>
        simp only [hg]
        cases o with
        | none => simp [stGet_erase_self]
        | some v =>
          simp only
          split
          · simp [stGet_erase_self]
          · split
            · simp [stGet_erase_self]
            · split <;> simp [stGet_erase_self]

theorem handleCode_not_ok_of_dead (c : Sq) (pk : Pkce) (st : Store) (f : TokenForm) (code : String) (h : f.code = some code)
    (hd : stGet c.incl st c.now (codeKey code) = none) : (handleCode c pk st f).1 ≠ .ok := by
  unfold handleCode
  simp only [h]
  cases hv : f.codeVerifier with
  | none => simp [errAt_ne_ok]
  | some ver =>
    cases hi : f.clientId with
    | none => simp [errAt_ne_ok]
    | some cid =>
      have h1 := gadSeq_none_of_dead c st (codeKey code) hd
      cases hg : gadSeq c st (codeKey code) with
      | mk o st1 =>
        rw [hg] at h1
        simp only at h1
        subst h1
        simp [errAt_ne_ok]

theorem s2sLoop_keeps_dead (c : Sq) (ns : List String) (k : Key) (b : BurnKind) (hk : k.ns = .burn b) :
    ∀ st, stGet c.incl st c.now k = none → stGet c.incl (s2sLoop c st ns).2 c.now k = none := by
  induction ns with
  | nil => intro st h; simpa [s2sLoop] using h
  | cons n rest ih =>
    intro st h
    unfold s2sLoop
    by_cases hn : n = ""
    · simp [hn, h]
    · simp only [hn, if_false]
      unfold pifSeq
      cases hg : stGet c.incl st c.now (s2sKey n) with
      | some v => simpa using h
      | none =>
        simp only
        apply ih
        apply stGet_none_put_ne _ _ _ _ _ _ _ h
        intro he; rw [he] at hk; simp [s2sKey] at hk

theorem handleS2S_keeps_dead (c : Sq) (st : Store) (f : TokenForm) (ns : List String) (k : Key) (b : BurnKind) (hk : k.ns = .burn b)
    (h : stGet c.incl st c.now k = none) : stGet c.incl (handleS2S c st f ns).2 c.now k = none := by
  have h1 := s2sLoop_keeps_dead c ns k b hk st h
  unfold handleS2S
  cases hl : s2sLoop c st ns with
  | mk a st1 =>
    rw [hl] at h1
    cases a with
    | ok => simp only; split <;> simpa using h1
    | err _ _ => simpa using h1
    | panic _ => simpa using h1

theorem handleToken_keeps_dead (c : Sq) (pk : Pkce) (st : Store) (f : TokenForm) (k : Key) (b : BurnKind) (hk : k.ns = .burn b)
    (h : stGet c.incl st c.now k = none) : stGet c.incl (handleToken c pk st f).2 c.now k = none := by
  unfold handleToken
  simp only
  split
  · exact handleCode_keeps_dead c pk st f k h
  · split
    · cases f.assertion with
      | none => simpa using h
      | some ns =>
        simp only
        split
        · simpa using h
        · exact handleS2S_keeps_dead c st f ns k b hk h
    · split <;> simpa using h

theorem burnAll_keeps_dead (incl : Bool) (now : Nat) (ns : List String) (k : Key) :
    ∀ st, stGet incl st now k = none → stGet incl (burnAll st ns) now k = none := by
  induction ns with
  | nil => intro st h; simpa [burnAll] using h
  | cons n rest ih =>
    intro st h
    simp only [burnAll, List.foldl_cons]
    exact ih _ (stGet_none_erase incl st now k (vpKey n) h)

theorem burnAll_kills (incl : Bool) (now : Nat) (ns : List String) (n : String) (hn : n ∈ ns) :
    ∀ st, stGet incl (burnAll st ns) now (vpKey n) = none := by
  induction ns with
  | nil => cases hn
  | cons m rest ih =>
    intro st
    simp only [burnAll, List.foldl_cons]
    cases List.mem_cons.mp hn with
    | inl he => subst he; exact burnAll_keeps_dead incl now rest _ _ (stGet_erase_self incl st now _)
    | inr hr => exact ih hr _

theorem nonces_le_one (a : NAcc) (h : ¬ nonceErrs a > 0) : a.nonces.length ≤ 1 := by
  unfold nonceErrs at h
  by_cases hl : a.nonces.length > 1
  · simp [hl] at h
  · omega

theorem validateNonce_keeps_dead (c : Sq) (st : Store) (ps : List Pres) (state : String) (k : Key)
    (h : stGet c.incl st c.now k = none) : stGet c.incl (validateNonce c st ps state).2 c.now k = none := by
  unfold validateNonce
  simp only
  by_cases he : nonceErrs (collect ps) > 0
  · simp only [he, if_true]
    exact burnAll_keeps_dead c.incl c.now _ k st h
  · simp only [he, if_false]
    cases hn : (collect ps).nonces with
    | nil => simpa using h
    | cons n rest =>
      simp only
      have h2 := gadSeq_keeps_dead c st k (vpKey n) h
      cases hg : gadSeq c st (vpKey n) with
      | mk o st1 =>
        rw [hg] at h2
        cases o with
        | none => simpa using h2
        | some s => simp only; split <;> simpa using h2

/-- whatever validatePresentationNonce answers, every nonce any presentation named is unreadable afterwards -/
theorem validateNonce_kills (c : Sq) (st : Store) (ps : List Pres) (state : String) (n : String) (hn : n ∈ (collect ps).nonces) :
    stGet c.incl (validateNonce c st ps state).2 c.now (vpKey n) = none := by
  unfold validateNonce
  simp only
  by_cases he : nonceErrs (collect ps) > 0
  · simp only [he, if_true]
    exact burnAll_kills c.incl c.now _ n hn st
  · simp only [he, if_false]
    have hle := nonces_le_one _ he
    cases hc : (collect ps).nonces with
    | nil => rw [hc] at hn; cases hn
    | cons m rest =>
      rw [hc] at hn hle
      have hrest : rest = [] := by
        cases rest with
        | nil => rfl
        | cons x xs => simp at hle
      subst hrest
      have hm : n = m := by simpa using hn
      subst hm
      simp only
      have h2 := gadSeq_dead c st (vpKey n)
      cases hg : gadSeq c st (vpKey n) with
      | mk o st1 =>
        rw [hg] at h2
        cases o with
        | none => simpa using h2
        | some s => simp only; split <;> simpa using h2

/-- a response naming a nonce that cannot be read is refused -/
theorem validateNonce_not_ok_of_dead (c : Sq) (st : Store) (ps : List Pres) (state : String) (n : String) (hn : n ∈ (collect ps).nonces)
    (hd : stGet c.incl st c.now (vpKey n) = none) : (validateNonce c st ps state).1 ≠ .ok := by
  unfold validateNonce
  simp only
  by_cases he : nonceErrs (collect ps) > 0
  · simp only [he, if_true]
    exact errAt_ne_ok _ _
  · simp only [he, if_false]
    have hle := nonces_le_one _ he
    cases hc : (collect ps).nonces with
    | nil => rw [hc] at hn; cases hn
    | cons m rest =>
      rw [hc] at hn hle
      have hrest : rest = [] := by
        cases rest with
        | nil => rfl
        | cons x xs => simp at hle
      subst hrest
      have hm : n = m := by simpa using hn
      subst hm
      simp only
      have h1 := gadSeq_none_of_dead c st (vpKey n) hd
      cases hg : gadSeq c st (vpKey n) with
      | mk o st1 =>
        rw [hg] at h1
        simp only at h1
        subst h1
        simp [errAt_ne_ok]

theorem handleResponse_keeps_dead (c : Sq) (st : Store) (r : VpResponse) (k : Key)
    (h : stGet c.incl st c.now k = none) : stGet c.incl (handleResponse c st r).2 c.now k = none := by
  unfold handleResponse
  simp only
  cases r.state with
  | none => simpa using h
  | some state =>
    cases r.vpToken with
    | none => simpa using h
    | some ps =>
      cases ps with
      | nil => simpa using h
      | cons p ps =>
        simp only
        split
        · simpa using h
        · split
          · simpa using h
          · exact validateNonce_keeps_dead c st (p :: ps) state k h

theorem gadOnly_keeps_dead (c : Sq) (st : Store) (k k' : Key) (h : stGet c.incl st c.now k = none) :
    stGet c.incl (gadSeq c st k').2 c.now k = none := gadSeq_keeps_dead c st k k' h

theorem handleReqObj_snd (c : Sq) (st : Store) (r : ReqObjFetch) : (handleReqObj c st r).2 = (gadSeq c st (reqObjKey r.id)).2 := by
  unfold handleReqObj
  cases hg : gadSeq c st (reqObjKey r.id) with
  | mk o st1 =>
    cases o with
    | none => rfl
    | some v => simp only; split <;> (try split) <;> (try split) <;> rfl

theorem handleLanding_snd (c : Sq) (st : Store) (t : String) (ht : t ≠ "") : (handleLanding c st t).2 = (gadSeq c st (redirectKey t)).2 := by
  unfold handleLanding
  simp only [ht, if_false]
  cases hg : gadSeq c st (redirectKey t) with
  | mk o st1 => cases o <;> rfl

theorem handleLanding_keeps_dead (c : Sq) (st : Store) (t : String) (k : Key) (h : stGet c.incl st c.now k = none) :
    stGet c.incl (handleLanding c st t).2 c.now k = none := by
  by_cases ht : t = ""
  · unfold handleLanding; simp [ht, h]
  · rw [handleLanding_snd c st t ht]; exact gadSeq_keeps_dead c st k _ h

theorem handleDpop_keeps_dead (c : Sq) (st : Store) (r : DpopReq) (k : Key) (b : BurnKind) (hk : k.ns = .burn b)
    (h : stGet c.incl st c.now k = none) : stGet c.incl (handleDpop c st r).2 c.now k = none := by
  unfold handleDpop
  split
  · simpa using h
  · split
    · simpa using h
    · split
      · simpa using h
      · split
        · simpa using h
        · unfold pifSeq
          cases hg : stGet c.incl st c.now (jtiKey r.jti) with
          | some v => simpa using h
          | none =>
            simp only
            apply stGet_none_put_ne _ _ _ _ _ _ _ h
            intro he; rw [he] at hk; simp [jtiKey] at hk

theorem handleForm_keeps_dead (c : Sq) (pk : Pkce) (st : Store) (f : Form) (k : Key) (b : BurnKind) (hk : k.ns = .burn b)
    (h : stGet c.incl st c.now k = none) : stGet c.incl (handleForm c pk st f).2 c.now k = none := by
  cases f with
  | token t => exact handleToken_keeps_dead c pk st t k b hk h
  | response r => exact handleResponse_keeps_dead c st r k h
  | reqObj r => simp only [handleForm]; rw [handleReqObj_snd]; exact gadSeq_keeps_dead c st k _ h
  | landing t => exact handleLanding_keeps_dead c st t k h
  | dpop r => exact handleDpop_keeps_dead c st r k b hk h

/-- a burn-on-use key that cannot be read stays unreadable through any sequence of requests, however much time passes -/
theorem runForms_keeps_dead (incl : Bool) (ttl : Kind → Nat) (pk : Pkce) (k : Key) (b : BurnKind) (hk : k.ns = .burn b)
    (fs : List (Nat × Form)) : ∀ (now : Nat) (st : Store), stGet incl st now k = none →
      stGet incl (runForms incl ttl pk now st fs).2.1 (runForms incl ttl pk now st fs).2.2 k = none := by
  induction fs with
  | nil => intro now st h; simpa [runForms] using h
  | cons x rest ih =>
    intro now st h
    obtain ⟨dt, f⟩ := x
    simp only [runForms]
    apply ih
    exact handleForm_keeps_dead ⟨incl, now + dt, ttl⟩ pk st f k b hk (stGet_none_later incl st now dt k h)

/-- the outcome and the store after a code request ran alone through GetAndDelete-under-the-mutex and its deferred Delete -/
def soloOutcome (cfg : Cfg) (st : Store) (now : Nat) (r : BurnReq) : Outcome × Store :=
  if !r.pre then (.missingParam, stErase st r.key)
  else match stGet cfg.expInclusive st now r.key with
    | none => (.notFound, stErase st r.key)
    | some v => (verdict r (some v), stErase (stErase st r.key) r.key)

def soloSched : List Ev := [.step 0, .step 0, .step 0, .step 0, .step 0]

theorem solo_code_run (cfg : Cfg) (hl : cfg.gad = .locked) (hx : cfg.ext .code = false) (r : BurnReq) (hk : r.kind = .code)
    (hfg : r.failGet = false) (hfd : r.failDel = false) (st : Store) (now : Nat) :
    let w := run cfg soloSched { store := st, now := now, lock := none, ths := [.burn r .start 0] }
    (w.ths[0]?.bind Thread.outcome) = some (soloOutcome cfg st now r).1 ∧ w.store = (soloOutcome cfg st now r).2 ∧ w.lock = none := by
  cases hpre : r.pre with
  | false =>
    simp [run, soloSched, applyEv, stepW, stepThread, stepBurn, soloOutcome, hpre, Thread.outcome, hfd]
  | true =>
    cases hget : stGet cfg.expInclusive st now r.key with
    | none =>
      simp [run, soloSched, applyEv, stepW, stepThread, stepBurn, soloOutcome, hpre, hget, Thread.outcome, Cfg.gadLocks, hl,
        afterGad, verdict, finishBurn, hk, hx, unlock, hfg, hfd]
    | some v =>
      simp [run, soloSched, applyEv, stepW, stepThread, stepBurn, soloOutcome, hpre, hget, Thread.outcome, Cfg.gadLocks, hl,
        afterGad, finishBurn, hk, hx, unlock, hfg, hfd]


theorem codeOutcome_ok : codeOutcome .ok = some .ok := by decide
theorem codeOutcome_e1 : codeOutcome (errAt Facts.C05.errs_handleAccessTokenRequest 1) = some .missingParam := by decide
theorem codeOutcome_e2 : codeOutcome (errAt Facts.C05.errs_handleAccessTokenRequest 2) = some .missingParam := by decide
theorem codeOutcome_e3 : codeOutcome (errAt Facts.C05.errs_handleAccessTokenRequest 3) = some .notFound := by decide
theorem codeOutcome_e4 : codeOutcome (errAt Facts.C05.errs_handleAccessTokenRequest 4) = some .mismatch := by decide
theorem codeOutcome_e5 : codeOutcome (errAt Facts.C05.errs_handleAccessTokenRequest 5) = some .postCheck := by decide
theorem codeOutcome_dpop : codeOutcome (errAt Facts.C05.errs_dpopFromRequest 0) = some .postCheck := by decide

/-- the code handler, statement by statement, computes what its thread computes when it runs alone -/
theorem handleCode_eq_solo (cfg : Cfg) (ttl : Kind → Nat) (pk : Pkce) (now : Nat) (st : Store) (f : TokenForm) (r : BurnReq)
    (hr : f.toBurn pk = some r) :
    codeOutcome (handleCode ⟨cfg.expInclusive, now, ttl⟩ pk st f).1 = some (soloOutcome cfg st now r).1 ∧
    (handleCode ⟨cfg.expInclusive, now, ttl⟩ pk st f).2 = (soloOutcome cfg st now r).2 := by
  unfold TokenForm.toBurn at hr
  cases hc : f.code with
  | none => simp [hc] at hr
  | some code =>
    simp only [hc, Option.some.injEq] at hr
    subst hr
    unfold handleCode soloOutcome
    simp only [hc, BurnReq.key]
    cases hv : f.codeVerifier with
    | none => simp [codeOutcome_e1, codeKey]
    | some ver =>
      cases hi : f.clientId with
      | none => simp [codeOutcome_e2, codeKey]
      | some cid =>
        simp only [Option.isSome_some, Bool.and_self, Bool.not_true, Bool.false_eq_true, if_false, Option.getD_some]
        unfold gadSeq
        simp only [codeKey]
        cases hg : stGet cfg.expInclusive st now ⟨.burn .code, code⟩ with
        | none => simp [codeOutcome_e3]
        | some v =>
          simp only [verdict]
          by_cases hm : v = cid
          · subst hm
            cases hp : validatePKCE pk ver with
            | false => simp [codeOutcome_e5]
            | true =>
              cases hd : f.dpop with
              | bad => simp [dpopCheck, codeOutcome_dpop]
              | absent => simp [dpopCheck, codeOutcome_ok]
              | good => simp [dpopCheck, codeOutcome_ok]
          · simp [hm, codeOutcome_e4]

theorem stGet_put_ne (incl : Bool) (s : Store) (now : Nat) (k k' : Key) (e : Entry) (hk : k ≠ k') :
    stGet incl (stPut s k' e) now k = stGet incl s now k := by
  unfold stGet; rw [stFind_put_ne s k' k e hk]

theorem stGet_put_self (incl : Bool) (s : Store) (now : Nat) (k : Key) (e : Entry) (h : now < e.exp) :
    stGet incl (stPut s k e) now k = some e.val := by
  unfold stGet; rw [stFind_put_self]; simp [alive, h]

theorem s2sKey_inj (a b : String) (h : s2sKey a = s2sKey b) : a = b := by
  simp [s2sKey] at h; exact h

/-- a registered nonce stays registered through the loop -/
theorem s2sLoop_keeps_marked (c : Sq) (ns : List String) (k : Key) :
    ∀ st, stGet c.incl st c.now k ≠ none → stGet c.incl (s2sLoop c st ns).2 c.now k ≠ none := by
  induction ns with
  | nil => intro st h; simpa [s2sLoop] using h
  | cons n rest ih =>
    intro st h
    unfold s2sLoop
    by_cases hn : n = ""
    · simp [hn, h]
    · simp only [hn, if_false]
      unfold pifSeq
      cases hg : stGet c.incl st c.now (s2sKey n) with
      | some v => simpa using h
      | none =>
        simp only
        apply ih
        have hne : k ≠ s2sKey n := by intro he; rw [he] at h; exact h hg
        rw [stGet_put_ne _ _ _ _ _ _ hne]; exact h

/-- an envelope is accepted only if its nonces are pairwise different, all present, all unused — and then all are registered -/
theorem s2sLoop_ok (c : Sq) (httl : 0 < c.ttl (.mark .s2s)) (ns : List String) :
    ∀ st, (s2sLoop c st ns).1 = .ok →
      ns.Nodup ∧ (∀ n ∈ ns, n ≠ "" ∧ stGet c.incl st c.now (s2sKey n) = none) ∧
      (∀ n ∈ ns, stGet c.incl (s2sLoop c st ns).2 c.now (s2sKey n) ≠ none) := by
  induction ns with
  | nil => intro st _; simp
  | cons n rest ih =>
    intro st h
    unfold s2sLoop at h ⊢
    by_cases hn : n = ""
    · simp [hn, errAt_ne_ok] at h
    · simp only [hn, if_false] at h ⊢
      unfold pifSeq at h ⊢
      cases hg : stGet c.incl st c.now (s2sKey n) with
      | some v => simp [hg, errAt_ne_ok] at h
      | none =>
        simp only [hg] at h ⊢
        have hput : stGet c.incl (stPut st (s2sKey n) ⟨markVal .s2s, c.now + c.ttl (s2sKey n).ns⟩) c.now (s2sKey n) ≠ none := by
          rw [stGet_put_self]; · simp
          show c.now < c.now + c.ttl (.mark .s2s); omega
        obtain ⟨hnd, hfresh, hmarked⟩ := ih _ h
        have hnotin : n ∉ rest := by
          intro hin
          exact hput (hfresh n hin).2
        refine ⟨List.nodup_cons.mpr ⟨hnotin, hnd⟩, ?_, ?_⟩
        · intro m hm
          cases List.mem_cons.mp hm with
          | inl he => subst he; exact ⟨hn, hg⟩
          | inr hr =>
            have hmn : s2sKey m ≠ s2sKey n := by
              intro he; exact hnotin (s2sKey_inj _ _ he ▸ hr)
            have := (hfresh m hr).2
            rw [stGet_put_ne _ _ _ _ _ _ hmn] at this
            exact ⟨(hfresh m hr).1, this⟩
        · intro m hm
          cases List.mem_cons.mp hm with
          | inl he => subst he; exact s2sLoop_keeps_marked c rest _ _ hput
          | inr hr => exact hmarked m hr

/-- an envelope that contains a registered nonce is refused -/
theorem s2sLoop_refuses_used (c : Sq) (ns : List String) (n : String) (hn : n ∈ ns) :
    ∀ st, stGet c.incl st c.now (s2sKey n) ≠ none → (s2sLoop c st ns).1 ≠ .ok := by
  induction ns with
  | nil => cases hn
  | cons m rest ih =>
    intro st h
    unfold s2sLoop
    by_cases hm : m = ""
    · simp [hm, errAt_ne_ok]
    · simp only [hm, if_false]
      unfold pifSeq
      cases hg : stGet c.incl st c.now (s2sKey m) with
      | some v => simp [errAt_ne_ok]
      | none =>
        simp only
        cases List.mem_cons.mp hn with
        | inl he => subst he; exact absurd hg h
        | inr hr =>
          apply ih hr
          have hne : s2sKey n ≠ s2sKey m := by intro he; rw [he] at h; exact h hg
          rw [stGet_put_ne _ _ _ _ _ _ hne]; exact h

theorem alive_of_lt (incl : Bool) (now exp : Nat) (h : now < exp) : alive incl now exp = true := by
  simp [alive, h]

theorem stGet_of_find_live (incl : Bool) (s : Store) (now : Nat) (k : Key) (e : Entry) (hf : stFind s k = some e) (h : now < e.exp) :
    stGet incl s now k = some e.val := by
  unfold stGet; simp [hf, alive_of_lt incl now e.exp h]

/-- a live registration is not touched by the nonce loop (a hit stores nothing; other nonces are other keys) -/
theorem s2sLoop_keeps_find_live (c : Sq) (ns : List String) (k : Key) (e : Entry) (hl : c.now < e.exp) :
    ∀ st, stFind st k = some e → stFind (s2sLoop c st ns).2 k = some e := by
  induction ns with
  | nil => intro st h; simpa [s2sLoop] using h
  | cons n rest ih =>
    intro st h
    unfold s2sLoop
    by_cases hn : n = ""
    · simp [hn, h]
    · simp only [hn, if_false]
      unfold pifSeq
      cases hg : stGet c.incl st c.now (s2sKey n) with
      | some v => simpa using h
      | none =>
        simp only
        apply ih
        have hne : k ≠ s2sKey n := by
          intro he; rw [he] at h; rw [stGet_of_find_live c.incl st c.now _ e h hl] at hg; cases hg
        rw [stFind_put_ne _ _ _ _ hne]; exact h

theorem handleS2S_snd (c : Sq) (st : Store) (f : TokenForm) (ns : List String) : (handleS2S c st f ns).2 = (s2sLoop c st ns).2 := by
  unfold handleS2S
  cases hl : s2sLoop c st ns with
  | mk a st1 =>
    cases a with
    | ok => simp only; split <;> rfl
    | err _ _ => rfl
    | panic _ => rfl

theorem gadSeq_keeps_find (c : Sq) (st : Store) (k k' : Key) (hne : k ≠ k') : stFind (gadSeq c st k').2 k = stFind st k := by
  unfold gadSeq
  cases stGet c.incl st c.now k' with
  | none => rfl
  | some v => simp [stFind_erase_ne _ _ _ hne]

theorem handleCode_keeps_find (c : Sq) (pk : Pkce) (st : Store) (f : TokenForm) (k : Key) (hk : k.ns ≠ .burn .code) :
    stFind (handleCode c pk st f).2 k = stFind st k := by
  have hne : ∀ code, k ≠ codeKey code := by intro code he; rw [he] at hk; exact hk rfl
  unfold handleCode
  cases hc : f.code with
  | none => rfl
  | some code =>
    cases hv : f.codeVerifier with
    | none => simp [stFind_erase_ne _ _ _ (hne code)]
    | some ver =>
      cases hi : f.clientId with
      | none => simp [stFind_erase_ne _ _ _ (hne code)]
      | some cid =>
        have h2 := gadSeq_keeps_find c st k (codeKey code) (hne code)
        cases hg : gadSeq c st (codeKey code) with
        | mk o st1 =>
          rw [hg] at h2
          simp only at h2
          simp only [hg]
          cases o with
          | none => simp [stFind_erase_ne _ _ _ (hne code), h2]
          | some v =>
            simp only
            split
            · simp [stFind_erase_ne _ _ _ (hne code), h2]
            · split
              · simp [stFind_erase_ne _ _ _ (hne code), h2]
              · split <;> simp [stFind_erase_ne _ _ _ (hne code), h2]

theorem burnAll_keeps_find (ns : List String) (k : Key) (hk : k.ns ≠ .burn .vpNonce) :
    ∀ st, stFind (burnAll st ns) k = stFind st k := by
  induction ns with
  | nil => intro st; rfl
  | cons n rest ih =>
    intro st
    simp only [burnAll, List.foldl_cons]
    have hne : k ≠ vpKey n := by intro he; rw [he] at hk; exact hk rfl
    have := ih (stErase st (vpKey n))
    simp only [burnAll] at this
    rw [this, stFind_erase_ne _ _ _ hne]

theorem validateNonce_keeps_find (c : Sq) (st : Store) (ps : List Pres) (state : String) (k : Key) (hk : k.ns ≠ .burn .vpNonce) :
    stFind (validateNonce c st ps state).2 k = stFind st k := by
  unfold validateNonce
  simp only
  by_cases he : nonceErrs (collect ps) > 0
  · simp only [he, if_true]; exact burnAll_keeps_find _ k hk st
  · simp only [he, if_false]
    cases hn : (collect ps).nonces with
    | nil => rfl
    | cons n rest =>
      simp only
      have hne : k ≠ vpKey n := by intro he; rw [he] at hk; exact hk rfl
      have h2 := gadSeq_keeps_find c st k (vpKey n) hne
      cases hg : gadSeq c st (vpKey n) with
      | mk o st1 =>
        rw [hg] at h2
        cases o with
        | none => simpa using h2
        | some s => simp only; split <;> simpa using h2

/-- no request of either endpoint removes or replaces a live registration of an s2s nonce -/
theorem handleForm_keeps_find_live (c : Sq) (pk : Pkce) (st : Store) (f : Form) (n : String) (e : Entry) (hl : c.now < e.exp)
    (h : stFind st (s2sKey n) = some e) : stFind (handleForm c pk st f).2 (s2sKey n) = some e := by
  have hk1 : (s2sKey n).ns ≠ .burn .code := by simp [s2sKey]
  have hk2 : (s2sKey n).ns ≠ .burn .vpNonce := by simp [s2sKey]
  cases f with
  | token t =>
    simp only [handleForm]
    unfold handleToken
    simp only
    split
    · rw [handleCode_keeps_find c pk st t _ hk1]; exact h
    · split
      · cases t.assertion with
        | none => simpa using h
        | some ns =>
          simp only
          split
          · simpa using h
          · rw [handleS2S_snd]; exact s2sLoop_keeps_find_live c ns _ e hl st h
      · split <;> simpa using h
  | response r =>
    simp only [handleForm]
    unfold handleResponse
    simp only
    cases r.state with
    | none => simpa using h
    | some state =>
      cases r.vpToken with
      | none => simpa using h
      | some ps =>
        cases ps with
        | nil => simpa using h
        | cons p ps =>
          simp only
          split
          · simpa using h
          · split
            · simpa using h
            · rw [validateNonce_keeps_find c st (p :: ps) state _ hk2]; exact h
  | reqObj r =>
    simp only [handleForm]
    rw [handleReqObj_snd, gadSeq_keeps_find c st _ _ (by simp [s2sKey, reqObjKey])]; exact h
  | landing t =>
    simp only [handleForm]
    by_cases ht : t = ""
    · unfold handleLanding; simp [ht, h]
    · rw [handleLanding_snd c st t ht, gadSeq_keeps_find c st _ _ (by simp [s2sKey, redirectKey])]; exact h
  | dpop r =>
    simp only [handleForm]
    unfold handleDpop
    split
    · simpa using h
    · split
      · simpa using h
      · split
        · simpa using h
        · split
          · simpa using h
          · unfold pifSeq
            cases hg : stGet c.incl st c.now (jtiKey r.jti) with
            | some v => simpa using h
            | none =>
              simp only
              rw [stFind_put_ne _ _ _ _ (by simp [s2sKey, jtiKey])]; exact h

theorem runForms_time_ge (incl : Bool) (ttl : Kind → Nat) (pk : Pkce) (fs : List (Nat × Form)) :
    ∀ now st, now ≤ (runForms incl ttl pk now st fs).2.2 := by
  induction fs with
  | nil => intro now st; simp [runForms]
  | cons x rest ih =>
    intro now st
    obtain ⟨dt, f⟩ := x
    simp only [runForms]
    have := ih (now + dt) (handleForm ⟨incl, now + dt, ttl⟩ pk st f).2
    omega

/-- a registration outlives any sequence of requests that ends before its expiry -/
theorem runForms_keeps_find_live (incl : Bool) (ttl : Kind → Nat) (pk : Pkce) (n : String) (e : Entry) (fs : List (Nat × Form)) :
    ∀ now st, stFind st (s2sKey n) = some e → (runForms incl ttl pk now st fs).2.2 < e.exp →
      stFind (runForms incl ttl pk now st fs).2.1 (s2sKey n) = some e := by
  induction fs with
  | nil => intro now st h _; simpa [runForms] using h
  | cons x rest ih =>
    intro now st h hend
    obtain ⟨dt, f⟩ := x
    simp only [runForms] at hend ⊢
    have hge := runForms_time_ge incl ttl pk rest (now + dt) (handleForm ⟨incl, now + dt, ttl⟩ pk st f).2
    apply ih _ _ _ hend
    exact handleForm_keeps_find_live ⟨incl, now + dt, ttl⟩ pk st f n e (by show now + dt < e.exp; omega) h

/-- an accepted envelope registers each of its nonces until now + ttl -/
theorem s2sLoop_ok_find (c : Sq) (httl : 0 < c.ttl (.mark .s2s)) (ns : List String) :
    ∀ st, (s2sLoop c st ns).1 = .ok → ∀ n ∈ ns, ∃ e, stFind (s2sLoop c st ns).2 (s2sKey n) = some e ∧ e.exp = c.now + c.ttl (.mark .s2s) := by
  induction ns with
  | nil => intro st _ n hn; cases hn
  | cons m rest ih =>
    intro st h n hn
    unfold s2sLoop at h ⊢
    by_cases hm : m = ""
    · simp [hm, errAt_ne_ok] at h
    · simp only [hm, if_false] at h ⊢
      unfold pifSeq at h ⊢
      cases hg : stGet c.incl st c.now (s2sKey m) with
      | some v => simp [hg, errAt_ne_ok] at h
      | none =>
        simp only [hg] at h ⊢
        cases List.mem_cons.mp hn with
        | inl he =>
          subst he
          refine ⟨⟨markVal .s2s, c.now + c.ttl (.mark .s2s)⟩, ?_, rfl⟩
          apply s2sLoop_keeps_find_live c rest _ _ (by show c.now < c.now + c.ttl (.mark .s2s); omega)
          exact stFind_put_self _ _ _
        | inr hr => exact ih _ h n hr

theorem nonceStep_mono (a : NAcc) (p : Pres) (x : String) (h : x ∈ a.nonces) : x ∈ (nonceStep a p).nonces := by
  unfold nonceStep
  simp only
  split
  · exact List.mem_append_left _ h
  · exact h

theorem foldl_nonceStep_mono (ps : List Pres) : ∀ (a : NAcc) (x : String), x ∈ a.nonces → x ∈ (ps.foldl nonceStep a).nonces := by
  induction ps with
  | nil => intro a x h; exact h
  | cons p rest ih => intro a x h; exact ih _ x (nonceStep_mono a p x h)

theorem nonceStep_adds (a : NAcc) (p : Pres) (h : presNonce p ≠ "") : presNonce p ∈ (nonceStep a p).nonces := by
  unfold nonceStep
  simp only
  by_cases hc : a.nonces.contains (presNonce p) = true
  · simp only [hc, Bool.not_true, Bool.and_false, Bool.false_eq_true, if_false]
    exact List.contains_iff_mem.mp hc
  · simp only [Bool.not_eq_true] at hc
    simp only [hc, Bool.not_false, Bool.and_true, bne_iff_ne, ne_eq, h, not_false_eq_true, if_true]
    exact List.mem_append_right _ (List.mem_singleton.mpr rfl)

/-- every nonce a presentation carries is collected -/
theorem foldl_nonceStep_collects (ps : List Pres) : ∀ (a : NAcc) (p : Pres), p ∈ ps → presNonce p ≠ "" →
    presNonce p ∈ (ps.foldl nonceStep a).nonces := by
  induction ps with
  | nil => intro a p hp; cases hp
  | cons q rest ih =>
    intro a p hp hne
    simp only [List.foldl_cons]
    cases List.mem_cons.mp hp with
    | inl he => subst he; exact foldl_nonceStep_mono rest _ _ (nonceStep_adds a p hne)
    | inr hr => exact ih _ p hr hne

/-- `allPresent` survives the loop only if every presentation carries a nonce -/
theorem foldl_nonceStep_allPresent (ps : List Pres) : ∀ (a : NAcc), (ps.foldl nonceStep a).allPresent = true →
    a.allPresent = true ∧ ∀ p ∈ ps, presNonce p ≠ "" := by
  induction ps with
  | nil => intro a h; exact ⟨h, by intro p hp; cases hp⟩
  | cons q rest ih =>
    intro a h
    simp only [List.foldl_cons] at h
    obtain ⟨h1, h2⟩ := ih _ h
    unfold nonceStep at h1
    simp only [Bool.and_eq_true, bne_iff_ne, ne_eq] at h1
    refine ⟨h1.1, ?_⟩
    intro p hp
    cases List.mem_cons.mp hp with
    | inl he => subst he; exact h1.2
    | inr hr => exact h2 p hr

/-- the nonce check passes only if ALL presentations carry one and the same nonce, that nonce is stored, and it is stored for
    the state of this response -/
theorem validateNonce_ok (c : Sq) (st : Store) (ps : List Pres) (state : String) (h : (validateNonce c st ps state).1 = .ok) :
    ∃ n, n ≠ "" ∧ (∀ p ∈ ps, presNonce p = n) ∧ stGet c.incl st c.now (vpKey n) = some state := by
  unfold validateNonce at h
  simp only at h
  by_cases he : nonceErrs (collect ps) > 0
  · simp [he, errAt_ne_ok] at h
  · simp only [he, if_false] at h
    have hle := nonces_le_one _ he
    have hall : (collect ps).allPresent = true := by
      unfold nonceErrs at he
      cases hp : (collect ps).allPresent with
      | true => rfl
      | false => simp [hp] at he
    cases hc : (collect ps).nonces with
    | nil => simp [hc] at h
    | cons n rest =>
      rw [hc] at hle
      have hrest : rest = [] := by
        cases rest with
        | nil => rfl
        | cons x xs => simp at hle
      subst hrest
      simp only [hc] at h
      unfold gadSeq at h
      cases hg : stGet c.incl st c.now (vpKey n) with
      | none => simp [hg, errAt_ne_ok] at h
      | some s =>
        simp only [hg] at h
        by_cases hs : state = s
        · subst hs
          have hpres := (foldl_nonceStep_allPresent ps ⟨true, [], 0⟩ hall).2
          have hmem : ∀ p ∈ ps, presNonce p = n := by
            intro p hp
            have := foldl_nonceStep_collects ps ⟨true, [], 0⟩ p hp (hpres p hp)
            unfold collect at hc
            rw [hc] at this
            simpa using this
          refine ⟨n, ?_, hmem, hg⟩
          cases ps with
          | nil => simp [collect] at hc
          | cons p0 _ => rw [← hmem p0 (List.mem_cons_self ..)]; exact hpres p0 (List.mem_cons_self ..)
        · simp [hs, errAt_ne_ok] at h

theorem handleReqObj_kills (c : Sq) (st : Store) (r : ReqObjFetch) : stGet c.incl (handleReqObj c st r).2 c.now (reqObjKey r.id) = none := by
  rw [handleReqObj_snd]; exact gadSeq_dead c st _

theorem handleReqObj_not_ok_of_dead (c : Sq) (st : Store) (r : ReqObjFetch) (hd : stGet c.incl st c.now (reqObjKey r.id) = none) :
    (handleReqObj c st r).1 ≠ .ok := by
  unfold handleReqObj
  have h1 := gadSeq_none_of_dead c st _ hd
  cases hg : gadSeq c st (reqObjKey r.id) with
  | mk o st1 =>
    rw [hg] at h1
    simp only at h1
    subst h1
    simp [errAt_ne_ok]

theorem handleLanding_kills (c : Sq) (st : Store) (t : String) (ht : t ≠ "") : stGet c.incl (handleLanding c st t).2 c.now (redirectKey t) = none := by
  rw [handleLanding_snd c st t ht]; exact gadSeq_dead c st _

theorem handleLanding_not_ok_of_dead (c : Sq) (st : Store) (t : String) (hd : stGet c.incl st c.now (redirectKey t) = none) :
    (handleLanding c st t).1 ≠ .ok := by
  unfold handleLanding
  by_cases ht : t = ""
  · simp [ht]
  · simp only [ht, if_false]
    have h1 := gadSeq_none_of_dead c st _ hd
    cases hg : gadSeq c st (redirectKey t) with
    | mk o st1 =>
      rw [hg] at h1
      simp only at h1
      subst h1
      simp

/-- a proof that is not accepted registers nothing -/
theorem handleDpop_unchanged_on_refusal (c : Sq) (st : Store) (r : DpopReq) (h : (handleDpop c st r).1 ≠ .ok) : (handleDpop c st r).2 = st := by
  unfold handleDpop at h ⊢
  split
  · rfl
  · split
    · rfl
    · split
      · rfl
      · split
        · rfl
        · rename_i h1 h2 h3 h4
          simp only [h1, h2, h3, h4, if_false] at h
          unfold pifSeq at h ⊢
          cases hg : stGet c.incl st c.now (jtiKey r.jti) with
          | some v => rfl
          | none => simp [hg] at h

/-- an accepted proof registers its jti until now + ttl; a proof with the same jti inside that time is refused -/
theorem handleDpop_replay_refused (c : Sq) (st : Store) (r r2 : DpopReq) (hj : r2.jti = r.jti) (hok : (handleDpop c st r).1 = .ok)
    (dt : Nat) (hdt : dt < c.ttl (.mark .jti)) :
    (handleDpop { c with now := c.now + dt } (handleDpop c st r).2 r2).1 ≠ .ok := by
  have hst : (handleDpop c st r).2 = stPut st (jtiKey r.jti) ⟨markVal .jti, c.now + c.ttl (.mark .jti)⟩ := by
    unfold handleDpop at hok ⊢
    split
    · rename_i h; simp [h] at hok
    · split
      · rename_i h1 h; simp [h1, h] at hok
      · split
        · rename_i h1 h2 h; simp [h1, h2, h] at hok
        · split
          · rename_i h1 h2 h3 h; simp [h1, h2, h3, h] at hok
          · rename_i h1 h2 h3 h4
            simp only [h1, h2, h3, h4, if_false] at hok
            unfold pifSeq at hok ⊢
            cases hg : stGet c.incl st c.now (jtiKey r.jti) with
            | some v => simp [hg] at hok
            | none => rfl
  rw [hst]
  have hlive : stGet c.incl (stPut st (jtiKey r.jti) ⟨markVal .jti, c.now + c.ttl (.mark .jti)⟩) (c.now + dt) (jtiKey r.jti) = some (markVal .jti) := by
    apply stGet_put_self; show c.now + dt < c.now + c.ttl (.mark .jti); omega
  unfold handleDpop
  split
  · simp
  · split
    · simp
    · split
      · simp
      · split
        · simp
        · unfold pifSeq
          simp only [hj, hlive]
          simp

theorem s2sLoop_keeps_find_ne (c : Sq) (ns : List String) (k : Key) (hk : k.ns ≠ .mark .s2s) :
    ∀ st, stFind (s2sLoop c st ns).2 k = stFind st k := by
  induction ns with
  | nil => intro st; rfl
  | cons n rest ih =>
    intro st
    unfold s2sLoop
    by_cases hn : n = ""
    · simp [hn]
    · simp only [hn, if_false]
      unfold pifSeq
      cases hg : stGet c.incl st c.now (s2sKey n) with
      | some v => rfl
      | none =>
        simp only
        rw [ih]
        exact stFind_put_ne _ _ _ _ (by intro he; rw [he] at hk; exact hk rfl)

theorem jtiKey_inj (a b : String) (h : jtiKey a = jtiKey b) : a = b := by
  simp [jtiKey] at h; exact h

/-- no request of any endpoint removes or replaces a live registration of a DPoP jti -/
theorem handleForm_keeps_jti_live (c : Sq) (pk : Pkce) (st : Store) (f : Form) (j : String) (e : Entry) (hl : c.now < e.exp)
    (h : stFind st (jtiKey j) = some e) : stFind (handleForm c pk st f).2 (jtiKey j) = some e := by
  have hk1 : (jtiKey j).ns ≠ .burn .code := by simp [jtiKey]
  have hk2 : (jtiKey j).ns ≠ .burn .vpNonce := by simp [jtiKey]
  have hk3 : (jtiKey j).ns ≠ .mark .s2s := by simp [jtiKey]
  cases f with
  | token t =>
    simp only [handleForm]
    unfold handleToken
    simp only
    split
    · rw [handleCode_keeps_find c pk st t _ hk1]; exact h
    · split
      · cases t.assertion with
        | none => simpa using h
        | some ns =>
          simp only
          split
          · simpa using h
          · rw [handleS2S_snd, s2sLoop_keeps_find_ne c ns _ hk3]; exact h
      · split <;> simpa using h
  | response r =>
    simp only [handleForm]
    unfold handleResponse
    simp only
    cases r.state with
    | none => simpa using h
    | some state =>
      cases r.vpToken with
      | none => simpa using h
      | some ps =>
        cases ps with
        | nil => simpa using h
        | cons p ps =>
          simp only
          split
          · simpa using h
          · split
            · simpa using h
            · rw [validateNonce_keeps_find c st (p :: ps) state _ hk2]; exact h
  | reqObj r =>
    simp only [handleForm]
    rw [handleReqObj_snd, gadSeq_keeps_find c st _ _ (by simp [jtiKey, reqObjKey])]; exact h
  | landing t =>
    simp only [handleForm]
    by_cases ht : t = ""
    · unfold handleLanding; simp [ht, h]
    · rw [handleLanding_snd c st t ht, gadSeq_keeps_find c st _ _ (by simp [jtiKey, redirectKey])]; exact h
  | dpop r =>
    simp only [handleForm]
    unfold handleDpop
    split
    · simpa using h
    · split
      · simpa using h
      · split
        · simpa using h
        · split
          · simpa using h
          · unfold pifSeq
            cases hg : stGet c.incl st c.now (jtiKey r.jti) with
            | some v => simpa using h
            | none =>
              simp only
              have hne : jtiKey j ≠ jtiKey r.jti := by
                intro he; rw [he] at h; rw [stGet_of_find_live c.incl st c.now _ e h hl] at hg; cases hg
              rw [stFind_put_ne _ _ _ _ hne]; exact h

theorem runForms_keeps_jti_live (incl : Bool) (ttl : Kind → Nat) (pk : Pkce) (j : String) (e : Entry) (fs : List (Nat × Form)) :
    ∀ now st, stFind st (jtiKey j) = some e → (runForms incl ttl pk now st fs).2.2 < e.exp →
      stFind (runForms incl ttl pk now st fs).2.1 (jtiKey j) = some e := by
  induction fs with
  | nil => intro now st h _; simpa [runForms] using h
  | cons x rest ih =>
    intro now st h hend
    obtain ⟨dt, f⟩ := x
    simp only [runForms] at hend ⊢
    have hge := runForms_time_ge incl ttl pk rest (now + dt) (handleForm ⟨incl, now + dt, ttl⟩ pk st f).2
    apply ih _ _ _ hend
    exact handleForm_keeps_jti_live ⟨incl, now + dt, ttl⟩ pk st f j e (by show now + dt < e.exp; omega) h

/-- an accepted proof registers its jti until now + ttl -/
theorem handleDpop_ok_find (c : Sq) (st : Store) (r : DpopReq) (hok : (handleDpop c st r).1 = .ok) :
    stFind (handleDpop c st r).2 (jtiKey r.jti) = some ⟨markVal .jti, c.now + c.ttl (.mark .jti)⟩ := by
  unfold handleDpop at hok ⊢
  split
  · rename_i h; simp [h] at hok
  · split
    · rename_i h1 h; simp [h1, h] at hok
    · split
      · rename_i h1 h2 h; simp [h1, h2, h] at hok
      · split
        · rename_i h1 h2 h3 h; simp [h1, h2, h3, h] at hok
        · rename_i h1 h2 h3 h4
          simp only [h1, h2, h3, h4, if_false] at hok
          unfold pifSeq at hok ⊢
          cases hg : stGet c.incl st c.now (jtiKey r.jti) with
          | some v => simp [hg] at hok
          | none => exact stFind_put_self _ _ _

/-- a proof whose jti is registered and alive is refused -/
theorem handleDpop_refuses_used (c : Sq) (st : Store) (r : DpopReq) (h : stGet c.incl st c.now (jtiKey r.jti) ≠ none) :
    (handleDpop c st r).1 ≠ .ok := by
  unfold handleDpop
  split
  · simp
  · split
    · simp
    · split
      · simp
      · split
        · simp
        · unfold pifSeq
          cases hg : stGet c.incl st c.now (jtiKey r.jti) with
          | some v => simp
          | none => exact absurd hg h

end Nuts.C05
