/-
  C05, request-level layer: helper lemmas (deadness of a one-time key is kept by every handler and by time passing).
-/
import NutsModel.C05.Forms
import NutsProofs.Lemmas.C05

namespace Nuts.C05

theorem errAt_ne_ok (l : List (String × String)) (i : Nat) : errAt l i ≠ .ok := by
  unfold errAt
  split
  · split <;> simp
  · simp

/-- a key that cannot be read stays unreadable when any key is erased -/
theorem stGet_none_erase (incl : Bool) (s : Store) (now : Nat) (k k' : Key) (h : stGet incl s now k = none) :
    stGet incl (stErase s k') now k = none := by
  by_cases hk : k = k'
  · subst hk; exact stGet_none_of_find_none incl _ now k (stFind_erase_self s k)
  · unfold stGet at *; rw [stFind_erase_ne s k' k hk]; exact h

theorem stGet_erase_self (incl : Bool) (s : Store) (now : Nat) (k : Key) : stGet incl (stErase s k) now k = none :=
  stGet_none_of_find_none incl _ now k (stFind_erase_self s k)

theorem stGet_none_put_ne (incl : Bool) (s : Store) (now : Nat) (k k' : Key) (e : Entry) (hk : k ≠ k')
    (h : stGet incl s now k = none) : stGet incl (stPut s k' e) now k = none := by
  unfold stGet at *; rw [stFind_put_ne s k' k e hk]; exact h

/-- time only kills -/
theorem stGet_none_later (incl : Bool) (s : Store) (now dt : Nat) (k : Key) (h : stGet incl s now k = none) :
    stGet incl s (now + dt) k = none := by
  unfold stGet at *
  cases hf : stFind s k with
  | none => simp
  | some e =>
    simp only [hf] at h ⊢
    cases ha : alive incl (now + dt) e.exp with
    | false => simp
    | true => have := alive_mono incl now dt e.exp ha; simp [this] at h

theorem gadSeq_dead (c : Sq) (st : Store) (k : Key) : stGet c.incl (gadSeq c st k).2 c.now k = none := by
  unfold gadSeq
  cases h : stGet c.incl st c.now k with
  | none => simpa using h
  | some v => simp [stGet_erase_self]

theorem gadSeq_keeps_dead (c : Sq) (st : Store) (k k' : Key) (h : stGet c.incl st c.now k = none) :
    stGet c.incl (gadSeq c st k').2 c.now k = none := by
  unfold gadSeq
  cases h' : stGet c.incl st c.now k' with
  | none => simpa using h
  | some v => simp [stGet_none_erase, h]

theorem gadSeq_none_of_dead (c : Sq) (st : Store) (k : Key) (h : stGet c.incl st c.now k = none) : (gadSeq c st k).1 = none := by
  unfold gadSeq; simp [h]


theorem handleCode_keeps_dead (c : Sq) (pk : Pkce) (st : Store) (f : TokenForm) (k : Key)
    (h : stGet c.incl st c.now k = none) : stGet c.incl (handleCode c pk st f).2 c.now k = none := by
  unfold handleCode
  cases hc : f.code with
  | none => simpa using h
  | some code =>
    cases hv : f.codeVerifier with
    | none => simp [stGet_none_erase, h]
    | some ver =>
      cases hi : f.clientId with
      | none => simp [stGet_none_erase, h]
      | some cid =>
        have h2 := gadSeq_keeps_dead c st k (codeKey code) h
        cases hg : gadSeq c st (codeKey code) with
        | mk o st1 =>
          rw [hg] at h2
          simp only at h2
          simp only [hg]
          cases o with
          | none => simp [stGet_none_erase, h2]
          | some v =>
            simp only
            split
            · simp [stGet_none_erase, h2]
            · split
              · simp [stGet_none_erase, h2]
              · split <;> simp [stGet_none_erase, h2]

theorem handleCode_kills (c : Sq) (pk : Pkce) (st : Store) (f : TokenForm) (code : String) (h : f.code = some code) :
    stGet c.incl (handleCode c pk st f).2 c.now (codeKey code) = none := by
  unfold handleCode
  simp only [h]
  cases hv : f.codeVerifier with
  | none => simp [stGet_erase_self]
  | some ver =>
    cases hi : f.clientId with
    | none => simp [stGet_erase_self]
    | some cid =>
      cases hg : gadSeq c st (codeKey code) with
      | mk o st1 =>
        simp only [hg]
        cases o with
        | none => simp [stGet_erase_self]
        | some v =>
          simp only
          split
          · simp [stGet_erase_self]
          · split
            · simp [stGet_erase_self]
            · split <;> simp [stGet_erase_self]

theorem handleCode_not_ok_of_dead (c : Sq) (pk : Pkce) (st : Store) (f : TokenForm) (code : String) (h : f.code = some code)
    (hd : stGet c.incl st c.now (codeKey code) = none) : (handleCode c pk st f).1 ≠ .ok := by
  unfold handleCode
  simp only [h]
  cases hv : f.codeVerifier with
  | none => simp [errAt_ne_ok]
  | some ver =>
    cases hi : f.clientId with
    | none => simp [errAt_ne_ok]
    | some cid =>
      have h1 := gadSeq_none_of_dead c st (codeKey code) hd
      cases hg : gadSeq c st (codeKey code) with
      | mk o st1 =>
        rw [hg] at h1
        simp only at h1
        subst h1
        simp [hg, errAt_ne_ok]

end Nuts.C05
