/-
  C05, request-level layer: helper lemmas (deadness of a one-time key is kept by every handler and by time passing).
-/
import NutsModel.C05.Forms
import NutsProofs.Lemmas.C05

namespace Nuts.C05

theorem errAt_ne_ok (l : List (String × String)) (i : Nat) : errAt l i ≠ .ok := by
  unfold errAt
  split
  · split <;> simp
  · simp

/-- a key that cannot be read stays unreadable when any key is erased -/
theorem stGet_none_erase (incl : Bool) (s : Store) (now : Nat) (k k' : Key) (h : stGet incl s now k = none) :
    stGet incl (stErase s k') now k = none := by
  by_cases hk : k = k'
  · subst hk; exact stGet_none_of_find_none incl _ now k (stFind_erase_self s k)
  · unfold stGet at *; rw [stFind_erase_ne s k' k hk]; exact h

theorem stGet_erase_self (incl : Bool) (s : Store) (now : Nat) (k : Key) : stGet incl (stErase s k) now k = none :=
  stGet_none_of_find_none incl _ now k (stFind_erase_self s k)

theorem stGet_none_put_ne (incl : Bool) (s : Store) (now : Nat) (k k' : Key) (e : Entry) (hk : k ≠ k')
    (h : stGet incl s now k = none) : stGet incl (stPut s k' e) now k = none := by
  unfold stGet at *; rw [stFind_put_ne s k' k e hk]; exact h

/-- time only kills -/
theorem stGet_none_later (incl : Bool) (s : Store) (now dt : Nat) (k : Key) (h : stGet incl s now k = none) :
    stGet incl s (now + dt) k = none := by
  unfold stGet at *
  cases hf : stFind s k with
  | none => simp
  | some e =>
    simp only [hf] at h ⊢
    cases ha : alive incl (now + dt) e.exp with
    | false => simp
    | true => have := alive_mono incl now dt e.exp ha; simp [this] at h

theorem gadSeq_dead (c : Sq) (st : Store) (k : Key) : stGet c.incl (gadSeq c st k).2 c.now k = none := by
  unfold gadSeq
  cases h : stGet c.incl st c.now k with
  | none => simpa using h
  | some v => simp [stGet_erase_self]

theorem gadSeq_keeps_dead (c : Sq) (st : Store) (k k' : Key) (h : stGet c.incl st c.now k = none) :
    stGet c.incl (gadSeq c st k').2 c.now k = none := by
  unfold gadSeq
  cases h' : stGet c.incl st c.now k' with
  | none => simpa using h
  | some v => simp [stGet_none_erase, h]

theorem gadSeq_none_of_dead (c : Sq) (st : Store) (k : Key) (h : stGet c.incl st c.now k = none) : (gadSeq c st k).1 = none := by
  unfold gadSeq; simp [h]


theorem handleCode_keeps_dead (c : Sq) (pk : Pkce) (st : Store) (f : TokenForm) (k : Key)
    (h : stGet c.incl st c.now k = none) : stGet c.incl (handleCode c pk st f).2 c.now k = none := by
  unfold handleCode
  cases hc : f.code with
  | none => simpa using h
  | some code =>
    cases hv : f.codeVerifier with
    | none => simp [stGet_none_erase, h]
    | some ver =>
      cases hi : f.clientId with
      | none => simp [stGet_none_erase, h]
      | some cid =>
        have h2 := gadSeq_keeps_dead c st k (codeKey code) h
        cases hg : gadSeq c st (codeKey code) with
        | mk o st1 =>
          rw [hg] at h2
          simp only at h2
          simp only [hg]
          cases o with
          | none => simp [stGet_none_erase, h2]
          | some v =>
            simp only
            split
            · simp [stGet_none_erase, h2]
            · split
              · simp [stGet_none_erase, h2]
              · split <;> simp [stGet_none_erase, h2]

theorem handleCode_kills (c : Sq) (pk : Pkce) (st : Store) (f : TokenForm) (code : String) (h : f.code = some code) :
    stGet c.incl (handleCode c pk st f).2 c.now (codeKey code) = none := by
  unfold handleCode
  simp only [h]
  cases hv : f.codeVerifier with
  | none => simp [stGet_erase_self]
  | some ver =>
    cases hi : f.clientId with
    | none => simp [stGet_erase_self]
    | some cid =>
      cases hg : gadSeq c st (codeKey code) with
      | mk o st1 =>
        simp only [hg]
        cases o with
        | none => simp [stGet_erase_self]
        | some v =>
          simp only
          split
          · simp [stGet_erase_self]
          · split
            · simp [stGet_erase_self]
            · split <;> simp [stGet_erase_self]

theorem handleCode_not_ok_of_dead (c : Sq) (pk : Pkce) (st : Store) (f : TokenForm) (code : String) (h : f.code = some code)
    (hd : stGet c.incl st c.now (codeKey code) = none) : (handleCode c pk st f).1 ≠ .ok := by
  unfold handleCode
  simp only [h]
  cases hv : f.codeVerifier with
  | none => simp [errAt_ne_ok]
  | some ver =>
    cases hi : f.clientId with
    | none => simp [errAt_ne_ok]
    | some cid =>
      have h1 := gadSeq_none_of_dead c st (codeKey code) hd
      cases hg : gadSeq c st (codeKey code) with
      | mk o st1 =>
        rw [hg] at h1
        simp only at h1
        subst h1
        simp [errAt_ne_ok]

theorem s2sLoop_keeps_dead (c : Sq) (ns : List String) (k : Key) (b : BurnKind) (hk : k.ns = .burn b) :
    ∀ st, stGet c.incl st c.now k = none → stGet c.incl (s2sLoop c st ns).2 c.now k = none := by
  induction ns with
  | nil => intro st h; simpa [s2sLoop] using h
  | cons n rest ih =>
    intro st h
    unfold s2sLoop
    by_cases hn : n = ""
    · simp [hn, h]
    · simp only [hn, if_false]
      unfold pifSeq
      cases hg : stGet c.incl st c.now (s2sKey n) with
      | some v => simpa using h
      | none =>
        simp only
        apply ih
        apply stGet_none_put_ne _ _ _ _ _ _ _ h
        intro he; rw [he] at hk; simp [s2sKey] at hk

theorem handleS2S_keeps_dead (c : Sq) (st : Store) (f : TokenForm) (ns : List String) (k : Key) (b : BurnKind) (hk : k.ns = .burn b)
    (h : stGet c.incl st c.now k = none) : stGet c.incl (handleS2S c st f ns).2 c.now k = none := by
  have h1 := s2sLoop_keeps_dead c ns k b hk st h
  unfold handleS2S
  cases hl : s2sLoop c st ns with
  | mk a st1 =>
    rw [hl] at h1
    cases a with
    | ok => simp only; split <;> simpa using h1
    | err _ _ => simpa using h1
    | panic _ => simpa using h1

theorem handleToken_keeps_dead (c : Sq) (pk : Pkce) (st : Store) (f : TokenForm) (k : Key) (b : BurnKind) (hk : k.ns = .burn b)
    (h : stGet c.incl st c.now k = none) : stGet c.incl (handleToken c pk st f).2 c.now k = none := by
  unfold handleToken
  simp only
  split
  · exact handleCode_keeps_dead c pk st f k h
  · split
    · cases f.assertion with
      | none => simpa using h
      | some ns =>
        simp only
        split
        · simpa using h
        · exact handleS2S_keeps_dead c st f ns k b hk h
    · split <;> simpa using h

theorem burnAll_keeps_dead (incl : Bool) (now : Nat) (ns : List String) (k : Key) :
    ∀ st, stGet incl st now k = none → stGet incl (burnAll st ns) now k = none := by
  induction ns with
  | nil => intro st h; simpa [burnAll] using h
  | cons n rest ih =>
    intro st h
    simp only [burnAll, List.foldl_cons]
    exact ih _ (stGet_none_erase incl st now k (vpKey n) h)

theorem burnAll_kills (incl : Bool) (now : Nat) (ns : List String) (n : String) (hn : n ∈ ns) :
    ∀ st, stGet incl (burnAll st ns) now (vpKey n) = none := by
  induction ns with
  | nil => cases hn
  | cons m rest ih =>
    intro st
    simp only [burnAll, List.foldl_cons]
    cases List.mem_cons.mp hn with
    | inl he => subst he; exact burnAll_keeps_dead incl now rest _ _ (stGet_erase_self incl st now _)
    | inr hr => exact ih hr _

theorem nonces_le_one (a : NAcc) (h : ¬ nonceErrs a > 0) : a.nonces.length ≤ 1 := by
  unfold nonceErrs at h
  by_cases hl : a.nonces.length > 1
  · simp [hl] at h
  · omega

theorem validateNonce_keeps_dead (c : Sq) (st : Store) (ps : List Pres) (state : String) (k : Key)
    (h : stGet c.incl st c.now k = none) : stGet c.incl (validateNonce c st ps state).2 c.now k = none := by
  unfold validateNonce
  simp only
  by_cases he : nonceErrs (collect ps) > 0
  · simp only [he, if_true]
    exact burnAll_keeps_dead c.incl c.now _ k st h
  · simp only [he, if_false]
    cases hn : (collect ps).nonces with
    | nil => simpa using h
    | cons n rest =>
      simp only
      have h2 := gadSeq_keeps_dead c st k (vpKey n) h
      cases hg : gadSeq c st (vpKey n) with
      | mk o st1 =>
        rw [hg] at h2
        cases o with
        | none => simpa using h2
        | some s => simp only; split <;> simpa using h2

/-- whatever validatePresentationNonce answers, every nonce any presentation named is unreadable afterwards -/
theorem validateNonce_kills (c : Sq) (st : Store) (ps : List Pres) (state : String) (n : String) (hn : n ∈ (collect ps).nonces) :
    stGet c.incl (validateNonce c st ps state).2 c.now (vpKey n) = none := by
  unfold validateNonce
  simp only
  by_cases he : nonceErrs (collect ps) > 0
  · simp only [he, if_true]
    exact burnAll_kills c.incl c.now _ n hn st
  · simp only [he, if_false]
    have hle := nonces_le_one _ he
    cases hc : (collect ps).nonces with
    | nil => rw [hc] at hn; cases hn
    | cons m rest =>
      rw [hc] at hn hle
      have hrest : rest = [] := by
        cases rest with
        | nil => rfl
        | cons x xs => simp at hle
      subst hrest
      have hm : n = m := by simpa using hn
      subst hm
      simp only
      have h2 := gadSeq_dead c st (vpKey n)
      cases hg : gadSeq c st (vpKey n) with
      | mk o st1 =>
        rw [hg] at h2
        cases o with
        | none => simpa using h2
        | some s => simp only; split <;> simpa using h2

/-- a response naming a nonce that cannot be read is refused -/
theorem validateNonce_not_ok_of_dead (c : Sq) (st : Store) (ps : List Pres) (state : String) (n : String) (hn : n ∈ (collect ps).nonces)
    (hd : stGet c.incl st c.now (vpKey n) = none) : (validateNonce c st ps state).1 ≠ .ok := by
  unfold validateNonce
  simp only
  by_cases he : nonceErrs (collect ps) > 0
  · simp only [he, if_true]
    exact errAt_ne_ok _ _
  · simp only [he, if_false]
    have hle := nonces_le_one _ he
    cases hc : (collect ps).nonces with
    | nil => rw [hc] at hn; cases hn
    | cons m rest =>
      rw [hc] at hn hle
      have hrest : rest = [] := by
        cases rest with
        | nil => rfl
        | cons x xs => simp at hle
      subst hrest
      have hm : n = m := by simpa using hn
      subst hm
      simp only
      have h1 := gadSeq_none_of_dead c st (vpKey n) hd
      cases hg : gadSeq c st (vpKey n) with
      | mk o st1 =>
        rw [hg] at h1
        simp only at h1
        subst h1
        simp [errAt_ne_ok]

theorem handleResponse_keeps_dead (c : Sq) (st : Store) (r : VpResponse) (k : Key)
    (h : stGet c.incl st c.now k = none) : stGet c.incl (handleResponse c st r).2 c.now k = none := by
  unfold handleResponse
  simp only
  cases r.state with
  | none => simpa using h
  | some state =>
    cases r.vpToken with
    | none => simpa using h
    | some ps =>
      cases ps with
      | nil => simpa using h
      | cons p ps =>
        simp only
        split
        · simpa using h
        · split
          · simpa using h
          · exact validateNonce_keeps_dead c st (p :: ps) state k h

theorem handleForm_keeps_dead (c : Sq) (pk : Pkce) (st : Store) (f : Form) (k : Key) (b : BurnKind) (hk : k.ns = .burn b)
    (h : stGet c.incl st c.now k = none) : stGet c.incl (handleForm c pk st f).2 c.now k = none := by
  cases f with
  | token t => exact handleToken_keeps_dead c pk st t k b hk h
  | response r => exact handleResponse_keeps_dead c st r k h

/-- a burn-on-use key that cannot be read stays unreadable through any sequence of requests, however much time passes -/
theorem runForms_keeps_dead (incl : Bool) (ttl : Kind → Nat) (pk : Pkce) (k : Key) (b : BurnKind) (hk : k.ns = .burn b)
    (fs : List (Nat × Form)) : ∀ (now : Nat) (st : Store), stGet incl st now k = none →
      stGet incl (runForms incl ttl pk now st fs).2.1 (runForms incl ttl pk now st fs).2.2 k = none := by
  induction fs with
  | nil => intro now st h; simpa [runForms] using h
  | cons x rest ih =>
    intro now st h
    obtain ⟨dt, f⟩ := x
    simp only [runForms]
    apply ih
    exact handleForm_keeps_dead ⟨incl, now + dt, ttl⟩ pk st f k b hk (stGet_none_later incl st now dt k h)

end Nuts.C05
