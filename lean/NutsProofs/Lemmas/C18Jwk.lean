/-
  C18 (deepening round 3) — lemmas on the base64 model of did:jwk (NutsModel/C18/DidJwk.lean)
-/
import NutsModel.C18.DidJwk

namespace Nuts.C18
open Nuts

theorem b64Chr_spec (n : Nat) (h : n < 64) :
    b64Chr n ≠ 10 ∧ b64Chr n ≠ 13 ∧ b64Val (b64Chr n) = some n := by
  unfold b64Chr
  split
  · refine ⟨by omega, by omega, ?_⟩
    unfold b64Val; rw [if_pos (by omega)]; congr 1 <;> omega
  · split
    · refine ⟨by omega, by omega, ?_⟩
      unfold b64Val; rw [if_neg (by omega), if_pos (by omega)]; congr 1 <;> omega
    · split
      · refine ⟨by omega, by omega, ?_⟩
        unfold b64Val; rw [if_neg (by omega), if_neg (by omega), if_pos (by omega)]; congr 1 <;> omega
      · split
        · subst_vars; decide
        · have : n = 63 := by omega
          subst this; decide

theorem b64Dec_step0 (rest : Bytes) (n : Nat) (hn : n < 64) :
    b64DecAux (b64Chr n :: rest) [] = b64DecAux rest [n] := by
  obtain ⟨h1, h2, h3⟩ := b64Chr_spec n hn
  rw [b64DecAux]; simp only [h1, h2, or_self, if_false, h3]; rfl

theorem b64Dec_step1 (rest : Bytes) (a n : Nat) (hn : n < 64) :
    b64DecAux (b64Chr n :: rest) [a] = b64DecAux rest [a, n] := by
  obtain ⟨h1, h2, h3⟩ := b64Chr_spec n hn
  rw [b64DecAux]; simp only [h1, h2, or_self, if_false, h3]; rfl

theorem b64Dec_step2 (rest : Bytes) (a b n : Nat) (hn : n < 64) :
    b64DecAux (b64Chr n :: rest) [a, b] = b64DecAux rest [a, b, n] := by
  obtain ⟨h1, h2, h3⟩ := b64Chr_spec n hn
  rw [b64DecAux]; simp only [h1, h2, or_self, if_false, h3]; rfl

theorem b64Dec_step3 (rest : Bytes) (a b c n : Nat) (hn : n < 64) (t : Bytes) (ht : b64DecAux rest [] = .ok t) :
    b64DecAux (b64Chr n :: rest) [a, b, c] = .ok ((a * 4 + b / 16) :: ((b % 16) * 16 + c / 4) :: ((c % 4) * 64 + n) :: t) := by
  obtain ⟨h1, h2, h3⟩ := b64Chr_spec n hn
  rw [b64DecAux]; simp only [h1, h2, or_self, if_false, h3, ht]

theorem b64_roundtrip_aux : ∀ (bs : Bytes), (∀ x ∈ bs, x < 256) → b64DecAux (b64Enc bs) [] = .ok bs := by
  intro bs
  induction bs using b64Enc.induct with
  | case1 => intro _; simp [b64Enc, b64DecAux]
  | case2 a =>
    intro h
    have ha : a < 256 := h a (by simp)
    simp only [b64Enc]
    rw [b64Dec_step0 _ _ (by omega), b64Dec_step1 _ _ _ (by omega)]
    simp only [b64DecAux]
    congr 2; omega
  | case3 a b =>
    intro h
    have ha : a < 256 := h a (by simp)
    have hb : b < 256 := h b (by simp)
    simp only [b64Enc]
    rw [b64Dec_step0 _ _ (by omega), b64Dec_step1 _ _ _ (by omega), b64Dec_step2 _ _ _ _ (by omega)]
    simp only [b64DecAux]
    congr 2
    · omega
    · congr 1 <;> omega
  | case4 a b c rest ih =>
    intro h
    have ha : a < 256 := h a (by simp)
    have hb : b < 256 := h b (by simp)
    have hc : c < 256 := h c (by simp)
    have hr : ∀ x ∈ rest, x < 256 := fun x hx => h x (by simp [hx])
    simp only [b64Enc]
    rw [b64Dec_step0 _ _ (by omega), b64Dec_step1 _ _ _ (by omega), b64Dec_step2 _ _ _ _ (by omega),
      b64Dec_step3 _ _ _ _ _ (by omega) rest (ih hr)]
    congr 2
    · omega
    · congr 1
      · omega
      · congr 1 <;> omega

/-- acceptance goes through every refusal step of the order -/
theorem jwkSteps_ok (lib : JwkLib) : ∀ (order : List String), jwkSteps lib order = .ok → ∀ s ∈ order, jwkStep lib s = none := by
  intro order
  induction order with
  | nil => intro _ s hs; cases hs
  | cons a rest ih =>
    intro h s hs
    unfold jwkSteps at h
    cases hst : jwkStep lib a with
    | some c =>
      rw [hst] at h; simp only at h
      -- a step never returns `.ok`
      unfold jwkStep at hst
      split at hst <;> (try split at hst) <;> simp_all
    | none =>
      rw [hst] at h; simp only at h
      cases hs with
      | head => exact hst
      | tail _ hm => exact ih h s hm

end Nuts.C18
