/-
  C05, deepening round 3 (2026-09-28): refinement of the remaining burn-on-use handlers of auth/api/iam to threads of the
  schedule model — `validatePresentationNonce` INCLUDING its burn-all branch (one Delete-only thread per collected nonce)
  and `RequestJWTByGet/Post` (GetAndDelete first, two comparisons on the consumed value).
-/
import NutsModel.C05.Forms
import NutsModel.C05.Today
import NutsModel.C05.Threads
import NutsProofs.Lemmas.C05Forms
import NutsProofs.Lemmas.C05Vci

namespace Nuts.C05

/-- a burn consumer other than `code` whose pre-checks pass, running alone: lock, Get, Delete, unlock (any kind but `code`;
    generalises `solo_plain_run`) -/
theorem solo_burn_run (cfg : Cfg) (hl : cfg.gad = .locked) (r : BurnReq) (hk : r.kind ≠ .code)
    (hx : cfg.ext r.kind = false) (hpre : r.pre = true) (hfg : r.failGet = false) (hfd : r.failDel = false) (st : Store) (now : Nat) :
    let w := run cfg soloSched { store := st, now := now, lock := none, ths := [.burn r .start 0] }
    (w.ths[0]?.bind Thread.outcome) = some (soloPlain cfg st now r).1 ∧ w.store = (soloPlain cfg st now r).2 ∧ w.lock = none := by
  have hfin : ∀ o, finishBurn r o = .done o := by
    intro o; unfold finishBurn; cases hkk : r.kind <;> simp_all
  cases hget : stGet cfg.expInclusive st now r.key with
  | none =>
    simp [run, soloSched, applyEv, stepW, stepThread, stepBurn, soloPlain, hpre, hget, Thread.outcome, Cfg.gadLocks, hl,
      afterGad, verdict, hfin, unlock, hfg]
  | some v =>
    simp [run, soloSched, applyEv, stepW, stepThread, stepBurn, soloPlain, hpre, hget, Thread.outcome, Cfg.gadLocks, hl,
      afterGad, hfin, hx, unlock, hfg, hfd]

/-- a burn consumer whose pre-checks FAIL, running alone: no lock, no Get — only the unconditional Delete of its key -/
theorem solo_nopre_run (cfg : Cfg) (r : BurnReq) (hpre : r.pre = false) (hfd : r.failDel = false) (st : Store) (now : Nat) :
    let w := run cfg soloSched { store := st, now := now, lock := none, ths := [.burn r .start 0] }
    (w.ths[0]?.bind Thread.outcome) = some .missingParam ∧ w.store = stErase st r.key ∧ w.lock = none := by
  simp [run, soloSched, applyEv, stepW, stepThread, stepBurn, hpre, Thread.outcome, hfd]

/-! ### validatePresentationNonce as threads -/

/-- the store after the given requests ran one after the other, each alone through its five steps -/
def soloStores (cfg : Cfg) (now : Nat) : Store → List BurnReq → Store
  | st, [] => st
  | st, r :: rest =>
    soloStores cfg now (run cfg soloSched { store := st, now := now, lock := none, ths := [.burn r .start 0] }).store rest

/-- outcomes of the same sequential execution -/
def soloOutcomes (cfg : Cfg) (now : Nat) : Store → List BurnReq → List (Option Outcome)
  | _, [] => []
  | st, r :: rest =>
    let w := run cfg soloSched { store := st, now := now, lock := none, ths := [.burn r .start 0] }
    (w.ths[0]?.bind Thread.outcome) :: soloOutcomes cfg now w.store rest

theorem burnAll_eq_soloStores (cfg : Cfg) (now : Nat) (state : String) (ns : List String) : ∀ st : Store,
    soloStores cfg now st (ns.map (fun n => ({ kind := .vpNonce, id := n, want := state, pre := false } : BurnReq))) = burnAll st ns ∧
    soloOutcomes cfg now st (ns.map (fun n => ({ kind := .vpNonce, id := n, want := state, pre := false } : BurnReq)))
      = ns.map (fun _ => some Outcome.missingParam) := by
  induction ns with
  | nil => intro st; simp [soloStores, soloOutcomes, burnAll]
  | cons n rest ih =>
    intro st
    have h := solo_nopre_run cfg ({ kind := .vpNonce, id := n, want := state, pre := false } : BurnReq) rfl rfl st now
    simp only at h
    simp only [List.map_cons, soloStores, soloOutcomes, burnAll, List.foldl_cons]
    rw [h.2.1, h.1]
    have ih' := ih (stErase st (BurnReq.key { kind := .vpNonce, id := n, want := state, pre := false }))
    refine ⟨?_, ?_⟩
    · rw [ih'.1]; rfl
    · rw [ih'.2]

/-- the answer class of the abstract layer for an answer of validatePresentationNonce -/
def vpOutcome (a : Ans) : Option Outcome :=
  let E := errAt Facts.C05.errs_validatePresentationNonce
  if a = .ok then some .ok
  else if a = E 0 then some .missingParam
  else if a = E 1 then some .notFound
  else if a = E 2 then some .mismatch
  else none

theorem vpOutcome_ok : vpOutcome .ok = some .ok := by decide
theorem vpOutcome_e0 : vpOutcome (errAt Facts.C05.errs_validatePresentationNonce 0) = some .missingParam := by decide
theorem vpOutcome_e1 : vpOutcome (errAt Facts.C05.errs_validatePresentationNonce 1) = some .notFound := by decide
theorem vpOutcome_e2 : vpOutcome (errAt Facts.C05.errs_validatePresentationNonce 2) = some .mismatch := by decide

/-- validatePresentationNonce, statement by statement, leaves the store exactly as its threads leave it when they run one
    after the other, and every thread ends in the outcome class of the handler's answer -/
theorem validateNonce_eq_threads (cfg : Cfg) (hl : cfg.gad = .locked) (hx : cfg.ext .vpNonce = false) (ttl : Kind → Nat) (now : Nat)
    (st : Store) (ps : List Pres) (state : String) (hp : ∀ s, (validateNonce ⟨cfg.expInclusive, now, ttl⟩ st ps state).1 ≠ .panic s) :
    soloStores cfg now st (responseThreads ps state) = (validateNonce ⟨cfg.expInclusive, now, ttl⟩ st ps state).2 ∧
    ∀ o ∈ soloOutcomes cfg now st (responseThreads ps state), o = vpOutcome (validateNonce ⟨cfg.expInclusive, now, ttl⟩ st ps state).1 := by
  unfold responseThreads validateNonce at *
  simp only at *
  by_cases he : nonceErrs (collect ps) > 0
  · simp only [he, if_true]
    have h := burnAll_eq_soloStores cfg now state (collect ps).nonces st
    refine ⟨h.1, ?_⟩
    intro o ho
    rw [h.2] at ho
    simp only [List.mem_map] at ho
    obtain ⟨_, _, rfl⟩ := ho
    exact vpOutcome_e0.symm
  · simp only [he, if_false] at hp ⊢
    cases hn : (collect ps).nonces with
    | nil => simp [hn] at hp
    | cons n rest =>
      skip
      have h := solo_burn_run cfg hl ({ kind := .vpNonce, id := n, want := state } : BurnReq) (by simp) hx rfl rfl rfl st now
      simp only at h
      simp only [soloStores, soloOutcomes, List.mem_singleton, forall_eq]
      rw [h.1, h.2.1]
      unfold soloPlain gadSeq
      simp only [BurnReq.key, vpKey]
      cases hg : stGet cfg.expInclusive st now ⟨.burn .vpNonce, n⟩ with
      | none => simp [vpOutcome_e1]
      | some v =>
        simp only [verdict]
        by_cases hm : v = state
        · subst hm; simp [vpOutcome_ok]
        · have hm' : state ≠ v := fun e => hm e.symm
          simp [hm, hm', vpOutcome_e2]

/-! ### RequestJWTByGet / RequestJWTByPost as a thread -/

/-- answer classes: not found / consumed-and-refused (either comparison) / honoured -/
def reqObjOutcome (r : ReqObjFetch) (a : Ans) : Option Outcome :=
  let E := errAt (if r.post then Facts.C05.errs_RequestJWTByPost else Facts.C05.errs_RequestJWTByGet)
  if a = .ok then some .ok
  else if a = E 0 then some .notFound
  else if a = E 1 || a = E 2 then some .postCheck
  else none

theorem reqObjOutcome_facts (p : Bool) :
    let E := errAt (if p then Facts.C05.errs_RequestJWTByPost else Facts.C05.errs_RequestJWTByGet)
    E 0 ≠ .ok ∧ E 1 ≠ .ok ∧ E 2 ≠ .ok ∧ E 1 ≠ E 0 ∧ E 2 ≠ E 0 := by
  cases p <;> decide

/-- the request-object handlers compute what their thread computes when it runs alone; `v` = the value the store holds
    for the id (any value if it holds none) -/
theorem handleReqObj_eq_solo (cfg : Cfg) (ttl : Kind → Nat) (now : Nat) (st : Store) (r : ReqObjFetch) (v : String)
    (hv : ∀ x, stGet cfg.expInclusive st now (reqObjKey r.id) = some x → x = v) :
    reqObjOutcome r (handleReqObj ⟨cfg.expInclusive, now, ttl⟩ st r).1 = some (soloPlain cfg st now (reqObjReq r v)).1 ∧
    (handleReqObj ⟨cfg.expInclusive, now, ttl⟩ st r).2 = (soloPlain cfg st now (reqObjReq r v)).2 := by
  have hf := reqObjOutcome_facts r.post
  simp only at hf
  unfold handleReqObj soloPlain gadSeq
  simp only [reqObjReq, BurnReq.key, reqObjKey] at hv ⊢
  cases hg : stGet cfg.expInclusive st now ⟨.burn .reqObj, r.id⟩ with
  | none => simp [reqObjOutcome, hf.1]
  | some x =>
    have hxv := hv x hg
    subst hxv
    simp only [verdict]
    by_cases h1 : roClient x = r.subject
    · by_cases h2 : roMethod x = (if r.post then "post" else "get")
      · simp [h1, h2, reqObjOutcome]
      · simp [h1, h2, reqObjOutcome, hf.2.2.1, hf.2.2.2.2]
    · simp [h1, reqObjOutcome, hf.2.1, hf.2.2.2.1]

end Nuts.C05
