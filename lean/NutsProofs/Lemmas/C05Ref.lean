/-
  C05, deepening round 3 (2026-09-28): refinement of the remaining burn-on-use handlers of auth/api/iam to threads of the
  schedule model — `validatePresentationNonce` INCLUDING its burn-all branch (one Delete-only thread per collected nonce)
  and `RequestJWTByGet/Post` (GetAndDelete first, two comparisons on the consumed value).
-/
import NutsModel.C05.Forms
import NutsModel.C05.Today
import NutsModel.C05.Threads
import NutsProofs.Lemmas.C05Forms
import NutsProofs.Lemmas.C05Vci
import NutsModel.C05.Vci

namespace Nuts.C05

/-- a burn consumer other than `code` whose pre-checks pass, running alone: lock, Get, Delete, unlock (any kind but `code`;
    generalises `solo_plain_run`) -/
theorem solo_burn_run (cfg : Cfg) (hl : cfg.gad = .locked) (r : BurnReq) (hk : r.kind ≠ .code)
    (hx : cfg.ext r.kind = false) (hpre : r.pre = true) (hfg : r.failGet = false) (hfd : r.failDel = false) (st : Store) (now : Nat) :
    let w := run cfg soloSched { store := st, now := now, lock := none, ths := [.burn r .start 0] }
    (w.ths[0]?.bind Thread.outcome) = some (soloPlain cfg st now r).1 ∧ w.store = (soloPlain cfg st now r).2 ∧ w.lock = none := by
  have hfin : ∀ o, finishBurn r o = .done o := by
    intro o; unfold finishBurn; cases hkk : r.kind <;> simp_all
  cases hget : stGet cfg.expInclusive st now r.key with
  | none =>
    simp [run, soloSched, applyEv, stepW, stepThread, stepBurn, soloPlain, hpre, hget, Thread.outcome, Cfg.gadLocks, hl,
      afterGad, verdict, hfin, unlock, hfg]
  | some v =>
    simp [run, soloSched, applyEv, stepW, stepThread, stepBurn, soloPlain, hpre, hget, Thread.outcome, Cfg.gadLocks, hl,
      afterGad, hfin, hx, unlock, hfg, hfd]

/-- a burn consumer whose pre-checks FAIL, running alone: no lock, no Get — only the unconditional Delete of its key -/
theorem solo_nopre_run (cfg : Cfg) (r : BurnReq) (hpre : r.pre = false) (hfd : r.failDel = false) (st : Store) (now : Nat) :
    let w := run cfg soloSched { store := st, now := now, lock := none, ths := [.burn r .start 0] }
    (w.ths[0]?.bind Thread.outcome) = some .missingParam ∧ w.store = stErase st r.key ∧ w.lock = none := by
  simp [run, soloSched, applyEv, stepW, stepThread, stepBurn, hpre, Thread.outcome, hfd]

/-! ### validatePresentationNonce as threads -/

/-- the store after the given requests ran one after the other, each alone through its five steps -/
def soloStores (cfg : Cfg) (now : Nat) : Store → List BurnReq → Store
  | st, [] => st
  | st, r :: rest =>
    soloStores cfg now (run cfg soloSched { store := st, now := now, lock := none, ths := [.burn r .start 0] }).store rest

/-- outcomes of the same sequential execution -/
def soloOutcomes (cfg : Cfg) (now : Nat) : Store → List BurnReq → List (Option Outcome)
  | _, [] => []
  | st, r :: rest =>
    let w := run cfg soloSched { store := st, now := now, lock := none, ths := [.burn r .start 0] }
    (w.ths[0]?.bind Thread.outcome) :: soloOutcomes cfg now w.store rest

theorem burnAll_eq_soloStores (cfg : Cfg) (now : Nat) (state : String) (ns : List String) : ∀ st : Store,
    soloStores cfg now st (ns.map (fun n => ({ kind := .vpNonce, id := n, want := state, pre := false } : BurnReq))) = burnAll st ns ∧
    soloOutcomes cfg now st (ns.map (fun n => ({ kind := .vpNonce, id := n, want := state, pre := false } : BurnReq)))
      = ns.map (fun _ => some Outcome.missingParam) := by
  induction ns with
  | nil => intro st; simp [soloStores, soloOutcomes, burnAll]
  | cons n rest ih =>
    intro st
    have h := solo_nopre_run cfg ({ kind := .vpNonce, id := n, want := state, pre := false } : BurnReq) rfl rfl st now
    simp only at h
    simp only [List.map_cons, soloStores, soloOutcomes, burnAll, List.foldl_cons]
    rw [h.2.1, h.1]
    have ih' := ih (stErase st (BurnReq.key { kind := .vpNonce, id := n, want := state, pre := false }))
    refine ⟨?_, ?_⟩
    · rw [ih'.1]; rfl
    · rw [ih'.2]

/-- the answer class of the abstract layer for an answer of validatePresentationNonce -/
def vpOutcome (a : Ans) : Option Outcome :=
  let E := errAt Facts.C05.errs_validatePresentationNonce
  if a = .ok then some .ok
  else if a = E 0 then some .missingParam
  else if a = E 1 then some .notFound
  else if a = E 2 then some .mismatch
  else none

theorem vpOutcome_ok : vpOutcome .ok = some .ok := by decide
theorem vpOutcome_e0 : vpOutcome (errAt Facts.C05.errs_validatePresentationNonce 0) = some .missingParam := by decide
theorem vpOutcome_e1 : vpOutcome (errAt Facts.C05.errs_validatePresentationNonce 1) = some .notFound := by decide
theorem vpOutcome_e2 : vpOutcome (errAt Facts.C05.errs_validatePresentationNonce 2) = some .mismatch := by decide

/-- validatePresentationNonce, statement by statement, leaves the store exactly as its threads leave it when they run one
    after the other, and every thread ends in the outcome class of the handler's answer -/
theorem validateNonce_eq_threads (cfg : Cfg) (hl : cfg.gad = .locked) (hx : cfg.ext .vpNonce = false) (ttl : Kind → Nat) (now : Nat)
    (st : Store) (ps : List Pres) (state : String) (hp : ∀ s, (validateNonce ⟨cfg.expInclusive, now, ttl⟩ st ps state).1 ≠ .panic s) :
    soloStores cfg now st (responseThreads ps state) = (validateNonce ⟨cfg.expInclusive, now, ttl⟩ st ps state).2 ∧
    ∀ o ∈ soloOutcomes cfg now st (responseThreads ps state), o = vpOutcome (validateNonce ⟨cfg.expInclusive, now, ttl⟩ st ps state).1 := by
  unfold responseThreads validateNonce at *
  simp only at *
  by_cases he : nonceErrs (collect ps) > 0
  · simp only [he, if_true]
    have h := burnAll_eq_soloStores cfg now state (collect ps).nonces st
    refine ⟨h.1, ?_⟩
    intro o ho
    rw [h.2] at ho
    simp only [List.mem_map] at ho
    obtain ⟨_, _, rfl⟩ := ho
    exact vpOutcome_e0.symm
  · simp only [he, if_false] at hp ⊢
    cases hn : (collect ps).nonces with
    | nil => simp [hn] at hp
    | cons n rest =>
      skip
      have h := solo_burn_run cfg hl ({ kind := .vpNonce, id := n, want := state } : BurnReq) (by simp) hx rfl rfl rfl st now
      simp only at h
      simp only [soloStores, soloOutcomes, List.mem_singleton, forall_eq]
      rw [h.1, h.2.1]
      unfold soloPlain gadSeq
      simp only [BurnReq.key, vpKey]
      cases hg : stGet cfg.expInclusive st now ⟨.burn .vpNonce, n⟩ with
      | none => simp [vpOutcome_e1]
      | some v =>
        simp only [verdict]
        by_cases hm : v = state
        · subst hm; simp [vpOutcome_ok]
        · have hm' : state ≠ v := fun e => hm e.symm
          simp [hm, hm', vpOutcome_e2]

/-! ### RequestJWTByGet / RequestJWTByPost as a thread -/

/-- answer classes: not found / consumed-and-refused (either comparison) / honoured -/
def reqObjOutcome (r : ReqObjFetch) (a : Ans) : Option Outcome :=
  let E := errAt (if r.post then Facts.C05.errs_RequestJWTByPost else Facts.C05.errs_RequestJWTByGet)
  if a = .ok then some .ok
  else if a = E 0 then some .notFound
  else if a = E 1 || a = E 2 then some .postCheck
  else none

theorem reqObjOutcome_facts (p : Bool) :
    let E := errAt (if p then Facts.C05.errs_RequestJWTByPost else Facts.C05.errs_RequestJWTByGet)
    E 0 ≠ .ok ∧ E 1 ≠ .ok ∧ E 2 ≠ .ok ∧ E 1 ≠ E 0 ∧ E 2 ≠ E 0 := by
  cases p <;> decide

/-- the request-object handlers compute what their thread computes when it runs alone; `v` = the value the store holds
    for the id (any value if it holds none) -/
theorem handleReqObj_eq_solo (cfg : Cfg) (ttl : Kind → Nat) (now : Nat) (st : Store) (r : ReqObjFetch) (v : String)
    (hv : ∀ x, stGet cfg.expInclusive st now (reqObjKey r.id) = some x → x = v) :
    reqObjOutcome r (handleReqObj ⟨cfg.expInclusive, now, ttl⟩ st r).1 = some (soloPlain cfg st now (reqObjReq r v)).1 ∧
    (handleReqObj ⟨cfg.expInclusive, now, ttl⟩ st r).2 = (soloPlain cfg st now (reqObjReq r v)).2 := by
  have hf := reqObjOutcome_facts r.post
  simp only at hf
  unfold handleReqObj soloPlain gadSeq
  simp only [reqObjReq, BurnReq.key, reqObjKey] at hv ⊢
  cases hg : stGet cfg.expInclusive st now ⟨.burn .reqObj, r.id⟩ with
  | none => simp [reqObjOutcome, hf.1]
  | some x =>
    have hxv := hv x hg
    subst hxv
    simp only [verdict]
    by_cases h1 : roClient x = r.subject
    · by_cases h2 : roMethod x = (if r.post then "post" else "get")
      · simp [h1, h2, reqObjOutcome]
      · simp [h1, h2, reqObjOutcome, hf.2.2.1, hf.2.2.2.2]
    · simp [h1, reqObjOutcome, hf.2.1, hf.2.2.2.1]

/-! ### mark-as-used consumers (s2s nonce loop, DPoP jti) as threads; every endpoint = its threads -/

/-- outcome and store after a mark consumer ran alone through PutIfAbsent-under-the-mutex -/
def soloMark (cfg : Cfg) (st : Store) (now : Nat) (r : MarkReq) : Outcome × Store :=
  match stGet cfg.expInclusive st now r.key with
  | some _ => (.used, st)
  | none => (.ok, stPut st r.key ⟨markVal r.kind, now + cfg.ttl (.mark r.kind)⟩)

theorem solo_mark_run (cfg : Cfg) (r : MarkReq) (hl : cfg.mark r.kind = .locked) (hfg : r.failGet = false) (hfs : r.failSet = false)
    (st : Store) (now : Nat) :
    let w := run cfg soloSched { store := st, now := now, lock := none, ths := [.mark r .start 0] }
    (w.ths[0]?.bind Thread.outcome) = some (soloMark cfg st now r).1 ∧ w.store = (soloMark cfg st now r).2 ∧ w.lock = none := by
  cases hget : stGet cfg.expInclusive st now r.key with
  | none =>
    simp [run, soloSched, applyEv, stepW, stepThread, stepMark, soloMark, hget, Thread.outcome, Cfg.markLocks, hl, unlock, hfg, hfs]
  | some v =>
    simp [run, soloSched, applyEv, stepW, stepThread, stepMark, soloMark, hget, Thread.outcome, Cfg.markLocks, hl, unlock, hfg]

/-- the store the threads of a request leave when they run one after the other, each alone -/
def threadsStore (cfg : Cfg) (now : Nat) (st : Store) (rs : List Req) : Store := (soloCalls cfg now st rs).2

theorem threadsStore_nil (cfg : Cfg) (now : Nat) (st : Store) : threadsStore cfg now st [] = st := rfl

theorem threadsStore_cons (cfg : Cfg) (now : Nat) (st : Store) (r : Req) (rest : List Req) :
    threadsStore cfg now st (r :: rest)
      = threadsStore cfg now (run cfg soloSched { store := st, now := now, lock := none, ths := [r.thread] }).store rest := rfl

theorem threadsStore_burns (cfg : Cfg) (now : Nat) (rs : List BurnReq) : ∀ st : Store,
    threadsStore cfg now st (rs.map Req.burn) = soloStores cfg now st rs := by
  induction rs with
  | nil => intro st; rfl
  | cons r rest ih => intro st; simp only [List.map_cons, threadsStore_cons, soloStores, Req.thread]; exact ih _

/-- the s2s nonce loop = its mark threads, one after the other -/
theorem s2sLoop_eq_threads (cfg : Cfg) (hl : cfg.mark .s2s = .locked) (now : Nat) (ns : List String) : ∀ st : Store,
    threadsStore cfg now st ((s2sMarks ⟨cfg.expInclusive, now, cfg.ttl⟩ st ns).map Req.mark) = (s2sLoop ⟨cfg.expInclusive, now, cfg.ttl⟩ st ns).2 := by
  induction ns with
  | nil => intro st; rfl
  | cons n rest ih =>
    intro st
    unfold s2sMarks s2sLoop
    by_cases hn : n = ""
    · simp [hn, threadsStore_nil]
    · simp only [hn, if_false]
      have h := solo_mark_run cfg ({ kind := .s2s, id := n } : MarkReq) hl rfl rfl st now
      simp only at h
      unfold pifSeq
      simp only [s2sKey] at *
      cases hg : stGet cfg.expInclusive st now ⟨.mark .s2s, n⟩ with
      | some v =>
        simp only [List.map_cons, List.map_nil, threadsStore_cons, threadsStore_nil, Req.thread]
        rw [h.2.1]; simp [soloMark, MarkReq.key, hg]
      | none =>
        simp only [List.map_cons, threadsStore_cons, Req.thread]
        rw [h.2.1]
        have hs : (soloMark cfg st now { kind := .s2s, id := n }).2 = stPut st ⟨.mark .s2s, n⟩ ⟨markVal .s2s, now + cfg.ttl (.mark .s2s)⟩ := by
          simp [soloMark, MarkReq.key, hg]
        rw [hs]
        exact ih _

theorem threadsStore_one_burn (cfg : Cfg) (now : Nat) (st : Store) (r : BurnReq) :
    threadsStore cfg now st [.burn r] = (run cfg soloSched { store := st, now := now, lock := none, ths := [.burn r .start 0] }).store := rfl

theorem threadsStore_one_mark (cfg : Cfg) (now : Nat) (st : Store) (r : MarkReq) :
    threadsStore cfg now st [.mark r] = (run cfg soloSched { store := st, now := now, lock := none, ths := [.mark r .start 0] }).store := rfl

theorem toBurn_props (pk : Pkce) (f : TokenForm) (r : BurnReq) (h : f.toBurn pk = some r) :
    r.kind = .code ∧ r.failGet = false ∧ r.failDel = false := by
  unfold TokenForm.toBurn at h
  cases hc : f.code with
  | none => simp [hc] at h
  | some code => simp only [hc, Option.some.injEq] at h; subst h; exact ⟨rfl, rfl, rfl⟩

theorem toBurn_none (pk : Pkce) (f : TokenForm) (h : f.toBurn pk = none) : f.code = none := by
  unfold TokenForm.toBurn at h
  cases hc : f.code with
  | none => rfl
  | some code => simp [hc] at h

/-- **every endpoint = its threads** (store level): whatever request of whatever endpoint, the request-level handler leaves
    the one-time stores exactly as the threads `formThreads` leave them when they run one after the other, each alone -/
theorem handleForm_eq_threads (cfg : Cfg) (hg : cfg.gad = .locked) (hm : ∀ m, cfg.mark m = .locked) (hx : ∀ b, cfg.ext b = false)
    (pk : Pkce) (now : Nat) (st : Store) (f : Form)
    (hp : ∀ s, (handleForm ⟨cfg.expInclusive, now, cfg.ttl⟩ pk st f).1 ≠ .panic s) :
    threadsStore cfg now st (formThreads ⟨cfg.expInclusive, now, cfg.ttl⟩ pk st f) = (handleForm ⟨cfg.expInclusive, now, cfg.ttl⟩ pk st f).2 := by
  cases f with
  | token t =>
    simp only [formThreads, handleForm, handleToken]
    by_cases ha : grantAction t.grantType = "handleAccessTokenRequest"
    · simp only [ha, if_true]
      cases htb : t.toBurn pk with
      | none =>
        have hc := toBurn_none pk t htb
        simp [handleCode, hc, threadsStore_nil]
      | some r =>
        obtain ⟨hk, hfg, hfd⟩ := toBurn_props pk t r htb
        have h1 := solo_code_run cfg hg (hx .code) r hk hfg hfd st now
        have h2 := handleCode_eq_solo cfg cfg.ttl pk now st t r htb
        simp only [threadsStore_one_burn]
        rw [h1.2.1, h2.2]
    · simp only [ha, if_false]
      by_cases hs : grantAction t.grantType = "handleS2SAccessTokenRequest"
      · simp only [hs, if_true]
        cases hasr : t.assertion with
        | none => simp [threadsStore_nil]
        | some nonces =>
          simp only
          by_cases hc : (!t.submission || !t.scope || t.clientId.isNone) = true
          · simp [hc, threadsStore_nil]
          · simp only [hc, Bool.false_eq_true, if_false]
            rw [handleS2S_snd]
            exact s2sLoop_eq_threads cfg (hm .s2s) now nonces st
      · simp only [hs, if_false]
        split <;> simp [threadsStore_nil]
  | response r =>
    simp only [formThreads, handleForm, handleResponse] at hp ⊢
    cases hs : r.state with
    | none => simp [threadsStore_nil]
    | some state =>
      cases hv : r.vpToken with
      | none => simp [threadsStore_nil]
      | some ps =>
        cases ps with
        | nil => simp [threadsStore_nil]
        | cons p ps =>
          simp only [hs, hv] at hp ⊢
          by_cases hk : r.stateKnown = true
          · by_cases ht : r.tenantOk = true
            · simp only [hk, ht, Bool.not_true, Bool.or_self, Bool.false_eq_true, if_false] at hp ⊢
              rw [threadsStore_burns]
              exact (validateNonce_eq_threads cfg hg (hx .vpNonce) cfg.ttl now st (p :: ps) state hp).1
            · simp [hk, ht, threadsStore_nil]
          · simp [hk, threadsStore_nil]
  | reqObj r =>
    simp only [formThreads, handleForm, threadsStore_one_burn]
    have h1 := solo_burn_run cfg hg (reqObjReq r ((stGet cfg.expInclusive st now (reqObjKey r.id)).getD "")) (by simp [reqObjReq])
      (hx _) rfl rfl rfl st now
    have h2 := handleReqObj_eq_solo cfg cfg.ttl now st r ((stGet cfg.expInclusive st now (reqObjKey r.id)).getD "")
      (by intro x hx'; rw [hx']; rfl)
    rw [h1.2.1, h2.2]
  | landing t =>
    simp only [formThreads, handleForm]
    by_cases ht : t = ""
    · simp [ht, handleLanding, threadsStore_nil]
    · simp only [ht, if_false, threadsStore_one_burn]
      have h1 := solo_plain_run cfg hg (landingReq t) (Or.inl rfl) (hx _) rfl rfl rfl st now
      have h2 := handleLanding_eq_solo cfg cfg.ttl now st t ht
      exact h1.2.1.trans h2.2.symm
  | dpop r =>
    simp only [formThreads, handleForm, handleDpop]
    cases h1 : r.parses <;> cases h2 : r.matchOk <;> cases h3 : r.athPresent <;> cases h4 : r.athOk <;>
      simp [threadsStore_nil]
    simp only [threadsStore_one_mark]
    have h := solo_mark_run cfg ({ kind := .jti, id := r.jti } : MarkReq) (hm .jti) rfl rfl st now
    rw [h.2.1]
    unfold soloMark pifSeq
    simp only [MarkReq.key, jtiKey]
    cases hgt : stGet cfg.expInclusive st now ⟨.mark .jti, r.jti⟩ <;> simp

/-! ### the OpenID4VCI token endpoint (vcr/issuer HandleAccessTokenRequest) as a thread -/

theorem handlePreAuth_eq_solo (cfg : Cfg) (ttl : Kind → Nat) (now : Nat) (s : VciSt) (issuer code tok cn : String) :
    (handlePreAuth ⟨cfg.expInclusive, now, ttl⟩ s issuer code tok cn).st.codes
      = (soloPlain cfg s.codes now (preAuthReq ⟨cfg.expInclusive, now, ttl⟩ s issuer code tok cn)).2 ∧
    ((soloPlain cfg s.codes now (preAuthReq ⟨cfg.expInclusive, now, ttl⟩ s issuer code tok cn)).1 = .ok ↔
      (handlePreAuth ⟨cfg.expInclusive, now, ttl⟩ s issuer code tok cn).ans = .ok) ∧
    ((soloPlain cfg s.codes now (preAuthReq ⟨cfg.expInclusive, now, ttl⟩ s issuer code tok cn)).1 = .notFound ↔
      stGet cfg.expInclusive s.codes now (preAuthKey code) = none) := by
  rw [handlePreAuth_codes]
  unfold soloPlain gadSeq
  simp only [preAuthReq, BurnReq.key, preAuthKey]
  cases hg : stGet cfg.expInclusive s.codes now ⟨.burn .preAuth, code⟩ with
  | none =>
    refine ⟨rfl, ?_, by simp⟩
    have := handlePreAuth_not_ok_of_dead ⟨cfg.expInclusive, now, ttl⟩ s issuer code tok cn hg
    simp [this]
  | some v =>
    simp only [verdict, Option.getD_some]
    refine ⟨trivial, ?_, ?_⟩
    · by_cases h : (handlePreAuth ⟨cfg.expInclusive, now, ttl⟩ s issuer code tok cn).ans = .ok <;> simp [h]
    · by_cases h : (handlePreAuth ⟨cfg.expInclusive, now, ttl⟩ s issuer code tok cn).ans = .ok <;> simp [h]

/-! ### burn-all under every schedule: a finished Delete-only thread has left the store without its key -/

/-- threads whose pre-checks fail (code without verifier / client_id; the burn-all threads of an authorization response) only
    ever are at `start`, before their Delete, or done — and once done (their Delete reached the store) the key is absent -/
def NInv (w : World) : Prop :=
  ∀ (j : Nat) (r : BurnReq) (pc : BurnPc) (f : Nat), w.ths[j]? = some (Thread.burn r pc f) → r.pre = false → r.failDel = false →
    pc = .start ∨ (∃ o, pc = .atBurn o) ∨ (∃ o, pc = .done o ∧ stFind w.store r.key = none)

theorem NInv_init (st : Store) (reqs : List Req) : NInv (init st reqs) := by
  intro j r pc f h _ _
  obtain ⟨r', hr⟩ := init_thread st reqs j _ h
  cases r' <;> simp [Req.thread] at hr
  exact Or.inl hr.2.1

theorem NInv_applyEv (cfg : Cfg) (w : World) (ev : Ev) (inv : NInv w) : NInv (applyEv cfg w ev) := by
  cases ev with
  | tick dt => exact inv
  | step i =>
    simp only [applyEv, stepW]
    cases hi : w.ths[i]? with
    | none => exact inv
    | some t =>
      simp only
      intro j r pc f h hp hf
      have hkeep : stFind w.store r.key = none → stFind (stepThread cfg w.store w.now w.lock i t).2.1 r.key = none := by
        intro hn
        rcases stepThread_burnKey cfg w.store w.now w.lock i t r.key r.kind rfl with h1 | h1
        · rw [h1]; exact hn
        · exact h1
      rcases getElem?_set_cases _ _ _ _ _ h with ⟨hji, he⟩ | ⟨hji, he⟩
      · cases t with
        | mark r' pc' f' => simp [stepThread] at he
        | burn r' pc' f' =>
          simp only [stepThread] at he ⊢
          injection he with h1 h2 h3
          subst h1
          rcases inv i r pc' f' (by rw [hi]) hp hf with h4 | ⟨o, h4⟩ | ⟨o, h4, h5⟩
          · subst h4
            refine Or.inr (Or.inl ⟨.missingParam, ?_⟩)
            rw [h2]; simp [stepBurn, hp]
          · subst h4
            refine Or.inr (Or.inr ⟨o, ?_, ?_⟩)
            · rw [h2]; simp [stepBurn]
            · simp [stepBurn, hf, stFind_erase_self]
          · subst h4
            refine Or.inr (Or.inr ⟨o, ?_, ?_⟩)
            · rw [h2]; simp [stepBurn]
            · simpa [stepBurn] using h5
      · rcases inv j r pc f he hp hf with h4 | h4 | ⟨o, h4, h5⟩
        · exact Or.inl h4
        · exact Or.inr (Or.inl h4)
        · exact Or.inr (Or.inr ⟨o, h4, hkeep h5⟩)

theorem NInv_run (cfg : Cfg) (s : List Ev) (w : World) (inv : NInv w) : NInv (run cfg s w) := by
  induction s generalizing w with
  | nil => exact inv
  | cons ev s ih => exact ih _ (NInv_applyEv cfg w ev inv)

/-! ### an honoured request = every one of its threads honoured -/

/-- outcomes of the threads of a request when they run one after the other, each alone -/
def threadsOutcomes (cfg : Cfg) (now : Nat) : Store → List Req → List (Option Outcome)
  | _, [] => []
  | st, r :: rest =>
    let w := run cfg soloSched { store := st, now := now, lock := none, ths := [r.thread] }
    (w.ths[0]?.bind Thread.outcome) :: threadsOutcomes cfg now w.store rest

theorem threadsOutcomes_burns (cfg : Cfg) (now : Nat) (rs : List BurnReq) : ∀ st : Store,
    threadsOutcomes cfg now st (rs.map Req.burn) = soloOutcomes cfg now st rs := by
  induction rs with
  | nil => intro st; rfl
  | cons r rest ih => intro st; simp only [List.map_cons, threadsOutcomes, soloOutcomes, Req.thread]; rw [ih]

/-- the s2s nonce loop passes only if every one of its mark threads is honoured (and it has one per presentation) -/
theorem s2sLoop_ok_threads (cfg : Cfg) (hl : cfg.mark .s2s = .locked) (now : Nat) (ns : List String) : ∀ st : Store,
    (s2sLoop ⟨cfg.expInclusive, now, cfg.ttl⟩ st ns).1 = .ok →
    threadsOutcomes cfg now st ((s2sMarks ⟨cfg.expInclusive, now, cfg.ttl⟩ st ns).map Req.mark) = ns.map (fun _ => some Outcome.ok) := by
  induction ns with
  | nil => intro st _; rfl
  | cons n rest ih =>
    intro st hok
    unfold s2sMarks
    unfold s2sLoop at hok
    by_cases hn : n = ""
    · simp [hn] at hok
      exact absurd hok (by decide)
    · simp only [hn, if_false] at hok ⊢
      have h := solo_mark_run cfg ({ kind := .s2s, id := n } : MarkReq) hl rfl rfl st now
      simp only at h
      unfold pifSeq at hok ⊢
      simp only [s2sKey] at *
      cases hg : stGet cfg.expInclusive st now ⟨.mark .s2s, n⟩ with
      | some v =>
        simp [hg] at hok
        exact absurd hok (by decide)
      | none =>
        simp only [hg] at hok
        simp only [List.map_cons, threadsOutcomes, Req.thread]
        rw [h.1, h.2.1]
        have hs : soloMark cfg st now { kind := .s2s, id := n } = (.ok, stPut st ⟨.mark .s2s, n⟩ ⟨markVal .s2s, now + cfg.ttl (.mark .s2s)⟩) := by
          simp [soloMark, MarkReq.key, hg]
        rw [hs]
        simp only
        rw [ih _ hok]

theorem handleS2S_ok_loop (c : Sq) (st : Store) (f : TokenForm) (ns : List String) (h : (handleS2S c st f ns).1 = .ok) :
    (s2sLoop c st ns).1 = .ok := by
  unfold handleS2S at h
  split at h
  · next st1 heq => rw [heq]
  · next r hne =>
    cases hr : s2sLoop c st ns with
    | mk a st1 =>
      cases a with
      | ok => rfl
      | err c w => rw [hr] at h; simp at h
      | panic s => rw [hr] at h; simp at h

/-- **an honoured request = every one of its threads honoured** (and it has at least one): whatever request of whatever
    endpoint is answered 200, each thread it stands for ends `ok` when the threads run one after the other -/
theorem handleForm_ok_threads (cfg : Cfg) (hg : cfg.gad = .locked) (hm : ∀ m, cfg.mark m = .locked) (hx : ∀ b, cfg.ext b = false)
    (pk : Pkce) (now : Nat) (st : Store) (f : Form)
    (hok : (handleForm ⟨cfg.expInclusive, now, cfg.ttl⟩ pk st f).1 = .ok) :
    ∀ o ∈ threadsOutcomes cfg now st (formThreads ⟨cfg.expInclusive, now, cfg.ttl⟩ pk st f), o = some .ok := by
  cases f with
  | token t =>
    simp only [formThreads, handleForm, handleToken] at hok ⊢
    by_cases ha : grantAction t.grantType = "handleAccessTokenRequest"
    · simp only [ha, if_true] at hok ⊢
      cases htb : t.toBurn pk with
      | none =>
        have hc := toBurn_none pk t htb
        simp [handleCode, hc] at hok
        exact absurd hok (errAt_ne_ok _ _)
      | some r =>
        obtain ⟨hk, hfg, hfd⟩ := toBurn_props pk t r htb
        have h1 := solo_code_run cfg hg (hx .code) r hk hfg hfd st now
        have h2 := handleCode_eq_solo cfg cfg.ttl pk now st t r htb
        rw [hok, codeOutcome_ok] at h2
        intro o ho
        simp only [threadsOutcomes, Req.thread, List.mem_singleton] at ho
        rw [ho, h1.1, ← Option.some.inj h2.1]
    · simp only [ha, if_false] at hok ⊢
      by_cases hs : grantAction t.grantType = "handleS2SAccessTokenRequest"
      · simp only [hs, if_true] at hok ⊢
        cases hasr : t.assertion with
        | none => simp [hasr] at hok; exact absurd hok (errAt_ne_ok _ _)
        | some nonces =>
          simp only [hasr] at hok ⊢
          by_cases hc : (!t.submission || !t.scope || t.clientId.isNone) = true
          · simp [hc] at hok; exact absurd hok (errAt_ne_ok _ _)
          · simp only [hc, Bool.false_eq_true, if_false] at hok ⊢
            have hl := handleS2S_ok_loop _ st t nonces hok
            have h3 := s2sLoop_ok_threads cfg (hm .s2s) now nonces st hl
            intro o ho
            rw [h3] at ho
            simp only [List.mem_map] at ho
            obtain ⟨_, _, rfl⟩ := ho
            rfl
      · simp only [hs, if_false] at hok
        split at hok <;> (simp only at hok; exact absurd hok (errAt_ne_ok _ _))
  | response r =>
    simp only [formThreads, handleForm, handleResponse] at hok ⊢
    cases hs : r.state with
    | none => simp [hs] at hok; exact absurd hok (errAt_ne_ok _ _)
    | some state =>
      cases hv : r.vpToken with
      | none => simp [hs, hv] at hok; exact absurd hok (errAt_ne_ok _ _)
      | some ps =>
        cases ps with
        | nil => simp [hs, hv] at hok; exact absurd hok (errAt_ne_ok _ _)
        | cons p ps =>
          simp only [hs, hv] at hok ⊢
          by_cases hk : r.stateKnown = true
          · by_cases ht : r.tenantOk = true
            · simp only [hk, ht, Bool.not_true, Bool.or_self, Bool.false_eq_true, if_false] at hok ⊢
              rw [threadsOutcomes_burns]
              have h := (validateNonce_eq_threads cfg hg (hx .vpNonce) cfg.ttl now st (p :: ps) state (by intro s; rw [hok]; simp)).2
              intro o ho
              rw [h o ho, hok, vpOutcome_ok]
            · simp [hk, ht] at hok; exact absurd hok (errAt_ne_ok _ _)
          · simp [hk] at hok; exact absurd hok (errAt_ne_ok _ _)
  | reqObj r =>
    simp only [formThreads, handleForm] at hok ⊢
    have h1 := solo_burn_run cfg hg (reqObjReq r ((stGet cfg.expInclusive st now (reqObjKey r.id)).getD "")) (by simp [reqObjReq])
      (hx _) rfl rfl rfl st now
    have h2 := handleReqObj_eq_solo cfg cfg.ttl now st r ((stGet cfg.expInclusive st now (reqObjKey r.id)).getD "")
      (by intro x hx'; rw [hx']; rfl)
    intro o ho
    simp only [threadsOutcomes, Req.thread, List.mem_singleton] at ho
    rw [ho, h1.1, ← h2.1, hok]
    simp [reqObjOutcome]
  | landing t =>
    simp only [formThreads, handleForm] at hok ⊢
    by_cases ht : t = ""
    · simp [ht, handleLanding] at hok
    · simp only [ht, if_false]
      have h1 := solo_plain_run cfg hg (landingReq t) (Or.inl rfl) (hx _) rfl rfl rfl st now
      have h2 := handleLanding_eq_solo cfg cfg.ttl now st t ht
      intro o ho
      simp only [threadsOutcomes, Req.thread, List.mem_singleton] at ho
      rw [ho]
      have : landingReq t = { kind := .redirect, id := t } := rfl
      rw [← this, h1.1, ← h2.1, hok]
      simp [landingOutcome]
  | dpop r =>
    simp only [formThreads, handleForm, handleDpop] at hok ⊢
    cases h1 : r.parses <;> cases h2 : r.matchOk <;> cases h3 : r.athPresent <;> cases h4 : r.athOk <;>
      simp [h1, h2, h3, h4] at hok ⊢
    have h := solo_mark_run cfg ({ kind := .jti, id := r.jti } : MarkReq) (hm .jti) rfl rfl st now
    simp only [threadsOutcomes, Req.thread, List.mem_singleton, forall_eq]
    rw [h.1]
    unfold pifSeq at hok
    unfold soloMark
    simp only [MarkReq.key, jtiKey] at hok ⊢
    cases hgt : stGet cfg.expInclusive st now ⟨.mark .jti, r.jti⟩ <;> simp [hgt] at hok ⊢

end Nuts.C05
