/-
  C07 liveness lemmas, part K: two stuck pulls mean equal DAGs.
-/
import NutsModel.C07.Round
import NutsProofs.Lemmas.C07
import NutsProofs.Lemmas.C07LiveJ
open Nuts.Proto Nuts Nuts.Proto.L

namespace Nuts.Proto.Live

/-! ### Part K: two stuck pulls mean the DAGs are equal -/

theorem refFun_symm {a b : List Tx} (h : RefFun a b) : RefFun b a := by
  intro t ht t' ht' he
  exact h t ht.symm t' ht'.symm he

theorem pg_le_lc (cfg : Cfg) (d : List Tx) (t : Tx) (h : t ∈ d) : pg cfg t ≤ pageOf cfg (lcOf d) := pageOf_mono cfg (lcOf_ge d t h)

/-- `A`'s highest clock is the smaller one: if both sides are stuck beyond its page, the DAGs are equal -/
theorem same_of_beyond (cfg : Cfg) (hps : 0 < cfg.pageSize) (A B : List Tx) (hB : DagOK B) (q₀ : Nat) (hq : pageOf cfg (lcOf A) = q₀)
    (hBA : ∀ t ∈ B, pg cfg t ≤ q₀ + 1 → t ∈ A) (hAB : ∀ t ∈ A, pg cfg t ≤ q₀ + 1 → t ∈ B) :
    (∀ t ∈ B, t ∈ A) ∧ (∀ t ∈ A, t ∈ B) := by
  have hA_all : ∀ t ∈ A, t ∈ B := fun t ht => hAB t ht (by have := pg_le_lc cfg A t ht; omega)
  refine ⟨fun t ht => ?_, hA_all⟩
  by_cases hp : pg cfg t ≤ q₀ + 1
  · exact hBA t ht hp
  · -- a transaction of B two pages above A's top: B then has one exactly on the first clock of page q₀+1, which
    -- would be in A, above A's highest clock
    exfalso
    have hc : (q₀ + 1) * cfg.pageSize < t.clock := by
      have := clock_ge_of_pg_ge cfg hps t (q₀ + 2) (by omega)
      have h2 : (q₀ + 2) * cfg.pageSize = (q₀ + 1) * cfg.pageSize + cfg.pageSize := by
        rw [show q₀ + 2 = (q₀ + 1) + 1 from rfl, Nat.add_mul]; simp
      omega
    obtain ⟨t', ht', hc'⟩ := dagOK_clock_below hB t.clock t ht rfl ((q₀ + 1) * cfg.pageSize) hc
    have hpg : pg cfg t' = q₀ + 1 := by
      unfold pg pageOf; rw [hc']; exact Nat.mul_div_cancel _ hps
    have hin : t' ∈ A := hBA t' ht' (by omega)
    have := pg_le_lc cfg A t' hin
    omega

/-- **two stuck pulls**: if `a` pulling from `b` and `b` pulling from `a` both ended without anything new, the two
    DAGs hold the same transactions -/
theorem pair_stuck_same (cfg : Cfg) (hps : 0 < cfg.pageSize) (A B : List Tx) (hA : DagOK A) (hB : DagOK B)
    (h1 : StuckAt cfg A B (pageOf cfg (Nat.min (lcOf B) (lcOf A)))) (h2 : StuckAt cfg B A (pageOf cfg (Nat.min (lcOf A) (lcOf B)))) :
    (∀ t ∈ B, t ∈ A) ∧ (∀ t ∈ A, t ∈ B) := by
  have hminc : Nat.min (lcOf A) (lcOf B) = Nat.min (lcOf B) (lcOf A) := Nat.min_comm _ _
  rw [hminc] at h2
  generalize hq : pageOf cfg (Nat.min (lcOf B) (lcOf A)) = q₀ at h1 h2
  obtain ⟨k₁, hk₁, hs₁, hd₁⟩ := h1
  obtain ⟨k₂, hk₂, hs₂, hd₂⟩ := h2
  -- below min k₁ k₂ the two agree
  have same : ∀ k, k ≤ k₁ → k ≤ k₂ → SameUpTo cfg A B k ∧ SameUpTo cfg B A k := by
    intro k h1 h2
    have hab : ∀ r, UpTo cfg A k r → UpTo cfg B k r := by
      rintro r ⟨t, ht, hr, hp⟩; exact ⟨t, hs₂ t ht (by omega), hr, hp⟩
    have hba : ∀ r, UpTo cfg B k r → UpTo cfg A k r := by
      rintro r ⟨t, ht, hr, hp⟩; exact ⟨t, hs₁ t ht (by omega), hr, hp⟩
    exact ⟨fun r => ⟨hab r, hba r⟩, fun r => ⟨hba r, hab r⟩⟩
  have hk₁' : q₀ < k₁ := by
    apply Classical.byContradiction
    intro hn
    by_cases hle : k₁ ≤ k₂
    · exact hd₁ k₁ (Nat.le_refl _) (by omega) (same k₁ (Nat.le_refl _) hle).1
    · exact hd₂ k₂ (Nat.le_refl _) (by omega) (same k₂ (by omega) (Nat.le_refl _)).2
  have hk₂' : q₀ < k₂ := by
    apply Classical.byContradiction
    intro hn
    by_cases hle : k₁ ≤ k₂
    · exact hd₁ k₁ (Nat.le_refl _) (by omega) (same k₁ (Nat.le_refl _) hle).1
    · exact hd₂ k₂ (Nat.le_refl _) (by omega) (same k₂ (by omega) (Nat.le_refl _)).2
  have hBA : ∀ t ∈ B, pg cfg t ≤ q₀ + 1 → t ∈ A := fun t ht hp => hs₁ t ht (by omega)
  have hAB : ∀ t ∈ A, pg cfg t ≤ q₀ + 1 → t ∈ B := fun t ht hp => hs₂ t ht (by omega)
  by_cases hle : lcOf A ≤ lcOf B
  · have : Nat.min (lcOf B) (lcOf A) = lcOf A := Nat.min_eq_right hle
    rw [this] at hq
    exact same_of_beyond cfg hps A B hB q₀ hq hBA hAB
  · have : Nat.min (lcOf B) (lcOf A) = lcOf B := Nat.min_eq_left (by omega)
    rw [this] at hq
    have := same_of_beyond cfg hps B A hA q₀ hq hAB hBA
    exact ⟨this.2, this.1⟩

end Nuts.Proto.Live
