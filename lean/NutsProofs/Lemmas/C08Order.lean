/-
  C08 — the order of the listing: `FindBetweenLC(a, b)` is the stored transactions with clock in `[a, b)` sorted by
  (clock, ref bytes).  Core Lean only.
-/
import NutsProofs.Lemmas.C08List

namespace Nuts.C08

variable {n : Nat}

theorem txLt_asymm (a b : Tx) (h : txLt a b = true) : txLt b a = false := by
  simp only [txLt, Bool.or_eq_true, Bool.and_eq_true, decide_eq_true_eq, beq_iff_eq] at h
  simp only [txLt, Bool.or_eq_false_iff, Bool.and_eq_false_iff, decide_eq_false_iff_not, beq_eq_false_iff_ne]
  omega

theorem txLt_trans_le (a b c : Tx) (h1 : txLt b a = false) (h2 : txLt c b = false) : txLt c a = false := by
  simp only [txLt, Bool.or_eq_false_iff, Bool.and_eq_false_iff, decide_eq_false_iff_not, beq_eq_false_iff_ne] at *
  omega

theorem range'_pairwise_lt : ∀ (k s : Nat), (List.range' s k).Pairwise (· < ·) := by
  intro k
  induction k with
  | zero => intro s; simp
  | succ k ih =>
    intro s
    rw [List.range'_succ, List.pairwise_cons]
    refine ⟨?_, ih (s + 1)⟩
    intro x hx
    rw [List.mem_range'_1] at hx
    omega

theorem insertSorted_map {α β : Type} (lt : α → α → Bool) (lt' : β → β → Bool) (f : α → β) (x : α) :
    ∀ (l : List α), (∀ y ∈ l, lt' (f x) (f y) = lt x y) →
    insertSorted lt' (f x) (l.map f) = (insertSorted lt x l).map f := by
  intro l
  induction l with
  | nil => intro _; rfl
  | cons y ys ih =>
    intro h
    simp only [List.map_cons, insertSorted, h y (by simp)]
    by_cases hxy : lt x y = true
    · simp [hxy]
    · simp only [hxy, Bool.false_eq_true, if_false, List.map_cons]
      rw [ih (fun z hz => h z (by simp [hz]))]

theorem sortBy_map {α β : Type} (lt : α → α → Bool) (lt' : β → β → Bool) (f : α → β) :
    ∀ (l : List α), (∀ x ∈ l, ∀ y ∈ l, lt' (f x) (f y) = lt x y) → sortBy lt' (l.map f) = (sortBy lt l).map f := by
  intro l
  induction l with
  | nil => intro _; rfl
  | cons x xs ih =>
    intro h
    show insertSorted lt' (f x) (sortBy lt' (xs.map f)) = (insertSorted lt x (sortBy lt xs)).map f
    rw [ih (fun a ha b hb => h a (by simp [ha]) b (by simp [hb]))]
    apply insertSorted_map
    intro y hy
    exact h x (by simp) y (by simp [(sortBy_perm lt xs).subset hy])

/-- the clocks that occur, in shelf order -/
def clockKeys (d : Disk n) : List Nat := if d.txs = [] then [] else List.range' 0 (maxClock d.txs + 1)

def inWin (a b : Nat) : Nat → Bool := fun c => decide (a ≤ c ∧ c < b)

theorem clockKeys_nodup (d : Disk n) : (clockKeys d).Nodup := by
  unfold clockKeys; split
  · exact List.nodup_nil
  · exact List.nodup_range'

theorem clockKeys_sorted (d : Disk n) : (clockKeys d).Pairwise (· < ·) := by
  unfold clockKeys; split
  · exact List.Pairwise.nil
  · exact range'_pairwise_lt _ _

theorem mem_clockKeys {d : Disk n} {t : Tx} (ht : t ∈ d.txs) : t.clock ∈ clockKeys d := by
  have hne : d.txs ≠ [] := fun e => by rw [e] at ht; cases ht
  unfold clockKeys
  rw [if_neg hne, List.mem_range'_1]
  have := le_maxClock ht
  omega

/-- the per-clock blocks of the window, concatenated, are a permutation of the window -/
theorem blocks_window (d : Disk n) (a b : Nat) :
    (((clockKeys d).filter (inWin a b)).flatMap (fun c => d.txs.filter (fun t => t.clock == c))).Perm
      (d.txs.filter (fun t => decide (a ≤ t.clock ∧ t.clock < b))) := by
  refine (blocks_perm d.txs _ ((clockKeys_nodup d).filter _)).trans ?_
  apply List.Perm.of_eq
  apply List.filter_congr
  intro t ht
  have := mem_clockKeys ht
  simp only [List.contains_eq_any_beq, List.any_filter]
  by_cases hw : a ≤ t.clock ∧ t.clock < b
  · simp only [hw, and_self, decide_true]
    rw [List.any_eq_true]
    exact ⟨t.clock, this, by simp [inWin, hw]⟩
  · simp only [hw, decide_false]
    rw [List.any_eq_false]
    intro c _
    by_cases hc : c = t.clock
    · subst hc; simp [inWin, hw]
    · simp; intro _ e; exact absurd e.symm hc

theorem tx_eq_of_ref {d : Disk n} (nd : (d.txs.map (·.ref)).Nodup) {x y : Tx} (hx : x ∈ d.txs) (hy : y ∈ d.txs)
    (e : x.ref = y.ref) : x = y := by
  have h1 := getTx_self nd x hx
  have h2 := getTx_self nd y hy
  rw [e, h2] at h1
  exact (Option.some.inj h1).symm

/-- the refs `findBetweenLC` looks up: per clock of the window, ascending, the refs of that clock in byte order -/
def listedRefs (d : Disk n) (a b : Nat) : List Ref :=
  (((clockKeys d).filter (inWin a b)).map (fun c => sortBy Disk.refLt ((d.txs.filter (fun t => t.clock == c)).map (·.ref)))).flatten

theorem findBetweenLC_refs {d : Disk n} (g : GInv d) (a b : Nat) :
    d.findBetweenLC a b = .ok ((listedRefs d a b).filterMap d.getTx) ∧
    ((listedRefs d a b).filterMap d.getTx).map (·.ref) = listedRefs d a b := by
  have hrange : Disk.rangeClocks a b d.clocks none =
      (((clockKeys d).filter (inWin a b)).map (clockEntry d.txs)).map (·.2) := by
    have hk : d.clocks.map (·.1) = List.range' 0 (clockKeys d).length := by
      rw [g.keys]; unfold clockKeys
      split <;> simp
    rw [rangeClocks_spec a b d.clocks 0 (clockKeys d).length none hk (Or.inl rfl), g.clocks_eq]
    show (List.filter _ ((clockKeys d).map (clockEntry d.txs))).map _ = _
    rw [List.filter_map]
    rfl
  have hrefs : ((Disk.rangeClocks a b d.clocks none).map (sortBy Disk.refLt)).flatten = listedRefs d a b := by
    rw [hrange]; unfold listedRefs
    simp only [List.map_map]
    rfl
  have hmem : ∀ r ∈ listedRefs d a b, ∃ t, t ∈ d.txs ∧ t.ref = r := by
    intro r hr
    unfold listedRefs at hr
    simp only [List.mem_flatten, List.mem_map] at hr
    obtain ⟨blk, ⟨c, _, rfl⟩, hrb⟩ := hr
    have := (sortBy_perm Disk.refLt _).subset hrb
    simp only [List.mem_map, List.mem_filter] at this
    obtain ⟨t, ⟨ht, _⟩, rfl⟩ := this
    exact ⟨t, ht, rfl⟩
  have hfound : ∀ r ∈ listedRefs d a b, ∃ t, d.getTx r = some t := by
    intro r hr
    obtain ⟨t, ht, rfl⟩ := hmem r hr
    exact ⟨t, getTx_self g.nodup t ht⟩
  refine ⟨?_, ?_⟩
  · unfold Disk.findBetweenLC
    simp only [hrefs]
    exact foldr_getTx d _ hfound
  · have : ∀ (l : List Ref), (∀ r ∈ l, ∃ t, t ∈ d.txs ∧ t.ref = r) → (l.filterMap d.getTx).map (·.ref) = l := by
      intro l
      induction l with
      | nil => intro _; rfl
      | cons r rs ih =>
        intro h
        obtain ⟨t, ht, rfl⟩ := h r (by simp)
        simp only [List.filterMap_cons, getTx_self g.nodup t ht, List.map_cons]
        rw [ih (fun r' hr' => h r' (by simp [hr']))]
    exact this _ hmem

/-- **The listing is clock-ordered.** -/
theorem listedRefs_eq_spec {d : Disk n} (g : GInv d) (a b : Nat) : listedRefs d a b = specListing d.txs a b := by
  let Kw := (clockKeys d).filter (inWin a b)
  let blockTx : Nat → List Tx := fun c => sortBy txLt (d.txs.filter (fun t => t.clock == c))
  -- 1. the refs are the refs of the transaction-level blocks
  have h1 : listedRefs d a b = ((Kw.map blockTx).flatten).map (·.ref) := by
    unfold listedRefs
    rw [List.map_flatten, List.map_map]
    congr 1
    apply List.map_congr_left
    intro c _
    simp only [Function.comp, blockTx]
    apply sortBy_map
    intro x hx y hy
    have hx' := (List.mem_filter.mp hx).2
    have hy' := (List.mem_filter.mp hy).2
    simp only [beq_iff_eq] at hx' hy'
    simp [Disk.refLt, txLt, hx', hy']
  -- 2. the concatenated blocks are sorted by (clock, ref)
  have hsorted : ((Kw.map blockTx).flatten).Pairwise (leOf txLt) := by
    rw [List.pairwise_flatten]
    refine ⟨?_, ?_⟩
    · intro l hl
      simp only [List.mem_map] at hl
      obtain ⟨c, _, rfl⟩ := hl
      exact sortBy_pairwise txLt txLt_asymm txLt_trans_le _
    · rw [List.pairwise_map]
      have hK : Kw.Pairwise (· < ·) := (clockKeys_sorted d).filter _
      refine hK.imp ?_
      intro c1 c2 hlt x hx y hy
      have hx' := (List.mem_filter.mp ((sortBy_perm txLt _).subset hx)).2
      have hy' := (List.mem_filter.mp ((sortBy_perm txLt _).subset hy)).2
      simp only [beq_iff_eq] at hx' hy'
      show txLt y x = false
      simp only [txLt, Bool.or_eq_false_iff, Bool.and_eq_false_iff, decide_eq_false_iff_not, beq_eq_false_iff_ne]
      omega
  -- 3. they are a permutation of the window
  have hperm : ((Kw.map blockTx).flatten).Perm (d.txs.filter (fun t => decide (a ≤ t.clock ∧ t.clock < b))) := by
    have e : (Kw.map blockTx) = (Kw.map (fun c => d.txs.filter (fun t => t.clock == c))).map (sortBy txLt) := by
      rw [List.map_map]; rfl
    rw [e]
    refine (flatten_map_perm _ (sortBy_perm txLt) _).trans ?_
    exact blocks_window d a b
  -- 4. a sorted permutation is unique
  have heq : (Kw.map blockTx).flatten = sortBy txLt (d.txs.filter (fun t => decide (a ≤ t.clock ∧ t.clock < b))) := by
    apply List.Perm.eq_of_pairwise (le := leOf txLt) _ hsorted (sortBy_pairwise txLt txLt_asymm txLt_trans_le _)
      (hperm.trans (sortBy_perm txLt _).symm)
    intro x y hx hy hxy hyx
    have hxS : x ∈ d.txs := (List.mem_filter.mp (hperm.subset hx)).1
    have hyS : y ∈ d.txs := (List.mem_filter.mp ((sortBy_perm txLt _).subset hy)).1
    apply tx_eq_of_ref g.nodup hxS hyS
    have h1 : txLt y x = false := hxy
    have h2 : txLt x y = false := hyx
    simp only [txLt, Bool.or_eq_false_iff, Bool.and_eq_false_iff, decide_eq_false_iff_not, beq_eq_false_iff_ne] at h1 h2
    apply BitVec.eq_of_toNat_eq
    omega
  rw [h1, heq]
  rfl

/-- **`FindBetweenLC(a, b)`** (as refs) is the specification's listing -/
theorem listing_eq_spec {s : State n} (g : GInv s.disk) (a b : Nat) : listing s a b = .ok (specListing s.disk.txs a b) := by
  have h := findBetweenLC_refs g a b
  unfold listing
  rw [h.1]
  simp only []
  rw [h.2, listedRefs_eq_spec g]

end Nuts.C08
