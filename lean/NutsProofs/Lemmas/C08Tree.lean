/-
  C08 — lemmas about the generic tree model (NutsModel/C08/Tree.lean): algebra of `gsum`, the geometric invariant
  `Geo`, the data invariant `Wf`, and what `updateF`/`newBranch`/`grow`/`zeroTo` do to them.  Core Lean only.
-/
import NutsModel.C08.Tree

namespace Nuts.C08

variable {R G : Type}

/-! ### sums in the commutative group -/

def gsum (o : Ops R G) : List G → G
  | [] => o.zero
  | x :: xs => o.add x (gsum o xs)

theorem zero_add {o : Ops R G} (L : Lawful o) (a : G) : o.add o.zero a = a := by
  rw [L.add_comm, L.add_zero]

theorem gsum_append {o : Ops R G} (L : Lawful o) (xs ys : List G) :
    gsum o (xs ++ ys) = o.add (gsum o xs) (gsum o ys) := by
  induction xs with
  | nil => simp [gsum, zero_add L]
  | cons x xs ih => simp [gsum, ih, L.add_assoc]

/-- sum of the data of the (key, data) pairs whose page `key / ls` satisfies `q` -/
def fsum (o : Ops R G) (ls : Nat) (q : Nat → Bool) (l : List (Nat × G)) : G :=
  gsum o ((l.filter (fun kv => q (kv.1 / ls))).map (·.2))

theorem fsum_append {o : Ops R G} (L : Lawful o) (ls : Nat) (q : Nat → Bool) (xs ys : List (Nat × G)) :
    fsum o ls q (xs ++ ys) = o.add (fsum o ls q xs) (fsum o ls q ys) := by
  simp [fsum, List.filter_append, gsum_append L]

theorem fsum_nil (o : Ops R G) (ls : Nat) (q : Nat → Bool) : fsum o ls q [] = o.zero := rfl

theorem fsum_none {o : Ops R G} (ls : Nat) (q : Nat → Bool) (l : List (Nat × G))
    (h : ∀ kv ∈ l, q (kv.1 / ls) = false) : fsum o ls q l = o.zero := by
  unfold fsum
  rw [List.filter_eq_nil_iff.mpr]
  · rfl
  · intro kv hkv; simp [h kv hkv]

theorem fsum_all (o : Ops R G) (ls : Nat) (q : Nat → Bool) (l : List (Nat × G))
    (h : ∀ kv ∈ l, q (kv.1 / ls) = true) : fsum o ls q l = gsum o (l.map (·.2)) := by
  unfold fsum
  rw [List.filter_eq_self.mpr]
  intro kv hkv; simp [h kv hkv]

/-! ### semantic total of a node, data invariant -/

namespace Node

/-- sum of the leaf data below a node (specification side; `nil` has no leaves) -/
def total (o : Ops R G) : Node G → G
  | nil => o.zero
  | leaf _ _ d => d
  | branch _ _ _ l r => o.add (l.total o) (r.total o)

end Node

/-- every branch holds the sum of what is below it -/
def Wf (o : Ops R G) : Node G → Prop
  | .nil => True
  | .leaf _ _ _ => True
  | .branch _ _ d l r => d = o.add (l.total o) (r.total o) ∧ Wf o l ∧ Wf o r

theorem Wf.data_eq {o : Ops R G} {n : Node G} (h : Wf o n) : n.data o = n.total o := by
  cases n with
  | nil => rfl
  | leaf s l d => rfl
  | branch s l d a b => exact h.1

theorem total_eq_gsum {o : Ops R G} (L : Lawful o) (n : Node G) :
    n.total o = gsum o (n.leaves.map (·.2)) := by
  induction n with
  | nil => rfl
  | leaf s l d => simp [Node.total, Node.leaves, gsum, L.add_zero]
  | branch s l d a b iha ihb => simp [Node.total, Node.leaves, gsum_append L, iha, ihb]

/-! ### geometry: a node of height `h` covering the pages `[a, a + 2^h)` -/

def Geo (ls : Nat) : Nat → Nat → Node G → Prop
  | 0, a, .leaf s l _ => s = ls * a + ls / 2 ∧ l = ls * (a + 1)
  | h + 1, a, .branch s l _ left right =>
    s = ls * (a + 2 ^ h) ∧ l = ls * (a + 2 ^ (h + 1)) ∧ Geo ls h a left ∧ (right = .nil ∨ Geo ls h (a + 2 ^ h) right)
  | _, _, _ => False

theorem Geo.ne_nil {ls h a : Nat} {n : Node G} (g : Geo ls h a n) : n ≠ .nil := by
  intro e; subst e; cases h <;> simp [Geo] at g

theorem Geo.limit {ls h a : Nat} {n : Node G} (g : Geo ls h a n) : n.limit = ls * (a + 2 ^ h) := by
  cases h with
  | zero => cases n <;> simp [Geo] at g; simp [Node.limit, g.2]
  | succ h => cases n <;> simp [Geo] at g; simp [Node.limit, g.2.1]

theorem key_page {ls a : Nat} (hls : 0 < ls) : (ls * a + ls / 2) / ls = a := by
  apply Nat.div_eq_of_lt_le
  · rw [Nat.mul_comm]; omega
  · rw [Nat.add_mul, Nat.mul_comm]; omega

/-- the leaves below a `Geo` node lie on its pages -/
theorem Geo.leaf_pages {ls : Nat} (hls : 0 < ls) : ∀ (h a : Nat) (n : Node G), Geo ls h a n →
    ∀ kv ∈ n.leaves, a ≤ kv.1 / ls ∧ kv.1 / ls < a + 2 ^ h := by
  intro h
  induction h with
  | zero =>
    intro a n g kv hkv
    cases n <;> simp [Geo] at g
    simp [Node.leaves] at hkv
    subst hkv
    simp only [g.1, key_page hls]; omega
  | succ h ih =>
    intro a n g kv hkv
    cases n <;> simp [Geo] at g
    rename_i s l d left right
    simp [Node.leaves] at hkv
    have hp : 2 ^ (h + 1) = 2 ^ h + 2 ^ h := by rw [Nat.pow_succ]; omega
    rcases hkv with hkv | hkv
    · have := ih a left g.2.2.1 kv hkv; omega
    · rcases g.2.2.2 with e | gr
      · subst e; simp [Node.leaves] at hkv
      · have := ih _ right gr kv hkv; omega

/-! ### newBranch -/

theorem newBranchF_spec {o : Ops R G} (L : Lawful o) {ls : Nat} (hls : 0 < ls) :
    ∀ (h fuel a : Nat), h ≤ fuel →
      Geo ls h a (newBranchF o ls fuel (ls * a) (ls * (a + 2 ^ h))).1 ∧
      Wf o (newBranchF o ls fuel (ls * a) (ls * (a + 2 ^ h))).1 ∧
      (newBranchF o ls fuel (ls * a) (ls * (a + 2 ^ h))).1.total o = o.zero ∧
      (∀ kv ∈ (newBranchF o ls fuel (ls * a) (ls * (a + 2 ^ h))).1.leaves, kv.2 = o.zero) := by
  intro h
  induction h with
  | zero =>
    intro fuel a _
    have hsplit : (ls * (a + 2 ^ 0) + ls * a) / 2 = ls * a + ls / 2 := by
      simp only [Nat.pow_zero, Nat.mul_add, Nat.mul_one]; omega
    have hnot : ¬ (ls * (a + 2 ^ 0) - ls * a > ls) := by
      simp only [Nat.pow_zero, Nat.mul_add, Nat.mul_one]; omega
    cases fuel with
    | zero => simp [newBranchF, Geo, Wf, Node.total, Node.leaves, hsplit]
    | succ f => simp [newBranchF, hnot, Geo, Wf, Node.total, Node.leaves, hsplit]
  | succ h ih =>
    intro fuel a hf
    cases fuel with
    | zero => omega
    | succ f =>
      have hp : 2 ^ (h + 1) = 2 ^ h + 2 ^ h := by rw [Nat.pow_succ]; omega
      have hpos : 0 < 2 ^ h := Nat.two_pow_pos h
      have hsplit : (ls * (a + 2 ^ (h + 1)) + ls * a) / 2 = ls * (a + 2 ^ h) := by
        rw [hp]; simp only [Nat.mul_add]; omega
      have hgt : ls * (a + 2 ^ (h + 1)) - ls * a > ls := by
        rw [hp]; simp only [Nat.mul_add]
        have : ls ≤ ls * 2 ^ h := Nat.le_mul_of_pos_right ls hpos
        omega
      have := ih f a (by omega)
      simp only [newBranchF, hsplit, hgt, if_true]
      refine ⟨?_, ?_, ?_, ?_⟩
      · simp [Geo, this.1]
      · simp [Wf, this.2.1, this.2.2.1, Node.total, L.add_zero]
      · simp [Node.total, this.2.2.1, L.add_zero]
      · intro kv hkv; simp [Node.leaves] at hkv; exact this.2.2.2 kv hkv

theorem pow_le_mul_pow {ls h : Nat} (hls : 0 < ls) : h ≤ ls * 2 ^ h := by
  have : h < 2 ^ h := Nat.lt_two_pow_self
  have : 2 ^ h ≤ ls * 2 ^ h := Nat.le_mul_of_pos_left _ hls
  omega

theorem newBranch_spec {o : Ops R G} (L : Lawful o) {ls : Nat} (hls : 0 < ls) (h a : Nat) :
    Geo ls h a (newBranch o ls (ls * a) (ls * (a + 2 ^ h))).1 ∧
    Wf o (newBranch o ls (ls * a) (ls * (a + 2 ^ h))).1 ∧
    (newBranch o ls (ls * a) (ls * (a + 2 ^ h))).1.total o = o.zero ∧
    (∀ kv ∈ (newBranch o ls (ls * a) (ls * (a + 2 ^ h))).1.leaves, kv.2 = o.zero) := by
  unfold newBranch
  apply newBranchF_spec L hls
  have : ls * (a + 2 ^ h) - ls * a = ls * 2 ^ h := by simp [Nat.mul_add]
  rw [this]; exact pow_le_mul_pow hls

theorem gsum_zeros {o : Ops R G} (L : Lawful o) (l : List G) (h : ∀ x ∈ l, x = o.zero) : gsum o l = o.zero := by
  induction l with
  | nil => rfl
  | cons x xs ih =>
    simp only [gsum]
    rw [h x (by simp), ih (fun y hy => h y (by simp [hy])), L.add_zero]

theorem fsum_zeros {o : Ops R G} (L : Lawful o) (ls : Nat) (q : Nat → Bool) (l : List (Nat × G))
    (h : ∀ kv ∈ l, kv.2 = o.zero) : fsum o ls q l = o.zero := by
  unfold fsum
  apply gsum_zeros L
  intro x hx
  simp only [List.mem_map, List.mem_filter] at hx
  obtain ⟨kv, ⟨hkv, _⟩, rfl⟩ := hx
  exact h kv hkv

/-! ### the path update (Insert) -/

/-- `updateF` on a `Geo`/`Wf` node with enough fuel and a clock on the node's pages: shape and data invariant are
    kept, and every page-filtered sum of the leaves gains `δ` exactly when the clock's page passes the filter. -/
theorem updateF_spec {o : Ops R G} (L : Lawful o) {ls : Nat} (hls : 0 < ls) (f : G → G) (δ : G)
    (hf : ∀ d, f d = o.add d δ) (clock : Nat) :
    ∀ (h a fuel : Nat) (n : Node G), Geo ls h a n → Wf o n → h < fuel →
      ls * a ≤ clock → clock < ls * (a + 2 ^ h) →
      Geo ls h a (updateF o ls f clock fuel n).1 ∧ Wf o (updateF o ls f clock fuel n).1 ∧
      (updateF o ls f clock fuel n).1.total o = o.add (n.total o) δ ∧
      (∀ q : Nat → Bool, fsum o ls q (updateF o ls f clock fuel n).1.leaves =
        if q (clock / ls) then o.add (fsum o ls q n.leaves) δ else fsum o ls q n.leaves) := by
  intro h
  induction h with
  | zero =>
    intro a fuel n g w hfuel hlo hhi
    cases n <;> simp [Geo] at g
    rename_i s l d
    cases fuel with
    | zero => omega
    | succ fu =>
      have hpage : clock / ls = a := by
        apply Nat.div_eq_of_lt_le
        · rw [Nat.mul_comm]; exact hlo
        · rw [Nat.mul_comm]; simpa using hhi
      simp only [updateF]
      refine ⟨by simp [Geo, g], by simp [Wf], by simp [Node.total, hf], ?_⟩
      intro q
      simp only [fsum, Node.leaves, List.filter_cons, List.filter_nil, g.1, key_page hls, hpage]
      cases q a <;> simp [gsum, hf, L.add_zero]
  | succ h ih =>
    intro a fuel n g w hfuel hlo hhi
    cases n <;> simp [Geo] at g
    rename_i s l d left right
    obtain ⟨hs, hl, gl, gr⟩ := g
    obtain ⟨wd, wl, wr⟩ := w
    have hp : 2 ^ (h + 1) = 2 ^ h + 2 ^ h := by rw [Nat.pow_succ]; omega
    cases fuel with
    | zero => omega
    | succ fu =>
      by_cases hc : clock < s
      · -- left
        have := ih a fu left gl wl (by omega) hlo (by rw [← hs]; exact hc)
        obtain ⟨g1, w1, t1, q1⟩ := this
        simp only [updateF, hc, if_true]
        refine ⟨?_, ?_, ?_, ?_⟩
        · simp only [Geo]; exact ⟨hs, hl, g1, gr⟩
        · refine ⟨?_, w1, wr⟩
          rw [t1, hf, wd, L.add_assoc, L.add_assoc, L.add_comm (right.total o) δ]
        · simp only [Node.total, t1]
          rw [L.add_assoc, L.add_assoc, L.add_comm (right.total o) δ]
        · intro q
          simp only [Node.leaves, fsum_append L, q1 q]
          cases q (clock / ls) <;> simp
          rw [L.add_assoc, L.add_assoc, L.add_comm (fsum o ls q right.leaves) δ]
      · -- right
        have hlo' : ls * (a + 2 ^ h) ≤ clock := by rw [← hs]; omega
        have hhi' : clock < ls * (a + 2 ^ h + 2 ^ h) := by rw [Nat.add_assoc, ← hp]; exact hhi
        rcases gr with e | gr
        · -- right is nil: create the branch
          subst e
          have nb := newBranch_spec (o := o) L hls h (a + 2 ^ h)
          have hstop : ls * (a + 2 ^ h + 2 ^ h) = l := by rw [Nat.add_assoc, ← hp, hl]
          rw [hstop, ← hs] at nb
          obtain ⟨gn, wn, tn, zn⟩ := nb
          have := ih (a + 2 ^ h) fu _ gn wn (by omega) hlo' hhi'
          obtain ⟨g1, w1, t1, q1⟩ := this
          simp only [updateF, hc, if_false]
          refine ⟨?_, ?_, ?_, ?_⟩
          · simp only [Geo]; exact ⟨hs, hl, gl, Or.inr g1⟩
          · refine ⟨?_, wl, w1⟩
            rw [t1, tn, hf, wd]
            simp [Node.total, L.add_zero, zero_add L]
          · simp only [Node.total, t1, tn]
            simp [L.add_zero, zero_add L]
          · intro q
            simp only [Node.leaves, fsum_append L, q1 q, fsum_zeros L ls q _ zn, List.append_nil]
            cases q (clock / ls) <;> simp [zero_add L, L.add_zero]
        · have hne : right ≠ .nil := gr.ne_nil
          have := ih (a + 2 ^ h) fu right gr wr (by omega) hlo' hhi'
          obtain ⟨g1, w1, t1, q1⟩ := this
          have hupd : updateF o ls f clock (fu + 1) (.branch s l d left right) =
              ((.branch s l (f d) left (updateF o ls f clock fu right).1), (updateF o ls f clock fu right).2) := by
            cases right with
            | nil => exact absurd rfl hne
            | leaf _ _ _ => simp [updateF, hc]
            | branch _ _ _ _ _ => simp [updateF, hc]
          rw [hupd]
          refine ⟨?_, ?_, ?_, ?_⟩
          · simp only [Geo]; exact ⟨hs, hl, gl, Or.inr g1⟩
          · refine ⟨?_, wl, w1⟩
            rw [t1, hf, wd, L.add_assoc]
          · simp only [Node.total, t1, L.add_assoc]
          · intro q
            simp only [Node.leaves, fsum_append L, q1 q]
            cases q (clock / ls) <;> simp [L.add_assoc]

/-! ### the tree invariant; `new`, `reRoot`, `grow`, `updatePath` -/

structure TInv (o : Ops R G) (t : Tree G) : Prop where
  ls_pos : 0 < t.leafSize
  shape : ∃ h, Geo t.leafSize h 0 t.root ∧ t.treeSize = t.leafSize * 2 ^ h
  wf : Wf o t.root

theorem TInv.new (o : Ops R G) {ls : Nat} (hls : 0 < ls) : TInv o (Tree.new o ls) :=
  ⟨hls, ⟨0, by simp [Tree.new, Geo], by simp [Tree.new]⟩, by simp [Tree.new, Wf]⟩

theorem TInv.reRoot {o : Ops R G} (L : Lawful o) {t : Tree G} (i : TInv o t) :
    TInv o (Tree.reRoot o t) ∧ (Tree.reRoot o t).root.leaves = t.root.leaves ∧
    (Tree.reRoot o t).leafSize = t.leafSize ∧ (Tree.reRoot o t).treeSize = 2 * t.treeSize ∧
    (Tree.reRoot o t).dirty = t.dirty := by
  obtain ⟨h, g, hs⟩ := i.shape
  refine ⟨⟨i.ls_pos, ⟨h + 1, ?_, ?_⟩, ?_⟩, by simp [Tree.reRoot, Node.leaves], rfl, rfl, rfl⟩
  · simp only [Tree.reRoot, Geo, Nat.zero_add]
    refine ⟨hs, ?_, g, Or.inl trivial⟩
    rw [hs, Nat.pow_succ]; simp [Nat.mul_comm, Nat.mul_left_comm]
  · simp only [Tree.reRoot]; rw [hs, Nat.pow_succ]; simp [Nat.mul_comm, Nat.mul_left_comm]
  · simp only [Tree.reRoot, Wf]
    exact ⟨by rw [i.wf.data_eq]; simp [Node.total, L.add_zero], i.wf, trivial⟩

theorem growF_spec {o : Ops R G} (L : Lawful o) (clock : Nat) : ∀ (fuel : Nat) (t : Tree G), TInv o t →
    clock < t.treeSize * 2 ^ fuel →
    TInv o (Tree.growF o clock fuel t) ∧ clock < (Tree.growF o clock fuel t).treeSize ∧
    (Tree.growF o clock fuel t).root.leaves = t.root.leaves ∧
    (Tree.growF o clock fuel t).leafSize = t.leafSize ∧ (Tree.growF o clock fuel t).dirty = t.dirty ∧
    (Tree.growF o clock fuel t).orphaned = t.orphaned ∧
    (clock < t.treeSize → Tree.growF o clock fuel t = t) := by
  intro fuel
  induction fuel with
  | zero => intro t i h; simp at h; simp [Tree.growF, i, h]
  | succ f ih =>
    intro t i h
    by_cases hc : clock ≥ t.treeSize
    · have r := TInv.reRoot L i
      have := ih (Tree.reRoot o t) r.1 (by rw [r.2.2.2.1]; rw [Nat.pow_succ] at h; rw [Nat.mul_comm 2, Nat.mul_assoc, Nat.mul_comm 2]; exact h)
      simp only [Tree.growF, hc, if_true]
      refine ⟨this.1, this.2.1, by rw [this.2.2.1, r.2.1], by rw [this.2.2.2.1, r.2.2.1],
        by rw [this.2.2.2.2.1, r.2.2.2.2], by rw [this.2.2.2.2.2.1]; rfl, fun hlt => by omega⟩
    · have e : Tree.growF o clock (f + 1) t = t := by simp [Tree.growF, hc]
      rw [e]
      exact ⟨i, by omega, rfl, rfl, rfl, rfl, fun _ => rfl⟩

theorem grow_spec {o : Ops R G} (L : Lawful o) (clock : Nat) (t : Tree G) (i : TInv o t) :
    TInv o (Tree.grow o t clock) ∧ clock < (Tree.grow o t clock).treeSize ∧
    (Tree.grow o t clock).root.leaves = t.root.leaves ∧
    (Tree.grow o t clock).leafSize = t.leafSize ∧ (Tree.grow o t clock).dirty = t.dirty ∧
    (Tree.grow o t clock).orphaned = t.orphaned ∧
    (clock < t.treeSize → Tree.grow o t clock = t) := by
  apply growF_spec L clock (clock + 1) t i
  obtain ⟨h, _, hs⟩ := i.shape
  have : 0 < t.treeSize := by rw [hs]; exact Nat.mul_pos i.ls_pos (Nat.two_pow_pos h)
  have h2 : clock + 1 < 2 ^ (clock + 1) := Nat.lt_two_pow_self
  have : 2 ^ (clock + 1) ≤ t.treeSize * 2 ^ (clock + 1) := Nat.le_mul_of_pos_left _ this
  omega

/-- `updateOrCreatePath` with a translation `f = (· + δ)`: invariant kept; every page-filtered leaf sum gains `δ`
    exactly when the clock's page passes the filter -/
theorem updatePath_spec {o : Ops R G} (L : Lawful o) (t : Tree G) (i : TInv o t) (clock : Nat) (f : G → G) (δ : G)
    (hf : ∀ d, f d = o.add d δ) :
    TInv o (Tree.updatePath o t clock f) ∧ (Tree.updatePath o t clock f).leafSize = t.leafSize ∧
    (∀ q : Nat → Bool, fsum o t.leafSize q (Tree.updatePath o t clock f).root.leaves =
      if q (clock / t.leafSize) then o.add (fsum o t.leafSize q t.root.leaves) δ
      else fsum o t.leafSize q t.root.leaves) := by
  have g := grow_spec L clock t i
  obtain ⟨gi, glt, gleaves, gls, _⟩ := g
  obtain ⟨h, geo, hs⟩ := gi.shape
  have hls := gi.ls_pos
  have u := updateF_spec L hls f δ hf clock h 0 (Tree.grow o t clock).treeSize (Tree.grow o t clock).root geo gi.wf
    (by rw [hs]; have := pow_le_mul_pow (h := h) hls; have : h < 2 ^ h := Nat.lt_two_pow_self
        have : 2 ^ h ≤ (Tree.grow o t clock).leafSize * 2 ^ h := Nat.le_mul_of_pos_left _ hls
        omega)
    (by simp) (by simpa [hs] using glt)
  obtain ⟨g1, w1, _, q1⟩ := u
  refine ⟨⟨hls, ⟨h, g1, hs⟩, w1⟩, gls, ?_⟩
  intro q
  have := q1 q
  simp only [Tree.updatePath]
  rw [← gls, ← gleaves]
  exact this


/-! ### ZeroTo -/

@[simp] theorem Node.data_leaf (o : Ops R G) (s l : Nat) (d : G) : (Node.leaf s l d).data o = d := rfl
@[simp] theorem Node.data_branch (o : Ops R G) (s l : Nat) (d : G) (a b : Node G) :
    (Node.branch s l d a b).data o = d := rfl

theorem zeroTo_left {o : Ops R G} {c s l : Nat} {d : G} {left right : Node G} (acc : G)
    (hc : c < s) (hl : left ≠ .nil) (hr : right ≠ .nil) :
    (Node.branch s l d left right).zeroTo o c acc = left.zeroTo o c (o.sub acc (right.data o)) := by
  cases right with
  | nil => exact absurd rfl hr
  | leaf _ _ _ => cases left with
    | nil => exact absurd rfl hl
    | leaf _ _ _ => simp [Node.zeroTo, hc]
    | branch _ _ _ _ _ => simp [Node.zeroTo, hc]
  | branch _ _ _ _ _ => cases left with
    | nil => exact absurd rfl hl
    | leaf _ _ _ => simp [Node.zeroTo, hc]
    | branch _ _ _ _ _ => simp [Node.zeroTo, hc]

theorem zeroTo_left_nil {o : Ops R G} {c s l : Nat} {d : G} {left : Node G} (acc : G)
    (hc : c < s) (hl : left ≠ .nil) :
    (Node.branch s l d left .nil).zeroTo o c acc = left.zeroTo o c acc := by
  cases left with
  | nil => exact absurd rfl hl
  | leaf _ _ _ => simp [Node.zeroTo, hc]
  | branch _ _ _ _ _ => simp [Node.zeroTo, hc]

theorem zeroTo_right {o : Ops R G} {c s l : Nat} {d : G} {left right : Node G} (acc : G)
    (hc : ¬ c < s) (hr : right ≠ .nil) :
    (Node.branch s l d left right).zeroTo o c acc = right.zeroTo o c acc := by
  cases right with
  | nil => exact absurd rfl hr
  | leaf _ _ _ => simp [Node.zeroTo, hc]
  | branch _ _ _ _ _ => simp [Node.zeroTo, hc]

theorem zeroTo_right_nil {o : Ops R G} {c s l : Nat} {d : G} {left : Node G} (acc : G) (hc : ¬ c < s) :
    (Node.branch s l d left .nil).zeroTo o c acc = (acc, (Node.branch s l d left .nil).rightmost) := by
  simp [Node.zeroTo, hc]

/-- the loop of `ZeroTo` entered at a `Geo`/`Wf` node with `data = x + n.data` returns `x` plus the leaves of `n` on
    pages `≤ clock / ls` -/
theorem zeroTo_spec {o : Ops R G} (L : Lawful o) {ls : Nat} (hls : 0 < ls) (c : Nat) :
    ∀ (h a : Nat) (n : Node G) (x : G), Geo ls h a n → Wf o n → ls * a ≤ c →
      (n.zeroTo o c (o.add x (n.data o))).1 = o.add x (fsum o ls (fun p => decide (p ≤ c / ls)) n.leaves) := by
  intro h
  induction h with
  | zero =>
    intro a n x g w hlo
    cases n <;> simp [Geo] at g
    rename_i s l d
    have : a ≤ c / ls := by rw [Nat.le_div_iff_mul_le hls, Nat.mul_comm]; exact hlo
    simp [Node.zeroTo, fsum, Node.leaves, g.1, key_page hls, this, gsum, L.add_zero]
  | succ h ih =>
    intro a n x g w hlo
    cases n <;> simp [Geo] at g
    rename_i s l d left right
    obtain ⟨hs, hl, gl, gr⟩ := g
    obtain ⟨wd, wl, wr⟩ := w
    have hlne : left ≠ .nil := gl.ne_nil
    have pl := Geo.leaf_pages hls h a left gl
    by_cases hc : c < s
    · -- go left, subtracting the right child
      have hpage : c / ls < a + 2 ^ h := by
        rw [Nat.div_lt_iff_lt_mul hls, Nat.mul_comm, ← hs]; exact hc
      have hr0 : fsum o ls (fun p => decide (p ≤ c / ls)) right.leaves = o.zero := by
        apply fsum_none
        intro kv hkv
        rcases gr with e | gr
        · subst e; simp [Node.leaves] at hkv
        · have := Geo.leaf_pages hls h _ right gr kv hkv
          simp; omega
      have hz : (Node.branch s l d left right).zeroTo o c (o.add x d) = left.zeroTo o c (o.add x (left.data o)) := by
        rcases gr with e | gr
        · subst e
          rw [zeroTo_left_nil _ hc hlne, wd, wl.data_eq]
          simp [Node.total, L.add_zero]
        · rw [zeroTo_left _ hc hlne gr.ne_nil, wd, wr.data_eq, wl.data_eq, ← L.add_assoc, L.add_sub]
      rw [Node.data_branch, hz, ih a left x gl wl hlo]
      simp only [Node.leaves, fsum_append L, hr0, L.add_zero]
    · -- go right
      have hpage : a + 2 ^ h ≤ c / ls := by
        rw [Nat.le_div_iff_mul_le hls, Nat.mul_comm, ← hs]; omega
      have hleft : fsum o ls (fun p => decide (p ≤ c / ls)) left.leaves = left.total o := by
        rw [fsum_all, ← total_eq_gsum L]
        intro kv hkv
        have := pl kv hkv
        simp; omega
      rcases gr with e | gr
      · subst e
        rw [Node.data_branch, zeroTo_right_nil _ hc]
        simp only [Node.leaves, List.append_nil, hleft, wd, Node.total, L.add_zero]
      · rw [Node.data_branch, zeroTo_right _ hc gr.ne_nil, wd, ← L.add_assoc, ← wr.data_eq,
          ih (a + 2 ^ h) right _ gr wr (by rw [← hs]; omega)]
        simp only [Node.leaves, fsum_append L, hleft, L.add_assoc]

theorem Tree.zeroTo_data {o : Ops R G} (L : Lawful o) (t : Tree G) (i : TInv o t) (c : Nat) :
    (t.zeroTo o c).1 = fsum o t.leafSize (fun p => decide (p ≤ c / t.leafSize)) t.root.leaves := by
  obtain ⟨h, g, _⟩ := i.shape
  have := zeroTo_spec L i.ls_pos c h 0 t.root o.zero g i.wf (by simp)
  rw [zero_add L, zero_add L] at this
  exact this

theorem Tree.root_data {o : Ops R G} (L : Lawful o) (t : Tree G) (i : TInv o t) :
    t.rootData o = fsum o t.leafSize (fun _ => true) t.root.leaves := by
  unfold Tree.rootData
  rw [i.wf.data_eq, total_eq_gsum L, fsum_all]
  intro _ _; rfl

/-- `Insert`: invariant kept; the sum of the leaves on any set `q` of pages gains the reference exactly when the clock's
    page is in `q` -/
theorem insert_spec {o : Ops R G} (L : Lawful o) (t : Tree G) (i : TInv o t) (r : R) (clock : Nat) :
    TInv o (t.insert o r clock) ∧ (t.insert o r clock).leafSize = t.leafSize ∧
    ∀ q : Nat → Bool, fsum o t.leafSize q (t.insert o r clock).root.leaves =
      if q (clock / t.leafSize) then o.ins (fsum o t.leafSize q t.root.leaves) r
      else fsum o t.leafSize q t.root.leaves := by
  have := updatePath_spec L t i clock (fun d => o.ins d r) (o.ins o.zero r) (fun d => L.ins_eq d r)
  refine ⟨this.1, this.2.1, fun q => ?_⟩
  rw [Tree.insert, this.2.2 q, ← L.ins_eq]

end Nuts.C08
