/-
  C07 deepening: lemmas about the modelled IBLT (NutsModel/C07/Iblt.lean): bucketIndices yields distinct in-range
  buckets; pointwise semantics of Insert / Delete / Subtract.
-/
import NutsModel.C07.Iblt
open Nuts.Proto Nuts

namespace Nuts.Proto.Iblt

/-- distinct and below `n` -/
def GoodIdx (n : Nat) (l : List Nat) : Prop := l.Nodup ∧ ∀ x ∈ l, x < n

theorem goodIdx_nil (n : Nat) : GoodIdx n [] := ⟨List.nodup_nil, fun _ h => by cases h⟩

theorem goodIdx_add {n : Nat} {l : List Nat} {b : Nat} (h : GoodIdx n l) (hb : b < n) :
    GoodIdx n (if l.contains b then l else l ++ [b]) := by
  by_cases hc : l.contains b = true
  · simp only [hc, if_true]; exact h
  · have hc' : l.contains b = false := by cases hx : l.contains b <;> simp_all
    simp only [hc', Bool.false_eq_true, if_false]
    have hnm : b ∉ l := by
      intro hm; exact hc (List.contains_iff_mem.mpr hm)
    refine ⟨?_, ?_⟩
    · rw [List.nodup_append]
      refine ⟨h.1, by simp, ?_⟩
      intro a ha c hc' heq
      rw [List.mem_singleton] at hc'
      subst hc'; subst heq; exact hnm ha
    · intro x hx
      rcases List.mem_append.mp hx with hx | hx
      · exact h.2 x hx
      · rw [List.mem_singleton] at hx; subst hx; exact hb

theorem chainLoop_good (H : Hash) {n : Nat} (hn : 0 < n) (k : Nat) :
    ∀ (steps : Nat) (acc : List Nat) (next last : Nat), GoodIdx n acc → GoodIdx n (chainLoop H n k steps acc next last).1 := by
  intro steps
  induction steps with
  | zero => intro acc next last h; exact h
  | succ s ih =>
    intro acc next last h
    unfold chainLoop
    by_cases hl : acc.length < k
    · simp only [hl, if_true]
      exact ih _ _ _ (goodIdx_add h (Nat.mod_lt _ hn))
    · simp only [hl, if_false]; exact h

theorem probeLoop_good {n : Nat} (hn : 0 < n) (k last : Nat) :
    ∀ (cnt off : Nat) (acc : List Nat), GoodIdx n acc → GoodIdx n (probeLoop n k last cnt off acc) := by
  intro cnt
  induction cnt with
  | zero => intro off acc h; exact h
  | succ c ih =>
    intro off acc h
    unfold probeLoop
    by_cases hl : acc.length < k
    · simp only [hl, if_true]
      exact ih _ _ (goodIdx_add h (Nat.mod_lt _ hn))
    · simp only [hl, if_false]; exact h

/-- **`bucketIndices` returns pairwise distinct bucket numbers, all inside the table** — for every hash function, every
    key hash and every table size ≥ 1 (so Insert followed by Delete of a key cancels exactly, and no index panics) -/
theorem bucketIndices_good (H : Hash) (P : Par) {n : Nat} (hn : 0 < n) (hash : Nat) : GoodIdx n (bucketIndices H P n hash) := by
  unfold bucketIndices
  simp only
  generalize hk : (if P.k > n then n else P.k) = k
  have h1 := chainLoop_good H hn k P.maxChain [] (H.chain0 hash) 0 (goodIdx_nil n)
  generalize chainLoop H n k P.maxChain [] (H.chain0 hash) 0 = r at h1
  obtain ⟨acc, last⟩ := r
  exact probeLoop_good hn k last (n - 1) 1 acc h1


/-! ### bucket algebra -/
def Bucket.plus (b c : Bucket) : Bucket := ⟨b.count + c.count, b.hashSum ^^^ c.hashSum, b.keySum ^^^ c.keySum⟩

theorem xor_cancel_mid (a b : Nat) : a ^^^ b ^^^ b = a := by rw [Nat.xor_assoc, Nat.xor_self, Nat.xor_zero]

theorem Bucket.ext' {b c : Bucket} (h1 : b.count = c.count) (h2 : b.hashSum = c.hashSum) (h3 : b.keySum = c.keySum) : b = c := by
  cases b; cases c; simp_all

theorem Bucket.ins_comm (b : Bucket) (x hx y hy : Nat) : (b.ins x hx).ins y hy = (b.ins y hy).ins x hx := by
  apply Bucket.ext' <;> simp only [Bucket.ins] <;> first | omega | ac_rfl

theorem Bucket.ins_del (b : Bucket) (x hx : Nat) : (b.ins x hx).del x hx = b := by
  apply Bucket.ext' <;> simp only [Bucket.ins, Bucket.del] <;> first | omega | exact xor_cancel_mid _ _

theorem Bucket.del_ins (b : Bucket) (x hx : Nat) : (b.del x hx).ins x hx = b := by
  apply Bucket.ext' <;> simp only [Bucket.ins, Bucket.del] <;> first | omega | exact xor_cancel_mid _ _

/-! ### pointwise view of the table operations -/

theorem modAt_length (t : Table) (i : Nat) (f : Bucket → Bucket) : (modAt t i f).length = t.length := by
  induction t generalizing i with
  | nil => rfl
  | cons b t ih => cases i <;> simp [modAt, ih]

theorem modAt_get (t : Table) (i j : Nat) (f : Bucket → Bucket) :
    (modAt t i f)[j]? = if i = j then (t[j]?).map f else t[j]? := by
  induction t generalizing i j with
  | nil => simp [modAt]
  | cons b t ih =>
    cases i with
    | zero => cases j <;> simp [modAt]
    | succ i => cases j <;> simp [modAt, ih]

theorem foldl_modAt_length (f : Bucket → Bucket) (idxs : List Nat) (t : Table) :
    (idxs.foldl (fun t i => modAt t i f) t).length = t.length := by
  induction idxs generalizing t with
  | nil => rfl
  | cons i is ih => simp only [List.foldl_cons]; rw [ih, modAt_length]

theorem foldl_modAt_get (f : Bucket → Bucket) (idxs : List Nat) (hnd : idxs.Nodup) (t : Table) (j : Nat) :
    (idxs.foldl (fun t i => modAt t i f) t)[j]? = if j ∈ idxs then (t[j]?).map f else t[j]? := by
  induction idxs generalizing t with
  | nil => simp
  | cons i is ih =>
    have hnd' := List.nodup_cons.mp hnd
    simp only [List.foldl_cons]
    rw [ih hnd'.2, modAt_get]
    by_cases hij : i = j
    · subst hij
      simp [hnd'.1]
    · have : ¬ j = i := fun h => hij h.symm
      simp [hij, this]


/-! ### the table as a function of a signed key set -/
section Sem
variable (H : Hash) (P : Par) (n : Nat)

/-- is bucket `j` one of the buckets of key `x`? -/
def inB (j : Nat) (x : Ref) : Bool := (bucketIndices H P n (H.hashKey x)).contains j

/-- the content of bucket `j` of the IBLT of the keys `L` -/
def sumB (j : Nat) : List Ref → Bucket
  | [] => Bucket.zero
  | x :: L => if inB H P n j x then (sumB j L).ins x (H.hashKey x) else sumB j L

theorem insert_length (t : Table) (r : Ref) : (insert H P t r).length = t.length := by
  unfold insert; exact foldl_modAt_length _ _ _

theorem delete_length (t : Table) (r : Ref) : (delete H P t r).length = t.length := by
  unfold delete; exact foldl_modAt_length _ _ _

theorem insert_get (hn : 0 < n) (t : Table) (ht : t.length = n) (r : Ref) (j : Nat) :
    (insert H P t r)[j]? = if inB H P n j r then (t[j]?).map (fun b => b.ins r (H.hashKey r)) else t[j]? := by
  unfold insert inB
  simp only [ht]
  have hg := (bucketIndices_good H P hn (H.hashKey r)).1
  have := foldl_modAt_get (fun b => b.ins r (H.hashKey r)) _ hg t j
  simp only [List.contains_iff_mem] 
  exact this

theorem delete_get (hn : 0 < n) (t : Table) (ht : t.length = n) (r : Ref) (j : Nat) :
    (delete H P t r)[j]? = if inB H P n j r then (t[j]?).map (fun b => b.del r (H.hashKey r)) else t[j]? := by
  unfold delete inB
  simp only [ht]
  have hg := (bucketIndices_good H P hn (H.hashKey r)).1
  have := foldl_modAt_get (fun b => b.del r (H.hashKey r)) _ hg t j
  simp only [List.contains_iff_mem]
  exact this

theorem Bucket.ins_plus (b s : Bucket) (x hx : Nat) : (b.ins x hx).plus s = b.plus (s.ins x hx) := by
  apply Bucket.ext' <;> simp only [Bucket.ins, Bucket.plus] <;> first | omega | ac_rfl

theorem Bucket.zero_plus (s : Bucket) : Bucket.zero.plus s = s := by
  apply Bucket.ext' <;> simp [Bucket.zero, Bucket.plus]

theorem foldl_insert_length (L : List Ref) (t : Table) : (L.foldl (insert H P) t).length = t.length := by
  induction L generalizing t with
  | nil => rfl
  | cons x L ih => simp only [List.foldl_cons]; rw [ih, insert_length]

theorem foldl_insert_get (hn : 0 < n) (j : Nat) : ∀ (L : List Ref) (t : Table), t.length = n → ∀ b, t[j]? = some b →
    (L.foldl (insert H P) t)[j]? = some (b.plus (sumB H P n j L)) := by
  intro L
  induction L with
  | nil =>
    intro t _ b hb
    simp only [List.foldl_nil, sumB, hb]
    congr 1; apply Bucket.ext' <;> simp [Bucket.zero, Bucket.plus]
  | cons x L ih =>
    intro t ht b hb
    simp only [List.foldl_cons]
    have hl : (insert H P t x).length = n := by rw [insert_length, ht]
    have hg := insert_get H P n hn t ht x j
    by_cases hin : inB H P n j x = true
    · rw [hin, if_pos rfl, hb] at hg
      rw [ih _ hl _ hg]
      simp only [sumB, hin, if_true, Option.map_some, Bucket.ins_plus]
    · have hin' : inB H P n j x = false := by cases h : inB H P n j x <;> simp_all
      rw [hin', hb] at hg
      simp only [Bool.false_eq_true, if_false] at hg
      rw [ih _ hl _ hg]
      simp only [sumB, hin', Bool.false_eq_true, if_false]

theorem zeroTable_get {j : Nat} (hj : j < n) : (zeroTable n)[j]? = some Bucket.zero := by
  simp [zeroTable, hj]

theorem encode_length (L : List Ref) : (encode H P n L).length = n := by
  unfold encode; rw [foldl_insert_length]; simp [zeroTable]

theorem encode_get (hn : 0 < n) (L : List Ref) {j : Nat} (hj : j < n) : (encode H P n L)[j]? = some (sumB H P n j L) := by
  unfold encode
  rw [foldl_insert_get H P n hn j L _ (by simp [zeroTable]) _ (zeroTable_get n hj), Bucket.zero_plus]

end Sem

section Sem2
variable (H : Hash) (P : Par) (n : Nat)

theorem sumB_perm (j : Nat) {L L' : List Ref} (h : L.Perm L') : sumB H P n j L = sumB H P n j L' := by
  induction h with
  | nil => rfl
  | cons x _ ih => simp only [sumB, ih]
  | swap x y l =>
    simp only [sumB]
    by_cases hx : inB H P n j x = true <;> by_cases hy : inB H P n j y = true <;> simp [hx, hy, Bucket.ins_comm]
  | trans _ _ ih1 ih2 => rw [ih1, ih2]

theorem Bucket.plus_ins (b s : Bucket) (x hx : Nat) : (b.plus s).ins x hx = (b.ins x hx).plus s := by
  apply Bucket.ext' <;> simp only [Bucket.ins, Bucket.plus] <;> first | omega | ac_rfl

theorem Bucket.plus_ins_right (b s : Bucket) (x hx : Nat) : (b.plus s).ins x hx = b.plus (s.ins x hx) := by
  apply Bucket.ext' <;> simp only [Bucket.ins, Bucket.plus] <;> first | omega | ac_rfl

theorem Bucket.zero_plus_zero : Bucket.zero.plus Bucket.zero = Bucket.zero := by decide

/-- split a key list by a predicate -/
theorem sumB_split (j : Nat) (q : Ref → Bool) (L : List Ref) :
    sumB H P n j L = (sumB H P n j (L.filter q)).plus (sumB H P n j (L.filter (fun x => !q x))) := by
  induction L with
  | nil => simp [sumB, Bucket.zero_plus_zero]
  | cons x L ih =>
    by_cases hq : q x = true
    · by_cases hx : inB H P n j x = true
      · simp only [List.filter_cons, hq, sumB, hx, if_true, Bool.not_true, Bool.false_eq_true, if_false]
        rw [ih, Bucket.plus_ins]
      · simp [List.filter_cons, hq, sumB, hx, ih]
    · by_cases hx : inB H P n j x = true
      · simp only [List.filter_cons, hq, sumB, hx, if_true, if_false, Bool.not_eq_true, Bool.not_false]
        rw [ih, Bucket.plus_ins_right]
        simp
      · simp [List.filter_cons, hq, sumB, hx, ih]

theorem Bucket.cancel (x y c : Bucket) : (x.plus c).sub (y.plus c) = x.sub y := by
  apply Bucket.ext' <;> simp only [Bucket.sub, Bucket.plus]
  · omega
  · rw [show x.hashSum ^^^ c.hashSum ^^^ (y.hashSum ^^^ c.hashSum) = x.hashSum ^^^ y.hashSum ^^^ (c.hashSum ^^^ c.hashSum) by ac_rfl, Nat.xor_self, Nat.xor_zero]
  · rw [show x.keySum ^^^ c.keySum ^^^ (y.keySum ^^^ c.keySum) = x.keySum ^^^ y.keySum ^^^ (c.keySum ^^^ c.keySum) by ac_rfl, Nat.xor_self, Nat.xor_zero]

/-- the table represents the signed key set `A` (count +1) / `B` (count −1) -/
def Rep (t : Table) (A B : List Ref) : Prop :=
  t.length = n ∧ ∀ j, j < n → t[j]? = some ((sumB H P n j A).sub (sumB H P n j B))

/-- **Subtract of two encodings represents the two-sided difference** (the common keys cancel) -/
theorem subtract_rep (hn : 0 < n) {loc peer : List Ref} (hl : loc.Nodup) (hp : peer.Nodup) :
    ∃ t, subtract (encode H P n loc) (encode H P n peer) = some t ∧
      Rep H P n t (loc.filter (fun x => !peer.contains x)) (peer.filter (fun x => !loc.contains x)) := by
  refine ⟨List.zipWith Bucket.sub (encode H P n loc) (encode H P n peer), ?_, ?_, ?_⟩
  · simp [subtract, encode_length]
  · simp [encode_length]
  · intro j hj
    rw [List.getElem?_zipWith, encode_get H P n hn loc hj, encode_get H P n hn peer hj]
    show some _ = some _
    congr 1
    rw [sumB_split H P n j (fun x => !peer.contains x) loc, sumB_split H P n j (fun x => !loc.contains x) peer]
    have hperm : (loc.filter (fun x => !!peer.contains x)).Perm (peer.filter (fun x => !!loc.contains x)) := by
      apply (List.perm_ext_iff_of_nodup (hl.filter _) (hp.filter _)).mpr
      intro a
      simp only [List.mem_filter, Bool.not_not, List.contains_iff_mem]
      exact ⟨fun h => ⟨h.2, h.1⟩, fun h => ⟨h.2, h.1⟩⟩
    rw [sumB_perm H P n j hperm, Bucket.cancel]

end Sem2

end Nuts.Proto.Iblt
