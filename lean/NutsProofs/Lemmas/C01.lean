import NutsModel.C01.Verifier
namespace Nuts.C01

/-! helper lemmas for C01 (core Lean only) -/

theorem guard_pass_iff (b : Bool) (cls : String) : guard b cls = .pass ↔ b = true := by
  unfold guard; cases b <;> simp

theorem guard_not_panic (b : Bool) (cls s : String) : guard b cls ≠ .panic s := by
  unfold guard; cases b <;> simp

/-- accept ⇔ every check passes -/
theorem runChecks_ok_iff {α} (l : List (Check α)) (x : α) :
    runChecks l x = .ok () ↔ ∀ c ∈ l, c.run x = .pass := by
  induction l with
  | nil => simp [runChecks]
  | cons c cs ih =>
    unfold runChecks
    cases h : c.run x with
    | pass => simp [h, ih]
    | fail e => simp [h]
    | panic s => simp [h]

theorem runChecks_append_ok_iff {α} (l₁ l₂ : List (Check α)) (x : α) :
    runChecks (l₁ ++ l₂) x = .ok () ↔ runChecks l₁ x = .ok () ∧ runChecks l₂ x = .ok () := by
  simp only [runChecks_ok_iff, List.mem_append]
  constructor
  · intro h; exact ⟨fun c hc => h c (Or.inl hc), fun c hc => h c (Or.inr hc)⟩
  · intro ⟨h1, h2⟩ c hc; cases hc with
    | inl h => exact h1 c h
    | inr h => exact h2 c h

theorem runChecks_perm {α} {l l' : List (Check α)} (h : l.Perm l') (x : α) :
    runChecks l x = .ok () ↔ runChecks l' x = .ok () := by
  simp only [runChecks_ok_iff]
  constructor
  · intro hl c hc; exact hl c (h.mem_iff.mpr hc)
  · intro hl c hc; exact hl c (h.mem_iff.mp hc)

theorem runChecks_map_lift {α β} (f : β → α) (l : List (Check α)) (x : β) :
    runChecks (l.map (lift f)) x = runChecks l (f x) := by
  induction l with
  | nil => simp [runChecks]
  | cons c cs ih =>
    simp only [List.map, runChecks, lift]
    cases c.run (f x) <;> simp [ih]

theorem lookupKey_mem {base : Option String} {l : List (String × Key)} {kid : String} {k : Key}
    (h : lookupKey base l kid = some k) : ∃ id, (id, k) ∈ l ∧ keyIdMatches base id kid = true := by
  unfold lookupKey at h
  cases hf : l.find? (fun p => keyIdMatches base p.1 kid) with
  | none => simp [hf] at h
  | some p =>
    simp [hf] at h
    have hm := List.mem_of_find?_eq_some hf
    have hp := List.find?_some hf
    cases p with
    | mk a b => simp at h; subst h; exact ⟨a, hm, hp⟩

/-- a key that is the first entry under its (absolute) id is found -/
theorem lookupKey_head (base : Option String) (kid : String) (k : Key) (rest : List (String × Key)) :
    lookupKey base ((kid, k) :: rest) kid = some k := by
  simp [lookupKey, List.find?, keyIdMatches]

/-- without @base only the exact id matches -/
theorem keyIdMatches_none (id kid : String) : keyIdMatches none id kid = true ↔ id = kid := by
  simp [keyIdMatches]

theorem credValidAt_iff (cfg : Cfg) (c : Cred) (t : Time) :
    credValidAt cfg c t = true ↔ c.issued ≤ t + cfg.maxSkew ∧ ∀ e, c.expires = some e → t - cfg.maxSkew ≤ e := by
  unfold credValidAt
  cases h : c.expires with
  | none => simp
  | some e => simp

theorem proofValidAt_iff (cfg : Cfg) (p : Proof) (t : Time) :
    proofValidAt cfg p t = true ↔ p.created ≤ t + cfg.maxSkew ∧ ∀ e, p.expires = some e → t ≤ e + cfg.maxSkew := by
  unfold proofValidAt
  cases h : p.expires with
  | none => simp
  | some e => simp

/-! ## what acceptance means -/

/-- key `k` is listed among the ASSERTION methods of the document that `kid`'s DID resolves to at the validation time, under
    an id that is `kid` itself or — when the document declares an @base — the relative id that @base completes to `kid` -/
def AuthorisedAt (E : Env) (at_ : Option Time) (kid : String) (k : Key) : Prop :=
  ∃ d doc id, E.didOfURL kid = some d ∧ E.resolve at_ d = some doc ∧ (id, k) ∈ doc.assertion ∧
    keyIdMatches doc.base id kid = true

theorem resolveKeyByID_some {E : Env} {at_ : Option Time} {kid : String} {k : Key}
    (h : resolveKeyByID E at_ kid = some k) : AuthorisedAt E at_ kid k := by
  unfold resolveKeyByID at h
  cases hd : E.didOfURL kid with
  | none => simp [hd] at h
  | some d =>
    simp only [hd] at h
    cases hr : E.resolve at_ d with
    | none => simp [hr] at h
    | some doc =>
      simp only [hr] at h
      obtain ⟨id, hm, hk⟩ := lookupKey_mem h
      exact ⟨d, doc, id, hd, hr, hm, hk⟩

/-- the linked-data proof conjuncts -/
def LdSigned (cfg : Cfg) (P : Crypto) (E : Env) (at_ : Option Time) (issuer : String) (doc : Bytes) (s : LdDoc) : Prop :=
  s.caseVariant = false ∧ ∃ p k, s.proof = .one p ∧ p.vm ≠ "" ∧ beforeHash p.vm = issuer ∧ AuthorisedAt E at_ p.vm k ∧
    resolveKeyByID E at_ p.vm = some k ∧
    P.sigOK k (tbs P p doc) p.jws = true ∧ proofValidAt cfg p (atOf E at_) = true

/-- the JWT conjuncts -/
def JwtSigned (cfg : Cfg) (P : Crypto) (E : Env) (at_ : Option Time) (issuer : String) (raw : String) (j : Option JwtInfo) : Prop :=
  ∃ i k, j = some i ∧ (i.kid = "" ∨ beforeHash i.kid = issuer) ∧ AuthorisedAt E at_ (jwtKeyID i.kid issuer) k ∧
    resolveKeyByID E at_ (jwtKeyID i.kid issuer) = some k ∧
    (cfg.supportedAlgs.contains i.alg = true ∧ algorithmFitsKey i.alg (P.keyKind k) = true) ∧
    P.sigOK k (P.jwtInput raw) i.sig = true ∧ jwtTimeOK i (atOf E at_) = true

theorem ld_accept_iff {cfg : Cfg} {P : Crypto} {E : Env} {at_ : Option Time} {issuer : String} {doc : Bytes} {s : LdDoc} :
    runChecks (ldChecks cfg P E at_ issuer doc) s = .ok () ↔ (issuer ≠ "" ∧ LdSigned cfg P E at_ issuer doc s) := by
  rw [runChecks_ok_iff]
  constructor
  · intro h
    have h0 := h ldNoCaseVariant (by simp [ldChecks])
    have h1 := h ldProofDecodes (by simp [ldChecks])
    have h2 := h ldProofPresent (by simp [ldChecks])
    have h3 := h (ldVmOfIssuer issuer) (by simp [ldChecks])
    have h4 := h (ldProofValidAt cfg E at_) (by simp [ldChecks])
    have h5 := h (ldKeyResolves E at_) (by simp [ldChecks])
    have h6 := h (ldSignature P E at_ doc) (by simp [ldChecks])
    simp only [ldNoCaseVariant, guard_pass_iff] at h0
    cases hs : s.proof with
    | absent => simp [ldProofPresent, hs] at h2
    | malformed => simp [ldProofDecodes, hs] at h1
    | one p =>
      simp only [ldProofPresent, hs, guard_pass_iff] at h2
      simp only [ldVmOfIssuer, hs, guard_pass_iff] at h3
      simp only [ldProofValidAt, hs, guard_pass_iff] at h4
      simp only [ldKeyResolves, hs, guard_pass_iff] at h5
      simp only [ldSignature, hs] at h6
      cases hk : resolveKeyByID E at_ p.vm with
      | none => simp [hk] at h5
      | some k =>
        simp only [hk, guard_pass_iff] at h6
        simp at h3 h2 h0
        refine ⟨?_, h0, p, k, hs, h2, h3.2, resolveKeyByID_some hk, hk, h6, h4⟩
        intro hi; rw [hi] at h3; exact h3.1 h3.2
  · intro ⟨hi, hcv, p, k, hs, hvm, hb, _, hk, hsig, hv⟩ c hc
    simp [ldChecks] at hc
    rcases hc with rfl | rfl | rfl | rfl | rfl | rfl | rfl
    · simp [ldNoCaseVariant, guard_pass_iff, hcv]
    · simp [ldProofDecodes, hs]
    · simp [ldProofPresent, hs, guard_pass_iff, hvm]
    · simp only [ldVmOfIssuer, hs, guard_pass_iff]; simp [hb, hi]
    · simp [ldProofValidAt, hs, guard_pass_iff, hv]
    · simp [ldKeyResolves, hs, guard_pass_iff, hk]
    · simp [ldSignature, hs, hk, guard_pass_iff, hsig]

theorem jwt_accept_iff {cfg : Cfg} {P : Crypto} {E : Env} {at_ : Option Time} {issuer raw : String} {j : Option JwtInfo} :
    runChecks (jwtChecks cfg P E at_ issuer raw) j = .ok () ↔ JwtSigned cfg P E at_ issuer raw j := by
  rw [runChecks_ok_iff]
  constructor
  · intro h
    have h1 := h jwtParses (by simp [jwtChecks])
    have h2 := h (jwtKeyResolves E at_ issuer) (by simp [jwtChecks])
    have h3 := h (jwtAlgSupported cfg) (by simp [jwtChecks])
    have h4 := h (jwtSignature P E at_ issuer raw) (by simp [jwtChecks])
    have h7 := h (jwtAlgFitsKey P E at_ issuer) (by simp [jwtChecks])
    have h5 := h (jwtClock E at_) (by simp [jwtChecks])
    have h6 := h (jwtKidOfIssuer issuer) (by simp [jwtChecks])
    cases j with
    | none => simp [jwtParses, guard_pass_iff] at h1
    | some i =>
      simp only [jwtKeyResolves, guard_pass_iff] at h2
      simp only [jwtAlgSupported, guard_pass_iff] at h3
      simp only [jwtSignature] at h4
      simp only [jwtAlgFitsKey] at h7
      simp only [jwtClock, guard_pass_iff] at h5
      simp only [jwtKidOfIssuer, guard_pass_iff] at h6
      cases hk : resolveKeyByID E at_ (jwtKeyID i.kid issuer) with
      | none => simp [hk] at h2
      | some k =>
        simp only [hk, guard_pass_iff] at h4 h7
        simp at h6
        exact ⟨i, k, rfl, h6, resolveKeyByID_some hk, hk, ⟨h3, h7⟩, h4, h5⟩
  · intro ⟨i, k, hj, hkid, _, hk, halg, hsig, ht⟩ c hc
    subst hj
    simp [jwtChecks] at hc
    rcases hc with rfl | rfl | rfl | rfl | rfl | rfl | rfl
    · simp [jwtParses, guard_pass_iff]
    · simp [jwtKeyResolves, guard_pass_iff, hk]
    · simp only [jwtAlgSupported, guard_pass_iff]; exact halg.1
    · simp [jwtAlgFitsKey, hk, guard_pass_iff, halg.2]
    · simp [jwtSignature, hk, guard_pass_iff, hsig]
    · simp [jwtClock, guard_pass_iff, ht]
    · simp only [jwtKidOfIssuer, guard_pass_iff]; simpa using hkid

theorem chkMaxTypes_iff (c : Cred) : chkMaxTypes.run c = .pass ↔ c.types.length ≤ 2 := by
  simp [chkMaxTypes, guard_pass_iff]

theorem chkNotRevoked_iff (E : Env) (c : Cred) :
    (chkNotRevoked E).run c = .pass ↔ ∀ id, c.id = some id → (E.storeFails = false ∧ E.revoked id = false) := by
  unfold chkNotRevoked
  cases h : c.id with
  | none => simp [h]
  | some id => simp [h, guard_pass_iff]

theorem chkStatusList_iff (E : Env) (c : Cred) : (chkStatusList E).run c = .pass ↔ statusVerdict E c ≠ .revoked := by
  simp [chkStatusList, guard_pass_iff]

theorem chkTrusted_iff (E : Env) (au : Bool) (c : Cred) :
    (chkTrusted E au).run c = .pass ↔ (au = true ∨ ∀ t ∈ c.types, t ≠ vcType → E.trusted t c.issuer = true) := by
  simp only [chkTrusted, guard_pass_iff, Bool.or_eq_true, List.all_eq_true, beq_iff_eq]
  constructor
  · intro h; cases h with
    | inl h => exact Or.inl h
    | inr h => exact Or.inr (fun t ht hne => by cases h t ht with | inl h => exact absurd h hne | inr h => exact h)
  · intro h; cases h with
    | inl h => exact Or.inl h
    | inr h => exact Or.inr (fun t ht => by
        by_cases hv : t = vcType
        · exact Or.inl hv
        · exact Or.inr (h t ht hv))

theorem chkValidAt_iff (cfg : Cfg) (E : Env) (at_ : Option Time) (c : Cred) :
    (chkValidAt cfg E at_).run c = .pass ↔
      (c.issued ≤ atOf E at_ + cfg.maxSkew ∧ ∀ e, c.expires = some e → atOf E at_ - cfg.maxSkew ≤ e) := by
  simp only [chkValidAt, guard_pass_iff, credValidAt_iff]

theorem issuerChecks_ok_iff (E : Env) (at_ : Option Time) (c : Cred) :
    runChecks (issuerChecks E at_) c = .ok () ↔ ∃ d, E.parseDID c.issuer = some d ∧ (E.resolve at_ d).isSome = true := by
  rw [runChecks_ok_iff]
  simp only [issuerChecks, List.mem_cons, List.not_mem_nil, or_false, forall_eq_or_imp, forall_eq]
  unfold chkIssuerIsDID chkIssuerResolves
  cases h : E.parseDID c.issuer with
  | none => simp [h]
  | some d => simp [h, guard_pass_iff]

def SigValid (cfg : Cfg) (P : Crypto) (E : Env) (at_ : Option Time) (c : Cred) : Prop :=
  match c.format with
  | .ld => c.issuer ≠ "" ∧ LdSigned cfg P E at_ c.issuer (P.canon c.stripProof) { proof := c.proof, caseVariant := c.caseVariant }
  | .jwt => JwtSigned cfg P E at_ c.issuer c.raw c.jwt
  | .other => False

theorem signatureChecks_ok_iff {cfg : Cfg} {P : Crypto} {E : Env} {at_ : Option Time} {c : Cred} :
    runChecks (signatureChecks cfg P E at_ c) c = .ok () ↔ SigValid cfg P E at_ c := by
  unfold signatureChecks SigValid
  cases c.format with
  | ld => simp only [runChecks_map_lift]; exact ld_accept_iff
  | jwt => simp only [runChecks_map_lift]; exact jwt_accept_iff
  | other => simp [runChecks, chkFormat]

/-- the conjunction of all checks of `Verify` -/
def VcAccept (cfg : Cfg) (P : Crypto) (E : Env) (au checkSig : Bool) (at_ : Option Time) (c : Cred) : Prop :=
  validate E c = .pass ∧ c.types.length ≤ 2 ∧ (∀ id, c.id = some id → (E.storeFails = false ∧ E.revoked id = false)) ∧
  statusVerdict E c ≠ .revoked ∧
  (au = true ∨ ∀ t ∈ c.types, t ≠ vcType → E.trusted t c.issuer = true) ∧
  (c.issued ≤ atOf E at_ + cfg.maxSkew ∧ ∀ e, c.expires = some e → atOf E at_ - cfg.maxSkew ≤ e) ∧
  (checkSig = true → (∃ d, E.parseDID c.issuer = some d ∧ (E.resolve at_ d).isSome = true) ∧ SigValid cfg P E at_ c)

theorem preChecks_ok_iff {cfg : Cfg} {E : Env} {au : Bool} {at_ : Option Time} {c : Cred} :
    runChecks (preChecks cfg E au at_) c = .ok () ↔
      (validate E c = .pass ∧ c.types.length ≤ 2 ∧ (∀ id, c.id = some id → (E.storeFails = false ∧ E.revoked id = false)) ∧
       statusVerdict E c ≠ .revoked ∧
       (au = true ∨ ∀ t ∈ c.types, t ≠ vcType → E.trusted t c.issuer = true) ∧
       (c.issued ≤ atOf E at_ + cfg.maxSkew ∧ ∀ e, c.expires = some e → atOf E at_ - cfg.maxSkew ≤ e)) := by
  rw [runChecks_ok_iff]
  simp only [preChecks, List.mem_cons, List.not_mem_nil, or_false, forall_eq_or_imp, forall_eq]
  rw [chkMaxTypes_iff, chkNotRevoked_iff, chkStatusList_iff, chkTrusted_iff, chkValidAt_iff]
  simp only [chkValidator]

theorem verify_ok_iff {cfg : Cfg} {P : Crypto} {E : Env} {au cs : Bool} {at_ : Option Time} {c : Cred} :
    verify cfg P E au cs at_ c = .ok () ↔ VcAccept cfg P E au cs at_ c := by
  unfold verify vcChecks VcAccept
  rw [runChecks_append_ok_iff, preChecks_ok_iff]
  cases cs with
  | false => simp [runChecks]
  | true =>
    simp only [if_true, runChecks_append_ok_iff, issuerChecks_ok_iff, signatureChecks_ok_iff, true_implies]
    constructor
    · intro ⟨⟨a, b, c', d, e, f⟩, g⟩; exact ⟨a, b, c', d, e, f, g⟩
    · intro ⟨a, b, c', d, e, f, g⟩; exact ⟨⟨a, b, c', d, e, f⟩, g⟩

theorem verifyVCs_ok_iff (cfg : Cfg) (P : Crypto) (E : Env) (au : Bool) (at_ : Option Time) (vp : Pres) (l : List Cred) :
    verifyVCs cfg P E au at_ vp l = .ok () ↔ ∀ c ∈ l, verify cfg P E au (vcCheckSig vp c) at_ c = .ok () := by
  induction l with
  | nil => simp [verifyVCs]
  | cons c cs ih =>
    unfold verifyVCs
    cases h : verify cfg P E au (vcCheckSig vp c) at_ c with
    | ok u => simp [h, ih]
    | err e => simp [h]
    | panic s => simp [h]

theorem subjectDID_ne_empty {c : Cred} {d : String} (h : subjectDID c = some d) : d ≠ "" := by
  unfold subjectDID at h
  cases hs : c.subjects with
  | none => simp [hs] at h
  | some l =>
    cases l with
    | nil => simp [hs] at h
    | cons s rest =>
      simp only [hs] at h
      split at h
      · cases s with
        | empty => simp at h
        | did x =>
          simp only at h
          split at h
          · cases h
          · rename_i hne; cases h; simpa using hne
      · cases h

/-- with a non-empty accumulator, ResolveSubjectDID only succeeds when every credential has exactly that subject -/
theorem resolveSubjectDID_acc {l : List Cred} {acc d : String} (hacc : acc ≠ "")
    (h : resolveSubjectDID l acc = some d) : d = acc ∧ ∀ c ∈ l, subjectDID c = some acc := by
  induction l generalizing acc with
  | nil => simp [resolveSubjectDID] at h; exact ⟨h.symm, by simp⟩
  | cons c cs ih =>
    unfold resolveSubjectDID at h
    cases hs : subjectDID c with
    | none => simp [hs] at h
    | some x =>
      simp only [hs] at h
      split at h
      · cases h
      · rename_i hcond
        have hx : acc = x := by
          simp at hcond
          exact hcond hacc
        subst hx
        obtain ⟨h1, h2⟩ := ih hacc h
        refine ⟨h1, ?_⟩
        intro c' hc'
        cases hc' with
        | head => exact hs
        | tail _ hm => exact h2 c' hm

/-- ResolveSubjectDID from the empty accumulator: all credentials share the returned subject -/
theorem resolveSubjectDID_all {l : List Cred} {d : String} (h : resolveSubjectDID l "" = some d) :
    (l = [] ∧ d = "") ∨ (d ≠ "" ∧ ∀ c ∈ l, subjectDID c = some d) := by
  cases l with
  | nil => simp [resolveSubjectDID] at h; exact Or.inl ⟨rfl, h⟩
  | cons c cs =>
    right
    unfold resolveSubjectDID at h
    cases hs : subjectDID c with
    | none => simp [hs] at h
    | some x =>
      simp only [hs] at h
      have hx := subjectDID_ne_empty hs
      simp at h
      obtain ⟨h1, h2⟩ := resolveSubjectDID_acc hx h
      subst h1
      refine ⟨hx, ?_⟩
      intro c' hc'
      cases hc' with
      | head => exact hs
      | tail _ hm => exact h2 c' hm

def VpSigValid (cfg : Cfg) (P : Crypto) (E : Env) (at_ : Option Time) (vp : Pres) (signer : String) : Prop :=
  match vp.format with
  | .ld => signer ≠ "" ∧ LdSigned cfg P E at_ signer (P.canonVP vp.stripProof) { proof := vp.proof, caseVariant := vp.caseVariant }
  | .jwt => JwtSigned cfg P E at_ signer vp.raw vp.jwt
  | .other => False

theorem vpSignatureChecks_ok_iff {cfg : Cfg} {P : Crypto} {E : Env} {at_ : Option Time} {vp : Pres} {signer : String} :
    runChecks (vpSignatureChecks cfg P E at_ vp signer) vp = .ok () ↔ VpSigValid cfg P E at_ vp signer := by
  unfold vpSignatureChecks VpSigValid
  cases vp.format with
  | ld => simp only [runChecks_map_lift]; exact ld_accept_iff
  | jwt => simp only [runChecks_map_lift]; exact jwt_accept_iff
  | other => simp [runChecks, chkFormat]

/-- the conjunction of all checks of `doVerifyVP` -/
def VpAccept (cfg : Cfg) (P : Crypto) (E : Env) (verifyVCsFlag au : Bool) (at_ : Option Time) (vp : Pres) : Prop :=
  ∃ s d, presentationSigner E vp = some s ∧ resolveSubjectDID vp.vcs "" = some d ∧
    (s = d ∨ vp.vcs = []) ∧ (s = d → vp.holder = none ∨ vp.holder = some s) ∧
    VpSigValid cfg P E at_ vp s ∧
    (verifyVCsFlag = true → ∀ c ∈ vp.vcs, verify cfg P E au (vcCheckSig vp c) at_ c = .ok ())

theorem vpHeadChecks_ok_iff {E : Env} {vp : Pres} :
    runChecks (vpHeadChecks E) vp = .ok () ↔
      ∃ s d, presentationSigner E vp = some s ∧ resolveSubjectDID vp.vcs "" = some d ∧
        (s = d ∨ vp.vcs = []) ∧ (s = d → vp.holder = none ∨ vp.holder = some s) := by
  rw [runChecks_ok_iff]
  simp only [vpHeadChecks, List.mem_cons, List.not_mem_nil, or_false, forall_eq_or_imp, forall_eq]
  unfold vpResolves vpSignerIsSubject vpHolderIsSubject
  cases hs : presentationSigner E vp with
  | none => simp [hs, guard_pass_iff]
  | some s =>
    cases hd : resolveSubjectDID vp.vcs "" with
    | none => simp [hs, hd, guard_pass_iff]
    | some d =>
      simp only [hs, hd, guard_pass_iff]
      simp
      intro _
      constructor
      · intro h hsd
        rcases h with (h | h) | h
        · exact absurd hsd h
        · exact Or.inl h
        · exact Or.inr h
      · intro h
        by_cases hsd : s = d
        · cases h hsd with
          | inl h => exact Or.inl (Or.inr h)
          | inr h => exact Or.inr h
        · exact Or.inl (Or.inl hsd)

theorem verifyVP_ok_iff {cfg : Cfg} {P : Crypto} {E : Env} {vf au : Bool} {at_ : Option Time} {vp : Pres} :
    verifyVP cfg P E vf au at_ vp = .ok () ↔ VpAccept cfg P E vf au at_ vp := by
  unfold verifyVP VpAccept
  cases hh : runChecks (vpHeadChecks E) vp with
  | err e =>
    simp only []
    constructor
    · intro h; cases h
    · intro ⟨s, d, h1, h2, h3, h4, _⟩
      have := vpHeadChecks_ok_iff.mpr ⟨s, d, h1, h2, h3, h4⟩
      rw [hh] at this; cases this
  | panic e =>
    simp only []
    constructor
    · intro h; cases h
    · intro ⟨s, d, h1, h2, h3, h4, _⟩
      have := vpHeadChecks_ok_iff.mpr ⟨s, d, h1, h2, h3, h4⟩
      rw [hh] at this; cases this
  | ok u =>
    obtain ⟨s, d, h1, h2, h3, h4⟩ := vpHeadChecks_ok_iff.mp (by rw [hh])
    simp only [h1, Option.getD_some]
    cases hsg : runChecks (vpSignatureChecks cfg P E at_ vp s) vp with
    | err e =>
      simp only []
      constructor
      · intro h; cases h
      · intro ⟨s', d', h1', _, _, _, h5, _⟩
        cases h1'
        have := vpSignatureChecks_ok_iff.mpr h5
        rw [hsg] at this; cases this
    | panic e =>
      simp only []
      constructor
      · intro h; cases h
      · intro ⟨s', d', h1', _, _, _, h5, _⟩
        cases h1'
        have := vpSignatureChecks_ok_iff.mpr h5
        rw [hsg] at this; cases this
    | ok u' =>
      have h5 := vpSignatureChecks_ok_iff.mp (by rw [hsg])
      simp only []
      cases vf with
      | false =>
        constructor
        · intro _; exact ⟨s, d, rfl, h2, h3, h4, h5, by intro h; cases h⟩
        · intro _; simp
      | true =>
        simp only [if_true, verifyVCs_ok_iff, true_implies]
        constructor
        · intro h; exact ⟨s, d, rfl, h2, h3, h4, h5, h⟩
        · intro ⟨s', d', h1', _, _, _, _, h6⟩; exact h6

/-- the members of a credential the canonical form has to determine (the canonicalisation contract), given which
    credentialSubject paths the JSON-LD context defines -/
structure SignedView where
  id : Option String
  types : List String
  issuer : String
  issued : Time
  expires : Option Time
  subjects : Option (List SubjId)
  statuses : Option (List Status)
  claims : List (String × String)
  deriving DecidableEq

def signedView (defined : String → Bool) (c : Cred) : SignedView :=
  { id := c.id, types := c.types, issuer := c.issuer, issued := c.issued, expires := c.expires, subjects := c.subjects,
    statuses := c.statuses, claims := c.claims.filter (fun m => defined m.1) }

/-- everything the node reads from a JWT credential -/
def jwtView (c : Cred) : SignedView × Option (String × String × Option Time × Option Time × Option Time) :=
  (signedView (fun _ => true) c, c.jwt.map (fun j => (j.kid, j.alg, j.nbf, j.exp, j.iat)))


theorem runChecks_congr_arg {α} (l : List (Check α)) (x x' : α) (h : ∀ c ∈ l, c.run x = c.run x') :
    runChecks l x = runChecks l x' := by
  induction l with
  | nil => rfl
  | cons c cs ih =>
    unfold runChecks
    rw [h c (by simp)]
    cases c.run x' with
    | pass => exact ih (fun c' hc' => h c' (by simp [hc']))
    | fail e => rfl
    | panic s => rfl

/-- `Verify` reads the claims of a credential only through the canonical form -/
theorem verify_congr_claims (cfg : Cfg) (P : Crypto) (E : Env) (au cs : Bool) (at_ : Option Time) (c : Cred)
    (cl : List (String × String))
    (hcanon : P.canon (Cred.stripProof { c with claims := cl }) = P.canon c.stripProof) :
    verify cfg P E au cs at_ { c with claims := cl } = verify cfg P E au cs at_ c := by
  unfold verify vcChecks
  have hsig : signatureChecks cfg P E at_ { c with claims := cl } = signatureChecks cfg P E at_ c := by
    unfold signatureChecks
    simp only [hcanon]
  rw [hsig]
  apply runChecks_congr_arg
  intro chk hchk
  simp only [List.mem_append] at hchk
  rcases hchk with hchk | hchk
  · simp [preChecks] at hchk
    rcases hchk with rfl | rfl | rfl | rfl | rfl | rfl <;> rfl
  · cases cs with
    | false => simp at hchk
    | true =>
      simp only [if_true, List.mem_append] at hchk
      rcases hchk with hchk | hchk
      · simp [issuerChecks] at hchk
        rcases hchk with rfl | rfl <;> rfl
      · unfold signatureChecks at hchk
        cases hf : c.format with
        | ld =>
          simp only [hf, List.mem_map] at hchk
          obtain ⟨a, _, rfl⟩ := hchk
          rfl
        | jwt =>
          simp only [hf, List.mem_map] at hchk
          obtain ⟨a, _, rfl⟩ := hchk
          rfl
        | other =>
          simp only [hf, List.mem_singleton] at hchk
          subst hchk
          rfl


theorem validate_congr {E E' : Env} (h : E'.didOfURL = E.didOfURL) (c : Cred) : validate E' c = validate E c := by
  unfold validate validateNuts validateNutsCredentialID
  rw [h]

theorem validateDefault_pass {c : Cred} (h : validateDefault c = .pass) : c.issuer ≠ "" := by
  unfold validateDefault at h
  rw [guard_pass_iff] at h
  simp at h
  exact h.1.1.1.2

theorem validate_pass_issuer {E : Env} {c : Cred} (h : validate E c = .pass) : c.issuer ≠ "" := by
  unfold validate at h
  split at h
  · exact validateDefault_pass h
  all_goals
    unfold validateNuts at h
    split at h
    · split at h
      · exact validateDefault_pass h
      · cases h
    · rename_i o hne; 
      cases o <;> simp_all

theorem beforeHash_empty : beforeHash "" = "" := by decide

theorem issued_types_le_two (t : Template)
    (h : ¬(t.types.length == 0 || t.types.length > 2 || (t.types.length == 2 && !t.types.contains vcType)) = true) :
    (if t.types.contains vcType then t.types else t.types ++ [vcType]).length ≤ 2 := by
  simp at h
  split
  · omega
  · rename_i hc
    simp only [List.length_append, List.length_cons, List.length_nil]
    have : t.types.length ≠ 2 := by
      intro h2
      have := h.2 h2
      simp at hc
      simp_all
    omega

theorem resolveSubjectDID_of_all {l : List Cred} {s acc : String}
    (hall : ∀ c ∈ l, subjectDID c = some s) (hacc : acc = "" ∨ acc = s) :
    resolveSubjectDID l acc = some (if l.isEmpty then acc else s) := by
  induction l generalizing acc with
  | nil => simp [resolveSubjectDID]
  | cons c cs ih =>
    unfold resolveSubjectDID
    rw [hall c (by simp)]
    simp only
    have hcond : (acc != "" && acc != s) = false := by
      cases hacc with
      | inl h => simp [h]
      | inr h => simp [h]
    simp only [hcond]
    rw [ih (fun c' hc' => hall c' (by simp [hc'])) (Or.inr rfl)]
    simp

/-- what the signature of a JSON-LD presentation has to determine: the holder and the carried credentials (as a multiset:
    JSON-LD has no order of graphs) — linked-data credentials through their signed view, JWT credentials as their string -/
def signedViewVP (defined : String → Bool) (vp : Pres) : Option String × List (SignedView × String) :=
  (vp.holder, vp.vcs.map (fun c => (signedView defined c, c.raw)))

/-! ## trust store -/

theorem alGet_alPut_same (m : List (String × List String)) (k : String) (v : List String) :
    alGet (alPut m k v) k = some v := by
  simp [alGet, alPut]

theorem alGet_filter_ne (m : List (String × List String)) (k k' : String) (h : k' ≠ k) :
    alGet (m.filter (fun p => !(p.1 == k))) k' = alGet m k' := by
  unfold alGet
  rw [List.find?_filter]
  congr 2
  funext a
  by_cases ha : a.1 = k'
  · simp [ha, h]
  · simp [ha]

theorem alGet_alPut_other (m : List (String × List String)) (k k' : String) (v : List String) (h : k' ≠ k) :
    alGet (alPut m k v) k' = alGet m k' := by
  have := alGet_filter_ne m k k' h
  unfold alPut
  unfold alGet at this ⊢
  have hk : (k == k') = false := by simp; exact fun e => h e.symm
  rw [List.find?_cons]
  simp only [hk]
  exact this

theorem isTrusted_alPut_same (s : TrustStore) (t i : String) (l : List String) :
    isTrusted (alPut s t l) t i = l.contains i := by
  simp [isTrusted, trustList, alGet_alPut_same]

theorem untrust_effective (s : TrustStore) (t i : String) (hi : i ≠ "") :
    isTrusted (removeTrust s t i) t i = false := by
  unfold removeTrust
  cases h : isTrusted s t i with
  | false => simp [h]
  | true =>
    simp only [Bool.not_true, Bool.false_eq_true, if_false]
    rw [isTrusted_alPut_same]
    simp only [List.contains_eq_mem, List.mem_append, List.mem_filter, List.mem_replicate, decide_eq_false_iff_not]
    intro hc
    rcases hc with ⟨_, hne⟩ | ⟨_, he⟩
    · simp at hne
    · exact hi he

theorem untrust_other_type (s : TrustStore) (t i t' i' : String) (h : t' ≠ t) :
    isTrusted (removeTrust s t i) t' i' = isTrusted s t' i' := by
  unfold removeTrust
  cases hh : isTrusted s t i with
  | false => simp
  | true =>
    simp only [Bool.not_true, Bool.false_eq_true, if_false]
    simp [isTrusted, trustList, alGet_alPut_other _ _ _ _ h]

theorem untrust_other_issuer (s : TrustStore) (t i i' : String) (h : i' ≠ i) (hi' : i' ≠ "") :
    isTrusted (removeTrust s t i) t i' = isTrusted s t i' := by
  unfold removeTrust
  cases hh : isTrusted s t i with
  | false => simp
  | true =>
    simp only [Bool.not_true, Bool.false_eq_true, if_false]
    rw [isTrusted_alPut_same]
    unfold isTrusted
    rw [Bool.eq_iff_iff]
    simp only [List.contains_eq_mem, List.mem_append, List.mem_filter, List.mem_replicate, decide_eq_true_eq]
    constructor
    · intro hc
      rcases hc with ⟨hm, _⟩ | ⟨_, he⟩
      · exact hm
      · exact absurd he hi'
    · intro hm
      exact Or.inl ⟨hm, by simpa using h⟩

theorem trust_after_add (s : TrustStore) (t i : String) : isTrusted (addTrust s t i) t i = true := by
  unfold addTrust
  cases h : isTrusted s t i with
  | true => simp [h]
  | false =>
    simp only [Bool.false_eq_true, if_false]
    rw [isTrusted_alPut_same]
    simp

end Nuts.C01
