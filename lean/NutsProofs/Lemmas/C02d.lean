/-
  C02 — helper lemmas for the request-object layer (NutsModel/C02/Jar.lean): what an accepted request object implies,
  which remote calls `jar.Parse` makes, and the dispatch of the two endpoints.
-/
import NutsModel.C02.Jar

namespace Nuts.C02

/-- everything `jar.Parse` established when it returns parameters -/
def JarAccepted (env : JarEnv) (q : JarQuery) (p : Params) : Prop :=
  ∃ raw t keys,
    ((q.request = raw ∧ raw ≠ "" ∧ q.requestURI = "") ∨
     (q.request = "" ∧ q.requestURI ≠ "" ∧
        (((q.requestURIMethod = "" ∨ q.requestURIMethod = "get") ∧ env.fetchGet q.requestURI = some raw) ∨
         (q.requestURIMethod = "post" ∧ env.fetchPost q.requestURI = some raw)))) ∧
    env.parse raw = some t ∧ p = t.claims ∧ pget p "client_id" = q.clientId ∧
    env.config q.clientId = some keys ∧ lookupKid keys t.kid = some t.keyThumb

theorem jarValidate_ok (env : JarEnv) (raw cid : String) (calls : List JarCall) (p : Params)
    (h : jarValidate env raw cid = (calls, .ok p)) :
    ∃ t keys, env.parse raw = some t ∧ p = t.claims ∧ pget t.claims "client_id" = cid ∧
      env.config cid = some keys ∧ lookupKid keys t.kid = some t.keyThumb ∧ calls = [.config cid] := by
  unfold jarValidate at h
  split at h
  · simp at h
  · rename_i t ht
    split at h
    · simp at h
    · rename_i hc
      split at h
      · simp at h
      · rename_i keys hk
        split at h
        · simp at h
        · rename_i thumb hl
          split at h
          · simp at h
          · rename_i hth
            simp only [Prod.mk.injEq, Res.ok.injEq] at h
            refine ⟨t, keys, ht, h.2.symm, ?_, hk, ?_, h.1.symm⟩
            · exact (Decidable.not_not.mp hc).symm
            · rw [hl, Decidable.not_not.mp hth]

/-- calls of `jar.validate`: nothing, or exactly the configuration of the client id - and that only after the
    signature verified and the signed client_id claim equals the client id of the query -/
theorem jarValidate_calls (env : JarEnv) (raw cid : String) :
    (jarValidate env raw cid).1 = [] ∨
    ((jarValidate env raw cid).1 = [.config cid] ∧ ∃ t, env.parse raw = some t ∧ pget t.claims "client_id" = cid) := by
  unfold jarValidate
  split
  · exact .inl rfl
  · rename_i t ht
    split
    · exact .inl rfl
    · rename_i hc
      have hc' : pget t.claims "client_id" = cid := (Decidable.not_not.mp hc).symm
      split
      · exact .inr ⟨rfl, t, ht, hc'⟩
      · split
        · exact .inr ⟨rfl, t, ht, hc'⟩
        · split
          · exact .inr ⟨rfl, t, ht, hc'⟩
          · exact .inr ⟨rfl, t, ht, hc'⟩

theorem jarParse_ok (env : JarEnv) (q : JarQuery) (calls : List JarCall) (p : Params)
    (h : jarParse env q = (calls, .ok p)) : JarAccepted env q p := by
  unfold jarParse at h
  split at h
  · rename_i hreq
    split at h
    · simp at h
    · rename_i huri
      obtain ⟨t, keys, ht, hp, hc, hk, hl, _⟩ := jarValidate_ok env q.request q.clientId calls p h
      exact ⟨q.request, t, keys, .inl ⟨rfl, hreq, Decidable.not_not.mp huri⟩, ht, hp, by rw [hp]; exact hc, hk, hl⟩
  · rename_i hreq
    have hreq' : q.request = "" := Decidable.not_not.mp hreq
    split at h
    · rename_i huri
      split at h
      · rename_i hm
        split at h
        · simp at h
        · rename_i raw hf
          unfold withCall at h
          simp only [Prod.mk.injEq] at h
          obtain ⟨t, keys, ht, hp, hc, hk, hl, _⟩ :=
            jarValidate_ok env raw q.clientId (jarValidate env raw q.clientId).1 p (by rw [← h.2])
          exact ⟨raw, t, keys, .inr ⟨hreq', huri, .inl ⟨hm, hf⟩⟩, ht, hp, by rw [hp]; exact hc, hk, hl⟩
      · split at h
        · rename_i hm
          split at h
          · simp at h
          · rename_i raw hf
            unfold withCall at h
            simp only [Prod.mk.injEq] at h
            obtain ⟨t, keys, ht, hp, hc, hk, hl, _⟩ :=
              jarValidate_ok env raw q.clientId (jarValidate env raw q.clientId).1 p (by rw [← h.2])
            exact ⟨raw, t, keys, .inr ⟨hreq', huri, .inr ⟨hm, hf⟩⟩, ht, hp, by rw [hp]; exact hc, hk, hl⟩
        · simp at h
    · simp at h

/-- the remote calls of `jar.Parse`, whatever the outcome: at most one fetch - of the announced request_uri, by the
    announced method - followed by at most one configuration request, for the client id of the query, and that one only
    after a request object verified whose signed client_id claim is that client id -/
def JarCallsOK (env : JarEnv) (q : JarQuery) (calls : List JarCall) : Prop :=
  (∃ pre, (pre = [] ∨ pre = [JarCall.get q.requestURI] ∨ pre = [JarCall.post q.requestURI]) ∧
     (calls = pre ∨ calls = pre ++ [JarCall.config q.clientId])) ∧
  (JarCall.config q.clientId ∈ calls → ∃ raw t, env.parse raw = some t ∧ pget t.claims "client_id" = q.clientId) ∧
  (q.requestURI = "" → calls = [] ∨ calls = [JarCall.config q.clientId])

theorem jarParse_calls (env : JarEnv) (q : JarQuery) : JarCallsOK env q (jarParse env q).1 := by
  have hv := fun raw => jarValidate_calls env raw q.clientId
  unfold jarParse
  split
  · split
    · rename_i huri
      exact ⟨⟨[], .inl rfl, .inl rfl⟩, by simp, fun _ => .inl rfl⟩
    · rcases hv q.request with h0 | ⟨h1, t, ht, hc⟩
      · rw [h0]; exact ⟨⟨[], .inl rfl, .inl rfl⟩, by simp, fun _ => .inl rfl⟩
      · rw [h1]; exact ⟨⟨[], .inl rfl, .inr rfl⟩, fun _ => ⟨_, t, ht, hc⟩, fun _ => .inr rfl⟩
  · split
    · rename_i huri
      split
      · split
        · exact ⟨⟨[.get q.requestURI], .inr (.inl rfl), .inl rfl⟩, by simp, fun h => absurd h huri⟩
        · rename_i raw _
          unfold withCall
          rcases hv raw with h0 | ⟨h1, t, ht, hc⟩
          · rw [h0]; exact ⟨⟨[.get q.requestURI], .inr (.inl rfl), .inl rfl⟩, by simp, fun h => absurd h huri⟩
          · rw [h1]; exact ⟨⟨[.get q.requestURI], .inr (.inl rfl), .inr rfl⟩, fun _ => ⟨_, t, ht, hc⟩, fun h => absurd h huri⟩
      · split
        · split
          · exact ⟨⟨[.post q.requestURI], .inr (.inr rfl), .inl rfl⟩, by simp, fun h => absurd h huri⟩
          · rename_i raw _
            unfold withCall
            rcases hv raw with h0 | ⟨h1, t, ht, hc⟩
            · rw [h0]; exact ⟨⟨[.post q.requestURI], .inr (.inr rfl), .inl rfl⟩, by simp, fun h => absurd h huri⟩
            · rw [h1]; exact ⟨⟨[.post q.requestURI], .inr (.inr rfl), .inr rfl⟩, fun _ => ⟨_, t, ht, hc⟩, fun h => absurd h huri⟩
        · exact ⟨⟨[], .inl rfl, .inl rfl⟩, by simp, fun _ => .inl rfl⟩
    · exact ⟨⟨[], .inl rfl, .inl rfl⟩, by simp, fun _ => .inl rfl⟩

/-- an `.err` answer of the holder leg leaves the server state as it was -/
theorem authorizeRequest_err_unchanged (cfg : Cfg) (w w' : World) (now : Nat) (r : AuthReq) (e : String)
    (h : authorizeRequest cfg w now r = (w', .err e)) : w' = w := by
  unfold authorizeRequest at h
  split at h
  · simp only [Prod.mk.injEq] at h; exact h.1.symm
  · split at h
    · simp only [Prod.mk.injEq] at h; exact h.1.symm
    · split at h
      · simp only [Prod.mk.injEq] at h; exact h.1.symm
      · split at h
        · simp only [Prod.mk.injEq] at h; exact h.1.symm
        · split at h
          · simp only [Prod.mk.injEq] at h; exact h.1.symm
          · simp only at h
            split at h <;> simp at h

theorem authorizeDispatch_err_unchanged (cfg : Cfg) (w w' : World) (now : Nat) (subject : String) (p : Params) (e : String)
    (h : authorizeDispatch cfg w now subject p = (w', .err e)) : w' = w := by
  unfold authorizeDispatch at h
  split at h
  · exact authorizeRequest_err_unchanged cfg w w' now _ e h
  · split at h
    · split at h <;> (simp only [Prod.mk.injEq] at h; exact h.1.symm)
    · simp only [Prod.mk.injEq] at h; exact h.1.symm

theorem authorizeDispatch_ok (cfg : Cfg) (w w' : World) (now : Nat) (subject : String) (p : Params) (out : AuthReqOut)
    (h : authorizeDispatch cfg w now subject p = (w', .ok out)) :
    pget p "response_type" = "code" ∧ authorizeRequest cfg w now (toAuthReq subject p) = (w', .ok out) := by
  unfold authorizeDispatch at h
  split at h
  · rename_i hc; exact ⟨hc, h⟩
  · split at h
    · split at h <;> simp at h
    · simp at h

end Nuts.C02
