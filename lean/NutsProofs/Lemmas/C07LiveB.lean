/-
  C07 liveness lemmas, part B: admission of a peer's transactions (absorb).
-/
import NutsModel.C07.Round
import NutsProofs.Lemmas.C07
import NutsProofs.Lemmas.C07LiveA
open Nuts.Proto Nuts Nuts.Proto.L

namespace Nuts.Proto.Live

/-! ### Part B: admission of a peer's transactions -/

/-- refs identify transactions across the two DAGs (SHA-256 is injective on what occurs) -/
def RefFun (a b : List Tx) : Prop :=
  ∀ t, (t ∈ a ∨ t ∈ b) → ∀ t', (t' ∈ a ∨ t' ∈ b) → t.ref = t'.ref → t = t'

/-- the root of `b` is in `a` -/
def RootIn (a b : List Tx) : Prop := ∀ t ∈ b, t.prevs = [] → t ∈ a

theorem mem_of_present {a b : List Tx} (hf : RefFun a b) {t : Tx} (hb : t ∈ b) (hp : present a t.ref = true) : t ∈ a := by
  obtain ⟨t', ht', hr⟩ := present_iff.mp hp
  have := hf t' (Or.inl ht') t (Or.inr hb) hr
  rwa [← this]

/-- a transaction of `b` that `a` lacks is admitted as soon as `a` has its prevs (and, if public, it comes with its payload) -/
theorem admit {a b : List Tx} (ha : DagOK a) (hb : DagOK b) (hf : RefFun a b) (hroot : RootIn a b)
    {t : Tx} (ht : t ∈ b) (hnew : present a t.ref = false) (hprev : ∀ p ∈ t.prevs, present a p = true)
    (pl : Option Payload) (hpl : ∀ p, pl = some p → p.sha = t.payloadHash) : addCheck a t pl = .added := by
  obtain ⟨suf, hsub, _, hsig, _, hpres, hclk, _⟩ := dagOK_mem hb t ht
  have hne : t.prevs ≠ [] := by
    intro he
    have := hroot t ht he
    have hp : present a t.ref = true := present_iff.mpr ⟨t, this, rfl⟩
    rw [hnew] at hp; cases hp
  have hclock : t.clock = expectedClock a t.prevs := by
    rw [hclk]
    apply expectedClock_congr
    intro p hp
    obtain ⟨t1, hg1, hm1, hr1⟩ := getTx_of_present (hpres p hp)
    obtain ⟨t2, hg2, hm2, hr2⟩ := getTx_of_present (hprev p hp)
    rw [hg1, hg2, hf t1 (Or.inr (hsub t1 hm1)) t2 (Or.inl hm2) (by rw [hr1, hr2])]
  unfold addCheck
  simp only [hnew, Bool.false_eq_true, if_false]
  have h2 : t.prevs.all (present a) = true := List.all_eq_true.mpr hprev
  simp only [h2, Bool.not_true, Bool.false_eq_true, if_false]
  have h3 : (t.clock != expectedClock a t.prevs) = false := by simp [← hclock]
  simp only [h3, Bool.false_eq_true, if_false, hsig, Bool.not_true]
  have h5 : payloadMismatch pl t = false := by
    unfold payloadMismatch
    cases pl with
    | none => rfl
    | some p => simp [hpl p rfl]
  simp only [h5, Bool.false_eq_true, if_false]
  have h6 : t.prevs.isEmpty = false := by
    cases hp : t.prevs with
    | nil => exact absurd hp hne
    | cons x xs => rfl
  simp [h6]

/-- the prevs of every element are among `have` or among the elements before it -/
inductive PrevClosed : List Ref → List Tx → Prop where
  | nil (h : List Ref) : PrevClosed h []
  | cons (h : List Ref) (t : Tx) (ts : List Tx) : (∀ p ∈ t.prevs, p ∈ h) → PrevClosed (t.ref :: h) ts → PrevClosed h (t :: ts)

/-- payloads offered with the transactions are what `a` needs: public ones carry a non-empty payload with the right hash -/
def OfferOK (l : List (Tx × Option Payload)) : Prop :=
  ∀ x ∈ l, (x.1.pal = [] → ∃ p, x.2 = some p ∧ p.len ≠ 0) ∧ (∀ p, x.2 = some p → p.sha = x.1.payloadHash)

/-- **absorb**: a prev-closed list of `b`'s transactions offered to `a` is taken completely -/
theorem addLoop_absorb (cfg : Cfg) (env : Env) {b : List Tx} (hb : DagOK b) :
    ∀ (l : List (Tx × Option Payload)) (n : Node) (have_ : List Ref), DagOK n.dag → RefFun n.dag b → RootIn n.dag b →
      (∀ x ∈ l, x.1 ∈ b) → OfferOK l → (∀ r ∈ have_, present n.dag r = true) → PrevClosed have_ (l.map (·.1)) →
      (addLoop cfg env n l).res = .finished ∧ (∀ x ∈ l, present (addLoop cfg env n l).node.dag x.1.ref = true) ∧
      (∀ t ∈ (addLoop cfg env n l).node.dag, t ∈ n.dag ∨ ∃ x ∈ l, x.1 = t) ∧
      (∀ t ∈ n.dag, t ∈ (addLoop cfg env n l).node.dag) := by
  intro l
  induction l with
  | nil => intro n h _ _ _ _ _ _ _; simp [addLoop]
  | cons x xs ih =>
    intro n have_ hn hf hroot hlb hoff hhave hpc
    obtain ⟨tx, pl⟩ := x
    have htb : tx ∈ b := hlb (tx, pl) List.mem_cons_self
    obtain ⟨hoff1, hoff2⟩ := hoff (tx, pl) List.mem_cons_self
    simp only [List.map_cons] at hpc
    cases hpc with
    | cons _ _ _ hprev hrest =>
    have hxs_b : ∀ x ∈ xs, x.1 ∈ b := fun x hx => hlb x (List.mem_cons_of_mem _ hx)
    have hxs_off : OfferOK xs := fun x hx => hoff x (List.mem_cons_of_mem _ hx)
    unfold addLoop
    have hnp : (tx.pal.isEmpty && payloadEmpty pl) = false := by
      cases hpal : tx.pal with
      | nil =>
        obtain ⟨p, hp, hlen⟩ := hoff1 hpal
        subst hp
        simp [payloadEmpty, hlen]
      | cons y ys => simp
    simp only [hnp, Bool.false_eq_true, if_false]
    by_cases hpres : present n.dag tx.ref = true
    · -- already there: skipped
      have hres : addTx cfg env n tx pl = (n, [], .present) := by
        unfold addTx addCheck; simp [hpres]
      simp only [hres]
      have hhave' : ∀ r ∈ tx.ref :: have_, present n.dag r = true := by
        intro r hr
        rcases List.mem_cons.mp hr with rfl | h
        · exact hpres
        · exact hhave r h
      obtain ⟨h1, h2, h3, h4⟩ := ih n (tx.ref :: have_) hn hf hroot hxs_b hxs_off hhave' hrest
      refine ⟨h1, fun x hx => ?_, fun t ht => ?_, h4⟩
      · rcases List.mem_cons.mp hx with rfl | hx'
        · obtain ⟨t', ht', hr⟩ := present_iff.mp hpres
          exact present_iff.mpr ⟨t', h4 t' ht', hr⟩
        · exact h2 x hx'
      · rcases h3 t ht with h | ⟨x, hx, he⟩
        · exact Or.inl h
        · exact Or.inr ⟨x, List.mem_cons_of_mem _ hx, he⟩
    · have hnew : present n.dag tx.ref = false := by simpa using hpres
      have hadd : addCheck n.dag tx pl = .added :=
        admit hn hb hf hroot htb hnew (fun p hp => hhave p (hprev p hp)) pl hoff2
      have hres : addTx cfg env n tx pl = (commitTx cfg n tx pl, notifyPrivate env (commitTx cfg n tx pl) tx, .added) := by
        unfold addTx; simp [hadd]
      simp only [hres]
      have hn' : DagOK (commitTx cfg n tx pl).dag := dagOK_commit cfg n tx pl hn hadd
      have hf' : RefFun (commitTx cfg n tx pl).dag b := by
        intro t ht t' ht' he
        have conv : ∀ z, (z ∈ (commitTx cfg n tx pl).dag ∨ z ∈ b) → (z ∈ n.dag ∨ z ∈ b) := by
          intro z hz
          rcases hz with hz | hz
          · rcases List.mem_cons.mp hz with rfl | h
            · exact Or.inr htb
            · exact Or.inl h
          · exact Or.inr hz
        exact hf t (conv t ht) t' (conv t' ht') he
      have hroot' : RootIn (commitTx cfg n tx pl).dag b := fun t ht he => List.mem_cons_of_mem _ (hroot t ht he)
      have hhave' : ∀ r ∈ tx.ref :: have_, present (commitTx cfg n tx pl).dag r = true := by
        intro r hr
        rcases List.mem_cons.mp hr with rfl | h
        · exact present_iff.mpr ⟨tx, List.mem_cons_self, rfl⟩
        · obtain ⟨t', ht', hr'⟩ := present_iff.mp (hhave r h)
          exact present_iff.mpr ⟨t', List.mem_cons_of_mem _ ht', hr'⟩
      obtain ⟨h1, h2, h3, h4⟩ := ih (commitTx cfg n tx pl) (tx.ref :: have_) hn' hf' hroot' hxs_b hxs_off hhave' hrest
      refine ⟨h1, fun x hx => ?_, fun t ht => ?_, fun t ht => h4 t (List.mem_cons_of_mem _ ht)⟩
      · rcases List.mem_cons.mp hx with rfl | hx'
        · exact present_iff.mpr ⟨tx, h4 tx List.mem_cons_self, rfl⟩
        · exact h2 x hx'
      · rcases h3 t ht with h | ⟨x, hx, he⟩
        · rcases List.mem_cons.mp h with rfl | h'
          · exact Or.inr ⟨(t, pl), List.mem_cons_self, rfl⟩
          · exact Or.inl h'
        · exact Or.inr ⟨x, List.mem_cons_of_mem _ hx, he⟩

end Nuts.Proto.Live
