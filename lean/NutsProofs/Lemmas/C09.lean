/-
  C09 — helper lemmas about the ambassador model (NutsModel/C09/Ambassador.lean).
-/
import NutsModel.C09.Ambassador
import NutsProofs.Lemmas.C10

namespace Nuts.C09
open Nuts Nuts.C10

/-! ### callback structure -/

theorem callback_ok_inv (c : Cfg) (s s' : Store) (tx : Tx) (pd : Option NDoc)
    (h : callback c s tx pd = .ok s') :
    checkTransactionIntegrity tx = .ok () ∧
    ∃ d, pd = some d ∧ validate c.thumb c.vmNilJwkErr c.validators d = .ok () ∧
      ((∃ k, tx.embedded = some k ∧ handleCreate c s tx k d = .ok s') ∨
       (tx.embedded = none ∧ handleUpdate c s tx d = .ok s')) := by
  unfold callback at h
  split at h
  · cases h
  · cases h
  · rename_i hint
    refine ⟨hint, ?_⟩
    split at h
    · cases h
    · rename_i d
      split at h
      · cases h
      · cases h
      · rename_i hval
        refine ⟨d, rfl, hval, ?_⟩
        split at h
        · rename_i hemb; exact Or.inr ⟨hemb, h⟩
        · rename_i k hemb; exact Or.inl ⟨k, hemb, h⟩

theorem storeAdd_ok (c : Cfg) (s s' : Store) (tx : Tx) (d : NDoc) (h : storeAdd c s tx d = .ok s') :
    add c.store s (eventOf tx d) = .ok s' := by
  unfold storeAdd at h
  split at h
  · rename_i s'' hs; cases h; exact hs
  · cases h
  · cases h

theorem handleCreate_ok (c : Cfg) (s s' : Store) (tx : Tx) (k : Key) (d : NDoc)
    (h : handleCreate c s tx k d = .ok s') :
    d.idID = c.didThumb k ∧ add c.store s (eventOf tx d) = .ok s' := by
  unfold handleCreate at h
  split at h
  · cases h
  · rename_i hne
    exact ⟨Classical.not_not.mp hne, storeAdd_ok c s s' tx d h⟩

theorem deliver_ok_inv (c : Cfg) (s s' : Store) (tx : Tx) (pd : Option NDoc) (h : deliver c s tx pd = .ok s') :
    verifySig s tx = .ok () ∧ callback c s tx pd = .ok s' := by
  unfold deliver at h
  split at h
  · rename_i hv; exact ⟨hv, h⟩
  · cases h
  · cases h

theorem verifySig_embedded (s : Store) (tx : Tx) (k : Key) (he : tx.embedded = some k)
    (h : verifySig s tx = .ok ()) : k = tx.signer := by
  unfold verifySig at h
  rw [he] at h
  simp only at h
  split at h
  · assumption
  · cases h

theorem verifySig_kid (s : Store) (tx : Tx) (he : tx.embedded = none)
    (h : verifySig s tx = .ok ()) : resolvePublicKeyStore s tx.kid tx.prevs = .ok tx.signer := by
  unfold verifySig at h
  rw [he] at h
  simp only at h
  split at h
  · rename_i k hk
    split at h
    · rename_i heq; rw [hk, heq]
    · cases h
  · cases h
  · cases h

/-! ### findKeyByThumbprint -/

theorem findKey_true (thumb : Key → String) (ne : Bool) (t : String) :
    ∀ l : List Entry, findKey thumb ne t l = .ok true →
      ∃ e ∈ l, ∃ k, KeyInfo.ofBody e.body = .key k ∧ thumb k = t := by
  intro l
  induction l with
  | nil => intro h; simp [findKey] at h
  | cons e es ih =>
    intro h
    unfold findKey at h
    split at h
    · cases h
    · split at h <;> cases h
    · rename_i k hk
      split at h
      · rename_i ht
        exact ⟨e, List.mem_cons_self, k, hk, ht⟩
      · obtain ⟨e', he', k', hk', ht'⟩ := ih h
        exact ⟨e', List.mem_cons_of_mem _ he', k', hk', ht'⟩

/-- conversely: when no listed key has the thumbprint the search does not succeed -/
theorem findKey_not_true (thumb : Key → String) (ne : Bool) (t : String) :
    ∀ l : List Entry, (∀ e ∈ l, ∀ k, KeyInfo.ofBody e.body = .key k → thumb k ≠ t) → findKey thumb ne t l ≠ .ok true := by
  intro l hno h
  obtain ⟨e, he, k, hk, ht⟩ := findKey_true thumb ne t l h
  exact hno e he k hk ht

/-! ### resolveControllers -/

theorem resolveRefs_mem (res : String → Res Doc) :
    ∀ (refs : List String) (l : List Doc), resolveRefs res refs = .ok l →
      ∀ d ∈ l, ∃ r ∈ refs, res r = .ok d := by
  intro refs
  induction refs with
  | nil => intro l h d hd; simp [resolveRefs] at h; subst h; cases hd
  | cons r rs ih =>
    intro l h d hd
    unfold resolveRefs at h
    split at h
    · rename_i node hr
      split at h
      · rename_i l' hl'
        cases h
        rcases List.mem_cons.mp hd with rfl | hd
        · exact ⟨r, List.mem_cons_self, hr⟩
        · obtain ⟨r', hr', h'⟩ := ih l' hl' d hd
          exact ⟨r', List.mem_cons_of_mem _ hr', h'⟩
      · cases h
      · cases h
    · split at h
      · obtain ⟨r', hr', h'⟩ := ih l h d hd
        exact ⟨r', List.mem_cons_of_mem _ hr', h'⟩
      · cases h
    · cases h

/-- when every reference fails with a skippable error nothing is resolved -/
theorem resolveRefs_all_skipped (res : String → Res Doc) :
    ∀ refs : List String, (∀ r ∈ refs, ∃ e, res r = .err e ∧ skippable e = true) → resolveRefs res refs = .ok [] := by
  intro refs
  induction refs with
  | nil => intro _; rfl
  | cons r rs ih =>
    intro h
    obtain ⟨e, he, hs⟩ := h r List.mem_cons_self
    unfold resolveRefs
    rw [he]
    simp only [hs, if_true]
    exact ih (fun r' hr' => h r' (List.mem_cons_of_mem _ hr'))

theorem selfLeaves_mem (doc x : Doc) (h : x ∈ selfLeaves doc) :
    x = doc ∧ (doc.f .capInv).isEmpty = false ∧ (controllersOf doc = [] ∨ doc.id ∈ controllersOf doc) := by
  unfold selfLeaves at h
  simp only at h
  split at h
  · rename_i hemp
    split at h
    · rename_i hci
      simp only [List.mem_singleton] at h
      refine ⟨h, by simpa using hci, Or.inl (by simpa using hemp)⟩
    · cases h
  · rw [List.mem_flatMap] at h
    obtain ⟨cid, hc, hx⟩ := h
    split at hx
    · rename_i hci
      simp only [List.mem_singleton] at hx
      have := List.mem_filter.mp hc
      refine ⟨hx, by simpa using hci, Or.inr ?_⟩
      have heq : cid = doc.id := by simpa using this.2
      rw [← heq]; exact this.1
    · cases hx

theorem ctrlsWith_mem (res : String → Res Doc) (doc : Doc) (l : List Doc) (h : ctrlsWith res doc = .ok l) :
    ∀ c ∈ l, isDeactivated c = false ∧
      ((c = doc ∧ (doc.f .capInv).isEmpty = false ∧ (controllersOf doc = [] ∨ doc.id ∈ controllersOf doc)) ∨
       (∃ r ∈ controllersOf doc, r ≠ doc.id ∧ res r = .ok c)) := by
  intro c hc
  unfold ctrlsWith at h
  split at h
  · rename_i l' hl'
    cases h
    have hm := List.mem_filter.mp hc
    refine ⟨by simpa using hm.2, ?_⟩
    rcases List.mem_append.mp hm.1 with hs | hr
    · exact Or.inl (selfLeaves_mem doc c hs)
    · obtain ⟨r, hr', hres⟩ := resolveRefs_mem res _ l' hl' c hr
      unfold foreignRefs at hr'
      have := List.mem_filter.mp hr'
      exact Or.inr ⟨r, this.1, by simpa using this.2, hres⟩
  · cases h
  · cases h

/-- no self control and every foreign controller skipped (deactivated / no active controller / not found)
    ⇒ no controllers at all -/
theorem ctrlsWith_none (res : String → Res Doc) (doc : Doc) (hself : selfLeaves doc = [])
    (h : ∀ r ∈ foreignRefs doc, ∃ e, res r = .err e ∧ skippable e = true) : ctrlsWith res doc = .ok [] := by
  unfold ctrlsWith
  rw [resolveRefs_all_skipped res _ h, hself]
  rfl

/-! ### the depth-limited recursion -/

/-- a graph in which every document has only foreign controllers (every cycle, every endless chain) -/
def OnlyForeign (R : String → Res Doc) : Prop :=
  ∀ x, ∃ d, R x = .ok d ∧ controllersOf d ≠ [] ∧ ∀ c ∈ controllersOf d, c ≠ d.id

theorem resolveRefs_first_err (res : String → Res Doc) (r : String) (rs : List String) (e : String)
    (h : res r = .err e) (hs : skippable e = false) : resolveRefs res (r :: rs) = .err e := by
  unfold resolveRefs
  rw [h]
  simp [hs]

theorem skippable_tooDeep : skippable eTooDeep = false := by decide

theorem resolveN_only_foreign (R : String → Res Doc) (hR : OnlyForeign R) :
    ∀ (n : Nat) (id : String), resolveN R false n id = .err eTooDeep := by
  intro n
  induction n with
  | zero => intro id; rfl
  | succ n ih =>
    intro id
    obtain ⟨d, hd, hne, hfor⟩ := hR id
    unfold resolveN
    rw [hd]
    have hemp : (controllersOf d).isEmpty = false := by
      cases hc : controllersOf d with
      | nil => exact absurd hc hne
      | cons _ _ => rfl
    simp only [hemp, Bool.not_false, Bool.and_self, if_true]
    have hrefs : foreignRefs d = controllersOf d := by
      unfold foreignRefs
      apply List.filter_eq_self.mpr
      intro c hc
      have := hfor c hc
      simpa using this
    unfold ctrlsWith
    rw [hrefs]
    cases hc : controllersOf d with
    | nil => exact absurd hc hne
    | cons r rs =>
      rw [resolveRefs_first_err _ r rs eTooDeep (ih r) skippable_tooDeep]

/-- witness of an active document: the chain of controllers that `resolve` followed -/
inductive ActiveWithin (R : String → Res Doc) : Nat → String → Prop where
  | root (n : Nat) (id : String) (d : Doc) : R id = .ok d → controllersOf d = [] → ActiveWithin R (n + 1) id
  | self (n : Nat) (id : String) (d : Doc) : R id = .ok d → d.id ∈ controllersOf d → (d.f .capInv).isEmpty = false →
      ActiveWithin R (n + 1) id
  | step (n : Nat) (id : String) (d : Doc) (r : String) : R id = .ok d → r ∈ controllersOf d → r ≠ d.id →
      ActiveWithin R n r → ActiveWithin R (n + 1) id

theorem resolveN_ok (R : String → Res Doc) :
    ∀ (n : Nat) (id : String) (doc : Doc), resolveN R false n id = .ok doc →
      R id = .ok doc ∧ ActiveWithin R n id := by
  intro n
  induction n with
  | zero => intro id doc h; simp [resolveN] at h
  | succ n ih =>
    intro id doc h
    unfold resolveN at h
    split at h
    · rename_i d hd
      split at h
      · rename_i hcond
        split at h
        · rename_i cs hcs
          split at h
          · cases h
          · rename_i hne
            cases h
            refine ⟨hd, ?_⟩
            cases cs with
            | nil => simp at hne
            | cons c rest =>
              obtain ⟨_, hc⟩ := ctrlsWith_mem _ doc (c :: rest) hcs c List.mem_cons_self
              rcases hc with ⟨_, hci, hself⟩ | ⟨r, hr, hrne, hres⟩
              · rcases hself with hnil | hmem
                · exact ActiveWithin.root n id doc hd hnil
                · exact ActiveWithin.self n id doc hd hmem hci
              · exact ActiveWithin.step n id doc r hd hr hrne (ih r c hres).2
        · cases h
        · cases h
      · rename_i hcond
        cases h
        refine ⟨hd, ActiveWithin.root n id doc hd ?_⟩
        simp only [Bool.not_false, Bool.and_true, Bool.not_eq_true, Bool.not_eq_false'] at hcond
        simpa using hcond
    · cases h
    · cases h

/-- the length of the followed chain is bounded by the remaining depth -/
theorem activeWithin_pos (R : String → Res Doc) (n : Nat) (id : String) (h : ActiveWithin R n id) : 0 < n := by
  cases h <;> omega

/-- a list of DIDs in which each next one is a foreign controller of the document the previous one resolves to -/
def IsCtrlChain (R : String → Res Doc) : List String → Prop
  | [] => True
  | [_] => True
  | a :: b :: rest => (∃ d, R a = .ok d ∧ b ∈ controllersOf d ∧ b ≠ d.id) ∧ IsCtrlChain R (b :: rest)

/-- the chain behind an `ActiveWithin R n id`: the ids visited; its length is bounded by the remaining depth -/
theorem activeWithin_chain (R : String → Res Doc) :
    ∀ (n : Nat) (id : String), ActiveWithin R n id →
      ∃ chain : List String, chain.length ≤ n ∧ chain.head? = some id ∧
        (∀ x ∈ chain, ∃ d, R x = .ok d) ∧ IsCtrlChain R chain := by
  intro n id h
  induction h with
  | root n id d hd _ =>
    exact ⟨[id], by simp, rfl, by intro x hx; simp at hx; subst hx; exact ⟨d, hd⟩, trivial⟩
  | self n id d hd _ _ =>
    exact ⟨[id], by simp, rfl, by intro x hx; simp at hx; subst hx; exact ⟨d, hd⟩, trivial⟩
  | step n id d r hd hr hne _ ih =>
    obtain ⟨chain, hlen, hhead, hall, hch⟩ := ih
    refine ⟨id :: chain, by simp; omega, rfl, ?_, ?_⟩
    · intro x hx
      rcases List.mem_cons.mp hx with rfl | hx
      · exact ⟨d, hd⟩
      · exact hall x hx
    · cases chain with
      | nil => simp at hhead
      | cons c cs =>
        simp only [List.head?_cons, Option.some.injEq] at hhead
        subst hhead
        exact ⟨⟨d, hd, hr, hne⟩, hch⟩

/-! ### the ambassador's key resolver (through `didnuts.Resolver`) agrees with the verifier's (store only) -/

theorem resolveRefs_err_not_skippable (res : String → Res Doc) :
    ∀ (refs : List String) (e : String), resolveRefs res refs = .err e → skippable e = false := by
  intro refs
  induction refs with
  | nil => intro e h; simp [resolveRefs] at h
  | cons r rs ih =>
    intro e h
    unfold resolveRefs at h
    split at h
    · split at h
      · cases h
      · rename_i e' he'; cases h; exact ih e he'
      · cases h
    · rename_i e' _
      split at h
      · exact ih e h
      · rename_i hs; cases h; simpa using hs
    · cases h

theorem resolveN_notFound (R : String → Res Doc) :
    ∀ (n : Nat) (id : String), resolveN R false n id = .err eNotFound → R id = .err eNotFound := by
  intro n id h
  cases n with
  | zero => simp [resolveN, eTooDeep, eNotFound] at h
  | succ n =>
    unfold resolveN at h
    split at h
    · rename_i d hd
      split at h
      · split at h
        · split at h
          · simp [eNoActiveController, eNotFound] at h
          · cases h
        · rename_i e he
          simp only [Res.err.injEq] at h
          subst h
          unfold ctrlsWith at he
          split at he
          · cases he
          · rename_i e' he'
            cases he
            have := resolveRefs_err_not_skippable _ _ _ he'
            simp [skippable, eNotFound] at this
          · cases he
        · cases h
      · cases h
    · rename_i e he
      cases h
      exact he
    · cases h

theorem resolverResolve_ok_store (n : Nat) (s : Store) (rm : Option ResolveMeta) (ha : allowOf rm = false)
    (id : String) (d : Doc) (h : resolverResolve n s rm id = .ok d) : storeDoc s rm id = .ok d := by
  unfold resolverResolve at h
  rw [ha] at h
  simp only [Bool.false_eq_true, if_false] at h
  exact (resolveN_ok _ n id d h).1

theorem resolverResolve_notFound_store (n : Nat) (s : Store) (rm : Option ResolveMeta) (ha : allowOf rm = false)
    (id : String) (h : resolverResolve n s rm id = .err eNotFound) : storeDoc s rm id = .err eNotFound := by
  unfold resolverResolve at h
  rw [ha] at h
  simp only [Bool.false_eq_true, if_false] at h
  exact resolveN_notFound _ n id h

theorem resolvePublicKey1_ok_store (n : Nat) (s : Store) (kid : Kid) (rm : Option ResolveMeta) (ha : allowOf rm = false)
    (k : Key) (h : resolvePublicKey1 (resolverResolve n s) kid rm = .ok k) :
    resolvePublicKey1 (storeDoc s) kid rm = .ok k := by
  unfold resolvePublicKey1 at h ⊢
  split at h
  · cases h
  · rename_i hp
    simp only [hp, if_false]
    split at h
    · rename_i doc hd
      rw [resolverResolve_ok_store n s rm ha _ doc hd]
      exact h
    · cases h
    · cases h

theorem resolvePublicKey1_notFound_store (n : Nat) (s : Store) (kid : Kid) (rm : Option ResolveMeta) (ha : allowOf rm = false)
    (h : resolvePublicKey1 (resolverResolve n s) kid rm = .err eNotFound) :
    resolvePublicKey1 (storeDoc s) kid rm = .err eNotFound := by
  unfold resolvePublicKey1 at h ⊢
  split at h
  · simp [eInvalidKid, eNotFound] at h
  · rename_i hp
    simp only [hp, if_false]
    split at h
    · split at h
      · simp [eKeyNotFound, eNotFound] at h
      · split at h
        · simp [eUnsupportedType, eNotFound] at h
        · split at h
          · cases h
          · simp [eBadJwk, eNotFound] at h
          · cases h
    · rename_i e he
      cases h
      rw [resolverResolve_notFound_store n s rm ha _ he]
      simp
    · cases h

/-- whenever the ambassador's key resolver finds a key for (`kid`, prevs), the verifier's finds the same key -/
theorem resolvePublicKey_ok_store (n : Nat) (s : Store) (kid : Kid) :
    ∀ (prevs : List Nat) (k : Key), resolvePublicKey n s kid prevs = .ok k → resolvePublicKeyStore s kid prevs = .ok k := by
  intro prevs
  induction prevs with
  | nil => intro k h; simp [resolvePublicKey, resolvePublicKeyWith] at h
  | cons p ps ih =>
    intro k h
    unfold resolvePublicKey resolvePublicKeyWith at h
    unfold resolvePublicKeyStore resolvePublicKeyWith
    split at h
    · rename_i k' hk'
      cases h
      rw [resolvePublicKey1_ok_store n s kid _ rfl k hk']
    · rename_i e he
      split at h
      · rename_i heq
        subst heq
        rw [resolvePublicKey1_notFound_store n s kid _ rfl he]
        simp only [if_true]
        exact ih k h
      · cases h
    · cases h

/-! ### handleUpdate -/

/-- the version the update succeeds: the first previous transaction that is a source transaction of a version of
    the DID names it; when none does, the latest version (the coded fallback) -/
def Succeeds (s : Store) (id : String) (prevs : List Nat) (cur : Doc) : Prop :=
  (∃ p ∈ prevs, ∃ m, resolve s id (some { allowDeactivated := true, sourceTx := some p }) = .ok (cur, m)) ∨
  ((∀ p ∈ prevs, resolve s id (some { allowDeactivated := true, sourceTx := some p }) = .err eNotFound) ∧
   ∃ m, resolve s id (some { allowDeactivated := true }) = .ok (cur, m))

theorem currentVersion_ok (s : Store) (id : String) :
    ∀ (prevs : List Nat) (cur : Doc), currentVersion s id prevs = .ok cur → Succeeds s id prevs cur := by
  intro prevs
  induction prevs with
  | nil =>
    intro cur h
    unfold currentVersion at h
    split at h
    · rename_i d m hr
      cases h
      exact Or.inr ⟨(by intro p hp; cases hp), m, hr⟩
    · cases h
    · cases h
  | cons p ps ih =>
    intro cur h
    unfold currentVersion at h
    split at h
    · rename_i d m hr
      cases h
      exact Or.inl ⟨p, List.mem_cons_self, m, hr⟩
    · rename_i e hr
      split at h
      · rename_i he
        subst he
        rcases ih cur h with ⟨q, hq, m, hm⟩ | ⟨hall, m, hm⟩
        · exact Or.inl ⟨q, List.mem_cons_of_mem _ hq, m, hm⟩
        · refine Or.inr ⟨?_, m, hm⟩
          intro q hq
          rcases List.mem_cons.mp hq with rfl | hq
          · exact hr
          · exact hall q hq
      · cases h
    · cases h

/-- the metadata forms under which the ambassador looks controllers up for `tx`:
    by each previous transaction, or (fallback) by the signing time -/
def MetaFor (tx : Tx) (rm : ResolveMeta) : Prop :=
  (∃ p ∈ tx.prevs, rm = { sourceTx := some p }) ∨ rm = { time := some tx.sigTime }

theorem ctrlsPerPrev_mem (c : Cfg) (s : Store) (doc : Doc) :
    ∀ (prevs : List Nat) (l : List Doc), ctrlsPerPrev c s doc prevs = .ok l →
      ∀ x ∈ l, ∃ p ∈ prevs, ∃ l', resolveControllersTop c.maxDepth s (some { sourceTx := some p }) doc = .ok l' ∧ x ∈ l' := by
  intro prevs
  induction prevs with
  | nil => intro l h x hx; simp [ctrlsPerPrev] at h; subst h; cases hx
  | cons p ps ih =>
    intro l h x hx
    unfold ctrlsPerPrev at h
    split at h
    · rename_i cs hcs
      split at h
      · rename_i rest hrest
        cases h
        rcases List.mem_append.mp hx with hx | hx
        · exact ⟨p, List.mem_cons_self, cs, hcs, hx⟩
        · obtain ⟨q, hq, l', hl', hx'⟩ := ih rest hrest x hx
          exact ⟨q, List.mem_cons_of_mem _ hq, l', hl', hx'⟩
      · cases h
      · cases h
    · split at h
      · obtain ⟨q, hq, l', hl', hx'⟩ := ih l h x hx
        exact ⟨q, List.mem_cons_of_mem _ hq, l', hl', hx'⟩
      · cases h
    · cases h

theorem ambControllers_mem (c : Cfg) (s : Store) (doc : Doc) (tx : Tx) (l : List Doc)
    (h : ambControllers c s doc tx = .ok l) :
    ∀ x ∈ l, ∃ rm, MetaFor tx rm ∧ ∃ l', resolveControllersTop c.maxDepth s (some rm) doc = .ok l' ∧ x ∈ l' := by
  intro x hx
  unfold ambControllers at h
  split at h
  · rename_i cs hcs
    split at h
    · exact ⟨{ time := some tx.sigTime }, Or.inr rfl, l, h, hx⟩
    · simp only [Res.ok.injEq] at h
      subst h
      obtain ⟨p, hp, l', hl', hx'⟩ := ctrlsPerPrev_mem c s doc tx.prevs cs hcs x hx
      exact ⟨{ sourceTx := some p }, Or.inl ⟨p, hp, rfl⟩, l', hl', hx'⟩
  · cases h
  · cases h

theorem allowOf_metaFor (tx : Tx) (rm : ResolveMeta) (h : MetaFor tx rm) : allowOf (some rm) = false := by
  rcases h with ⟨p, _, rfl⟩ | rfl <;> rfl

/-- `ctrl` is a controller of the version `cur` as the ambassador establishes it for `tx`: not deactivated, and
    either `cur` itself (it lists itself or nobody, and has capabilityInvocation keys), or the version of a listed
    foreign controller DID that the store resolves for the transaction's prevs / signing time, that controller
    being active within the depth limit -/
def ControllerFor (c : Cfg) (s : Store) (tx : Tx) (cur ctrl : Doc) : Prop :=
  isDeactivated ctrl = false ∧
  ((ctrl = cur ∧ (cur.f .capInv).isEmpty = false ∧ (controllersOf cur = [] ∨ cur.id ∈ controllersOf cur)) ∨
   (∃ r ∈ controllersOf cur, r ≠ cur.id ∧ ∃ rm, MetaFor tx rm ∧ storeDoc s (some rm) r = .ok ctrl ∧
      ActiveWithin (storeDoc s (some rm)) c.maxDepth r ∧
      ActiveWithin (resolverResolve c.maxDepth s (some rm)) c.maxDepth r))

theorem ambControllers_sound (c : Cfg) (s : Store) (cur : Doc) (tx : Tx) (l : List Doc)
    (h : ambControllers c s cur tx = .ok l) : ∀ x ∈ l, ControllerFor c s tx cur x := by
  intro x hx
  obtain ⟨rm, hrm, l', hl', hx'⟩ := ambControllers_mem c s cur tx l h x hx
  unfold resolveControllersTop at hl'
  obtain ⟨hd, hc⟩ := ctrlsWith_mem _ cur l' hl' x hx'
  refine ⟨hd, ?_⟩
  rcases hc with hself | ⟨r, hr, hne, hres⟩
  · exact Or.inl hself
  · refine Or.inr ⟨r, hr, hne, rm, hrm, ?_⟩
    have hallow := allowOf_metaFor tx rm hrm
    rw [hallow] at hres
    obtain ⟨h1, h2⟩ := resolveN_ok _ _ r x hres
    unfold resolverResolve at h1
    rw [hallow] at h1
    simp only [Bool.false_eq_true, if_false] at h1
    obtain ⟨h3, h4⟩ := resolveN_ok _ _ r x h1
    exact ⟨h3, h4, h2⟩

theorem mem_capInvOf (cs : List Doc) (e : Entry) (h : e ∈ capInvOf cs) : ∃ d ∈ cs, e ∈ d.f .capInv := by
  unfold capInvOf at h
  obtain ⟨d, hd, he⟩ := List.mem_flatMap.mp h
  exact ⟨d, hd, he⟩

theorem handleUpdate_ok_inv2 (c : Cfg) (s s' : Store) (tx : Tx) (d : NDoc) (h : handleUpdate c s tx d = .ok s') :
    ∃ cur ctrls k others, currentVersion s d.id tx.prevs = .ok cur ∧ ambControllers c s cur tx = .ok ctrls ∧
      resolvePublicKey c.maxDepth s tx.kid tx.prevs = .ok k ∧
      findKey c.thumb c.findKeyNilJwkErr (c.thumb k) (capInvOf ctrls) = .ok true ∧
      otherNamed s d.id tx.prevs = .ok others ∧ checkOthers c s tx (c.thumb k) others = .ok true ∧
      add c.store s (eventOf tx d) = .ok s' := by
  unfold handleUpdate at h
  split at h
  · cases h
  · cases h
  · rename_i cur hcur
    split at h
    · cases h
    · cases h
    · rename_i ctrls hctrls
      split at h
      · cases h
      · cases h
      · rename_i k hk
        split at h
        · cases h
        · cases h
        · cases h
        · rename_i hf
          split at h
          · cases h
          · cases h
          · rename_i others ho
            split at h
            · cases h
            · cases h
            · cases h
            · rename_i hco
              exact ⟨cur, ctrls, k, others, hcur, hctrls, hk, hf, ho, hco, storeAdd_ok c s s' tx d h⟩

theorem handleUpdate_ok_inv (c : Cfg) (s s' : Store) (tx : Tx) (d : NDoc) (h : handleUpdate c s tx d = .ok s') :
    ∃ cur ctrls k, currentVersion s d.id tx.prevs = .ok cur ∧ ambControllers c s cur tx = .ok ctrls ∧
      resolvePublicKey c.maxDepth s tx.kid tx.prevs = .ok k ∧
      findKey c.thumb c.findKeyNilJwkErr (c.thumb k) (capInvOf ctrls) = .ok true ∧ add c.store s (eventOf tx d) = .ok s' := by
  obtain ⟨cur, ctrls, k, _, h1, h2, h3, h4, _, _, h5⟩ := handleUpdate_ok_inv2 c s s' tx d h
  exact ⟨cur, ctrls, k, h1, h2, h3, h4, h5⟩

/-- what `checkOthers` establishes: every listed version authorises the thumbprint -/
theorem checkOthers_true (c : Cfg) (s : Store) (tx : Tx) (t : String) :
    ∀ l : List Doc, checkOthers c s tx t l = .ok true → ∀ v ∈ l, authorisedBy c s tx t v = .ok true := by
  intro l
  induction l with
  | nil => intro _ v hv; cases hv
  | cons x xs ih =>
    intro h v hv
    unfold checkOthers at h
    split at h
    · rename_i hx
      rcases List.mem_cons.mp hv with rfl | hv
      · exact hx
      · exact ih h v hv
    · cases h
    · cases h
    · cases h

theorem authorisedBy_true (c : Cfg) (s : Store) (tx : Tx) (t : String) (v : Doc) (h : authorisedBy c s tx t v = .ok true) :
    ∃ ctrls, ambControllers c s v tx = .ok ctrls ∧ findKey c.thumb c.findKeyNilJwkErr t (capInvOf ctrls) = .ok true := by
  unfold authorisedBy at h
  split at h
  · cases h
  · cases h
  · rename_i ctrls hc
    exact ⟨ctrls, hc, h⟩

theorem dedupByHash_mem : ∀ (l : List (Doc × Hash)) (seen : List Hash) (v : Doc),
    v ∈ dedupByHash l seen → ∃ h, (v, h) ∈ l := by
  intro l
  induction l with
  | nil => intro seen v hv; simp [dedupByHash] at hv
  | cons p l ih =>
    intro seen v hv
    obtain ⟨d, h⟩ := p
    unfold dedupByHash at hv
    split at hv
    · obtain ⟨h', hm⟩ := ih seen v hv
      exact ⟨h', List.mem_cons_of_mem _ hm⟩
    · rcases List.mem_cons.mp hv with rfl | hv
      · exact ⟨h, List.mem_cons_self⟩
      · obtain ⟨h', hm⟩ := ih _ v hv
        exact ⟨h', List.mem_cons_of_mem _ hm⟩

theorem namedVersions_mem (s : Store) (id : String) :
    ∀ (prevs : List Nat) (l : List (Doc × Hash)), namedVersions s id prevs = .ok l →
      ∀ v h, (v, h) ∈ l → ∃ p ∈ prevs, ∃ m, resolve s id (some { allowDeactivated := true, sourceTx := some p }) = .ok (v, m) := by
  intro prevs
  induction prevs with
  | nil => intro l h v hh hv; simp [namedVersions] at h; subst h; cases hv
  | cons p ps ih =>
    intro l h v hh hv
    unfold namedVersions at h
    split at h
    · rename_i d m hr
      split at h
      · rename_i l' hl'
        cases h
        rcases List.mem_cons.mp hv with heq | hv
        · cases heq
          exact ⟨p, List.mem_cons_self, m, hr⟩
        · obtain ⟨q, hq, m', hm'⟩ := ih l' hl' v hh hv
          exact ⟨q, List.mem_cons_of_mem _ hq, m', hm'⟩
      · cases h
      · cases h
    · split at h
      · obtain ⟨q, hq, m', hm'⟩ := ih l h v hh hv
        exact ⟨q, List.mem_cons_of_mem _ hq, m', hm'⟩
      · cases h
    · cases h

/-- every other named version IS a version of the DID that some prev names -/
theorem otherNamed_mem (s : Store) (id : String) (prevs : List Nat) (others : List Doc)
    (h : otherNamed s id prevs = .ok others) :
    ∀ v ∈ others, ∃ p ∈ prevs, ∃ m, resolve s id (some { allowDeactivated := true, sourceTx := some p }) = .ok (v, m) := by
  intro v hv
  unfold otherNamed at h
  split at h
  · cases h; cases hv
  · rename_i d0 h0 l hn
    cases h
    obtain ⟨hh, hm⟩ := dedupByHash_mem l [h0] v hv
    exact namedVersions_mem s id prevs _ hn v hh (List.mem_cons_of_mem _ hm)
  · cases h
  · cases h

/-! ### the converse: the checks are all there is -/

theorem storeAdd_of_add (c : Cfg) (s s' : Store) (tx : Tx) (d : NDoc) (h : add c.store s (eventOf tx d) = .ok s') :
    storeAdd c s tx d = .ok s' := by
  unfold storeAdd; rw [h]

theorem callback_of_create (c : Cfg) (s s' : Store) (tx : Tx) (d : NDoc) (k : Key)
    (hi : checkTransactionIntegrity tx = .ok ()) (hv : validate c.thumb c.vmNilJwkErr c.validators d = .ok ())
    (hk : tx.embedded = some k) (hid : d.idID = c.didThumb k) (ha : add c.store s (eventOf tx d) = .ok s') :
    callback c s tx (some d) = .ok s' := by
  unfold callback
  rw [hi]; simp only
  rw [hv]; simp only
  rw [hk]; simp only
  unfold handleCreate
  simp only [hid, ne_eq, not_true_eq_false, if_false]
  exact storeAdd_of_add c s s' tx d ha

theorem callback_of_update (c : Cfg) (s s' : Store) (tx : Tx) (d : NDoc) (cur : Doc) (ctrls : List Doc) (k : Key)
    (hi : checkTransactionIntegrity tx = .ok ()) (hv : validate c.thumb c.vmNilJwkErr c.validators d = .ok ())
    (hu : tx.embedded = none) (hcur : currentVersion s d.id tx.prevs = .ok cur)
    (hc : ambControllers c s cur tx = .ok ctrls) (hk : resolvePublicKey c.maxDepth s tx.kid tx.prevs = .ok k)
    (hf : findKey c.thumb c.findKeyNilJwkErr (c.thumb k) (capInvOf ctrls) = .ok true)
    (others : List Doc) (ho : otherNamed s d.id tx.prevs = .ok others)
    (hco : checkOthers c s tx (c.thumb k) others = .ok true)
    (ha : add c.store s (eventOf tx d) = .ok s') :
    callback c s tx (some d) = .ok s' := by
  unfold callback
  rw [hi]; simp only
  rw [hv]; simp only
  rw [hu]; simp only
  unfold handleUpdate
  rw [hcur]; simp only
  rw [hc]; simp only
  rw [hk]; simp only
  rw [hf]; simp only
  rw [ho]; simp only
  rw [hco]; simp only
  exact storeAdd_of_add c s s' tx d ha

/-! ### whole histories -/

theorem addDid_events (cfg : C10.Cfg) (st st' : DidState) (e : Event) (h : addDid cfg st e = .ok (some st')) :
    ∀ x, x ∈ st'.events → x = e ∨ x ∈ st.events := by
  intro x hx
  unfold addDid at h
  split at h
  · cases h
  · simp only at h
    split at h
    · cases h
    · cases h
    · split at h
      · cases h
      · rename_i last _
        simp only [Res.ok.injEq, Option.some.injEq] at h
        subst h
        simp only at hx
        have := (insert_perm e st.events).mem_iff.mp hx
        simpa using this

theorem step_events (c : Cfg) (s : Store) (tx : Tx) (pd : Option NDoc) (id : String) (e : Event)
    (h : e ∈ ((step c s tx pd).1.get id).events) :
    e ∈ (s.get id).events ∨
      ((step c s tx pd).2 = "ok" ∧ ∃ d, pd = some d ∧ e = eventOf tx d ∧ d.id = id) := by
  unfold step at h ⊢
  split at h
  · rename_i s' hs'
    simp only at h ⊢
    obtain ⟨_, hcb⟩ := deliver_ok_inv c s s' tx pd hs'
    obtain ⟨_, d, hpd, _, hcase⟩ := callback_ok_inv c s s' tx pd hcb
    have hadd : add c.store s (eventOf tx d) = .ok s' := by
      rcases hcase with ⟨k, _, hc⟩ | ⟨_, hup⟩
      · exact (handleCreate_ok c s s' tx k d hc).2
      · obtain ⟨_, _, _, _, _, _, _, hadd⟩ := handleUpdate_ok_inv c s s' tx d hup
        exact hadd
    obtain ⟨hother, hown⟩ := add_get c.store s s' (eventOf tx d) hadd
    by_cases hid : id = (eventOf tx d).doc.id
    · subst hid
      rcases hown with ⟨_, rfl⟩ | hsome
      · exact Or.inl h
      · rcases addDid_events c.store _ _ _ hsome e h with rfl | hold
        · exact Or.inr ⟨trivial, d, hpd, rfl, rfl⟩
        · exact Or.inl hold
    · rw [hother id hid] at h
      exact Or.inl h
  · exact Or.inl h
  · exact Or.inl h

/-- deliver a whole history -/
def runHist (c : Cfg) : Store → List (Tx × Option NDoc) → Store
  | s, [] => s
  | s, p :: ps => runHist c (step c s p.1 p.2).1 ps

theorem runHist_events (c : Cfg) :
    ∀ (l : List (Tx × Option NDoc)) (s : Store) (id : String) (e : Event),
      e ∈ ((runHist c s l).get id).events →
      e ∈ (s.get id).events ∨
      ∃ pre tx d post, l = pre ++ (tx, some d) :: post ∧ e = eventOf tx d ∧ d.id = id ∧
        (step c (runHist c s pre) tx (some d)).2 = "ok" := by
  intro l
  induction l with
  | nil => intro s id e h; exact Or.inl h
  | cons p ps ih =>
    intro s id e h
    obtain ⟨tx, pd⟩ := p
    simp only [runHist] at h
    rcases ih _ id e h with h1 | ⟨pre, tx', d, post, hl, he, hid, hok⟩
    · rcases step_events c s tx pd id e h1 with h2 | ⟨hok, d, hpd, he, hid⟩
      · exact Or.inl h2
      · subst hpd
        exact Or.inr ⟨[], tx, d, ps, rfl, he, hid, hok⟩
    · refine Or.inr ⟨(tx, pd) :: pre, tx', d, post, by rw [hl]; rfl, he, hid, ?_⟩
      simpa [runHist] using hok

/-! ### REPROCESS = callback again -/

theorem add_contains (cfg : C10.Cfg) (s : Store) (e : Event)
    (h : contains (s.get e.doc.id).events e = true) : add cfg s e = .ok s := by
  unfold add addDid
  simp [h]

/-- one REPROCESS message: the transaction goes through `callback` again; errors are logged, nothing else happens -/
def reprocessOne (c : Cfg) (s : Store) (tx : Tx) (pd : Option NDoc) : Store :=
  match callback c s tx pd with
  | .ok s' => s'
  | _ => s

/-- REPROCESS of application/did+json: every such transaction of the DAG, in order -/
def reprocess (c : Cfg) : Store → List (Tx × Option NDoc) → Store
  | s, [] => s
  | s, p :: ps => reprocess c (reprocessOne c s p.1 p.2) ps

theorem callback_ok_add (c : Cfg) (s s' : Store) (tx : Tx) (pd : Option NDoc) (h : callback c s tx pd = .ok s') :
    ∃ d, pd = some d ∧ add c.store s (eventOf tx d) = .ok s' := by
  obtain ⟨_, d, hpd, _, hcase⟩ := callback_ok_inv c s s' tx pd h
  refine ⟨d, hpd, ?_⟩
  rcases hcase with ⟨k, _, hc⟩ | ⟨_, hup⟩
  · exact (handleCreate_ok c s s' tx k d hc).2
  · obtain ⟨_, _, _, _, _, _, _, hadd⟩ := handleUpdate_ok_inv c s s' tx d hup
    exact hadd

/-- a transaction the store already holds changes nothing when it is accepted again -/
theorem reprocessOne_known (c : Cfg) (s : Store) (tx : Tx) (d : NDoc)
    (h : contains (s.get d.id).events (eventOf tx d) = true) : reprocessOne c s tx (some d) = s := by
  unfold reprocessOne
  split
  · rename_i s' hs'
    obtain ⟨d', hd', hadd⟩ := callback_ok_add c s s' tx (some d) hs'
    cases hd'
    have h' : contains (s.get (eventOf tx d).doc.id).events (eventOf tx d) = true := h
    rw [add_contains c.store s (eventOf tx d) h'] at hadd
    cases hadd
    rfl
  · rfl

theorem reprocessOne_events (c : Cfg) (s : Store) (tx : Tx) (pd : Option NDoc) (id : String) (e : Event)
    (h : e ∈ ((reprocessOne c s tx pd).get id).events) :
    e ∈ (s.get id).events ∨
      ∃ d s', pd = some d ∧ callback c s tx (some d) = .ok s' ∧ e = eventOf tx d ∧ d.id = id := by
  unfold reprocessOne at h
  split at h
  · rename_i s' hs'
    obtain ⟨d, hpd, hadd⟩ := callback_ok_add c s s' tx pd hs'
    subst hpd
    obtain ⟨hother, hown⟩ := add_get c.store s s' (eventOf tx d) hadd
    by_cases hid : id = (eventOf tx d).doc.id
    · subst hid
      rcases hown with ⟨_, rfl⟩ | hsome
      · exact Or.inl h
      · rcases addDid_events c.store _ _ _ hsome e h with rfl | hold
        · exact Or.inr ⟨d, s', rfl, hs', rfl, rfl⟩
        · exact Or.inl hold
    · rw [hother id hid] at h
      exact Or.inl h
  · exact Or.inl h

theorem reprocess_events (c : Cfg) :
    ∀ (l : List (Tx × Option NDoc)) (s : Store) (id : String) (e : Event),
      e ∈ ((reprocess c s l).get id).events →
      e ∈ (s.get id).events ∨
      ∃ pre tx d post s', l = pre ++ (tx, some d) :: post ∧ e = eventOf tx d ∧ d.id = id ∧
        callback c (reprocess c s pre) tx (some d) = .ok s' := by
  intro l
  induction l with
  | nil => intro s id e h; exact Or.inl h
  | cons p ps ih =>
    intro s id e h
    obtain ⟨tx, pd⟩ := p
    simp only [reprocess] at h
    rcases ih _ id e h with h1 | ⟨pre, tx', d, post, s', hl, he, hid, hok⟩
    · rcases reprocessOne_events c s tx pd id e h1 with h2 | ⟨d, s', hpd, hok, he, hid⟩
      · exact Or.inl h2
      · subst hpd
        exact Or.inr ⟨[], tx, d, ps, s', rfl, he, hid, hok⟩
    · refine Or.inr ⟨(tx, pd) :: pre, tx', d, post, s', by rw [hl]; rfl, he, hid, ?_⟩
      simpa [reprocess] using hok

/-! ### store-level resolution without AllowDeactivated -/

theorem matchesMeta_not_deactivated (m : Meta) (rm : Option ResolveMeta) (ha : allowOf rm = false)
    (h : matchesMeta m rm = true) : m.deactivated = false := by
  unfold matchesMeta at h
  cases rm with
  | none => simpa using h
  | some r =>
    simp only [allowOf] at ha
    simp only [ha, Bool.not_false, Bool.and_true] at h
    cases hd : m.deactivated with
    | false => rfl
    | true => simp [hd] at h

theorem resolveChain_ok (rm : Option ResolveMeta) (ha : allowOf rm = false) :
    ∀ (chain : List (Doc × Meta)) (d : Doc) (m : Meta), resolveChain rm chain = .ok (d, m) →
      m.deactivated = false ∧ (d, m) ∈ chain := by
  intro chain
  induction chain with
  | nil => intro d m h; simp [resolveChain] at h
  | cons p rest ih =>
    intro d m h
    obtain ⟨d0, m0⟩ := p
    unfold resolveChain at h
    split at h
    · cases h
    · split at h
      · rename_i hm
        cases h
        exact ⟨matchesMeta_not_deactivated m rm ha hm, List.mem_cons_self⟩
      · obtain ⟨h1, h2⟩ := ih d m h
        exact ⟨h1, List.mem_cons_of_mem _ h2⟩

/-- a version that the store resolves without `AllowDeactivated` is not flagged deactivated and is a stored version -/
theorem storeDoc_ok (s : Store) (rm : Option ResolveMeta) (ha : allowOf rm = false) (id : String) (d : Doc)
    (h : storeDoc s rm id = .ok d) :
    ∃ m, resolve s id rm = .ok (d, m) ∧ m.deactivated = false ∧ (d, m) ∈ (s.get id).chain := by
  unfold storeDoc at h
  split at h
  · rename_i d' m hr
    cases h
    refine ⟨m, hr, ?_⟩
    unfold resolve at hr
    obtain ⟨h1, h2⟩ := resolveChain_ok rm ha _ d m hr
    exact ⟨h1, by simpa using h2⟩
  · cases h
  · cases h

/-! ### validators -/

def allOn : Rule → Bool := fun _ => true

theorem entryIdErr_none_iff (owner id pfx frag : String) (known : List String) :
    entryIdErr true true true owner id pfx frag known = none ↔ frag ≠ "" ∧ id ∉ known ∧ owner = pfx := by
  unfold entryIdErr
  by_cases h1 : frag = ""
  · simp [h1]
  · by_cases h2 : known.contains id = true
    · have : id ∈ known := by simpa using h2
      simp [h1, h2, this]
    · have : id ∉ known := by simpa using h2
      by_cases h3 : owner = pfx
      · simp [h1, h2, h3, this]
      · simp [h1, h2, h3, this]

/-- what `verificationMethodValidator` establishes, relative to the ids seen so far -/
def VMsOk (thumb : Key → String) (owner : String) (vs : List NVM) (known : List String) : Prop :=
  (∀ v ∈ vs, v.frag ≠ "" ∧ v.pfx = owner ∧ ∃ k, v.key = .key k ∧ thumb k = v.frag) ∧
  (vs.map (·.id)).Nodup ∧ ∀ v ∈ vs, v.id ∉ known

theorem validateVMs_ok_iff (thumb : Key → String) (ne : Bool) (owner : String) :
    ∀ (vs : List NVM) (known : List String),
      validateVMs thumb ne allOn owner vs known = .ok () ↔ VMsOk thumb owner vs known := by
  intro vs
  induction vs with
  | nil => intro known; simp [validateVMs, VMsOk]
  | cons v vs ih =>
    intro known
    unfold validateVMs
    simp only [allOn, Bool.true_and]
    cases he : entryIdErr true true true owner v.id v.pfx v.frag known with
    | some e =>
      simp only
      constructor
      · intro h; cases h
      · intro h
        have hv := h.1 v List.mem_cons_self
        have hk := h.2.2 v List.mem_cons_self
        have : entryIdErr true true true owner v.id v.pfx v.frag known = none :=
          (entryIdErr_none_iff owner v.id v.pfx v.frag known).mpr ⟨hv.1, hk, hv.2.1.symm⟩
        rw [this] at he; cases he
    | none =>
      simp only
      obtain ⟨hfrag, hnk, hpfx⟩ := (entryIdErr_none_iff owner v.id v.pfx v.frag known).mp he
      cases hkey : v.key with
      | bad =>
        simp only
        constructor
        · intro h; cases h
        · intro h; obtain ⟨k, hk, _⟩ := (h.1 v List.mem_cons_self).2.2; rw [hkey] at hk; cases hk
      | none =>
        simp only
        constructor
        · intro h; split at h <;> cases h
        · intro h; obtain ⟨k, hk, _⟩ := (h.1 v List.mem_cons_self).2.2; rw [hkey] at hk; cases hk
      | key k =>
        simp only
        by_cases ht : thumb k = v.frag
        · simp only [ht, ne_eq, not_true_eq_false, decide_false, Bool.false_eq_true, if_false]
          rw [ih (v.id :: known)]
          unfold VMsOk
          constructor
          · rintro ⟨h1, h2, h3⟩
            refine ⟨?_, ?_, ?_⟩
            · intro w hw
              rcases List.mem_cons.mp hw with rfl | hw
              · exact ⟨hfrag, hpfx.symm, k, hkey, ht⟩
              · exact h1 w hw
            · simp only [List.map_cons, List.nodup_cons]
              refine ⟨?_, h2⟩
              intro hm
              obtain ⟨w, hw, hwid⟩ := List.mem_map.mp hm
              exact h3 w hw (by rw [hwid]; exact List.mem_cons_self)
            · intro w hw
              rcases List.mem_cons.mp hw with rfl | hw
              · exact hnk
              · intro hk
                exact h3 w hw (List.mem_cons_of_mem _ hk)
          · rintro ⟨h1, h2, h3⟩
            simp only [List.map_cons, List.nodup_cons] at h2
            refine ⟨fun w hw => h1 w (List.mem_cons_of_mem _ hw), h2.2, ?_⟩
            intro w hw hk
            rcases List.mem_cons.mp hk with heq | hk
            · exact h2.1 (List.mem_map.mpr ⟨w, hw, heq⟩)
            · exact h3 w (List.mem_cons_of_mem _ hw) hk
        · simp only [ne_eq, ht, not_false_eq_true, decide_true, if_true]
          constructor
          · intro h; cases h
          · intro h
            obtain ⟨k', hk', ht'⟩ := (h.1 v List.mem_cons_self).2.2
            rw [hkey] at hk'; cases hk'
            exact absurd ht' ht

/-- what `basicServiceValidator` establishes, relative to the ids and types seen so far -/
def SvcsOk (owner : String) (ss : List NSvc) (knownIds knownTypes : List String) : Prop :=
  (∀ s ∈ ss, s.frag ≠ "" ∧ s.pfx = owner) ∧
  (ss.map (·.id)).Nodup ∧ (∀ s ∈ ss, s.id ∉ knownIds) ∧
  (ss.map (·.type)).Nodup ∧ (∀ s ∈ ss, s.type ∉ knownTypes)

theorem validateSvcs_ok_iff (owner : String) :
    ∀ (ss : List NSvc) (ki kt : List String),
      validateSvcs allOn owner ss ki kt = .ok () ↔ SvcsOk owner ss ki kt := by
  intro ss
  induction ss with
  | nil => intro ki kt; simp [validateSvcs, SvcsOk]
  | cons s ss ih =>
    intro ki kt
    unfold validateSvcs
    simp only [allOn, Bool.true_and]
    cases he : entryIdErr true true true owner s.id s.pfx s.frag ki with
    | some e =>
      simp only
      constructor
      · intro h; cases h
      · intro h
        have hv := h.1 s List.mem_cons_self
        have hk := h.2.2.1 s List.mem_cons_self
        have : entryIdErr true true true owner s.id s.pfx s.frag ki = none :=
          (entryIdErr_none_iff owner s.id s.pfx s.frag ki).mpr ⟨hv.1, hk, hv.2.symm⟩
        rw [this] at he; cases he
    | none =>
      simp only
      obtain ⟨hfrag, hnk, hpfx⟩ := (entryIdErr_none_iff owner s.id s.pfx s.frag ki).mp he
      by_cases hty : kt.contains s.type = true
      · simp only [hty, if_true]
        constructor
        · intro h; cases h
        · intro h
          exact absurd (by simpa using hty) (h.2.2.2.2 s List.mem_cons_self)
      · have hnt : s.type ∉ kt := by simpa using hty
        simp only [hty, Bool.false_eq_true, if_false]
        rw [ih (s.id :: ki) (s.type :: kt)]
        unfold SvcsOk
        constructor
        · rintro ⟨h1, h2, h3, h4, h5⟩
          refine ⟨?_, ?_, ?_, ?_, ?_⟩
          · intro w hw
            rcases List.mem_cons.mp hw with rfl | hw
            · exact ⟨hfrag, hpfx.symm⟩
            · exact h1 w hw
          · simp only [List.map_cons, List.nodup_cons]
            refine ⟨?_, h2⟩
            intro hm
            obtain ⟨w, hw, hwid⟩ := List.mem_map.mp hm
            exact h3 w hw (by rw [hwid]; exact List.mem_cons_self)
          · intro w hw
            rcases List.mem_cons.mp hw with rfl | hw
            · exact hnk
            · intro hk; exact h3 w hw (List.mem_cons_of_mem _ hk)
          · simp only [List.map_cons, List.nodup_cons]
            refine ⟨?_, h4⟩
            intro hm
            obtain ⟨w, hw, hwid⟩ := List.mem_map.mp hm
            exact h5 w hw (by rw [hwid]; exact List.mem_cons_self)
          · intro w hw
            rcases List.mem_cons.mp hw with rfl | hw
            · exact hnt
            · intro hk; exact h5 w hw (List.mem_cons_of_mem _ hk)
        · rintro ⟨h1, h2, h3, h4, h5⟩
          simp only [List.map_cons, List.nodup_cons] at h2 h4
          refine ⟨fun w hw => h1 w (List.mem_cons_of_mem _ hw), h2.2, ?_, h4.2, ?_⟩
          · intro w hw hk
            rcases List.mem_cons.mp hk with heq | hk
            · exact h2.1 (List.mem_map.mpr ⟨w, hw, heq⟩)
            · exact h3 w (List.mem_cons_of_mem _ hw) hk
          · intro w hw hk
            rcases List.mem_cons.mp hk with heq | hk
            · exact h4.1 (List.mem_map.mpr ⟨w, hw, heq⟩)
            · exact h5 w (List.mem_cons_of_mem _ hw) hk

/-- what go-did's `W3CSpecValidator` establishes (on the structural flags of the parsed document) -/
def W3COk (d : NDoc) : Prop :=
  d.hasDidCtx = true ∧ d.idEmpty = false ∧ d.ctrlEmptyAny = false ∧
  (∀ v ∈ d.vms, vmW3COk v = true) ∧
  (∀ v ∈ d.auth ++ d.assertion ++ d.keyAgr ++ d.capInv ++ d.capDel, vmW3COk v = true) ∧
  (∀ s ∈ d.services, svcW3COk s = true)

theorem firstBadRel_none_iff (d : NDoc) :
    firstBadRel d = none ↔ ∀ v ∈ d.auth ++ d.assertion ++ d.keyAgr ++ d.capInv ++ d.capDel, vmW3COk v = true := by
  unfold firstBadRel
  simp only [List.mem_append]
  constructor
  · intro h
    split at h
    · cases h
    · split at h
      · cases h
      · split at h
        · cases h
        · split at h
          · cases h
          · split at h
            · cases h
            · rename_i h1 h2 h3 h4 h5
              simp only [Bool.not_eq_true', Bool.not_eq_false, Bool.not_eq_eq_eq_not, Bool.not_true, Bool.not_false] at h1 h2 h3 h4 h5
              intro v hv
              rcases hv with (((hv | hv) | hv) | hv) | hv
              · exact List.all_eq_true.mp (by simpa using h1) v hv
              · exact List.all_eq_true.mp (by simpa using h2) v hv
              · exact List.all_eq_true.mp (by simpa using h3) v hv
              · exact List.all_eq_true.mp (by simpa using h4) v hv
              · exact List.all_eq_true.mp (by simpa using h5) v hv
  · intro h
    have a1 : d.auth.all vmW3COk = true := List.all_eq_true.mpr (fun v hv => h v (Or.inl (Or.inl (Or.inl (Or.inl hv)))))
    have a2 : d.assertion.all vmW3COk = true := List.all_eq_true.mpr (fun v hv => h v (Or.inl (Or.inl (Or.inl (Or.inr hv)))))
    have a3 : d.keyAgr.all vmW3COk = true := List.all_eq_true.mpr (fun v hv => h v (Or.inl (Or.inl (Or.inr hv))))
    have a4 : d.capInv.all vmW3COk = true := List.all_eq_true.mpr (fun v hv => h v (Or.inl (Or.inr hv)))
    have a5 : d.capDel.all vmW3COk = true := List.all_eq_true.mpr (fun v hv => h v (Or.inr hv))
    simp [a1, a2, a3, a4, a5]

theorem validateW3C_ok_iff (d : NDoc) : validateW3C allOn d = .ok () ↔ W3COk d := by
  unfold validateW3C W3COk allOn
  rw [← firstBadRel_none_iff]
  simp only [Bool.true_and, if_true]
  constructor
  · intro h
    split at h
    · cases h
    · rename_i c1
      split at h
      · cases h
      · rename_i c2
        split at h
        · cases h
        · rename_i c3
          split at h
          · cases h
          · rename_i c4
            split at h
            · cases h
            · rename_i c5
              split at h
              · cases h
              · rename_i c6
                exact ⟨by simpa using c1, by simpa using c2, by simpa using c3,
                  List.all_eq_true.mp (by simpa using c4), c5, List.all_eq_true.mp (by simpa using c6)⟩
  · rintro ⟨h1, h2, h3, h4, h5, h6⟩
    have a4 := List.all_eq_true.mpr h4
    have a6 := List.all_eq_true.mpr h6
    rw [h1, h2, h3, a4, a6, h5]
    rfl

/-- well-formed per DID-core and the Nuts method rules, for a document without null entries -/
def WellFormedCore (thumb : Key → String) (d : NDoc) : Prop :=
  W3COk d ∧
  (∀ v ∈ d.vms, v.frag ≠ "" ∧ v.pfx = d.id ∧ ∃ k, v.key = .key k ∧ thumb k = v.frag) ∧ (d.vms.map (·.id)).Nodup ∧
  (∀ s ∈ d.services, s.frag ≠ "" ∧ s.pfx = d.id) ∧ (d.services.map (·.id)).Nodup ∧ (d.services.map (·.type)).Nodup

theorem validate3_ok_iff (thumb : Key → String) (ne : Bool) (d : NDoc) :
    validate thumb ne [.w3c, .nutsVM, .nutsService] d = .ok () ↔ WellFormedCore thumb d := by
  unfold validate validateList validateList validateList validateList runValidator
  have hw := validateW3C_ok_iff d
  have hv := validateVMs_ok_iff thumb ne d.id d.vms []
  have hs := validateSvcs_ok_iff d.id d.services [] []
  unfold allOn at hw hv hs
  unfold WellFormedCore
  cases h1 : validateW3C (fun _ => true) d with
  | err e => simp only; rw [h1] at hw; constructor
             · intro h; cases h
             · intro h; exact absurd (hw.mpr h.1) (by simp)
  | panic e => simp only; rw [h1] at hw; constructor
               · intro h; cases h
               · intro h; exact absurd (hw.mpr h.1) (by simp)
  | ok u =>
    simp only
    have hw' : W3COk d := hw.mp (by rw [h1])
    cases h2 : validateVMs thumb ne (fun _ => true) d.id d.vms [] with
    | err e => simp only; rw [h2] at hv; constructor
               · intro h; cases h
               · intro h; exact absurd (hv.mpr ⟨h.2.1, h.2.2.1, by simp⟩) (by simp)
    | panic e => simp only; rw [h2] at hv; constructor
                 · intro h; cases h
                 · intro h; exact absurd (hv.mpr ⟨h.2.1, h.2.2.1, by simp⟩) (by simp)
    | ok u2 =>
      simp only
      have hv' : VMsOk thumb d.id d.vms [] := hv.mp (by rw [h2])
      cases h3 : validateSvcs (fun _ => true) d.id d.services [] [] with
      | err e => simp only; rw [h3] at hs; constructor
                 · intro h; cases h
                 · intro h; exact absurd (hs.mpr ⟨h.2.2.2.1, h.2.2.2.2.1, by simp, h.2.2.2.2.2, by simp⟩) (by simp)
      | panic e => simp only; rw [h3] at hs; constructor
                   · intro h; cases h
                   · intro h; exact absurd (hs.mpr ⟨h.2.2.2.1, h.2.2.2.2.1, by simp, h.2.2.2.2.2, by simp⟩) (by simp)
      | ok u3 =>
        simp only
        have hs' : SvcsOk d.id d.services [] [] := hs.mp (by rw [h3])
        constructor
        · intro _; exact ⟨hw', hv'.1, hv'.2.1, hs'.1, hs'.2.1, hs'.2.2.2.1⟩
        · intro _; trivial


/-- **Well-formed per DID-core and the Nuts method rules** (declarative; what the property text lists): no null
    entries, and the core rules -/
def WellFormedNuts (thumb : Key → String) (d : NDoc) : Prop :=
  (d.vmNull = false ∧ d.relNull = false) ∧ WellFormedCore thumb d

theorem validate_ok_iff (thumb : Key → String) (ne : Bool) (d : NDoc) :
    validate thumb ne [.nilEntry, .w3c, .nutsVM, .nutsService] d = .ok () ↔ WellFormedNuts thumb d := by
  have h3 := validate3_ok_iff thumb ne d
  unfold validate at h3 ⊢
  unfold validateList runValidator validateNil WellFormedNuts
  cases hv : d.vmNull <;> cases hr : d.relNull <;> simp [h3]

end Nuts.C09
