/-
  C10 — the shelf-level model (NutsModel/C10/Shelves.lean: MetaRef numbering, metadata keys DID+version, latest
  pointer, Resolve's walk by `Version - 1`) refines the per-DID chain model for every arrival sequence.
-/
import NutsModel.C10.Shelves
import NutsProofs.Lemmas.C10

namespace Nuts.C10
open Nuts

/-! ## association lists keyed by version numbers -/

theorem nGet_put_self {ν} (m : List (Nat × ν)) (k : Nat) (v : ν) : alGet (alPut m k v) k = some v := by
  simp [alGet, alPut]

theorem nGet_put_other {ν} (m : List (Nat × ν)) (k j : Nat) (v : ν) (h : j ≠ k) :
    alGet (alPut m k v) j = alGet m j := by
  unfold alGet alPut
  have hkj : (k == j) = false := by simp; exact fun e => h e.symm
  simp only [List.find?_cons, hkj]
  congr 1
  induction m with
  | nil => rfl
  | cons q qs ih =>
    by_cases hq : q.1 = k
    · have hqj : (q.1 == j) = false := by simp [hq]; exact fun e => h e.symm
      simp only [List.filter_cons, hq, beq_self_eq_true, Bool.not_true, Bool.false_eq_true, if_false, List.find?_cons]
      rw [← hq] at ih ⊢
      simp only [hqj]
      exact ih
    · have : (q.1 == k) = false := by simpa using hq
      simp only [List.filter_cons, this, Bool.not_false, if_true, List.find?_cons]
      split
      · rfl
      · exact ih

/-! ## versions along a derived chain are consecutive -/

theorem applyAll_versions (cfg : Cfg) (evs : List Event) :
    ∀ (es : List Event) (cur : Option Meta) (c : List (Doc × Meta)), applyAll cfg evs cur es = .ok c →
      ∀ j p, c[j]? = some p → p.2.version = nextVersion cur + j := by
  intro es
  induction es with
  | nil => intro cur c h j p hp; simp only [applyAll, Res.ok.injEq] at h; subst h; simp at hp
  | cons e es ih =>
    intro cur c h j p hp
    unfold applyAll at h
    split at h
    · rename_i d m he
      split at h
      · rename_i rest hr
        cases h
        have hv := applyEvent_version cfg evs cur e d m he
        cases j with
        | zero =>
          simp only [List.getElem?_cons_zero, Option.some.injEq] at hp
          subst hp
          simpa using hv
        | succ j =>
          simp only [List.getElem?_cons_succ] at hp
          have := ih (some m) rest hr j p hp
          have hn : nextVersion (some m) = m.version + 1 := rfl
          omega
      · cases h
      · cases h
    · cases h
    · cases h

/-! ## `putAll`: the loop's Puts overwrite exactly the keys idx, idx+1, … -/

theorem putAll_get : ∀ (l : List (Doc × Meta)) (ms : List (Nat × (Doc × Meta))) (idx : Nat),
    (∀ j p, l[j]? = some p → p.2.version = idx + j) →
    ∀ i, alGet (putAll ms l) i = if idx ≤ i ∧ i < idx + l.length then l[i - idx]? else alGet ms i := by
  intro l
  induction l with
  | nil =>
    intro ms idx _ i
    have : ¬ (idx ≤ i ∧ i < idx + ([] : List (Doc × Meta)).length) := by simp only [List.length_nil]; omega
    rw [if_neg this]
    rfl
  | cons p ps ih =>
    intro ms idx hv i
    have hp : p.2.version = idx := by simpa using hv 0 p (by simp)
    have hv' : ∀ j q, ps[j]? = some q → q.2.version = (idx + 1) + j := by
      intro j q hq
      have := hv (j + 1) q (by simpa using hq)
      omega
    show alGet (putAll (putStep ms p) ps) i = _
    rw [ih (putStep ms p) (idx + 1) hv' i]
    unfold putStep
    rw [hp]
    by_cases h1 : idx + 1 ≤ i ∧ i < idx + 1 + ps.length
    · have h2 : idx ≤ i ∧ i < idx + (p :: ps).length := by simp only [List.length_cons]; omega
      simp only [h1, h2, and_self, if_true]
      have : i - idx = (i - (idx + 1)) + 1 := by omega
      rw [this, List.getElem?_cons_succ]
    · simp only [h1, if_false]
      by_cases h3 : i = idx
      · subst h3
        have h2 : i ≤ i ∧ i < i + (p :: ps).length := by simp only [List.length_cons]; omega
        simp only [h2, and_self, if_true, Nat.sub_self, List.getElem?_cons_zero]
        exact nGet_put_self _ _ _
      · have h2 : ¬ (idx ≤ i ∧ i < idx + (p :: ps).length) := by simp only [List.length_cons]; omega
        simp only [h2, if_false]
        exact nGet_put_other _ _ _ _ h3

/-! ## stored event list = the chain model's event list, numbered by position -/

def renumberFrom : Nat → List Event → List SEvent
  | _, [] => []
  | k, x :: xs => ⟨x, some k⟩ :: renumberFrom (k + 1) xs

theorem renumberFrom_map : ∀ (l : List Event) (k : Nat), (renumberFrom k l).map (·.ev) = l := by
  intro l
  induction l with
  | nil => intro k; rfl
  | cons x xs ih => intro k; simp [renumberFrom, ih]

theorem renumberFrom_get : ∀ (l : List Event) (k i : Nat),
    (renumberFrom k l)[i]? = (l[i]?).map (fun e => (⟨e, some (k + i)⟩ : SEvent)) := by
  intro l
  induction l with
  | nil => intro k i; simp [renumberFrom]
  | cons x xs ih =>
    intro k i
    cases i with
    | zero => simp [renumberFrom]
    | succ i =>
      simp only [renumberFrom, List.getElem?_cons_succ]
      rw [ih (k + 1) i]
      have : k + 1 + i = k + (i + 1) := by omega
      rw [this]

theorem sRenumber_eq : ∀ (l : List SEvent) (k : Nat), sRenumber k l = renumberFrom k (l.map (·.ev)) := by
  intro l
  induction l with
  | nil => intro k; rfl
  | cons x xs ih => intro k; simp [sRenumber, renumberFrom, ih]

/-- `sInsert` does what `insert` does on the plain events, at the same index, and leaves the prefix alone -/
theorem sInsert_spec (n : SEvent) : ∀ (l : List SEvent),
    (sInsert n l).1.map (·.ev) = (insert n.ev (l.map (·.ev))).1 ∧ (sInsert n l).2 = (insert n.ev (l.map (·.ev))).2 ∧
    ∀ i, i < (sInsert n l).2 → (sInsert n l).1[i]? = l[i]? := by
  intro l
  induction l with
  | nil => exact ⟨rfl, rfl, fun i hi => by simp [sInsert] at hi⟩
  | cons x xs ih =>
    have hcond : (x.ev :: xs.map (·.ev)).all (fun y => before n.ev y) = (x :: xs).all (fun y => before n.ev y.ev) := by
      simp [List.all_map, Function.comp_def]
    unfold sInsert
    simp only [List.map_cons]
    unfold insert
    rw [hcond]
    by_cases h : (x :: xs).all (fun y => before n.ev y.ev) = true
    · simp only [h, if_true]
      exact ⟨by simp, by simp, fun i hi => by simp at hi⟩
    · simp only [h]
      obtain ⟨h1, h2, h3⟩ := ih
      refine ⟨by simp [h1], by simp [h2], ?_⟩
      intro i hi
      cases i with
      | zero => rfl
      | succ i =>
        simp only [List.getElem?_cons_succ]
        exact h3 i (by simpa using hi)

theorem contains_renumber (l : List Event) (e : Event) :
    (renumberFrom 0 l).any (fun x => x.ev.ref == e.ref) = contains l e := by
  unfold contains
  have : ∀ (k : Nat), (renumberFrom k l).any (fun x => x.ev.ref == e.ref) = l.any (fun x => x.ref == e.ref) := by
    induction l with
    | nil => intro k; rfl
    | cons x xs ih => intro k; simp [renumberFrom, ih]
  exact this 0

/-! ## the simulation relation and its preservation -/

/-- shelves `st` hold exactly what the chain model `a` says -/
structure SInv (st : Shelves) (a : DidState) : Prop where
  events : st.events = renumberFrom 0 a.events
  metas : ∀ i, i < a.chain.length → alGet st.metas i = a.chain[i]?
  latest : st.latest = if a.chain.length = 0 then none else some (a.chain.length - 1)
  flag : st.conflicted = a.conflicted

theorem sInv_empty : SInv {} {} := ⟨rfl, fun i hi => by simp at hi, rfl, rfl⟩

theorem inv_versions (cfg : Cfg) (a : DidState) (h : Inv cfg a) :
    ∀ (j : Nat) (p : Doc × Meta), a.chain[j]? = some p → p.2.version = j := by
  intro j p hp
  have := applyAll_versions cfg a.events a.events none a.chain h.chain j p hp
  simpa [nextVersion] using this

theorem sAdd_refines (cfg : Cfg) (st : Shelves) (a : DidState) (e : Event) (hinv : Inv cfg a) (hs : SInv st a) :
    match addDid cfg a e with
    | .ok none => sAdd cfg st e = .ok none
    | .ok (some a') => ∃ st', sAdd cfg st e = .ok (some st') ∧ SInv st' a'
    | .err x => sAdd cfg st e = .err x
    | .panic x => sAdd cfg st e = .panic x := by
  have hlen : a.chain.length = a.events.length := applyAll_length hinv.chain
  unfold addDid sAdd
  rw [hs.events, contains_renumber]
  by_cases hc : contains a.events e = true
  · simp [hc]
  have hc' : contains a.events e = false := by simpa using hc
  simp only [hc', Bool.false_eq_true, if_false]
  obtain ⟨hmap, hidx, hpre⟩ := sInsert_spec ⟨e, none⟩ (renumberFrom 0 a.events)
  rw [renumberFrom_map] at hmap hidx
  simp only at hmap hidx
  rw [hmap, hidx]
  -- the base metadata read through the base event's MetaRef is the chain element before the insertion point
  obtain ⟨pre, suf, hl, hi, _⟩ := insert_split e a.events
  have hidxle : (insert e a.events).2 ≤ a.events.length := by rw [hi, hl]; simp
  have hbase : readBase st (sInsert ⟨e, none⟩ (renumberFrom 0 a.events)).1 (insert e a.events).2 =
      .ok (if (insert e a.events).2 > 0 then (a.chain[(insert e a.events).2 - 1]?).map (·.2) else none) := by
    unfold readBase
    by_cases hpos : (insert e a.events).2 > 0
    · simp only [hpos, if_true]
      have hlt : (insert e a.events).2 - 1 < (sInsert ⟨e, none⟩ (renumberFrom 0 a.events)).2 := by rw [hidx]; omega
      rw [hpre _ hlt, renumberFrom_get]
      have hin : (insert e a.events).2 - 1 < a.events.length := by omega
      rw [List.getElem?_eq_getElem hin]
      simp only [Option.map_some, Nat.zero_add]
      rw [hs.metas _ (by omega)]
      have hin' : (insert e a.events).2 - 1 < a.chain.length := by omega
      rw [List.getElem?_eq_getElem hin']
      rfl
    · simp only [hpos, if_false]
  rw [hbase]
  simp only
  -- from here both sides run the same `applyAll`
  cases happ : applyAll cfg (insert e a.events).1
      (if (insert e a.events).2 > 0 then (a.chain[(insert e a.events).2 - 1]?).map (·.2) else none)
      ((insert e a.events).1.drop (insert e a.events).2) with
  | err x => simp
  | panic x => simp
  | ok suffix =>
    simp only
    cases hlast : suffix.getLast? with
    | none =>
      have : (a.chain.take (insert e a.events).2 ++ suffix).getLast? = none := by
        have hnil : suffix = [] := List.getLast?_eq_none_iff.mp hlast
        subst hnil
        -- an empty suffix is impossible (the new event is applied), but both sides then panic alike
        have hl0 := applyAll_length happ
        simp only [List.length_nil, List.length_drop] at hl0
        have hperm := (insert_perm e a.events).length_eq
        simp only [List.length_cons] at hperm
        omega
      simp [this]
    | some last =>
      have hlast' : (a.chain.take (insert e a.events).2 ++ suffix).getLast? = some last := by
        rw [List.getLast?_append, hlast]; rfl
      simp only [hlast']
      refine ⟨_, rfl, ?_⟩
      -- versions of the suffix are idx, idx+1, …
      have hnv : nextVersion (if (insert e a.events).2 > 0 then (a.chain[(insert e a.events).2 - 1]?).map (·.2) else none)
          = (insert e a.events).2 := by
        by_cases hpos : (insert e a.events).2 > 0
        · simp only [hpos, if_true]
          have hin' : (insert e a.events).2 - 1 < a.chain.length := by omega
          rw [List.getElem?_eq_getElem hin']
          simp only [Option.map_some, nextVersion]
          have := inv_versions cfg a hinv _ _ (List.getElem?_eq_getElem hin')
          omega
        · simp only [hpos, if_false, nextVersion]; omega
      have hsv : ∀ j p, suffix[j]? = some p → p.2.version = (insert e a.events).2 + j := by
        intro j p hp
        have := applyAll_versions cfg _ _ _ suffix happ j p hp
        rw [hnv] at this; exact this
      have hsl : suffix.length = a.events.length + 1 - (insert e a.events).2 := by
        have := applyAll_length happ
        rw [this, List.length_drop, (insert_perm e a.events).length_eq]
        simp
      have htl : (a.chain.take (insert e a.events).2).length = (insert e a.events).2 := by
        rw [List.length_take]; omega
      refine ⟨?_, ?_, ?_, rfl⟩
      · simp only
        rw [sRenumber_eq, hmap]
      · intro i hi
        simp only at hi ⊢
        rw [putAll_get suffix st.metas _ hsv i]
        rw [List.length_append, htl] at hi
        by_cases h1 : (insert e a.events).2 ≤ i
        · have h2 : (insert e a.events).2 ≤ i ∧ i < (insert e a.events).2 + suffix.length := ⟨h1, by omega⟩
          simp only [h2, and_self, if_true]
          rw [List.getElem?_append_right (by omega), htl]
        · have h2 : ¬ ((insert e a.events).2 ≤ i ∧ i < (insert e a.events).2 + suffix.length) := fun h => h1 h.1
          simp only [h2, if_false]
          rw [List.getElem?_append_left (by omega), List.getElem?_take_of_lt (by omega)]
          exact hs.metas i (by omega)
      · simp only
        have hlv := applyAll_last_version cfg _ _ _ suffix happ last hlast
        rw [hnv] at hlv
        have hne : (a.chain.take (insert e a.events).2 ++ suffix).length ≠ 0 := by
          rw [List.length_append, hsl]; omega
        simp only [hne, if_false]
        rw [List.length_append, htl]
        congr 1
        omega

theorem take_succ_reverse {α} (l : List α) (k : Nat) (hk : k < l.length) :
    (l.take (k + 1)).reverse = l[k] :: (l.take k).reverse := by
  rw [List.take_add_one, List.getElem?_eq_getElem hk]
  simp

/-- `Resolve`'s walk over the metadata shelf answers what `resolveChain` answers on the chain -/
theorem sResolveFrom_eq (a : DidState) (metas : List (Nat × (Doc × Meta))) (rm : Option ResolveMeta)
    (hm : ∀ i, i < a.chain.length → alGet metas i = a.chain[i]?)
    (hv : ∀ (j : Nat) (p : Doc × Meta), a.chain[j]? = some p → p.2.version = j) :
    ∀ (k fuel : Nat), k < a.chain.length → k < fuel →
      sResolveFrom metas rm fuel k = resolveChain rm (a.chain.take (k + 1)).reverse := by
  intro k
  induction k with
  | zero =>
    intro fuel hk hf
    cases fuel with
    | zero => omega
    | succ fuel =>
      unfold sResolveFrom
      rw [hm 0 hk, List.getElem?_eq_getElem hk, take_succ_reverse a.chain 0 hk]
      cases hp : a.chain[0] with
      | mk d m =>
        have hver : m.version = 0 := hv 0 (d, m) (by rw [List.getElem?_eq_getElem hk, hp])
        simp only [List.take_zero, List.reverse_nil, resolveChain, hver, if_true]
  | succ k ih =>
    intro fuel hk hf
    cases fuel with
    | zero => omega
    | succ fuel =>
      unfold sResolveFrom
      rw [hm (k + 1) hk, List.getElem?_eq_getElem hk, take_succ_reverse a.chain (k + 1) hk]
      cases hp : a.chain[k + 1] with
      | mk d m =>
        have hver : m.version = k + 1 := hv (k + 1) (d, m) (by rw [List.getElem?_eq_getElem hk, hp])
        simp only [resolveChain, hver, Nat.add_one_ne_zero, if_false, Nat.add_sub_cancel]
        rw [ih fuel (by omega) (by omega)]

theorem sResolve_refines (cfg : Cfg) (st : Shelves) (a : DidState) (hinv : Inv cfg a) (hs : SInv st a)
    (rm : Option ResolveMeta) : sResolve st rm = resolveChain rm a.chain.reverse := by
  unfold sResolve
  rw [hs.latest]
  by_cases h0 : a.chain.length = 0
  · have : a.chain = [] := List.eq_nil_of_length_eq_zero h0
    simp [this, resolveChain]
  · simp only [h0, if_false]
    rw [sResolveFrom_eq a st.metas rm hs.metas (inv_versions cfg a hinv) (a.chain.length - 1) _ (by omega) (by omega)]
    have : a.chain.length - 1 + 1 = a.chain.length := by omega
    rw [this, List.take_length]

/-- for every arrival sequence of one DID's events the shelves refine the chain model -/
theorem sAddAll_refines (cfg : Cfg) : ∀ (l : List Event) (st : Shelves) (a a' : DidState), Inv cfg a → SInv st a →
    addDidAll cfg a l = .ok a' → ∃ st', sAddAll cfg st l = .ok st' ∧ SInv st' a' ∧ Inv cfg a' := by
  intro l
  induction l with
  | nil =>
    intro st a a' hinv hs h
    simp only [addDidAll, Res.ok.injEq] at h
    subst h
    exact ⟨st, rfl, hs, hinv⟩
  | cons e es ih =>
    intro st a a' hinv hs h
    have href := sAdd_refines cfg st a e hinv hs
    unfold addDidAll at h
    unfold sAddAll
    cases hadd : addDid cfg a e with
    | err x => rw [hadd] at h; cases h
    | panic x => rw [hadd] at h; cases h
    | ok r =>
      rw [hadd] at h href
      cases r with
      | none =>
        simp only at h href
        rw [href]
        exact ih st a a' hinv hs h
      | some a1 =>
        simp only at h href
        obtain ⟨st1, hst1, hs1⟩ := href
        rw [hst1]
        exact ih st1 a1 a' (addDid_inv cfg a e hinv a1 hadd).1 hs1 h

end Nuts.C10
