/-
  C08 — the state layer: invariant of the stored graph (`GInv`), tree-vs-spec (`TreeOK`), the state invariant `SInv`,
  preserved by `add` (every outcome), `rollback`, `restart`; observables of a state satisfying it.  Core Lean only.
-/
import NutsProofs.Lemmas.C08Store
import NutsProofs.Lemmas.C08Data

namespace Nuts.C08

variable {R G : Type} {n : Nat}

/-! ### folds over the stored set -/

def refClocks (S : List Tx) : List (Ref × Nat) := S.map fun t => (t.ref, t.clock)
def keyClocks (S : List Tx) : List (IKey × Nat) := S.map fun t => (t.ikey, t.clock)

/-- what page `p` must hold: the fold of the references whose clock is on page `p` -/
def pageVal (o : Ops R G) (ls : Nat) (l : List (R × Nat)) (p : Nat) : G :=
  specAll o (l.filter (fun rc => rc.2 / ls == p))

theorem specAll_snoc (o : Ops R G) (l : List (R × Nat)) (rc : R × Nat) :
    specAll o (l ++ [rc]) = o.ins (specAll o l) rc.1 := by
  simp [specAll, List.foldl_append]

theorem pageVal_snoc (o : Ops R G) (ls : Nat) (l : List (R × Nat)) (rc : R × Nat) :
    pageVal o ls (l ++ [rc]) = upd (pageVal o ls l) (rc.2 / ls) (o.ins (pageVal o ls l (rc.2 / ls)) rc.1) := by
  funext p
  unfold pageVal upd
  rw [List.filter_append]
  by_cases h : p = rc.2 / ls
  · subst h; simp [specAll_snoc]
  · have : (rc.2 / ls == p) = false := by simp; omega
    simp [h, this]

theorem pageVal_nil (o : Ops R G) (ls : Nat) : pageVal o ls ([] : List (R × Nat)) = fun _ => o.zero := rfl

theorem pageVal_beyond (o : Ops R G) {ls : Nat} (l : List (R × Nat)) (M p : Nat)
    (hM : ∀ rc ∈ l, rc.2 ≤ M) (hp : M / ls < p) : pageVal o ls l p = o.zero := by
  unfold pageVal
  rw [List.filter_eq_nil_iff.mpr]
  · rfl
  · intro rc hrc
    have := Nat.div_le_div_right (c := ls) (hM rc hrc)
    simp; omega

theorem foldl_max_ge (S : List Tx) (init : Nat) : init ≤ S.foldl (fun m t => max m t.clock) init := by
  induction S generalizing init with
  | nil => simp
  | cons t S ih => simp only [List.foldl_cons]; have := ih (max init t.clock); omega

theorem foldl_max_mem (S : List Tx) (init : Nat) : ∀ t ∈ S, t.clock ≤ S.foldl (fun m t => max m t.clock) init := by
  induction S generalizing init with
  | nil => intro t h; cases h
  | cons x S ih =>
    intro t ht
    simp only [List.foldl_cons]
    rcases List.mem_cons.mp ht with e | h
    · subst e; have := foldl_max_ge S (max init t.clock); omega
    · exact ih _ t h

theorem le_maxClock {S : List Tx} {t : Tx} (h : t ∈ S) : t.clock ≤ maxClock S := foldl_max_mem S 0 t h

theorem maxClock_snoc (S : List Tx) (t : Tx) : maxClock (S ++ [t]) = max (maxClock S) t.clock := by
  simp [maxClock, List.foldl_append]

theorem maxClock_nil : maxClock [] = 0 := rfl

theorem max_div (a b ls : Nat) : (max a b) / ls = max (a / ls) (b / ls) := by
  by_cases h : a ≤ b
  · have := Nat.div_le_div_right (c := ls) h
    rw [Nat.max_eq_right h, Nat.max_eq_right this]
  · have h' : b ≤ a := by omega
    have := Nat.div_le_div_right (c := ls) h'
    rw [Nat.max_eq_left h', Nat.max_eq_left this]

theorem succ_div_le (M ls : Nat) (hls : 0 < ls) : (M + 1) / ls ≤ M / ls + 1 := by
  have h1 : (M + 1) / ls ≤ (M + ls) / ls := Nat.div_le_div_right (by omega)
  rw [Nat.add_div_right M hls] at h1
  exact h1

/-! ### tree versus specification -/

/-- every page-filtered sum of the tree's leaves is the fold of the matching references -/
def Digest (o : Ops R G) (ls : Nat) (l : List (R × Nat)) (t : Tree G) : Prop :=
  ∀ q : Nat → Bool, fsum o ls q t.root.leaves = specAll o (l.filter (fun rc => q (rc.2 / ls)))

/-- tree and shelf are what the stored references `l` (highest clock `M`) imply -/
def TreeOK (o : Ops R G) (ls : Nat) (l : List (R × Nat)) (M : Nat) (t : Tree G) (shelf : List (Nat × G)) : Prop :=
  (l = [] ∧ Fresh o ls t shelf) ∨ (l ≠ [] ∧ Sync o ls t shelf (M / ls + 1) (pageVal o ls l) ∧ Digest o ls l t)

theorem Digest.new {o : Ops R G} (L : Lawful o) (ls : Nat) : Digest o ls [] (Tree.new o ls) := by
  intro q
  simp only [Tree.new, Node.leaves, fsum, List.filter_nil, specAll, List.foldl_nil]
  by_cases hq : q (ls / 2 / ls) = true <;> simp [hq, gsum, L.add_zero]

theorem TreeOK.inv {o : Ops R G} (L : Lawful o) {ls : Nat} (hls : 0 < ls) {l : List (R × Nat)} {M : Nat} {t : Tree G}
    {shelf : List (Nat × G)} (h : TreeOK o ls l M t shelf) : TInv o t ∧ t.leafSize = ls ∧ Digest o ls l t := by
  rcases h with ⟨e, f⟩ | ⟨_, s, d⟩
  · obtain ⟨rfl, _⟩ := f
    subst e
    exact ⟨TInv.new o hls, rfl, Digest.new L ls⟩
  · exact ⟨s.holds.inv, s.holds.ls_eq, d⟩

/-- `treeStore.write` of a reference whose clock is at most one above the highest clock -/
theorem TreeOK.write {o : Ops R G} (L : Lawful o) {ls : Nat} (hls : 0 < ls) {l : List (R × Nat)} {M : Nat} {t : Tree G}
    {shelf : List (Nat × G)} (h : TreeOK o ls l M t shelf) (r : R) (clock : Nat)
    (hM : ∀ rc ∈ l, rc.2 ≤ M) (hc : clock ≤ M + 1) (he : l = [] → clock = 0 ∧ M = 0) :
    TreeOK o ls (l ++ [(r, clock)]) (max M clock) (persist (t.insert o r clock) shelf).1 (persist (t.insert o r clock) shelf).2 := by
  have hi := h.inv L hls
  have hdig : Digest o ls (l ++ [(r, clock)]) (persist (t.insert o r clock) shelf).1 := by
    intro q
    have ti := insert_spec L t hi.1 r clock
    show fsum o ls q (t.insert o r clock).root.leaves = _
    have := ti.2.2 q
    rw [hi.2.1] at this
    rw [this, hi.2.2 q, List.filter_append]
    by_cases hq : q (clock / ls) = true
    · simp [hq, specAll_snoc]
    · simp [hq]
  refine Or.inr ⟨by simp, ?_, hdig⟩
  rcases h with ⟨e, f⟩ | ⟨hne, s, _⟩
  · subst e
    obtain ⟨hc0, hM0⟩ := he rfl
    subst hc0; subst hM0
    have w := Fresh.write L hls f r 0 (Nat.zero_div ls)
    have hv : pageVal o ls ([] ++ [(r, 0)]) = upd (fun _ => o.zero) 0 (o.ins o.zero r) := by
      rw [pageVal_snoc, pageVal_nil]; simp
    rw [hv]
    simpa using w
  · have hP : clock / ls ≤ M / ls + 1 := by
      have := Nat.div_le_div_right (c := ls) hc
      have := succ_div_le M ls hls
      omega
    have w := s.write L r clock hP (fun p hp => pageVal_beyond o l M p hM (by omega))
    have hm : max (M / ls + 1) (clock / ls + 1) = max M clock / ls + 1 := by rw [max_div]; omega
    rw [hm] at w
    rw [pageVal_snoc]
    exact w

/-- Load of the shelf into any tree object of the right leaf size -/
theorem TreeOK.load {o : Ops R G} (L : Lawful o) {ls : Nat} (heven : ls % 2 = 0) {l : List (R × Nat)} {M : Nat} {t : Tree G}
    {shelf : List (Nat × G)} (h : TreeOK o ls l M t shelf) (t0 : Tree G) (h0 : t0.leafSize = ls) :
    TreeOK o ls l M (Tree.load o true t0 shelf) shelf := by
  rcases h with ⟨e, f⟩ | ⟨hne, s, d⟩
  · obtain ⟨_, rfl⟩ := f
    exact Or.inl ⟨e, Fresh.load t0 h0⟩
  · have s' := s.load L heven true t0
    refine Or.inr ⟨hne, s', ?_⟩
    intro q
    rw [s'.holds.leaves, ← s.holds.leaves]
    exact d q

/-- inserting a list of (reference, clock) pairs one by one: invariant, leaf size, and every page-filtered sum of the
    leaves is the fold of the matching references -/
theorem insert_fold {o : Ops R G} (L : Lawful o) (ls : Nat) : ∀ (l l0 : List (R × Nat)) (t0 : Tree G), TInv o t0 →
    t0.leafSize = ls → Digest o ls l0 t0 →
    TInv o (l.foldl (fun t rc => t.insert o rc.1 rc.2) t0) ∧
    (l.foldl (fun t rc => t.insert o rc.1 rc.2) t0).leafSize = ls ∧
    Digest o ls (l0 ++ l) (l.foldl (fun t rc => t.insert o rc.1 rc.2) t0) := by
  intro l
  induction l with
  | nil => intro l0 t0 i e h; simpa using ⟨i, e, h⟩
  | cons rc l ih =>
    intro l0 t0 i e h
    have s := insert_spec L t0 i rc.1 rc.2
    have := ih (l0 ++ [rc]) (t0.insert o rc.1 rc.2) s.1 (by rw [s.2.1, e]) (by
      intro q
      have := s.2.2 q
      rw [e] at this
      rw [this, h q, List.filter_append]
      by_cases hq : q (rc.2 / ls) = true
      · simp [hq, specAll_snoc]
      · simp [hq])
    simpa [List.append_assoc] using this

theorem insert_fold_new {o : Ops R G} (L : Lawful o) {ls : Nat} (hls : 0 < ls) (l : List (R × Nat)) :
    TInv o (l.foldl (fun t rc => t.insert o rc.1 rc.2) (Tree.new o ls)) ∧
    (l.foldl (fun t rc => t.insert o rc.1 rc.2) (Tree.new o ls)).leafSize = ls ∧
    Digest o ls l (l.foldl (fun t rc => t.insert o rc.1 rc.2) (Tree.new o ls)) := by
  have := insert_fold L ls l [] (Tree.new o ls) (TInv.new o hls) rfl (Digest.new L ls)
  simpa using this

end Nuts.C08
