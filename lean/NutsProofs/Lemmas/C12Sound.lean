/-
  C12 helper lemmas: the model's matching is sound (and, for filters, complete) against NutsModel/C12/Spec.lean.
-/
import NutsModel.C12.Spec
import NutsProofs.Lemmas.C12
namespace Nuts.C12
open Nuts

theorem constOK_iff (c : Option String) (v : J) : constOK c v = true ↔ ConstHolds c v := by
  unfold constOK ConstHolds
  cases c with
  | none => simp
  | some cv =>
    cases v <;> simp

/-- what `matchFilter` may return for a matching value -/
def ValueRel (re : Regex) (p : Option String) (ty : String) (v x : J) : Prop :=
  x = v ∨ ∃ s pat m, v = .str s ∧ p = some pat ∧ ty = "string" ∧ (re pat s = .whole m ∨ re pat s = .cap m) ∧ x = .str m

theorem filterTail_str_some {re : Regex} {ty : String} {c p : Option String} {s : String} {x : J} (hty : ty = "string")
    (h : filterTail re ty c p (.str s) = .ok (some x)) :
    ConstHolds c (.str s) ∧ PatternHolds re p s ∧ ValueRel re p ty (.str s) x := by
  unfold filterTail at h
  split at h
  · cases h
  · next hc =>
    have hc' : ConstHolds c (.str s) := (constOK_iff _ _).1 (by simpa using hc)
    refine ⟨hc', ?_⟩
    cases p with
    | none => simp only at h; injection h with h; injection h with h; exact ⟨trivial, Or.inl h.symm⟩
    | some pat =>
      simp only [hty, beq_self_eq_true, if_true] at h
      unfold patternTail at h
      simp only at h
      unfold PatternHolds
      split at h
      · cases h
      · cases h
      · cases h
      · next m hm => injection h with h; injection h with h; exact ⟨⟨m, Or.inl hm⟩, Or.inr ⟨s, pat, m, rfl, rfl, hty, Or.inl hm, h.symm⟩⟩
      · next m hm => injection h with h; injection h with h; exact ⟨⟨m, Or.inr hm⟩, Or.inr ⟨s, pat, m, rfl, rfl, hty, Or.inr hm, h.symm⟩⟩
      · cases h

theorem filterTail_str_none {re : Regex} {ty : String} {c p : Option String} {s : String} (hty : ty = "string")
    (h : filterTail re ty c p (.str s) = .ok none) : ¬ (ConstHolds c (.str s) ∧ PatternHolds re p s) := by
  unfold filterTail at h
  split at h
  · next hc =>
    intro ⟨h1, _⟩
    have := (constOK_iff _ _).2 h1
    simp [this] at hc
  · cases p with
    | none => simp at h
    | some pat =>
      simp only [hty, beq_self_eq_true, if_true] at h
      unfold patternTail at h
      simp only at h
      intro ⟨_, m, hm⟩
      split at h
      · next hh => rcases hm with hm | hm <;> rw [hh] at hm <;> cases hm
      · next hh => rcases hm with hm | hm <;> rw [hh] at hm <;> cases hm
      · next hh => rcases hm with hm | hm <;> rw [hh] at hm <;> cases hm
      · cases h
      · cases h
      · next hh => rcases hm with hm | hm <;> rw [hh] at hm <;> cases hm

theorem filterTail_nonstr {re : Regex} {ty : String} {c p : Option String} {v : J} (hty : ty ≠ "string") :
    filterTail re ty c p v = if constOK c v then .ok (some v) else .ok none := by
  unfold filterTail
  have : (ty == "string") = false := by simpa using hty
  cases constOK c v <;> cases p <;> simp [this]

theorem constOK_nonstr (c : Option String) (v : J) (hv : ∀ s, v ≠ .str s) : constOK c v = true ↔ c = none := by
  unfold constOK
  cases c with
  | none => simp
  | some cv => cases v <;> simp; exact absurd rfl (hv _)

mutual
theorem matchCore_spec (cfg : Cfg) (hg : cfg.arrayGuard = true) (re : Regex) (ty : String) (c p : Option String) :
    ∀ v, (∀ x, matchCore cfg re ty c p v = .ok (some x) → Matches re ty c p v ∧ ValueRel re p ty v x) ∧
         (matchCore cfg re ty c p v = .ok none → ¬ Matches re ty c p v)
  | .str s => by
    unfold matchCore
    split
    · next h =>
      have hty : ty ≠ "string" := by simpa using h
      exact ⟨fun x hx => (by cases hx), fun _ hm => (by cases hm with | str _ h1 _ _ => exact hty h1)⟩
    · next h =>
      have hty : ty = "string" := by simpa using h
      refine ⟨fun x hx => ?_, fun hn hm => ?_⟩
      · have := filterTail_str_some hty hx
        exact ⟨.str s hty this.1 this.2.1, this.2.2⟩
      · cases hm with | str _ _ h2 h3 => exact filterTail_str_none hty hn ⟨h2, h3⟩
  | .num s => by
    unfold matchCore
    split
    · next h =>
      have hty : ty ≠ "number" := by simpa using h
      exact ⟨fun x hx => (by cases hx), fun _ hm => (by cases hm with | num _ h1 _ => exact hty h1)⟩
    · next h =>
      have hty : ty = "number" := by simpa using h
      have hns : ty ≠ "string" := by rw [hty]; decide
      rw [filterTail_nonstr hns]
      have hc := constOK_nonstr c (.num s) (fun _ h => by cases h)
      refine ⟨fun x hx => ?_, fun hn hm => ?_⟩
      · split at hx
        · next hco => injection hx with hx; injection hx with hx; exact ⟨.num s hty (hc.1 hco), Or.inl hx.symm⟩
        · cases hx
      · cases hm with | num _ _ h2 => simp [hc.2 h2] at hn
  | .bool b => by
    unfold matchCore
    split
    · next h =>
      have hty : ty ≠ "boolean" := by simpa using h
      exact ⟨fun x hx => (by cases hx), fun _ hm => (by cases hm with | bool _ h1 _ => exact hty h1)⟩
    · next h =>
      have hty : ty = "boolean" := by simpa using h
      have hns : ty ≠ "string" := by rw [hty]; decide
      rw [filterTail_nonstr hns]
      have hc := constOK_nonstr c (.bool b) (fun _ h => by cases h)
      refine ⟨fun x hx => ?_, fun hn hm => ?_⟩
      · split at hx
        · next hco => injection hx with hx; injection hx with hx; exact ⟨.bool b hty (hc.1 hco), Or.inl hx.symm⟩
        · cases hx
      · cases hm with | bool _ _ h2 => simp [hc.2 h2] at hn
  | .null => by
    unfold matchCore
    exact ⟨fun x hx => (by cases hx), fun hn => (by cases hn)⟩
  | .obj _ => by
    unfold matchCore
    exact ⟨fun x hx => (by cases hx), fun hn => (by cases hn)⟩
  | .arr l => by
    unfold matchCore
    have ih := matchAny_spec cfg hg re ty c p l
    split
    · next heq =>
      refine ⟨fun x hx => ?_, fun hn => (by cases hn)⟩
      injection hx with hx; injection hx with hx
      obtain ⟨e, he, hm⟩ := ih.1 heq
      exact ⟨.elem l e he hm, Or.inl hx.symm⟩
    · next heq =>
      have hnone := ih.2 heq
      split
      · next hgd =>
        have hty : ty ≠ "array" := by simpa [hg] using hgd
        refine ⟨fun x hx => (by cases hx), fun _ hm => ?_⟩
        cases hm with
        | elem _ e he hme => exact hnone e he hme
        | arrSelf _ h1 _ => exact hty h1
      · next hgd =>
        have hty : ty = "array" := by simpa [hg] using hgd
        have hns : ty ≠ "string" := by rw [hty]; decide
        rw [filterTail_nonstr hns]
        have hc := constOK_nonstr c (.arr l) (fun _ h => by cases h)
        refine ⟨fun x hx => ?_, fun hn hm => ?_⟩
        · split at hx
          · next hco => injection hx with hx; injection hx with hx; exact ⟨.arrSelf l hty (hc.1 hco), Or.inl hx.symm⟩
          · cases hx
        · cases hm with
          | elem _ e he hme => exact hnone e he hme
          | arrSelf _ _ h2 => simp [hc.2 h2] at hn
    · exact ⟨fun x hx => (by cases hx), fun hn => (by cases hn)⟩
    · exact ⟨fun x hx => (by cases hx), fun hn => (by cases hn)⟩
theorem matchAny_spec (cfg : Cfg) (hg : cfg.arrayGuard = true) (re : Regex) (ty : String) (c p : Option String) :
    ∀ l, (matchAny cfg re ty c p l = .ok true → ∃ e ∈ l, Matches re ty c p e) ∧
         (matchAny cfg re ty c p l = .ok false → ∀ e ∈ l, ¬ Matches re ty c p e)
  | [] => by
    unfold matchAny
    exact ⟨fun h => (by cases h), fun _ e he => (by cases he)⟩
  | e :: es => by
    unfold matchAny
    have ih1 := matchCore_spec cfg hg re ty c p e
    have ih2 := matchAny_spec cfg hg re ty c p es
    split
    · next x heq =>
      exact ⟨fun _ => ⟨e, List.mem_cons_self, (ih1.1 x heq).1⟩, fun h => (by cases h)⟩
    · next heq =>
      refine ⟨fun h => ?_, fun h e' he' => ?_⟩
      · obtain ⟨e', he', hm⟩ := ih2.1 h
        exact ⟨e', List.mem_cons_of_mem _ he', hm⟩
      · cases he' with
        | head => exact ih1.2 heq
        | tail _ h' => exact ih2.2 h e' h'
    · exact ⟨fun h => (by cases h), fun h => (by cases h)⟩
    · exact ⟨fun h => (by cases h), fun h => (by cases h)⟩
end

theorem matchEnum_sound (cfg : Cfg) (hg : cfg.arrayGuard = true) (re : Regex) (v : J) :
    ∀ es x, matchEnum cfg re v es = .ok (some x) → (∃ e ∈ es, Matches re "string" (some e) none v) ∧ x = v
  | [], x, h => by simp [matchEnum] at h
  | e :: es, x, h => by
    unfold matchEnum at h
    split at h
    · next y heq =>
      injection h with h; injection h with h; subst h
      have := ((matchCore_spec cfg hg re "string" (some e) none v).1 y heq)
      refine ⟨⟨e, List.mem_cons_self, this.1⟩, ?_⟩
      rcases this.2 with h | ⟨_, _, _, _, hp, _⟩
      · exact h
      · cases hp
    · cases h
    · obtain ⟨⟨e', he', hm⟩, hx⟩ := matchEnum_sound cfg hg re v es x h
      exact ⟨⟨e', List.mem_cons_of_mem _ he', hm⟩, hx⟩

/-- the value `matchFilter` reports: the value itself, or the regexp result when the filter has a pattern -/
def FilterValue (re : Regex) (f : Filter) (v x : J) : Prop :=
  x = v ∨ ∃ s pat m, v = .str s ∧ f.pattern = some pat ∧ (re pat s = .whole m ∨ re pat s = .cap m) ∧ x = .str m

theorem matchFilter_sound (cfg : Cfg) (hg : cfg.arrayGuard = true) (re : Regex) (f : Filter) (v x : J)
    (h : matchFilter cfg re f v = .ok (some x)) : FilterMatches re f v ∧ FilterValue re f v x := by
  unfold matchFilter at h
  unfold FilterMatches
  split at h
  · next es heq =>
    rw [heq]
    have := matchEnum_sound cfg hg re v es x h
    exact ⟨this.1, Or.inl this.2⟩
  · next heq =>
    rw [heq]
    have := (matchCore_spec cfg hg re f.type f.const f.pattern v).1 x h
    refine ⟨this.1, ?_⟩
    rcases this.2 with h | ⟨s, pat, m, h1, h2, _, h4, h5⟩
    · exact Or.inl h
    · exact Or.inr ⟨s, pat, m, h1, h2, h4, h5⟩

theorem matchFieldLoop_sound (cfg : Cfg) (hg : cfg.arrayGuard = true) (re : Regex) (f : Field) (tree : J) :
    ∀ (ps : List (Option Path)) (inv : Bool) (r : Option J), matchFieldLoop cfg re f tree inv ps = .ok (.yes r) →
      match r with
      | some x => ∃ p, some p ∈ ps ∧ ∃ v, getValueAtPath p tree = some v ∧
                    (∀ flt, f.filter = some flt → FilterMatches re flt v ∧ FilterValue re flt v x) ∧ (f.filter = none → x = v)
      | none => f.optional = true ∧ inv = false ∧ ∀ p, some p ∈ ps → getValueAtPath p tree = none
  | [], inv, r, h => by
    unfold matchFieldLoop at h
    split at h
    · next hc =>
      injection h with h; injection h with h; subst h
      simp only [Bool.and_eq_true, Bool.not_eq_true'] at hc
      exact ⟨hc.1, hc.2, fun p hp => (by cases hp)⟩
    · cases h
  | none :: ps, inv, r, h => by simp [matchFieldLoop] at h
  | some p :: ps, inv, r, h => by
    unfold matchFieldLoop at h
    split at h
    · next hnone =>
      have ih := matchFieldLoop_sound cfg hg re f tree ps inv r h
      cases r with
      | some x =>
        obtain ⟨p', hp', rest⟩ := ih
        exact ⟨p', List.mem_cons_of_mem _ hp', rest⟩
      | none =>
        refine ⟨ih.1, ih.2.1, fun p' hp' => ?_⟩
        cases hp' with
        | head => exact hnone
        | tail _ h' => exact ih.2.2 p' h'
    · next v hv =>
      split at h
      · next hflt =>
        injection h with h; injection h with h; subst h
        exact ⟨p, List.mem_cons_self, v, hv, ⟨fun flt hf => (by rw [hflt] at hf; cases hf), fun _ => rfl⟩⟩
      · next flt hflt =>
        split at h
        · next x heq =>
          injection h with h; injection h with h; subst h
          refine ⟨p, List.mem_cons_self, v, hv, ⟨fun flt' hf => ?_, fun hn => (by rw [hflt] at hn; cases hn)⟩⟩
          rw [hflt] at hf; injection hf with hf; subst hf
          exact matchFilter_sound cfg hg re flt v x heq
        · have ih := matchFieldLoop_sound cfg hg re f tree ps true r h
          cases r with
          | some x =>
            obtain ⟨p', hp', rest⟩ := ih
            exact ⟨p', List.mem_cons_of_mem _ hp', rest⟩
          | none => exact absurd ih.2.1 (by simp)
        · cases h
        · cases h

theorem matchField_sound (cfg : Cfg) (hg : cfg.arrayGuard = true) (re : Regex) (f : Field) (tree : J) (r : Option J)
    (h : matchField cfg re f tree = .ok (.yes r)) : FieldSat re f tree ∧ FaithfulValue re f tree r := by
  have := matchFieldLoop_sound cfg hg re f tree f.paths false r h
  cases r with
  | none =>
    exact ⟨Or.inr ⟨this.1, this.2.2⟩, ⟨this.1, this.2.2⟩⟩
  | some x =>
    obtain ⟨p, hp, v, hv, hflt, hnof⟩ := this
    refine ⟨Or.inl ⟨p, hp, v, hv, fun flt hf => (hflt flt hf).1⟩, p, hp, v, hv, ?_⟩
    cases hf : f.filter with
    | none => exact Or.inl (hnof hf)
    | some flt =>
      rcases (hflt flt hf).2 with h | ⟨s, pat, m, h1, h2, h3, h4⟩
      · exact Or.inl h
      · exact Or.inr ⟨s, pat, flt, m, h1, rfl, h2, h3, h4⟩

theorem mem_alPut {κ ν} [BEq κ] {m : List (κ × ν)} {k : κ} {v : ν} {e : κ × ν} (h : e ∈ alPut m k v) : e = (k, v) ∨ e ∈ m := by
  unfold alPut at h
  cases h with
  | head => exact Or.inl rfl
  | tail _ h' => exact Or.inr (List.mem_filter.1 h').1

theorem matchConstraintLoop_sound (cfg : Cfg) (hg : cfg.arrayGuard = true) (re : Regex) (tree : J) :
    ∀ (fs : List Field) (acc vals : Values), matchConstraintLoop cfg re tree acc fs = .ok (some vals) →
      (∀ f ∈ fs, FieldSat re f tree) ∧
      (∀ e ∈ vals, e ∈ acc ∨ ∃ f ∈ fs, f.id = some e.1 ∧ FaithfulValue re f tree e.2)
  | [], acc, vals, h => by
    unfold matchConstraintLoop at h
    injection h with h; injection h with h; subst h
    exact ⟨fun f hf => (by cases hf), fun e he => Or.inl he⟩
  | f :: fs, acc, vals, h => by
    unfold matchConstraintLoop at h
    split at h
    · cases h
    · next v heq =>
      have hf := matchField_sound cfg hg re f tree v heq
      have ih := matchConstraintLoop_sound cfg hg re tree fs _ vals h
      refine ⟨fun f' hf' => ?_, fun e he => ?_⟩
      · cases hf' with
        | head => exact hf.1
        | tail _ h' => exact ih.1 f' h'
      · rcases ih.2 e he with h1 | ⟨f', hf', h2⟩
        · cases hid : f.id with
          | none => rw [hid] at h1; exact Or.inl h1
          | some i =>
            rw [hid] at h1
            rcases mem_alPut h1 with h1 | h1
            · exact Or.inr ⟨f, List.mem_cons_self, by rw [hid, h1], by rw [h1]; exact hf.2⟩
            · exact Or.inl h1
        · exact Or.inr ⟨f', List.mem_cons_of_mem _ hf', h2⟩
    · cases h
    · cases h

theorem matchCredential_sound (cfg : Cfg) (hg : cfg.arrayGuard = true) (re : Regex) (d : Desc) (c : Cred)
    (h : matchCredential cfg re d c = .ok true) : ∀ fields, d.constraints = some fields → ∀ f ∈ fields, FieldSat re f c.tree := by
  intro fields hfs f hf
  unfold matchCredential at h
  rw [hfs] at h
  simp only at h
  unfold matchConstraint at h
  split at h
  · next r heq =>
    injection h with h
    cases r with
    | none => simp at h
    | some vals => exact (matchConstraintLoop_sound cfg hg re c.tree fields [] vals heq).1 f hf
  · cases h
  · cases h

theorem firstMatch_sound (cfg : Cfg) (hg : cfg.arrayGuard = true) (re : Regex) (pd : PD) (d : Desc) :
    ∀ (w : List Cred) (c : Cred), firstMatch cfg re pd d w = .ok (some c) → c ∈ w ∧ Satisfies re pd d c
  | [], c, h => by simp [firstMatch] at h
  | c' :: cs, c, h => by
    unfold firstMatch at h
    split at h
    · next heq =>
      split at h
      · next hf =>
        injection h with h; injection h with h; subst h
        simp only [Bool.and_eq_true] at hf
        exact ⟨List.mem_cons_self, matchCredential_sound cfg hg re d c' heq, hf.1, hf.2⟩
      · have := firstMatch_sound cfg hg re pd d cs c h
        exact ⟨List.mem_cons_of_mem _ this.1, this.2⟩
    · have := firstMatch_sound cfg hg re pd d cs c h
      exact ⟨List.mem_cons_of_mem _ this.1, this.2⟩
    · cases h
    · cases h

/-- the candidates: one per input descriptor, in order; a candidate credential is from the wallet and satisfies its descriptor -/
theorem matchConstraints_sound (cfg : Cfg) (hg : cfg.arrayGuard = true) (re : Regex) (pd : PD) (w : List Cred) :
    ∀ (ds : List Desc) (cands : List Cand), matchConstraints cfg re pd w ds = .ok cands →
      cands.map (·.1) = ds ∧ ∀ d c, (d, some c) ∈ cands → c ∈ w ∧ Satisfies re pd d c
  | [], cands, h => by
    unfold matchConstraints at h
    injection h with h; subst h
    exact ⟨rfl, fun d c hm => (by cases hm)⟩
  | d :: ds, cands, h => by
    unfold matchConstraints at h
    split at h
    · next oc heq =>
      split at h
      · next r heq2 =>
        injection h with h; subst h
        have ih := matchConstraints_sound cfg hg re pd w ds r heq2
        refine ⟨by simp [ih.1], fun d' c' hm => ?_⟩
        cases hm with
        | head => exact firstMatch_sound cfg hg re pd d w c' heq
        | tail _ h' => exact ih.2 d' c' h'
      · cases h
      · cases h
    · cases h
    · cases h

theorem basicMappings_aligned (R : Nat → Mapping → Cred → Prop) :
    ∀ (cands : List Cand) (i : Nat), (∀ x ∈ cands, x.2.isSome = true) →
      (∀ d c j, (d, some c) ∈ cands → R j (mkMapping d.id c.fmt j) c) →
      AlignedBy R i (basicMappings i cands).1 (basicMappings i cands).2 ∧
      (basicMappings i cands).1.map (·.id) = cands.map (·.1.id)
  | [], i, _, _ => by simp [basicMappings, AlignedBy]
  | (d, some c) :: rest, i, h1, h2 => by
    have ih := basicMappings_aligned R rest (i + 1) (fun x hx => h1 x (List.mem_cons_of_mem _ hx))
      (fun d c j hm => h2 d c j (List.mem_cons_of_mem _ hm))
    simp only [basicMappings, AlignedBy, List.map_cons]
    exact ⟨⟨h2 d c i List.mem_cons_self, ih.1⟩, by rw [ih.2]; rfl⟩
  | (d, none) :: rest, i, h1, _ => by
    have := h1 (d, none) List.mem_cons_self
    simp at this

theorem mem_flattenAll {c : Cred} : ∀ {ms : List Member}, c ∈ flattenAll ms → ∃ l, some l ∈ ms ∧ c ∈ l
  | [], h => by simp [flattenAll] at h
  | some l :: ms, h => by
    simp only [flattenAll, List.mem_append] at h
    rcases h with h | h
    · exact ⟨l, List.mem_cons_self, h⟩
    · obtain ⟨l', h1, h2⟩ := mem_flattenAll h
      exact ⟨l', List.mem_cons_of_mem _ h1, h2⟩
  | none :: ms, h => by
    simp only [flattenAll] at h
    obtain ⟨l', h1, h2⟩ := mem_flattenAll h
    exact ⟨l', List.mem_cons_of_mem _ h1, h2⟩

theorem mem_takeLoop {c : Cred} {lim : Nat} : ∀ {ms : List Member} {i : Nat}, c ∈ takeLoop lim i ms → ∃ l, some l ∈ ms ∧ c ∈ l
  | [], i, h => by simp [takeLoop] at h
  | some l :: ms, i, h => by
    unfold takeLoop at h
    split at h
    · exact ⟨l, List.mem_cons_self, h⟩
    · rcases List.mem_append.1 h with h | h
      · exact ⟨l, List.mem_cons_self, h⟩
      · obtain ⟨l', h1, h2⟩ := mem_takeLoop h
        exact ⟨l', List.mem_cons_of_mem _ h1, h2⟩
  | none :: ms, i, h => by
    unfold takeLoop at h
    split at h
    · simp at h
    · obtain ⟨l', h1, h2⟩ := mem_takeLoop h
      exact ⟨l', List.mem_cons_of_mem _ h1, h2⟩

theorem mem_takeLoopPre {c : Cred} {lim : Nat} : ∀ {ms : List Member} {i : Nat}, c ∈ takeLoopPre lim i ms → ∃ l, some l ∈ ms ∧ c ∈ l
  | [], i, h => by simp [takeLoopPre] at h
  | some l :: ms, i, h => by
    unfold takeLoopPre at h
    split at h
    · simp at h
    · rcases List.mem_append.1 h with h | h
      · exact ⟨l, List.mem_cons_self, h⟩
      · obtain ⟨l', h1, h2⟩ := mem_takeLoopPre h
        exact ⟨l', List.mem_cons_of_mem _ h1, h2⟩
  | none :: ms, i, h => by
    unfold takeLoopPre at h
    split at h
    · simp at h
    · obtain ⟨l', h1, h2⟩ := mem_takeLoopPre h
      exact ⟨l', List.mem_cons_of_mem _ h1, h2⟩

theorem mem_apply {cfg : Cfg} {list : List Member} {rule : String} {count min max : Option Nat} {l : List Cred} {c : Cred}
    (h : apply cfg list rule count min max = .ok l) (hc : c ∈ l) : ∃ l', some l' ∈ list ∧ c ∈ l' := by
  unfold apply at h
  split at h
  · split at h
    · cases h
    · injection h with h; subst h; exact mem_flattenAll hc
  · split at h
    · split at h
      · cases h
      · injection h with h; subst h; exact mem_takeLoop hc
    · split at h
      · cases h
      · split at h
        · cases h
        · unfold applyMax at h
          split at h
          · injection h with h; subst h
            split at hc
            · exact mem_takeLoopPre hc
            · exact mem_takeLoop hc
          · split at h
            · injection h with h; subst h; exact mem_flattenAll hc
            · split at h
              · injection h with h; subst h; simp at hc
              · cases h

theorem mem_groupMembers {cands : List Cand} {g : String} {x : Cand} (h : x ∈ groupMembers cands g) : x ∈ cands := by
  unfold groupMembers at h
  obtain ⟨c, hc, hx⟩ := List.mem_flatMap.1 h
  obtain ⟨_, _, rfl⟩ := List.mem_map.1 hx
  exact hc

theorem fromMember_some {x : Cand} {l : List Cred} (h : fromMember x = some l) : ∃ v, x.2 = some v ∧ l = [v] := by
  unfold fromMember at h
  split at h
  · next v hv =>
    split at h
    · cases h
    · injection h with h; exact ⟨v, hv, h.symm⟩
  · cases h

mutual
theorem mem_matchSR (cfg : Cfg) (cands : List Cand) :
    ∀ (s : SR) (l : List Cred) (c : Cred), SR.matchSR cfg cands s = .ok l → c ∈ l → ∃ d, (d, some c) ∈ cands
  | .mk name rule count min max frm nested, l, c, h, hc => by
    unfold SR.matchSR at h
    split at h
    · cases h
    · split at h
      · cases h
      · split at h
        · cases h
        · split at h
          · split at h
            · next ms heq =>
              obtain ⟨l', h1, h2⟩ := mem_apply h hc
              exact mem_nestedMembers cfg cands nested ms l' c heq h1 h2
            · cases h
            · cases h
          · obtain ⟨l', h1, h2⟩ := mem_apply h hc
            obtain ⟨x, hx, hfx⟩ := List.mem_map.1 h1
            obtain ⟨v, hv, hl⟩ := fromMember_some hfx
            subst hl
            simp only [List.mem_singleton] at h2
            subst h2
            exact ⟨x.1, by have := mem_groupMembers hx; rw [← hv]; exact this⟩
theorem mem_nestedMembers (cfg : Cfg) (cands : List Cand) :
    ∀ (ss : List SR) (ms : List Member) (l : List Cred) (c : Cred), SR.nestedMembers cfg cands ss = .ok ms → some l ∈ ms → c ∈ l →
      ∃ d, (d, some c) ∈ cands
  | [], ms, l, c, h, hl, _ => by
    unfold SR.nestedMembers at h
    injection h with h; subst h; cases hl
  | s :: ss, ms, l, c, h, hl, hc => by
    unfold SR.nestedMembers at h
    split at h
    · cases h
    · next r hnp =>
      simp only at h
      split at h
      · next ms' heq =>
        injection h with h; subst h
        rcases List.mem_cons.1 hl with hm | h'
        · -- the member of `s`
          cases hr : SR.matchSR cfg cands s with
          | ok l0 =>
            rw [hr] at hm
            cases l0 with
            | nil => simp at hm
            | cons a as =>
              simp only at hm
              injection hm with hm
              subst hm
              exact mem_matchSR cfg cands s (a :: as) c hr hc
          | err e => rw [hr] at hm; simp at hm
          | panic p => rw [hr] at hm; simp at hm
        · exact mem_nestedMembers cfg cands ss ms' l c heq h' hc
      · cases h
      · cases h
end

theorem mem_srSelect (cfg : Cfg) (cands : List Cand) :
    ∀ (ss : List SR) (l : List Cred) (c : Cred), srSelect cfg cands ss = .ok l → c ∈ l → ∃ d, (d, some c) ∈ cands
  | [], l, c, h, hc => by
    unfold srSelect at h; injection h with h; subst h; cases hc
  | s :: ss, l, c, h, hc => by
    unfold srSelect at h
    split at h
    · next l1 heq =>
      split at h
      · next r heq2 =>
        injection h with h; subst h
        rcases List.mem_append.1 hc with hc | hc
        · exact mem_matchSR cfg cands s l1 c heq hc
        · exact mem_srSelect cfg cands ss r c heq2 hc
      · cases h
      · cases h
    · cases h
    · cases h

theorem mem_dedup {c : Cred} : ∀ {l acc : List Cred}, c ∈ dedup acc l → c ∈ acc ∨ c ∈ l
  | [], acc, h => by unfold dedup at h; exact Or.inl h
  | x :: xs, acc, h => by
    unfold dedup at h
    split at h
    · rcases mem_dedup h with h | h
      · exact Or.inl h
      · exact Or.inr (List.mem_cons_of_mem _ h)
    · rcases mem_dedup h with h | h
      · rcases List.mem_append.1 h with h | h
        · exact Or.inl h
        · simp only [List.mem_singleton] at h; subst h; exact Or.inr List.mem_cons_self
      · exact Or.inr (List.mem_cons_of_mem _ h)

/-- every selected credential is a candidate ⇒ the i-th mapping points at the i-th selected credential and names a
    descriptor whose candidate is (by `vcEqual`) that credential -/
theorem srMappings_aligned (cands : List Cand) (R : Nat → Mapping → Cred → Prop)
    (hR : ∀ d v u j, (d, some v) ∈ cands → v.key = u.key → R j (mkMapping d.id v.fmt j) u) :
    ∀ (us : List Cred) (i : Nat), (∀ u ∈ us, ∃ d, (d, some u) ∈ cands) → AlignedBy R i (srMappings cands i us) us
  | [], i, _ => by simp [srMappings, AlignedBy]
  | u :: us, i, h => by
    unfold srMappings
    obtain ⟨d0, hd0⟩ := h u List.mem_cons_self
    have ih := fun j => srMappings_aligned cands R hR us j (fun u' hu' => h u' (List.mem_cons_of_mem _ hu'))
    cases hf : cands.find? (fun c => match c.2 with | some v => v.key == u.key | none => false) with
    | none =>
      have := List.find?_eq_none.1 hf (d0, some u) hd0
      simp at this
    | some x =>
      obtain ⟨d, ov⟩ := x
      have hmem := List.mem_of_find?_eq_some hf
      have hp := List.find?_some hf
      cases ov with
      | none => simp at hp
      | some v =>
        simp only at hp
        simp only [AlignedBy]
        exact ⟨hR d v u i hmem (by simpa using hp), ih (i + 1)⟩

theorem pdMatch_sound (cfg : Cfg) (hg : cfg.arrayGuard = true) (re : Regex) (pd : PD) (w : List Cred)
    (ms : List Mapping) (vcs : List Cred) (h : pdMatch cfg re pd w = .ok (ms, vcs)) :
    AlignedBy (MapsTo re pd w) 0 ms vcs ∧ (pd.srs = [] → ms.map (·.id) = pd.descs.map (·.id)) := by
  unfold pdMatch at h
  split at h
  · next hsr =>
    refine ⟨?_, fun hs => by simp [hs] at hsr⟩
    unfold matchSubmissionRequirements at h
    split at h
    · next cands heq =>
      have hc := matchConstraints_sound cfg hg re pd w pd.descs cands heq
      simp only at h
      split at h
      · cases h
      · split at h
        · next sel heq2 =>
          injection h with h; injection h with h1 h2; subst h1; subst h2
          apply srMappings_aligned
          · intro d v u j hm hk
            have hd : d ∈ pd.descs := by
              rw [← hc.1]; exact List.mem_map.2 ⟨(d, some v), hm, rfl⟩
            exact ⟨d, v, hd, (hc.2 d v hm).1, (hc.2 d v hm).2, hk, rfl⟩
          · intro u hu
            rcases mem_dedup hu with hu | hu
            · cases hu
            · exact mem_srSelect cfg cands pd.srs sel u heq2 hu
        · cases h
        · cases h
    · cases h
    · cases h
  · unfold matchBasic at h
    split at h
    · next cands heq =>
      have hc := matchConstraints_sound cfg hg re pd w pd.descs cands heq
      split at h
      · cases h
      · next hany =>
        injection h with h
        have hall : ∀ x ∈ cands, x.2.isSome = true := by
          intro x hx
          cases hx2 : x.2 with
          | some _ => rfl
          | none =>
            exfalso; apply hany
            exact List.any_eq_true.2 ⟨x, hx, by simp [hx2]⟩
        have := basicMappings_aligned (MapsTo re pd w) cands 0 hall (by
          intro d c j hm
          have hd : d ∈ pd.descs := by
            rw [← hc.1]; exact List.mem_map.2 ⟨(d, some c), hm, rfl⟩
          exact ⟨d, c, hd, (hc.2 d c hm).1, (hc.2 d c hm).2, rfl, rfl⟩)
        rw [h] at this
        refine ⟨this.1, fun _ => ?_⟩
        rw [this.2, ← hc.1]
        simp [List.map_map]
    · cases h
    · cases h


theorem mem_foldr_alPut {acc : Values} : ∀ {vals : Values} {e : String × Option J},
    e ∈ vals.foldr (fun kv a => alPut a kv.1 kv.2) acc → e ∈ vals ∨ e ∈ acc
  | [], e, h => Or.inr h
  | kv :: vals, e, h => by
    simp only [List.foldr_cons] at h
    rcases mem_alPut h with h | h
    · exact Or.inl (by rw [h]; exact List.mem_cons_self)
    · rcases mem_foldr_alPut h with h | h
      · exact Or.inl (List.mem_cons_of_mem _ h)
      · exact Or.inr h

theorem resolveFields_faithful (cfg : Cfg) (hg : cfg.arrayGuard = true) (re : Regex) (pd : PD) :
    ∀ (cm : List (String × Cred)) (acc vals : Values), resolveFields cfg re pd acc cm = .ok vals →
      ∀ e ∈ vals, e ∈ acc ∨ FieldSource re pd cm e
  | [], acc, vals, h, e, he => by
    unfold resolveFields at h; injection h with h; subst h; exact Or.inl he
  | (id, c) :: rest, acc, vals, h, e, he => by
    have lift : FieldSource re pd rest e → FieldSource re pd ((id, c) :: rest) e := by
      intro ⟨id', c', d, fields, f, h1, h2⟩
      exact ⟨id', c', d, fields, f, List.mem_cons_of_mem _ h1, h2⟩
    unfold resolveFields at h
    split at h
    · rcases resolveFields_faithful cfg hg re pd rest acc vals h e he with h | h
      · exact Or.inl h
      · exact Or.inr (lift h)
    · next d hd =>
      split at h
      · rcases resolveFields_faithful cfg hg re pd rest acc vals h e he with h | h
        · exact Or.inl h
        · exact Or.inr (lift h)
      · next fields hfs =>
        split at h
        · next vs heq =>
          rcases resolveFields_faithful cfg hg re pd rest _ vals h e he with h | h
          · rcases mem_foldr_alPut h with h | h
            · unfold matchConstraint at heq
              rcases (matchConstraintLoop_sound cfg hg re c.tree fields [] vs heq).2 e h with h | ⟨f, hf, h1, h2⟩
              · cases h
              · have hdm := List.mem_of_find?_eq_some hd
                have hdp := List.find?_some hd
                exact Or.inr ⟨id, c, d, fields, f, List.mem_cons_self, hdm, by simpa using hdp, hfs, hf, h1, h2⟩
            · exact Or.inl h
          · exact Or.inr (lift h)
        · rcases resolveFields_faithful cfg hg re pd rest acc vals h e he with h | h
          · exact Or.inl h
          · exact Or.inr (lift h)
        · cases h
        · cases h

/-- a pattern with two or more capture groups is an error, never a value -/
theorem many_groups_is_error (re : Regex) (pat s : String) (h : re pat s = .many) :
    patternTail re pat (.str s) = .err "regex-groups" := by
  unfold patternTail; simp [h]

/-! ### association lists keyed by strings -/

theorem alGet_nil {ν} (k : String) : alGet ([] : List (String × ν)) k = none := rfl

theorem alGet_cons {ν} (k' : String) (v : ν) (m : List (String × ν)) (k : String) :
    alGet ((k', v) :: m) k = if k' = k then some v else alGet m k := by
  unfold alGet
  simp only [List.find?_cons]
  by_cases h : k' = k
  · simp [h]
  · have : (k' == k) = false := by simpa using h
    simp [h, this]

theorem alGet_mem {ν} : ∀ {m : List (String × ν)} {k : String} {v : ν}, alGet m k = some v → (k, v) ∈ m
  | [], k, v, h => by simp [alGet_nil] at h
  | (k', v') :: m, k, v, h => by
    rw [alGet_cons] at h
    split at h
    · next hk => injection h with h; subst h; subst hk; exact List.mem_cons_self
    · exact List.mem_cons_of_mem _ (alGet_mem h)

theorem alGet_none_of {ν} : ∀ {m : List (String × ν)} {k : String}, alGet m k = none → ∀ e ∈ m, e.1 ≠ k
  | [], _, _, e, he => by cases he
  | (k', v') :: m, k, h, e, he => by
    rw [alGet_cons] at h
    split at h
    · cases h
    · next hk =>
      cases he with
      | head => exact hk
      | tail _ h' => exact alGet_none_of h e h'

theorem alGet_isSome_of_mem {ν} : ∀ {m : List (String × ν)} {k : String} {v : ν}, (k, v) ∈ m → ∃ v', alGet m k = some v'
  | (k', v') :: m, k, v, h => by
    rw [alGet_cons]
    by_cases hk : k' = k
    · exact ⟨v', by simp [hk]⟩
    · simp only [hk, if_false]
      cases h with
      | head => exact absurd rfl hk
      | tail _ h' => exact alGet_isSome_of_mem h'

theorem alPut_fresh {ν} {m : List (String × ν)} {k : String} (v : ν) (h : alGet m k = none) : alPut m k v = (k, v) :: m := by
  unfold alPut
  congr 1
  apply List.filter_eq_self.2
  intro e he
  have := alGet_none_of h e he
  simpa using this

/-- keys stay distinct under `alPut` -/
theorem alPut_keys_nodup {ν} {m : List (String × ν)} (k : String) (v : ν) (h : (m.map (·.1)).Nodup) :
    ((alPut m k v).map (·.1)).Nodup := by
  unfold alPut
  simp only [List.map_cons, List.nodup_cons]
  refine ⟨?_, ?_⟩
  · intro hk
    obtain ⟨e, he, hek⟩ := List.mem_map.1 hk
    have := (List.mem_filter.1 he).2
    simp [hek] at this
  · exact h.sublist (List.Sublist.map _ List.filter_sublist)

/-- pigeonhole on lists: a duplicate-free list contained in a list that is not longer contains it -/
theorem subset_of_nodup_subset_length : ∀ (l1 l2 : List String), l1.Nodup → l1 ⊆ l2 → l2.length ≤ l1.length → l2 ⊆ l1
  | [], l2, _, _, hlen => by
    have : l2 = [] := List.length_eq_zero_iff.1 (by simpa using hlen)
    subst this; exact fun _ h => h
  | a :: t, l2, hnd, hsub, hlen => by
    have ha : a ∈ l2 := hsub List.mem_cons_self
    have hnd' := List.nodup_cons.1 hnd
    have hsub' : t ⊆ l2.erase a := by
      intro x hx
      have hxa : x ≠ a := fun h => hnd'.1 (h ▸ hx)
      exact (List.mem_erase_of_ne hxa).2 (hsub (List.mem_cons_of_mem _ hx))
    have hlen' : (l2.erase a).length ≤ t.length := by
      rw [List.length_erase_of_mem ha]
      simp only [List.length_cons] at hlen
      omega
    have ih := subset_of_nodup_subset_length t (l2.erase a) hnd'.2 hsub' hlen'
    intro x hx
    by_cases hxa : x = a
    · subst hxa; exact List.mem_cons_self
    · exact List.mem_cons_of_mem _ (ih ((List.mem_erase_of_ne hxa).2 hx))

/-! ### Resolve with the duplicate check -/

theorem resolve_spec (cfg : Cfg) (hd : cfg.dupCheck = true) (decode : Decoder) (env : J) :
    ∀ (sub : List Mapping) (acc actual : List (String × Cred)), resolve cfg decode env acc sub = .ok actual →
      actual.length = acc.length + sub.length ∧
      (∀ mp ∈ sub, ∃ c, resolveCredential decode mp env = .ok c ∧ alGet actual mp.id = some c) ∧
      (∀ k c, alGet acc k = some c → alGet actual k = some c) ∧
      (∀ e ∈ actual, e ∈ acc ∨ ∃ mp ∈ sub, mp.id = e.1) ∧
      (sub.map (·.id)).Nodup ∧ (∀ mp ∈ sub, alGet acc mp.id = none)
  | [], acc, actual, h => by
    unfold resolve at h; injection h with h; subst h
    exact ⟨by simp, fun _ h => (by cases h), fun _ _ h => h, fun e he => Or.inl he, List.nodup_nil, fun _ h => (by cases h)⟩
  | m :: ms, acc, actual, h => by
    unfold resolve at h
    split at h
    · cases h
    · next hdup =>
      have hfresh : alGet acc m.id = none := by
        cases hg : alGet acc m.id with
        | none => rfl
        | some _ => simp [hd, hg] at hdup
      split at h
      · next c hc =>
        rw [alPut_fresh c hfresh] at h
        obtain ⟨h1, h2, h3, h4, h5, h6⟩ := resolve_spec cfg hd decode env ms _ actual h
        have hne : ∀ mp ∈ ms, mp.id ≠ m.id := by
          intro mp hmp hEq
          have := h6 mp hmp
          rw [alGet_cons] at this
          simp [hEq] at this
        refine ⟨by simp only [List.length_cons] at h1 ⊢; omega, ?_, ?_, ?_, ?_, ?_⟩
        · intro mp hmp
          cases hmp with
          | head => exact ⟨c, hc, h3 m.id c (by rw [alGet_cons]; simp)⟩
          | tail _ h' => exact h2 mp h'
        · intro k c' hk
          apply h3
          rw [alGet_cons]
          have : m.id ≠ k := by intro hEq; rw [← hEq, hfresh] at hk; cases hk
          simp [this, hk]
        · intro e he
          rcases h4 e he with h | ⟨mp, hmp, hid⟩
          · cases h with
            | head => exact Or.inr ⟨m, List.mem_cons_self, rfl⟩
            | tail _ h' => exact Or.inl h'
          · exact Or.inr ⟨mp, List.mem_cons_of_mem _ hmp, hid⟩
        · simp only [List.map_cons, List.nodup_cons]
          refine ⟨?_, h5⟩
          intro hmem
          obtain ⟨mp, hmp, hid⟩ := List.mem_map.1 hmem
          exact hne mp hmp hid
        · intro mp hmp
          cases hmp with
          | head => exact hfresh
          | tail _ h' =>
            have := h6 mp h'
            rw [alGet_cons] at this
            split at this
            · cases this
            · exact this
      · cases h
      · cases h

theorem expectedMap_spec : ∀ (ms : List Mapping) (vcs : List Cred) (acc m : List (String × Cred)),
    expectedMap acc ms vcs = .ok m → (acc.map (·.1)).Nodup →
      (m.map (·.1)).Nodup ∧ ∀ e ∈ m, e ∈ acc ∨ e.2 ∈ vcs
  | [], vcs, acc, m, h, hnd => by
    unfold expectedMap at h; injection h with h; subst h; exact ⟨hnd, fun e he => Or.inl he⟩
  | _ :: _, [], acc, m, h, _ => by unfold expectedMap at h; cases h
  | mp :: ms, c :: cs, acc, m, h, hnd => by
    unfold expectedMap at h
    obtain ⟨h1, h2⟩ := expectedMap_spec ms cs _ m h (alPut_keys_nodup mp.id c hnd)
    refine ⟨h1, fun e he => ?_⟩
    rcases h2 e he with h | h
    · rcases mem_alPut h with h | h
      · exact Or.inr (by rw [h]; exact List.mem_cons_self)
      · exact Or.inl h
    · exact Or.inr (List.mem_cons_of_mem _ h)

theorem sameMapping_spec (actual : List (String × Cred)) : ∀ (expected : List (String × Cred)), sameMapping actual expected = true →
    ∀ e ∈ expected, (∃ a, alGet actual e.1 = some a ∧ a.raw = e.2.raw) ∨ (alGet actual e.1 = none ∧ e.2.raw = "")
  | [], _, e, he => by cases he
  | (id, c) :: rest, h, e, he => by
    unfold sameMapping at h
    simp only [Bool.and_eq_true] at h
    cases he with
    | head =>
      cases hg : alGet actual id with
      | some a => rw [hg] at h; exact Or.inl ⟨a, rfl, by simpa using h.1⟩
      | none => rw [hg] at h; exact Or.inr ⟨rfl, by have := h.1; simp at this; exact this⟩
    | tail _ h' => exact sameMapping_spec actual rest h.2 e h'

/-! ### the credentials `Match`/`Build` return are credentials of the wallet -/

theorem basicMappings_mem : ∀ (cands : List Cand) (i : Nat) (u : Cred), u ∈ (basicMappings i cands).2 → ∃ d, (d, some u) ∈ cands
  | [], i, u, h => by simp [basicMappings] at h
  | (d, some c) :: rest, i, u, h => by
    simp only [basicMappings] at h
    cases h with
    | head => exact ⟨d, List.mem_cons_self⟩
    | tail _ h' =>
      obtain ⟨d', hd'⟩ := basicMappings_mem rest (i + 1) u h'
      exact ⟨d', List.mem_cons_of_mem _ hd'⟩
  | (d, none) :: rest, i, u, h => by
    simp only [basicMappings] at h
    obtain ⟨d', hd'⟩ := basicMappings_mem rest i u h
    exact ⟨d', List.mem_cons_of_mem _ hd'⟩

theorem pdMatch_vcs_mem (cfg : Cfg) (hg : cfg.arrayGuard = true) (re : Regex) (pd : PD) (w : List Cred)
    (ms : List Mapping) (vcs : List Cred) (h : pdMatch cfg re pd w = .ok (ms, vcs)) : ∀ u ∈ vcs, u ∈ w := by
  intro u hu
  unfold pdMatch at h
  split at h
  · unfold matchSubmissionRequirements at h
    split at h
    · next cands heq =>
      have hc := matchConstraints_sound cfg hg re pd w pd.descs cands heq
      simp only at h
      split at h
      · cases h
      · split at h
        · next sel heq2 =>
          injection h with h; injection h with h1 h2; subst h1; subst h2
          rcases mem_dedup hu with hu | hu
          · cases hu
          · obtain ⟨d, hd⟩ := mem_srSelect cfg cands pd.srs sel u heq2 hu
            exact (hc.2 d u hd).1
        · cases h
        · cases h
    · cases h
    · cases h
  · unfold matchBasic at h
    split at h
    · next cands heq =>
      have hc := matchConstraints_sound cfg hg re pd w pd.descs cands heq
      split at h
      · cases h
      · injection h with h
        have : vcs = (basicMappings 0 cands).2 := by rw [h]
        rw [this] at hu
        obtain ⟨d, hd⟩ := basicMappings_mem cands 0 u hu
        exact (hc.2 d u hd).1
    · cases h
    · cases h

theorem firstWallet_mem (cfg : Cfg) (hg : cfg.arrayGuard = true) (re : Regex) (pd : PD) :
    ∀ (ws : List (List Cred)) (ms : List Mapping) (vcs : List Cred), firstWallet cfg re pd ws = .ok (some (ms, vcs)) →
      ∃ w ∈ ws, pdMatch cfg re pd w = .ok (ms, vcs)
  | [], ms, vcs, h => by simp [firstWallet] at h
  | w :: ws, ms, vcs, h => by
    unfold firstWallet at h
    split at h
    · next r heq => injection h with h; injection h with h; subst h; exact ⟨w, List.mem_cons_self, heq⟩
    · obtain ⟨w', hw', hm⟩ := firstWallet_mem cfg hg re pd ws ms vcs h
      exact ⟨w', List.mem_cons_of_mem _ hw', hm⟩
    · cases h

theorem build_vcs_mem (cfg : Cfg) (hg : cfg.arrayGuard = true) (re : Regex) (pd : PD) (ws : List (List Cred))
    (ms : List Mapping) (vcs : List Cred) (h : build cfg re pd ws = .ok (ms, vcs)) : ∀ u ∈ vcs, ∃ w ∈ ws, u ∈ w := by
  intro u hu
  unfold build at h
  split at h
  · next ms' vcs' heq =>
    injection h with h; injection h with h1 h2; subst h2
    obtain ⟨w, hw, hm⟩ := firstWallet_mem cfg hg re pd ws ms' vcs' heq
    exact ⟨w, hw, pdMatch_vcs_mem cfg hg re pd w ms' vcs' hm u hu⟩
  · split at h
    · cases h
    · split at h
      · cases h
      · injection h with h; injection h with h1 h2; subst h2; cases hu
  · cases h
  · cases h


/-- what an accepted submission looks like (verifier side) -/
theorem validate_spec (cfg : Cfg) (hg : cfg.arrayGuard = true) (hd : cfg.dupCheck = true) (re : Regex) (decode : Decoder)
    (pd : PD) (env : Envelope) (sub : List Mapping) (m : List (String × Cred))
    (hraw : ∀ p ∈ env.presentations, ∀ c ∈ p, c.raw ≠ "") (hne : env.presentations ≠ [])
    (h : validate cfg re decode pd env sub = .ok m) :
    ∃ ms vcs, build cfg re pd env.presentations = .ok (ms, vcs) ∧ expectedMap [] ms vcs = .ok m ∧
      (sub.map (·.id)).Nodup ∧ sub.length = m.length ∧
      (∀ mp ∈ sub, ∃ c e, resolveCredential decode mp env.asInterface = .ok c ∧ alGet m mp.id = some e ∧ e.raw = c.raw) ∧
      (∀ e ∈ m, ∃ mp ∈ sub, mp.id = e.1) := by
  unfold validate at h
  split at h
  · cases h
  · cases h
  · next actual hres =>
    obtain ⟨r1, r2, _, r4, r5, _⟩ := resolve_spec cfg hd decode env.asInterface sub [] actual hres
    split at h
    · next hemp => exact absurd (by simpa using hemp) hne
    · split at h
      · cases h
      · split at h
        · cases h
        · cases h
        · next ms vcs hb =>
          split at h
          · cases h
          · cases h
          · next expected hexp =>
            split at h
            · cases h
            · next hlen =>
              split at h
              · cases h
              · next hsame =>
                injection h with h; subst h
                have hlen' : actual.length = expected.length := by simpa using hlen
                have hsame' : sameMapping actual expected = true := by simpa using hsame
                obtain ⟨e1, e2⟩ := expectedMap_spec ms vcs [] expected hexp List.nodup_nil
                have hvraw : ∀ e ∈ expected, e.2.raw ≠ "" := by
                  intro e he
                  rcases e2 e he with h | h
                  · cases h
                  · obtain ⟨w, hw, hu⟩ := build_vcs_mem cfg hg re pd env.presentations ms vcs hb e.2 h
                    exact hraw w hw e.2 hu
                have hs := sameMapping_spec actual expected hsame'
                -- every expected key is an id of the submission
                have hkeys : expected.map (·.1) ⊆ sub.map (·.id) := by
                  intro k hk
                  obtain ⟨e, he, rfl⟩ := List.mem_map.1 hk
                  rcases hs e he with ⟨a, ha, _⟩ | ⟨_, hr⟩
                  · rcases r4 (e.1, a) (alGet_mem ha) with h | ⟨mp, hmp, hid⟩
                    · cases h
                    · exact List.mem_map.2 ⟨mp, hmp, hid⟩
                  · exact absurd hr (hvraw e he)
                have hlen2 : (sub.map (·.id)).length ≤ (expected.map (·.1)).length := by
                  simp only [List.length_map]; simp at r1; omega
                have hback := subset_of_nodup_subset_length _ _ e1 hkeys hlen2
                refine ⟨ms, vcs, hb, hexp, r5, by simp at r1; omega, ?_, ?_⟩
                · intro mp hmp
                  obtain ⟨c, hc, hac⟩ := r2 mp hmp
                  have hk : mp.id ∈ expected.map (·.1) := hback (List.mem_map.2 ⟨mp, hmp, rfl⟩)
                  obtain ⟨e, he, hek⟩ := List.mem_map.1 hk
                  obtain ⟨e', he'⟩ := alGet_isSome_of_mem (show (mp.id, e.2) ∈ expected by rw [← hek]; exact he)
                  refine ⟨c, e', hc, he', ?_⟩
                  rcases hs (mp.id, e') (alGet_mem he') with ⟨a, ha, har⟩ | ⟨hn, _⟩
                  · simp only at ha har
                    rw [hac] at ha; injection ha with ha; subst ha; exact har.symm
                  · simp only at hn; rw [hac] at hn; cases hn
                · intro e he
                  have := hkeys (List.mem_map.2 ⟨e, he, rfl⟩)
                  obtain ⟨mp, hmp, hid⟩ := List.mem_map.1 this
                  exact ⟨mp, hmp, hid⟩

/-! ### the verifier accepts the wallet's own submission when re-matching is stable -/

/-- same keys, same `Raw()`, position by position -/
def SameRaw : List (String × Cred) → List (String × Cred) → Prop
  | [], [] => True
  | a :: as, e :: es => a.1 = e.1 ∧ a.2.raw = e.2.raw ∧ SameRaw as es
  | _, _ => False

theorem SameRaw.length_eq : ∀ {a e : List (String × Cred)}, SameRaw a e → a.length = e.length
  | [], [], _ => rfl
  | _ :: as, _ :: es, h => by simp [SameRaw.length_eq h.2.2]
  | [], _ :: _, h => by cases h
  | _ :: _, [], h => by cases h

theorem SameRaw.alGet_none : ∀ {a e : List (String × Cred)} {k : String}, SameRaw a e → alGet e k = none → alGet a k = none
  | [], [], _, _, _ => rfl
  | (ka, va) :: as, (ke, ve) :: es, k, h, hn => by
    rw [alGet_cons] at hn ⊢
    have hk : ka = ke := h.1
    subst hk
    split at hn
    · cases hn
    · next hne => simp only [hne, if_false]; exact SameRaw.alGet_none h.2.2 hn
  | [], _ :: _, _, h, _ => by cases h
  | _ :: _, [], _, h, _ => by cases h

theorem SameRaw.pointwise : ∀ {a e : List (String × Cred)}, SameRaw a e → (e.map (·.1)).Nodup →
    ∀ x ∈ e, ∃ y, alGet a x.1 = some y ∧ y.raw = x.2.raw
  | [], [], _, _, x, hx => by cases hx
  | (ka, va) :: as, (ke, ve) :: es, h, hnd, x, hx => by
    have hk : ka = ke := h.1
    subst hk
    simp only [List.map_cons, List.nodup_cons] at hnd
    cases hx with
    | head => exact ⟨va, by rw [alGet_cons]; simp, h.2.1⟩
    | tail _ h' =>
      have hne : ka ≠ x.1 := fun hEq => hnd.1 (List.mem_map.2 ⟨x, h', hEq.symm⟩)
      obtain ⟨y, hy, hr⟩ := SameRaw.pointwise h.2.2 hnd.2 x h'
      exact ⟨y, by rw [alGet_cons]; simp [hne, hy], hr⟩
  | [], _ :: _, h, _, _, _ => by cases h
  | _ :: _, [], h, _, _, _ => by cases h

theorem sameMapping_of_pointwise (actual : List (String × Cred)) : ∀ (expected : List (String × Cred)),
    (∀ x ∈ expected, ∃ y, alGet actual x.1 = some y ∧ y.raw = x.2.raw) → sameMapping actual expected = true
  | [], _ => rfl
  | (id, c) :: rest, h => by
    unfold sameMapping
    obtain ⟨y, hy, hr⟩ := h (id, c) List.mem_cons_self
    simp only at hy hr
    rw [hy]
    simp only [Bool.and_eq_true]
    exact ⟨by simpa using hr, sameMapping_of_pointwise actual rest (fun x hx => h x (List.mem_cons_of_mem _ hx))⟩

/-- Resolve (verifier, over the envelope) and the expected map (verifier's own matching) advance in lockstep -/
theorem lockstep (cfg : Cfg) (decode : Decoder) (envJ : J) :
    ∀ (sub : List Mapping) (vcs : List Cred) (acc1 acc2 : List (String × Cred)), Carries decode envJ sub vcs →
      (sub.map (·.id)).Nodup → (∀ mp ∈ sub, alGet acc2 mp.id = none) → SameRaw acc1 acc2 →
      ∃ actual expected, resolve cfg decode envJ acc1 sub = .ok actual ∧ expectedMap acc2 sub vcs = .ok expected ∧ SameRaw actual expected
  | [], [], acc1, acc2, _, _, _, hrel => ⟨acc1, acc2, by unfold resolve; rfl, by unfold expectedMap; rfl, hrel⟩
  | [], _ :: _, _, _, h, _, _, _ => by cases h
  | _ :: _, [], _, _, h, _, _, _ => by cases h
  | mp :: ms, c :: cs, acc1, acc2, hcar, hnd, hfresh, hrel => by
    obtain ⟨⟨c', hc', hraw⟩, hcar'⟩ := hcar
    simp only [List.map_cons, List.nodup_cons] at hnd
    have hf2 : alGet acc2 mp.id = none := hfresh mp List.mem_cons_self
    have hf1 : alGet acc1 mp.id = none := SameRaw.alGet_none hrel hf2
    have hfresh' : ∀ mp' ∈ ms, alGet (alPut acc2 mp.id c) mp'.id = none := by
      intro mp' hmp'
      rw [alPut_fresh c hf2, alGet_cons]
      have hne : mp.id ≠ mp'.id := fun hEq => hnd.1 (List.mem_map.2 ⟨mp', hmp', hEq.symm⟩)
      simp [hne, hfresh mp' (List.mem_cons_of_mem _ hmp')]
    have hrel' : SameRaw (alPut acc1 mp.id c') (alPut acc2 mp.id c) := by
      rw [alPut_fresh c' hf1, alPut_fresh c hf2]
      exact ⟨rfl, hraw, hrel⟩
    obtain ⟨actual, expected, h1, h2, h3⟩ := lockstep cfg decode envJ ms cs _ _ hcar' hnd.2 hfresh' hrel'
    refine ⟨actual, expected, ?_, ?_, h3⟩
    · unfold resolve
      simp only [hf1, Option.isSome_none, Bool.and_false, Bool.false_eq_true, if_false, hc']
      exact h1
    · unfold expectedMap
      exact h2

theorem rewriteSingle_ids (ms : List Mapping) : (rewriteSingle ms).map (·.id) = ms.map (·.id) := by
  unfold rewriteSingle
  split
  · rfl
  · rfl

theorem validate_own_submission (cfg : Cfg) (re : Regex) (decode : Decoder) (pd : PD) (env : Envelope)
    (ms : List Mapping) (vcs : List Cred)
    (hpres : env.presentations = [vcs]) (hsig : env.signerOK.any (fun b => !b) = false)
    (hstable : pdMatch cfg re pd vcs = .ok (ms, vcs))
    (hids : (ms.map (·.id)).Nodup)
    (hcar : Carries decode env.asInterface (rewriteSingle ms) vcs) :
    ∃ m, validate cfg re decode pd env (rewriteSingle ms) = .ok m ∧ expectedMap [] (rewriteSingle ms) vcs = .ok m := by
  have hnd : ((rewriteSingle ms).map (·.id)).Nodup := by rw [rewriteSingle_ids]; exact hids
  obtain ⟨actual, expected, h1, h2, h3⟩ := lockstep cfg decode env.asInterface (rewriteSingle ms) vcs [] [] hcar hnd
    (fun _ _ => alGet_nil _) trivial
  have hb : build cfg re pd env.presentations = .ok (rewriteSingle ms, vcs) := by
    rw [hpres]; unfold build firstWallet; rw [hstable]
  obtain ⟨e1, _⟩ := expectedMap_spec (rewriteSingle ms) vcs [] expected h2 List.nodup_nil
  refine ⟨expected, ?_, h2⟩
  unfold validate
  rw [h1]
  simp only [hpres, List.isEmpty_cons, Bool.false_eq_true, if_false, hsig]
  rw [hpres] at hb
  rw [hb]
  simp only [h2]
  have hlen := SameRaw.length_eq h3
  have hsm := sameMapping_of_pointwise actual expected (SameRaw.pointwise h3 e1)
  simp [hlen, hsm]


/-! ### completeness: "no match" answers are right -/

theorem matchEnum_complete (cfg : Cfg) (hg : cfg.arrayGuard = true) (re : Regex) (v : J) (hs : EnumErrorsHideNothing cfg re v) :
    ∀ es, matchEnum cfg re v es = .ok none → ∀ e ∈ es, ¬ Matches re "string" (some e) none v
  | [], _, e, he => by cases he
  | e0 :: es, h, e, he => by
    unfold matchEnum at h
    split at h
    · cases h
    · cases h
    · next hns hnp =>
      cases he with
      | tail _ h' => exact matchEnum_complete cfg hg re v hs es h e h'
      | head =>
        cases hr : matchCore cfg re "string" (some e0) none v with
        | ok o =>
          cases o with
          | some x => exact absurd hr (hns x)
          | none => exact (matchCore_spec cfg hg re "string" (some e0) none v).2 hr
        | err msg => exact hs e0 msg hr
        | panic s => exact absurd hr (hnp s)

theorem matchFilter_complete (cfg : Cfg) (hg : cfg.arrayGuard = true) (re : Regex) (f : Filter) (v : J)
    (hs : EnumErrorsHideNothing cfg re v) (h : matchFilter cfg re f v = .ok none) : ¬ FilterMatches re f v := by
  unfold matchFilter at h
  unfold FilterMatches
  split at h
  · next es heq =>
    rw [heq]
    intro ⟨e, he, hm⟩
    exact matchEnum_complete cfg hg re v hs es h e he hm
  · next heq =>
    rw [heq]
    exact (matchCore_spec cfg hg re f.type f.const f.pattern v).2 h

theorem matchFieldLoop_complete (cfg : Cfg) (hg : cfg.arrayGuard = true) (re : Regex) (f : Field) (tree : J)
    (hs : ∀ p v, getValueAtPath p tree = some v → EnumErrorsHideNothing cfg re v) :
    ∀ (ps : List (Option Path)) (inv : Bool), matchFieldLoop cfg re f tree inv ps = .ok .no →
      (∀ p, some p ∈ ps → ∀ v, getValueAtPath p tree = some v → ∃ flt, f.filter = some flt ∧ ¬ FilterMatches re flt v) ∧
      (f.optional = true → inv = true ∨ ∃ p, some p ∈ ps ∧ getValueAtPath p tree ≠ none)
  | [], inv, h => by
    unfold matchFieldLoop at h
    split at h
    · cases h
    · next hc =>
      refine ⟨fun p hp => (by cases hp), fun hopt => Or.inl ?_⟩
      cases inv with
      | true => rfl
      | false => simp [hopt] at hc
  | none :: ps, inv, h => by simp [matchFieldLoop] at h
  | some p :: ps, inv, h => by
    unfold matchFieldLoop at h
    split at h
    · next hnone =>
      have ih := matchFieldLoop_complete cfg hg re f tree hs ps inv h
      refine ⟨fun p' hp' v hv => ?_, fun hopt => ?_⟩
      · cases hp' with
        | head => rw [hnone] at hv; cases hv
        | tail _ h' => exact ih.1 p' h' v hv
      · rcases ih.2 hopt with h1 | ⟨p', hp', hne⟩
        · exact Or.inl h1
        · exact Or.inr ⟨p', List.mem_cons_of_mem _ hp', hne⟩
    · next v hv =>
      split at h
      · cases h
      · next flt hflt =>
        split at h
        · cases h
        · next heq =>
          have ih := matchFieldLoop_complete cfg hg re f tree hs ps true h
          have hnm := matchFilter_complete cfg hg re flt v (hs p v hv) heq
          refine ⟨fun p' hp' v' hv' => ?_, fun _ => Or.inr ⟨p, List.mem_cons_self, by rw [hv]; simp⟩⟩
          cases hp' with
          | head => rw [hv] at hv'; injection hv' with hv'; subst hv'; exact ⟨flt, hflt, hnm⟩
          | tail _ h' => exact ih.1 p' h' v' hv'
        · cases h
        · cases h

theorem matchField_complete (cfg : Cfg) (hg : cfg.arrayGuard = true) (re : Regex) (f : Field) (tree : J)
    (hs : ∀ p v, getValueAtPath p tree = some v → EnumErrorsHideNothing cfg re v)
    (h : matchField cfg re f tree = .ok .no) : ¬ FieldSat re f tree := by
  have := matchFieldLoop_complete cfg hg re f tree hs f.paths false h
  intro hsat
  rcases hsat with ⟨p, hp, v, hv, hflt⟩ | ⟨hopt, hall⟩
  · obtain ⟨flt, hf, hnm⟩ := this.1 p hp v hv
    exact hnm (hflt flt hf)
  · rcases this.2 hopt with h1 | ⟨p, hp, hne⟩
    · cases h1
    · exact hne (hall p hp)

theorem matchConstraintLoop_complete (cfg : Cfg) (hg : cfg.arrayGuard = true) (re : Regex) (tree : J)
    (hs : ∀ p v, getValueAtPath p tree = some v → EnumErrorsHideNothing cfg re v) :
    ∀ (fs : List Field) (acc : Values), matchConstraintLoop cfg re tree acc fs = .ok none → ∃ f ∈ fs, ¬ FieldSat re f tree
  | [], acc, h => by simp [matchConstraintLoop] at h
  | f :: fs, acc, h => by
    unfold matchConstraintLoop at h
    split at h
    · next heq => exact ⟨f, List.mem_cons_self, matchField_complete cfg hg re f tree hs heq⟩
    · obtain ⟨f', hf', hn⟩ := matchConstraintLoop_complete cfg hg re tree hs fs _ h
      exact ⟨f', List.mem_cons_of_mem _ hf', hn⟩
    · cases h
    · cases h

theorem firstMatch_complete (cfg : Cfg) (hg : cfg.arrayGuard = true) (re : Regex) (pd : PD) (d : Desc) :
    ∀ (w : List Cred), (∀ c ∈ w, ∀ p v, getValueAtPath p c.tree = some v → EnumErrorsHideNothing cfg re v) →
      firstMatch cfg re pd d w = .ok none → ∀ c ∈ w, ¬ Satisfies re pd d c
  | [], _, _, c, hc => by cases hc
  | c0 :: cs, hs, h, c, hc => by
    unfold firstMatch at h
    have hs' : ∀ c ∈ cs, ∀ p v, getValueAtPath p c.tree = some v → EnumErrorsHideNothing cfg re v :=
      fun c hc => hs c (List.mem_cons_of_mem _ hc)
    split at h
    · split at h
      · cases h
      · next hf =>
        cases hc with
        | head =>
          intro hsat
          apply hf
          simp [hsat.2.1, hsat.2.2]
        | tail _ h' => exact firstMatch_complete cfg hg re pd d cs hs' h c h'
    · next heq =>
      cases hc with
      | head =>
        intro hsat
        unfold matchCredential at heq
        split at heq
        · cases heq
        · next fields hfs =>
          unfold matchConstraint at heq
          split at heq
          · next r hr =>
            injection heq with heq
            cases r with
            | some _ => simp at heq
            | none =>
              obtain ⟨f, hf, hn⟩ := matchConstraintLoop_complete cfg hg re c0.tree (hs c0 List.mem_cons_self) fields [] hr
              exact hn (hsat.1 fields hfs f hf)
          · cases heq
          · cases heq
      | tail _ h' => exact firstMatch_complete cfg hg re pd d cs hs' h c h'
    · cases h
    · cases h

theorem matchConstraints_complete (cfg : Cfg) (hg : cfg.arrayGuard = true) (re : Regex) (pd : PD) (w : List Cred)
    (hs : ∀ c ∈ w, ∀ p v, getValueAtPath p c.tree = some v → EnumErrorsHideNothing cfg re v) :
    ∀ (ds : List Desc) (cands : List Cand), matchConstraints cfg re pd w ds = .ok cands →
      ∀ d, (d, none) ∈ cands → ∀ c ∈ w, ¬ Satisfies re pd d c
  | [], cands, h, d, hd => by
    unfold matchConstraints at h; injection h with h; subst h; cases hd
  | d0 :: ds, cands, h, d, hd => by
    unfold matchConstraints at h
    split at h
    · next oc heq =>
      split at h
      · next r heq2 =>
        injection h with h; subst h
        cases hd with
        | head => exact firstMatch_complete cfg hg re pd d0 w hs heq
        | tail _ h' => exact matchConstraints_complete cfg hg re pd w hs ds r heq2 d h'
      · cases h
      · cases h
    · cases h
    · cases h

/-- without submission requirements: "missing credentials" is only reported when some input descriptor really has no
    satisfying credential in the wallet -/
theorem matchBasic_complete (cfg : Cfg) (hg : cfg.arrayGuard = true) (re : Regex) (pd : PD) (w : List Cred)
    (hs : ∀ c ∈ w, ∀ p v, getValueAtPath p c.tree = some v → EnumErrorsHideNothing cfg re v)
    (hsr : pd.srs = []) (e : String) (h : pdMatch cfg re pd w = .err e) :
    (∃ d ∈ pd.descs, ∀ c ∈ w, ¬ Satisfies re pd d c) ∨ ∃ ds, matchConstraints cfg re pd w pd.descs = .err ds := by
  unfold pdMatch at h
  simp only [hsr, List.isEmpty_nil, Bool.not_true, Bool.false_eq_true, if_false] at h
  unfold matchBasic at h
  split at h
  · next cands heq =>
    left
    split at h
    · next hany =>
      obtain ⟨x, hx, hxn⟩ := List.any_eq_true.1 hany
      obtain ⟨d, oc⟩ := x
      cases oc with
      | some _ => simp at hxn
      | none =>
        have hd : d ∈ pd.descs := by
          have := (matchConstraints_sound cfg hg re pd w pd.descs cands heq).1
          rw [← this]; exact List.mem_map.2 ⟨(d, none), hx, rfl⟩
        exact ⟨d, hd, matchConstraints_complete cfg hg re pd w hs pd.descs cands heq d hx⟩
    · cases h
  · next e' heq => exact Or.inr ⟨e', heq⟩
  · cases h

/-! ### submission requirements: the rule is honoured, an error means no selection exists -/

theorem flattenAll_eq : ∀ (list : List Member), flattenAll list = (available list).flatten
  | [] => rfl
  | some l :: ms => by simp [flattenAll, available, flattenAll_eq ms]
  | none :: ms => by simp [flattenAll, available, flattenAll_eq ms]

theorem takeLoopPre_eq (lim : Nat) : ∀ (list : List Member) (i : Nat), i ≤ lim →
    takeLoopPre lim i list = ((available list).take (lim - i)).flatten
  | [], i, _ => by simp [takeLoopPre, available]
  | some l :: ms, i, h => by
    unfold takeLoopPre
    split
    · next heq =>
      have : i = lim := by simpa using heq
      subst this
      simp
    · next hne =>
      have hlt : i < lim := by
        have : i ≠ lim := by simpa using hne
        omega
      rw [takeLoopPre_eq lim ms (i + 1) (by omega)]
      have : lim - i = (lim - (i + 1)) + 1 := by omega
      rw [this]
      simp [available]
  | none :: ms, i, h => by
    unfold takeLoopPre
    split
    · next heq =>
      have : i = lim := by simpa using heq
      subst this
      simp
    · rw [takeLoopPre_eq lim ms i h]
      simp [available]

theorem takeLoop_eq (lim : Nat) : ∀ (list : List Member) (i : Nat), i < lim →
    takeLoop lim i list = ((available list).take (lim - i)).flatten
  | [], i, _ => by simp [takeLoop, available]
  | some l :: ms, i, h => by
    unfold takeLoop
    have hs : lim - i = (lim - (i + 1)) + 1 := by omega
    split
    · next heq =>
      have : i + 1 = lim := by simpa using heq
      have h0 : lim - (i + 1) = 0 := by omega
      rw [hs, h0]
      simp [available]
    · next hne =>
      have hlt : i + 1 < lim := by
        have : i + 1 ≠ lim := by simpa using hne
        omega
      rw [takeLoop_eq lim ms (i + 1) hlt, hs]
      simp [available]
  | none :: ms, i, h => by
    unfold takeLoop
    split
    · next heq =>
      have : i = lim := by simpa using heq
      omega
    · rw [takeLoop_eq lim ms i h]
      simp [available]

theorem selectableCount_eq (list : List Member) : selectableCount list = (available list).length := by
  unfold selectableCount available
  induction list with
  | nil => rfl
  | cons m ms ih =>
    cases m with
    | none => simpa using ih
    | some l => simp at ih ⊢; exact ih

theorem apply_all (cfg : Cfg) (list : List Member) (count min max : Option Nat) :
    apply cfg list "all" count min max =
      if (available list).length != list.length then .err "nocred" else .ok (flattenAll list) := by
  unfold apply; rw [selectableCount_eq]; simp

theorem apply_count (cfg : Cfg) (list : List Member) (rule : String) (hr : rule ≠ "all") (c : Nat) (min max : Option Nat) :
    apply cfg list rule (some c) min max =
      if (available list).length < c then .err "nocred" else .ok (takeLoop c 0 list) := by
  unfold apply; rw [selectableCount_eq]
  have : (rule == "all") = false := by simpa using hr
  simp [this]

theorem apply_minmax (cfg : Cfg) (list : List Member) (rule : String) (hr : rule ≠ "all") (min max : Option Nat) :
    apply cfg list rule none min max =
      if cfg.minMaxCheck && minAboveMax min max then .err "nocred"
      else if belowMin min (available list).length then .err "nocred" else applyMax cfg list max := by
  unfold apply; rw [selectableCount_eq]
  have : (rule == "all") = false := by simpa using hr
  simp [this]

/-- `apply` (repaired): what is returned is a selection of the selectable members that satisfies the rule -/
theorem apply_rule_ok (cfg : Cfg) (hf : cfg.maxCheckFirst = true) (hmm : cfg.minMaxCheck = true) (hmn : cfg.maxNilCheck = true)
    (list : List Member) (rule : String) (count min max : Option Nat) (hc : count ≠ some 0) (l : List Cred)
    (h : apply cfg list rule count min max = .ok l) :
    ∃ sel : List (List Cred), sel.Sublist (available list) ∧ l = sel.flatten ∧
      RuleOK rule count min max list.length (available list).length sel.length := by
  unfold RuleOK
  by_cases hr : rule = "all"
  · subst hr
    rw [apply_all] at h
    split at h
    · cases h
    · next hne =>
      injection h with h; subst h
      have : (available list).length = list.length := by simpa using hne
      exact ⟨available list, List.Sublist.refl _, flattenAll_eq list, by simp [this]⟩
  · simp only [hr, if_false]
    cases count with
    | some c =>
      rw [apply_count cfg list rule hr] at h
      split at h
      · cases h
      · next hge =>
        injection h with h; subst h
        have hc0 : 0 < c := by
          cases c with
          | zero => exact absurd rfl hc
          | succ _ => omega
        refine ⟨(available list).take c, List.take_sublist _ _, ?_, ?_⟩
        · rw [takeLoop_eq c list 0 hc0]; simp
        · simp only [List.length_take]; omega
    | none =>
      rw [apply_minmax cfg list rule hr] at h
      simp only [hmm, Bool.true_and] at h
      split at h
      · cases h
      · next hmm' =>
        split at h
        · cases h
        · next hbm =>
          have hmin : ∀ a, min = some a → a ≤ (available list).length ∧ ∀ b, max = some b → a ≤ b := by
            intro a ha
            subst ha
            refine ⟨?_, fun b hb => ?_⟩
            · have : ¬ ((available list).length < a) := by
                intro hlt; apply hbm; simp [belowMin, hlt]
              omega
            · subst hb
              have : ¬ (b < a) := by
                intro hlt; apply hmm'; simp [minAboveMax, hlt]
              omega
          unfold applyMax at h
          cases max with
          | some m =>
            simp only [hf, if_true] at h
            injection h with h; subst h
            refine ⟨(available list).take m, List.take_sublist _ _, ?_, ?_, ?_⟩
            · rw [takeLoopPre_eq m list 0 (Nat.zero_le _)]; simp
            · intro a ha
              have := hmin a ha
              have h2 := this.2 m rfl
              simp only [List.length_take]; omega
            · intro b hb
              injection hb with hb; subst hb
              simp only [List.length_take]; omega
          | none =>
            simp only [hmn, if_true] at h
            injection h with h; subst h
            exact ⟨available list, List.Sublist.refl _, flattenAll_eq list, fun a ha => (hmin a ha).1, fun _ hb => (by cases hb)⟩

/-- `apply` (repaired): an error means that NO selection of the selectable members satisfies the rule -/
theorem apply_error_complete (cfg : Cfg) (hmn : cfg.maxNilCheck = true)
    (list : List Member) (rule : String) (count min max : Option Nat) (e : String)
    (h : apply cfg list rule count min max = .err e) :
    ∀ sel : List (List Cred), sel.Sublist (available list) → ¬ RuleOK rule count min max list.length (available list).length sel.length := by
  intro sel hsub hok
  have hle := hsub.length_le
  unfold RuleOK at hok
  by_cases hr : rule = "all"
  · subst hr
    simp only [if_true] at hok
    rw [apply_all] at h
    split at h
    · next hne => exact (by simpa using hne : (available list).length ≠ list.length) hok.1
    · cases h
  · simp only [hr, if_false] at hok
    cases count with
    | some c =>
      simp only at hok
      rw [apply_count cfg list rule hr] at h
      split at h
      · omega
      · cases h
    | none =>
      simp only at hok
      rw [apply_minmax cfg list rule hr] at h
      split at h
      · next hmm' =>
        simp only [Bool.and_eq_true] at hmm'
        cases min with
        | none => simp [minAboveMax] at hmm'
        | some a =>
          cases max with
          | none => simp [minAboveMax] at hmm'
          | some b =>
            have h1 := hok.1 a rfl
            have h2 := hok.2 b rfl
            have : b < a := by simpa [minAboveMax] using hmm'.2
            omega
      · split at h
        · next hbm =>
          cases min with
          | none => simp [belowMin] at hbm
          | some a =>
            have h1 := hok.1 a rfl
            have : (available list).length < a := by simpa [belowMin] using hbm
            omega
        · unfold applyMax at h
          cases max with
          | some m => simp at h
          | none => simp [hmn] at h

theorem matchSR_cases (cfg : Cfg) (cands : List Cand) (s : SR) (r : Res (List Cred)) (h : SR.matchSR cfg cands s = r) :
    (∃ e, r = .err e ∧ (e = "sr-both" ∨ e = "sr-missing" ∨ e = "sr-rule")) ∨
    (∃ e, r = .err e ∧ s.nested ≠ [] ∧ SR.nestedMembers cfg cands s.nested = .err e) ∨
    (∃ p, r = .panic p) ∨
    (∃ members, MembersOf cfg cands s members ∧ r = apply cfg members s.rule s.count s.min s.max) := by
  obtain ⟨name, rule, count, min, max, frm, nested⟩ := s
  unfold SR.matchSR at h
  simp only [SR.frm, SR.nested, SR.rule, SR.count, SR.min, SR.max, MembersOf]
  split at h
  · exact Or.inl ⟨_, h.symm, Or.inl rfl⟩
  · next h1 =>
    split at h
    · exact Or.inl ⟨_, h.symm, Or.inr (Or.inl rfl)⟩
    · next h2 =>
      split at h
      · exact Or.inl ⟨_, h.symm, Or.inr (Or.inr rfl)⟩
      · split at h
        · next hn =>
          have hne : nested ≠ [] := by intro hEq; simp [hEq] at hn
          have hfrm : frm = "" := by
            cases hfe : (frm != "") with
            | false => simpa using hfe
            | true => exfalso; apply h1; simp [hfe, hn]
          split at h
          · next ms heq => exact Or.inr (Or.inr (Or.inr ⟨ms, Or.inr ⟨hfrm, hne, heq⟩, h.symm⟩))
          · next e heq => exact Or.inr (Or.inl ⟨e, h.symm, hne, heq⟩)
          · next p _ => exact Or.inr (Or.inr (Or.inl ⟨p, h.symm⟩))
        · next hn =>
          have hnil : nested = [] := by
            cases nested with
            | nil => rfl
            | cons _ _ => simp at hn
          have hfrm : frm ≠ "" := by
            intro hEq; apply h2; simp [hEq, hnil]
          exact Or.inr (Or.inr (Or.inr ⟨_, Or.inl ⟨hfrm, hnil, rfl⟩, h.symm⟩))

theorem nestedMembers_noErr (cfg : Cfg) (cands : List Cand) : ∀ (ss : List SR) (e : String), SR.nestedMembers cfg cands ss ≠ .err e
  | [], e => by unfold SR.nestedMembers; intro h; cases h
  | s :: ss, e => by
    unfold SR.nestedMembers
    have ih := nestedMembers_noErr cfg cands ss
    split
    · intro h; cases h
    · simp only
      split
      · intro h; cases h
      · next e' heq => exact absurd heq (ih e')
      · intro h; cases h

/-- a submission requirement that succeeds returns a selection of its members that satisfies its rule -/
theorem sr_rule_ok (cfg : Cfg) (hf : cfg.maxCheckFirst = true) (hmm : cfg.minMaxCheck = true) (hmn : cfg.maxNilCheck = true)
    (cands : List Cand) (s : SR) (hc : s.count ≠ some 0) (l : List Cred) (h : SR.matchSR cfg cands s = .ok l) :
    ∃ members, MembersOf cfg cands s members ∧
      ∃ sel : List (List Cred), sel.Sublist (available members) ∧ l = sel.flatten ∧
        RuleOK s.rule s.count s.min s.max members.length (available members).length sel.length := by
  rcases matchSR_cases cfg cands s _ h with ⟨e, he, _⟩ | ⟨e, he, _⟩ | ⟨p, hp⟩ | ⟨members, hm, hr⟩
  · cases he
  · cases he
  · cases hp
  · exact ⟨members, hm, apply_rule_ok cfg hf hmm hmn members s.rule s.count s.min s.max hc l hr.symm⟩

/-- a submission requirement that fails is malformed (both/neither of `from`, `from_nested`; unknown rule) or NO
    selection of its members satisfies its rule — never a partial selection -/
theorem sr_error_complete (cfg : Cfg) (hmn : cfg.maxNilCheck = true) (cands : List Cand) (s : SR) (e : String)
    (h : SR.matchSR cfg cands s = .err e) :
    (e = "sr-both" ∨ e = "sr-missing" ∨ e = "sr-rule") ∨
    ∃ members, MembersOf cfg cands s members ∧
      ∀ sel : List (List Cred), sel.Sublist (available members) →
        ¬ RuleOK s.rule s.count s.min s.max members.length (available members).length sel.length := by
  rcases matchSR_cases cfg cands s _ h with ⟨e', he, hk⟩ | ⟨e', _, _, hn⟩ | ⟨p, hp⟩ | ⟨members, hm, hr⟩
  · injection he with he; subst he; exact Or.inl hk
  · exact absurd hn (nestedMembers_noErr cfg cands _ _)
  · cases hp
  · exact Or.inr ⟨members, hm, apply_error_complete cfg hmn members s.rule s.count s.min s.max e hr.symm⟩


theorem srSelect_ok (cfg : Cfg) (cands : List Cand) : ∀ (ss : List SR) (sel : List Cred), srSelect cfg cands ss = .ok sel →
    ∃ ls, SelectedBy cfg cands ss ls ∧ sel = ls.flatten
  | [], sel, h => by
    unfold srSelect at h; injection h with h; subst h; exact ⟨[], trivial, rfl⟩
  | s :: ss, sel, h => by
    unfold srSelect at h
    split at h
    · next l heq =>
      split at h
      · next r heq2 =>
        injection h with h; subst h
        obtain ⟨ls, h1, h2⟩ := srSelect_ok cfg cands ss r heq2
        exact ⟨l :: ls, ⟨heq, h1⟩, by simp [h2]⟩
      · cases h
      · cases h
    · cases h
    · cases h

theorem srSelect_err (cfg : Cfg) (cands : List Cand) : ∀ (ss : List SR) (e : String), srSelect cfg cands ss = .err e →
    ∃ s ∈ ss, SR.matchSR cfg cands s = .err e
  | [], e, h => by unfold srSelect at h; cases h
  | s :: ss, e, h => by
    unfold srSelect at h
    split at h
    · split at h
      · cases h
      · next e' heq2 =>
        injection h with h; subst h
        obtain ⟨s', hs', he⟩ := srSelect_err cfg cands ss e' heq2
        exact ⟨s', List.mem_cons_of_mem _ hs', he⟩
      · cases h
    · next e' heq => injection h with h; subst h; exact ⟨s, List.mem_cons_self, heq⟩
    · cases h

/-- `Match` with submission requirements, success: the candidates are computed, every requirement succeeds on them,
    and the selected credentials are the de-duplicated concatenation of the requirements' selections -/
theorem pdMatch_sr_ok (cfg : Cfg) (re : Regex) (pd : PD) (w : List Cred) (ms : List Mapping) (vcs : List Cred)
    (hsr : pd.srs ≠ []) (h : pdMatch cfg re pd w = .ok (ms, vcs)) :
    ∃ cands ls, matchConstraints cfg re pd w pd.descs = .ok cands ∧ SelectedBy cfg cands pd.srs ls ∧ vcs = dedup [] ls.flatten := by
  unfold pdMatch at h
  have : (!pd.srs.isEmpty) = true := by cases hs : pd.srs with | nil => exact absurd hs hsr | cons _ _ => rfl
  simp only [this, if_true] at h
  unfold matchSubmissionRequirements at h
  split at h
  · next cands heq =>
    simp only at h
    split at h
    · cases h
    · split at h
      · next sel heq2 =>
        injection h with h; injection h with h1 h2; subst h2
        obtain ⟨ls, hl1, hl2⟩ := srSelect_ok cfg cands pd.srs sel heq2
        exact ⟨cands, ls, heq, hl1, by rw [hl2]⟩
      · cases h
      · cases h
  · cases h
  · cases h

/-- `Match` with submission requirements, failure: the evaluation of the constraints failed, an input descriptor
    names a group no requirement refers to, or one of the requirements failed on the candidates -/
theorem pdMatch_sr_err (cfg : Cfg) (re : Regex) (pd : PD) (w : List Cred) (e : String)
    (hsr : pd.srs ≠ []) (h : pdMatch cfg re pd w = .err e) :
    matchConstraints cfg re pd w pd.descs = .err e ∨
    ∃ cands, matchConstraints cfg re pd w pd.descs = .ok cands ∧ (e = "group" ∨ ∃ s ∈ pd.srs, SR.matchSR cfg cands s = .err e) := by
  unfold pdMatch at h
  have : (!pd.srs.isEmpty) = true := by cases hs : pd.srs with | nil => exact absurd hs hsr | cons _ _ => rfl
  simp only [this, if_true] at h
  unfold matchSubmissionRequirements at h
  split at h
  · next cands heq =>
    right
    simp only at h
    split at h
    · injection h with h; exact ⟨cands, heq, Or.inl h.symm⟩
    · split at h
      · cases h
      · next e' heq2 =>
        injection h with h; subst h
        exact ⟨cands, heq, Or.inr (srSelect_err cfg cands pd.srs e' heq2)⟩
      · cases h
  · next e' heq => injection h with h; subst h; exact Or.inl heq
  · cases h

end Nuts.C12
