/-
  C08 — the two `Data` implementations are lawful (commutative groups; insert = add a singleton).  Core Lean only.
-/
import NutsModel.C08.Data
import NutsProofs.Lemmas.C08Tree

namespace Nuts.C08

theorem xor_lawful : Lawful xorOps where
  add_comm a b := BitVec.xor_comm a b
  add_assoc a b c := BitVec.xor_assoc a b c
  add_zero a := by simp [xorOps]
  add_sub a b := by simp [xorOps, BitVec.xor_assoc]
  ins_eq g r := by simp [xorOps]

theorem xor_sub_self (a : BitVec 256) : xorOps.sub a a = xorOps.zero := by simp [xorOps]
theorem xor_empty_iff (g : BitVec 256) : xorOps.empty g = true ↔ g = xorOps.zero := by simp [xorOps]

namespace Bucket

theorem add_comm (a b : Bucket) : a.add b = b.add a := by
  simp [Bucket.add, BitVec.add_comm, BitVec.xor_comm]

theorem add_assoc (a b c : Bucket) : (a.add b).add c = a.add (b.add c) := by
  simp [Bucket.add, BitVec.add_assoc, BitVec.xor_assoc]

theorem add_zero (a : Bucket) : a.add Bucket.zero = a := by
  cases a; simp [Bucket.add, Bucket.zero]

theorem add_sub (a b : Bucket) : (a.add b).sub b = a := by
  cases a; cases b; simp [Bucket.add, Bucket.sub, BitVec.add_sub_cancel, BitVec.xor_assoc]

theorem sub_self (a : Bucket) : a.sub a = Bucket.zero := by
  cases a; simp [Bucket.sub, Bucket.zero]

theorem add_ins (a b : Bucket) (k : Ref) (hk : BitVec 64) : (a.add b).ins k hk = a.add (b.ins k hk) := by
  simp [Bucket.add, Bucket.ins, BitVec.add_assoc, BitVec.xor_assoc]

theorem sub_ins_zero (a : Bucket) (k : Ref) (hk : BitVec 64) : a.del k hk = a.sub (Bucket.zero.ins k hk) := by
  cases a; simp [Bucket.sub, Bucket.del, Bucket.ins, Bucket.zero]

end Bucket

theorem Iblt.modify_add {n : Nat} (g z : Iblt n) (h : Nat) (k : Ref) (hk : BitVec 64) :
    Iblt.modify ((ibltOps n).add g z) h (fun b => b.ins k hk) = (ibltOps n).add g (Iblt.modify z h (fun b => b.ins k hk)) := by
  unfold Iblt.modify
  by_cases hh : h < n
  · simp only [hh, dite_true, ibltOps]
    apply Vector.ext
    intro i hi
    simp only [Vector.getElem_zipWith, Vector.getElem_set]
    by_cases e : h = i
    · subst e; simp [Bucket.add_ins]
    · simp [e]
  · simp [hh]

theorem Iblt.ins_fold {n : Nat} (k : Ref) (hk : BitVec 64) (idx : List Nat) (g z : Iblt n) :
    idx.foldl (fun g h => Iblt.modify g h (fun b => b.ins k hk)) ((ibltOps n).add g z) =
    (ibltOps n).add g (idx.foldl (fun g h => Iblt.modify g h (fun b => b.ins k hk)) z) := by
  induction idx generalizing z with
  | nil => rfl
  | cons h t ih => simp only [List.foldl_cons]; rw [Iblt.modify_add, ih]

theorem iblt_add_zero {n : Nat} (a : Iblt n) : (ibltOps n).add a (ibltOps n).zero = a := by
  apply Vector.ext; intro i hi
  simp [ibltOps, Bucket.add_zero]

theorem iblt_lawful (n : Nat) : Lawful (ibltOps n) where
  add_comm a b := by
    apply Vector.ext; intro i hi; simp [ibltOps, Bucket.add_comm]
  add_assoc a b c := by
    apply Vector.ext; intro i hi; simp [ibltOps, Bucket.add_assoc]
  add_zero := iblt_add_zero
  add_sub a b := by
    apply Vector.ext; intro i hi; simp [ibltOps, Bucket.add_sub]
  ins_eq g r := by
    have := Iblt.ins_fold r.ref r.hk r.idx g (ibltOps n).zero
    rw [iblt_add_zero] at this
    exact this

end Nuts.C08
