/-
  C08 — `Replace`/`rebuild` on a contiguous tree and `xorTreeRepair.checkPage`: a healthy state is left alone; a state
  whose XOR leaves differ from the recomputed values gets exactly the checked page restored.  Core Lean only.
-/
import NutsProofs.Lemmas.C08List

namespace Nuts.C08

variable {R G : Type} {n : Nat}

/-! ### rebuild -/

theorem rebuild_branch_ne {o : Ops R G} {s l : Nat} {d : G} {left right : Node G} (hr : right ≠ .nil) :
    (Node.branch s l d left right).rebuild o =
      .branch s l (o.add ((left.rebuild o).data o) ((right.rebuild o).data o)) (left.rebuild o) (right.rebuild o) := by
  cases right with
  | nil => exact absurd rfl hr
  | leaf _ _ _ => rfl
  | branch _ _ _ _ _ => rfl

theorem rebuild_leaves (o : Ops R G) : ∀ n : Node G, (n.rebuild o).leaves = n.leaves := by
  intro n
  induction n with
  | nil => rfl
  | leaf _ _ _ => rfl
  | branch s l d left right ihl ihr =>
    by_cases hr : right = .nil
    · subst hr; simp [Node.rebuild, Node.leaves, ihl]
    · rw [rebuild_branch_ne hr]; simp [Node.leaves, ihl, ihr]

theorem rebuild_total (o : Ops R G) : ∀ n : Node G, (n.rebuild o).total o = n.total o := by
  intro n
  induction n with
  | nil => rfl
  | leaf _ _ _ => rfl
  | branch s l d left right ihl ihr =>
    by_cases hr : right = .nil
    · subst hr; simp [Node.rebuild, Node.total, ihl]
    · rw [rebuild_branch_ne hr]; simp [Node.total, ihl, ihr]

theorem rebuild_wf {o : Ops R G} (L : Lawful o) : ∀ n : Node G, Wf o (n.rebuild o) := by
  intro n
  induction n with
  | nil => trivial
  | leaf _ _ _ => trivial
  | branch s l d left right ihl ihr =>
    by_cases hr : right = .nil
    · subst hr
      simp only [Node.rebuild, Wf]
      exact ⟨by rw [ihl.data_eq]; simp [Node.total, L.add_zero], ihl, trivial⟩
    · rw [rebuild_branch_ne hr]
      exact ⟨by rw [ihl.data_eq, ihr.data_eq], ihl, ihr⟩

theorem rebuild_shape {o : Ops R G} {ls : Nat} : ∀ (h a m : Nat) (n : Node G), Shape ls h a m n →
    Shape ls h a m (n.rebuild o) := by
  intro h
  induction h with
  | zero => intro a m n s; cases n <;> simp [Shape] at s; simpa [Node.rebuild, Shape] using s
  | succ h ih =>
    intro a m n s
    cases n <;> simp [Shape] at s
    rename_i sp l d left right
    obtain ⟨hs, hl, c⟩ := s
    rcases c with ⟨e, hm, sl⟩ | ⟨hm, sl, sr⟩
    · subst e
      simp only [Node.rebuild, Shape]
      exact ⟨hs, hl, Or.inl ⟨trivial, hm, ih _ _ _ sl⟩⟩
    · rw [rebuild_branch_ne (Shape.geo _ _ _ _ sr).ne_nil]
      simp only [Shape]
      exact ⟨hs, hl, Or.inr ⟨hm, ih _ _ _ sl, ih _ _ _ sr⟩⟩

/-! ### Replace on an existing page -/

theorem replaceF_branch_right {o : Ops R G} {ls clock fu s l : Nat} {x bd : G} {left right : Node G}
    (hc : ¬ clock < s) (hne : right ≠ .nil) :
    Tree.replaceF o ls clock x (fu + 1) (.branch s l bd left right) =
      (.branch s l bd left (Tree.replaceF o ls clock x fu right).1, (Tree.replaceF o ls clock x fu right).2.1,
       (Tree.replaceF o ls clock x fu right).2.2) := by
  cases right with
  | nil => exact absurd rfl hne
  | leaf _ _ _ => simp [Tree.replaceF, hc]
  | branch _ _ _ _ _ => simp [Tree.replaceF, hc]

theorem replaceF_shape {o : Ops R G} {ls : Nat} (hls : 0 < ls) (clock : Nat) (x : G) :
    ∀ (h a m fuel : Nat) (n : Node G) (val : Nat → G), Shape ls h a m n → n.leaves = pl ls a m val → h < fuel →
      a ≤ clock / ls → clock / ls < a + m →
      (Tree.replaceF o ls clock x fuel n).2.2 = true ∧
      (Tree.replaceF o ls clock x fuel n).2.1 = [keyOf ls (clock / ls)] ∧
      Shape ls h a m (Tree.replaceF o ls clock x fuel n).1 ∧
      (Tree.replaceF o ls clock x fuel n).1.leaves = pl ls a m (upd val (clock / ls) x) := by
  intro h
  induction h with
  | zero =>
    intro a m fuel n val s hl hfuel hlo hhi
    cases n <;> simp [Shape] at s
    rename_i sp l d
    obtain ⟨hm, hsp, hlim⟩ := s
    subst hm
    cases fuel with
    | zero => omega
    | succ fu =>
      have hP : clock / ls = a := by omega
      have hlt : ¬ clock ≥ l := by
        have : clock < ls * (a + 1) := (page_of_clock_lt hls).mpr (by omega)
        omega
      simp only [Tree.replaceF, hlt, if_false, hP]
      refine ⟨trivial, by rw [hsp], ?_, ?_⟩
      · simp [Shape, hsp, hlim]
      · simp [Node.leaves, pl_one, upd, hsp]
  | succ h ih =>
    intro a m fuel n val s hl hfuel hlo hhi
    cases n <;> simp [Shape] at s
    rename_i sp l d left right
    obtain ⟨hsp, hlim, c⟩ := s
    cases fuel with
    | zero => omega
    | succ fu =>
      by_cases hc : clock < sp
      · have hPl : clock / ls < a + 2 ^ h := by rw [hsp] at hc; exact (page_of_clock_lt hls).mp hc
        rcases c with ⟨e, hm, sl⟩ | ⟨hm, sl, sr⟩
        · subst e
          simp only [Node.leaves, List.append_nil] at hl
          have r := ih a m fu left val sl hl (by omega) hlo hhi
          obtain ⟨r1, r2, r3, r4⟩ := r
          simp only [Tree.replaceF, hc, if_true]
          refine ⟨r1, r2, ?_, by simpa [Node.leaves] using r4⟩
          simp only [Shape]
          exact ⟨hsp, hlim, Or.inl ⟨trivial, hm, r3⟩⟩
        · have hlen := Shape.leaves_length _ _ _ _ sl
          simp only [Node.leaves] at hl
          rw [pl_split ls a m (2 ^ h) val (by omega)] at hl
          have hinj := List.append_inj hl (by simp [hlen])
          have r := ih a (2 ^ h) fu left val sl hinj.1 (by omega) hlo hPl
          obtain ⟨r1, r2, r3, r4⟩ := r
          simp only [Tree.replaceF, hc, if_true]
          refine ⟨r1, r2, ?_, ?_⟩
          · simp only [Shape]
            exact ⟨hsp, hlim, Or.inr ⟨hm, r3, sr⟩⟩
          · simp only [Node.leaves]
            rw [r4, hinj.2, pl_split ls a m (2 ^ h) (upd val (clock / ls) x) (by omega)]
            congr 1
            apply pl_congr
            intro i _
            simp [upd]; omega
      · have hPr : a + 2 ^ h ≤ clock / ls := by
          have : ls * (a + 2 ^ h) ≤ clock := by rw [← hsp]; omega
          exact (page_of_clock hls).mp this
        rcases c with ⟨e, hm, sl⟩ | ⟨hm, sl, sr⟩
        · omega
        · have hne := (Shape.geo _ _ _ _ sr).ne_nil
          have hlen := Shape.leaves_length _ _ _ _ sl
          simp only [Node.leaves] at hl
          rw [pl_split ls a m (2 ^ h) val (by omega)] at hl
          have hinj := List.append_inj hl (by simp [hlen])
          have r := ih (a + 2 ^ h) (m - 2 ^ h) fu right val sr hinj.2 (by omega) hPr (by omega)
          obtain ⟨r1, r2, r3, r4⟩ := r
          rw [replaceF_branch_right hc hne]
          refine ⟨r1, r2, ?_, ?_⟩
          · simp only [Shape]
            exact ⟨hsp, hlim, Or.inr ⟨hm, sl, r3⟩⟩
          · simp only [Node.leaves]
            rw [r4, hinj.1, pl_split ls a m (2 ^ h) (upd val (clock / ls) x) (by omega)]
            congr 1
            apply pl_congr
            intro i hi
            simp [upd]; omega

/-- `Replace(clock, x)` on a page that exists: the tree stays contiguous, exactly that page's leaf becomes `x`, its key
    is marked dirty, all sums above are recomputed -/
theorem Holds.replace {o : Ops R G} (L : Lawful o) {ls : Nat} {t : Tree G} {m : Nat} {val : Nat → G}
    (H : Holds o ls t m val) (clock : Nat) (x : G) (hP : clock / ls < m) :
    Holds o ls (t.replace o clock x) m (upd val (clock / ls) x) ∧
    (t.replace o clock x).dirty = t.dirty ++ [keyOf ls (clock / ls)] ∧ (t.replace o clock x).orphaned = t.orphaned := by
  obtain ⟨h, sh, hs⟩ := H.shape
  have hls := H.ls_pos
  have hfuel : h < t.treeSize + 1 := by
    rw [hs]
    have : h < 2 ^ h := Nat.lt_two_pow_self
    have : 2 ^ h ≤ ls * 2 ^ h := Nat.le_mul_of_pos_left _ hls
    omega
  have r := replaceF_shape (o := o) hls clock x h 0 m (t.treeSize + 1) t.root val sh H.leaves hfuel (Nat.zero_le _)
    (by omega)
  obtain ⟨r1, r2, r3, r4⟩ := r
  have e : t.replace o clock x =
      { t with root := (Tree.replaceF o ls clock x (t.treeSize + 1) t.root).1.rebuild o,
               dirty := t.dirty ++ [keyOf ls (clock / ls)] } := by
    unfold Tree.replace
    simp only [Tree.replaceLoop, H.ls_eq, r1, if_true, r2]
  rw [e]
  refine ⟨⟨hls, H.ls_eq, ⟨h, rebuild_shape _ _ _ _ r3, hs⟩, rebuild_wf L _, ?_⟩, rfl, rfl⟩
  show ((Tree.replaceF o ls clock x (t.treeSize + 1) t.root).1.rebuild o).leaves = _
  rw [rebuild_leaves, r4]

/-! ### prefix sums of a contiguous tree -/

theorem fsum_pl_le {o : Ops R G} (L : Lawful o) {ls : Nat} (hls : 0 < ls) (P : Nat) (val : Nat → G) :
    ∀ m, fsum o ls (fun p => decide (p ≤ P)) (pl ls 0 m val) = gsum o ((List.range (min m (P + 1))).map val) := by
  intro m
  induction m with
  | zero => simp [pl_zero, fsum_nil, gsum]
  | succ m ih =>
    rw [pl_succ, fsum_append L, ih]
    simp only [fsum, List.filter_cons, List.filter_nil, Nat.zero_add, keyOf_page hls]
    by_cases h : m ≤ P
    · have e1 : min (m + 1) (P + 1) = m + 1 := by omega
      have e2 : min m (P + 1) = m := by omega
      simp only [h, decide_true, if_true, e1, e2, List.range_succ, List.map_append, List.map_cons, List.map_nil,
        gsum_append L]
    · have e1 : min (m + 1) (P + 1) = P + 1 := by omega
      have e2 : min m (P + 1) = P + 1 := by omega
      simp only [h, decide_false, Bool.false_eq_true, if_false, e1, e2, List.map_nil, gsum, L.add_zero]

/-- the leaf of page `p`, as `checkPage` obtains it from two `ZeroTo` calls -/
theorem page_leaf_by_difference {o : Ops R G} (L : Lawful o) {ls : Nat} {t : Tree G} {m : Nat} {val : Nat → G}
    (H : Holds o ls t m val) (p : Nat) (hp : p < m) :
    (if p * ls ≠ 0 then o.sub (t.zeroTo o (p * ls + ls - 1)).1 (t.zeroTo o (p * ls - 1)).1
     else (t.zeroTo o (p * ls + ls - 1)).1) = val p := by
  have hls := H.ls_pos
  have hend : (p * ls + ls - 1) / ls = p := by
    apply Nat.div_eq_of_lt_le
    · omega
    · rw [Nat.add_mul]; omega
  have hz : ∀ c, (t.zeroTo o c).1 = gsum o ((List.range (min m (c / ls + 1))).map val) := by
    intro c
    rw [Tree.zeroTo_data L t H.inv c, H.ls_eq, H.leaves, fsum_pl_le L hls]
  rw [hz, hend]
  have e1 : min m (p + 1) = p + 1 := by omega
  by_cases h0 : p * ls ≠ 0
  · have hp1 : 1 ≤ p := by
      rcases Nat.eq_zero_or_pos p with e | e
      · subst e; simp at h0
      · exact e
    have hstart : (p * ls - 1) / ls = p - 1 := by
      apply Nat.div_eq_of_lt_le
      · have : (p - 1) * ls + ls = p * ls := by rw [← Nat.succ_mul]; congr 1; omega
        omega
      · have : (p - 1 + 1) * ls = p * ls := by congr 1; omega
        rw [this]
        have : 0 < p * ls := Nat.mul_pos hp1 hls
        omega
    rw [if_pos h0, hz, hstart]
    have e2 : min m (p - 1 + 1) = p := by omega
    rw [e1, e2, List.range_succ, List.map_append, gsum_append L]
    simp only [List.map_cons, List.map_nil, gsum, L.add_zero]
    rw [L.add_comm, L.add_sub]
  · rw [if_neg h0]
    have : p = 0 := by
      rcases Nat.eq_zero_or_pos p with e | e
      · exact e
      · have : 0 < p * ls := Nat.mul_pos e hls
        omega
    subst this
    simp at e1 ⊢
    rw [e1]; simp [gsum, L.add_zero]

/-! ### checkPage -/

theorem window_iff {ls p c : Nat} (hls : 0 < ls) : (p * ls ≤ c ∧ c < p * ls + ls) ↔ c / ls = p := by
  constructor
  · intro ⟨h1, h2⟩
    apply Nat.div_eq_of_lt_le
    · exact h1
    · rw [Nat.add_mul]; omega
  · intro e
    subst e
    have h1 := Nat.div_add_mod c ls
    have h2 := Nat.mod_lt c hls
    rw [Nat.mul_comm] at h1
    omega

/-- what `checkPage` recomputes for page `p` is what the page must hold: the fold of the stored refs on that page -/
theorem calc_root {ls : Nat} (hls : 0 < ls) {d : Disk n} (g : GInv d) (p : Nat) :
    ∃ txs, d.findBetweenLC (p * ls) (p * ls + ls) = .ok txs ∧
      calcXor ls txs = pageVal xorOps ls (refClocks d.txs) p := by
  obtain ⟨txs, hf, hperm⟩ := findBetweenLC_perm g (p * ls) (p * ls + ls)
  refine ⟨txs, hf, ?_⟩
  have hfold : txs.foldl (fun t tx => t.insert xorOps tx.ref tx.clock) (Tree.new xorOps ls) =
      (refClocks txs).foldl (fun t rc => t.insert xorOps rc.1 rc.2) (Tree.new xorOps ls) := by
    unfold refClocks; rw [List.foldl_map]
  have i := insert_fold_new xor_lawful hls (refClocks txs)
  unfold calcXor
  rw [hfold, Tree.root_data xor_lawful _ i.1, i.2.1, i.2.2, List.filter_eq_self.mpr (fun _ _ => rfl)]
  unfold pageVal
  have h1 : (refClocks txs).Perm (refClocks (d.txs.filter (fun t => decide (p * ls ≤ t.clock ∧ t.clock < p * ls + ls)))) :=
    hperm.map _
  rw [specAll_perm xor_lawful h1]
  congr 1
  unfold refClocks
  rw [List.filter_map]
  congr 1
  apply List.filter_congr
  intro t _
  simp only [Function.comp]
  by_cases hw : p * ls ≤ t.clock ∧ t.clock < p * ls + ls
  · have := (window_iff hls).mp hw
    simp [hw, this]
  · have : ¬ t.clock / ls = p := fun e => hw ((window_iff hls).mpr e)
    simp [hw, this]

/-- on a tree that is what the stored set implies, the page read back by `checkPage` is what the page must hold -/
theorem pageXor_healthy {ls : Nat} (hls : 0 < ls) {l : List (Ref × Nat)} {t : Tree (BitVec 256)}
    (i : TInv xorOps t) (e : t.leafSize = ls) (dg : Digest xorOps ls l t) (p : Nat) :
    pageXor ls t p = pageVal xorOps ls l p := by
  have L := xor_lawful
  have hend : (p * ls + ls - 1) / ls = p := by
    apply Nat.div_eq_of_lt_le
    · omega
    · rw [Nat.add_mul]; omega
  have hz : ∀ c, (t.zeroTo xorOps c).1 = specAll xorOps (l.filter (fun rc => decide (rc.2 / ls ≤ c / ls))) := by
    intro c; rw [Tree.zeroTo_data L t i c, e, dg]
  unfold pageXor pageVal
  by_cases h0 : p * ls ≠ 0
  · have hp1 : 1 ≤ p := by
      rcases Nat.eq_zero_or_pos p with e | e
      · subst e; simp at h0
      · exact e
    have hstart : (p * ls - 1) / ls = p - 1 := by
      apply Nat.div_eq_of_lt_le
      · have : (p - 1) * ls + ls = p * ls := by rw [← Nat.succ_mul]; congr 1; omega
        omega
      · have : (p - 1 + 1) * ls = p * ls := by congr 1; omega
        rw [this]
        have : 0 < p * ls := Nat.mul_pos hp1 hls
        omega
    rw [if_pos h0, hz, hz, hend, hstart]
    have hsplit := specAll_filter_split L (fun rc : Ref × Nat => decide (rc.2 / ls ≤ p - 1)) (fun rc => rc.2 / ls == p) l
      (by intro rc _ ⟨h1, h2⟩; simp at h1 h2; omega)
    have hcongr : l.filter (fun rc => decide (rc.2 / ls ≤ p)) =
        l.filter (fun rc => decide (rc.2 / ls ≤ p - 1) || (rc.2 / ls == p)) := by
      apply List.filter_congr
      intro rc _
      by_cases h1 : rc.2 / ls ≤ p - 1
      · have : rc.2 / ls ≤ p := by omega
        simp [h1, this]
      · by_cases h2 : rc.2 / ls = p
        · simp [h2]
        · have : ¬ rc.2 / ls ≤ p := by omega
          simp [h1, h2, this]
    rw [hcongr, hsplit, L.add_comm, L.add_sub]
  · rw [if_neg h0, hz, hend]
    have : p = 0 := by
      rcases Nat.eq_zero_or_pos p with e | e
      · exact e
      · have : 0 < p * ls := Nat.mul_pos e hls
        omega
    subst this
    congr 1
    apply List.filter_congr
    intro rc _
    by_cases h : rc.2 / ls = 0 <;> simp [h]

def nextPage (cfg : Cfg) (s : State n) : Nat :=
  if s.mem.repairPage * cfg.pageSize + cfg.pageSize > s.mem.lcHigh then 0 else s.mem.repairPage + 1

theorem checkPage_nochange {cfg : Cfg} {s : State n} {txs : List Tx} (hc : ¬ s.mem.circuit < 2)
    (hf : s.disk.findBetweenLC (s.mem.repairPage * cfg.pageSize) (s.mem.repairPage * cfg.pageSize + cfg.pageSize) = .ok txs)
    (he : xorOps.empty (xorOps.sub (pageXor cfg.pageSize s.mem.xorTree s.mem.repairPage) (calcXor cfg.pageSize txs)) = true) :
    checkPage cfg s = { s with mem := { s.mem with repairPage := nextPage cfg s } } := by
  unfold Nuts.C08.checkPage Nuts.C08.checkPageWith nextPage
  simp only [hc, if_false, hf, he, if_true]

theorem checkPage_replace {cfg : Cfg} {s : State n} {txs : List Tx} (hc : ¬ s.mem.circuit < 2)
    (hf : s.disk.findBetweenLC (s.mem.repairPage * cfg.pageSize) (s.mem.repairPage * cfg.pageSize + cfg.pageSize) = .ok txs)
    (he : ¬ xorOps.empty (xorOps.sub (pageXor cfg.pageSize s.mem.xorTree s.mem.repairPage) (calcXor cfg.pageSize txs)) = true) :
    checkPage cfg s =
      { disk := { s.disk with xorLeaves := (persist (s.mem.xorTree.replace xorOps (s.mem.repairPage * cfg.pageSize)
                    (calcXor cfg.pageSize txs)) s.disk.xorLeaves).2 },
        mem := { s.mem with xorTree := (persist (s.mem.xorTree.replace xorOps (s.mem.repairPage * cfg.pageSize)
                    (calcXor cfg.pageSize txs)) s.disk.xorLeaves).1, repairPage := nextPage cfg s } } := by
  unfold Nuts.C08.checkPage Nuts.C08.checkPageWith nextPage
  simp only [hc, if_false, hf, he, Bool.false_eq_true]

/-- **checkPage on a healthy state** (any circuit state, any current page): nothing but the page counter changes -/
theorem SInv.checkPage {cfg : Cfg} (G : Good cfg) {s : State n} (h : SInv cfg s) :
    SInv cfg (checkPage cfg s) ∧ (checkPage cfg s).disk = s.disk ∧
    (checkPage cfg s).mem.xorTree = s.mem.xorTree ∧ (checkPage cfg s).mem.ibltTree = s.mem.ibltTree ∧
    (checkPage cfg s).mem.lcHigh = s.mem.lcHigh := by
  by_cases hc : s.mem.circuit < 2
  · have e : Nuts.C08.checkPage cfg s = s := by unfold Nuts.C08.checkPage Nuts.C08.checkPageWith; simp only [hc, if_true]
    rw [e]; exact ⟨h, rfl, rfl, rfl, rfl⟩
  · obtain ⟨txs, hf, hcalc⟩ := calc_root G.pos h.g s.mem.repairPage
    have hi := h.x.inv xor_lawful G.pos
    have hpx := pageXor_healthy G.pos hi.1 hi.2.1 hi.2.2 s.mem.repairPage
    have hempty : xorOps.empty (xorOps.sub (pageXor cfg.pageSize s.mem.xorTree s.mem.repairPage)
        (calcXor cfg.pageSize txs)) = true := by
      rw [hpx, hcalc]; simp [xorOps]
    rw [checkPage_nochange hc hf hempty]
    exact ⟨⟨h.g, h.lc, h.x, h.i⟩, rfl, rfl, rfl, rfl⟩

/-- a state whose XOR tree and shelf are in sync with each other but hold `val` instead of what the stored set implies
    (a corrupted XOR leaf that was loaded from disk); everything else is as in `SInv` -/
structure XInv (cfg : Cfg) (s : State n) (val : Nat → BitVec 256) : Prop where
  g : GInv s.disk
  lc : s.mem.lcHigh = s.disk.lcHigh
  ne : s.disk.txs ≠ []
  sync : Sync xorOps cfg.pageSize s.mem.xorTree s.disk.xorLeaves (maxClock s.disk.txs / cfg.pageSize + 1) val
  i : TreeOK (ibltOps n) cfg.pageSize (keyClocks s.disk.txs) (maxClock s.disk.txs) s.mem.ibltTree s.disk.ibltLeaves

/-- what the XOR pages must hold -/
def xorSpec (cfg : Cfg) (s : State n) : Nat → BitVec 256 := pageVal xorOps cfg.pageSize (refClocks s.disk.txs)

/-- when every page holds what it must, the state is healthy -/
theorem XInv.healthy {cfg : Cfg} (G : Good cfg) {s : State n} (h : XInv cfg s (xorSpec cfg s)) : SInv cfg s := by
  refine ⟨h.g, h.lc, Or.inr ⟨by simpa [refClocks] using h.ne, h.sync, ?_⟩, h.i⟩
  intro q
  rw [h.sync.holds.leaves]
  unfold xorSpec
  rw [fsum_pl_pageVal xor_lawful G.pos]
  congr 1
  apply List.filter_congr
  intro rc hrc
  simp only [refClocks, List.mem_map] at hrc
  obtain ⟨t, ht, rfl⟩ := hrc
  have : t.clock / cfg.pageSize ≤ maxClock s.disk.txs / cfg.pageSize := Nat.div_le_div_right (le_maxClock ht)
  have : t.clock / cfg.pageSize < maxClock s.disk.txs / cfg.pageSize + 1 := by omega
  simp [this]

theorem SInv.toX {cfg : Cfg} {s : State n} (h : SInv cfg s) (hne : s.disk.txs ≠ []) : XInv cfg s (xorSpec cfg s) := by
  rcases h.x with ⟨e, _⟩ | ⟨_, sy, _⟩
  · exact absurd (by simpa [refClocks] using e) hne
  · exact ⟨h.g, h.lc, hne, sy, h.i⟩

/-- **Repair is local.** `checkPage` (circuit red) on the page `p` it is at, when that page exists: the page's leaf —
    in memory and on disk — becomes the recomputed value; every other page's leaf, the IBLT tree and shelf and the
    stored graph are untouched. -/
theorem XInv.checkPage {cfg : Cfg} (G : Good cfg) {s : State n} {val : Nat → BitVec 256} (h : XInv cfg s val)
    (hc : ¬ s.mem.circuit < 2) (hp : s.mem.repairPage ≤ maxClock s.disk.txs / cfg.pageSize) :
    XInv cfg (checkPage cfg s) (upd val s.mem.repairPage (xorSpec cfg s s.mem.repairPage)) ∧
    (checkPage cfg s).disk.txs = s.disk.txs ∧ (checkPage cfg s).disk.clocks = s.disk.clocks ∧
    (checkPage cfg s).disk.count = s.disk.count ∧ (checkPage cfg s).disk.lcHigh = s.disk.lcHigh ∧
    (checkPage cfg s).disk.head = s.disk.head ∧ (checkPage cfg s).disk.ibltLeaves = s.disk.ibltLeaves ∧
    (checkPage cfg s).mem.ibltTree = s.mem.ibltTree ∧ (checkPage cfg s).mem.lcHigh = s.mem.lcHigh := by
  have L := xor_lawful
  have hls := G.pos
  obtain ⟨txs, hf, hcalc⟩ := calc_root hls h.g s.mem.repairPage
  have hpm : s.mem.repairPage < maxClock s.disk.txs / cfg.pageSize + 1 := by omega
  have hpx : pageXor cfg.pageSize s.mem.xorTree s.mem.repairPage = val s.mem.repairPage :=
    page_leaf_by_difference L h.sync.holds s.mem.repairPage hpm
  have hspec : calcXor cfg.pageSize txs = xorSpec cfg s s.mem.repairPage := hcalc
  by_cases he : xorOps.empty (xorOps.sub (pageXor cfg.pageSize s.mem.xorTree s.mem.repairPage)
      (calcXor cfg.pageSize txs)) = true
  · -- the page is right already: nothing changes
    rw [checkPage_nochange hc hf he]
    have heq : val s.mem.repairPage = xorSpec cfg s s.mem.repairPage := by
      rw [hpx, hspec] at he
      simpa [xorOps] using he
    have hupd : upd val s.mem.repairPage (xorSpec cfg s s.mem.repairPage) = val := by
      funext q; unfold upd; by_cases e : q = s.mem.repairPage
      · subst e; simp [heq]
      · simp [e]
    have hx : xorSpec cfg { s with mem := { s.mem with repairPage := nextPage cfg s } } = xorSpec cfg s := rfl
    rw [hupd]
    exact ⟨⟨h.g, h.lc, h.ne, h.sync, h.i⟩, rfl, rfl, rfl, rfl, rfl, rfl, rfl, rfl⟩
  · -- replace the leaf, rebuild, persist
    rw [checkPage_replace hc hf he]
    have hpage : s.mem.repairPage * cfg.pageSize / cfg.pageSize = s.mem.repairPage := Nat.mul_div_cancel _ hls
    have r := h.sync.holds.replace L (s.mem.repairPage * cfg.pageSize) (calcXor cfg.pageSize txs) (by rw [hpage]; exact hpm)
    rw [hpage] at r
    obtain ⟨H', hd, ho⟩ := r
    rw [h.sync.clean, List.nil_append] at hd
    have hupdates : (s.mem.xorTree.replace xorOps (s.mem.repairPage * cfg.pageSize) (calcXor cfg.pageSize txs)).updates =
        [(keyOf cfg.pageSize s.mem.repairPage, calcXor cfg.pageSize txs)] := by
      unfold Tree.updates
      rw [H'.leaves, hd, filter_pl_dirty hls _ s.mem.repairPage (by simp) (by intro x hx; simpa using hx)]
      simp [hpm, upd]
    refine ⟨⟨⟨h.g.idx, h.g.closed, h.g.count, h.g.lc, h.g.head, h.g.nodup, h.g.keys⟩, h.lc, h.ne, ?_, h.i⟩,
      rfl, rfl, rfl, rfl, rfl, rfl, rfl, rfl⟩
    rw [← hspec]
    refine ⟨⟨H'.ls_pos, H'.ls_eq, H'.shape, H'.wf, H'.leaves⟩, rfl, ?_, ?_⟩
    · show (s.mem.xorTree.replace xorOps _ _).resetUpdates.orphaned = []
      simp [Tree.resetUpdates]
    · show (persist _ s.disk.xorLeaves).2 = _
      simp only [persist, hupdates, List.foldl_cons, List.foldl_nil]
      rw [h.sync.shelf_eq, putSorted_pl hls _ _ _ 0 val (Nat.zero_le _) (by omega)]
      congr 1
      omega

/-- a stored XOR leaf of an existing page overwritten on disk, then loaded by a restart -/
theorem SInv.corrupt_restart {cfg : Cfg} (G : Good cfg) {s : State n} (h : SInv cfg s) (hne : s.disk.txs ≠ [])
    (p : Nat) (hp : p ≤ maxClock s.disk.txs / cfg.pageSize) (v : BitVec 256) :
    XInv cfg (Nuts.C08.restart cfg (corruptDisk s (keyOf cfg.pageSize p) v)) (upd (xorSpec cfg s) p v) ∧
    (Nuts.C08.restart cfg (corruptDisk s (keyOf cfg.pageSize p) v)).disk.txs = s.disk.txs := by
  have hx := h.toX hne
  have hshelf : putSorted (keyOf cfg.pageSize p) v s.disk.xorLeaves =
      pl cfg.pageSize 0 (maxClock s.disk.txs / cfg.pageSize + 1) (upd (xorSpec cfg s) p v) := by
    rw [hx.sync.shelf_eq, putSorted_pl G.pos _ _ _ 0 _ (Nat.zero_le _) (by omega)]
    congr 1; omega
  refine ⟨⟨⟨h.g.idx, h.g.closed, h.g.count, h.g.lc, h.g.head, h.g.nodup, h.g.keys⟩, rfl, hne, ?_, ?_⟩, rfl⟩
  · show Sync xorOps cfg.pageSize (Tree.load xorOps cfg.loadEmptyResets (Tree.new xorOps cfg.pageSize)
        (putSorted (keyOf cfg.pageSize p) v s.disk.xorLeaves)) (putSorted (keyOf cfg.pageSize p) v s.disk.xorLeaves) _ _
    rw [hshelf]
    have := Holds.load xor_lawful G.pos G.even cfg.loadEmptyResets (Tree.new xorOps cfg.pageSize)
      (maxClock s.disk.txs / cfg.pageSize + 1) (upd (xorSpec cfg s) p v) (by omega)
    exact ⟨this.1, this.2.1, this.2.2, rfl⟩
  · show TreeOK (ibltOps n) cfg.pageSize _ _ (Tree.load (ibltOps n) cfg.loadEmptyResets (Tree.new (ibltOps n) cfg.pageSize)
        s.disk.ibltLeaves) s.disk.ibltLeaves
    rw [G.resets]
    exact h.i.load (iblt_lawful n) G.even _ rfl

/-- `checkPageWith` differs from `checkPage` in the page counter only -/
theorem checkPageWith_eq (cfg : Cfg) (lcSeen : Nat) (s : State n) :
    ∃ rp, checkPageWith cfg lcSeen s = { checkPage cfg s with mem := { (checkPage cfg s).mem with repairPage := rp } } := by
  unfold Nuts.C08.checkPage Nuts.C08.checkPageWith
  by_cases hc : s.mem.circuit < 2
  · exact ⟨s.mem.repairPage, by simp only [hc, if_true]⟩
  · simp only [hc, if_false]
    cases s.disk.findBetweenLC (s.mem.repairPage * cfg.pageSize) (s.mem.repairPage * cfg.pageSize + cfg.pageSize) with
    | ok txs =>
      simp only []
      by_cases he : xorOps.empty (xorOps.sub (pageXor cfg.pageSize s.mem.xorTree s.mem.repairPage) (calcXor cfg.pageSize txs)) = true
      · simp only [he, if_true]; exact ⟨_, rfl⟩
      · simp only [he, Bool.false_eq_true, if_false]; exact ⟨_, rfl⟩
    | err e => exact ⟨_, rfl⟩
    | panic e => exact ⟨_, rfl⟩

/-- the repair's write transaction on a healthy state — whatever clock value it saw before taking the lock — changes
    nothing but the page counter -/
theorem SInv.checkPageWith {cfg : Cfg} (G : Good cfg) {s : State n} (h : SInv cfg s) (lcSeen : Nat) :
    SInv cfg (Nuts.C08.checkPageWith cfg lcSeen s) ∧ (Nuts.C08.checkPageWith cfg lcSeen s).disk = s.disk ∧
    (Nuts.C08.checkPageWith cfg lcSeen s).mem.xorTree = s.mem.xorTree ∧
    (Nuts.C08.checkPageWith cfg lcSeen s).mem.ibltTree = s.mem.ibltTree := by
  obtain ⟨rp, e⟩ := checkPageWith_eq cfg lcSeen s
  have c := h.checkPage G
  rw [e]
  exact ⟨⟨c.1.g, c.1.lc, c.1.x, c.1.i⟩, c.2.1, c.2.2.1, c.2.2.2.1⟩

end Nuts.C08
