/-
  C08 — `Replace`/`rebuild` on a contiguous tree and `xorTreeRepair.checkPage`: a healthy state is left alone; a state
  whose XOR leaves differ from the recomputed values gets exactly the checked page restored.  Core Lean only.
-/
import NutsProofs.Lemmas.C08List

namespace Nuts.C08

variable {R G : Type} {n : Nat}

/-! ### rebuild -/

theorem rebuild_branch_ne {o : Ops R G} {s l : Nat} {d : G} {left right : Node G} (hr : right ≠ .nil) :
    (Node.branch s l d left right).rebuild o =
      .branch s l (o.add ((left.rebuild o).data o) ((right.rebuild o).data o)) (left.rebuild o) (right.rebuild o) := by
  cases right with
  | nil => exact absurd rfl hr
  | leaf _ _ _ => rfl
  | branch _ _ _ _ _ => rfl

theorem rebuild_leaves (o : Ops R G) : ∀ n : Node G, (n.rebuild o).leaves = n.leaves := by
  intro n
  induction n with
  | nil => rfl
  | leaf _ _ _ => rfl
  | branch s l d left right ihl ihr =>
    by_cases hr : right = .nil
    · subst hr; simp [Node.rebuild, Node.leaves, ihl]
    · rw [rebuild_branch_ne hr]; simp [Node.leaves, ihl, ihr]

theorem rebuild_total (o : Ops R G) : ∀ n : Node G, (n.rebuild o).total o = n.total o := by
  intro n
  induction n with
  | nil => rfl
  | leaf _ _ _ => rfl
  | branch s l d left right ihl ihr =>
    by_cases hr : right = .nil
    · subst hr; simp [Node.rebuild, Node.total, ihl]
    · rw [rebuild_branch_ne hr]; simp [Node.total, ihl, ihr]

theorem rebuild_wf {o : Ops R G} (L : Lawful o) : ∀ n : Node G, Wf o (n.rebuild o) := by
  intro n
  induction n with
  | nil => trivial
  | leaf _ _ _ => trivial
  | branch s l d left right ihl ihr =>
    by_cases hr : right = .nil
    · subst hr
      simp only [Node.rebuild, Wf]
      exact ⟨by rw [ihl.data_eq]; simp [Node.total, L.add_zero], ihl, trivial⟩
    · rw [rebuild_branch_ne hr]
      exact ⟨by rw [ihl.data_eq, ihr.data_eq], ihl, ihr⟩

theorem rebuild_shape {o : Ops R G} {ls : Nat} : ∀ (h a m : Nat) (n : Node G), Shape ls h a m n →
    Shape ls h a m (n.rebuild o) := by
  intro h
  induction h with
  | zero => intro a m n s; cases n <;> simp [Shape] at s; simpa [Node.rebuild, Shape] using s
  | succ h ih =>
    intro a m n s
    cases n <;> simp [Shape] at s
    rename_i sp l d left right
    obtain ⟨hs, hl, c⟩ := s
    rcases c with ⟨e, hm, sl⟩ | ⟨hm, sl, sr⟩
    · subst e
      simp only [Node.rebuild, Shape]
      exact ⟨hs, hl, Or.inl ⟨trivial, hm, ih _ _ _ sl⟩⟩
    · rw [rebuild_branch_ne (Shape.geo _ _ _ _ sr).ne_nil]
      simp only [Shape]
      exact ⟨hs, hl, Or.inr ⟨hm, ih _ _ _ sl, ih _ _ _ sr⟩⟩

/-! ### Replace on an existing page -/

theorem replaceF_branch_right {o : Ops R G} {ls clock fu s l : Nat} {x bd : G} {left right : Node G}
    (hc : ¬ clock < s) (hne : right ≠ .nil) :
    Tree.replaceF o ls clock x (fu + 1) (.branch s l bd left right) =
      (.branch s l bd left (Tree.replaceF o ls clock x fu right).1, (Tree.replaceF o ls clock x fu right).2.1,
       (Tree.replaceF o ls clock x fu right).2.2) := by
  cases right with
  | nil => exact absurd rfl hne
  | leaf _ _ _ => simp [Tree.replaceF, hc]
  | branch _ _ _ _ _ => simp [Tree.replaceF, hc]

theorem replaceF_shape {o : Ops R G} {ls : Nat} (hls : 0 < ls) (clock : Nat) (x : G) :
    ∀ (h a m fuel : Nat) (n : Node G) (val : Nat → G), Shape ls h a m n → n.leaves = pl ls a m val → h < fuel →
      a ≤ clock / ls → clock / ls < a + m →
      (Tree.replaceF o ls clock x fuel n).2.2 = true ∧
      (Tree.replaceF o ls clock x fuel n).2.1 = [keyOf ls (clock / ls)] ∧
      Shape ls h a m (Tree.replaceF o ls clock x fuel n).1 ∧
      (Tree.replaceF o ls clock x fuel n).1.leaves = pl ls a m (upd val (clock / ls) x) := by
  intro h
  induction h with
  | zero =>
    intro a m fuel n val s hl hfuel hlo hhi
    cases n <;> simp [Shape] at s
    rename_i sp l d
    obtain ⟨hm, hsp, hlim⟩ := s
    subst hm
    cases fuel with
    | zero => omega
    | succ fu =>
      have hP : clock / ls = a := by omega
      have hlt : ¬ clock ≥ l := by
        have : clock < ls * (a + 1) := (page_of_clock_lt hls).mpr (by omega)
        omega
      simp only [Tree.replaceF, hlt, if_false, hP]
      refine ⟨trivial, by rw [hsp], ?_, ?_⟩
      · simp [Shape, hsp, hlim]
      · simp [Node.leaves, pl_one, upd, hsp]
  | succ h ih =>
    intro a m fuel n val s hl hfuel hlo hhi
    cases n <;> simp [Shape] at s
    rename_i sp l d left right
    obtain ⟨hsp, hlim, c⟩ := s
    cases fuel with
    | zero => omega
    | succ fu =>
      by_cases hc : clock < sp
      · have hPl : clock / ls < a + 2 ^ h := by rw [hsp] at hc; exact (page_of_clock_lt hls).mp hc
        rcases c with ⟨e, hm, sl⟩ | ⟨hm, sl, sr⟩
        · subst e
          simp only [Node.leaves, List.append_nil] at hl
          have r := ih a m fu left val sl hl (by omega) hlo hhi
          obtain ⟨r1, r2, r3, r4⟩ := r
          simp only [Tree.replaceF, hc, if_true]
          refine ⟨r1, r2, ?_, by simpa [Node.leaves] using r4⟩
          simp only [Shape]
          exact ⟨hsp, hlim, Or.inl ⟨trivial, hm, r3⟩⟩
        · have hlen := Shape.leaves_length _ _ _ _ sl
          simp only [Node.leaves] at hl
          rw [pl_split ls a m (2 ^ h) val (by omega)] at hl
          have hinj := List.append_inj hl (by simp [hlen])
          have r := ih a (2 ^ h) fu left val sl hinj.1 (by omega) hlo hPl
          obtain ⟨r1, r2, r3, r4⟩ := r
          simp only [Tree.replaceF, hc, if_true]
          refine ⟨r1, r2, ?_, ?_⟩
          · simp only [Shape]
            exact ⟨hsp, hlim, Or.inr ⟨hm, r3, sr⟩⟩
          · simp only [Node.leaves]
            rw [r4, hinj.2, pl_split ls a m (2 ^ h) (upd val (clock / ls) x) (by omega)]
            congr 1
            apply pl_congr
            intro i _
            simp [upd]; omega
      · have hPr : a + 2 ^ h ≤ clock / ls := by
          have : ls * (a + 2 ^ h) ≤ clock := by rw [← hsp]; omega
          exact (page_of_clock hls).mp this
        rcases c with ⟨e, hm, sl⟩ | ⟨hm, sl, sr⟩
        · omega
        · have hne := (Shape.geo _ _ _ _ sr).ne_nil
          have hlen := Shape.leaves_length _ _ _ _ sl
          simp only [Node.leaves] at hl
          rw [pl_split ls a m (2 ^ h) val (by omega)] at hl
          have hinj := List.append_inj hl (by simp [hlen])
          have r := ih (a + 2 ^ h) (m - 2 ^ h) fu right val sr hinj.2 (by omega) hPr (by omega)
          obtain ⟨r1, r2, r3, r4⟩ := r
          rw [replaceF_branch_right hc hne]
          refine ⟨r1, r2, ?_, ?_⟩
          · simp only [Shape]
            exact ⟨hsp, hlim, Or.inr ⟨hm, sl, r3⟩⟩
          · simp only [Node.leaves]
            rw [r4, hinj.1, pl_split ls a m (2 ^ h) (upd val (clock / ls) x) (by omega)]
            congr 1
            apply pl_congr
            intro i hi
            simp [upd]; omega

/-- `Replace(clock, x)` on a page that exists: the tree stays contiguous, exactly that page's leaf becomes `x`, its key
    is marked dirty, all sums above are recomputed -/
theorem Holds.replace {o : Ops R G} (L : Lawful o) {ls : Nat} {t : Tree G} {m : Nat} {val : Nat → G}
    (H : Holds o ls t m val) (clock : Nat) (x : G) (hP : clock / ls < m) :
    Holds o ls (t.replace o clock x) m (upd val (clock / ls) x) ∧
    (t.replace o clock x).dirty = t.dirty ++ [keyOf ls (clock / ls)] ∧ (t.replace o clock x).orphaned = t.orphaned := by
  obtain ⟨h, sh, hs⟩ := H.shape
  have hls := H.ls_pos
  have hfuel : h < t.treeSize + 1 := by
    rw [hs]
    have : h < 2 ^ h := Nat.lt_two_pow_self
    have : 2 ^ h ≤ ls * 2 ^ h := Nat.le_mul_of_pos_left _ hls
    omega
  have r := replaceF_shape (o := o) hls clock x h 0 m (t.treeSize + 1) t.root val sh H.leaves hfuel (Nat.zero_le _)
    (by omega)
  obtain ⟨r1, r2, r3, r4⟩ := r
  have e : t.replace o clock x =
      { t with root := (Tree.replaceF o ls clock x (t.treeSize + 1) t.root).1.rebuild o,
               dirty := t.dirty ++ [keyOf ls (clock / ls)] } := by
    unfold Tree.replace
    simp only [Tree.replaceLoop, H.ls_eq, r1, if_true, r2]
  rw [e]
  refine ⟨⟨hls, H.ls_eq, ⟨h, rebuild_shape _ _ _ _ r3, hs⟩, rebuild_wf L _, ?_⟩, rfl, rfl⟩
  show ((Tree.replaceF o ls clock x (t.treeSize + 1) t.root).1.rebuild o).leaves = _
  rw [rebuild_leaves, r4]

/-! ### prefix sums of a contiguous tree -/

theorem fsum_pl_le {o : Ops R G} (L : Lawful o) {ls : Nat} (hls : 0 < ls) (P : Nat) (val : Nat → G) :
    ∀ m, fsum o ls (fun p => decide (p ≤ P)) (pl ls 0 m val) = gsum o ((List.range (min m (P + 1))).map val) := by
  intro m
  induction m with
  | zero => simp [pl_zero, fsum_nil, gsum]
  | succ m ih =>
    rw [pl_succ, fsum_append L, ih]
    simp only [fsum, List.filter_cons, List.filter_nil, Nat.zero_add, keyOf_page hls]
    by_cases h : m ≤ P
    · have e1 : min (m + 1) (P + 1) = m + 1 := by omega
      have e2 : min m (P + 1) = m := by omega
      simp only [h, decide_true, if_true, e1, e2, List.range_succ, List.map_append, List.map_cons, List.map_nil,
        gsum_append L]
    · have e1 : min (m + 1) (P + 1) = P + 1 := by omega
      have e2 : min m (P + 1) = P + 1 := by omega
      simp only [h, decide_false, Bool.false_eq_true, if_false, e1, e2, List.map_nil, gsum, L.add_zero]

/-- the leaf of page `p`, as `checkPage` obtains it from two `ZeroTo` calls -/
theorem page_leaf_by_difference {o : Ops R G} (L : Lawful o) {ls : Nat} {t : Tree G} {m : Nat} {val : Nat → G}
    (H : Holds o ls t m val) (p : Nat) (hp : p < m) :
    (if p * ls ≠ 0 then o.sub (t.zeroTo o (p * ls + ls - 1)).1 (t.zeroTo o (p * ls - 1)).1
     else (t.zeroTo o (p * ls + ls - 1)).1) = val p := by
  have hls := H.ls_pos
  have hend : (p * ls + ls - 1) / ls = p := by
    apply Nat.div_eq_of_lt_le
    · omega
    · rw [Nat.add_mul]; omega
  have hz : ∀ c, (t.zeroTo o c).1 = gsum o ((List.range (min m (c / ls + 1))).map val) := by
    intro c
    rw [Tree.zeroTo_data L t H.inv c, H.ls_eq, H.leaves, fsum_pl_le L hls]
  rw [hz, hend]
  have e1 : min m (p + 1) = p + 1 := by omega
  by_cases h0 : p * ls ≠ 0
  · have hp1 : 1 ≤ p := by
      rcases Nat.eq_zero_or_pos p with e | e
      · subst e; simp at h0
      · exact e
    have hstart : (p * ls - 1) / ls = p - 1 := by
      apply Nat.div_eq_of_lt_le
      · have : (p - 1) * ls + ls = p * ls := by rw [← Nat.succ_mul]; congr 1; omega
        omega
      · have : (p - 1 + 1) * ls = p * ls := by congr 1; omega
        rw [this]
        have : 0 < p * ls := Nat.mul_pos hp1 hls
        omega
    rw [if_pos h0, hz, hstart]
    have e2 : min m (p - 1 + 1) = p := by omega
    rw [e1, e2, List.range_succ, List.map_append, gsum_append L]
    simp only [List.map_cons, List.map_nil, gsum, L.add_zero]
    rw [L.add_comm, L.add_sub]
  · rw [if_neg h0]
    have : p = 0 := by
      rcases Nat.eq_zero_or_pos p with e | e
      · exact e
      · have : 0 < p * ls := Nat.mul_pos e hls
        omega
    subst this
    simp [gsum, L.add_zero] at e1 ⊢
    rw [e1]; simp [gsum, L.add_zero]

end Nuts.C08
