/-
  C18 (deepening round 3) — lemmas on the general resolver chain / router (NutsModel/C18/Chain.lean)
-/
import NutsModel.C18.Chain

namespace Nuts.C18
open Nuts

/-- every resolver asked before the last one said NotFound; the result is the last asked resolver's answer unless the chain is exhausted -/
theorem chain_spec_l : ∀ (l : List ROut),
    (chainResolve l).2 ≤ l.length ∧
    (∀ i, i + 1 < (chainResolve l).2 → l[i]? = some .notFound) ∧
    ((chainResolve l).1 ≠ .notFound → 0 < (chainResolve l).2 ∧ l[(chainResolve l).2 - 1]? = some (chainResolve l).1) ∧
    ((chainResolve l).1 = .notFound → (chainResolve l).2 = l.length ∧ ∀ x ∈ l, x = .notFound) := by
  intro l
  induction l with
  | nil => simp [chainResolve]
  | cons a rest ih =>
    cases a with
    | notFound =>
      simp only [chainResolve]
      obtain ⟨h1, h2, h3, h4⟩ := ih
      refine ⟨by simp; omega, ?_, ?_, ?_⟩
      · intro i hi
        cases i with
        | zero => simp
        | succ k => simp only [List.getElem?_cons_succ]; exact h2 k (by omega)
      · intro hne
        obtain ⟨hp, hl⟩ := h3 hne
        refine ⟨by omega, ?_⟩
        have : (chainResolve rest).2 + 1 - 1 = ((chainResolve rest).2 - 1) + 1 := by omega
        rw [this, List.getElem?_cons_succ]; exact hl
      · intro he
        obtain ⟨hl, ha⟩ := h4 he
        refine ⟨by simp [hl], ?_⟩
        intro x hx
        cases hx with
        | head => rfl
        | tail _ hm => exact ha x hm
    | ok d => simp [chainResolve]
    | fail e => simp [chainResolve]

/-- what follows the first answer is never asked and cannot change the result -/
theorem chain_stops_l (pre post : List ROut) (a : ROut) (hpre : ∀ x ∈ pre, x = .notFound) (ha : a ≠ .notFound) :
    chainResolve (pre ++ a :: post) = (a, pre.length + 1) := by
  induction pre with
  | nil => cases a <;> simp_all [chainResolve]
  | cons p rest ih =>
    have hp : p = .notFound := hpre p (by simp)
    subst hp
    have := ih (fun x hx => hpre x (by simp [hx]))
    simp only [List.cons_append, chainResolve, this, List.length_cons]

theorem router_exact_l {β} (regs : List (Bytes × β)) (method : Bytes) (r : β) (h : routerLookup regs method = some r) :
    (method, r) ∈ regs := by
  unfold routerLookup at h
  split at h
  · rename_i x hx
    have hm := List.mem_of_find?_eq_some hx
    have hp := List.find?_some hx
    simp at hp h
    subst h
    have : x = (method, x.2) := by rw [← hp]
    rw [this] at hm
    simpa using hm
  · cases h

theorem router_last_wins_l {β} (regs : List (Bytes × β)) (method : Bytes) (r : β) :
    routerLookup (regs ++ [(method, r)]) method = some r := by
  simp [routerLookup]

theorem resolve_web_is_chain_l (dec : List Nat) (cts : List Bytes) (pol : Policy) (strict : Bool) (n : Node) (allow : Bool) (d : DID)
    (srv : Nat → Req → Option Resp) (hm : d.method = sWeb) (hs : n.didMethods.contains sWeb = true) :
    let c := chainResolve [toROut (resolveLocal (n.localState d) allow d), toROut (webOut dec cts pol strict d srv).2]
    toROut (resolve dec cts pol true strict n allow d srv).2 = c.1 ∧
    (resolve dec cts pol true strict n allow d srv).1 = (if c.2 = 2 then (webOut dec cts pol strict d srv).1 else []) := by
  simp only [resolve, hm, hs, webOut]
  cases hl : n.localState d <;> simp [resolveLocal, toROut, chainResolve]
  all_goals (try (cases allow <;> simp [chainResolve]))
  all_goals (generalize resolveWeb dec cts pol strict d srv = w; rcases w with ⟨reqs, (_ | e | p)⟩ <;> simp [toROut, chainResolve])
  all_goals (try (split <;> simp [chainResolve]))

end Nuts.C18
