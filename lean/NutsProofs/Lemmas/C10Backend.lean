/-
  C10 — `store.Add` with its two write transactions does not need "a write transaction reads its own writes":
  on a backend whose in-transaction reads see committed data only (NutsModel/C10/Backend.lean) it does exactly what
  `addDid` does, for every arrival sequence.
-/
import NutsModel.C10.Backend
import NutsProofs.Lemmas.C10

namespace Nuts.C10
open Nuts

theorem addDidVis_eq_addDid (cfg : Cfg) (visible : Ref → Bool) (st : DidState) (e : Event)
    (h : ∀ x ∈ (insert e st.events).1, visible x.ref = true) : addDidVis cfg visible st e = addDid cfg st e := by
  unfold addDidVis addDid
  have hf : (insert e st.events).1.filter (fun x => visible x.ref) = (insert e st.events).1 :=
    List.filter_eq_self.mpr h
  simp only [hf]
  split
  · rfl
  · cases applyAll cfg (insert e st.events).1
        (if (insert e st.events).2 > 0 then (st.chain[(insert e st.events).2 - 1]?).map (·.2) else none)
        ((insert e st.events).1.drop (insert e st.events).2) with
    | err x => rfl
    | panic x => rfl
    | ok suffix =>
      simp only
      cases (st.chain.take (insert e st.events).2 ++ suffix).getLast? <;> rfl

theorem addDid_events (cfg : Cfg) (st st' : DidState) (e : Event) (h : addDid cfg st e = .ok (some st')) :
    st'.events = (insert e st.events).1 := by
  unfold addDid at h
  split at h
  · cases h
  · simp only at h
    split at h
    · cases h
    · cases h
    · split at h
      · cases h
      · simp only [Res.ok.injEq, Option.some.injEq] at h
        rw [← h]

/-- the index entry of every stored event is committed -/
def CInv (c : CState) : Prop := ∀ x ∈ c.st.events, x.ref ∈ c.idx

theorem cInv_empty : CInv {} := fun x hx => by cases hx

theorem addTwoTx_refines (cfg : Cfg) (c : CState) (e : Event) (hc : CInv c) :
    match addDid cfg c.st e with
    | .ok none => ∃ c', addTwoTx cfg c e = .ok c' ∧ c'.st = c.st ∧ CInv c'
    | .ok (some st') => ∃ c', addTwoTx cfg c e = .ok c' ∧ c'.st = st' ∧ CInv c'
    | .err x => addTwoTx cfg c e = .err x
    | .panic x => addTwoTx cfg c e = .panic x := by
  have hvis : ∀ x ∈ (insert e c.st.events).1, (fun r => (e.ref :: c.idx).contains r) x.ref = true := by
    intro x hx
    rcases List.mem_cons.mp ((insert_perm e c.st.events).subset hx) with rfl | hx
    · simp
    · simp only [List.contains_eq_mem, List.mem_cons, decide_eq_true_eq]
      exact Or.inr (hc x hx)
  unfold addTwoTx
  simp only
  rw [addDidVis_eq_addDid cfg _ c.st e hvis]
  cases hadd : addDid cfg c.st e with
  | err x => rfl
  | panic x => rfl
  | ok r =>
    cases r with
    | none =>
      refine ⟨_, rfl, rfl, ?_⟩
      intro x hx
      exact List.mem_cons_of_mem _ (hc x hx)
    | some st' =>
      refine ⟨_, rfl, rfl, ?_⟩
      intro x hx
      simp only at hx
      rw [addDid_events cfg c.st st' e hadd] at hx
      rcases List.mem_cons.mp ((insert_perm e c.st.events).subset hx) with rfl | hx
      · exact List.mem_cons_self ..
      · exact List.mem_cons_of_mem _ (hc x hx)

/-- an arrival sequence on the two-transaction Add (errors propagate, as in `addDidAll`) -/
def twoTxAll (cfg : Cfg) : CState → List Event → Res CState
  | c, [] => .ok c
  | c, e :: es =>
    match addTwoTx cfg c e with
    | .ok c' => twoTxAll cfg c' es
    | .err x => .err x
    | .panic x => .panic x

theorem twoTxAll_refines (cfg : Cfg) : ∀ (l : List Event) (c : CState) (a : DidState), CInv c →
    addDidAll cfg c.st l = .ok a → ∃ c', twoTxAll cfg c l = .ok c' ∧ c'.st = a ∧ CInv c' := by
  intro l
  induction l with
  | nil =>
    intro c a hc h
    simp only [addDidAll, Res.ok.injEq] at h
    exact ⟨c, rfl, h, hc⟩
  | cons e es ih =>
    intro c a hc h
    have href := addTwoTx_refines cfg c e hc
    unfold addDidAll at h
    unfold twoTxAll
    cases hadd : addDid cfg c.st e with
    | err x => rw [hadd] at h; cases h
    | panic x => rw [hadd] at h; cases h
    | ok r =>
      rw [hadd] at h href
      cases r with
      | none =>
        simp only at h href
        obtain ⟨c1, h1, hst, hc1⟩ := href
        rw [h1]
        exact ih c1 a hc1 (by rw [hst]; exact h)
      | some st1 =>
        simp only at h href
        obtain ⟨c1, h1, hst, hc1⟩ := href
        rw [h1]
        exact ih c1 a hc1 (by rw [hst]; exact h)

end Nuts.C10
