/-
  C07 liveness lemmas, part D2: absorbing arbitrary accepted replies.
-/
import NutsModel.C07.Round
import NutsProofs.Lemmas.C07
import NutsProofs.Lemmas.C07LiveC
open Nuts.Proto Nuts Nuts.Proto.L

namespace Nuts.Proto.Live

/-! ### Part D2: absorbing an arbitrary accepted reply (not necessarily prev-closed) -/

/-- offered transactions of `b` are taken until the first one whose prevs are missing -/
theorem addLoop_general (cfg : Cfg) (env : Env) {b : List Tx} (hb : DagOK b) :
    ∀ (l : List (Tx × Option Payload)) (n : Node), DagOK n.dag → RefFun n.dag b → RootIn n.dag b →
      (∀ x ∈ l, x.1 ∈ b) → OfferOK l →
      ((addLoop cfg env n l).res = .finished ∧ (∀ x ∈ l, present (addLoop cfg env n l).node.dag x.1.ref = true) ∨
       (addLoop cfg env n l).res = .prevMissing) ∧
      (∀ t ∈ (addLoop cfg env n l).node.dag, t ∈ n.dag ∨ ∃ x ∈ l, x.1 = t) ∧
      (∀ t ∈ n.dag, t ∈ (addLoop cfg env n l).node.dag) := by
  intro l
  induction l with
  | nil => intro n _ _ _ _ _; simp [addLoop]
  | cons x xs ih =>
    intro n hn hf hroot hlb hoff
    obtain ⟨tx, pl⟩ := x
    have htb : tx ∈ b := hlb (tx, pl) List.mem_cons_self
    obtain ⟨hoff1, hoff2⟩ := hoff (tx, pl) List.mem_cons_self
    have hxs_b : ∀ x ∈ xs, x.1 ∈ b := fun x hx => hlb x (List.mem_cons_of_mem _ hx)
    have hxs_off : OfferOK xs := fun x hx => hoff x (List.mem_cons_of_mem _ hx)
    unfold addLoop
    have hnp : (tx.pal.isEmpty && payloadEmpty pl) = false := by
      cases hpal : tx.pal with
      | nil =>
        obtain ⟨p, hp, hlen⟩ := hoff1 hpal
        subst hp
        simp [payloadEmpty, hlen]
      | cons y ys => simp
    simp only [hnp, Bool.false_eq_true, if_false]
    by_cases hpres : present n.dag tx.ref = true
    · have hres : addTx cfg env n tx pl = (n, [], .present) := by
        unfold addTx addCheck; simp [hpres]
      simp only [hres]
      obtain ⟨h1, h3, h4⟩ := ih n hn hf hroot hxs_b hxs_off
      refine ⟨?_, fun t ht => ?_, h4⟩
      · rcases h1 with ⟨hf1, hall⟩ | hpm
        · refine Or.inl ⟨hf1, fun x hx => ?_⟩
          rcases List.mem_cons.mp hx with rfl | hx'
          · obtain ⟨t', ht', hr⟩ := present_iff.mp hpres
            exact present_iff.mpr ⟨t', h4 t' ht', hr⟩
          · exact hall x hx'
        · exact Or.inr hpm
      · rcases h3 t ht with h | ⟨x, hx, he⟩
        · exact Or.inl h
        · exact Or.inr ⟨x, List.mem_cons_of_mem _ hx, he⟩
    · have hnew : present n.dag tx.ref = false := by simpa using hpres
      by_cases hprev : ∀ p ∈ tx.prevs, present n.dag p = true
      · have hadd : addCheck n.dag tx pl = .added := admit hn hb hf hroot htb hnew hprev pl hoff2
        have hres : addTx cfg env n tx pl = (commitTx cfg n tx pl, notifyPrivate env (commitTx cfg n tx pl) tx, .added) := by
          unfold addTx; simp [hadd]
        simp only [hres]
        have hn' : DagOK (commitTx cfg n tx pl).dag := dagOK_commit cfg n tx pl hn hadd
        have hf' : RefFun (commitTx cfg n tx pl).dag b := by
          intro t ht t' ht' he
          have conv : ∀ z, (z ∈ (commitTx cfg n tx pl).dag ∨ z ∈ b) → (z ∈ n.dag ∨ z ∈ b) := by
            intro z hz
            rcases hz with hz | hz
            · rcases List.mem_cons.mp hz with rfl | h
              · exact Or.inr htb
              · exact Or.inl h
            · exact Or.inr hz
          exact hf t (conv t ht) t' (conv t' ht') he
        have hroot' : RootIn (commitTx cfg n tx pl).dag b := fun t ht he => List.mem_cons_of_mem _ (hroot t ht he)
        obtain ⟨h1, h3, h4⟩ := ih (commitTx cfg n tx pl) hn' hf' hroot' hxs_b hxs_off
        refine ⟨?_, fun t ht => ?_, fun t ht => h4 t (List.mem_cons_of_mem _ ht)⟩
        · rcases h1 with ⟨hf1, hall⟩ | hpm
          · refine Or.inl ⟨hf1, fun x hx => ?_⟩
            rcases List.mem_cons.mp hx with rfl | hx'
            · exact present_iff.mpr ⟨tx, h4 tx List.mem_cons_self, rfl⟩
            · exact hall x hx'
          · exact Or.inr hpm
        · rcases h3 t ht with h | ⟨x, hx, he⟩
          · rcases List.mem_cons.mp h with rfl | h'
            · exact Or.inr ⟨(t, pl), List.mem_cons_self, rfl⟩
            · exact Or.inl h'
          · exact Or.inr ⟨x, List.mem_cons_of_mem _ hx, he⟩
      · -- a prev is missing: the loop stops here
        have hall : tx.prevs.all (present n.dag) = false := by
          rw [← Bool.not_eq_true, List.all_eq_true]; exact hprev
        have hadd : addCheck n.dag tx pl = .prevMissing := by
          unfold addCheck; simp [hnew, hall]
        have hres : addTx cfg env n tx pl = (n, [], .prevMissing) := by
          unfold addTx; simp [hadd]
        simp only [hres]
        exact ⟨Or.inr trivial, fun t ht => Or.inl ht, fun t ht => ht⟩

/-- a TransactionList is a no-op for a node whose only conversation is a `State` request (unknown conversation or
    wrong envelope type) -/
theorem txList_rejected_state (cfg : Cfg) (env : Env) (n : Node) (p : Peer) (c : Conv) (lc : Nat) (hc : n.convs = [c])
    (hd : c.data = .state lc) (cid : Cid) (num total : Nat) (txs : List NetTx) :
    (handle cfg env n p (.txList cid num total txs)).node = n ∧ (handle cfg env n p (.txList cid num total txs)).out = [] := by
  apply (rejected_response_noop cfg env n p cid).1
  unfold convCheck findConv
  rw [hc]
  by_cases h : c.cid = cid
  · simp [h, hd, checkResponse]
  · have : (c.cid == cid) = false := by simpa using h
    simp [List.find?, this]

theorem absorb_rejected (cfg : Cfg) (env : Env) (n : Node) (p : Peer) (c : Conv) (lc : Nat) (hc : n.convs = [c])
    (hd : c.data = .state lc) (cid : Cid) (total : Nat) : ∀ (chunks : List (List NetTx)) (k : Nat),
    absorb cfg env n p (numberChunks cid total k chunks) = (n, []) := by
  intro chunks
  induction chunks with
  | nil => intro k; rfl
  | cons ch rest ih =>
    intro k
    simp only [numberChunks, absorb_cons]
    obtain ⟨h1, h2⟩ := txList_rejected_state cfg env n p c lc hc hd cid (k + 1) total ch
    rw [h1, h2, ih (k + 1)]
    rfl


theorem sendState_free (cfg : Cfg) (n : Node) (hbs : cfg.blockState = false) (peer : Nat) (x : Ref) (lc : Nat) :
    sendState cfg n peer x lc =
      { node := { n with nextCid := n.nextCid + 1, convs := { cid := (n.id, n.nextCid), expiry := n.now + cfg.validity, data := .state lc } :: n.convs },
        out := [(peer, .state (n.id, n.nextCid) x lc)] } := by
  unfold sendState sendRequest startConversation
  simp [ConvData.blockable, hbs]

theorem toPeer_single (key : Nat) (m : Msg) (h : driving m = true) : toPeer key [(key, m)] = [m] := by
  simp [toPeer, h]

/-- **absorbing any accepted reply**, chunk by chunk: either everything is taken and the conversation is closed, or
    the loop hits a transaction whose prevs are missing, closes the conversation and restarts with a `State`
    request carrying the node's current XOR and clock (the remaining chunks are then rejected) -/
theorem absorb_chunks_general (cfg : Cfg) (env : Env) (hbs : cfg.blockState = false) (bn : Node) (hb : DagOK bn.dag) (hpb : PayloadsOK bn)
    (pB : Peer) (cid : Cid) (D : ConvData) (total : Nat) :
    ∀ (ls : List (List Tx)) (k : Nat) (a : Node) (c : Conv),
      DagOK a.dag → RefFun a.dag bn.dag → RootIn a.dag bn.dag → a.convs = [c] → c.cid = cid → c.data = D →
      (∀ ch ∈ ls, Accepts D ch) → k + ls.length = total → (∀ t ∈ ls.flatten, t ∈ bn.dag) →
      let r := absorb cfg env a pB (numberChunks cid total k (ls.map (·.map (netOf bn))))
      DagOK r.1.dag ∧ (∀ t ∈ r.1.dag, t ∈ a.dag ∨ t ∈ ls.flatten) ∧ (∀ t ∈ a.dag, t ∈ r.1.dag) ∧
      r.1.peers = a.peers ∧ r.1.now = a.now ∧ r.1.id = a.id ∧
      ((r.2 = [] ∧ (∀ t ∈ ls.flatten, present r.1.dag t.ref = true) ∧ (ls ≠ [] → r.1.convs = [])) ∨
       (∃ cid', r.2 = [.state cid' (xorOf r.1.dag) (lcOf r.1.dag)] ∧
          r.1.convs = [{ cid := cid', expiry := r.1.now + cfg.validity, data := .state (lcOf r.1.dag) }])) := by
  intro ls
  induction ls with
  | nil =>
    intro k a c ha _ _ hc _ _ _ _ _
    simp [numberChunks, absorb, ha]
  | cons ch rest ih =>
    intro k a c ha hf hroot hc hcid hD hacc hk hmem
    simp only [List.map_cons, numberChunks, absorb_cons]
    have hfind : findConv a cid = some c := by
      unfold findConv; rw [hc]; simp [hcid]
    have hchk : convCheck a cid (.txList cid (k + 1) total (ch.map (netOf bn))) = none := by
      unfold convCheck; rw [hfind]; simp only
      rw [hD]; exact checkResponse_accepts bn D ch (hacc ch List.mem_cons_self) cid _ _
    simp only [List.flatten_cons] at hmem
    have hch_b : ∀ t ∈ ch, t ∈ bn.dag := fun t ht => hmem t (List.mem_append_left _ ht)
    have hoff := offerOK_of bn hpb ch hch_b
    obtain ⟨hcase, hsub, hsup⟩ := addLoop_general cfg env hb (ch.map (offerOf bn)) a ha hf hroot
      (by intro x hx; obtain ⟨t, ht, rfl⟩ := List.mem_map.mp hx; exact hch_b t ht) hoff
    obtain ⟨fconvs, fpeers, fnow, fid, _, _⟩ := addLoop_frame cfg env (ch.map (offerOf bn)) a
    have hok1 := (addLoop_dag cfg env (ch.map (offerOf bn)) a ha).1
    let a1 := (addLoop cfg env a (ch.map (offerOf bn))).node
    have hsub' : ∀ t ∈ a1.dag, t ∈ a.dag ∨ t ∈ ch := by
      intro t ht
      rcases hsub t ht with h | ⟨x, hx, rfl⟩
      · exact Or.inl h
      · obtain ⟨t0, ht0, rfl⟩ := List.mem_map.mp hx
        exact Or.inr ht0
    have hout : toPeer pB.key (addLoop cfg env a (ch.map (offerOf bn))).out = [] :=
      toPeer_pq _ _ (fun o ho => addLoop_out cfg env _ a o ho)
    rcases hcase with ⟨hfin, hall⟩ | hpm
    · -- the whole chunk was taken
      have hh : handle cfg env a pB (.txList cid (k + 1) total (ch.map (netOf bn))) =
          { node := if k + 1 ≥ total then convDone a1 cid else resetTimeout cfg a1 cid,
            out := (addLoop cfg env a (ch.map (offerOf bn))).out, retry := (addLoop cfg env a (ch.map (offerOf bn))).retry } := by
        simp only [handle]
        unfold handleTransactionList
        rw [hchk]; simp only
        rw [parseAll_netOf]; simp only
        rw [hfin]
      rw [hh]
      simp only
      rw [hout, List.nil_append]
      have hf1 : RefFun a1.dag bn.dag := by
        intro t ht t' ht' he
        have conv : ∀ z, (z ∈ a1.dag ∨ z ∈ bn.dag) → (z ∈ a.dag ∨ z ∈ bn.dag) := by
          intro z hz
          rcases hz with hz | hz
          · rcases hsub' z hz with h | h
            · exact Or.inl h
            · exact Or.inr (hch_b z h)
          · exact Or.inr hz
        exact hf t (conv t ht) t' (conv t' ht') he
      have hroot1 : RootIn a1.dag bn.dag := fun t ht he => hsup t (hroot t ht he)
      by_cases hlast : k + 1 ≥ total
      · have hrest : rest = [] := by
          cases rest with
          | nil => rfl
          | cons x xs => simp only [List.length_cons] at hk; omega
        subst hrest
        simp only [hlast, if_true, List.map_nil, numberChunks, absorb]
        refine ⟨hok1, ?_, hsup, fpeers, fnow, fid, Or.inl ⟨trivial, ?_, ?_⟩⟩
        · intro t ht
          rcases hsub' t ht with h | h
          · exact Or.inl h
          · exact Or.inr (by simpa using h)
        · intro t ht
          have ht : t ∈ ch := by simpa using ht
          exact hall (offerOf bn t) (List.mem_map.mpr ⟨t, ht, rfl⟩)
        · intro _
          show (convDone a1 cid).convs = []
          simp only [convDone, a1, fconvs, hc]
          simp [hcid]
      · simp only [hlast, if_false]
        have hne : rest ≠ [] := by
          intro h; subst h; simp only [List.length_cons, List.length_nil] at hk; omega
        let a2 := resetTimeout cfg a1 cid
        have hc2 : a2.convs = [{ c with expiry := a1.now + cfg.validity }] := by
          show (resetTimeout cfg a1 cid).convs = _
          simp only [resetTimeout, a1, fconvs, hc, List.map_cons, List.map_nil]
          simp [hcid]
        obtain ⟨g2, g4, g5, g7, g8, g9, gcase⟩ := ih (k + 1) a2 { c with expiry := a1.now + cfg.validity }
          (by simpa [a2] using hok1) (by simpa [a2] using hf1) (by simpa [a2] using hroot1) hc2 hcid hD
          (fun x hx => hacc x (List.mem_cons_of_mem _ hx)) (by simp only [List.length_cons] at hk; omega)
          (fun t ht => hmem t (List.mem_append_right _ ht))
        refine ⟨g2, ?_, fun t ht => g5 t (hsup t ht), ?_, ?_, ?_, ?_⟩
        · intro t ht
          rcases g4 t ht with h | h
          · rcases hsub' t h with h' | h'
            · exact Or.inl h'
            · exact Or.inr (List.mem_append_left _ h')
          · exact Or.inr (List.mem_append_right _ h)
        · rw [g7]; exact fpeers
        · rw [g8]; exact fnow
        · rw [g9]; exact fid
        · rcases gcase with ⟨g1, g3, g6⟩ | hrestart
          · refine Or.inl ⟨g1, ?_, fun _ => g6 hne⟩
            intro t ht
            rcases List.mem_append.mp ht with h | h
            · obtain ⟨t', ht', hr'⟩ := present_iff.mp (hall (offerOf bn t) (List.mem_map.mpr ⟨t, h, rfl⟩))
              exact present_iff.mpr ⟨t', g5 t' ht', hr'⟩
            · exact g3 t h
          · exact Or.inr hrestart
    · -- a prev is missing: conversation closed, restart with State, remaining chunks rejected
      have hh : handle cfg env a pB (.txList cid (k + 1) total (ch.map (netOf bn))) =
          { sendState cfg (convDone a1 cid) pB.key (xorOf a1.dag) (lcOf a1.dag) with
            out := (addLoop cfg env a (ch.map (offerOf bn))).out ++ (sendState cfg (convDone a1 cid) pB.key (xorOf a1.dag) (lcOf a1.dag)).out,
            retry := (addLoop cfg env a (ch.map (offerOf bn))).retry } := by
        simp only [handle]
        unfold handleTransactionList
        rw [hchk]; simp only
        rw [parseAll_netOf]; simp only
        rw [hpm]
      rw [hh, sendState_free cfg _ hbs]
      simp only
      have hdone : (convDone a1 cid).convs = [] := by
        simp only [convDone, a1, fconvs, hc]
        simp [hcid]
      have htp : toPeer pB.key ((addLoop cfg env a (ch.map (offerOf bn))).out ++
          [(pB.key, Msg.state ((convDone a1 cid).id, (convDone a1 cid).nextCid) (xorOf a1.dag) (lcOf a1.dag))]) =
          [Msg.state ((convDone a1 cid).id, (convDone a1 cid).nextCid) (xorOf a1.dag) (lcOf a1.dag)] := by
        unfold toPeer
        rw [List.filter_append, List.map_append]
        have := hout
        unfold toPeer at this
        rw [this]
        simp [driving]
      rw [htp]
      rw [absorb_rejected cfg env _ pB { cid := ((convDone a1 cid).id, (convDone a1 cid).nextCid), expiry := (convDone a1 cid).now + cfg.validity, data := .state (lcOf a1.dag) }
        (lcOf a1.dag) (by simp [hdone]) rfl cid total]
      simp only [List.append_nil]
      refine ⟨hok1, ?_, hsup, fpeers, fnow, fid, Or.inr ⟨_, rfl, ?_⟩⟩
      · intro t ht
        rcases hsub' t ht with h | h
        · exact Or.inl h
        · exact Or.inr (List.mem_append_left _ h)
      · show _ :: (convDone a1 cid).convs = _
        rw [hdone]
        rfl

end Nuts.Proto.Live
