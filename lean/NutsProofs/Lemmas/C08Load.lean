/-
  C08 — `Load` rebuilds a contiguous tree from its persisted leaves (bottom-up pairing).  Core Lean only.
-/
import NutsProofs.Lemmas.C08Shape

namespace Nuts.C08

variable {R G : Type}

/-- a row of consecutive nodes of height `h`, the first starting at page `a`, holding `m` pages in total: every node
    is full except possibly the last one -/
def Row (ls h : Nat) : Nat → Nat → List (Node G) → Prop
  | _, _, [] => False
  | a, m, [n] => Shape ls h a m n
  | a, m, n :: n' :: rest => Shape ls h a (2 ^ h) n ∧ 2 ^ h < m ∧ Row ls h (a + 2 ^ h) (m - 2 ^ h) (n' :: rest)

def allLeaves (ns : List (Node G)) : List (Nat × G) := ns.flatMap Node.leaves

theorem Shape.limit {ls h a m : Nat} {n : Node G} (s : Shape ls h a m n) : n.limit = ls * (a + 2 ^ h) :=
  (Shape.geo _ _ _ _ s).limit

theorem pairUp_single {o : Ops R G} (L : Lawful o) {ls h a m : Nat} {x : Node G} (s : Shape ls h a m x) (w : Wf o x) :
    Shape ls (h + 1) a m (.branch x.limit (x.limit + ls * 2 ^ h) (x.data o) x .nil) ∧
    Wf o (.branch x.limit (x.limit + ls * 2 ^ h) (x.data o) x .nil) := by
  refine ⟨?_, ?_⟩
  · simp only [Shape]
    refine ⟨s.limit, ?_, Or.inl ⟨trivial, (Shape.bounds _ _ _ _ s).2, s⟩⟩
    rw [s.limit, two_pow_succ']; simp [Nat.mul_add]; omega
  · exact ⟨by rw [w.data_eq]; simp [Node.total, L.add_zero], w, trivial⟩

theorem pairUp_pair {o : Ops R G} {ls h a m : Nat} {x y : Node G} (hm : 2 ^ h < m)
    (sx : Shape ls h a (2 ^ h) x) (sy : Shape ls h (a + 2 ^ h) (m - 2 ^ h) y) (wx : Wf o x) (wy : Wf o y) :
    Shape ls (h + 1) a m (.branch x.limit (x.limit + ls * 2 ^ h) (o.add (x.data o) (y.data o)) x y) ∧
    Wf o (.branch x.limit (x.limit + ls * 2 ^ h) (o.add (x.data o) (y.data o)) x y) := by
  refine ⟨?_, ?_⟩
  · simp only [Shape]
    refine ⟨sx.limit, ?_, Or.inr ⟨hm, sx, sy⟩⟩
    rw [sx.limit, two_pow_succ']; simp [Nat.mul_add]; omega
  · exact ⟨by rw [wx.data_eq, wy.data_eq], wx, wy⟩

/-- one level of the pairing loop -/
theorem pairUp_row {o : Ops R G} (L : Lawful o) {ls h : Nat} : ∀ (ns : List (Node G)) (a m : Nat),
    Row ls h a m ns → (∀ n ∈ ns, Wf o n) →
    Row ls (h + 1) a m (pairUp o (ls * 2 ^ h) ns) ∧ (∀ n ∈ pairUp o (ls * 2 ^ h) ns, Wf o n) ∧
    allLeaves (pairUp o (ls * 2 ^ h) ns) = allLeaves ns ∧
    (pairUp o (ls * 2 ^ h) ns).length = (ns.length + 1) / 2 := by
  intro ns
  induction ns using pairUp.induct with
  | case1 => intro a m r; simp [Row] at r
  | case2 x =>
    intro a m r w
    simp only [Row] at r
    have p := pairUp_single L r (w x (by simp))
    simp only [pairUp, Row]
    refine ⟨p.1, ?_, by simp [allLeaves, Node.leaves], by simp⟩
    intro n hn; simp at hn; subst hn; exact p.2
  | case3 x y rest ih =>
    intro a m r w
    cases rest with
    | nil =>
      simp only [Row] at r
      obtain ⟨sx, hm, sy⟩ := r
      have p := pairUp_pair (o := o) hm sx sy (w x (by simp)) (w y (by simp))
      simp only [pairUp, Row]
      refine ⟨p.1, ?_, by simp [allLeaves, Node.leaves], by simp⟩
      intro n hn; simp at hn; subst hn; exact p.2
    | cons z rest' =>
      simp only [Row] at r
      obtain ⟨sx, hm, sy, hm2, rr⟩ := r
      have hp := two_pow_succ' h
      have hpos : 0 < 2 ^ h := Nat.two_pow_pos h
      have sy' : Shape ls h (a + 2 ^ h) (2 ^ (h + 1) - 2 ^ h) y := by
        have : 2 ^ (h + 1) - 2 ^ h = 2 ^ h := by omega
        rw [this]; exact sy
      have p := pairUp_pair (o := o) (m := 2 ^ (h + 1)) (by omega) sx sy' (w x (by simp)) (w y (by simp))
      have := ih (a + 2 ^ h + 2 ^ h) (m - 2 ^ h - 2 ^ h) rr (fun n hn => w n (by simp [hn]))
      obtain ⟨i1, i2, i3, i4⟩ := this
      have hne : pairUp o (ls * 2 ^ h) (z :: rest') ≠ [] := by
        intro e; rw [e] at i1; simp [Row] at i1
      simp only [pairUp]
      refine ⟨?_, ?_, ?_, ?_⟩
      · cases hq : pairUp o (ls * 2 ^ h) (z :: rest') with
        | nil => exact absurd hq hne
        | cons q qs =>
          rw [hq] at i1
          simp only [Row]
          refine ⟨p.1, by omega, ?_⟩
          have e1 : a + 2 ^ (h + 1) = a + 2 ^ h + 2 ^ h := by omega
          have e2 : m - 2 ^ (h + 1) = m - 2 ^ h - 2 ^ h := by omega
          rw [e1, e2]; exact i1
      · intro n hn
        simp only [List.mem_cons] at hn
        rcases hn with e | hn
        · subst e; exact p.2
        · exact i2 n hn
      · simp only [allLeaves, List.flatMap_cons, Node.leaves] at i3 ⊢
        rw [i3, List.append_assoc]
      · simp only [List.length_cons, i4]; omega

/-- the whole loop: a single contiguous node with the same leaves remains -/
theorem buildF_row {o : Ops R G} (L : Lawful o) {ls : Nat} : ∀ (fuel h half : Nat) (ns : List (Node G)) (m : Nat),
    Row ls h 0 m ns → (∀ n ∈ ns, Wf o n) → half * 2 = ls * 2 ^ h → ns.length ≤ 2 ^ fuel →
    ∃ h' r, buildF o fuel half ns = [r] ∧ Shape ls h' 0 m r ∧ Wf o r ∧ r.leaves = allLeaves ns := by
  intro fuel
  induction fuel with
  | zero =>
    intro h half ns m r w _ hlen
    cases ns with
    | nil => simp [Row] at r
    | cons x rest =>
      cases rest with
      | nil => exact ⟨h, x, rfl, r, w x (by simp), by simp [allLeaves]⟩
      | cons y rest' => simp at hlen
  | succ f ih =>
    intro h half ns m r w hh hlen
    by_cases hl : ns.length > 1
    · have p := pairUp_row L ns 0 m r w
      simp only [buildF, hl, if_true, hh]
      have := ih (h + 1) (ls * 2 ^ h) (pairUp o (ls * 2 ^ h) ns) m p.1 p.2.1
        (by rw [Nat.pow_succ, Nat.mul_assoc]) (by rw [p.2.2.2]; rw [Nat.pow_succ] at hlen; omega)
      obtain ⟨h', r', e, s, w', lv⟩ := this
      exact ⟨h', r', e, s, w', by rw [lv, p.2.2.1]⟩
    · simp only [buildF, hl, if_false]
      cases ns with
      | nil => simp [Row] at r
      | cons x rest =>
        cases rest with
        | nil => exact ⟨h, x, rfl, r, w x (by simp), by simp [allLeaves]⟩
        | cons y rest' => simp at hl

theorem pl_cons (ls a m : Nat) (val : Nat → G) :
    pl ls a (m + 1) val = (keyOf ls a, val a) :: pl ls (a + 1) m val := by
  have := pl_add ls a 1 m val
  rw [Nat.add_comm 1 m] at this
  rw [this, pl_one]; rfl

/-- the leaves as `Load` creates them form a row of height 0 -/
theorem leaf_row {o : Ops R G} {ls : Nat} (heven : ls % 2 = 0) : ∀ (m a : Nat) (val : Nat → G), 1 ≤ m →
    Row ls 0 a m ((pl ls a m val).map fun kv => Node.leaf kv.1 (kv.1 + ls / 2) kv.2) ∧
    (∀ n ∈ ((pl ls a m val).map fun kv => Node.leaf kv.1 (kv.1 + ls / 2) kv.2), Wf o n) ∧
    allLeaves ((pl ls a m val).map fun kv => Node.leaf kv.1 (kv.1 + ls / 2) kv.2) = pl ls a m val := by
  intro m
  induction m with
  | zero => intro a val h; omega
  | succ m ih =>
    intro a val _
    have hleaf : Shape ls 0 a 1 (Node.leaf (keyOf ls a) (keyOf ls a + ls / 2) (val a)) := by
      simp only [Shape, keyOf]; refine ⟨trivial, trivial, ?_⟩; rw [Nat.mul_add]; omega
    cases m with
    | zero =>
      simp only [Nat.zero_add, pl_one, List.map_cons, List.map_nil, Row]
      exact ⟨hleaf, by intro n hn; simp at hn; subst hn; simp [Wf], by simp [allLeaves, Node.leaves]⟩
    | succ k =>
      have := ih (a + 1) val (by omega)
      obtain ⟨r, w, lv⟩ := this
      rw [pl_cons ls a (k + 1)]
      rw [pl_cons ls (a + 1) k] at r w lv ⊢
      simp only [List.map_cons] at r w lv ⊢
      refine ⟨?_, ?_, ?_⟩
      · simp only [Row, Nat.pow_zero]
        refine ⟨hleaf, by omega, ?_⟩
        have : k + 1 + 1 - 1 = k + 1 := by omega
        rw [this]; exact r
      · intro n hn
        simp only [List.mem_cons] at hn
        rcases hn with e | hn
        · subst e; simp [Wf]
        · exact w n (by simp only [List.mem_cons]; exact hn)
      · simp only [allLeaves, List.flatMap_cons, Node.leaves] at lv ⊢
        rw [lv]; rfl

/-- **Load.** Given the leaves of the pages `0 … m-1` (`m ≥ 1`, even leaf size), `Load` builds a contiguous tree
    holding exactly those leaves, with nothing dirty. -/
theorem Holds.load {o : Ops R G} (L : Lawful o) {ls : Nat} (hls : 0 < ls) (heven : ls % 2 = 0) (b : Bool) (t : Tree G)
    (m : Nat) (val : Nat → G) (hm : 1 ≤ m) :
    Holds o ls (Tree.load o b t (pl ls 0 m val)) m val ∧ (Tree.load o b t (pl ls 0 m val)).dirty = [] ∧
    (Tree.load o b t (pl ls 0 m val)).orphaned = [] := by
  obtain ⟨k, rfl⟩ : ∃ k, m = k + 1 := ⟨m - 1, by omega⟩
  have lr := leaf_row (o := o) heven (k + 1) 0 val (by omega)
  obtain ⟨r, w, lv⟩ := lr
  have hk0 : keyOf ls 0 = ls / 2 := by simp [keyOf]
  have bf := buildF_row L (k + 1) 0 (ls / 2) _ (k + 1) r w (by simp; omega)
    (by simp only [List.length_map, pl_length]; exact Nat.le_of_lt Nat.lt_two_pow_self)
  obtain ⟨h', root, e, s, w', lvs⟩ := bf
  have hcons : pl ls 0 (k + 1) val = (ls / 2, val 0) :: pl ls (0 + 1) k val := by rw [pl_cons, hk0]
  have hload : Tree.load o b t (pl ls 0 (k + 1) val) =
      { root := root, leafSize := 2 * (ls / 2), treeSize := root.limit, dirty := [], orphaned := [] } := by
    rw [hcons] at e ⊢
    simp only [Tree.load, List.length_cons, pl_length]
    rw [e]
  rw [hload]
  have h2 : 2 * (ls / 2) = ls := by omega
  refine ⟨⟨hls, h2, ⟨h', s, ?_⟩, w', by rw [lvs, lv]⟩, rfl, rfl⟩
  simp only [s.limit, Nat.zero_add]

end Nuts.C08
