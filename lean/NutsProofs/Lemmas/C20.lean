/-
  C20 helper lemmas (core Lean only).
-/
import NutsModel.C20.Strict
import NutsProofs.Lemmas.C18

namespace Nuts.C20
open Nuts Nuts.C18

theorem start_isRefuse (tlds l2s : List Bytes) (c : Config) :
    (start tlds l2s c).isRefuse =
      ((load c).isSome || (storageConfigure c).isSome || (cryptoConfigure c).isSome || (vdrConfigure tlds l2s c).isSome ||
        (networkConfigure c).isSome || (authConfigure c).isSome) := by
  unfold start
  cases load c with
  | some p => simp [Outcome.isRefuse]
  | none =>
    cases storageConfigure c with
    | some r => simp [Outcome.isRefuse]
    | none =>
      cases cryptoConfigure c with
      | some r => simp [Outcome.isRefuse]
      | none =>
        cases vdrConfigure tlds l2s c with
        | some r => simp [Outcome.isRefuse]
        | none =>
          cases networkConfigure c with
          | some r => simp [Outcome.isRefuse]
          | none =>
            cases authConfigure c with
            | some r => simp [Outcome.isRefuse]
            | none => simp [Outcome.isRefuse]

theorem start_ok_running (tlds l2s : List Bytes) (c : Config) (r : Running) (h : start tlds l2s c = .ok r) :
    r = { dummyMeans := c.dummy && !c.strict, unlistedRemoteContexts := !c.strict, clientStrict := c.strict } := by
  unfold start at h
  repeat' split at h
  all_goals (cases h; try rfl)

/-- strict mode: a URL that is not https, names an IP address or a reserved host is refused by `ParsePublicURL` -/
theorem parsePublicURL_strict_err (tlds l2s : List Bytes) (url : Bytes) (u : URL) (hp : parseURL url = .ok u)
    (hbad : u.scheme ≠ sHttpsB ∨ isIP (hostname u.host) = true ∨ isReserved tlds l2s (hostname u.host) = .ok true) :
    ∃ e, parsePublicURL tlds l2s url true = .err e := by
  unfold parsePublicURL parsePublicURLWithScheme
  simp only [Bool.not_true, Bool.false_eq_true, if_false, hp]
  split
  · exact ⟨_, rfl⟩
  · split
    · exact ⟨_, rfl⟩
    · rename_i hsch
      split
      · exact ⟨_, rfl⟩
      · rename_i hip
        rcases hbad with h | h | h
        · exfalso; apply hsch; simp [h]
        · exfalso; apply hip; simp [h]
        · rw [h]; exact ⟨_, rfl⟩

theorem serverURL_strict_err (tlds l2s : List Bytes) (url : Bytes) (u : URL) (hp : parseURL url = .ok u)
    (hbad : u.scheme ≠ sHttpsB ∨ isIP (hostname u.host) = true ∨ isReserved tlds l2s (hostname u.host) = .ok true) :
    ∃ e, serverURL tlds l2s url true = .err e := by
  obtain ⟨e, he⟩ := parsePublicURL_strict_err tlds l2s url u hp hbad
  unfold serverURL
  split
  · exact ⟨_, rfl⟩
  · rw [he]; exact ⟨_, rfl⟩

theorem strict_refuses_aux (tlds l2s : List Bytes) (c : Config) (hs : c.strict = true) (i : Insecure)
    (hi : hasInsecure tlds l2s i c = true) : (start tlds l2s c).isRefuse = true := by
  rw [start_isRefuse]
  have hurl : ∀ u, parseURL c.url = .ok u →
      (u.scheme ≠ sHttpsB ∨ isIP (hostname u.host) = true ∨ isReserved tlds l2s (hostname u.host) = .ok true) →
      (vdrConfigure tlds l2s c).isSome = true := by
    intro u hp hbad
    obtain ⟨e, he⟩ := serverURL_strict_err tlds l2s c.url u hp hbad
    simp [vdrConfigure, hs, he]
  cases i with
  | urlNotHttps =>
    simp only [hasInsecure] at hi
    cases hp : parseURL c.url with
    | ok u => rw [hp] at hi; simp [hurl u hp (Or.inl (by simpa using hi))]
    | err e => rw [hp] at hi; simp at hi
    | panic e => rw [hp] at hi; simp at hi
  | urlIP =>
    simp only [hasInsecure] at hi
    cases hp : parseURL c.url with
    | ok u => rw [hp] at hi; simp [hurl u hp (Or.inr (Or.inl hi))]
    | err e => rw [hp] at hi; simp at hi
    | panic e => rw [hp] at hi; simp at hi
  | urlReserved =>
    simp only [hasInsecure] at hi
    cases hp : parseURL c.url with
    | ok u =>
      rw [hp] at hi
      simp only at hi
      cases hr : isReserved tlds l2s (hostname u.host) with
      | ok b => rw [hr] at hi; simp only at hi; subst hi; simp [hurl u hp (Or.inr (Or.inr hr))]
      | err e => rw [hr] at hi; simp at hi
      | panic e => rw [hr] at hi; simp at hi
    | err e => rw [hp] at hi; simp at hi
    | panic e => rw [hp] at hi; simp at hi
  | tlsOff =>
    simp only [hasInsecure, Bool.and_eq_true, Bool.not_eq_true'] at hi
    simp [networkConfigure, hi.1, hi.2, hs]
  | cryptoImplicit =>
    simp only [hasInsecure, decide_eq_true_eq] at hi
    simp [cryptoConfigure, hi, hs]
  | sqlImplicit =>
    simp only [hasInsecure, Bool.not_eq_true'] at hi
    simp [storageConfigure, hi, hs]
  | irmaNonProduction =>
    simp only [hasInsecure, Bool.not_eq_true'] at hi
    simp [authConfigure, hi, hs]

theorem lenient_accepts_aux (tlds l2s : List Bytes) (c : Config) (hs : c.strict = false) (h : Bytes)
    (hu : c.url ≠ [] ∧ parsePublicURL tlds l2s c.url false = .ok h) (hm : c.nuts = true ∨ c.web = true)
    (hc : c.cryptoStorage ≠ .invalid) (hk : c.movedKey = false) (hf : c.cliFlags.any isSecretFlag = false) :
    start tlds l2s c = .ok { dummyMeans := c.dummy, unlistedRemoteContexts := true, clientStrict := false } := by
  have h1 : load c = none := by simp [load, hf, hk]
  have h2 : storageConfigure c = none := by simp [storageConfigure, hs]
  have h3 : cryptoConfigure c = none := by
    unfold cryptoConfigure
    cases hcs : c.cryptoStorage with
    | explicit => rfl
    | implicit => simp [hs]
    | invalid => exact absurd hcs hc
  have h4 : vdrConfigure tlds l2s c = none := by
    unfold vdrConfigure serverURL
    rw [hs, if_neg hu.1, hu.2]
    rcases hm with hm | hm <;> simp [hm]
  have h5 : networkConfigure c = none := by
    unfold networkConfigure; simp [hs]
  have h6 : authConfigure c = none := by simp [authConfigure, hs]
  unfold start
  rw [h1, h2, h3, h4, h5, h6]
  simp [hs]

theorem outbound_https_aux (srv : Nat → Req → Option Resp) (first : Req) :
    ∀ r ∈ (strictDo (clientPolicy true 10) true srv first).1, r.scheme = sHttps := by
  by_cases hf : first.scheme = sHttps
  · exact strictDo_reqs _ true srv first _ hf (fun nxt n h => checkRedirect_strictHttps (by rfl) h)
  · intro r hr
    simp [strictDo, hf] at hr

end Nuts.C20
