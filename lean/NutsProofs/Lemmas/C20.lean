/-
  C20 helper lemmas (core Lean only).
-/
import NutsModel.C20.Strict
import NutsProofs.Lemmas.C18

namespace Nuts.C20
open Nuts Nuts.C18

theorem start_isRefuse (tlds l2s : List Bytes) (c : Config) :
    (start tlds l2s c).isRefuse =
      ((load c).isSome || (storageConfigure c).isSome || (cryptoConfigure c).isSome || (vdrConfigure tlds l2s c).isSome ||
        (networkConfigure c).isSome || (authConfigure c).isSome) := by
  unfold start
  cases load c with
  | some p => simp [Outcome.isRefuse]
  | none =>
    cases storageConfigure c with
    | some r => simp [Outcome.isRefuse]
    | none =>
      cases cryptoConfigure c with
      | some r => simp [Outcome.isRefuse]
      | none =>
        cases vdrConfigure tlds l2s c with
        | some r => simp [Outcome.isRefuse]
        | none =>
          cases networkConfigure c with
          | some r => simp [Outcome.isRefuse]
          | none =>
            cases authConfigure c with
            | some r => simp [Outcome.isRefuse]
            | none => simp [Outcome.isRefuse]

theorem start_ok_running (tlds l2s : List Bytes) (c : Config) (r : Running) (h : start tlds l2s c = .ok r) :
    r = { dummyMeans := c.dummy && !c.strict, unlistedRemoteContexts := !c.strict, clientStrict := c.strict } := by
  unfold start at h
  repeat' split at h
  all_goals (cases h; try rfl)

/-- strict mode: a URL that is not https, names an IP address or a reserved host is refused by `ParsePublicURL` -/
theorem parsePublicURL_strict_err (tlds l2s : List Bytes) (url : Bytes) (u : URL) (hp : parseURL url = .ok u)
    (hbad : u.scheme ≠ sHttpsB ∨ isIP (hostname u.host) = true ∨ isReserved tlds l2s (hostname u.host) = .ok true) :
    ∃ e, parsePublicURL tlds l2s url true = .err e := by
  unfold parsePublicURL parsePublicURLWithScheme
  simp only [Bool.not_true, Bool.false_eq_true, if_false, hp]
  split
  · exact ⟨_, rfl⟩
  · split
    · exact ⟨_, rfl⟩
    · rename_i hsch
      split
      · exact ⟨_, rfl⟩
      · rename_i hip
        rcases hbad with h | h | h
        · exfalso; apply hsch; simp [h]
        · exfalso; apply hip; simp [h]
        · rw [h]; exact ⟨_, rfl⟩

theorem serverURL_strict_err (tlds l2s : List Bytes) (url : Bytes) (u : URL) (hp : parseURL url = .ok u)
    (hbad : u.scheme ≠ sHttpsB ∨ isIP (hostname u.host) = true ∨ isReserved tlds l2s (hostname u.host) = .ok true) :
    ∃ e, serverURL tlds l2s url true = .err e := by
  obtain ⟨e, he⟩ := parsePublicURL_strict_err tlds l2s url u hp hbad
  unfold serverURL
  split
  · exact ⟨_, rfl⟩
  · rw [he]; exact ⟨_, rfl⟩

theorem strict_refuses_aux (tlds l2s : List Bytes) (c : Config) (hs : c.strict = true) (i : Insecure)
    (hi : hasInsecure tlds l2s i c = true) : (start tlds l2s c).isRefuse = true := by
  rw [start_isRefuse]
  have hurl : ∀ u, parseURL c.url = .ok u →
      (u.scheme ≠ sHttpsB ∨ isIP (hostname u.host) = true ∨ isReserved tlds l2s (hostname u.host) = .ok true) →
      (vdrConfigure tlds l2s c).isSome = true := by
    intro u hp hbad
    obtain ⟨e, he⟩ := serverURL_strict_err tlds l2s c.url u hp hbad
    simp [vdrConfigure, hs, he]
  cases i with
  | urlNotHttps =>
    simp only [hasInsecure] at hi
    cases hp : parseURL c.url with
    | ok u => rw [hp] at hi; simp [hurl u hp (Or.inl (by simpa using hi))]
    | err e => rw [hp] at hi; simp at hi
    | panic e => rw [hp] at hi; simp at hi
  | urlIP =>
    simp only [hasInsecure] at hi
    cases hp : parseURL c.url with
    | ok u => rw [hp] at hi; simp [hurl u hp (Or.inr (Or.inl hi))]
    | err e => rw [hp] at hi; simp at hi
    | panic e => rw [hp] at hi; simp at hi
  | urlReserved =>
    simp only [hasInsecure] at hi
    cases hp : parseURL c.url with
    | ok u =>
      rw [hp] at hi
      simp only at hi
      cases hr : isReserved tlds l2s (hostname u.host) with
      | ok b => rw [hr] at hi; simp only at hi; subst hi; simp [hurl u hp (Or.inr (Or.inr hr))]
      | err e => rw [hr] at hi; simp at hi
      | panic e => rw [hr] at hi; simp at hi
    | err e => rw [hp] at hi; simp at hi
    | panic e => rw [hp] at hi; simp at hi
  | tlsOff =>
    simp only [hasInsecure, Bool.and_eq_true, Bool.not_eq_true'] at hi
    simp [networkConfigure, hi.1, hi.2, hs]
  | cryptoImplicit =>
    simp only [hasInsecure, decide_eq_true_eq] at hi
    simp [cryptoConfigure, hi, hs]
  | sqlImplicit =>
    simp only [hasInsecure, Bool.not_eq_true'] at hi
    simp [storageConfigure, hi, hs]
  | irmaNonProduction =>
    simp only [hasInsecure, Bool.not_eq_true'] at hi
    simp [authConfigure, hi, hs]

theorem lenient_accepts_aux (tlds l2s : List Bytes) (c : Config) (hs : c.strict = false) (h : Bytes)
    (hu : c.url ≠ [] ∧ parsePublicURL tlds l2s c.url false = .ok h) (hm : c.nuts = true ∨ c.web = true)
    (hc : c.cryptoStorage ≠ .invalid) (hk : c.movedKey = false) (hf : c.cliFlags.any isSecretFlag = false) :
    start tlds l2s c = .ok { dummyMeans := c.dummy, unlistedRemoteContexts := true, clientStrict := false } := by
  have h1 : load c = none := by simp [load, hf, hk]
  have h2 : storageConfigure c = none := by simp [storageConfigure, hs]
  have h3 : cryptoConfigure c = none := by
    unfold cryptoConfigure
    cases hcs : c.cryptoStorage with
    | explicit => rfl
    | implicit => simp [hs]
    | invalid => exact absurd hcs hc
  have h4 : vdrConfigure tlds l2s c = none := by
    unfold vdrConfigure serverURL
    rw [hs, if_neg hu.1, hu.2]
    rcases hm with hm | hm <;> simp [hm]
  have h5 : networkConfigure c = none := by
    unfold networkConfigure; simp [hs]
  have h6 : authConfigure c = none := by simp [authConfigure, hs]
  unfold start
  rw [h1, h2, h3, h4, h5, h6]
  simp [hs]

theorem outbound_https_aux (srv : Nat → Req → Option Resp) (first : Req) :
    ∀ r ∈ (strictDo (clientPolicy true 10) true srv first).1, r.scheme = sHttps := by
  by_cases hf : first.scheme = sHttps
  · exact strictDo_reqs _ true srv first _ hf (fun nxt n h => checkRedirect_strictHttps (by rfl) h)
  · intro r hr
    simp [strictDo, hf] at hr

theorem isReserved_ok (tlds l2s : List Bytes) (h : Bytes) : ∃ b, isReserved tlds l2s h = .ok b := by
  unfold isReserved
  simp only
  cases hl : (splitOn cDot (lower h)).getLast? with
  | none => exact absurd (List.getLast?_eq_none_iff.mp hl) (splitOn_ne_nil _ _)
  | some tld =>
    simp only
    split
    · exact ⟨_, rfl⟩
    · split <;> exact ⟨_, rfl⟩

/-- strict `ServerURL` as a decision list over the parsed URL -/
theorem serverURL_strict_cases (tlds l2s : List Bytes) (url : Bytes) (u : URL) (hp : parseURL url = .ok u)
    (hne : url ≠ []) (hsc : u.scheme ≠ []) (hh : hostname u.host ≠ []) (b : Bool)
    (hr : isReserved tlds l2s (hostname u.host) = .ok b) :
    serverURL tlds l2s url true =
      if u.scheme ≠ sHttpsB then .err "url:scheme" else
      if isIP (hostname u.host) then .err "url:ip" else
      if b then .err "url:reserved" else .ok u.host := by
  unfold serverURL parsePublicURL parsePublicURLWithScheme
  simp only [if_neg hne, Bool.not_true, Bool.false_eq_true, if_false, hp, hr]
  have e1 : (decide (u.scheme = []) || decide (hostname u.host = [])) = false := by simp [hsc, hh]
  simp only [e1, Bool.false_eq_true, if_false]
  by_cases hs : u.scheme = sHttpsB
  · have e2 : (![sHttpsB].isEmpty && ![sHttpsB].contains u.scheme) = false := by simp [hs]
    simp only [e2, Bool.false_eq_true, if_false, hs, ne_eq, not_true_eq_false]
    cases hip : isIP (hostname u.host) with
    | true => simp
    | false => cases b <;> simp
  · have e2 : (![sHttpsB].isEmpty && ![sHttpsB].contains u.scheme) = true := by simp [hs]
    simp [e2, hs]
/-- the strict-mode start decision of a well-formed configuration, as a decision list over the seven insecure settings -/
theorem start_strict_formula (tlds l2s : List Bytes) (c : Config) (hs : c.strict = true)
    (hf : c.cliFlags.any isSecretFlag = false) (hk : c.movedKey = false) (hc : c.cryptoStorage ≠ .invalid)
    (hm : c.nuts = true ∨ c.web = true)
    (hu : c.url ≠ [] ∧ ∃ u, parseURL c.url = .ok u ∧ u.scheme ≠ [] ∧ hostname u.host ≠ []) :
    start tlds l2s c =
      if hasInsecure tlds l2s .sqlImplicit c then .refuse "storage" "sql-implicit" else
      if hasInsecure tlds l2s .cryptoImplicit c then .refuse "crypto" "crypto-implicit" else
      if hasInsecure tlds l2s .urlNotHttps c then .refuse "vdr" "url:scheme" else
      if hasInsecure tlds l2s .urlIP c then .refuse "vdr" "url:ip" else
      if hasInsecure tlds l2s .urlReserved c then .refuse "vdr" "url:reserved" else
      if hasInsecure tlds l2s .tlsOff c then .refuse "network" "tls-off" else
      if hasInsecure tlds l2s .irmaNonProduction c then .refuse "auth" "irma-scheme" else
      .ok { dummyMeans := false, unlistedRemoteContexts := false, clientStrict := true } := by
  obtain ⟨hne, u, hp, hsc, hh⟩ := hu
  obtain ⟨b, hr⟩ := isReserved_ok tlds l2s (hostname u.host)
  have hsu := serverURL_strict_cases tlds l2s c.url u hp hne hsc hh b hr
  have hload : load c = none := by simp [load, hf, hk]
  have k1 : hasInsecure tlds l2s .urlNotHttps c = decide (u.scheme ≠ sHttpsB) := by simp [hasInsecure, hp]
  have k2 : hasInsecure tlds l2s .urlIP c = isIP (hostname u.host) := by simp [hasInsecure, hp]
  have k3 : hasInsecure tlds l2s .urlReserved c = b := by simp [hasInsecure, hp, hr]
  have k4 : hasInsecure tlds l2s .tlsOff c = (c.nuts && !c.tls) := rfl
  have k5 : hasInsecure tlds l2s .cryptoImplicit c = decide (c.cryptoStorage = .implicit) := rfl
  have k6 : hasInsecure tlds l2s .sqlImplicit c = !c.sqlExplicit := rfl
  have k7 : hasInsecure tlds l2s .irmaNonProduction c = !c.irmaPbdf := rfl
  rw [k1, k2, k3, k4, k5, k6, k7]
  unfold start
  rw [hload]
  simp only
  cases hsql : c.sqlExplicit with
  | false => simp [storageConfigure, hsql, hs]
  | true =>
    have e1 : storageConfigure c = none := by simp [storageConfigure, hsql]
    simp only [e1, Bool.not_true, Bool.false_eq_true, if_false]
    cases hcs : c.cryptoStorage with
    | invalid => exact absurd hcs hc
    | implicit => simp [cryptoConfigure, hcs, hs]
    | explicit =>
      have e2 : cryptoConfigure c = none := by simp [cryptoConfigure, hcs]
      simp only [e2, reduceCtorEq, decide_false, Bool.false_eq_true, if_false]
      unfold vdrConfigure
      rw [hs, hsu]
      by_cases hsch : u.scheme = sHttpsB
      · simp only [hsch, ne_eq, not_true_eq_false, if_false, decide_false, Bool.false_eq_true]
        cases hip : isIP (hostname u.host) with
        | true => simp
        | false =>
          simp only [Bool.false_eq_true, if_false]
          cases b with
          | true => simp
          | false =>
            have e3 : (!c.nuts && !c.web) = false := by rcases hm with hm | hm <;> simp [hm]
            simp only [Bool.false_eq_true, if_false, e3]
            cases hn : c.nuts with
            | false => cases hi : c.irmaPbdf <;> simp [networkConfigure, authConfigure, hn, hi, hs]
            | true =>
              cases ht : c.tls with
              | false => simp [networkConfigure, hn, ht, hs]
              | true => cases hi : c.irmaPbdf <;> simp [networkConfigure, authConfigure, hn, ht, hi, hs]
      · simp [hsch]

theorem strict_reason_aux (tlds l2s : List Bytes) (c : Config) (hs : c.strict = true) (i : Insecure)
    (hi : hasInsecure tlds l2s i c = true) (honly : ∀ j, j ≠ i → hasInsecure tlds l2s j c = false)
    (hf : c.cliFlags.any isSecretFlag = false) (hk : c.movedKey = false) (hc : c.cryptoStorage ≠ .invalid)
    (hm : c.nuts = true ∨ c.web = true)
    (hu : c.url ≠ [] ∧ ∃ u, parseURL c.url = .ok u ∧ u.scheme ≠ [] ∧ hostname u.host ≠ []) :
    ∃ e, start tlds l2s c = .refuse e (reasonOf i) := by
  rw [start_strict_formula tlds l2s c hs hf hk hc hm hu]
  cases i <;>
    simp [hi, honly, reasonOf,
      honly .sqlImplicit, honly .cryptoImplicit, honly .urlNotHttps, honly .urlIP, honly .urlReserved, honly .tlsOff,
      honly .irmaNonProduction]

end Nuts.C20
