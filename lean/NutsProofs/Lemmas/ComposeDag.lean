/-
  Composition C06 ∘ C08 (∘ C07): helper lemmas.  The maps are in NutsModel/Compose/Dag.lean; the theorems in
  NutsProofs/Props/ComposeDag.lean.  Nothing here restates a lemma of the three properties: it only relates them.
-/
import NutsModel.Compose.Dag
import NutsProofs.Lemmas.C06
import NutsProofs.Lemmas.C08Inv
import NutsProofs.Lemmas.C07LiveN
import NutsProofs.Lemmas.C08Order
import NutsProofs.Lemmas.Sort

namespace Nuts.Compose.Dag
open Nuts

/-! ### refs -/

/-- a ref is a SHA-256 value -/
def Small (r : Nat) : Prop := r < 2 ^ 256

instance (r : Nat) : Decidable (Small r) := by unfold Small; exact inferInstance

theorem embRef_inj {a b : Nat} (ha : Small a) (hb : Small b) (h : embRef a = embRef b) : a = b := by
  unfold embRef at h
  have := congrArg BitVec.toNat h
  simp only [BitVec.toNat_ofNat] at this
  unfold Small at ha hb
  rwa [Nat.mod_eq_of_lt ha, Nat.mod_eq_of_lt hb] at this

theorem embRef_toNat {a : Nat} (ha : Small a) : (embRef a).toNat = a := by
  unfold embRef Small at *
  simp only [BitVec.toNat_ofNat]
  exact Nat.mod_eq_of_lt ha

@[simp] theorem embTx_ref (w : Wire) (t : C06.Tx) : (embTx w t).ref = embRef t.ref := rfl
@[simp] theorem embTx_clock (w : Wire) (t : C06.Tx) : (embTx w t).clock = t.clock := rfl
@[simp] theorem embTx_prevs (w : Wire) (t : C06.Tx) : (embTx w t).prevs = t.prevs.map embRef := rfl
@[simp] theorem embTx_ikey (w : Wire) (t : C06.Tx) : (embTx w t).ikey = ikeyOf w t.ref := rfl

theorem find?_unique {α : Type} (q : α → Bool) : ∀ (l : List α) (x : α), x ∈ l → q x = true →
    (∀ y ∈ l, q y = true → y = x) → l.find? q = some x := by
  intro l
  induction l with
  | nil => intro x hx; cases hx
  | cons a t ih =>
    intro x hx hq hu
    by_cases ha : q a = true
    · have := hu a List.mem_cons_self ha
      subst this
      simp [List.find?, hq]
    · have ha' : q a = false := by cases h : q a <;> simp_all
      have hx' : x ∈ t := by
        rcases List.mem_cons.mp hx with rfl | h
        · rw [hq] at ha'; cases ha'
        · exact h
      simp only [List.find?, ha']
      exact ih x hx' hq (fun y hy => hu y (List.mem_cons_of_mem _ hy))

theorem eq_of_ref {l : List C06.Tx} (nd : (C06.refsOf l).Nodup) {x y : C06.Tx} (hx : x ∈ l) (hy : y ∈ l)
    (h : x.ref = y.ref) : x = y := by
  induction l with
  | nil => cases hx
  | cons a t ih =>
    unfold C06.refsOf at nd ih
    simp only [List.map_cons, List.nodup_cons, List.mem_map, not_exists, not_and] at nd
    rcases List.mem_cons.mp hx with rfl | hx' <;> rcases List.mem_cons.mp hy with rfl | hy'
    · rfl
    · exact absurd h.symm (nd.1 y hy')
    · exact absurd h (nd.1 x hx')
    · exact ih nd.2 hx' hy'

/-- the relation between the two layers' stores -/
structure Rel {n : Nat} (w : Wire) (l : List C06.Tx) (d : C08.Disk n) : Prop where
  txs : d.txs = embList w l
  small : ∀ t ∈ l, Small t.ref
  nodup : (C06.refsOf l).Nodup

theorem mem_embList {w : Wire} {l : List C06.Tx} {y : C08.Tx} : y ∈ embList w l ↔ ∃ t ∈ l, y = embTx w t := by
  unfold embList
  simp only [List.mem_map, List.mem_reverse]
  constructor
  · rintro ⟨t, ht, rfl⟩; exact ⟨t, ht, rfl⟩
  · rintro ⟨t, ht, rfl⟩; exact ⟨t, ht, rfl⟩

variable {n : Nat}

theorem Rel.getTx {w : Wire} {l : List C06.Tx} {d : C08.Disk n} (R : Rel w l d) {p : Nat} {t : C06.Tx}
    (h : C06.findTx l p = some t) : d.getTx (embRef p) = some (embTx w t) := by
  obtain ⟨hr, hm⟩ := C06.findTx_some_ref h
  unfold C08.Disk.getTx
  rw [R.txs]
  apply find?_unique
  · exact mem_embList.mpr ⟨t, hm, rfl⟩
  · simp [hr]
  · intro y hy hq
    obtain ⟨t', ht', rfl⟩ := mem_embList.mp hy
    have e : embRef t'.ref = embRef p := by simpa using hq
    have : t'.ref = t.ref := by
      rw [hr]; exact embRef_inj (R.small t' ht') (by rw [← hr]; exact R.small t hm) e
    rw [eq_of_ref R.nodup ht' hm this]

theorem Rel.fresh {w : Wire} {l : List C06.Tx} {d : C08.Disk n} (R : Rel w l d) {r : Nat} (hs : Small r)
    (hf : r ∉ C06.refsOf l) : d.isPresent (embRef r) = false := by
  unfold C08.Disk.isPresent
  rw [R.txs, List.any_eq_false]
  intro y hy
  obtain ⟨t, ht, rfl⟩ := mem_embList.mp hy
  intro hq
  have e : embRef t.ref = embRef r := by simpa using hq
  have := embRef_inj (R.small t ht) hs e
  exact hf (by unfold C06.refsOf; exact List.mem_map.mpr ⟨t, ht, this⟩)

theorem Rel.present {w : Wire} {l : List C06.Tx} {d : C08.Disk n} (R : Rel w l d) {r : Nat}
    (hf : r ∈ C06.refsOf l) : d.isPresent (embRef r) = true := by
  unfold C08.Disk.isPresent
  rw [R.txs, List.any_eq_true]
  unfold C06.refsOf at hf
  obtain ⟨t, ht, rfl⟩ := List.mem_map.mp hf
  exact ⟨embTx w t, mem_embList.mpr ⟨t, ht, rfl⟩, by simp⟩

theorem Rel.loop {w : Wire} {l : List C06.Tx} {d : C08.Disk n} (R : Rel w l d) :
    ∀ (ps : List Nat) (h h' : Int), -1 ≤ h → C06.highest l ps h = .ok h' →
      d.verifyPrevsLoop (ps.map embRef) (h + 1).toNat = .ok (h' + 1).toNat := by
  intro ps
  induction ps with
  | nil => intro h h' _ e; simp [C06.highest] at e; subst e; rfl
  | cons p ps ih =>
    intro h h' hh e
    unfold C06.highest at e
    split at e
    · cases e
    · rename_i t ht
      simp only [List.map_cons, C08.Disk.verifyPrevsLoop, R.getTx ht]
      have := ih _ h' (by split <;> omega) e
      have hk : (if t.clock + 1 ≥ (h + 1).toNat then t.clock + 1 else (h + 1).toNat) =
          ((if (t.clock : Int) ≥ h then (t.clock : Int) else h) + 1).toNat := by
        split <;> split <;> omega
      rw [← hk] at this; exact this

theorem Rel.verifyPrevs {w : Wire} {l : List C06.Tx} {d : C08.Disk n} (R : Rel w l d) {tx : C06.Tx}
    (h : C06.verifyPrevs l tx = .ok ()) : d.verifyPrevs (embTx w tx) = .ok () := by
  unfold C06.verifyPrevs at h
  split at h
  · rename_i hh hk
    split at h
    · cases h
    · rename_i hc
      have := R.loop tx.prevs (-1) hh (by omega) hk
      unfold C08.Disk.verifyPrevs
      simp only [embTx_prevs, embTx_clock]
      have h0 : ((-1 : Int) + 1).toNat = 0 := rfl
      rw [h0] at this
      rw [this]
      have : ¬ (tx.clock ≠ (hh + 1).toNat) := by omega
      simp [this]
  · cases h
  · cases h



theorem embList_cons (w : Wire) (t : C06.Tx) (l : List C06.Tx) : embList w (t :: l) = embList w l ++ [embTx w t] := by
  simp [embList]

/-- the root rule of the two models agrees on related stores -/
theorem Rel.rootCond {w : Wire} {l : List C06.Tx} {d : C08.Disk n} (R : Rel w l d) (g : C08.GInv d) :
    (!((C08.getSorted 0 d.clocks).getD []).isEmpty) = C06.hasRoot l := by
  rw [g.idx 0, R.txs]
  cases hr : C06.hasRoot l with
  | false =>
    have := C06.hasRoot_false_iff.mp hr
    have : (embList w l).filter (fun t => t.clock == 0) = [] := by
      rw [List.filter_eq_nil_iff]
      intro y hy
      obtain ⟨t, ht, rfl⟩ := mem_embList.mp hy
      simpa using this t ht
    simp [this]
  | true =>
    unfold C06.hasRoot at hr
    obtain ⟨t, ht, hc⟩ := List.any_eq_true.mp hr
    have : embTx w t ∈ (embList w l).filter (fun t => t.clock == 0) :=
      List.mem_filter.mpr ⟨mem_embList.mpr ⟨t, ht, rfl⟩, by simpa using hc⟩
    cases hf : (embList w l).filter (fun t => t.clock == 0) with
    | nil => rw [hf] at this; cases this
    | cons a b => simp

/-- **the step**: a transaction C06 admits on top of `l` is accepted by C08's `add` on the related state, which stores
    exactly its image -/
theorem feed_admitted {cfg : C08.Cfg} (G : C08.Good cfg) {w : Wire} {l : List C06.Tx} {s : C08.State n}
    (h : C08.SInv cfg s) (R : Rel w l s.disk) {tx : C06.Tx} (hs : Small tx.ref) (hf : tx.ref ∉ C06.refsOf l)
    (hv : C06.verifyPrevs l tx = .ok ()) (hroot : tx.prevs = [] → C06.hasRoot l = false) :
    (C08.add cfg s (embTx w tx) {}).2 = .ok () ∧ C08.SInv cfg (feed cfg s (embTx w tx)) ∧
    Rel w (tx :: l) (feed cfg s (embTx w tx)).disk := by
  have hp := R.fresh hs hf
  have hv8 := R.verifyPrevs (w := w) hv
  have hcond : ((embTx w tx).prevs.isEmpty && !((C08.getSorted 0 s.disk.clocks).getD []).isEmpty) = false := by
    rw [R.rootCond h.g]
    cases hpe : tx.prevs with
    | nil => simp [hroot hpe]
    | cons a b => simp [hpe]
  have hok : (C08.add cfg s (embTx w tx) {}).2 = .ok () := by
    rcases C08.graphAdd_spec h.g hp hv8 with hr | ⟨d', hd, _⟩
    · exfalso
      simp only [C08.Disk.graphAdd] at hr
      rw [show s.disk.isPresent (embTx w tx).ref = false from hp] at hr
      simp only [Bool.false_eq_true, if_false, hcond] at hr
      cases hr
    · unfold C08.add
      rw [show s.disk.isPresent (embTx w tx).ref = false from hp]
      simp [hv8, hd, C08.putFailsIn]
  have a := h.add G (embTx w tx) {}
  refine ⟨hok, a.1, ?_⟩
  rcases a.2.2 hok with ⟨_, hpres⟩ | ⟨htxs, _⟩
  · rw [show s.disk.isPresent (embTx w tx).ref = false from hp] at hpres; cases hpres
  · refine ⟨?_, ?_, ?_⟩
    · show (C08.add cfg s (embTx w tx) {}).1.disk.txs = _
      rw [htxs, R.txs, embList_cons]
    · intro t ht
      rcases List.mem_cons.mp ht with rfl | ht
      · exact hs
      · exact R.small t ht
    · unfold C06.refsOf
      simp only [List.map_cons, List.nodup_cons]
      exact ⟨hf, R.nodup⟩



/-! ### whole histories -/

def build {n : Nat} (cfg : C08.Cfg) (w : Wire) (l : List C06.Tx) : C08.State n :=
  (embList w l).foldl (feed cfg) (C08.State.init cfg)

theorem build_cons (cfg : C08.Cfg) (w : Wire) (t : C06.Tx) (l : List C06.Tx) :
    (build cfg w (t :: l) : C08.State n) = feed cfg (build cfg w l) (embTx w t) := by
  simp [build, embList_cons, List.foldl_append]

theorem digests_eq_build (cfg : C08.Cfg) (w : Wire) (s : C06.St) : (digests cfg w s : C08.State n) = build cfg w s.txs := rfl

/-- feeding a C06 chain (each transaction admissible on top of the ones before it) to C08: every `add` succeeds -/
theorem build_chain {cfg : C08.Cfg} (G : C08.Good cfg) (w : Wire) {env : C06.Env} : ∀ (l : List C06.Tx),
    C06.ChainOK env l → (∀ t ∈ l, Small t.ref) →
    C08.SInv cfg (build cfg w l : C08.State n) ∧ Rel w l (build cfg w l : C08.State n).disk := by
  intro l
  induction l with
  | nil =>
    intro _ _
    exact ⟨C08.SInv.init cfg, ⟨rfl, fun _ h => (by cases h), by simp [C06.refsOf]⟩⟩
  | cons t rest ih =>
    intro hc hs
    obtain ⟨c1, c2, c3, _, c5⟩ := hc
    obtain ⟨i1, i2⟩ := ih c1 (fun x hx => hs x (List.mem_cons_of_mem _ hx))
    rw [build_cons]
    have := feed_admitted G i1 i2 (hs t List.mem_cons_self) c2 c3 c5
    exact ⟨this.2.1, this.2.2⟩

/-! ### the admission layer along deliveries -/

theorem deliver6_cases (a : Adm) (s : C06.St) (d : Delivery) :
    (deliver6 a s d).1 = s ∨
    ∃ tx p, tx.ref = d.ref ∧ (deliver6 a s d).2 = .ok () ∧ C06.Admitted a.env s tx p (deliver6 a s d).1 := by
  cases d with
  | bytes hd p =>
    simp only [deliver6, C06.offer]
    split
    · rename_i tx htx
      rcases @C06.add_cases a.env a.subs s tx p with h | h
      · exact Or.inl h
      · exact Or.inr ⟨tx, p, (C06.parse_wellFormed htx).ref, h.1, h.2⟩
    · exact Or.inl rfl
    · exact Or.inl rfl
  | tx tx p =>
    simp only [deliver6]
    rcases @C06.add_cases a.env a.subs s tx p with h | h
    · exact Or.inl h
    · exact Or.inr ⟨tx, p, rfl, h.1, h.2⟩

theorem deliver6_not_ok (a : Adm) (s : C06.St) (d : Delivery) (h : (deliver6 a s d).2 ≠ .ok ()) : (deliver6 a s d).1 = s := by
  rcases deliver6_cases a s d with e | ⟨_, _, _, hok, _⟩
  · exact e
  · exact absurd hok h

theorem deliver6_dup (a : Adm) (s : C06.St) (d : Delivery) (h : d.ref ∈ C06.refsOf s.txs) : (deliver6 a s d).1 = s := by
  rcases deliver6_cases a s d with e | ⟨tx, _, hr, _, ha⟩
  · exact e
  · exact absurd (hr ▸ h) ha.fresh

theorem inv_deliver6 (a : Adm) {s : C06.St} (hi : C06.Inv a.env s) (d : Delivery) : C06.Inv a.env (deliver6 a s d).1 := by
  cases d with
  | bytes hd p =>
    simp only [deliver6, C06.offer]
    split
    · exact C06.inv_add hi
    · exact hi
    · exact hi
  | tx tx p => exact C06.inv_add hi

/-- the invariant of the admission layer's reachable states, with the size of the refs -/
structure Inv6 (a : Adm) (s : C06.St) : Prop where
  inv : C06.Inv a.env s
  small : ∀ t ∈ s.txs, Small t.ref

theorem Inv6.step {a : Adm} {s : C06.St} (h : Inv6 a s) (d : Delivery) (hd : Small d.ref) : Inv6 a (step6 a s d) := by
  refine ⟨inv_deliver6 a h.inv d, ?_⟩
  unfold step6
  rcases deliver6_cases a s d with e | ⟨tx, p, hr, _, ha⟩
  · rw [e]; exact h.small
  · rw [ha.txs]
    intro t ht
    rcases List.mem_cons.mp ht with rfl | ht
    · rw [hr]; exact hd
    · exact h.small t ht

theorem Inv6.run {a : Adm} : ∀ (ds : List Delivery) {s : C06.St}, Inv6 a s → (∀ d ∈ ds, Small d.ref) →
    Inv6 a (ds.foldl (step6 a) s) := by
  intro ds
  induction ds with
  | nil => intro s h _; exact h
  | cons d t ih =>
    intro s h hs
    exact ih (h.step d (hs d List.mem_cons_self)) (fun x hx => hs x (List.mem_cons_of_mem _ hx))

theorem Inv6.empty (a : Adm) : Inv6 a {} := ⟨C06.inv_empty a.env, fun _ h => (by cases h)⟩

theorem inv6_run6 (a : Adm) (ds : List Delivery) (hs : ∀ d ∈ ds, Small d.ref) : Inv6 a (run6 a ds) :=
  Inv6.run ds (Inv6.empty a) hs

/-! ### the composed node -/

/-- the node invariant: the digest state is exactly what feeding the admitted list yields -/
def NodeOK {n : Nat} (a : Adm) (cfg8 : C08.Cfg) (w : Wire) (nd : Node n) : Prop :=
  Inv6 a nd.st ∧ nd.dg = digests cfg8 w nd.st

theorem newTxs_same {old new : C06.St} (h : new = old) : newTxs old new = [] := by
  subst h; simp [newTxs]

theorem newTxs_cons {old new : C06.St} {tx : C06.Tx} (h : new.txs = tx :: old.txs) : newTxs old new = [tx] := by
  simp [newTxs, h]

theorem Node.step_st (a : Adm) (cfg8 : C08.Cfg) (w : Wire) (nd : Node n) (d : Delivery) :
    (nd.step a cfg8 w d).st = step6 a nd.st d := rfl

theorem NodeOK.step {a : Adm} {cfg8 : C08.Cfg} {w : Wire} {nd : Node n} (h : NodeOK a cfg8 w nd) (d : Delivery)
    (hd : Small d.ref) : NodeOK a cfg8 w (nd.step a cfg8 w d) := by
  refine ⟨h.1.step d hd, ?_⟩
  show (embList w (newTxs nd.st (deliver6 a nd.st d).1)).foldl (feed cfg8) nd.dg = digests cfg8 w (deliver6 a nd.st d).1
  rcases deliver6_cases a nd.st d with e | ⟨tx, p, _, _, ha⟩
  · rw [newTxs_same e, e]; exact h.2
  · rw [newTxs_cons ha.txs, digests_eq_build, ha.txs, build_cons, ← digests_eq_build, ← h.2]
    simp [embList]

theorem NodeOK.init (a : Adm) (cfg8 : C08.Cfg) (w : Wire) : NodeOK a cfg8 w (Node.init cfg8 : Node n) :=
  ⟨Inv6.empty a, rfl⟩

theorem NodeOK.run {a : Adm} {cfg8 : C08.Cfg} {w : Wire} : ∀ (ds : List Delivery) {nd : Node n}, NodeOK a cfg8 w nd →
    (∀ d ∈ ds, Small d.ref) → NodeOK a cfg8 w (ds.foldl (Node.step a cfg8 w) nd) := by
  intro ds
  induction ds with
  | nil => intro nd h _; exact h
  | cons d t ih =>
    intro nd h hs
    exact ih (h.step d (hs d List.mem_cons_self)) (fun x hx => hs x (List.mem_cons_of_mem _ hx))

theorem run_st (a : Adm) (cfg8 : C08.Cfg) (w : Wire) : ∀ (ds : List Delivery) (nd : Node n),
    (ds.foldl (Node.step a cfg8 w) nd).st = ds.foldl (step6 a) nd.st := by
  intro ds
  induction ds with
  | nil => intro nd; rfl
  | cons d t ih => intro nd; simp only [List.foldl_cons]; rw [ih]; rfl

/-- what `NodeOK` gives: the digest state satisfies C08's invariant and stores exactly the image of the admitted list -/
theorem NodeOK.sinv {a : Adm} {cfg8 : C08.Cfg} (G : C08.Good cfg8) {w : Wire} {nd : Node n} (h : NodeOK a cfg8 w nd) :
    C08.SInv cfg8 nd.dg ∧ Rel w nd.st.txs nd.dg.disk := by
  rw [h.2, digests_eq_build]
  exact build_chain G w nd.st.txs h.1.inv.chain h.1.small


section ProtoView
open Nuts.Proto Nuts.Proto.L
/-! ## the gossip protocol's view (C07) -/

@[simp] theorem viewTx_ref (w : Wire) (env : C06.Env) (t : C06.Tx) : (viewTx w env t).ref = t.ref := rfl
@[simp] theorem viewTx_clock (w : Wire) (env : C06.Env) (t : C06.Tx) : (viewTx w env t).clock = t.clock := rfl
@[simp] theorem viewTx_prevs (w : Wire) (env : C06.Env) (t : C06.Tx) : (viewTx w env t).prevs = t.prevs := rfl
@[simp] theorem viewTx_sigOK (w : Wire) (env : C06.Env) (t : C06.Tx) :
    (viewTx w env t).sigOK = decide (C06.verifySig env t = .ok ()) := rfl

def viewL (w : Wire) (env : C06.Env) (l : List C06.Tx) : List Proto.Tx := l.map (viewTx w env)

theorem getTx_viewL (w : Wire) (env : C06.Env) (p : Nat) : ∀ (l : List C06.Tx),
    Proto.getTx (viewL w env l) p = (C06.findTx l p).map (viewTx w env) := by
  intro l
  induction l with
  | nil => rfl
  | cons a t ih =>
    unfold Proto.getTx C06.findTx viewL at *
    simp only [List.map_cons, List.find?]
    by_cases h : a.ref = p
    · simp [h]
    · have hb : (a.ref == p) = false := by simpa using h
      simp [h, hb, ih]

theorem present_viewL (w : Wire) (env : C06.Env) (r : Nat) (l : List C06.Tx) :
    Proto.present (viewL w env l) r = decide (r ∈ C06.refsOf l) := by
  unfold Proto.present viewL C06.refsOf
  induction l with
  | nil => simp
  | cons a t ih =>
    simp only [List.map_cons, List.any_cons, ih, List.mem_cons]
    by_cases h : a.ref = r
    · simp [h]
    · have : ¬ r = a.ref := fun e => h e.symm
      simp [h, this]

/-- C06's prev loop and C07's `expectedClock` compute the same maximum -/
theorem highest_fold (w : Wire) (env : C06.Env) (l : List C06.Tx) : ∀ (ps : List Nat) (h h' : Int),
    C06.highest l ps h = .ok h' →
    (ps.filterMap (Proto.getTx (viewL w env l))).foldl Proto.lcStep h.toNat = h'.toNat ∧
    (ps.filterMap (Proto.getTx (viewL w env l))).length = ps.length := by
  intro ps
  induction ps with
  | nil => intro h h' e; simp [C06.highest] at e; subst e; simp
  | cons p ps ih =>
    intro h h' e
    unfold C06.highest at e
    split at e
    · cases e
    · rename_i t ht
      have := ih _ h' e
      simp only [List.filterMap_cons, getTx_viewL, ht, Option.map_some, List.foldl_cons, List.length_cons]
      refine ⟨?_, by rw [this.2]⟩
      have hk : Proto.lcStep h.toNat (viewTx w env t) = (if (t.clock : Int) ≥ h then (t.clock : Int) else h).toNat := by
        unfold Proto.lcStep
        simp only [viewTx_clock]
        by_cases h1 : h.toNat < t.clock <;> by_cases h2 : (t.clock : Int) ≥ h <;> simp only [h1, h2, if_true, if_false] <;> omega
      rw [hk]; exact this.1

theorem expectedClock_view (w : Wire) (env : C06.Env) {l : List C06.Tx} {tx : C06.Tx}
    (h : C06.verifyPrevs l tx = .ok ()) : tx.clock = Proto.expectedClock (viewL w env l) tx.prevs := by
  have spec := C06.verifyPrevs_spec h
  unfold C06.verifyPrevs at h
  split at h
  · rename_i hh hk
    split at h
    · cases h
    · rename_i hc
      obtain ⟨f1, f2⟩ := highest_fold w env l tx.prevs (-1) hh hk
      unfold Proto.expectedClock
      cases hps : tx.prevs with
      | nil => simp; exact spec.2.1 hps
      | cons p ps =>
        rw [hps] at f1 f2
        cases hF : (p :: ps).filterMap (Proto.getTx (viewL w env l)) with
        | nil => rw [hF] at f2; simp at f2
        | cons x xs =>
          simp only
          rw [← hF]
          have : Proto.lcOf ((p :: ps).filterMap (Proto.getTx (viewL w env l))) = hh.toNat := f1
          rw [this]
          obtain ⟨u, _, _, hu⟩ := spec.2.2 (by rw [hps]; simp)
          omega
  · cases h
  · cases h

/-- **C06's chain invariant is C07's `DagOK`** on the protocol's view of the admitted list -/
theorem dagOK_view (w : Wire) (env : C06.Env) : ∀ (l : List C06.Tx), C06.ChainOK env l → DagOK (viewL w env l) := by
  intro l
  induction l with
  | nil => intro _; exact DagOK.nil
  | cons t rest ih =>
    intro hc
    obtain ⟨c1, c2, c3, c4, c5⟩ := hc
    show DagOK (viewTx w env t :: viewL w env rest)
    refine DagOK.cons _ _ (ih c1) (by simp [c4]) ?_ ?_ ?_ ?_
    · rw [viewTx_ref, present_viewL]; simpa using c2
    · intro p hp
      obtain ⟨u, hu, hr, _⟩ := (C06.verifyPrevs_spec c3).1 p hp
      rw [present_viewL]
      simp only [decide_eq_true_eq]
      unfold C06.refsOf
      exact List.mem_map.mpr ⟨u, hu, hr⟩
    · exact expectedClock_view w env c3
    · intro hp x hx
      obtain ⟨u, hu, rfl⟩ := List.mem_map.mp hx
      exact C06.hasRoot_false_iff.mp (c5 hp) u hu



/-! ### C07's decision of `state.Add` is C06's -/

theorem expectedClock_of_highest (w : Wire) (env : C06.Env) {l : List C06.Tx} {ps : List Nat} {hh : Int}
    (hk : C06.highest l ps (-1) = .ok hh) : Proto.expectedClock (viewL w env l) ps = (hh + 1).toNat := by
  obtain ⟨f1, f2⟩ := highest_fold w env l ps (-1) hh hk
  obtain ⟨s1, s2, _⟩ := C06.highest_spec hk
  unfold Proto.expectedClock
  cases hps : ps with
  | nil => subst hps; simp [C06.highest] at hk; subst hk; rfl
  | cons p ps' =>
    rw [hps] at f1 f2
    cases hF : (p :: ps').filterMap (Proto.getTx (viewL w env l)) with
    | nil => rw [hF] at f2; simp at f2
    | cons x xs =>
      simp only
      rw [← hF]
      have : Proto.lcOf ((p :: ps').filterMap (Proto.getTx (viewL w env l))) = hh.toNat := f1
      rw [this]
      obtain ⟨u, _, hu⟩ := s2 p (by rw [hps]; exact List.mem_cons_self)
      omega

theorem verifyPrevs_iff (w : Wire) (env : C06.Env) (l : List C06.Tx) (tx : C06.Tx) :
    C06.verifyPrevs l tx = .ok () ↔
      ((∀ p ∈ tx.prevs, Proto.present (viewL w env l) p = true) ∧ tx.clock = Proto.expectedClock (viewL w env l) tx.prevs) := by
  constructor
  · intro h
    refine ⟨?_, expectedClock_view w env h⟩
    intro p hp
    obtain ⟨u, hu, hr, _⟩ := (C06.verifyPrevs_spec h).1 p hp
    rw [present_viewL]
    simp only [decide_eq_true_eq]
    unfold C06.refsOf
    exact List.mem_map.mpr ⟨u, hu, hr⟩
  · rintro ⟨h1, h2⟩
    have hall : ∀ p ∈ tx.prevs, ∃ u, C06.findTx l p = some u := by
      intro p hp
      have := h1 p hp
      rw [present_viewL] at this
      simp only [decide_eq_true_eq] at this
      have := C06.findTx_isSome_iff.mpr this
      exact Option.isSome_iff_exists.mp this
    obtain ⟨hh, hk⟩ := C06.highest_total (-1) hall
    have he := expectedClock_of_highest w env hk
    have hge := (C06.highest_spec hk).1
    unfold C06.verifyPrevs
    rw [hk]
    have : ¬ ((tx.clock : Int) ≠ hh + 1) := by omega
    simp [this]

/-- **The two models of `state.Add`'s decision agree.** C07's `addCheck` on the protocol's view says `added` exactly when
    C06's `add` stores the transaction. -/
theorem addCheck_added_iff (w : Wire) (env : C06.Env) (subs : List C06.Sub) (s : C06.St) (tx : C06.Tx) (p : Option Nat) :
    Proto.addCheck (viewL w env s.txs) (viewTx w env tx) (p.map (viewPayload env.sha)) = .added ↔
      (C06.add env subs s tx p).1.txs = tx :: s.txs := by
  constructor
  · intro h
    obtain ⟨a1, a2, a3, a4, a5, a6⟩ := addCheck_added h
    simp only [viewTx_sigOK, decide_eq_true_eq] at a1
    rw [viewTx_ref, present_viewL] at a2
    simp only [decide_eq_false_iff_not] at a2
    have hv := (verifyPrevs_iff w env s.txs tx).mpr ⟨a3, a4⟩
    refine (C06.add_success a2 hv a1 ?_ ?_).2
    · intro hp
      apply C06.hasRoot_false_iff.mpr
      intro t ht
      exact a5 hp (viewTx w env t) (List.mem_map.mpr ⟨t, ht, rfl⟩)
    · intro x hx
      have := a6 (viewPayload env.sha x) (by rw [hx]; rfl)
      exact this
  · intro h
    rcases @C06.add_cases env subs s tx p with e | ⟨_, ha⟩
    · rw [e] at h
      have := congrArg List.length h
      simp at this
    · have hv := (verifyPrevs_iff w env s.txs tx).mp ha.prevsOK
      unfold Proto.addCheck
      have h1 : Proto.present (viewL w env s.txs) (viewTx w env tx).ref = false := by
        rw [viewTx_ref, present_viewL]; simpa using ha.fresh
      have h2 : (viewTx w env tx).prevs.all (Proto.present (viewL w env s.txs)) = true := by
        rw [List.all_eq_true]; exact hv.1
      have h3 : ((viewTx w env tx).clock != Proto.expectedClock (viewL w env s.txs) (viewTx w env tx).prevs) = false := by
        simp only [viewTx_clock, viewTx_prevs]; rw [← hv.2]; simp
      have h4 : (viewTx w env tx).sigOK = true := by simp [ha.sigOK]
      have h5 : Proto.payloadMismatch (p.map (viewPayload env.sha)) (viewTx w env tx) = false := by
        unfold Proto.payloadMismatch
        cases p with
        | none => rfl
        | some q =>
          have := ha.payloadOK q rfl
          simp only [Option.map_some]
          show ((viewPayload env.sha q).sha != tx.payloadHash) = false
          show (env.sha q != tx.payloadHash) = false
          simp [this]
      have h6 : ((viewTx w env tx).prevs.isEmpty && (viewL w env s.txs).any (fun t => t.clock == 0)) = false := by
        cases hp : tx.prevs with
        | cons a b => simp [hp]
        | nil =>
          have := C06.hasRoot_false_iff.mp (ha.rootOK hp)
          simp only [viewTx_prevs, hp, List.isEmpty_nil, Bool.true_and]
          rw [List.any_eq_false]
          intro x hx
          obtain ⟨u, hu, rfl⟩ := List.mem_map.mp hx
          simpa using this u hu
      simp only [h1, h2, h3, h4, h5, h6, Bool.not_true, Bool.false_eq_true, if_false]

/-! ### the digests the protocol exchanges -/

theorem xorOf_view_fold (w : Wire) (env : C06.Env) : ∀ (l : List C06.Tx) (a : Nat),
    (viewL w env l).foldl Proto.xorStep a = a ^^^ C06.xorAll l := by
  intro l
  induction l with
  | nil => intro a; simp [viewL, C06.xorAll]
  | cons t r ih =>
    intro a
    show (viewL w env r).foldl Proto.xorStep (Proto.xorStep a (viewTx w env t)) = _
    rw [ih]
    simp only [Proto.xorStep, viewTx_ref, C06.xorAll]
    rw [Nat.xor_assoc, Nat.xor_comm t.ref]

theorem xorOf_view (w : Wire) (env : C06.Env) (l : List C06.Tx) : Proto.xorOf (viewL w env l) = C06.xorAll l := by
  unfold Proto.xorOf
  rw [xorOf_view_fold]; simp

theorem specAll_xor_embList (w : Wire) : ∀ (l : List C06.Tx),
    C08.specAll C08.xorOps (C08.refClocks (embList w l)) = embRef (C06.xorAll l) := by
  intro l
  induction l with
  | nil => rfl
  | cons t r ih =>
    rw [embList_cons, C08.refClocks_snoc, C08.specAll_snoc, ih]
    simp only [C06.xorAll, embRef, BitVec.ofNat_xor]
    rfl

theorem lcOf_view_fold (w : Wire) (env : C06.Env) : ∀ (l : List C06.Tx) (a : Nat),
    (viewL w env l).foldl Proto.lcStep a = max a (C06.maxClock l) := by
  intro l
  induction l with
  | nil => intro a; simp [viewL, C06.maxClock]
  | cons t r ih =>
    intro a
    show (viewL w env r).foldl Proto.lcStep (Proto.lcStep a (viewTx w env t)) = _
    rw [ih]
    simp only [Proto.lcStep, viewTx_clock, C06.maxClock]
    by_cases hlt : a < t.clock <;> simp only [hlt, if_true, if_false] <;> omega

theorem lcOf_view (w : Wire) (env : C06.Env) (l : List C06.Tx) : Proto.lcOf (viewL w env l) = C06.maxClock l := by
  unfold Proto.lcOf
  rw [lcOf_view_fold]; simp

theorem maxClock_embList (w : Wire) : ∀ (l : List C06.Tx), C08.maxClock (embList w l) = C06.maxClock l := by
  intro l
  induction l with
  | nil => rfl
  | cons t r ih =>
    rw [embList_cons, C08.maxClock_snoc, ih]
    simp only [C06.maxClock, embTx_clock]
    omega



theorem specUpTo_snoc {R G : Type} (o : C08.Ops R G) (ls : Nat) (l : List (R × Nat)) (rc : R × Nat) (c : Nat) :
    C08.specUpTo o ls (l ++ [rc]) c =
      if rc.2 / ls ≤ c / ls then o.ins (C08.specUpTo o ls l c) rc.1 else C08.specUpTo o ls l c := by
  unfold C08.specUpTo
  rw [List.filter_append]
  by_cases h : rc.2 / ls ≤ c / ls
  · simp [h, C08.specAll_snoc]
  · simp [h]

/-- the IBLT C08 returns for a clock is the IBLT of exactly the ref set C07 abstracts `State.IBLT(lc)` as -/
theorem iblt_of_ibltSet (n : Nat) (w : Wire) (env : C06.Env) (cfg7 : Proto.Cfg) (c : Nat) : ∀ (l : List C06.Tx),
    C08.specUpTo (C08.ibltOps n) cfg7.pageSize (C08.keyClocks (embList w l)) c =
      ibltOfSet n w (Proto.ibltSet cfg7 (viewL w env l) c) := by
  intro l
  induction l with
  | nil => rfl
  | cons t r ih =>
    rw [embList_cons, C08.keyClocks_snoc, specUpTo_snoc, ih]
    simp only [embTx_clock, embTx_ikey, Proto.ibltSet, viewL, List.map_cons, List.filter_cons, viewTx_clock, Proto.pageOf]
    by_cases h : t.clock / cfg7.pageSize ≤ c / cfg7.pageSize
    · simp [h, ibltOfSet]
    · simp [h]

theorem skeleton_view (w : Wire) (env : C06.Env) {l : List C06.Tx} {s : C08.State n} (R : Rel w l s.disk)
    (hp : ∀ t ∈ l, ∀ p ∈ t.prevs, Small p) :
    (viewOfDigests s).map skeleton = (viewL w env l).map skeleton := by
  unfold viewOfDigests viewL
  rw [R.txs, embList, ← List.map_reverse, List.reverse_reverse, List.map_map, List.map_map, List.map_map]
  apply List.map_congr_left
  intro t ht
  simp only [Function.comp, skeleton, embTx_ref, embTx_clock, embTx_prevs, viewTx_ref, viewTx_clock, viewTx_prevs]
  rw [embRef_toNat (R.small t ht), List.map_map]
  congr 2
  have : ∀ (ps : List Nat), (∀ p ∈ ps, Small p) → ps.map ((fun x : C08.Ref => x.toNat) ∘ embRef) = ps := by
    intro ps
    induction ps with
    | nil => intro _; rfl
    | cons a b ih =>
      intro h
      simp only [List.map_cons, Function.comp]
      rw [embRef_toNat (h a List.mem_cons_self)]
      congr 1
      exact ih (fun p hp => h p (List.mem_cons_of_mem _ hp))
  exact this t.prevs (hp t ht)

/-! ### the clock-ordered listing (C07 `findBetween` / C08 `findBetweenLC`) -/

/-- the (clock, ref) order on C06 transactions -/
def lt6 (x y : C06.Tx) : Bool := x.clock < y.clock || (x.clock == y.clock && x.ref < y.ref)
def win6 (a b : Nat) (t : C06.Tx) : Bool := decide (a ≤ t.clock ∧ t.clock < b)

theorem lt6_asymm (a b : C06.Tx) (h : lt6 a b = true) : lt6 b a = false := by
  simp only [lt6, Bool.or_eq_true, Bool.and_eq_true, decide_eq_true_eq, beq_iff_eq] at h
  simp only [lt6, Bool.or_eq_false_iff, Bool.and_eq_false_iff, decide_eq_false_iff_not, beq_eq_false_iff_ne]
  omega

theorem lt6_trans (a b c : C06.Tx) (h1 : lt6 b a = false) (h2 : lt6 c b = false) : lt6 c a = false := by
  simp only [lt6, Bool.or_eq_false_iff, Bool.and_eq_false_iff, decide_eq_false_iff_not, beq_eq_false_iff_ne] at *
  omega

theorem listing_view (w : Wire) (env : C06.Env) {l : List C06.Tx} (hs : ∀ t ∈ l, Small t.ref) (nd : (C06.refsOf l).Nodup)
    (a b : Nat) :
    C08.specListing (embList w l) a b = (Proto.findBetween (viewL w env l) a b).map (fun t => embRef t.ref) := by
  have hsub : ∀ x ∈ l.filter (win6 a b), x ∈ l := fun x hx => (List.mem_filter.mp hx).1
  -- C08 side
  have h8 : C08.specListing (embList w l) a b = ((sortBy lt6 ((l.filter (win6 a b)).reverse)).map (embTx w)).map (·.ref) := by
    unfold C08.specListing embList
    rw [List.filter_map, List.filter_reverse]
    congr 1
    have : ((fun t : C08.Tx => decide (a ≤ t.clock ∧ t.clock < b)) ∘ embTx w) = win6 a b := rfl
    rw [this]
    apply C08.sortBy_map
    intro x hx y hy
    have hx' := hsub x (List.mem_reverse.mp hx)
    have hy' := hsub y (List.mem_reverse.mp hy)
    simp only [C08.txLt, embTx_clock, embTx_ref, embRef_toNat (hs x hx'), embRef_toNat (hs y hy')]
    rfl
  -- C07 side
  have h7 : Proto.findBetween (viewL w env l) a b = (sortBy lt6 (l.filter (win6 a b))).map (viewTx w env) := by
    unfold Proto.findBetween viewL
    rw [List.filter_map]
    have : ((fun t : Proto.Tx => decide (a ≤ t.clock) && decide (t.clock < b)) ∘ viewTx w env) = win6 a b := by
      funext t; simp only [win6, Function.comp, viewTx_clock, Bool.decide_and]; rfl
    rw [this]
    apply C08.sortBy_map
    intro x _ y _
    rfl
  rw [h8, h7]
  have hperm : sortBy lt6 ((l.filter (win6 a b)).reverse) = sortBy lt6 (l.filter (win6 a b)) := by
    apply sortBy_eq_of_perm lt6 lt6_asymm lt6_trans (List.reverse_perm _)
    intro x hx y hy h1 h2
    have hx' := hsub x (List.mem_reverse.mp hx)
    have hy' := hsub y (List.mem_reverse.mp hy)
    apply eq_of_ref nd hx' hy'
    simp only [lt6, Bool.or_eq_false_iff, Bool.and_eq_false_iff, decide_eq_false_iff_not, beq_eq_false_iff_ne] at h1 h2
    omega
  rw [hperm, List.map_map, List.map_map]
  rfl

/-! ### the other doors of the admission layer -/

/-- a TransactionList is a sequence of single deliveries: `handleList` ends in the state reached by delivering a prefix of
    its items one by one -/
theorem handleList_prefix (a : Adm) : ∀ (items : List C06.Item) (s : C06.St),
    ∃ k, k ≤ items.length ∧
      (C06.handleList a.env a.subs s items).1 = ((items.take k).map (fun it => Delivery.tx it.tx it.payload)).foldl (step6 a) s := by
  intro items
  induction items with
  | nil => intro s; exact ⟨0, Nat.le_refl _, rfl⟩
  | cons it rest ih =>
    intro s
    unfold C06.handleList
    split
    · exact ⟨0, Nat.zero_le _, rfl⟩
    · split
      · rename_i s' _ hadd
        obtain ⟨k, hk, e⟩ := ih s'
        refine ⟨k + 1, by simp; omega, ?_⟩
        rw [e]
        simp only [List.take_succ_cons, List.map_cons, List.foldl_cons]
        have : step6 a s (.tx it.tx it.payload) = s' := by
          show (C06.add a.env a.subs s it.tx it.payload).1 = s'
          rw [hadd]
        rw [this]
      · rename_i s' e hadd
        refine ⟨1, by simp, ?_⟩
        have : step6 a s (.tx it.tx it.payload) = s' := by
          show (C06.add a.env a.subs s it.tx it.payload).1 = s'
          rw [hadd]
        split <;> simp [this]
      · rename_i s' e hadd
        refine ⟨1, by simp, ?_⟩
        have : step6 a s (.tx it.tx it.payload) = s' := by
          show (C06.add a.env a.subs s it.tx it.payload).1 = s'
          rw [hadd]
        simp [this]

theorem latePayload_txs (a : Adm) (s : C06.St) (ref p : Nat) : (C06.latePayload a.env a.subs s ref p).1.txs = s.txs := by
  unfold C06.latePayload
  split
  · rfl
  · split <;> rfl



/-- conversely: C07's `DagOK` on a view is C06's chain invariant on the list -/
theorem chainOK_of_dagOK_view (w : Wire) (env : C06.Env) : ∀ (l : List C06.Tx), DagOK (viewL w env l) → C06.ChainOK env l := by
  intro l
  induction l with
  | nil => intro _; trivial
  | cons t rest ih =>
    intro h
    have h' : DagOK (viewTx w env t :: viewL w env rest) := h
    cases h' with
    | cons _ _ hrest hsig hnew hprev hclk hroot =>
      refine ⟨ih hrest, ?_, ?_, ?_, ?_⟩
      · rw [viewTx_ref, present_viewL] at hnew
        simpa using hnew
      · exact (verifyPrevs_iff w env rest t).mpr ⟨hprev, hclk⟩
      · simpa using hsig
      · intro hp
        apply C06.hasRoot_false_iff.mpr
        intro u hu
        exact hroot hp (viewTx w env u) (List.mem_map.mpr ⟨u, hu, rfl⟩)

theorem preimage_of_view (w : Wire) (env : C06.Env) (U6 : List C06.Tx) : ∀ (d : List Proto.Tx),
    (∀ t ∈ d, t ∈ U6.map (viewTx w env)) → ∃ l, d = viewL w env l ∧ ∀ u ∈ l, u ∈ U6 := by
  intro d
  induction d with
  | nil => intro _; exact ⟨[], rfl, fun _ h => (by cases h)⟩
  | cons t rest ih =>
    intro h
    obtain ⟨l, hl, hu⟩ := ih (fun x hx => h x (List.mem_cons_of_mem _ hx))
    obtain ⟨u, hu6, rfl⟩ := List.mem_map.mp (h t List.mem_cons_self)
    refine ⟨u :: l, by rw [hl]; rfl, ?_⟩
    intro x hx
    rcases List.mem_cons.mp hx with rfl | hx
    · exact hu6
    · exact hu x hx


theorem small_xorAll : ∀ (l : List C06.Tx), (∀ t ∈ l, Small t.ref) → Small (C06.xorAll l) := by
  intro l
  induction l with
  | nil => intro _; show (0 : Nat) < 2 ^ 256; exact Nat.two_pow_pos 256
  | cons t r ih =>
    intro h
    exact Nat.xor_lt_two_pow (ih (fun x hx => h x (List.mem_cons_of_mem _ hx))) (h t List.mem_cons_self)


end ProtoView


/-! ### the head, the prev verifier and the structural decision of `Add`: C06 and C08 agree -/


/-- the head the digest layer records after an admitted transaction: C08's rule on C08's own highest clock -/
theorem feed_head {cfg : C08.Cfg} {w : Wire} {l : List C06.Tx} {s : C08.State n}
    (h : C08.SInv cfg s) (R : Rel w l s.disk) {tx : C06.Tx} (hs : Small tx.ref) (hf : tx.ref ∉ C06.refsOf l)
    (hv : C06.verifyPrevs l tx = .ok ()) (hroot : tx.prevs = [] → C06.hasRoot l = false) :
    (feed cfg s (embTx w tx)).disk.head =
      if tx.clock > s.disk.lcHigh ∨ tx.clock = 0 then some (embRef tx.ref) else s.disk.head := by
  have hp := R.fresh hs hf
  have hv8 := R.verifyPrevs (w := w) hv
  have hcond : ((embTx w tx).prevs.isEmpty && !((C08.getSorted 0 s.disk.clocks).getD []).isEmpty) = false := by
    rw [R.rootCond h.g]
    cases hpe : tx.prevs with
    | nil => simp [hroot hpe]
    | cons a b => simp [hpe]
  unfold feed C08.add
  rw [show s.disk.isPresent (embTx w tx).ref = false from hp]
  simp only [Bool.false_eq_true, if_false, hv8]
  simp only [C08.Disk.graphAdd, show s.disk.isPresent (embTx w tx).ref = false from hp, hcond, Bool.false_eq_true, if_false]
  simp [C08.putFailsIn, C08.updateState, C08.Disk.indexClock]
  by_cases hc : tx.clock > s.disk.lcHigh ∨ tx.clock = 0
  · rcases hc with hc | hc <;> simp [hc]
  · have h1 : ¬ tx.clock > s.disk.lcHigh := fun e => hc (Or.inl e)
    have h2 : ¬ tx.clock = 0 := fun e => hc (Or.inr e)
    simp [h1, h2]
    split <;> rfl

/-- the two layers record the same head -/
def HeadOK (nd : Node n) : Prop :=
  (nd.st.txs = [] ∧ nd.dg.disk.head = none) ∨ (nd.st.txs ≠ [] ∧ nd.dg.disk.head = some (embRef nd.st.head))

theorem HeadOK.step {a : Adm} {cfg8 : C08.Cfg} (G : C08.Good cfg8) {w : Wire} {nd : Node n} (hn : NodeOK a cfg8 w nd)
    (hh : HeadOK nd) (d : Delivery) (hd : Small d.ref) : HeadOK (nd.step a cfg8 w d) := by
  obtain ⟨hsinv, hrel⟩ := hn.sinv G
  have hlc : nd.dg.disk.lcHigh = nd.st.lcHigh := by
    rw [hsinv.g.lc, hrel.txs, maxClock_embList, hn.1.inv.lcHigh]
  rcases deliver6_cases a nd.st d with e | ⟨tx, p, hr, _, ha⟩
  · have : nd.step a cfg8 w d = { st := (deliver6 a nd.st d).1, dg := nd.dg } := by
      show ({ st := (deliver6 a nd.st d).1, dg := (embList w (newTxs nd.st (deliver6 a nd.st d).1)).foldl (feed cfg8) nd.dg } : Node n) = _
      rw [newTxs_same e]; rfl
    rw [this]
    unfold HeadOK
    simp only [e]
    exact hh
  · have hdg : (nd.step a cfg8 w d).dg = feed cfg8 nd.dg (embTx w tx) := by
      show (embList w (newTxs nd.st (deliver6 a nd.st d).1)).foldl (feed cfg8) nd.dg = _
      rw [newTxs_cons ha.txs]; simp [embList]
    have hst : (nd.step a cfg8 w d).st = (deliver6 a nd.st d).1 := rfl
    right
    refine ⟨by rw [hst, ha.txs]; simp, ?_⟩
    rw [hdg, hst, feed_head hsinv hrel (hr ▸ hd) ha.fresh ha.prevsOK ha.rootOK, ha.head, hlc]
    by_cases hc : tx.clock > nd.st.lcHigh ∨ tx.clock = 0
    · simp only [hc, if_true]
    · simp only [hc, if_false]
      rcases hh with ⟨he, _⟩ | ⟨_, hh⟩
      · exfalso
        have h0 : nd.st.lcHigh = 0 := by rw [hn.1.inv.lcHigh, he]; rfl
        have hp : tx.prevs = [] := by
          cases hps : tx.prevs with
          | nil => rfl
          | cons q qs =>
            obtain ⟨u, hu, _⟩ := (C06.verifyPrevs_spec ha.prevsOK).1 q (by rw [hps]; exact List.mem_cons_self)
            rw [he] at hu; cases hu
        exact hc (Or.inr ((C06.verifyPrevs_spec ha.prevsOK).2.1 hp))
      · exact hh

theorem headOK_run {a : Adm} {cfg8 : C08.Cfg} (G : C08.Good cfg8) {w : Wire} : ∀ (ds : List Delivery) {nd : Node n},
    NodeOK a cfg8 w nd → HeadOK nd → (∀ d ∈ ds, Small d.ref) → HeadOK (ds.foldl (Node.step a cfg8 w) nd) := by
  intro ds
  induction ds with
  | nil => intro nd _ h _; exact h
  | cons d t ih =>
    intro nd hn hh hs
    exact ih (hn.step d (hs d List.mem_cons_self)) (hh.step G hn d (hs d List.mem_cons_self))
      (fun x hx => hs x (List.mem_cons_of_mem _ hx))




theorem Rel.getTx_none {w : Wire} {l : List C06.Tx} {d : C08.Disk n} (R : Rel w l d) {p : Nat} (hs : Small p)
    (h : C06.findTx l p = none) : d.getTx (embRef p) = none := by
  have hp := R.fresh hs (C06.findTx_none_iff.mp h)
  unfold C08.Disk.isPresent at hp
  unfold C08.Disk.getTx
  rw [List.find?_eq_none]
  intro x hx hq
  have := List.any_eq_false.mp hp x hx
  exact this hq

/-- how C08 names the two errors of the prev verifier that C06 calls "prev-missing" and "clock" -/
def prevErr8 : Res Unit → Res Unit
  | .ok u => .ok u
  | .err e => .err (if e = "prev-missing" then "missing-prev" else "bad-clock")
  | .panic p => .panic p

def loopRes8 : Res Int → Res Nat
  | .ok h => .ok (h + 1).toNat
  | .err _ => .err "missing-prev"
  | .panic p => .panic p

theorem Rel.loop_agree {w : Wire} {l : List C06.Tx} {d : C08.Disk n} (R : Rel w l d) :
    ∀ (ps : List Nat) (h : Int), -1 ≤ h → (∀ p ∈ ps, Small p) →
      d.verifyPrevsLoop (ps.map embRef) (h + 1).toNat = loopRes8 (C06.highest l ps h) := by
  intro ps
  induction ps with
  | nil => intro h _ _; rfl
  | cons p ps ih =>
    intro h hh hs
    have hsp := hs p List.mem_cons_self
    have hsr : ∀ q ∈ ps, Small q := fun q hq => hs q (List.mem_cons_of_mem _ hq)
    unfold C06.highest
    cases hf : C06.findTx l p with
    | none =>
      simp only [List.map_cons, C08.Disk.verifyPrevsLoop, R.getTx_none hsp hf]
      rfl
    | some t =>
      simp only [List.map_cons, C08.Disk.verifyPrevsLoop, R.getTx hf]
      have := ih (if (t.clock : Int) ≥ h then (t.clock : Int) else h) (by split <;> omega) hsr
      have hk : (if t.clock + 1 ≥ (h + 1).toNat then t.clock + 1 else (h + 1).toNat) =
          ((if (t.clock : Int) ≥ h then (t.clock : Int) else h) + 1).toNat := by
        split <;> split <;> omega
      rw [← hk] at this; exact this

theorem highest_err {l : List C06.Tx} : ∀ (ps : List Nat) (h : Int) (e : String), C06.highest l ps h = .err e → e = "prev-missing" := by
  intro ps
  induction ps with
  | nil => intro h e hk; simp [C06.highest] at hk
  | cons q qs ih =>
    intro h e hk
    unfold C06.highest at hk
    split at hk
    · cases hk; rfl
    · exact ih _ _ hk

theorem highest_no_panic {l : List C06.Tx} : ∀ (ps : List Nat) (h : Int) (p : String), C06.highest l ps h ≠ .panic p := by
  intro ps
  induction ps with
  | nil => intro h p hk; simp [C06.highest] at hk
  | cons q qs ih =>
    intro h p hk
    unfold C06.highest at hk
    split at hk
    · cases hk
    · exact ih _ _ hk

/-- **the two models of `NewPrevTransactionsVerifier` agree** on related stores, outcome by outcome -/
theorem Rel.verifyPrevs_agree {w : Wire} {l : List C06.Tx} {d : C08.Disk n} (R : Rel w l d) (tx : C06.Tx)
    (hs : ∀ p ∈ tx.prevs, Small p) : d.verifyPrevs (embTx w tx) = prevErr8 (C06.verifyPrevs l tx) := by
  have hl := R.loop_agree tx.prevs (-1) (by omega) hs
  have h0 : ((-1 : Int) + 1).toNat = 0 := rfl
  rw [h0] at hl
  unfold C08.Disk.verifyPrevs C06.verifyPrevs
  simp only [embTx_prevs, embTx_clock, hl]
  cases hk : C06.highest l tx.prevs (-1) with
  | ok hh =>
    have hge := (C06.highest_spec hk).1
    simp only [loopRes8]
    by_cases hc : (tx.clock : Int) ≠ hh + 1
    · have : tx.clock ≠ (hh + 1).toNat := by omega
      simp [hc, this, prevErr8]
    · have : ¬ tx.clock ≠ (hh + 1).toNat := by omega
      simp [hc, this, prevErr8]
  | err e =>
    have : e = "prev-missing" := highest_err _ _ _ hk
    simp [loopRes8, prevErr8, this]
  | panic p => exact absurd hk (highest_no_panic _ _ _)



/-- C08's `add` (fault-free, no payload) stores a transaction on a related state exactly when C06's structural checks
    pass: not yet stored, prev verifier ok, single-root rule -/
theorem add8_stores_iff {cfg : C08.Cfg} (G : C08.Good cfg) {w : Wire} {l : List C06.Tx} {s : C08.State n}
    (h : C08.SInv cfg s) (R : Rel w l s.disk) (tx : C06.Tx) (hs : Small tx.ref) (hps : ∀ p ∈ tx.prevs, Small p) :
    (C08.add cfg s (embTx w tx) {}).1.disk.txs = s.disk.txs ++ [embTx w tx] ↔
      (tx.ref ∉ C06.refsOf l ∧ C06.verifyPrevs l tx = .ok () ∧ (tx.prevs = [] → C06.hasRoot l = false)) := by
  constructor
  · intro happ
    have a := h.add G (embTx w tx) {}
    have hne : ∀ {x : List C08.Tx} {y : C08.Tx}, x ≠ x ++ [y] := by
      intro x y e
      have := congrArg List.length e
      simp at this
    have hok : (C08.add cfg s (embTx w tx) {}).2 = .ok () := by
      by_cases hok : (C08.add cfg s (embTx w tx) {}).2 = .ok ()
      · exact hok
      · rw [a.2.1 hok] at happ; exact absurd happ hne
    have hnp : s.disk.isPresent (embTx w tx).ref = false := by
      rcases a.2.2 hok with ⟨e, _⟩ | ⟨_, hp⟩
      · rw [e] at happ; exact absurd happ hne
      · exact hp
    have hnp' : s.disk.isPresent (embRef tx.ref) = false := hnp
    have hfresh : tx.ref ∉ C06.refsOf l := by
      intro hin
      have := R.present hin
      rw [show s.disk.isPresent (embTx w tx).ref = s.disk.isPresent (embRef tx.ref) from rfl, this] at hnp
      cases hnp
    have hv8 : s.disk.verifyPrevs (embTx w tx) = .ok () := by
      cases hv : s.disk.verifyPrevs (embTx w tx) with
      | ok u => rfl
      | err e => exfalso; revert hok; unfold C08.add; simp [hnp', hv]
      | panic e => exfalso; revert hok; unfold C08.add; simp [hnp', hv]
    have hv6 : C06.verifyPrevs l tx = .ok () := by
      have := R.verifyPrevs_agree (w := w) tx hps
      rw [hv8] at this
      cases hv : C06.verifyPrevs l tx with
      | ok u => rfl
      | err e => rw [hv] at this; cases this
      | panic e => rw [hv] at this; cases this
    refine ⟨hfresh, hv6, ?_⟩
    intro hp
    rw [← R.rootCond h.g]
    cases hc : (!((C08.getSorted 0 s.disk.clocks).getD []).isEmpty) with
    | false => rfl
    | true =>
      exfalso
      revert hok
      unfold C08.add
      simp [hnp', hv8, C08.putFailsIn, C08.Disk.graphAdd, hp, hc]
  · rintro ⟨h1, h2, h3⟩
    have := feed_admitted G h R hs h1 h2 h3 (w := w)
    rw [show (C08.add cfg s (embTx w tx) {}).1 = feed cfg s (embTx w tx) from rfl, this.2.2.txs, R.txs, embList_cons]



/-- a sequential run of `Add` calls (C06 `seqRun`) is a sequence of deliveries -/
theorem seqRun_is_deliveries (a : Adm) (calls : List C06.Call) : ∀ (order : List Nat) (acc : C06.St × List (Nat × Res Unit)),
    ∃ ds : List Delivery, (∀ d ∈ ds, ∃ c ∈ calls, d = .tx c.tx c.payload) ∧
      (order.foldl (C06.seqStep a.env a.subs calls) acc).1 = ds.foldl (step6 a) acc.1 := by
  intro order
  induction order with
  | nil => intro acc; exact ⟨[], by simp, rfl⟩
  | cons i rest ih =>
    intro acc
    simp only [List.foldl_cons]
    cases hc : calls[i]? with
    | none =>
      have : C06.seqStep a.env a.subs calls acc i = acc := by simp [C06.seqStep, hc]
      rw [this]; exact ih acc
    | some c =>
      obtain ⟨ds, h1, h2⟩ := ih (C06.seqStep a.env a.subs calls acc i)
      refine ⟨.tx c.tx c.payload :: ds, ?_, ?_⟩
      · intro d hd
        rcases List.mem_cons.mp hd with rfl | hd
        · exact ⟨c, List.mem_of_getElem? hc, rfl⟩
        · exact h1 d hd
      · rw [h2]
        simp only [List.foldl_cons]
        congr 1
        simp [C06.seqStep, hc, step6, deliver6]



end Nuts.Compose.Dag
