/-
  Composition C06 ∘ C08 (∘ C07): helper lemmas.  The maps are in NutsModel/Compose/Dag.lean; the theorems in
  NutsProofs/Props/ComposeDag.lean.  Nothing here restates a lemma of the three properties: it only relates them.
-/
import NutsModel.Compose.Dag
import NutsProofs.Lemmas.C06
import NutsProofs.Lemmas.C08Inv

namespace Nuts.Compose.Dag
open Nuts

/-! ### refs -/

/-- a ref is a SHA-256 value -/
def Small (r : Nat) : Prop := r < 2 ^ 256

instance (r : Nat) : Decidable (Small r) := by unfold Small; exact inferInstance

theorem embRef_inj {a b : Nat} (ha : Small a) (hb : Small b) (h : embRef a = embRef b) : a = b := by
  unfold embRef at h
  have := congrArg BitVec.toNat h
  simp only [BitVec.toNat_ofNat] at this
  unfold Small at ha hb
  rwa [Nat.mod_eq_of_lt ha, Nat.mod_eq_of_lt hb] at this

theorem embRef_toNat {a : Nat} (ha : Small a) : (embRef a).toNat = a := by
  unfold embRef Small at *
  simp only [BitVec.toNat_ofNat]
  exact Nat.mod_eq_of_lt ha

@[simp] theorem embTx_ref (w : Wire) (t : C06.Tx) : (embTx w t).ref = embRef t.ref := rfl
@[simp] theorem embTx_clock (w : Wire) (t : C06.Tx) : (embTx w t).clock = t.clock := rfl
@[simp] theorem embTx_prevs (w : Wire) (t : C06.Tx) : (embTx w t).prevs = t.prevs.map embRef := rfl
@[simp] theorem embTx_ikey (w : Wire) (t : C06.Tx) : (embTx w t).ikey = ikeyOf w t.ref := rfl

theorem find?_unique {α : Type} (q : α → Bool) : ∀ (l : List α) (x : α), x ∈ l → q x = true →
    (∀ y ∈ l, q y = true → y = x) → l.find? q = some x := by
  intro l
  induction l with
  | nil => intro x hx; cases hx
  | cons a t ih =>
    intro x hx hq hu
    by_cases ha : q a = true
    · have := hu a List.mem_cons_self ha
      subst this
      simp [List.find?, hq]
    · have ha' : q a = false := by cases h : q a <;> simp_all
      have hx' : x ∈ t := by
        rcases List.mem_cons.mp hx with rfl | h
        · rw [hq] at ha'; cases ha'
        · exact h
      simp only [List.find?, ha']
      exact ih x hx' hq (fun y hy => hu y (List.mem_cons_of_mem _ hy))

theorem eq_of_ref {l : List C06.Tx} (nd : (C06.refsOf l).Nodup) {x y : C06.Tx} (hx : x ∈ l) (hy : y ∈ l)
    (h : x.ref = y.ref) : x = y := by
  induction l with
  | nil => cases hx
  | cons a t ih =>
    unfold C06.refsOf at nd ih
    simp only [List.map_cons, List.nodup_cons, List.mem_map, not_exists, not_and] at nd
    rcases List.mem_cons.mp hx with rfl | hx' <;> rcases List.mem_cons.mp hy with rfl | hy'
    · rfl
    · exact absurd h.symm (nd.1 y hy')
    · exact absurd h (nd.1 x hx')
    · exact ih nd.2 hx' hy'

/-- the relation between the two layers' stores -/
structure Rel {n : Nat} (w : Wire) (l : List C06.Tx) (d : C08.Disk n) : Prop where
  txs : d.txs = embList w l
  small : ∀ t ∈ l, Small t.ref
  nodup : (C06.refsOf l).Nodup

theorem mem_embList {w : Wire} {l : List C06.Tx} {y : C08.Tx} : y ∈ embList w l ↔ ∃ t ∈ l, y = embTx w t := by
  unfold embList
  simp only [List.mem_map, List.mem_reverse]
  constructor
  · rintro ⟨t, ht, rfl⟩; exact ⟨t, ht, rfl⟩
  · rintro ⟨t, ht, rfl⟩; exact ⟨t, ht, rfl⟩

variable {n : Nat}

theorem Rel.getTx {w : Wire} {l : List C06.Tx} {d : C08.Disk n} (R : Rel w l d) {p : Nat} {t : C06.Tx}
    (h : C06.findTx l p = some t) : d.getTx (embRef p) = some (embTx w t) := by
  obtain ⟨hr, hm⟩ := C06.findTx_some_ref h
  unfold C08.Disk.getTx
  rw [R.txs]
  apply find?_unique
  · exact mem_embList.mpr ⟨t, hm, rfl⟩
  · simp [hr]
  · intro y hy hq
    obtain ⟨t', ht', rfl⟩ := mem_embList.mp hy
    have e : embRef t'.ref = embRef p := by simpa using hq
    have : t'.ref = t.ref := by
      rw [hr]; exact embRef_inj (R.small t' ht') (by rw [← hr]; exact R.small t hm) e
    rw [eq_of_ref R.nodup ht' hm this]

theorem Rel.fresh {w : Wire} {l : List C06.Tx} {d : C08.Disk n} (R : Rel w l d) {r : Nat} (hs : Small r)
    (hf : r ∉ C06.refsOf l) : d.isPresent (embRef r) = false := by
  unfold C08.Disk.isPresent
  rw [R.txs, List.any_eq_false]
  intro y hy
  obtain ⟨t, ht, rfl⟩ := mem_embList.mp hy
  intro hq
  have e : embRef t.ref = embRef r := by simpa using hq
  have := embRef_inj (R.small t ht) hs e
  exact hf (by unfold C06.refsOf; exact List.mem_map.mpr ⟨t, ht, this⟩)

theorem Rel.present {w : Wire} {l : List C06.Tx} {d : C08.Disk n} (R : Rel w l d) {r : Nat}
    (hf : r ∈ C06.refsOf l) : d.isPresent (embRef r) = true := by
  unfold C08.Disk.isPresent
  rw [R.txs, List.any_eq_true]
  unfold C06.refsOf at hf
  obtain ⟨t, ht, rfl⟩ := List.mem_map.mp hf
  exact ⟨embTx w t, mem_embList.mpr ⟨t, ht, rfl⟩, by simp⟩

theorem Rel.loop {w : Wire} {l : List C06.Tx} {d : C08.Disk n} (R : Rel w l d) :
    ∀ (ps : List Nat) (h h' : Int), -1 ≤ h → C06.highest l ps h = .ok h' →
      d.verifyPrevsLoop (ps.map embRef) (h + 1).toNat = .ok (h' + 1).toNat := by
  intro ps
  induction ps with
  | nil => intro h h' _ e; simp [C06.highest] at e; subst e; rfl
  | cons p ps ih =>
    intro h h' hh e
    unfold C06.highest at e
    split at e
    · cases e
    · rename_i t ht
      simp only [List.map_cons, C08.Disk.verifyPrevsLoop, R.getTx ht]
      have := ih _ h' (by split <;> omega) e
      have hk : (if t.clock + 1 ≥ (h + 1).toNat then t.clock + 1 else (h + 1).toNat) =
          ((if (t.clock : Int) ≥ h then (t.clock : Int) else h) + 1).toNat := by
        split <;> split <;> omega
      rw [← hk] at this; exact this

theorem Rel.verifyPrevs {w : Wire} {l : List C06.Tx} {d : C08.Disk n} (R : Rel w l d) {tx : C06.Tx}
    (h : C06.verifyPrevs l tx = .ok ()) : d.verifyPrevs (embTx w tx) = .ok () := by
  unfold C06.verifyPrevs at h
  split at h
  · rename_i hh hk
    split at h
    · cases h
    · rename_i hc
      have := R.loop tx.prevs (-1) hh (by omega) hk
      unfold C08.Disk.verifyPrevs
      simp only [embTx_prevs, embTx_clock]
      have h0 : ((-1 : Int) + 1).toNat = 0 := rfl
      rw [h0] at this
      rw [this]
      have : ¬ (tx.clock ≠ (hh + 1).toNat) := by omega
      simp [this]
  · cases h
  · cases h



theorem embList_cons (w : Wire) (t : C06.Tx) (l : List C06.Tx) : embList w (t :: l) = embList w l ++ [embTx w t] := by
  simp [embList]

/-- the root rule of the two models agrees on related stores -/
theorem Rel.rootCond {w : Wire} {l : List C06.Tx} {d : C08.Disk n} (R : Rel w l d) (g : C08.GInv d) :
    (!((C08.getSorted 0 d.clocks).getD []).isEmpty) = C06.hasRoot l := by
  rw [g.idx 0, R.txs]
  cases hr : C06.hasRoot l with
  | false =>
    have := C06.hasRoot_false_iff.mp hr
    have : (embList w l).filter (fun t => t.clock == 0) = [] := by
      rw [List.filter_eq_nil_iff]
      intro y hy
      obtain ⟨t, ht, rfl⟩ := mem_embList.mp hy
      simpa using this t ht
    simp [this]
  | true =>
    unfold C06.hasRoot at hr
    obtain ⟨t, ht, hc⟩ := List.any_eq_true.mp hr
    have : embTx w t ∈ (embList w l).filter (fun t => t.clock == 0) :=
      List.mem_filter.mpr ⟨mem_embList.mpr ⟨t, ht, rfl⟩, by simpa using hc⟩
    cases hf : (embList w l).filter (fun t => t.clock == 0) with
    | nil => rw [hf] at this; cases this
    | cons a b => simp

/-- **the step**: a transaction C06 admits on top of `l` is accepted by C08's `add` on the related state, which stores
    exactly its image -/
theorem feed_admitted {cfg : C08.Cfg} (G : C08.Good cfg) {w : Wire} {l : List C06.Tx} {s : C08.State n}
    (h : C08.SInv cfg s) (R : Rel w l s.disk) {tx : C06.Tx} (hs : Small tx.ref) (hf : tx.ref ∉ C06.refsOf l)
    (hv : C06.verifyPrevs l tx = .ok ()) (hroot : tx.prevs = [] → C06.hasRoot l = false) :
    (C08.add cfg s (embTx w tx) {}).2 = .ok () ∧ C08.SInv cfg (feed cfg s (embTx w tx)) ∧
    Rel w (tx :: l) (feed cfg s (embTx w tx)).disk := by
  have hp := R.fresh hs hf
  have hv8 := R.verifyPrevs (w := w) hv
  have hcond : ((embTx w tx).prevs.isEmpty && !((C08.getSorted 0 s.disk.clocks).getD []).isEmpty) = false := by
    rw [R.rootCond h.g]
    cases hpe : tx.prevs with
    | nil => simp [hroot hpe]
    | cons a b => simp [hpe]
  have hok : (C08.add cfg s (embTx w tx) {}).2 = .ok () := by
    rcases C08.graphAdd_spec h.g hp hv8 with hr | ⟨d', hd, _⟩
    · exfalso
      simp only [C08.Disk.graphAdd] at hr
      rw [show s.disk.isPresent (embTx w tx).ref = false from hp] at hr
      simp only [Bool.false_eq_true, if_false, hcond] at hr
      cases hr
    · unfold C08.add
      rw [show s.disk.isPresent (embTx w tx).ref = false from hp]
      simp [hv8, hd, C08.putFailsIn]
  have a := h.add G (embTx w tx) {}
  refine ⟨hok, a.1, ?_⟩
  rcases a.2.2 hok with ⟨_, hpres⟩ | ⟨htxs, _⟩
  · rw [show s.disk.isPresent (embTx w tx).ref = false from hp] at hpres; cases hpres
  · refine ⟨?_, ?_, ?_⟩
    · show (C08.add cfg s (embTx w tx) {}).1.disk.txs = _
      rw [htxs, R.txs, embList_cons]
    · intro t ht
      rcases List.mem_cons.mp ht with rfl | ht
      · exact hs
      · exact R.small t ht
    · unfold C06.refsOf
      simp only [List.map_cons, List.nodup_cons]
      exact ⟨hf, R.nodup⟩



/-! ### whole histories -/

def build {n : Nat} (cfg : C08.Cfg) (w : Wire) (l : List C06.Tx) : C08.State n :=
  (embList w l).foldl (feed cfg) (C08.State.init cfg)

theorem build_cons (cfg : C08.Cfg) (w : Wire) (t : C06.Tx) (l : List C06.Tx) :
    (build cfg w (t :: l) : C08.State n) = feed cfg (build cfg w l) (embTx w t) := by
  simp [build, embList_cons, List.foldl_append]

theorem digests_eq_build (cfg : C08.Cfg) (w : Wire) (s : C06.St) : (digests cfg w s : C08.State n) = build cfg w s.txs := rfl

/-- feeding a C06 chain (each transaction admissible on top of the ones before it) to C08: every `add` succeeds -/
theorem build_chain {cfg : C08.Cfg} (G : C08.Good cfg) (w : Wire) {env : C06.Env} : ∀ (l : List C06.Tx),
    C06.ChainOK env l → (∀ t ∈ l, Small t.ref) →
    C08.SInv cfg (build cfg w l : C08.State n) ∧ Rel w l (build cfg w l : C08.State n).disk := by
  intro l
  induction l with
  | nil =>
    intro _ _
    exact ⟨C08.SInv.init cfg, ⟨rfl, fun _ h => (by cases h), by simp [C06.refsOf]⟩⟩
  | cons t rest ih =>
    intro hc hs
    obtain ⟨c1, c2, c3, _, c5⟩ := hc
    obtain ⟨i1, i2⟩ := ih c1 (fun x hx => hs x (List.mem_cons_of_mem _ hx))
    rw [build_cons]
    have := feed_admitted G i1 i2 (hs t List.mem_cons_self) c2 c3 c5
    exact ⟨this.2.1, this.2.2⟩

/-! ### the admission layer along deliveries -/

theorem deliver6_cases (a : Adm) (s : C06.St) (d : Delivery) :
    (deliver6 a s d).1 = s ∨
    ∃ tx p, tx.ref = d.ref ∧ (deliver6 a s d).2 = .ok () ∧ C06.Admitted a.env s tx p (deliver6 a s d).1 := by
  cases d with
  | bytes hd p =>
    simp only [deliver6, C06.offer]
    split
    · rename_i tx htx
      rcases @C06.add_cases a.env a.subs s tx p with h | h
      · exact Or.inl h
      · exact Or.inr ⟨tx, p, (C06.parse_wellFormed htx).ref, h.1, h.2⟩
    · exact Or.inl rfl
    · exact Or.inl rfl
  | tx tx p =>
    simp only [deliver6]
    rcases @C06.add_cases a.env a.subs s tx p with h | h
    · exact Or.inl h
    · exact Or.inr ⟨tx, p, rfl, h.1, h.2⟩

theorem deliver6_not_ok (a : Adm) (s : C06.St) (d : Delivery) (h : (deliver6 a s d).2 ≠ .ok ()) : (deliver6 a s d).1 = s := by
  rcases deliver6_cases a s d with e | ⟨_, _, _, hok, _⟩
  · exact e
  · exact absurd hok h

theorem deliver6_dup (a : Adm) (s : C06.St) (d : Delivery) (h : d.ref ∈ C06.refsOf s.txs) : (deliver6 a s d).1 = s := by
  rcases deliver6_cases a s d with e | ⟨tx, _, hr, _, ha⟩
  · exact e
  · exact absurd (hr ▸ h) ha.fresh

theorem inv_deliver6 (a : Adm) {s : C06.St} (hi : C06.Inv a.env s) (d : Delivery) : C06.Inv a.env (deliver6 a s d).1 := by
  cases d with
  | bytes hd p =>
    simp only [deliver6, C06.offer]
    split
    · exact C06.inv_add hi
    · exact hi
    · exact hi
  | tx tx p => exact C06.inv_add hi

/-- the invariant of the admission layer's reachable states, with the size of the refs -/
structure Inv6 (a : Adm) (s : C06.St) : Prop where
  inv : C06.Inv a.env s
  small : ∀ t ∈ s.txs, Small t.ref

theorem Inv6.step {a : Adm} {s : C06.St} (h : Inv6 a s) (d : Delivery) (hd : Small d.ref) : Inv6 a (step6 a s d) := by
  refine ⟨inv_deliver6 a h.inv d, ?_⟩
  unfold step6
  rcases deliver6_cases a s d with e | ⟨tx, p, hr, _, ha⟩
  · rw [e]; exact h.small
  · rw [ha.txs]
    intro t ht
    rcases List.mem_cons.mp ht with rfl | ht
    · rw [hr]; exact hd
    · exact h.small t ht

theorem Inv6.run {a : Adm} : ∀ (ds : List Delivery) {s : C06.St}, Inv6 a s → (∀ d ∈ ds, Small d.ref) →
    Inv6 a (ds.foldl (step6 a) s) := by
  intro ds
  induction ds with
  | nil => intro s h _; exact h
  | cons d t ih =>
    intro s h hs
    exact ih (h.step d (hs d List.mem_cons_self)) (fun x hx => hs x (List.mem_cons_of_mem _ hx))

theorem Inv6.empty (a : Adm) : Inv6 a {} := ⟨C06.inv_empty a.env, fun _ h => (by cases h)⟩

theorem inv6_run6 (a : Adm) (ds : List Delivery) (hs : ∀ d ∈ ds, Small d.ref) : Inv6 a (run6 a ds) :=
  Inv6.run ds (Inv6.empty a) hs

/-! ### the composed node -/

/-- the node invariant: the digest state is exactly what feeding the admitted list yields -/
def NodeOK {n : Nat} (a : Adm) (cfg8 : C08.Cfg) (w : Wire) (nd : Node n) : Prop :=
  Inv6 a nd.st ∧ nd.dg = digests cfg8 w nd.st

theorem newTxs_same {old new : C06.St} (h : new = old) : newTxs old new = [] := by
  subst h; simp [newTxs]

theorem newTxs_cons {old new : C06.St} {tx : C06.Tx} (h : new.txs = tx :: old.txs) : newTxs old new = [tx] := by
  simp [newTxs, h]

theorem Node.step_st (a : Adm) (cfg8 : C08.Cfg) (w : Wire) (nd : Node n) (d : Delivery) :
    (nd.step a cfg8 w d).st = step6 a nd.st d := rfl

theorem NodeOK.step {a : Adm} {cfg8 : C08.Cfg} {w : Wire} {nd : Node n} (h : NodeOK a cfg8 w nd) (d : Delivery)
    (hd : Small d.ref) : NodeOK a cfg8 w (nd.step a cfg8 w d) := by
  refine ⟨h.1.step d hd, ?_⟩
  show (embList w (newTxs nd.st (deliver6 a nd.st d).1)).foldl (feed cfg8) nd.dg = digests cfg8 w (deliver6 a nd.st d).1
  rcases deliver6_cases a nd.st d with e | ⟨tx, p, _, _, ha⟩
  · rw [newTxs_same e, e]; exact h.2
  · rw [newTxs_cons ha.txs, digests_eq_build, ha.txs, build_cons, ← digests_eq_build, ← h.2]
    simp [embList]

theorem NodeOK.init (a : Adm) (cfg8 : C08.Cfg) (w : Wire) : NodeOK a cfg8 w (Node.init cfg8 : Node n) :=
  ⟨Inv6.empty a, rfl⟩

theorem NodeOK.run {a : Adm} {cfg8 : C08.Cfg} {w : Wire} : ∀ (ds : List Delivery) {nd : Node n}, NodeOK a cfg8 w nd →
    (∀ d ∈ ds, Small d.ref) → NodeOK a cfg8 w (ds.foldl (Node.step a cfg8 w) nd) := by
  intro ds
  induction ds with
  | nil => intro nd h _; exact h
  | cons d t ih =>
    intro nd h hs
    exact ih (h.step d (hs d List.mem_cons_self)) (fun x hx => hs x (List.mem_cons_of_mem _ hx))

theorem run_st (a : Adm) (cfg8 : C08.Cfg) (w : Wire) : ∀ (ds : List Delivery) (nd : Node n),
    (ds.foldl (Node.step a cfg8 w) nd).st = ds.foldl (step6 a) nd.st := by
  intro ds
  induction ds with
  | nil => intro nd; rfl
  | cons d t ih => intro nd; simp only [List.foldl_cons]; rw [ih]; rfl

/-- what `NodeOK` gives: the digest state satisfies C08's invariant and stores exactly the image of the admitted list -/
theorem NodeOK.sinv {a : Adm} {cfg8 : C08.Cfg} (G : C08.Good cfg8) {w : Wire} {nd : Node n} (h : NodeOK a cfg8 w nd) :
    C08.SInv cfg8 nd.dg ∧ Rel w nd.st.txs nd.dg.disk := by
  rw [h.2, digests_eq_build]
  exact build_chain G w nd.st.txs h.1.inv.chain h.1.small

end Nuts.Compose.Dag
