/-
  C07 deepening round 3 — the executable lock check `okFrom` of NutsModel/C07/ConvLock.lean means what it says: at every
  `return` and at the end of the body, having run every mutex event before that point, the deferred unlocks release
  everything; and every mutex event is a statement of the method body (depth 0).
-/
import NutsModel.C07.ConvLock

namespace Nuts.Proto.ConvLock

theorem ok_every_exit : ∀ (tr : List (Nat × LEv)) (s : LSt), okFrom s tr = true →
    ∀ pre post, tr = pre ++ post → (post = [] ∨ ∃ d rest, post = (d, LEv.ret) :: rest) →
      balanced (stateAfter s pre) = true ∧ (∀ x ∈ pre, isMutexEv x.2 = true → x.1 = 0) := by
  intro tr
  induction tr with
  | nil =>
    intro s h pre post hp _
    cases pre with
    | cons y ys => simp at hp
    | nil => exact ⟨by simpa [stateAfter, okFrom] using h, by simp⟩
  | cons x r ih =>
    intro s h pre post hp hpost
    obtain ⟨d, e⟩ := x
    cases pre with
    | nil =>
      simp only [List.nil_append] at hp
      refine ⟨?_, by simp⟩
      simp only [stateAfter, List.foldl_nil]
      rcases hpost with rfl | ⟨d', rest, rfl⟩
      · simp at hp
      · injection hp with h1 h2
        injection h1 with _ he
        subst he
        simp only [okFrom, Bool.and_eq_true] at h
        exact h.1
    | cons y pre' =>
      injection hp with h1 h2
      subst h1
      cases e with
      | unknown => simp [okFrom] at h
      | ret =>
        simp only [okFrom, Bool.and_eq_true] at h
        obtain ⟨hb, hm⟩ := ih s h.2 pre' post h2 hpost
        refine ⟨by simpa [stateAfter, stepL] using hb, ?_⟩
        intro x hx hmx
        rcases List.mem_cons.mp hx with rfl | hx'
        · simp [isMutexEv] at hmx
        · exact hm x hx' hmx
      | goStmt =>
        simp only [okFrom] at h
        obtain ⟨hb, hm⟩ := ih s h pre' post h2 hpost
        refine ⟨by simpa [stateAfter, stepL] using hb, ?_⟩
        intro x hx hmx
        rcases List.mem_cons.mp hx with rfl | hx'
        · simp [isMutexEv] at hmx
        · exact hm x hx' hmx
      | lock k =>
        simp only [okFrom, Bool.and_eq_true, beq_iff_eq] at h
        obtain ⟨hb, hm⟩ := ih _ h.2 pre' post h2 hpost
        refine ⟨by simpa [stateAfter] using hb, ?_⟩
        intro x hx hmx
        rcases List.mem_cons.mp hx with rfl | hx'
        · exact h.1.1
        · exact hm x hx' hmx
      | unlock k =>
        simp only [okFrom, Bool.and_eq_true, beq_iff_eq] at h
        obtain ⟨hb, hm⟩ := ih _ h.2 pre' post h2 hpost
        refine ⟨by simpa [stateAfter] using hb, ?_⟩
        intro x hx hmx
        rcases List.mem_cons.mp hx with rfl | hx'
        · exact h.1.1
        · exact hm x hx' hmx
      | deferUnlock k =>
        simp only [okFrom, Bool.and_eq_true, beq_iff_eq] at h
        obtain ⟨hb, hm⟩ := ih _ h.2 pre' post h2 hpost
        refine ⟨by simpa [stateAfter] using hb, ?_⟩
        intro x hx hmx
        rcases List.mem_cons.mp hx with rfl | hx'
        · exact h.1.1
        · exact hm x hx' hmx

end Nuts.Proto.ConvLock
