/-
  C03 (deepening round) — helper lemmas for NutsProofs/Props/C03Api.lean: Go-map (association list) membership through
  `dedup` / `hput`, and what package-level SignJWS does with a header map whose values all came out of encoding/json.
-/
import NutsModel.C03.Api
import NutsProofs.Lemmas.C03

namespace Nuts.C03
open Nuts

theorem mem_hput (acc : Headers) (k : String) (v : HVal) (p : String × HVal) (h : p ∈ hput acc k v) :
    p = (k, v) ∨ p ∈ acc := by
  unfold hput alPut at h
  rcases List.mem_cons.mp h with e | hm
  · exact Or.inl e
  · exact Or.inr (List.mem_filter.mp hm).1

theorem mem_foldl_hput (h acc : Headers) (p : String × HVal)
    (hp : p ∈ h.foldl (fun acc q => hput acc q.1 q.2) acc) : p ∈ h ∨ p ∈ acc := by
  induction h generalizing acc with
  | nil => exact Or.inr hp
  | cons q rest ih =>
    rcases ih (hput acc q.1 q.2) hp with hm | ha
    · exact Or.inl (List.mem_cons_of_mem _ hm)
    · rcases mem_hput acc q.1 q.2 p ha with e | hacc
      · exact Or.inl (by rw [e]; exact List.mem_cons_self)
      · exact Or.inr hacc

/-- a Go map built by assignments holds only assigned pairs -/
theorem mem_dedup (h : Headers) (p : String × HVal) (hp : p ∈ dedup h) : p ∈ h := by
  rcases mem_foldl_hput h [] p hp with hm | hn
  · exact hm
  · cases hn

def AllJson (h : Headers) : Prop := ∀ p ∈ h, p.2.isJson = true

theorem allJson_dedup (h : Headers) (hj : AllJson h) : AllJson (dedup h) := fun p hp => hj p (mem_dedup h p hp)

theorem allJson_hput_str (h : Headers) (k s : String) (hj : AllJson h) : AllJson (hput h k (.str s)) := by
  intro p hp
  rcases mem_hput h k (.str s) p hp with e | hm
  · rw [e]; rfl
  · exact hj p hm

/-- package-level SignJWS on a map of JSON-decoded values: no `jwk` can be signed (a JSON value is never a `jwk.Key`,
    `Headers.Set("jwk", v)` refuses it), and the result is the input without `alg` -/
theorem signJWSHeaders_json (h out : Headers) (hj : AllJson h) (hok : signJWSHeaders h = .ok out) :
    out = alDel h "alg" ∧ hget h "jwk" = none := by
  unfold signJWSHeaders at hok
  split at hok
  · cases hok
  · rename_i hset
    have hnone : hget h "jwk" = none := by
      cases hg : hget h "jwk" with
      | none => rfl
      | some v =>
        exfalso
        have hm := alGet_some_mem h "jwk" v hg
        have hjs := hj _ hm
        apply hset
        rw [List.any_eq_true]
        refine ⟨("jwk", v), hm, ?_⟩
        cases v <;> simp [HVal.isJson] at hjs <;> simp [settable]
    rw [hnone] at hok
    simp only at hok
    cases hok
    exact ⟨rfl, hnone⟩

theorem same_errDetail (keyDir : String) {s t : Store} (h : SameButKeys s t) (q : Req) (e : KErr) :
    errDetail keyDir s q e = errDetail keyDir t q e := by
  have href : ∀ kid, s.ref kid = t.ref kid := fun kid => same_ref h kid
  have : errText keyDir s q e = errText keyDir t q e := by
    cases e <;> cases q <;> simp only [errText, href] <;> (try rfl)
  unfold errDetail
  rw [this]

end Nuts.C03
