/-
  C02 — helper lemmas for the policy loader (NutsModel/C02/Policy.lean)
-/
import NutsModel.C02.Policy

namespace Nuts.C02

/-- no scope is mapped twice -/
def KeysNodup (m : Policy) : Prop := (m.map (·.1)).Nodup

theorem lookupPolicy_none_iff (m : Policy) (s : String) : lookupPolicy m s = none ↔ s ∉ m.map (·.1) := by
  induction m with
  | nil => simp [lookupPolicy]
  | cons h t ih =>
    obtain ⟨k, v⟩ := h
    unfold lookupPolicy
    by_cases hk : k = s
    · simp [hk]
    · simp only [hk, if_false, List.map_cons, List.mem_cons]
      rw [ih]
      constructor
      · intro h hc; rcases hc with hc | hc
        · exact hk hc.symm
        · exact h hc
      · intro h hc; exact h (.inr hc)

theorem lookupPolicy_some_iff (m : Policy) (hn : KeysNodup m) (s : String) (d : List (String × Def)) :
    lookupPolicy m s = some d ↔ (s, d) ∈ m := by
  induction m with
  | nil => simp [lookupPolicy]
  | cons h t ih =>
    obtain ⟨k, v⟩ := h
    unfold KeysNodup at hn
    simp only [List.map_cons, List.nodup_cons] at hn
    unfold lookupPolicy
    by_cases hk : k = s
    · subst hk
      simp only [if_true, Option.some.injEq, List.mem_cons, Prod.mk.injEq, true_and]
      constructor
      · intro h; exact .inl h.symm
      · intro h
        rcases h with h | h
        · exact h.symm
        · exact absurd (List.mem_map_of_mem (f := (·.1)) h) hn.1
    · simp only [hk, if_false, List.mem_cons, Prod.mk.injEq]
      rw [ih hn.2]
      constructor
      · intro h; exact .inr h
      · intro h
        rcases h with h | h
        · exact absurd h.1.symm hk
        · exact h

theorem keysNodup_append_one (m : Policy) (hn : KeysNodup m) (s : String) (d : List (String × Def))
    (h : lookupPolicy m s = none) : KeysNodup (m ++ [(s, d)]) := by
  unfold KeysNodup at *
  rw [List.map_append, List.nodup_append]
  refine ⟨hn, by simp, ?_⟩
  intro a ha b hb
  simp only [List.map_cons, List.map_nil, List.mem_singleton] at hb
  subst hb
  intro hab
  subst hab
  exact (lookupPolicy_none_iff m a).mp h ha

/-- `addScopes` succeeds only by adding every pair of the file, keeping the scopes distinct -/
theorem addScopes_ok (m file m' : Policy) (hn : KeysNodup m) (h : addScopes m file = .ok m') :
    KeysNodup m' ∧ ∀ p, p ∈ m' ↔ p ∈ m ∨ p ∈ file := by
  induction file generalizing m with
  | nil =>
    unfold addScopes at h
    simp only [Res.ok.injEq] at h
    subst h
    exact ⟨hn, by simp⟩
  | cons hd tl ih =>
    obtain ⟨s, d⟩ := hd
    unfold addScopes at h
    split at h
    · simp at h
    · rename_i hl
      obtain ⟨hn', hm⟩ := ih (m ++ [(s, d)]) (keysNodup_append_one m hn s d hl) h
      refine ⟨hn', ?_⟩
      intro p
      rw [hm p]
      simp only [List.mem_append, List.mem_cons, List.not_mem_nil, or_false]
      constructor
      · intro h; rcases h with (h | h) | h
        · exact .inl h
        · exact .inr (.inl h)
        · exact .inr (.inr h)
      · intro h; rcases h with h | h | h
        · exact .inl (.inl h)
        · exact .inl (.inr h)
        · exact .inr h

/-- `addScopes` never changes what it was given when it fails, and errors are only `duplicate-scope` -/
theorem addScopes_err (m file : Policy) (x : String) (h : addScopes m file = .err x) : x = "duplicate-scope" := by
  induction file generalizing m with
  | nil => unfold addScopes at h; simp at h
  | cons hd tl ih =>
    obtain ⟨s, d⟩ := hd
    unfold addScopes at h
    split at h
    · simp only [Res.err.injEq] at h; exact h.symm
    · exact ih _ h

theorem loadDir_ok (m : Policy) (entries : List DirEntry) (pol : Policy) (hn : KeysNodup m)
    (h : loadDir m entries = .ok pol) :
    KeysNodup pol ∧
    (∀ e ∈ entries, e.loaded = true → e.content ≠ none) ∧
    ∀ p, p ∈ pol ↔ p ∈ m ∨ ∃ e ∈ entries, e.loaded = true ∧ ∃ l, e.content = some l ∧ p ∈ l := by
  induction entries generalizing m with
  | nil =>
    unfold loadDir at h
    simp only [Res.ok.injEq] at h
    subst h
    exact ⟨hn, by simp, by simp⟩
  | cons e rest ih =>
    unfold loadDir at h
    split at h
    · rename_i hdir
      obtain ⟨h1, h2, h3⟩ := ih m hn h
      have hl : e.loaded = false := by simp [DirEntry.loaded, hdir]
      refine ⟨h1, ?_, ?_⟩
      · intro e' he' hl'
        rcases List.mem_cons.mp he' with rfl | he'
        · rw [hl] at hl'; cases hl'
        · exact h2 e' he' hl'
      · intro p; rw [h3 p]
        constructor
        · intro h; rcases h with h | ⟨e', he', hr⟩
          · exact .inl h
          · exact .inr ⟨e', List.mem_cons_of_mem _ he', hr⟩
        · intro h; rcases h with h | ⟨e', he', hl', hr⟩
          · exact .inl h
          · rcases List.mem_cons.mp he' with rfl | he'
            · rw [hl] at hl'; cases hl'
            · exact .inr ⟨e', he', hl', hr⟩
    · rename_i hdir
      split at h
      · rename_i hjs
        obtain ⟨h1, h2, h3⟩ := ih m hn h
        have hl : e.loaded = false := by simp [DirEntry.loaded, hjs]
        refine ⟨h1, ?_, ?_⟩
        · intro e' he' hl'
          rcases List.mem_cons.mp he' with rfl | he'
          · rw [hl] at hl'; cases hl'
          · exact h2 e' he' hl'
        · intro p; rw [h3 p]
          constructor
          · intro h; rcases h with h | ⟨e', he', hr⟩
            · exact .inl h
            · exact .inr ⟨e', List.mem_cons_of_mem _ he', hr⟩
          · intro h; rcases h with h | ⟨e', he', hl', hr⟩
            · exact .inl h
            · rcases List.mem_cons.mp he' with rfl | he'
              · rw [hl] at hl'; cases hl'
              · exact .inr ⟨e', he', hl', hr⟩
      · rename_i hjs
        have hl : e.loaded = true := by
          simp only [DirEntry.loaded]
          cases hd : e.isDir
          · cases hj : isJsonName e.name
            · exact absurd hj hjs
            · rfl
          · exact absurd hd hdir
        split at h
        · simp at h
        · rename_i scopes hc
          split at h
          · rename_i m' hadd
            obtain ⟨hn', hm'⟩ := addScopes_ok m scopes m' hn hadd
            obtain ⟨h1, h2, h3⟩ := ih m' hn' h
            refine ⟨h1, ?_, ?_⟩
            · intro e' he' hl'
              rcases List.mem_cons.mp he' with rfl | he'
              · rw [hc]; simp
              · exact h2 e' he' hl'
            · intro p; rw [h3 p, hm' p]
              constructor
              · intro h; rcases h with (h | h) | ⟨e', he', hr⟩
                · exact .inl h
                · exact .inr ⟨e, List.mem_cons_self, hl, scopes, hc, h⟩
                · exact .inr ⟨e', List.mem_cons_of_mem _ he', hr⟩
              · intro h; rcases h with h | ⟨e', he', hl', l, hcl, hp⟩
                · exact .inl (.inl h)
                · rcases List.mem_cons.mp he' with rfl | he'
                  · rw [hc] at hcl
                    simp only [Option.some.injEq] at hcl
                    subst hcl
                    exact .inl (.inr hp)
                  · exact .inr ⟨e', he', hl', l, hcl, hp⟩
          · simp at h
          · simp at h

end Nuts.C02
