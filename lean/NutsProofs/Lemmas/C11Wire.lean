/- C11 wire layer: lemmas about the strconv.Atoi / strconv.Itoa model (NutsModel.C11.Wire). Core Lean only. -/
import NutsModel.C11.Wire
namespace Nuts.C11.Wire
open Nuts Nuts.C11

theorem parseDigits_append (a b : List Char) (n : Nat) :
    parseDigits (a ++ b) n = (parseDigits a n).bind (parseDigits b) := by
  induction a generalizing n with
  | nil => simp [parseDigits]
  | cons c cs ih =>
    simp only [List.cons_append, parseDigits]
    split
    · exact ih _
    · rfl

theorem digit_char (d : Nat) (h : d < 10) :
    isDigit (Char.ofNat (48 + d)) = true ∧ digitVal (Char.ofNat (48 + d)) = d ∧
      Char.ofNat (48 + d) ≠ '-' ∧ Char.ofNat (48 + d) ≠ '+' := by
  have : d = 0 ∨ d = 1 ∨ d = 2 ∨ d = 3 ∨ d = 4 ∨ d = 5 ∨ d = 6 ∨ d = 7 ∨ d = 8 ∨ d = 9 := by omega
  rcases this with h | h | h | h | h | h | h | h | h | h <;> subst h <;> decide

theorem parseDigits_natDigits (n : Nat) : parseDigits (natDigits n) 0 = some n := by
  induction n using Nat.strongRecOn with
  | _ n ih =>
    unfold natDigits
    split
    · rename_i h
      have := digit_char n h
      simp [parseDigits, this.1, this.2.1]
    · rename_i h
      have hd := digit_char (n % 10) (Nat.mod_lt _ (by omega))
      rw [parseDigits_append, ih (n / 10) (by omega)]
      simp [parseDigits, hd.1, hd.2.1]
      omega

theorem natDigits_head (n : Nat) : ∃ c r, natDigits n = c :: r ∧ c ≠ '-' ∧ c ≠ '+' := by
  induction n using Nat.strongRecOn with
  | _ n ih =>
    unfold natDigits
    split
    · rename_i h
      exact ⟨_, [], rfl, (digit_char n h).2.2⟩
    · rename_i h
      obtain ⟨c, r, hr, hc⟩ := ih (n / 10) (by omega)
      exact ⟨c, r ++ [Char.ofNat (48 + n % 10)], by rw [hr]; rfl, hc⟩

theorem splitSign_plain (c : Char) (r : List Char) (h1 : c ≠ '-') (h2 : c ≠ '+') : splitSign (c :: r) = (false, c :: r) := by
  unfold splitSign
  split
  · rename_i h; simp at h; exact absurd h.1 h1
  · rename_i h; simp at h; exact absurd h.1 h2
  · rfl

theorem atoiChars_natDigits (n : Nat) (h : n < intLimit) : atoiChars (natDigits n) = some (n : Int) := by
  obtain ⟨c, r, hr, h1, h2⟩ := natDigits_head n
  unfold atoiChars
  simp only [hr, splitSign_plain c r h1 h2]
  have hne : (c :: r).isEmpty = false := rfl
  rw [← hr, parseDigits_natDigits]
  rw [hr]
  simp [h]

theorem atoiChars_itoaChars (i : Int) (hlo : -(intLimit : Int) ≤ i) (hhi : i < (intLimit : Int)) :
    atoiChars (itoaChars i) = some i := by
  unfold itoaChars
  split
  · rename_i hneg
    unfold atoiChars
    simp only [splitSign]
    obtain ⟨c, r, hr, _, _⟩ := natDigits_head i.natAbs
    rw [parseDigits_natDigits]
    have : i.natAbs ≤ intLimit := by omega
    simp [hr, this]
    omega
  · rename_i hpos
    have h : i.toNat < intLimit := by omega
    rw [atoiChars_natDigits _ h]
    congr 1
    omega

theorem atoi_itoa (i : Int) (hlo : -(intLimit : Int) ≤ i) (hhi : i < (intLimit : Int)) : atoi (itoa i) = some i := by
  simp [atoi, itoa, String.toList_ofList, atoiChars_itoaChars i hlo hhi]

theorem natDigits_injective (a b : Nat) (h : natDigits a = natDigits b) : a = b := by
  have := parseDigits_natDigits a
  rw [h, parseDigits_natDigits] at this
  exact (Option.some.inj this).symm

theorem itoa_nat_injective (a b : Nat) (h : itoa (a : Int) = itoa (b : Int)) : a = b := by
  have h' := congrArg String.toList h
  simp only [itoa, String.toList_ofList, itoaChars] at h'
  have ha : ¬ ((a : Int) < 0) := by omega
  have hb : ¬ ((b : Int) < 0) := by omega
  simp only [ha, hb, if_false, Int.toNat_natCast] at h'
  exact natDigits_injective a b h'

theorem atoiChars_range (cs : List Char) (i : Int) (h : atoiChars cs = some i) :
    -(intLimit : Int) ≤ i ∧ i < (intLimit : Int) := by
  have hpos : (0 : Int) < (intLimit : Int) := by decide
  unfold atoiChars at h
  simp only at h
  split at h
  · cases h
  · split at h
    · cases h
    · rename_i n _
      split at h
      · split at h
        · cases h; omega
        · cases h
      · split at h
        · cases h; omega
        · cases h

theorem split_last {α} (c : α) : ∀ (a b x y : List α), c ∉ x → c ∉ y → a ++ c :: x = b ++ c :: y → a = b ∧ x = y
  | [], [], x, y, _, _, h => by simpa using h
  | [], b0 :: bs, x, y, hx, _, h => by
    simp only [List.nil_append, List.cons_append, List.cons.injEq] at h
    exact absurd (by rw [h.2]; simp) hx
  | a0 :: as, [], x, y, _, hy, h => by
    simp only [List.nil_append, List.cons_append, List.cons.injEq] at h
    exact absurd (by rw [← h.2]; simp) hy
  | a0 :: as, b0 :: bs, x, y, hx, hy, h => by
    simp only [List.cons_append, List.cons.injEq] at h
    obtain ⟨h1, h2⟩ := split_last c as bs x y hx hy h.2
    exact ⟨by rw [h.1, h1], h2⟩

theorem natDigits_all_digits (n : Nat) : ∀ c ∈ natDigits n, isDigit c = true := by
  induction n using Nat.strongRecOn with
  | _ n ih =>
    unfold natDigits
    split
    · rename_i h
      intro c hc
      simp only [List.mem_singleton] at hc
      rw [hc]; exact (digit_char n h).1
    · rename_i h
      intro c hc
      rcases List.mem_append.mp hc with h1 | h1
      · exact ih (n / 10) (by omega) c h1
      · simp only [List.mem_singleton] at h1
        rw [h1]; exact (digit_char (n % 10) (Nat.mod_lt _ (by omega))).1

theorem slash_not_in_digits (n : Nat) : '/' ∉ natDigits n := by
  intro h
  have := natDigits_all_digits n _ h
  revert this; decide

/-- for one base URL the rendering of (issuer, page) is injective — whatever the issuer string is -/
theorem renderSl_injective (base i1 i2 : String) (p1 p2 : Nat) (h : renderSl base i1 p1 = renderSl base i2 p2) : i1 = i2 ∧ p1 = p2 := by
  have h' := congrArg String.toList h
  simp only [renderSl, String.toList_ofList, renderSlChars, List.append_assoc] at h'
  have h2 := List.append_cancel_left (List.append_cancel_left h')
  obtain ⟨ha, hx⟩ := split_last '/' _ _ _ _ (slash_not_in_digits p1) (slash_not_in_digits p2) h2
  exact ⟨String.toList_injective ha, natDigits_injective _ _ hx⟩
end Nuts.C11.Wire
