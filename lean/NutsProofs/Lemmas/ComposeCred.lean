/-
  Helper lemmas of the composition C11 → C01 → (C12) → C02 (maps: NutsModel/Compose/Cred.lean).  Core Lean only.
-/
import NutsModel.Compose.Cred
import NutsProofs.Lemmas.C01
import NutsProofs.Lemmas.C11
import NutsProofs.Lemmas.C02c
namespace Nuts.Compose.Cred
open Nuts

/-! ### C11 → C01: a single-entry C11 verdict pins the record C01's environment reads -/

/-- if C11's `verify` answers revoked for the credential that carries ONLY this status entry (and no id), then the record
    `statusRecord` hands to C01 has the entry's purpose and the bit set -/
theorem status_bridge (E : C11.Env) (i : Bool) (w : C11.World) (st : C11.StatusEntry) (j : Nat)
    (hrel : st.relevant = true) (hidx : st.idx = some (j : Int))
    (h : (C11.verify E i w { id := none, issuer := "", statuses := some [st] }).1 = .revoked) :
    ∃ rec, statusRecord E i w st.list = some rec ∧ rec.purpose = st.purpose ∧ rec.bits.bit (j : Int) = .ok true := by
  simp only [C11.verify, C11.Node.credRevoked, C11.statusVerify, C11.verifyStatuses, hrel] at h
  simp only [Bool.false_eq_true, if_false, Bool.not_true] at h
  unfold statusRecord
  simp only
  generalize (if C11.needsFetch E w.now (w.get i) st.list then C11.download E w st.list else (C11.Fetch.fail, w)) = fw at h ⊢
  unfold C11.checkStatus at h
  cases hs : C11.statusList E fw.2.now (fw.2.get i) st.list fw.1 with
  | ok p =>
    obtain ⟨rec, n'⟩ := p
    simp only [hs, hidx] at h
    refine ⟨rec, rfl, ?_⟩
    by_cases hp : rec.purpose = st.purpose
    · refine ⟨hp, ?_⟩
      simp only [hp] at h
      cases hb : rec.bits.bit (j : Int) with
      | ok b => cases b <;> simp [hb] at h ⊢
      | err e => simp [hb] at h
      | panic s => simp [hb] at h
    · simp [hp] at h
  | err e => simp [hs] at h
  | panic s => simp [hs] at h


theorem relevant_status11 (g : Glue) (s : C01.Status) (hty : s.typ = C01.statusListEntryType) (hpu : s.purpose = "revocation") :
    (status11 g s).relevant = true := by
  simp [C11.StatusEntry.relevant, status11, hty, hpu, C01.statusListEntryType]

theorem statusVerdictL_revoked (E1 : C01.Env) (pre post : List C01.Status) (s : C01.Status) (sl : C01.StatusList) (j : Nat)
    (hpre : ∀ p ∈ pre, skipped p = true) (hty : s.typ = C01.statusListEntryType) (hv : s.entryValid = true)
    (hpu : s.purpose = "revocation") (hi : s.index = some j)
    (hsl : E1.statusList s.listCred = some sl) (hp : sl.purpose = s.purpose) (hb : sl.bit j = some true) :
    C01.statusVerdictL E1 (pre ++ s :: post) = .revoked := by
  induction pre with
  | nil =>
    simp [C01.statusVerdictL, hty, hv, hpu, hi, hsl, hp, hb]
  | cons p rest ih =>
    have hp' := hpre p (by simp)
    have ih' := ih (fun q hq => hpre q (by simp [hq]))
    simp only [List.cons_append]
    unfold C01.statusVerdictL
    simp only [skipped, Bool.or_eq_true, Bool.and_eq_true, bne_iff_ne, ne_eq] at hp'
    rcases hp' with h1 | ⟨h2, h3⟩
    · simp [h1, ih']
    · by_cases h1 : p.typ = C01.statusListEntryType
      · simp [h1, h2, h3, ih']
      · simp [h1, ih']

theorem verify_not_ok_of_revoked_id {cfg : C01.Cfg} {P : C01.Crypto} {E : C01.Env} {au cs : Bool} {at_ : Option C01.Time}
    {c : C01.Cred} {id : String} (hid : c.id = some id) (hr : E.revoked id = true) :
    C01.verify cfg P E au cs at_ c ≠ .ok () := by
  intro h
  have := (C01.verify_ok_iff.mp h).2.2.1 id hid
  rw [hr] at this
  exact absurd this.2 (by simp)

theorem verify_not_ok_of_status {cfg : C01.Cfg} {P : C01.Crypto} {E : C01.Env} {au cs : Bool} {at_ : Option C01.Time}
    {c : C01.Cred} (hs : C01.statusVerdict E c = .revoked) :
    C01.verify cfg P E au cs at_ c ≠ .ok () := by
  intro h
  exact (C01.verify_ok_iff.mp h).2.2.2.1 hs

theorem verifyVP_not_ok_of_vc {cfg : C01.Cfg} {P : C01.Crypto} {E : C01.Env} {au : Bool} {at_ : Option C01.Time}
    {vp : C01.Pres} {c : C01.Cred} (hc : c ∈ vp.vcs) (h : ∀ cs, C01.verify cfg P E au cs at_ c ≠ .ok ()) :
    C01.verifyVP cfg P E true au at_ vp ≠ .ok () := by
  intro hv
  obtain ⟨_, _, _, _, _, _, _, hall⟩ := C01.verifyVP_ok_iff.mp hv
  exact h _ (hall rfl c hc)

/-- C01's `PresentationSigner` never yields the empty DID when the DID-URL parser never does -/
theorem signer_ne_empty (E : C01.Env) (hdid : ∀ u, E.didOfURL u ≠ some "") (vp : C01.Pres) :
    C01.presentationSigner E vp ≠ some "" := by
  unfold C01.presentationSigner
  repeat' split
  all_goals first | exact hdid _ | simp | skip
  all_goals (rename_i h; simpa using h)


/-! ### C02 side -/

theorem mergeClaims_single (c : C02.Claims) : C02.mergeClaims [c] [] = .ok c := by
  simp [C02.mergeClaims]

theorem s2sOf_vps (x : Ctx) (rw : C11.World) (t : Nat) (r : Req) : (s2sOf x rw t r).vps = r.vps.map (fun p => vpOf x rw t p.1 p.2) := rfl
theorem s2sOf_scope (x : Ctx) (rw : C11.World) (t : Nat) (r : Req) : (s2sOf x rw t r).scope = r.wire.scope := rfl
theorem s2sOf_subDefId (x : Ctx) (rw : C11.World) (t : Nat) (r : Req) : (s2sOf x rw t r).subDefId = r.wire.subDefId := rfl

theorem s2sOf_wf (x : Ctx) (rw : C11.World) (t : Nat) (r : Req) (hdid : ∀ u, x.base.didOfURL u ≠ some "") :
    ∀ vp ∈ (s2sOf x rw t r).vps, vp.signer ≠ some "" := by
  intro vp hvp
  rw [s2sOf_vps] at hvp
  obtain ⟨p, _, rfl⟩ := List.mem_map.mp hvp
  exact signer_ne_empty (x.env rw t) hdid p.1

theorem vpVerifies_accepts {x : Ctx} {rw : C11.World} {t : Nat} {cfg2 : C02.Cfg} {now : Nat} {vp : C01.Pres} {wire : C02.VP}
    (h : C02.vpVerifies cfg2 now (vpOf x rw t vp wire) = true) : accepts x rw t vp = true := by
  unfold C02.vpVerifies at h
  simp only [Bool.and_eq_true] at h
  exact h.1

/-- the composed 200: C02's `s2s_token_only_if` (`issueS2S_ok`) read back through the maps -/
theorem issue_ok (x : Ctx) (cfg2 : C02.Cfg) (rw : C11.World) (w w' : C02.World) (now : Nat) (r : Req) (resp : C02.TokenResponse)
    (hchk : cfg2.emptyVpChecked = true) (httl : cfg2.nonceTtl ≠ 0) (hdid : ∀ u, x.base.didOfURL u ≠ some "")
    (h : C02.issueS2S cfg2 w now (s2sOf x rw now r) = (w', .ok resp)) :
    (∀ p ∈ r.vps, accepts x rw now p.1 = true) ∧
    ∃ defs d vals dpop, cfg2.definitions r.wire.scope = some defs ∧ C02.findDef defs r.wire.subDefId = some d ∧
      fieldsOf x rw now r.pres r.sub d.key = .ok vals ∧
      resp.token = C02.tokName w.nextTok ∧ w'.nextTok = w.nextTok + 1 ∧
      w'.tokens = w.tokens.put now cfg2.tokenTtl (C02.tokName w.nextTok)
        { issuer := cfg2.issuerURL r.wire.subject, clientId := r.wire.clientId, scope := r.wire.scope, issuedAt := now,
          expiration := now + cfg2.tokenValidity, dpop := dpop, claims := x.g.render vals, defs := defs,
          submissions := [r.wire.subDefId], vps := r.vps.length } := by
  obtain ⟨s, d, hc, he⟩ := C02.issueS2S_ok cfg2 w w' now _ resp hchk httl (s2sOf_wf x rw now r hdid) h
  refine ⟨?_, ?_⟩
  · intro p hp
    have := hc.verified (vpOf x rw now p.1 p.2) (by rw [s2sOf_vps]; exact List.mem_map.mpr ⟨p, hp, rfl⟩)
    exact vpVerifies_accepts this
  · obtain ⟨defs, hdefs, hfind⟩ := hc.scope
    obtain ⟨defs', claims, dpop, hdefs', hmerge, _, hrec⟩ := he.record
    have hpex := hc.pex
    rw [s2sOf_scope] at hdefs hdefs'
    rw [s2sOf_subDefId] at hfind
    rw [hdefs] at hdefs'
    cases hdefs'
    have hpex' : (fieldsOf x rw now r.pres r.sub d.key).isOk = true := hpex
    cases hf : fieldsOf x rw now r.pres r.sub d.key with
    | err e => rw [hf] at hpex'; cases hpex'
    | panic e => rw [hf] at hpex'; cases hpex'
    | ok vals =>
      have hcl : (s2sOf x rw now r).claims d.key = x.g.render vals := by
        show (match fieldsOf x rw now r.pres r.sub d.key with | .ok vals => x.g.render vals | _ => []) = _
        rw [hf]
      rw [hcl, mergeClaims_single] at hmerge
      cases hmerge
      refine ⟨defs, d, vals, dpop, hdefs, hfind, hf, he.token, he.next, ?_⟩
      rw [hrec]
      simp [s2sOf]

/-! ### histories -/

theorem runEv_cons (x : Ctx) (cfg2 : C02.Cfg) (s : St) (e : Ev) (rest : List Ev) :
    runEv x cfg2 s (e :: rest) = runEv x cfg2 (stepEv x cfg2 s e).1 rest := rfl

theorem runEv_append (x : Ctx) (cfg2 : C02.Cfg) (s : St) (a b : List Ev) :
    runEv x cfg2 s (a ++ b) = runEv x cfg2 (runEv x cfg2 s a) b := by
  simp [runEv, List.foldl_append]

/-- the revocation layer of a composed history IS a C11 history -/
theorem runEv_rw (x : Ctx) (cfg2 : C02.Cfg) (evs : List Ev) : ∀ s : St,
    (runEv x cfg2 s evs).rw = C11.run x.E11 x.K s.rw (revActs evs) := by
  induction evs with
  | nil => intro s; rfl
  | cons e rest ih =>
    intro s
    rw [runEv_cons, ih]
    cases e with
    | rev a => simp [stepEv, revActs, C11.run]
    | req t r => simp [stepEv, revActs]

/-- the token endpoint of a composed history IS a C02 history -/
theorem runEv_as (x : Ctx) (cfg2 : C02.Cfg) (sha : String → String) (evs : List Ev) : ∀ s : St,
    (runEv x cfg2 s evs).as = C02.after cfg2 sha (trace x cfg2 s evs) s.as := by
  induction evs with
  | nil => intro s; simp [runEv, trace, C02.after, C02.run]
  | cons e rest ih =>
    intro s
    rw [runEv_cons, ih]
    cases e with
    | rev a => simp [trace, opOf, stepEv]
    | req t r => simp [trace, opOf, C02.after_cons, stepEv, C02.step]

theorem trace_append (x : Ctx) (cfg2 : C02.Cfg) (a b : List Ev) : ∀ s : St,
    trace x cfg2 s (a ++ b) = trace x cfg2 s a ++ trace x cfg2 (runEv x cfg2 s a) b := by
  induction a with
  | nil => intro s; rfl
  | cons e rest ih =>
    intro s
    simp only [List.cons_append, trace, runEv_cons]
    cases opOf x s e <;> simp [ih]

theorem trace_wf (x : Ctx) (cfg2 : C02.Cfg) (hdid : ∀ u, x.base.didOfURL u ≠ some "") (evs : List Ev) : ∀ s : St,
    C02.HistWF (trace x cfg2 s evs) := by
  induction evs with
  | nil => intro s t r h; simp [trace] at h
  | cons e rest ih =>
    intro s t r h
    cases e with
    | rev a => simp only [trace, opOf] at h; exact ih _ t r h
    | req t' r' =>
      simp only [trace, opOf, List.mem_cons, Prod.mk.injEq, C02.Op.s2s.injEq] at h
      rcases h with ⟨_, rfl⟩ | h
      · exact s2sOf_wf x s.rw t' r' hdid
      · exact ih _ t r h


/-! ### "revoked in a C11 history" and the split of a composed history at a C02 operation -/

/-- credential `c` (a C01 document) was revoked for node `i` in the C11 history `acts` from `w0`: either a network
    revocation whose subject is the credential's id was ACCEPTED by node `i` at some point (C11 `registerRevocation`),
    or the issuer's `Revoke` of the list position named by the credential's first relevant status entry SUCCEEDED on node `i`
    (the node that manages the list).  What happens before and after is arbitrary. -/
inductive RevokedIn (g : Glue) (E : C11.Env) (K : C11.KeyEnv) (w0 : C11.World) (i : Bool) (c : C01.Cred) : List C11.Act → Prop where
  | network (before after : List C11.Act) (r : C11.Revocation) (n' : C11.Node)
      (hacc : C11.registerRevocation K ((C11.run E K w0 before).get i) r = .ok n') (hc : c.id = some r.subject) :
      RevokedIn g E K w0 i c (before ++ [.register i r] ++ after)
  | status (before after : List C11.Act) (credId : String) (e : C11.StatusEntry) (n1 : C11.Node)
      (hrev : C11.revoke E (C11.run E K w0 before).now ((C11.run E K w0 before).get i) credId e = .ok n1)
      (pre post : List C01.Status) (s : C01.Status) (hc : c.statuses = some (pre ++ s :: post))
      (hpre : ∀ p ∈ pre, skipped p = true) (hty : s.typ = C01.statusListEntryType) (hv : s.entryValid = true)
      (hpu : s.purpose = "revocation") (hlist : g.urlOf s.listCred = e.list) (hidx : s.index.map Int.ofNat = e.idx) :
      RevokedIn g E K w0 i c (before ++ [.revoke i credId e] ++ after)
  /-- the list is managed by the OTHER node: node `i` has, at some point, refreshed its record of that list after the issuer set
      the bit (C11 `Pin`: it holds a record with purpose revocation and the bit set; `refresh_after_revocation_pins` says when) -/
  | refreshed (before after : List C11.Act) (hc0 : C11.CacheSound w0) (ob iss : String) (p j : Nat)
      (hpin : C11.Pin (C11.run E K w0 before) i ob iss p j)
      (pre post : List C01.Status) (s : C01.Status) (hc : c.statuses = some (pre ++ s :: post))
      (hpre : ∀ p ∈ pre, skipped p = true) (hty : s.typ = C01.statusListEntryType) (hv : s.entryValid = true)
      (hpu : s.purpose = "revocation") (hlist : g.urlOf s.listCred = .sl ob iss p) (hidx : s.index = some j) :
      RevokedIn g E K w0 i c (before ++ after)

theorem RevokedIn.extend {g : Glue} {E : C11.Env} {K : C11.KeyEnv} {w0 : C11.World} {i : Bool} {c : C01.Cred} {acts : List C11.Act}
    (h : RevokedIn g E K w0 i c acts) (more : List C11.Act) : RevokedIn g E K w0 i c (acts ++ more) := by
  cases h with
  | network before after r n' hacc hc =>
    rw [List.append_assoc]; exact .network before (after ++ more) r n' hacc hc
  | status before after credId e n1 hrev pre post s hc hpre hty hv hpu hlist hidx =>
    rw [List.append_assoc]; exact .status before (after ++ more) credId e n1 hrev pre post s hc hpre hty hv hpu hlist hidx
  | refreshed before after hc0 ob iss p j hpin pre post s hc hpre hty hv hpu hlist hidx =>
    rw [List.append_assoc]; exact .refreshed before (after ++ more) hc0 ob iss p j hpin pre post s hc hpre hty hv hpu hlist hidx

theorem revActs_append (a b : List Ev) : revActs (a ++ b) = revActs a ++ revActs b := by
  induction a with
  | nil => rfl
  | cons e rest ih => cases e <;> simp [revActs, ih]

theorem put_inj {α} (s : C02.Store α) (now ttl : Nat) (k : String) (v v' : α) (httl : ttl ≠ 0)
    (h : s.put now ttl k v = s.put now ttl k v') : v = v' := by
  simp [C02.Store.put, httl] at h
  exact h

/-- a C02 operation of the trace of a composed history is a token request event of that history, in the state reached there -/
theorem trace_split (x : Ctx) (cfg2 : C02.Cfg) : ∀ (evs : List Ev) (s : St) (pre' post' : List (Nat × C02.Op)) (t : Nat) (op : C02.Op),
    trace x cfg2 s evs = pre' ++ (t, op) :: post' →
    ∃ pre r post, evs = pre ++ Ev.req t r :: post ∧ trace x cfg2 s pre = pre' ∧
      op = .s2s (s2sOf x (runEv x cfg2 s pre).rw t r) := by
  intro evs
  induction evs with
  | nil => intro s pre' post' t op h; simp [trace] at h
  | cons e rest ih =>
    intro s pre' post' t op h
    cases e with
    | rev a =>
      simp only [trace, opOf] at h
      obtain ⟨pre, r, post, h1, h2, h3⟩ := ih _ pre' post' t op h
      exact ⟨.rev a :: pre, r, post, by simp [h1], by simp [trace, opOf, h2], by rw [runEv_cons]; exact h3⟩
    | req t0 r0 =>
      simp only [trace, opOf] at h
      cases pre' with
      | nil =>
        simp only [List.nil_append, List.cons.injEq, Prod.mk.injEq] at h
        obtain ⟨⟨rfl, rfl⟩, _⟩ := h
        exact ⟨[], r0, rest, rfl, rfl, rfl⟩
      | cons q pre'' =>
        simp only [List.cons_append, List.cons.injEq] at h
        obtain ⟨hq, h⟩ := h
        obtain ⟨pre, r, post, h1, h2, h3⟩ := ih _ pre'' post' t op h
        exact ⟨.req t0 r0 :: pre, r, post, by simp [h1], by simp [trace, opOf, h2, hq], by rw [runEv_cons]; exact h3⟩

/-! ### what a 200 of the composed token endpoint established -/

theorem isOk_unit {r : Res Unit} (h : r.isOk = true) : r = .ok () := by
  cases r with
  | ok u => rfl
  | err e => cases h
  | panic e => cases h

theorem accepts_iff (x : Ctx) (rw : C11.World) (t : Nat) (vp : C01.Pres) :
    accepts x rw t vp = true ↔ C01.verifyVP x.cfg1 x.P (x.env rw t) true true none vp = .ok () := by
  unfold accepts
  constructor
  · exact isOk_unit
  · intro h; rw [h]; rfl

theorem fieldsOf_ok {x : Ctx} {rw : C11.World} {t : Nat} {vps : List C01.Pres} {sub : List C12.Mapping} {k : Nat} {vals : C12.Values}
    (h : fieldsOf x rw t vps sub k = .ok vals) :
    ∃ m cm, C12.validate x.cfg12 x.re x.decode (x.g.pdOf k) (envelopeOf x rw t vps) sub = .ok m ∧
      C12.resolve x.cfg12 x.decode (x.g.envJ vps) [] sub = .ok cm ∧
      C12.resolveFields x.cfg12 x.re (x.g.pdOf k) [] cm = .ok vals := by
  unfold fieldsOf at h
  split at h
  · rename_i m hm
    split at h
    · rename_i cm hcm
      exact ⟨m, cm, hm, hcm, h⟩
    · cases h
    · cases h
  · cases h
  · cases h

/-- what the composed request established when C02 answers 200 -/
def Established (x : Ctx) (cfg2 : C02.Cfg) (rw : C11.World) (t : Nat) (r : Req) (claims : C02.Claims) : Prop :=
  (∀ p ∈ r.vps, C01.verifyVP x.cfg1 x.P (x.env rw t) true true none p.1 = .ok ()) ∧
  ∃ defs d m cm vals, cfg2.definitions r.wire.scope = some defs ∧ C02.findDef defs r.wire.subDefId = some d ∧
    C12.validate x.cfg12 x.re x.decode (x.g.pdOf d.key) (envelopeOf x rw t r.pres) r.sub = .ok m ∧
    C12.resolve x.cfg12 x.decode (x.g.envJ r.pres) [] r.sub = .ok cm ∧
    C12.resolveFields x.cfg12 x.re (x.g.pdOf d.key) [] cm = .ok vals ∧
    claims = x.g.render vals

theorem issue_established (x : Ctx) (cfg2 : C02.Cfg) (rw : C11.World) (w w' : C02.World) (now : Nat) (r : Req) (resp : C02.TokenResponse)
    (hchk : cfg2.emptyVpChecked = true) (httl : cfg2.nonceTtl ≠ 0) (hdid : ∀ u, x.base.didOfURL u ≠ some "")
    (h : C02.issueS2S cfg2 w now (s2sOf x rw now r) = (w', .ok resp)) :
    ∃ rec : C02.TokenRec, Established x cfg2 rw now r rec.claims ∧ resp.token = C02.tokName w.nextTok ∧ w'.nextTok = w.nextTok + 1 ∧
      w'.tokens = w.tokens.put now cfg2.tokenTtl (C02.tokName w.nextTok) rec ∧ rec.issuedAt = now ∧
      rec.expiration = now + cfg2.tokenValidity := by
  obtain ⟨hacc, defs, d, vals, dpop, hd, hf, hfo, htok, hnext, hrec⟩ := issue_ok x cfg2 rw w w' now r resp hchk httl hdid h
  obtain ⟨m, cm, hm, hcm, hv⟩ := fieldsOf_ok hfo
  exact ⟨_, ⟨fun p hp => (accepts_iff x rw now p.1).mp (hacc p hp), defs, d, m, cm, vals, hd, hf, hm, hcm, hv, rfl⟩, htok, hnext, hrec, rfl, rfl⟩


end Nuts.Compose.Cred
